(* The comparer rejects (AssertionError) every single difference of any class between a
   named, well-formed netlist value and its copy. *)
From Coq Require Import String List Arith NArith ZArith Bool Lia Permutation.
From SV Require Import Base.Base Cmp.Comparer Cmp.Diff Proofs.CmpBase Proofs.CmpPinSet Proofs.CmpAccept.
Import ListNotations.

Ltac len_splice :=
  match goal with
  | |- context [Nat.eqb (length (?a ++ ?x :: ?b)) (length (?a ++ ?y :: ?b))] =>
    replace (Nat.eqb (length (a ++ x :: b)) (length (a ++ y :: b))) with true
      by (symmetry; apply Nat.eqb_eq; rewrite !app_length; reflexivity)
  end.

(* ---------- names are all that named_ok reads ---------- *)
Lemma names_of_ext {A} (name : A -> oname) l : forall l',
  map name l = map name l' -> names_of name l = names_of name l'.
Proof.
  induction l as [|x l IH]; intros [|y l'] H; try discriminate; [reflexivity|].
  cbn in H. inversion H as [[H1 H2]]. cbn. rewrite H1, (IH l' H2). reflexivity.
Qed.

Lemma named_ok_ext {A} (name : A -> oname) l l' :
  map name l = map name l' -> named_ok name l = named_ok name l'.
Proof. intro H. unfold named_ok. rewrite (names_of_ext name l l' H). reflexivity. Qed.

Lemma map_splice {A B} (g : A -> B) l1 x y l2 :
  g y = g x -> map g (l1 ++ x :: l2) = map g (l1 ++ y :: l2).
Proof. intro H. rewrite !map_app. cbn. rewrite H. reflexivity. Qed.

(* name-keyed comparison across a splice that keeps the name *)
Lemma cmp_each_splice_reject {A} (name : A -> oname) skip f l1 x y l2 :
  named_ok name (l1 ++ x :: l2) = true -> name y = name x ->
  (forall z, In z l1 -> skip z = false -> f z z = Accept) -> skip x = false ->
  f x y = Reject ->
  cmp_each name skip (fun n => lookup name n (l1 ++ y :: l2)) f (l1 ++ x :: l2) = Reject.
Proof.
  intros Hn Hy Hp Hx Hf.
  rewrite cmp_each_zip.
  - apply cmp_zip_splice_reject; assumption.
  - rewrite <- (named_ok_ext name (l1 ++ x :: l2)); [assumption|apply map_splice; assumption].
  - apply map_splice. assumption.
Qed.

(* ---------- ports ---------- *)
Lemma port_diff_name m p p' : port_diff m p p' -> p_name p' = p_name p.
Proof. destruct 1; reflexivity. Qed.

Lemma port_diff_reject m x p p' : port_diff m p p' -> cmp_port x x p p' = Reject.
Proof.
  destruct 1 as [p d' Hd|p w' arr' Hw|p]; unfold cmp_port;
    cbn [p_name p_oid p_dir p_array p_width]; rewrite !oname_eqb_refl; cbn [check seq].
  - rewrite dir_eqb_neq by congruence. reflexivity.
  - rewrite dir_eqb_refl. cbn [check seq]. destruct (Bool.eqb (p_array p) arr'); [|reflexivity].
    cbn [check seq].
    replace (Nat.eqb (p_width p) w') with false; [reflexivity|].
    symmetry. apply Nat.eqb_neq. congruence.
  - rewrite dir_eqb_refl. cbn [check seq]. destruct (p_array p); reflexivity.
Qed.

(* ---------- pins ---------- *)
Lemma inst_equiv_same n r x q b q' b' :
  inst_equiv (mkopin n r x q b) (mkopin n r x q' b') = Accept.
Proof.
  unfold inst_equiv. cbn [op_inst op_ref op_parent fst snd].
  rewrite !oname_eqb_refl. cbn [andb check].
  destruct (asg_class n); [rewrite str_eqb_refl|]; reflexivity.
Qed.

Lemma inner_equiv_verdict b q x b' q' x' : verdict (inner_equiv b q x b' q' x').
Proof. unfold inner_equiv. apply verdict_seq; apply verdict_check. Qed.

Lemma inner_equiv_port b q x b' q' : q <> q' -> inner_equiv b q x b' q' x = Reject.
Proof.
  intro H. unfold inner_equiv. rewrite (oname_eqb_neq q q' H). cbn.
  destruct (Nat.eqb b b'); reflexivity.
Qed.

Lemma inner_equiv_bit b q x b' q' : b <> b' -> inner_equiv b q x b' q' x = Reject.
Proof.
  intro H. unfold inner_equiv. replace (Nat.eqb b b') with false; [reflexivity|].
  symmetry. apply Nat.eqb_neq. assumption.
Qed.

Definition not_asg (io : list inst) : Prop := forall i, In i io -> is_asg_inst i = false.

Lemma wf_pin_out io n q b : wf_pin io (POut (Some n) q b) = true ->
  exists i r, find (has_name i_name n) io = Some i /\ i_ref i = Some r /\ In i io /\ i_name i = Some n.
Proof.
  cbn. destruct (find (has_name i_name n) io) as [i|] eqn:Ef; [|discriminate].
  destruct (i_ref i) as [r|] eqn:Er; [|discriminate]. intros _.
  apply find_has_name_some in Ef as Hf. destruct Hf. exists i, r. auto.
Qed.

Lemma not_asg_name io i n : not_asg io -> In i io -> i_name i = Some n -> asg_class (Some n) = None.
Proof.
  intros H Hin Hn. specialize (H i Hin). unfold is_asg_inst in H. rewrite Hn in H.
  destruct (asg_class (Some n)); [discriminate|reflexivity].
Qed.

Lemma pin_diff_reject m x io p p' :
  not_asg io -> wf_pin io p = true -> wf_pin io p' = true -> pin_diff m p p' ->
  cmp_pin x x io io p p' = Reject.
Proof.
  intros Hna Hp Hp' Hd. destruct Hd as [i i' q q' b b' Hne|i q q' b b' Hne|q q' b b' Hne|i q b b' Hne|q b b' Hne].
  - destruct (wf_pin_out _ _ _ _ Hp) as [a [r [Ef [Er [Hin Hn]]]]].
    destruct (wf_pin_out _ _ _ _ Hp') as [a' [r' [Ef' [Er' [Hin' Hn']]]]].
    unfold cmp_pin. cbn [resolve]. rewrite Ef, Er, Ef', Er'.
    unfold inst_equiv. cbn [op_inst].
    rewrite (not_asg_name io a i Hna Hin Hn). cbn [oname_eqb].
    rewrite str_eqb_neq by assumption. reflexivity.
  - destruct i as [n|]; [|discriminate].
    destruct (wf_pin_out _ _ _ _ Hp) as [a [r [Ef [Er [Hin Hn]]]]].
    unfold cmp_pin. cbn [resolve]. rewrite Ef, Er.
    rewrite inst_equiv_same.
    cbn [seq op_bit op_port op_ref]. apply inner_equiv_port. assumption.
  - unfold cmp_pin. cbn [resolve]. apply inner_equiv_port. assumption.
  - destruct i as [n|]; [|discriminate].
    destruct (wf_pin_out _ _ _ _ Hp) as [a [r [Ef [Er [Hin Hn]]]]].
    unfold cmp_pin. cbn [resolve]. rewrite Ef, Er.
    rewrite inst_equiv_same.
    cbn [seq op_bit op_port op_ref]. apply inner_equiv_bit. assumption.
  - unfold cmp_pin. cbn [resolve]. apply inner_equiv_bit. assumption.
Qed.

Lemma cmp_pin_verdict2 x io ic o c :
  not_asg io -> wf_pin io o = true -> wf_pin ic c = true -> verdict (cmp_pin x x io ic o c).
Proof.
  intros Hna Hp Hp'.
  destruct o as [q b|[n|] q b| | | |]; try discriminate; destruct c as [q' b'|[n'|] q' b'| | | |]; try discriminate.
  - unfold cmp_pin. cbn [resolve]. apply inner_equiv_verdict.
  - destruct (wf_pin_out _ _ _ _ Hp') as [a' [r' [Ef' [Er' [Hin' Hn']]]]].
    unfold cmp_pin. cbn [resolve]. rewrite Ef', Er'. right. reflexivity.
  - destruct (wf_pin_out _ _ _ _ Hp) as [a [r [Ef [Er [Hin Hn]]]]].
    unfold cmp_pin. cbn [resolve]. rewrite Ef, Er. right. reflexivity.
  - destruct (wf_pin_out _ _ _ _ Hp) as [a [r [Ef [Er [Hin Hn]]]]].
    destruct (wf_pin_out _ _ _ _ Hp') as [a' [r' [Ef' [Er' [Hin' Hn']]]]].
    unfold cmp_pin. cbn [resolve]. rewrite Ef, Er, Ef', Er'.
    apply verdict_seq; [|apply inner_equiv_verdict].
    unfold inst_equiv. cbn [op_inst op_ref op_parent].
    rewrite (not_asg_name io a n Hna Hin Hn).
    apply verdict_seq; apply verdict_check.
Qed.

Lemma cmp_pin_verdict x io ic p :
  not_asg io -> wf_pin io p = true -> wf_pin ic p = true -> verdict (cmp_pin x x io ic p p).
Proof. apply cmp_pin_verdict2. Qed.

(* the key of a well-formed pin whose instance is not named like an assignment *)
Lemma raw_key_noasg io p : not_asg io -> wf_pin io p = true ->
  (exists q b, p = PIn q b /\ raw_key p = inr (false, None, q, Some b)) \/
  (exists n q b, p = POut (Some n) q b /\ asg_class (Some n) = None /\
                 raw_key p = inr (true, Some n, q, Some b)).
Proof.
  intros Hna Hp. destruct p as [q b|[n|] q b| | | |]; try discriminate.
  - left. exists q, b. split; reflexivity.
  - right. destruct (wf_pin_out _ _ _ _ Hp) as [a [r [Ef [Er [Hin Hn]]]]].
    pose proof (not_asg_name io a n Hna Hin Hn) as Hs.
    exists n, q, b. split; [reflexivity|]. split; [assumption|]. cbn [raw_key]. unfold inst_key. rewrite Hs. reflexivity.
Qed.

Lemma raw_key_noasg_some io p : not_asg io -> wf_pin io p = true -> exists k, raw_key p = inr k.
Proof.
  intros Hna Hp. destruct (raw_key_noasg io p Hna Hp) as [[q [b [_ H]]]|[n [q [b [_ [_ H]]]]]]; eauto.
Qed.

(* the same wire read with two children lists: every pin meets itself *)
Lemma cmp_wire_same x io ic w :
  not_asg io -> forallb (wf_pin io) w = true -> forallb (wf_pin ic) w = true ->
  cmp_wire x x io ic w w = zip_pins x x io ic w w.
Proof.
  intros Hna H H'. rewrite forallb_forall in H, H'. apply cmp_wire_zip.
  - intros c Hc. rewrite (pin_key_raw x ic c (H' c Hc)). apply (raw_key_noasg_some io); auto.
  - apply Forall2_same. intros p Hp. rewrite (pin_key_raw x io p (H p Hp)), (pin_key_raw x ic p (H' p Hp)).
    reflexivity.
Qed.

Lemma zip_pins_verdict x io ic w :
  not_asg io -> forallb (wf_pin io) w = true -> forallb (wf_pin ic) w = true ->
  verdict (zip_pins x x io ic w w).
Proof.
  intro Hna. induction w as [|p w IH]; cbn; intros H H'; [left; reflexivity|].
  apply andb_true_iff in H as [H1 H2]. apply andb_true_iff in H' as [H1' H2'].
  apply verdict_seq; [apply cmp_pin_verdict; assumption|apply IH; assumption].
Qed.

Lemma cmp_wire_verdict x io ic w :
  not_asg io -> forallb (wf_pin io) w = true -> forallb (wf_pin ic) w = true ->
  verdict (cmp_wire x x io ic w w).
Proof. intros Hna H H'. rewrite cmp_wire_same by assumption. apply zip_pins_verdict; assumption. Qed.

Lemma cmp_wires_verdict x io ic ws :
  not_asg io -> forallb (forallb (wf_pin io)) ws = true -> forallb (forallb (wf_pin ic)) ws = true ->
  verdict (cmp_wires x x io ic ws ws).
Proof.
  intro Hna. induction ws as [|w ws IH]; cbn; intros H H'; [left; reflexivity|].
  apply andb_true_iff in H as [H1 H2]. apply andb_true_iff in H' as [H1' H2'].
  apply verdict_seq; [apply cmp_wire_verdict; assumption|apply IH; assumption].
Qed.

Lemma cmp_cable_verdict x io ic c :
  not_asg io -> wf_cable io c = true -> wf_cable ic c = true -> verdict (cmp_cable x x io ic c c).
Proof.
  intros Hna H H'. unfold cmp_cable.
  repeat (apply verdict_seq; [apply verdict_check|]). apply cmp_wires_verdict; assumption.
Qed.

(* ---------- an accepted pair of pins is the same designator; an accepted wire carries the
   same pins ---------- *)
Lemma check_accept b : check b = Accept <-> b = true.
Proof. destruct b; cbn; split; congruence. Qed.

Lemma inner_equiv_sound bo qo xo bc qc xc :
  inner_equiv bo qo xo bc qc xc = Accept -> bo = bc /\ qo = qc.
Proof.
  unfold inner_equiv. intro H. apply seq_accept in H as [H1 H2].
  apply check_accept in H1, H2. apply Nat.eqb_eq in H1. apply andb_true_iff in H2 as [H2 _].
  apply oname_eqb_spec in H2. split; assumption.
Qed.

Lemma cmp_pin_sound xo xc io ic po pc :
  fst xo <> None ->
  not_asg io -> wf_pin io po = true -> cmp_pin xo xc io ic po pc = Accept -> pc = po.
Proof.
  intros Hxo Hna Hw Hc. destruct po as [q b|[n|] q b| | | |]; try discriminate.
  - (* a pin of a port of the definition *)
    unfold cmp_pin in Hc. cbn [resolve] in Hc.
    destruct pc as [q' b'|[n'|] q' b'|n' rd rl q' b'|rd rl q' b'| |]; cbn [resolve] in Hc; try discriminate.
    + apply inner_equiv_sound in Hc as [-> ->]. reflexivity.
    + destruct (find (has_name i_name n') ic) as [i'|]; [|discriminate].
      destruct (i_ref i'); discriminate.
  - (* a pin of a child *)
    destruct (wf_pin_out _ _ _ _ Hw) as [i [r [Ef [Er [Hin Hn]]]]].
    pose proof (not_asg_name io i n Hna Hin Hn) as Hasg.
    unfold cmp_pin in Hc. cbn [resolve] in Hc. rewrite Ef, Er in Hc.
    destruct pc as [q' b'|[n'|] q' b'|n' rd rl q' b'|rd rl q' b'| |]; cbn [resolve] in Hc; try discriminate.
    + destruct (find (has_name i_name n') ic) as [i'|]; [|discriminate].
      destruct (i_ref i') as [r'|]; [|discriminate].
      apply seq_accept in Hc as [H1 H2].
      cbn [op_bit op_port op_ref] in H2. apply inner_equiv_sound in H2 as [-> ->].
      unfold inst_equiv in H1. cbn [op_inst] in H1. rewrite Hasg in H1.
      apply seq_accept in H1 as [H1 _]. apply check_accept in H1. apply oname_eqb_spec in H1.
      inversion H1. subst n'. reflexivity.
    + apply seq_accept in Hc as [H1 _]. unfold inst_equiv in H1.
      apply seq_accept in H1 as [_ H1]. cbn [op_ref op_parent fst snd pctx] in H1.
      apply check_accept in H1. apply andb_true_iff in H1 as [H1 _].
      apply andb_true_iff in H1 as [_ H1]. apply oname_eqb_spec in H1. contradiction.
    + apply seq_accept in Hc as [H1 _]. unfold inst_equiv in H1. cbn [op_inst] in H1.
      rewrite Hasg in H1. discriminate.
Qed.

(* the pins of an accepted wire are those of the original wire, in some order *)
Lemma cmp_wire_sound xo xc io ic wo wc : fst xo <> None -> not_asg io -> forallb (wf_pin io) wo = true ->
  cmp_wire xo xc io ic wo wc = Accept -> Permutation wo wc.
Proof.
  intros Hxo Hna Hw Hc. destruct (cmp_wire_matched _ _ _ _ _ _ Hc) as [wm [Hp HF]].
  assert (wm = wo); [|subst; apply Permutation_sym; assumption].
  clear Hp Hc. revert Hw. induction HF as [|o c wo' wm' Hoc HF' IH]; intro Hw; [reflexivity|].
  cbn in Hw. apply andb_true_iff in Hw as [Hw1 Hw2].
  rewrite (cmp_pin_sound _ _ _ _ _ _ Hxo Hna Hw1 Hoc), (IH Hw2). reflexivity.
Qed.

Lemma pin_diff_neq m p p' : pin_diff m p p' -> p <> p'.
Proof. destruct 1; intro Heq; inversion Heq; congruence. Qed.

(* ---------- wires and cables across a splice ---------- *)
(* one pin replaced by a different one: whatever the order, the pins no longer are the same *)
Lemma cmp_wire_splice_reject m x io P1 p p' P2 :
  fst x <> None -> (forall i, In i io -> asg_ok i) -> not_asg io ->
  forallb (wf_pin io) (P1 ++ p :: P2) = true -> wf_pin io p' = true -> pin_diff m p p' ->
  cmp_wire x x io io (P1 ++ p :: P2) (P1 ++ p' :: P2) = Reject.
Proof.
  intros Hx Hio Hna Hw Hp' Hd.
  assert (Hw' : forallb (wf_pin io) (P1 ++ p' :: P2) = true).
  { rewrite forallb_app in *. cbn in *. apply andb_true_iff in Hw as [H1 H2].
    apply andb_true_iff in H2 as [_ H2]. rewrite H1, Hp', H2. reflexivity. }
  assert (Hv : verdict (cmp_wire x x io io (P1 ++ p :: P2) (P1 ++ p' :: P2))).
  { rewrite forallb_forall in Hw, Hw'. apply cmp_wire_verdict_gen.
    - intros o Ho. apply pin_key_wf; auto.
    - intros c Hc. apply pin_key_wf; auto.
    - intros o c Ho Hc. apply cmp_pin_verdict2; auto. }
  destruct Hv as [Ha|Hr]; [exfalso|assumption].
  apply cmp_wire_sound in Ha; [|assumption|assumption|assumption].
  apply (perm_splice_same pinref_eq_dec) in Ha. exact (pin_diff_neq m p p' Hd Ha).
Qed.

Lemma cmp_wires_splice x io W1 w w' W2 :
  (forall i, In i io -> asg_ok i) -> forallb (forallb (wf_pin io)) W1 = true ->
  cmp_wires x x io io (W1 ++ w :: W2) (W1 ++ w' :: W2) =
  seq (cmp_wire x x io io w w') (cmp_wires x x io io W2 W2).
Proof.
  intro Hio. induction W1 as [|z W1 IH]; cbn; intro H; [reflexivity|].
  apply andb_true_iff in H as [H1 H2].
  rewrite cmp_wire_refl by assumption. cbn. apply IH. assumption.
Qed.

Lemma forallb_app_l {A} (g : A -> bool) l1 l2 : forallb g (l1 ++ l2) = true -> forallb g l1 = true.
Proof. rewrite forallb_app. intro H. apply andb_true_iff in H as [H _]. assumption. Qed.

Lemma forallb_app_mid {A} (g : A -> bool) l1 x l2 : forallb g (l1 ++ x :: l2) = true -> g x = true.
Proof.
  rewrite forallb_app. cbn. intro H. apply andb_true_iff in H as [_ H].
  apply andb_true_iff in H as [H _]. assumption.
Qed.

Lemma cable_diff_name io m c c' : cable_diff io m c c' -> c_name c' = c_name c.
Proof. destruct 1; reflexivity. Qed.

Lemma cable_diff_reject io m x c c' :
  fst x <> None -> (forall i, In i io -> asg_ok i) -> not_asg io -> wf_cable io c = true ->
  cable_diff io m c c' -> cmp_cable x x io io c c' = Reject.
Proof.
  intros Hx Hio Hna Hc Hd. destruct Hd as [c ws' Hl|m c ws' Hs]; unfold cmp_cable; cbn [c_name c_oid c_wires];
    rewrite !oname_eqb_refl; cbn [check seq].
  - replace (Nat.eqb (length (c_wires c)) (length ws')) with false; [reflexivity|].
    symmetry. apply Nat.eqb_neq. congruence.
  - unfold wf_cable in Hc.
    inversion Hs as [W1 w w' W2 Hw HW HW']. rewrite <- HW in Hc. unfold wire in *.
    rewrite (length_splice W1 w w' W2), Nat.eqb_refl. cbn [check seq].
    rewrite cmp_wires_splice by (try assumption; eapply forallb_app_l; eassumption).
    assert (Hwf : forallb (wf_pin io) w = true) by (eapply forallb_app_mid; eassumption).
    inversion Hw as [P1 p p' P2 [Hpd Hp'] HP HP']. rewrite <- HP in Hwf.
    rewrite (cmp_wire_splice_reject m x io P1 p p' P2); try assumption. reflexivity.
Qed.

(* ---------- instances ---------- *)
Lemma cmp_items_splice_reject D1 k v v' D2 :
  keys_nodup (D1 ++ (k, v) :: D2) = true -> pval_eqb v v' = false ->
  forall todo done, D1 = done ++ todo ->
  cmp_items (todo ++ (k, v) :: D2) (D1 ++ (k, v') :: D2) = Reject.
Proof.
  intros Hk Hv. induction todo as [|[k1 v1] todo IH]; intros done HD; cbn.
  - rewrite sassoc_app_notin by (eapply keys_nodup_notin; eassumption).
    cbn. rewrite str_eqb_refl, Hv. reflexivity.
  - subst D1. rewrite <- app_assoc. cbn [app].
    rewrite sassoc_app_notin.
    2:{ rewrite <- app_assoc in Hk. cbn [app] in Hk. eapply keys_nodup_notin. eassumption. }
    cbn. rewrite str_eqb_refl, pval_eqb_refl. cbn [check seq].
    specialize (IH (done ++ [(k1, v1)])). rewrite <- !app_assoc in IH. cbn [app] in IH.
    apply IH. reflexivity.
Qed.

(* the entries before the one that differs are accepted *)
Lemma cmp_props_prefix L1 r r' : forallb keys_nodup L1 = true ->
  cmp_props (L1 ++ r) (L1 ++ r') = cmp_props r r'.
Proof.
  induction L1 as [|e L1 IH]; intro Hk; [reflexivity|].
  cbn in Hk. apply andb_true_iff in Hk as [He Hk]. cbn [app cmp_props].
  rewrite keys_eqb_refl. cbn [check seq].
  rewrite (cmp_items_suffix e He e []) by reflexivity. cbn [seq]. apply IH. assumption.
Qed.

(* the keys of a dictionary do not depend on the values *)
Lemma has_key_splice k D1 k0 (v v' : pval) D2 :
  has_key k (D1 ++ (k0, v) :: D2) = has_key k (D1 ++ (k0, v') :: D2).
Proof.
  unfold has_key. induction D1 as [|[k1 v1] D1 IH]; cbn.
  - destruct (str_eqb k k0); reflexivity.
  - destruct (str_eqb k k1); [reflexivity|apply IH].
Qed.

Lemma keys_eqb_splice D1 k v v' D2 :
  keys_eqb (D1 ++ (k, v) :: D2) (D1 ++ (k, v') :: D2) = true.
Proof.
  unfold keys_eqb. apply andb_true_iff. split; apply forallb_forall; intros kv Hin.
  - rewrite <- (has_key_splice (fst kv) D1 k v v' D2). apply in_has_key. assumption.
  - rewrite (has_key_splice (fst kv) D1 k v v' D2). apply in_has_key. assumption.
Qed.

(* a key that only the second dictionary has *)
Lemma keys_eqb_extra d kv : has_key (fst kv) d = false -> keys_eqb d (d ++ [kv]) = false.
Proof.
  intro H. unfold keys_eqb. rewrite forallb_app. cbn [forallb]. rewrite H.
  rewrite andb_false_r. cbn. apply andb_false_r.
Qed.

Lemma cmp_ref_neq r r' : r' <> r -> cmp_ref (Some r) (Some r') = Reject.
Proof.
  destruct r as [d1 l1], r' as [d2 l2]. intro H. cbn.
  destruct (oname_eqb d1 d2) eqn:E1; [|reflexivity].
  destruct (oname_eqb l1 l2) eqn:E2; [|reflexivity].
  apply oname_eqb_spec in E1, E2. subst. contradiction.
Qed.

Lemma inst_diff_name m i i' : inst_diff m i i' -> i_name i' = i_name i.
Proof. destruct 1; reflexivity. Qed.

Lemma inst_diff_reject m i i' :
  props_ok i -> inst_diff m i i' -> cmp_inst (Some i) (Some i') = Reject.
Proof.
  intros Hp Hd.
  destruct Hd as [i r r' Hr Hne|i ps ps' Hps Hs|i ps' Hps|i ps d Hps|i ps l1 d kv l2 Hps Hl Hnew];
    unfold cmp_inst; cbn [oi_name oi_oid i_name i_oid i_ref i_props]; rewrite !oname_eqb_refl; cbn [check seq].
  - rewrite Hr, (cmp_ref_neq r r' Hne). reflexivity.
  - rewrite cmp_ref_refl. cbn [seq]. unfold props_ok in Hp. rewrite Hps in *.
    inversion Hs as [L1 d d' L2 Hdd HL HL']. subst ps.
    assert (HL1 : forallb keys_nodup L1 = true) by (eapply forallb_app_l; eassumption).
    rewrite (length_splice L1 d d' L2), Nat.eqb_refl. cbn [check seq].
    rewrite (cmp_props_prefix L1 (d :: L2) (d' :: L2) HL1). cbn [cmp_props].
    destruct Hdd as [D1 k v v' D2 Hv].
    rewrite keys_eqb_splice. cbn [check seq].
    rewrite (cmp_items_splice_reject D1 k v v' D2) with (done := []); try reflexivity; try assumption.
    eapply forallb_app_mid. eassumption.
  - (* EDIF.properties only on the copy *)
    rewrite cmp_ref_refl, Hps. reflexivity.
  - (* one more entry in the copy *)
    rewrite cmp_ref_refl, Hps. cbn [seq].
    replace (Nat.eqb (length ps) (length (ps ++ [d]))) with false; [reflexivity|].
    symmetry. apply Nat.eqb_neq. rewrite app_length. cbn. lia.
  - (* one more key in an entry of the copy *)
    rewrite cmp_ref_refl, Hps. cbn [seq]. unfold props_ok in Hp. rewrite Hps in Hp. subst ps.
    assert (HL1 : forallb keys_nodup l1 = true) by (eapply forallb_app_l; eassumption).
    rewrite (length_splice l1 d (d ++ [kv]) l2), Nat.eqb_refl. cbn [check seq].
    rewrite (cmp_props_prefix l1 (d :: l2) ((d ++ [kv]) :: l2) HL1). cbn [cmp_props].
    rewrite (keys_eqb_extra d kv Hnew). reflexivity.
Qed.

(* ---------- definitions ---------- *)
Record wf_def_facts (d : defn) : Prop := {
  wd_np : named_ok p_name (d_ports d) = true;
  wd_nc : named_ok c_name (d_cables d) = true;
  wd_wc : forallb (wf_cable (d_insts d)) (d_cables d) = true;
  wd_ni : named_ok i_name (d_insts d) = true;
  wd_wi : forall i, In i (d_insts d) -> wf_inst i = true }.

Lemma wf_def_unpack d : wf_def d = true -> wf_def_facts d.
Proof.
  unfold wf_def. intro H. split_andb. split; try assumption.
  - intros i Hi. rewrite forallb_forall in H0. apply H0. assumption.
Qed.

Lemma ports_stage_refl x d : wf_def_facts d ->
  cmp_each p_name no_skip (fun n => lookup p_name n (d_ports d)) (cmp_port x x) (d_ports d) = Accept.
Proof.
  intros [Hnp _ _ _ _]. rewrite cmp_each_zip by (assumption || reflexivity).
  apply cmp_zip_refl. intros p Hp _. apply cmp_port_refl.
Qed.

Lemma asg_ok_all d : wf_def_facts d -> forall i, In i (d_insts d) -> asg_ok i.
Proof. intros H i Hi. apply wf_inst_asg_ok. apply (wd_wi d H). assumption. Qed.

Lemma cables_stage_refl x d : wf_def_facts d ->
  cmp_each c_name no_skip (fun n => lookup c_name n (d_cables d))
           (cmp_cable x x (d_insts d) (d_insts d)) (d_cables d) = Accept.
Proof.
  intros H. rewrite cmp_each_zip by (apply (wd_nc d H) || reflexivity).
  apply cmp_zip_refl. intros c Hc _. apply cmp_cable_refl; [apply asg_ok_all; assumption|].
  pose proof (wd_wc d H) as Hw. rewrite forallb_forall in Hw. apply Hw. assumption.
Qed.

Lemma cables_stage_verdict x d xs : wf_def_facts d -> not_asg (d_insts d) -> pins_ok xs d ->
  verdict (cmp_each c_name no_skip (fun n => lookup c_name n (d_cables d))
                    (cmp_cable x x (d_insts d) xs) (d_cables d)).
Proof.
  intros H Hna Hok. rewrite cmp_each_zip by (apply (wd_nc d H) || reflexivity).
  apply cmp_zip_verdict. intros c Hc _. apply cmp_cable_verdict; [assumption| |].
  - pose proof (wd_wc d H) as Hw. rewrite forallb_forall in Hw. apply Hw. assumption.
  - unfold pins_ok in Hok. rewrite forallb_forall in Hok. apply Hok. assumption.
Qed.

Lemma not_asg_of d : no_asg_def d = true -> not_asg (d_insts d).
Proof.
  unfold no_asg_def, not_asg. intros H i Hi. rewrite forallb_forall in H.
  apply negb_true_iff. apply H. assumption.
Qed.

(* pins resolve in a children list that differs from the original one only inside instances
   that keep their name and keep having a reference *)
Lemma find_splice_keep l1 (i i' : inst) l2 n :
  i_name i' = i_name i ->
  match find (has_name i_name n) (l1 ++ i :: l2), find (has_name i_name n) (l1 ++ i' :: l2) with
  | Some a, Some a' => a = a' \/ (a = i /\ a' = i')
  | None, None => True
  | _, _ => False
  end.
Proof.
  intro Hn. assert (Hh : has_name i_name n i' = has_name i_name n i)
    by (unfold has_name; rewrite Hn; reflexivity).
  induction l1 as [|z l1 IH]; cbn.
  - rewrite Hh. destruct (has_name i_name n i); [right; split; reflexivity|].
    destruct (find (has_name i_name n) l2); [left; reflexivity|exact I].
  - destruct (has_name i_name n z); [left; reflexivity|assumption].
Qed.

Lemma wf_pin_splice l1 i i' l2 p :
  i_name i' = i_name i -> (i_ref i = None -> i_ref i' = None -> True) ->
  (exists r, i_ref i = Some r) -> (exists r', i_ref i' = Some r') \/ i_ref i' = i_ref i ->
  wf_pin (l1 ++ i :: l2) p = true -> wf_pin (l1 ++ i' :: l2) p = true.
Proof.
  intros Hn _ [r Hr] Hr'. destruct p as [q b|[n|] q b| | | |]; cbn; try tauto.
  pose proof (find_splice_keep l1 i i' l2 n Hn) as Hf.
  destruct (find (has_name i_name n) (l1 ++ i :: l2)) as [a|];
    destruct (find (has_name i_name n) (l1 ++ i' :: l2)) as [a'|]; try tauto; try discriminate.
  destruct Hf as [->|[-> ->]]; [tauto|].
  rewrite Hr. intros _. destruct Hr' as [[r' ->]| ->]; [reflexivity|rewrite Hr; reflexivity].
Qed.

Lemma wf_pin_splice_noref l1 i i' l2 p :
  i_name i' = i_name i -> i_ref i' = i_ref i ->
  wf_pin (l1 ++ i :: l2) p = true -> wf_pin (l1 ++ i' :: l2) p = true.
Proof.
  intros Hn Hr. destruct p as [q b|[n|] q b| | | |]; cbn; try tauto.
  pose proof (find_splice_keep l1 i i' l2 n Hn) as Hf.
  destruct (find (has_name i_name n) (l1 ++ i :: l2)) as [a|];
    destruct (find (has_name i_name n) (l1 ++ i' :: l2)) as [a'|]; try tauto; try discriminate.
  destruct Hf as [->|[-> ->]]; [tauto|]. rewrite Hr. tauto.
Qed.

Lemma inst_diff_pins_ok m l1 i i' l2 d :
  d_insts d = l1 ++ i :: l2 -> inst_diff m i i' ->
  forallb (wf_cable (d_insts d)) (d_cables d) = true -> pins_ok (l1 ++ i' :: l2) d.
Proof.
  intros Hd Hdiff Hw. unfold pins_ok. rewrite Hd in Hw.
  rewrite forallb_forall in *. intros c Hc. specialize (Hw c Hc). unfold wf_cable in *.
  rewrite forallb_forall in *. intros w Hwi. specialize (Hw w Hwi).
  rewrite forallb_forall in *. intros p Hp. specialize (Hw p Hp).
  destruct Hdiff as [i r r' Hr Hne|i ps ps' Hps Hs| | |].
  - eapply wf_pin_splice; try eassumption; cbn; eauto.
  - eapply wf_pin_splice_noref; try eassumption; reflexivity.
  - eapply wf_pin_splice_noref; try eassumption; reflexivity.
  - eapply wf_pin_splice_noref; try eassumption; reflexivity.
  - eapply wf_pin_splice_noref; try eassumption; reflexivity.
Qed.

Lemma def_diff_name m d d' : def_diff m d d' -> d_name d' = d_name d /\ d_oid d' = d_oid d.
Proof. destruct 1; split; reflexivity. Qed.

Lemma def_diff_reject m lo d d' :
  d_name d <> None -> wf_def d = true -> no_asg_def d = true -> def_diff m d d' ->
  cmp_def lo lo d d' = Reject.
Proof.
  intros Hdn Hwf Hna Hd. apply wf_def_unpack in Hwf. apply not_asg_of in Hna.
  pose proof (asg_ok_all d Hwf) as Hasg.
  destruct Hd as [m d ps' Hs|d ps' Hs|d ps' Hs|m d cs' Hs|d cs' Hs|d cs' Hs|m d xs' Hs|d xs' Hs Hok|d xs' Hs Hok];
    unfold cmp_def, set_ports, set_cables, set_insts;
    cbn [d_name d_oid d_ports d_cables d_insts]; rewrite !oname_eqb_refl; cbn [check seq].
  - (* one port differs *)
    inversion Hs as [l1 p p' l2 Hpd Hl Hr]. rewrite (length_splice l1 p p' l2), Nat.eqb_refl. cbn [check seq].
    rewrite cmp_each_splice_reject; try reflexivity.
    + rewrite Hl. apply (wd_np d Hwf).
    + eapply port_diff_name. eassumption.
    + intros z Hz _. apply cmp_port_refl.
    + eapply port_diff_reject. eassumption.
  - inversion Hs as [l1 p l2 Hl Hr]. rewrite length_app_cons_neq. reflexivity.
  - inversion Hs as [l1 p l2 Hl Hr]. rewrite length_app_cons_neq'. reflexivity.
  - (* one cable differs *)
    rewrite Nat.eqb_refl, ports_stage_refl by assumption. cbn [check seq].
    inversion Hs as [l1 c c' l2 Hcd Hl Hr]. rewrite (length_splice l1 c c' l2), Nat.eqb_refl. cbn [check seq].
    pose proof (wd_wc d Hwf) as Hwc. rewrite <- Hl in Hwc.
    rewrite cmp_each_splice_reject; try reflexivity.
    + rewrite Hl. apply (wd_nc d Hwf).
    + eapply cable_diff_name. eassumption.
    + intros z Hz _. apply cmp_cable_refl; [assumption|].
      rewrite forallb_forall in Hwc. apply Hwc. apply in_or_app. left. assumption.
    + eapply cable_diff_reject; try eassumption. eapply forallb_app_mid. eassumption.
  - rewrite Nat.eqb_refl, ports_stage_refl by assumption. cbn [check seq].
    inversion Hs as [l1 c l2 Hl Hr]. rewrite length_app_cons_neq. reflexivity.
  - rewrite Nat.eqb_refl, ports_stage_refl by assumption. cbn [check seq].
    inversion Hs as [l1 c l2 Hl Hr]. rewrite length_app_cons_neq'. reflexivity.
  - (* one instance differs *)
    rewrite !Nat.eqb_refl, ports_stage_refl by assumption. cbn [check seq].
    inversion Hs as [l1 i i' l2 Hid Hl Hr].
    apply seq_verdict_reject.
    { rewrite Hl. apply cables_stage_verdict; try assumption.
      eapply inst_diff_pins_ok; try eassumption; [symmetry; assumption|apply (wd_wc d Hwf)]. }
    rewrite (length_splice l1 i i' l2), Nat.eqb_refl. cbn [check seq].
    assert (Hin : In i (d_insts d)) by (rewrite <- Hl; apply in_or_app; right; left; reflexivity).
    rewrite cmp_each_splice_reject; try reflexivity.
    + rewrite Hl. apply (wd_ni d Hwf).
    + eapply inst_diff_name. eassumption.
    + intros z Hz _. apply cmp_inst_refl. apply wf_inst_props_ok. apply (wd_wi d Hwf).
      rewrite <- Hl. apply in_or_app. left. assumption.
    + apply Hna. assumption.
    + eapply inst_diff_reject; try eassumption. apply wf_inst_props_ok. apply (wd_wi d Hwf). assumption.
  - rewrite !Nat.eqb_refl, ports_stage_refl by assumption. cbn [check seq].
    apply seq_verdict_reject; [apply cables_stage_verdict; assumption|].
    inversion Hs as [l1 i l2 Hl Hr]. rewrite length_app_cons_neq. reflexivity.
  - rewrite !Nat.eqb_refl, ports_stage_refl by assumption. cbn [check seq].
    apply seq_verdict_reject; [apply cables_stage_verdict; assumption|].
    inversion Hs as [l1 i l2 Hl Hr]. rewrite length_app_cons_neq'. reflexivity.
Qed.

(* ---------- libraries and netlists ---------- *)
Lemma named_ok_in {A} (name : A -> oname) l x : named_ok name l = true -> In x l -> name x <> None.
Proof.
  intros H Hin. apply named_ok_spec in H as [ns [Hm _]].
  destruct (map_some_in name l ns x Hm Hin) as [n [Hn _]]. congruence.
Qed.

Lemma lib_diff_name m l l' : lib_diff m l l' -> l_name l' = l_name l.
Proof. destruct 1; reflexivity. Qed.

Lemma lib_diff_reject m l l' :
  wf_lib l = true -> forallb no_asg_def (l_defs l) = true -> lib_diff m l l' ->
  cmp_lib l l' = Reject.
Proof.
  unfold wf_lib. intros Hwf Hna Hd. apply andb_true_iff in Hwf as [Hn Hw].
  rewrite forallb_forall in Hw, Hna.
  destruct Hd as [m l ds' Hs|l ds' Hs|l ds' Hs]; unfold cmp_lib; cbn [l_name l_oid l_defs];
    rewrite !oname_eqb_refl; cbn [check seq].
  - inversion Hs as [l1 d d' l2 Hdd Hl Hr]. rewrite (length_splice l1 d d' l2), Nat.eqb_refl. cbn [check seq].
    assert (Hin : In d (l_defs l)) by (rewrite <- Hl; apply in_or_app; right; left; reflexivity).
    rewrite cmp_each_splice_reject; try reflexivity.
    + rewrite Hl. assumption.
    + apply (def_diff_name m d d' Hdd).
    + intros z Hz _. apply cmp_def_refl. apply Hw. rewrite <- Hl. apply in_or_app. left. assumption.
    + apply (def_diff_reject m); auto. apply (named_ok_in d_name (l_defs l)); assumption.
  - inversion Hs as [l1 d l2 Hl Hr]. rewrite length_app_cons_neq. reflexivity.
  - inversion Hs as [l1 d l2 Hl Hr]. rewrite length_app_cons_neq'. reflexivity.
Qed.

Theorem nv_diff_reject m a b :
  wf_named a -> no_asg a -> nv_diff m a b -> cmp_run a b = Reject.
Proof.
  unfold wf_named, wf_namedb, no_asg, no_asgb. intros Hwf Hna Hd. split_andb.
  rename H into Ht, H1 into Hn, H0 into Hw. rewrite forallb_forall in Hw, Hna.
  destruct Hd as [m a ls' Hs|a ls' Hs|a ls' Hs|m a t t' Htop Hid]; unfold cmp_run;
    cbn [n_name n_oid n_top n_libs]; rewrite !oname_eqb_refl; cbn [check seq].
  - replace (match n_top a with Some i => _ | None => _ end) with Accept.
    2:{ destruct (n_top a) as [i|]; [|reflexivity]. symmetry. apply cmp_top_refl. assumption. }
    cbn [seq].
    inversion Hs as [l1 l l' l2 Hld Hl Hr]. rewrite (length_splice l1 l l' l2), Nat.eqb_refl. cbn [check seq].
    assert (Hin : In l (n_libs a)) by (rewrite <- Hl; apply in_or_app; right; left; reflexivity).
    rewrite cmp_each_splice_reject; try reflexivity.
    + rewrite Hl. assumption.
    + apply (lib_diff_name m l l' Hld).
    + intros z Hz _. apply cmp_lib_refl. apply Hw. rewrite <- Hl. apply in_or_app. left. assumption.
    + apply (lib_diff_reject m); auto.
  - replace (match n_top a with Some i => _ | None => _ end) with Accept.
    2:{ destruct (n_top a) as [i|]; [|reflexivity]. symmetry. apply cmp_top_refl. assumption. }
    cbn [seq]. inversion Hs as [l1 l l2 Hl Hr]. rewrite length_app_cons_neq. reflexivity.
  - replace (match n_top a with Some i => _ | None => _ end) with Accept.
    2:{ destruct (n_top a) as [i|]; [|reflexivity]. symmetry. apply cmp_top_refl. assumption. }
    cbn [seq]. inversion Hs as [l1 l l2 Hl Hr]. rewrite length_app_cons_neq'. reflexivity.
  - rewrite Htop in *. rewrite (inst_diff_reject m t t'); try assumption; [reflexivity|].
    unfold props_ok. cbn in Ht. destruct (i_props t); [assumption|exact I].
Qed.

Theorem single_diff_rejected a b :
  wf_named a -> no_asg a -> single_diff a b -> compare a b = false.
Proof.
  intros Hwf Hna [m Hd]. unfold compare. rewrite (nv_diff_reject m a b); auto.
Qed.
