(* C11, occurrences of an element: HRef.get_all_hrefs_of_item (Hier/Enum.v: hrefs_of_item) returns,
   without duplicates, exactly the references that end in the element - for an instance, a port,
   a cable, an inner pin, a wire; the instance paths ending in an instance of a definition for a
   definition; the pin references below the paths of its instance for an outer pin.

   The code finds the top instances from where the instances SIT (upward walk through parent
   definitions and their instances), so the statements need no hypothesis on what the element's
   instance references nor on the library of the definition that owns it: an instance without a
   reference, and the elements of a definition that was never added to a library, get exactly their
   occurrences (before the repair of get_all_hrefs_of_instances these two shapes got nothing:
   findings C11-instance-without-reference, C11-definition-outside-library; the witness of the latter
   is the Example occurrences_outside_library at the end of this file). Occurrences below the top
   instances of several netlists are all returned. *)
From Coq Require Import List Arith Bool Lia Relations.
From SV Require Import Base.Base IR.State IR.NS IR.Ops Proofs.Inv1a Proofs.Inv2a Proofs.C01_lemmas
  Hier.Paths Hier.Enum Proofs.HierValid Proofs.HierEnum Proofs.HierC11 Proofs.HierOcc.
Import ListNotations.

(* the netlist of the library of a definition *)
Definition def_netlist (s : state) (d : id) : option id :=
  match par s RDefs d with Some l => par s RLibs l | None => None end.

Lemma root_netlist_def s x d : iref s x = Some d -> root_netlist s x = def_netlist s d.
Proof. intro E. unfold root_netlist, def_netlist. rewrite E. reflexivity. Qed.

(* the definition that owns a port / cable / inner pin / wire *)
Definition owner_def (s : state) (e : id) : option id :=
  match kind_of s e with
  | Some KPort => par s RPorts e
  | Some KCable => par s RCables e
  | Some KPin => match par s RPins e with Some p => par s RPorts p | None => None end
  | Some KWire => match par s RWires e with Some c => par s RCables c | None => None end
  | _ => None
  end.

(* every occurrence of e hangs below the top instance t (used by the uniqueness theorems) *)
Definition under (s : state) (t e : id) : Prop :=
  forall h, occ s e h -> exists p, is_path s t p /\ exists q, h = q ++ p.

Lemma rpath_last s t p : is_rpath s t p -> exists q, p = q ++ [t].
Proof.
  induction 1 as [|c x p _ [q Hq] _]; [exists []; reflexivity|].
  exists (c :: q). rewrite Hq. reflexivity.
Qed.

Lemma same_top s t t' r p (pre q0 : list id) :
  is_rpath s t' r -> is_rpath s t p -> pre ++ r = q0 ++ p -> t' = t.
Proof.
  intros Hr Hp E. apply rpath_last in Hr as [a ->]. apply rpath_last in Hp as [b ->].
  rewrite !app_assoc in E. apply app_inj_tail in E. apply E.
Qed.

(* a sufficient condition: t is the only top instance in the heap (a single netlist with a top) *)
Lemma under_single_root s t e : (forall t', is_root s t' -> t' = t) -> under s t e.
Proof.
  intros R h [Hh _].
  destruct Hh as [t' p Hp|t' x p q Hp _|t' x p q i Hp _ _|t' x p c Hp _|t' x p c w Hp _ _];
    pose proof (R t' (proj1 Hp)) as ->; eexists; (split; [exact Hp|]).
  - exists []. reflexivity.
  - exists [q]. reflexivity.
  - exists [i; q]. reflexivity.
  - exists [c]. reflexivity.
  - exists [w; c]. reflexivity.
Qed.

(* if all occurrences of e hang below t, an instance path that carries an occurrence starts at t *)
Lemma under_top s t e h t' r pre :
  under s t e -> occ s e h -> h = pre ++ r -> is_rpath s t' r -> t' = t.
Proof.
  intros U Ho -> Hr. destruct (U _ Ho) as (p & [_ Hp] & q & E). eapply same_top; eassumption.
Qed.

Section Occ.
Variable s : state.
Hypothesis HWF : WF s.

Let I1 : Inv1a s := wf_inv1 s HWF.
Let I2 : Inv2a s := wf_inv2 s HWF.
Let W : WFk s := wf_kinds s HWF.
Let A : acyclic s := wf_acyclic s HWF.

(* ---- the valid instance paths (from any top instance) that end in an instance of d ---- *)
Definition ipaths_of_def (d : id) (p : href) : Prop :=
  exists x p' t, p = x :: p' /\ is_path s t p /\ iref s x = Some d.

Lemma insts_of_def d :
  exists l0, hrefs_of_instances s (drefs s d) = Some l0 /\ NoDup l0 /\
             forall p, In p l0 <-> ipaths_of_def d p.
Proof.
  destruct (hrefs_of_instances_spec s (drefs s d) I1 I2 W A) as (l0 & E0 & N0 & S0).
  exists l0. split; [exact E0|]. split; [exact N0|]. intro p. rewrite S0. unfold ipaths_of_def, ends_in. split.
  - intros [(t & Hp) (x & Hx & Hi)]. destruct p as [|y p']; [discriminate|]. cbn in Hx. inversion Hx; subst y.
    exists x, p', t. repeat split; [apply Hp|apply Hp|]. apply (i2_ref s I2). exact Hi.
  - intros (x & p' & t & -> & Hp & Hx). split; [exists t; exact Hp|]. exists x. split; [reflexivity|].
    apply (i2_ref s I2). exact Hx.
Qed.

(* hanging a fixed prefix (port; port and pin; cable; cable and wire) on each of those paths *)
Lemma lift_spec (pre : list id) d l0 :
  NoDup l0 -> (forall p, In p l0 <-> ipaths_of_def d p) ->
  NoDup (map (fun p => pre ++ p) l0) /\
  forall h, In h (map (fun p => pre ++ p) l0) <->
            exists x p' t, h = pre ++ x :: p' /\ is_path s t (x :: p') /\ iref s x = Some d.
Proof.
  intros N0 S0. split.
  - apply nodup_map_inj; [|exact N0]. intros a b _ _ E. apply app_inv_head in E. exact E.
  - intro h. rewrite in_map_iff. split.
    + intros (p & <- & Hp). apply S0 in Hp as (x & p' & t & -> & Hp & Hx). exists x, p', t. auto.
    + intros (x & p' & t & -> & Hp & Hx). exists (x :: p'). split; [reflexivity|]. apply S0.
      exists x, p', t. auto.
Qed.

(* inversion of a reference headed by a pin / a wire *)
Lemma href_pin_inv i p :
  is_href s (i :: p) -> kind_of s i = Some KPin ->
  exists t' q x p', p = q :: x :: p' /\ is_path s t' (x :: p') /\ In q (ports_of s x) /\ In i (kids s RPins q).
Proof.
  intros H K. inversion H; subst.
  - match goal with Hx : is_path s _ _ |- _ => apply (path_head_kind s W) in Hx end. congruence.
  - match goal with Hx : In i (ports_of s _) |- _ => apply (port_kind s W) in Hx end. congruence.
  - eauto 9.
  - match goal with Hx : In i (cables_of s _) |- _ => apply (cable_kind s W) in Hx end. congruence.
  - match goal with Hx : In i (kids s RWires _) |- _ => apply (wire_kind s W) in Hx end. congruence.
Qed.

Lemma href_wire_inv w p :
  is_href s (w :: p) -> kind_of s w = Some KWire ->
  exists t' c x p', p = c :: x :: p' /\ is_path s t' (x :: p') /\ In c (cables_of s x) /\ In w (kids s RWires c).
Proof.
  intros H K. inversion H; subst.
  - match goal with Hx : is_path s _ _ |- _ => apply (path_head_kind s W) in Hx end. congruence.
  - match goal with Hx : In w (ports_of s _) |- _ => apply (port_kind s W) in Hx end. congruence.
  - match goal with Hx : In w (kids s RPins _) |- _ => apply (pin_kind s W) in Hx end. congruence.
  - match goal with Hx : In w (cables_of s _) |- _ => apply (cable_kind s W) in Hx end. congruence.
  - eauto 9.
Qed.

Lemma occ_head e h : occ s e h -> exists p, h = e :: p /\ is_href s (e :: p).
Proof.
  intros [Hh He]. destruct h as [|y p]; [discriminate|]. cbn in He. inversion He; subst y.
  exists p. split; [reflexivity|exact Hh].
Qed.

(* ---- instance ---- *)
Theorem occ_instance e :
  kind_of s e = Some KInstance ->
  exists l, hrefs_of_item s (QId e) = Some l /\ NoDup l /\ (forall h, In h l <-> occ s e h).
Proof.
  intros K. unfold hrefs_of_item. rewrite K.
  destruct (hrefs_of_instances_spec s [e] I1 I2 W A) as (l & E & N & S).
  exists l. split; [exact E|]. split; [exact N|]. intro h. rewrite S. split.
  - intros [(t & Hp) (x & Hx & [<-|[]])]. split; [|exact Hx]. apply (hr_inst s t). exact Hp.
  - intro Ho. destruct (occ_head e h Ho) as (p & -> & Hh).
    destruct (href_inst_inv s W e p Hh K) as [t' Hp].
    split; [exists t'; exact Hp|]. exists e. split; [reflexivity|left; reflexivity].
Qed.

(* ---- definition: the valid instance paths ending in one of its instances ---- *)
Theorem occ_definition d :
  kind_of s d = Some KDefinition ->
  exists l, hrefs_of_item s (QId d) = Some l /\ NoDup l /\
            (forall p, In p l <-> exists x p' t, p = x :: p' /\ is_path s t p /\ iref s x = Some d).
Proof. intros K. unfold hrefs_of_item. rewrite K. apply insts_of_def. Qed.

(* ---- port ---- *)
Theorem occ_port e :
  kind_of s e = Some KPort ->
  exists l, hrefs_of_item s (QId e) = Some l /\ NoDup l /\ (forall h, In h l <-> occ s e h).
Proof.
  intros K. unfold hrefs_of_item. rewrite K.
  assert (Inv : forall h, occ s e h -> exists d x p' t, par s RPorts e = Some d /\ h = [e] ++ x :: p' /\
                                      is_path s t (x :: p') /\ iref s x = Some d).
  { intros h Ho. destruct (occ_head e h Ho) as (p & -> & Hh).
    destruct (href_port_inv s W e p Hh K) as (t' & x & p' & -> & Hp & Hq).
    apply (ports_of_iff s) in Hq as (d & Ex & Hq). exists d, x, p', t'.
    split; [apply (i1_kids s I1); exact Hq|]. auto. }
  destruct (par s RPorts e) as [d|] eqn:P.
  - destruct (insts_of_def d) as (l0 & -> & N0 & S0). cbn [option_map].
    change (map (fun h => e :: h) l0) with (map (fun h => [e] ++ h) l0).
    destruct (lift_spec [e] d l0 N0 S0) as [N S]. eexists. split; [reflexivity|]. split; [exact N|].
    intro h. rewrite S. split.
    + intros (x & p' & t & -> & Hp & Hx). split; [|reflexivity]. apply (hr_port s t); [exact Hp|].
      apply (ports_of_iff s). exists d. split; [exact Hx|]. apply (i1_kids s I1). exact P.
    + intro Ho. destruct (Inv h Ho) as (d' & x & p' & t & Ed & -> & Hp & Hx). inversion Ed; subst d'. eauto 6.
  - exists []. split; [reflexivity|]. split; [constructor|]. intro h. split; [intros []|].
    intro Ho. destruct (Inv h Ho) as (d' & _ & _ & _ & Ed & _). discriminate.
Qed.

(* ---- cable ---- *)
Theorem occ_cable e :
  kind_of s e = Some KCable ->
  exists l, hrefs_of_item s (QId e) = Some l /\ NoDup l /\ (forall h, In h l <-> occ s e h).
Proof.
  intros K. unfold hrefs_of_item. rewrite K.
  assert (Inv : forall h, occ s e h -> exists d x p' t, par s RCables e = Some d /\ h = [e] ++ x :: p' /\
                                      is_path s t (x :: p') /\ iref s x = Some d).
  { intros h Ho. destruct (occ_head e h Ho) as (p & -> & Hh).
    destruct (href_cable_inv s W e p Hh K) as (t' & x & p' & -> & Hp & Hq).
    apply (cables_of_iff s) in Hq as (d & Ex & Hq). exists d, x, p', t'.
    split; [apply (i1_kids s I1); exact Hq|]. auto. }
  destruct (par s RCables e) as [d|] eqn:P.
  - destruct (insts_of_def d) as (l0 & -> & N0 & S0). cbn [option_map].
    change (map (fun h => e :: h) l0) with (map (fun h => [e] ++ h) l0).
    destruct (lift_spec [e] d l0 N0 S0) as [N S]. eexists. split; [reflexivity|]. split; [exact N|].
    intro h. rewrite S. split.
    + intros (x & p' & t & -> & Hp & Hx). split; [|reflexivity]. apply (hr_cable s t); [exact Hp|].
      apply (cables_of_iff s). exists d. split; [exact Hx|]. apply (i1_kids s I1). exact P.
    + intro Ho. destruct (Inv h Ho) as (d' & x & p' & t & Ed & -> & Hp & Hx). inversion Ed; subst d'. eauto 6.
  - exists []. split; [reflexivity|]. split; [constructor|]. intro h. split; [intros []|].
    intro Ho. destruct (Inv h Ho) as (d' & _ & _ & _ & Ed & _). discriminate.
Qed.

(* ---- inner pin ---- *)
Theorem occ_pin e :
  kind_of s e = Some KPin ->
  exists l, hrefs_of_item s (QId e) = Some l /\ NoDup l /\ (forall h, In h l <-> occ s e h).
Proof.
  intros K. unfold hrefs_of_item. rewrite K.
  assert (Inv : forall h, occ s e h -> exists q d x p' t, par s RPins e = Some q /\ par s RPorts q = Some d /\
                            h = [e; q] ++ x :: p' /\ is_path s t (x :: p') /\ iref s x = Some d).
  { intros h Ho. destruct (occ_head e h Ho) as (p & -> & Hh).
    destruct (href_pin_inv e p Hh K) as (t' & q & x & p' & -> & Hp & Hq & Hi).
    apply (ports_of_iff s) in Hq as (d & Ex & Hq). exists q, d, x, p', t'.
    split; [apply (i1_kids s I1); exact Hi|]. split; [apply (i1_kids s I1); exact Hq|]. auto. }
  destruct (par s RPins e) as [q|] eqn:Pq.
  - destruct (par s RPorts q) as [d|] eqn:P.
    + destruct (insts_of_def d) as (l0 & -> & N0 & S0). cbn [option_map].
      change (map (fun h => e :: q :: h) l0) with (map (fun h => [e; q] ++ h) l0).
      destruct (lift_spec [e; q] d l0 N0 S0) as [N S]. eexists. split; [reflexivity|]. split; [exact N|].
      intro h. rewrite S. split.
      * intros (x & p' & t & -> & Hp & Hx). split; [|reflexivity].
        apply (hr_pin s t); [exact Hp| |apply (i1_kids s I1); exact Pq].
        apply (ports_of_iff s). exists d. split; [exact Hx|]. apply (i1_kids s I1). exact P.
      * intro Ho. destruct (Inv h Ho) as (q' & d' & x & p' & t & Eq & Ed & -> & Hp & Hx).
        inversion Eq; subst q'. rewrite P in Ed. inversion Ed; subst d'. eauto 6.
    + exists []. split; [reflexivity|]. split; [constructor|]. intro h. split; [intros []|].
      intro Ho. destruct (Inv h Ho) as (q' & d' & _ & _ & _ & Eq & Ed & _). inversion Eq; subst q'.
      rewrite P in Ed. discriminate.
  - exists []. split; [reflexivity|]. split; [constructor|]. intro h. split; [intros []|].
    intro Ho. destruct (Inv h Ho) as (q' & _ & _ & _ & _ & Eq & _). discriminate.
Qed.

(* ---- wire ---- *)
Theorem occ_wire e :
  kind_of s e = Some KWire ->
  exists l, hrefs_of_item s (QId e) = Some l /\ NoDup l /\ (forall h, In h l <-> occ s e h).
Proof.
  intros K. unfold hrefs_of_item. rewrite K.
  assert (Inv : forall h, occ s e h -> exists q d x p' t, par s RWires e = Some q /\ par s RCables q = Some d /\
                            h = [e; q] ++ x :: p' /\ is_path s t (x :: p') /\ iref s x = Some d).
  { intros h Ho. destruct (occ_head e h Ho) as (p & -> & Hh).
    destruct (href_wire_inv e p Hh K) as (t' & q & x & p' & -> & Hp & Hq & Hi).
    apply (cables_of_iff s) in Hq as (d & Ex & Hq). exists q, d, x, p', t'.
    split; [apply (i1_kids s I1); exact Hi|]. split; [apply (i1_kids s I1); exact Hq|]. auto. }
  destruct (par s RWires e) as [q|] eqn:Pq.
  - destruct (par s RCables q) as [d|] eqn:P.
    + destruct (insts_of_def d) as (l0 & -> & N0 & S0). cbn [option_map].
      change (map (fun h => e :: q :: h) l0) with (map (fun h => [e; q] ++ h) l0).
      destruct (lift_spec [e; q] d l0 N0 S0) as [N S]. eexists. split; [reflexivity|]. split; [exact N|].
      intro h. rewrite S. split.
      * intros (x & p' & t & -> & Hp & Hx). split; [|reflexivity].
        apply (hr_wire s t); [exact Hp| |apply (i1_kids s I1); exact Pq].
        apply (cables_of_iff s). exists d. split; [exact Hx|]. apply (i1_kids s I1). exact P.
      * intro Ho. destruct (Inv h Ho) as (q' & d' & x & p' & t & Eq & Ed & -> & Hp & Hx).
        inversion Eq; subst q'. rewrite P in Ed. inversion Ed; subst d'. eauto 6.
    + exists []. split; [reflexivity|]. split; [constructor|]. intro h. split; [intros []|].
      intro Ho. destruct (Inv h Ho) as (q' & d' & _ & _ & _ & Eq & Ed & _). inversion Eq; subst q'.
      rewrite P in Ed. discriminate.
  - exists []. split; [reflexivity|]. split; [constructor|]. intro h. split; [intros []|].
    intro Ho. destruct (Inv h Ho) as (q' & _ & _ & _ & _ & Eq & _). discriminate.
Qed.

(* ---- outer pin (instance x, inner pin i): the pin references below the occurrences of x ---- *)
Theorem occ_outer_pin x i q :
  par s RPins i = Some q ->
  exists l, hrefs_of_item s (QOuter x i) = Some l /\ NoDup l /\
            (forall h, In h l <-> exists p' t, h = i :: q :: x :: p' /\ is_path s t (x :: p')).
Proof.
  intros P. unfold hrefs_of_item. rewrite P.
  destruct (hrefs_of_instances_spec s [x] I1 I2 W A) as (l0 & -> & N0 & S0).
  cbn [option_map]. eexists. split; [reflexivity|]. split.
  - apply nodup_map_inj; [|exact N0]. intros a b _ _ E. inversion E. reflexivity.
  - intro h. rewrite in_map_iff. split.
    + intros (p & <- & Hp). apply S0 in Hp as [(t & Hp) (y & Hy & [<-|[]])].
      destruct p as [|z p']; [discriminate|]. cbn in Hy. inversion Hy; subst z. exists p', t. auto.
    + intros (p' & t & -> & Hp). exists (x :: p'). split; [reflexivity|]. apply S0. split; [exists t; exact Hp|].
      exists x. split; [reflexivity|left; reflexivity].
Qed.

(* ... which are valid references as soon as the port of the inner pin is a port of the
   definition the instance references (the meaning of an outer pin) *)
Lemma outer_pin_refs_valid t x i q p' :
  par s RPins i = Some q -> In q (ports_of s x) -> is_path s t (x :: p') ->
  is_href s (i :: q :: x :: p').
Proof.
  intros P Hq Hp. apply (hr_pin s t); [exact Hp|exact Hq|]. apply (i1_kids s I1). exact P.
Qed.

(* ---- all kinds in one statement ---- *)
Theorem occ_item e :
  (kind_of s e = Some KInstance \/ kind_of s e = Some KPort \/ kind_of s e = Some KPin \/
   kind_of s e = Some KCable \/ kind_of s e = Some KWire) ->
  exists l, hrefs_of_item s (QId e) = Some l /\ NoDup l /\ (forall h, In h l <-> occ s e h).
Proof.
  intros [K|[K|[K|[K|K]]]].
  - apply occ_instance; auto.
  - apply occ_port; auto.
  - apply occ_pin; auto.
  - apply occ_cable; auto.
  - apply occ_wire; auto.
Qed.

End Occ.

(* ------------------------------------------------------------------------------------------ *)
(* the witness of the former finding C11-definition-outside-library, now answered.
   History: netlist 0, library 1, definition 2 (in the library), definition 3 created on its own and
   never added to a library, port 4 of 3, child 5 of 2 referencing 3, top instance 6 created from 2.
   The reference  port 4 :: instance 5 :: top 6  is valid, is enumerated by get_hports(netlist), and
   is what hrefs_of_item (port 4) returns; instance 5 (whose reference is in no library) gets its
   occurrence as well. *)
Definition w_ops : list op :=
  [ ONew KNetlist None [];
    OCreate RLibs 0 None [] 0 None;
    OCreate RDefs 1 None [] 0 None;
    ONew KDefinition None [];
    OCreate RPorts 3 None [] 0 None;
    OCreate RChildren 2 None [] 0 (Some 3);
    OSetTop 0 (TopDef 2) ].

Definition w_state : state := run w_ops init.

Lemma w_never_stuck : never_stuck w_ops init.
Proof. vm_compute. repeat split; discriminate. Qed.

Ltac w_split_id p := do 8 (try destruct p as [|p]).

Lemma w_wfk : WFk w_state.
Proof.
  constructor.
  - intros r p c H. destruct r; w_split_id p; vm_compute in H; try contradiction;
      repeat (destruct H as [H|H]; [subst c; vm_compute; reflexivity|]); contradiction.
  - intros r p c H. destruct r; w_split_id p; vm_compute in H; try contradiction;
      vm_compute; reflexivity.
  - intros x d H. w_split_id x; vm_compute in H; try discriminate; vm_compute; reflexivity.
  - intros r p c H. destruct r; w_split_id p; vm_compute in H; try contradiction;
      repeat (destruct H as [H|H]; [subst c; vm_compute; lia|]); contradiction.
  - intros x d H. w_split_id x; vm_compute in H; try discriminate; vm_compute; lia.
Qed.

Lemma w_child c x : child w_state c x -> x = 6 /\ c = 5.
Proof.
  unfold child. intro H. w_split_id x; vm_compute in H; try contradiction.
  destruct H as [<-|[]]. split; reflexivity.
Qed.

Lemma w_acyclic : acyclic w_state.
Proof.
  intro x. constructor. intros c H. apply w_child in H as [-> ->].
  constructor. intros c' H'. apply w_child in H' as [E _]. discriminate.
Qed.

Lemma w_wf : WF w_state.
Proof.
  constructor.
  - apply run_inv1a; [apply inv1a_init|apply w_never_stuck].
  - apply run_inv2a; [apply inv2a_init|apply w_never_stuck].
  - exact w_wfk.
  - exact w_acyclic.
Qed.

Lemma w_root6 : is_root w_state 6.
Proof. exists 0. split; vm_compute; reflexivity. Qed.

Lemma w_occ : occ w_state 4 [4; 5; 6].
Proof.
  split; [|reflexivity]. apply (hr_port w_state 6).
  - split; [exact w_root6|]. apply rp_child; [apply rp_top|]. vm_compute. left. reflexivity.
  - vm_compute. left. reflexivity.
Qed.

(* the owning definition 3 of port 4 is in no library, instance 5 references it; both queries
   return the one valid reference *)
Example occurrences_outside_library :
  WF w_state /\ owner_def w_state 4 = Some 3 /\ def_netlist w_state 3 = None /\ drefs w_state 3 = [5] /\
  occ w_state 4 [4; 5; 6] /\
  hrefs_of_item w_state (QId 4) = Some [[4; 5; 6]] /\
  hrefs_of_item w_state (QId 5) = Some [[5; 6]].
Proof.
  split; [exact w_wf|]. split; [vm_compute; reflexivity|]. split; [vm_compute; reflexivity|].
  split; [vm_compute; reflexivity|]. split; [exact w_occ|]. split; vm_compute; reflexivity.
Qed.

(* an instance WITHOUT a reference (former finding C11-instance-without-reference): netlist 0,
   library 1, definition 2, child 3 of 2 with no reference, top instance 4 created from 2. *)
Definition nr_ops : list op :=
  [ ONew KNetlist None [];
    OCreate RLibs 0 None [] 0 None;
    OCreate RDefs 1 None [] 0 None;
    OCreate RChildren 2 None [] 0 None;
    OSetTop 0 (TopDef 2) ].

Definition nr_state : state := run nr_ops init.

Example occurrences_without_reference :
  never_stuck nr_ops init /\ kind_of nr_state 3 = Some KInstance /\ iref nr_state 3 = None /\
  is_valid nr_state [3; 4] = true /\
  get_hinstances_netlist nr_state 0 true = Some [[3; 4]] /\
  hrefs_of_item nr_state (QId 3) = Some [[3; 4]].
Proof.
  split; [vm_compute; repeat split; discriminate|]. repeat split; vm_compute; reflexivity.
Qed.

(* the hypotheses of occ_item are satisfiable, with a non-empty answer: Proofs/HierValid.ex_state
   (leaf definition 2 with port 4 and pin 5, top definition 3 with child 6 of 2, top instance 7) *)
Lemma ex2_child c x : child HierValid.ex_state c x -> x = 7 /\ c = 6.
Proof.
  unfold child. intro H. do 9 (try destruct x as [|x]); vm_compute in H; try contradiction.
  destruct H as [<-|[]]. split; reflexivity.
Qed.

Lemma ex2_wf : WF HierValid.ex_state.
Proof.
  constructor.
  - apply run_inv1a; [apply inv1a_init|apply HierValid.ex_never_stuck].
  - apply run_inv2a; [apply inv2a_init|apply HierValid.ex_never_stuck].
  - exact HierValid.ex_wfk.
  - intro x. constructor. intros c H. apply ex2_child in H as [-> ->].
    constructor. intros c' H'. apply ex2_child in H' as [E _]. discriminate.
Qed.

Example occ_item_example :
  exists s e l, WF s /\ kind_of s e = Some KPin /\
    hrefs_of_item s (QId e) = Some l /\ l = [[5; 4; 6; 7]].
Proof.
  exists HierValid.ex_state, 5, [[5; 4; 6; 7]].
  split; [exact ex2_wf|]. split; [vm_compute; reflexivity|].
  split; [vm_compute; reflexivity|reflexivity].
Qed.

Print Assumptions occ_item.
Print Assumptions under_single_root.
Print Assumptions occ_definition.
Print Assumptions occ_outer_pin.
Print Assumptions occurrences_outside_library.
Print Assumptions occurrences_without_reference.
Print Assumptions occ_item_example.
