(* C11, occurrences of an element: HRef.get_all_hrefs_of_item (Hier/Enum.v: hrefs_of_item) returns,
   without duplicates, exactly the references that end in the element - for an instance, a port,
   a cable, an inner pin, a wire; the instance paths ending in an instance of a definition for a
   definition; the pin references below the paths of its instance for an outer pin.

   The code finds the netlist through  reference.library.netlist  of the FIRST instance it is
   handed (the instance itself; else the first member of the reference set of the definition that
   owns the port / cable / pin / wire). The statements therefore need that netlist to be the one
   whose top instance the occurrences hang below:
     instance                  root_netlist s e = Some n       (already in C11_occurrences_full)
     port / cable / pin / wire the owning definition, if instantiated at all, sits in a library
                               of n                            (MISSING in C11_occurrences_full:
                               see occurrences_full_refuted at the end of this file). *)
From Coq Require Import List Arith Bool Lia Relations.
From SV Require Import Base.Base IR.State IR.NS IR.Ops Proofs.Inv1a Proofs.Inv2a Proofs.C01_lemmas
  Hier.Paths Hier.Enum Proofs.HierValid Proofs.HierEnum Proofs.HierC11 Proofs.HierOcc.
Import ListNotations.

(* the netlist of the library of a definition *)
Definition def_netlist (s : state) (d : id) : option id :=
  match par s RDefs d with Some l => par s RLibs l | None => None end.

Lemma root_netlist_def s x d : iref s x = Some d -> root_netlist s x = def_netlist s d.
Proof. intro E. unfold root_netlist, def_netlist. rewrite E. reflexivity. Qed.

(* the definition that owns a port / cable / inner pin / wire *)
Definition owner_def (s : state) (e : id) : option id :=
  match kind_of s e with
  | Some KPort => par s RPorts e
  | Some KCable => par s RCables e
  | Some KPin => match par s RPins e with Some p => par s RPorts p | None => None end
  | Some KWire => match par s RWires e with Some c => par s RCables c | None => None end
  | _ => None
  end.

(* every occurrence of e hangs below the top instance t *)
Definition under (s : state) (t e : id) : Prop :=
  forall h, occ s e h -> exists p, is_path s t p /\ exists q, h = q ++ p.

Lemma rpath_last s t p : is_rpath s t p -> exists q, p = q ++ [t].
Proof.
  induction 1 as [|c x p _ [q Hq] _]; [exists []; reflexivity|].
  exists (c :: q). rewrite Hq. reflexivity.
Qed.

Lemma same_top s t t' r p (pre q0 : list id) :
  is_rpath s t' r -> is_rpath s t p -> pre ++ r = q0 ++ p -> t' = t.
Proof.
  intros Hr Hp E. apply rpath_last in Hr as [a ->]. apply rpath_last in Hp as [b ->].
  rewrite !app_assoc in E. apply app_inj_tail in E. apply E.
Qed.

(* a sufficient condition: t is the only top instance in the heap (a single netlist with a top) *)
Lemma under_single_root s t e : (forall t', is_root s t' -> t' = t) -> under s t e.
Proof.
  intros R h [Hh _].
  destruct Hh as [t' p Hp|t' x p q Hp _|t' x p q i Hp _ _|t' x p c Hp _|t' x p c w Hp _ _];
    pose proof (R t' (proj1 Hp)) as ->; eexists; (split; [exact Hp|]).
  - exists []. reflexivity.
  - exists [q]. reflexivity.
  - exists [i; q]. reflexivity.
  - exists [c]. reflexivity.
  - exists [w; c]. reflexivity.
Qed.

Section Occ.
Variables (s : state) (n t : id).
Hypothesis HWF : WF s.
Hypothesis Htop : top s n = Some t.
Hypothesis Hroot : is_root s t.

Let I1 : Inv1a s := wf_inv1 s HWF.
Let I2 : Inv2a s := wf_inv2 s HWF.
Let W : WFk s := wf_kinds s HWF.
Let A : acyclic s := wf_acyclic s HWF.

(* if all occurrences of e hang below t, an instance path that carries an occurrence starts at t *)
Lemma under_top e h t' r pre :
  under s t e -> occ s e h -> h = pre ++ r -> is_rpath s t' r -> t' = t.
Proof.
  intros U Ho -> Hr. destruct (U _ Ho) as (p & [_ Hp] & q & E). eapply same_top; eassumption.
Qed.

(* ---- the instance paths that end in an instance of d ---- *)
Definition ipaths_of_def (d : id) (p : href) : Prop :=
  exists x p', p = x :: p' /\ is_rpath s t p /\ iref s x = Some d.

Lemma insts_of_def d : (drefs s d <> [] -> def_netlist s d = Some n) ->
  exists l0, hrefs_of_instances s (drefs s d) = Some l0 /\ NoDup l0 /\
             forall p, In p l0 <-> ipaths_of_def d p.
Proof.
  intro Hd. destruct (drefs s d) as [|x0 rest] eqn:E.
  - exists []. split; [reflexivity|]. split; [constructor|]. intro p. split; [intros []|].
    intros (x & p' & _ & _ & Hx). apply (i2_ref s I2) in Hx. rewrite E in Hx. exact Hx.
  - assert (Hx0 : iref s x0 = Some d) by (apply (i2_ref s I2); rewrite E; left; reflexivity).
    assert (Hn : root_netlist s x0 = Some n).
    { rewrite (root_netlist_def s x0 d Hx0). apply Hd. discriminate. }
    destruct (hrefs_of_instances_spec s (x0 :: rest) x0 rest n t I1 I2 W A eq_refl Hn Htop)
      as (l0 & E0 & N0 & S0).
    exists l0. split; [exact E0|]. split; [exact N0|]. intro p. rewrite S0. unfold ipaths_of_def, ends_in.
    rewrite <- E. split.
    + intros [Hp (x & Hx & Hi)]. destruct p as [|y p']; [discriminate|]. cbn in Hx. inversion Hx; subst y.
      exists x, p'. repeat split; [exact Hp|]. apply (i2_ref s I2). exact Hi.
    + intros (x & p' & -> & Hp & Hx). split; [exact Hp|]. exists x. split; [reflexivity|].
      apply (i2_ref s I2). exact Hx.
Qed.

(* hanging a fixed prefix (port; port and pin; cable; cable and wire) on each of those paths *)
Lemma lift_spec (pre : list id) d l0 :
  NoDup l0 -> (forall p, In p l0 <-> ipaths_of_def d p) ->
  NoDup (map (fun p => pre ++ p) l0) /\
  forall h, In h (map (fun p => pre ++ p) l0) <->
            exists x p', h = pre ++ x :: p' /\ is_rpath s t (x :: p') /\ iref s x = Some d.
Proof.
  intros N0 S0. split.
  - apply nodup_map_inj; [|exact N0]. intros a b _ _ E. apply app_inv_head in E. exact E.
  - intro h. rewrite in_map_iff. split.
    + intros (p & <- & Hp). apply S0 in Hp as (x & p' & -> & Hp & Hx). exists x, p'. auto.
    + intros (x & p' & -> & Hp & Hx). exists (x :: p'). split; [reflexivity|]. apply S0.
      exists x, p'. auto.
Qed.

(* inversion of a reference headed by a pin / a wire *)
Lemma href_pin_inv i p :
  is_href s (i :: p) -> kind_of s i = Some KPin ->
  exists t' q x p', p = q :: x :: p' /\ is_path s t' (x :: p') /\ In q (ports_of s x) /\ In i (kids s RPins q).
Proof.
  intros H K. inversion H; subst.
  - match goal with Hx : is_path s _ _ |- _ => apply (path_head_kind s W) in Hx end. congruence.
  - match goal with Hx : In i (ports_of s _) |- _ => apply (port_kind s W) in Hx end. congruence.
  - eauto 9.
  - match goal with Hx : In i (cables_of s _) |- _ => apply (cable_kind s W) in Hx end. congruence.
  - match goal with Hx : In i (kids s RWires _) |- _ => apply (wire_kind s W) in Hx end. congruence.
Qed.

Lemma href_wire_inv w p :
  is_href s (w :: p) -> kind_of s w = Some KWire ->
  exists t' c x p', p = c :: x :: p' /\ is_path s t' (x :: p') /\ In c (cables_of s x) /\ In w (kids s RWires c).
Proof.
  intros H K. inversion H; subst.
  - match goal with Hx : is_path s _ _ |- _ => apply (path_head_kind s W) in Hx end. congruence.
  - match goal with Hx : In w (ports_of s _) |- _ => apply (port_kind s W) in Hx end. congruence.
  - match goal with Hx : In w (kids s RPins _) |- _ => apply (pin_kind s W) in Hx end. congruence.
  - match goal with Hx : In w (cables_of s _) |- _ => apply (cable_kind s W) in Hx end. congruence.
  - eauto 9.
Qed.

Lemma occ_head e h : occ s e h -> exists p, h = e :: p /\ is_href s (e :: p).
Proof.
  intros [Hh He]. destruct h as [|y p]; [discriminate|]. cbn in He. inversion He; subst y.
  exists p. split; [reflexivity|exact Hh].
Qed.

(* ---- instance ---- *)
Theorem occ_instance e :
  kind_of s e = Some KInstance -> root_netlist s e = Some n -> under s t e ->
  exists l, hrefs_of_item s (QId e) = Some l /\ NoDup l /\ (forall h, In h l <-> occ s e h).
Proof.
  intros K Hn U. unfold hrefs_of_item. rewrite K.
  destruct (hrefs_of_instances_spec s [e] e [] n t I1 I2 W A eq_refl Hn Htop) as (l & E & N & S).
  exists l. split; [exact E|]. split; [exact N|]. intro h. rewrite S. split.
  - intros [Hp (x & Hx & [<-|[]])]. split; [|exact Hx]. apply (hr_inst s t). split; assumption.
  - intro Ho. destruct (occ_head e h Ho) as (p & -> & Hh).
    destruct (href_inst_inv s W e p Hh K) as [t' [_ Hp]].
    assert (t' = t) by (eapply (under_top e (e :: p) t' (e :: p) []); eauto). subst t'.
    split; [exact Hp|]. exists e. split; [reflexivity|left; reflexivity].
Qed.

(* ---- definition: the instance paths ending in one of its instances ---- *)
Theorem occ_definition d :
  kind_of s d = Some KDefinition -> (drefs s d <> [] -> def_netlist s d = Some n) ->
  exists l, hrefs_of_item s (QId d) = Some l /\ NoDup l /\
            (forall p, In p l <-> exists x p', p = x :: p' /\ is_rpath s t p /\ iref s x = Some d).
Proof. intros K Hd. unfold hrefs_of_item. rewrite K. apply insts_of_def. exact Hd. Qed.

(* ---- port ---- *)
Theorem occ_port e :
  kind_of s e = Some KPort ->
  (forall d, par s RPorts e = Some d -> drefs s d <> [] -> def_netlist s d = Some n) ->
  under s t e ->
  exists l, hrefs_of_item s (QId e) = Some l /\ NoDup l /\ (forall h, In h l <-> occ s e h).
Proof.
  intros K Hd U. unfold hrefs_of_item. rewrite K.
  assert (Inv : forall h, occ s e h -> exists d x p', par s RPorts e = Some d /\ h = [e] ++ x :: p' /\
                                      is_rpath s t (x :: p') /\ iref s x = Some d).
  { intros h Ho. destruct (occ_head e h Ho) as (p & -> & Hh).
    destruct (href_port_inv s W e p Hh K) as (t' & x & p' & -> & [_ Hp] & Hq).
    assert (t' = t) by (eapply (under_top e _ t' (x :: p') [e]); eauto). subst t'.
    apply (ports_of_iff s) in Hq as (d & Ex & Hq). exists d, x, p'.
    split; [apply (i1_kids s I1); exact Hq|]. auto. }
  destruct (par s RPorts e) as [d|] eqn:P.
  - destruct (insts_of_def d (Hd d eq_refl)) as (l0 & -> & N0 & S0). cbn [option_map].
    change (map (fun h => e :: h) l0) with (map (fun h => [e] ++ h) l0).
    destruct (lift_spec [e] d l0 N0 S0) as [N S]. eexists. split; [reflexivity|]. split; [exact N|].
    intro h. rewrite S. split.
    + intros (x & p' & -> & Hp & Hx). split; [|reflexivity]. apply (hr_port s t); [split; assumption|].
      apply (ports_of_iff s). exists d. split; [exact Hx|]. apply (i1_kids s I1). exact P.
    + intro Ho. destruct (Inv h Ho) as (d' & x & p' & Ed & -> & Hp & Hx). inversion Ed; subst d'. eauto.
  - exists []. split; [reflexivity|]. split; [constructor|]. intro h. split; [intros []|].
    intro Ho. destruct (Inv h Ho) as (d' & _ & _ & Ed & _). discriminate.
Qed.

(* ---- cable ---- *)
Theorem occ_cable e :
  kind_of s e = Some KCable ->
  (forall d, par s RCables e = Some d -> drefs s d <> [] -> def_netlist s d = Some n) ->
  under s t e ->
  exists l, hrefs_of_item s (QId e) = Some l /\ NoDup l /\ (forall h, In h l <-> occ s e h).
Proof.
  intros K Hd U. unfold hrefs_of_item. rewrite K.
  assert (Inv : forall h, occ s e h -> exists d x p', par s RCables e = Some d /\ h = [e] ++ x :: p' /\
                                      is_rpath s t (x :: p') /\ iref s x = Some d).
  { intros h Ho. destruct (occ_head e h Ho) as (p & -> & Hh).
    destruct (href_cable_inv s W e p Hh K) as (t' & x & p' & -> & [_ Hp] & Hq).
    assert (t' = t) by (eapply (under_top e _ t' (x :: p') [e]); eauto). subst t'.
    apply (cables_of_iff s) in Hq as (d & Ex & Hq). exists d, x, p'.
    split; [apply (i1_kids s I1); exact Hq|]. auto. }
  destruct (par s RCables e) as [d|] eqn:P.
  - destruct (insts_of_def d (Hd d eq_refl)) as (l0 & -> & N0 & S0). cbn [option_map].
    change (map (fun h => e :: h) l0) with (map (fun h => [e] ++ h) l0).
    destruct (lift_spec [e] d l0 N0 S0) as [N S]. eexists. split; [reflexivity|]. split; [exact N|].
    intro h. rewrite S. split.
    + intros (x & p' & -> & Hp & Hx). split; [|reflexivity]. apply (hr_cable s t); [split; assumption|].
      apply (cables_of_iff s). exists d. split; [exact Hx|]. apply (i1_kids s I1). exact P.
    + intro Ho. destruct (Inv h Ho) as (d' & x & p' & Ed & -> & Hp & Hx). inversion Ed; subst d'. eauto.
  - exists []. split; [reflexivity|]. split; [constructor|]. intro h. split; [intros []|].
    intro Ho. destruct (Inv h Ho) as (d' & _ & _ & Ed & _). discriminate.
Qed.

(* ---- inner pin ---- *)
Theorem occ_pin e :
  kind_of s e = Some KPin ->
  (forall q d, par s RPins e = Some q -> par s RPorts q = Some d -> drefs s d <> [] ->
               def_netlist s d = Some n) ->
  under s t e ->
  exists l, hrefs_of_item s (QId e) = Some l /\ NoDup l /\ (forall h, In h l <-> occ s e h).
Proof.
  intros K Hd U. unfold hrefs_of_item. rewrite K.
  assert (Inv : forall h, occ s e h -> exists q d x p', par s RPins e = Some q /\ par s RPorts q = Some d /\
                            h = [e; q] ++ x :: p' /\ is_rpath s t (x :: p') /\ iref s x = Some d).
  { intros h Ho. destruct (occ_head e h Ho) as (p & -> & Hh).
    destruct (href_pin_inv e p Hh K) as (t' & q & x & p' & -> & [_ Hp] & Hq & Hi).
    assert (t' = t) by (eapply (under_top e _ t' (x :: p') [e; q]); eauto). subst t'.
    apply (ports_of_iff s) in Hq as (d & Ex & Hq). exists q, d, x, p'.
    split; [apply (i1_kids s I1); exact Hi|]. split; [apply (i1_kids s I1); exact Hq|]. auto. }
  destruct (par s RPins e) as [q|] eqn:Pq.
  - destruct (par s RPorts q) as [d|] eqn:P.
    + destruct (insts_of_def d (Hd q d eq_refl P)) as (l0 & -> & N0 & S0). cbn [option_map].
      change (map (fun h => e :: q :: h) l0) with (map (fun h => [e; q] ++ h) l0).
      destruct (lift_spec [e; q] d l0 N0 S0) as [N S]. eexists. split; [reflexivity|]. split; [exact N|].
      intro h. rewrite S. split.
      * intros (x & p' & -> & Hp & Hx). split; [|reflexivity].
        apply (hr_pin s t); [split; assumption| |apply (i1_kids s I1); exact Pq].
        apply (ports_of_iff s). exists d. split; [exact Hx|]. apply (i1_kids s I1). exact P.
      * intro Ho. destruct (Inv h Ho) as (q' & d' & x & p' & Eq & Ed & -> & Hp & Hx).
        inversion Eq; subst q'. rewrite P in Ed. inversion Ed; subst d'. eauto.
    + exists []. split; [reflexivity|]. split; [constructor|]. intro h. split; [intros []|].
      intro Ho. destruct (Inv h Ho) as (q' & d' & _ & _ & Eq & Ed & _). inversion Eq; subst q'.
      rewrite P in Ed. discriminate.
  - exists []. split; [reflexivity|]. split; [constructor|]. intro h. split; [intros []|].
    intro Ho. destruct (Inv h Ho) as (q' & _ & _ & _ & Eq & _). discriminate.
Qed.

(* ---- wire ---- *)
Theorem occ_wire e :
  kind_of s e = Some KWire ->
  (forall c d, par s RWires e = Some c -> par s RCables c = Some d -> drefs s d <> [] ->
               def_netlist s d = Some n) ->
  under s t e ->
  exists l, hrefs_of_item s (QId e) = Some l /\ NoDup l /\ (forall h, In h l <-> occ s e h).
Proof.
  intros K Hd U. unfold hrefs_of_item. rewrite K.
  assert (Inv : forall h, occ s e h -> exists q d x p', par s RWires e = Some q /\ par s RCables q = Some d /\
                            h = [e; q] ++ x :: p' /\ is_rpath s t (x :: p') /\ iref s x = Some d).
  { intros h Ho. destruct (occ_head e h Ho) as (p & -> & Hh).
    destruct (href_wire_inv e p Hh K) as (t' & q & x & p' & -> & [_ Hp] & Hq & Hi).
    assert (t' = t) by (eapply (under_top e _ t' (x :: p') [e; q]); eauto). subst t'.
    apply (cables_of_iff s) in Hq as (d & Ex & Hq). exists q, d, x, p'.
    split; [apply (i1_kids s I1); exact Hi|]. split; [apply (i1_kids s I1); exact Hq|]. auto. }
  destruct (par s RWires e) as [q|] eqn:Pq.
  - destruct (par s RCables q) as [d|] eqn:P.
    + destruct (insts_of_def d (Hd q d eq_refl P)) as (l0 & -> & N0 & S0). cbn [option_map].
      change (map (fun h => e :: q :: h) l0) with (map (fun h => [e; q] ++ h) l0).
      destruct (lift_spec [e; q] d l0 N0 S0) as [N S]. eexists. split; [reflexivity|]. split; [exact N|].
      intro h. rewrite S. split.
      * intros (x & p' & -> & Hp & Hx). split; [|reflexivity].
        apply (hr_wire s t); [split; assumption| |apply (i1_kids s I1); exact Pq].
        apply (cables_of_iff s). exists d. split; [exact Hx|]. apply (i1_kids s I1). exact P.
      * intro Ho. destruct (Inv h Ho) as (q' & d' & x & p' & Eq & Ed & -> & Hp & Hx).
        inversion Eq; subst q'. rewrite P in Ed. inversion Ed; subst d'. eauto.
    + exists []. split; [reflexivity|]. split; [constructor|]. intro h. split; [intros []|].
      intro Ho. destruct (Inv h Ho) as (q' & d' & _ & _ & Eq & Ed & _). inversion Eq; subst q'.
      rewrite P in Ed. discriminate.
  - exists []. split; [reflexivity|]. split; [constructor|]. intro h. split; [intros []|].
    intro Ho. destruct (Inv h Ho) as (q' & _ & _ & _ & Eq & _). discriminate.
Qed.

(* ---- outer pin (instance x, inner pin i): the pin references below the occurrences of x ---- *)
Theorem occ_outer_pin x i q :
  root_netlist s x = Some n -> par s RPins i = Some q ->
  exists l, hrefs_of_item s (QOuter x i) = Some l /\ NoDup l /\
            (forall h, In h l <-> exists p', h = i :: q :: x :: p' /\ is_rpath s t (x :: p')).
Proof.
  intros Hn P. unfold hrefs_of_item. rewrite P.
  destruct (hrefs_of_instances_spec s [x] x [] n t I1 I2 W A eq_refl Hn Htop) as (l0 & -> & N0 & S0).
  cbn [option_map]. eexists. split; [reflexivity|]. split.
  - apply nodup_map_inj; [|exact N0]. intros a b _ _ E. inversion E. reflexivity.
  - intro h. rewrite in_map_iff. split.
    + intros (p & <- & Hp). apply S0 in Hp as [Hp (y & Hy & [<-|[]])].
      destruct p as [|z p']; [discriminate|]. cbn in Hy. inversion Hy; subst z. exists p'. auto.
    + intros (p' & -> & Hp). exists (x :: p'). split; [reflexivity|]. apply S0. split; [exact Hp|].
      exists x. split; [reflexivity|left; reflexivity].
Qed.

(* ... which are valid references as soon as the port of the inner pin is a port of the
   definition the instance references (the meaning of an outer pin) *)
Lemma outer_pin_refs_valid x i q p' :
  par s RPins i = Some q -> In q (ports_of s x) -> is_rpath s t (x :: p') ->
  is_href s (i :: q :: x :: p').
Proof.
  intros P Hq Hp. apply (hr_pin s t); [split; assumption|exact Hq|]. apply (i1_kids s I1). exact P.
Qed.

(* ---- all kinds of C11_occurrences_full in one statement ---- *)
Theorem occ_item e :
  (kind_of s e = Some KInstance \/ kind_of s e = Some KPort \/ kind_of s e = Some KPin \/
   kind_of s e = Some KCable \/ kind_of s e = Some KWire) ->
  (kind_of s e = Some KInstance -> root_netlist s e = Some n) ->
  (forall d, owner_def s e = Some d -> drefs s d <> [] -> def_netlist s d = Some n) ->
  under s t e ->
  exists l, hrefs_of_item s (QId e) = Some l /\ NoDup l /\ (forall h, In h l <-> occ s e h).
Proof.
  intros K Hi Hd U. unfold owner_def in Hd. destruct K as [K|[K|[K|[K|K]]]]; rewrite K in Hd.
  - apply occ_instance; auto.
  - apply occ_port; auto.
  - apply occ_pin; auto. intros q d Pq P. apply Hd. rewrite Pq. exact P.
  - apply occ_cable; auto.
  - apply occ_wire; auto. intros q d Pq P. apply Hd. rewrite Pq. exact P.
Qed.

End Occ.

(* ------------------------------------------------------------------------------------------ *)
(* the hypothesis on the owning definition cannot be dropped: a computed witness.
   History: netlist 0, library 1, definition 2 (in the library), definition 3 created on its own and
   never added to a library, port 4 of 3, child 5 of 2 referencing 3, top instance 6 created from 2.
   The reference  port 4 :: instance 5 :: top 6  is valid and is enumerated by get_hports(netlist),
   but hrefs_of_item (port 4) is empty: the netlist is looked up through the library of 3. *)
Definition w_ops : list op :=
  [ ONew KNetlist None [];
    OCreate RLibs 0 None [] 0 None;
    OCreate RDefs 1 None [] 0 None;
    ONew KDefinition None [];
    OCreate RPorts 3 None [] 0 None;
    OCreate RChildren 2 None [] 0 (Some 3);
    OSetTop 0 (TopDef 2) ].

Definition w_state : state := run w_ops init.

Lemma w_never_stuck : never_stuck w_ops init.
Proof. vm_compute. repeat split; discriminate. Qed.

Ltac w_split_id p := do 8 (try destruct p as [|p]).

Lemma w_wfk : WFk w_state.
Proof.
  constructor.
  - intros r p c H. destruct r; w_split_id p; vm_compute in H; try contradiction;
      repeat (destruct H as [H|H]; [subst c; vm_compute; reflexivity|]); contradiction.
  - intros r p c H. destruct r; w_split_id p; vm_compute in H; try contradiction;
      vm_compute; reflexivity.
  - intros x d H. w_split_id x; vm_compute in H; try discriminate; vm_compute; reflexivity.
  - intros r p c H. destruct r; w_split_id p; vm_compute in H; try contradiction;
      repeat (destruct H as [H|H]; [subst c; vm_compute; lia|]); contradiction.
  - intros x d H. w_split_id x; vm_compute in H; try discriminate; vm_compute; lia.
Qed.

Lemma w_child c x : child w_state c x -> x = 6 /\ c = 5.
Proof.
  unfold child. intro H. w_split_id x; vm_compute in H; try contradiction.
  destruct H as [<-|[]]. split; reflexivity.
Qed.

Lemma w_acyclic : acyclic w_state.
Proof.
  intro x. constructor. intros c H. apply w_child in H as [-> ->].
  constructor. intros c' H'. apply w_child in H' as [E _]. discriminate.
Qed.

Lemma w_wf : WF w_state.
Proof.
  constructor.
  - apply run_inv1a; [apply inv1a_init|apply w_never_stuck].
  - apply run_inv2a; [apply inv2a_init|apply w_never_stuck].
  - exact w_wfk.
  - exact w_acyclic.
Qed.

Lemma w_root t : is_root w_state t -> t = 6.
Proof.
  intros (n & _ & Ht). w_split_id n; vm_compute in Ht; try discriminate. inversion Ht. reflexivity.
Qed.

Lemma w_root6 : is_root w_state 6.
Proof. exists 0. split; vm_compute; reflexivity. Qed.

Lemma w_occ : occ w_state 4 [4; 5; 6].
Proof.
  split; [|reflexivity]. apply (hr_port w_state 6).
  - split; [exact w_root6|]. apply rp_child; [apply rp_top|]. vm_compute. left. reflexivity.
  - vm_compute. left. reflexivity.
Qed.

Lemma w_under : under w_state 6 4.
Proof.
  intros h Ho. destruct Ho as [Hh He]. destruct h as [|y p]; [discriminate|]. cbn in He. inversion He; subst y.
  assert (K4 : kind_of w_state 4 = Some KPort) by (vm_compute; reflexivity).
  destruct (href_port_inv w_state w_wfk 4 p Hh K4) as (t' & x & p' & -> & Hp & _).
  pose proof (w_root t' (proj1 Hp)) as ->. exists (x :: p'). split; [exact Hp|]. exists [4]. reflexivity.
Qed.

(* the statement of Props/C11.v, C11_occurrences_full, is false of the model (and of the code) *)
Theorem occurrences_full_refuted :
  ~ (forall s n t e l,
      WF s -> top s n = Some t -> is_root s t ->
      (kind_of s e = Some KInstance \/ kind_of s e = Some KPort \/ kind_of s e = Some KPin \/
       kind_of s e = Some KCable \/ kind_of s e = Some KWire) ->
      (kind_of s e = Some KInstance -> root_netlist s e = Some n) ->
      (forall h, occ s e h -> exists p, is_path s t p /\ exists q, h = q ++ p) ->
      hrefs_of_item s (QId e) = Some l ->
      NoDup l /\ (forall h, In h l <-> occ s e h)).
Proof.
  intro F.
  assert (Ht : top w_state 0 = Some 6) by (vm_compute; reflexivity).
  destruct (F w_state 0 6 4 [] w_wf Ht w_root6) as [_ S].
  - right. left. vm_compute. reflexivity.
  - intro K. vm_compute in K. discriminate.
  - exact w_under.
  - vm_compute. reflexivity.
  - apply (S [4; 5; 6]). exact w_occ.
Qed.

(* the hypotheses of occ_item are satisfiable, with a non-empty answer: Proofs/HierValid.ex_state
   (leaf definition 2 with port 4 and pin 5, top definition 3 with child 6 of 2, top instance 7) *)
Lemma ex2_child c x : child HierValid.ex_state c x -> x = 7 /\ c = 6.
Proof.
  unfold child. intro H. do 9 (try destruct x as [|x]); vm_compute in H; try contradiction.
  destruct H as [<-|[]]. split; reflexivity.
Qed.

Lemma ex2_wf : WF HierValid.ex_state.
Proof.
  constructor.
  - apply run_inv1a; [apply inv1a_init|apply HierValid.ex_never_stuck].
  - apply run_inv2a; [apply inv2a_init|apply HierValid.ex_never_stuck].
  - exact HierValid.ex_wfk.
  - intro x. constructor. intros c H. apply ex2_child in H as [-> ->].
    constructor. intros c' H'. apply ex2_child in H' as [E _]. discriminate.
Qed.

Example occ_item_example :
  exists s n t e l, WF s /\ top s n = Some t /\ is_root s t /\ kind_of s e = Some KPin /\
    (forall d, owner_def s e = Some d -> drefs s d <> [] -> def_netlist s d = Some n) /\
    hrefs_of_item s (QId e) = Some l /\ l = [[5; 4; 6; 7]].
Proof.
  exists HierValid.ex_state, 0, 7, 5, [[5; 4; 6; 7]].
  split; [exact ex2_wf|].
  split; [vm_compute; reflexivity|]. split; [exists 0; split; vm_compute; reflexivity|].
  split; [vm_compute; reflexivity|].
  split; [|split; [vm_compute; reflexivity|reflexivity]].
  intros d Hd _. assert (Eo : owner_def HierValid.ex_state 5 = Some 2) by (vm_compute; reflexivity).
  rewrite Eo in Hd. inversion Hd; subst d. vm_compute. reflexivity.
Qed.

Print Assumptions occ_item.
Print Assumptions under_single_root.
Print Assumptions occ_definition.
Print Assumptions occ_outer_pin.
Print Assumptions occurrences_full_refuted.
Print Assumptions occ_item_example.
