(* EBLIF engine, connectivity clause of C18: the handlers of the reader keep the relation [R]
   (BlifNetsRel.v) between every model and the reading of its section - port lines, instance
   statements (.subckt/.gate/.names/.latch) up to the connection of their pins. *)
From Coq Require Import List Arith NArith Bool Lia Permutation.
From SV Require Import Base.Base Fmt.Blif Fmt.BlifRead Fmt.BlifSpec
  Proofs.BlifBase Proofs.BlifWF Proofs.BlifExec Proofs.BlifNetsBase Proofs.BlifNetsView Proofs.BlifNetsRel.
Import ListNotations.

Lemma pni_nb tok p i : pni tok = Ok (p, i) -> nb_of tok = Some (p, i).
Proof. unfold nb_of. intros ->. reflexivity. Qed.

Lemma mem_app p a b : mem p (a ++ b) = mem p a || mem p b.
Proof. unfold mem. apply existsb_app. Qed.

Lemma mem_one p q : mem p [q] = str_eqb p q.
Proof. unfold mem. cbn. apply orb_false_r. Qed.

Lemma add_att_nil st : add_att st [] = st.
Proof. destruct st. unfold add_att. cbn. rewrite app_nil_r. reflexivity. Qed.

Lemma add_att_app st a b : add_att (add_att st a) b = add_att st (a ++ b).
Proof. unfold add_att. cbn. rewrite app_assoc. reflexivity. Qed.

Lemma has_of_find nm ms m : find_model nm ms = Some m -> In nm (map m_name ms).
Proof. intro H. apply find_model_some_iff. eauto. Qed.

Lemma find_of_names nm ms ms' m :
  map m_name ms' = map m_name ms -> find_model nm ms' = Some m -> find_model nm ms = Some (get_model nm ms).
Proof.
  intros Hn H. apply has_of_find in H. rewrite Hn in H. apply find_model_some_iff in H as [x Hx].
  rewrite (get_model_find _ _ _ Hx). exact Hx.
Qed.

(* ====================================================================== .inputs *)
Definition st_in (st : nst) (p : str) : nst :=
  mkNst (n_idx st) (n_ins st ++ [p]) (n_inn st ++ [p]) (n_outn st) (n_att st) (n_conns st) (n_bb st) (n_lib st) (n_def st).

Lemma R_set_in nm cur al m m1 st p :
  vcore m m1 -> (forall p', port_dir p' m1 = if str_eqb p' p then DIn else port_dir p' m) ->
  n_outn st = [] -> RX nm cur al m st -> RX nm cur al m1 (st_in st p).
Proof.
  intros [V1 [V2 [V3 V4]]] Hd Ho [[R1 R2 R3 R4 R5 R6 R7 R8] HN].
  split; [|cbn [st_in n_att n_conns n_bb]; rewrite V1; exact HN].
  constructor; cbn [st_in n_idx n_ins n_inn n_outn n_att n_conns n_bb n_lib n_def]; rewrite ?V1, ?V2, ?V3, ?V4; auto.
  - intros Hr p'. rewrite Hd, mem_app, mem_one, Ho. destruct (str_eqb p' p) eqn:E.
    + rewrite orb_true_r. reflexivity.
    + rewrite orb_false_r, (R2 Hr p'), Ho. reflexivity.
  - intro p'. rewrite !mem_app, R3. reflexivity.
Qed.

Lemma R_do_input al cur ms tok ms' nm st :
  do_input al cur (Ok ms) tok = Ok ms' ->
  RX nm cur al (get_model nm ms) st ->
  (nm = cur -> n_bb st = false /\ n_outn st = [] /\ reserved nm = false) ->
  RX nm cur al (get_model nm ms') (if str_eqb nm cur then in_tok st tok else st).
Proof.
  intros H HR Hc. unfold do_input in H. cbn [bind] in H.
  destruct (pni tok) as [[p i]|] eqn:Ep; [|discriminate]. cbn [bind] in H. apply pni_nb in Ep.
  destruct (input_io cur p ms) eqn:Eio.
  { (* an output port named as input: cannot happen in the section being read (no .outputs line yet) *)
    destruct (str_eqb nm cur) eqn:E.
    - exfalso. apply str_eqb_spec in E. subst nm. destruct (Hc eq_refl) as [C2 [C3 C4]].
      pose proof (r_dir _ _ _ (RX_R _ _ _ _ _ HR) C4 p) as Hd. unfold input_io in Eio. unfold port_dir in Hd.
      destruct (find_port p (m_ports (get_model cur ms))) as [q|]; [|discriminate].
      rewrite Hd, C3 in Eio. destruct (mem p (n_inn st)); cbn in Eio; discriminate.
    - inversion H; subst ms'. apply str_eqb_false in E. apply RX_other; [exact E|]. apply RX_R in HR.
      eapply R_geq; [apply geq_grow_port|]. rewrite get_model_upd_other; [exact HR|intros x Hx; exact Hx|exact E]. }
  set (ms1 := match find_port _ _ with None => _ | Some _ => _ end) in H.
  set (ms2 := grow_port cur p (S i) ms1) in H.
  assert (N1 : map m_name ms1 = map m_name ms).
  { unfold ms1. destruct (find_port _ _); [apply upd_model_names; intros x Hx; exact Hx|apply names_add_port]. }
  destruct (str_eqb nm cur) eqn:E.
  - apply str_eqb_spec in E. subst nm. destruct (Hc eq_refl) as [C2 [C3 _]].
    destruct (get_model_upd_res_same _ _ _ _ H) as [m' [H1 [H2 H3]]]; [intros; eapply connect_to_name; eauto|].
    assert (Hf : find_model cur ms = Some (get_model cur ms)).
    { eapply (find_of_names cur ms ms2); [|exact H3]. unfold ms2. rewrite names_grow_port. exact N1. }
    set (m := get_model cur ms) in *.
    assert (A : vcore m (get_model cur ms1) /\
                forall p', port_dir p' (get_model cur ms1) = if str_eqb p' p then DIn else port_dir p' m).
    { unfold ms1. destruct (find_port p (m_ports m)) as [q0|] eqn:Eq.
      - rewrite (get_model_upd_same _ _ _ m); [|intros x Hx; exact Hx|exact Hf]. split; [repeat split|].
        intro p'. rewrite port_dir_set. unfold port_dir. destruct (find_port p' (m_ports m)) eqn:E2; [reflexivity|].
        destruct (str_eqb p' p) eqn:E3; [|reflexivity]. apply str_eqb_spec in E3. subst. congruence.
      - destruct (get_model_add_port_same cur (mkPort p DIn 0) ms m Hf) as [m1 [E1 [G1 [G2 [G3 [G4 [G5 [G6 [G7 G8]]]]]]]]].
        rewrite E1. split; [repeat split; assumption|]. intro p'. unfold port_dir. rewrite G2, find_port_app. cbn [p_name p_dir].
        destruct (find_port p' (m_ports m)) eqn:E2.
        + destruct (str_eqb p' p) eqn:E3; [|reflexivity]. apply str_eqb_spec in E3. subst. congruence.
        + rewrite str_eqb_sym. destruct (str_eqb p' p); reflexivity. }
    destruct A as [A1 A2]. rewrite H2.
    assert (R1 : RX cur cur al (get_model cur ms2) (st_in st p)).
    { eapply RX_geq; [apply geq_grow_port|]. eapply R_set_in; eauto. }
    pose proof (RX_connect cur _ _ _ _ _ _ (st_in st p) H1 C2 R1) as R2.
    unfold in_tok, tok_port, tok_named, att_in. rewrite Ep. exact R2.
  - apply str_eqb_false in E. apply RX_other; [exact E|]. apply RX_R in HR.
    rewrite (get_model_upd_res_other _ _ _ _ nm H); [|intros; eapply connect_to_name; eauto|exact E].
    eapply R_geq; [apply geq_grow_port|]. unfold ms1. destruct (find_port _ _).
    + rewrite get_model_upd_other; [exact HR|intros x Hx; exact Hx|exact E].
    + eapply R_geq; [apply geq_add_port_other; exact E|exact HR].
Qed.

Lemma fold_res_err {A X} (f : result A -> X -> result A) l e :
  (forall e x, f (Error e) x = Error e) -> fold_left f l (Error e) = Error e.
Proof. intro He. induction l as [|x l IH]; cbn; [reflexivity|]. rewrite He. exact IH. Qed.

Lemma in_tok_fields st t :
  n_conns (in_tok st t) = n_conns st /\ n_bb (in_tok st t) = n_bb st /\ n_outn (in_tok st t) = n_outn st.
Proof. repeat split. Qed.

Lemma R_do_inputs al cur l : forall ms ms' nm st,
  fold_left (do_input al cur) l (Ok ms) = Ok ms' ->
  RX nm cur al (get_model nm ms) st ->
  (nm = cur -> n_bb st = false /\ n_outn st = [] /\ reserved nm = false) ->
  RX nm cur al (get_model nm ms') (if str_eqb nm cur then fold_left in_tok l st else st).
Proof.
  induction l as [|t l IH]; intros ms ms' nm st H HR Hc; cbn [fold_left] in *.
  - inversion H; subst. destruct (str_eqb nm cur); exact HR.
  - destruct (do_input al cur (Ok ms) t) as [ms1|e] eqn:E1; [|rewrite fold_res_err in H; [discriminate|reflexivity]].
    pose proof (R_do_input _ _ _ _ _ _ _ E1 HR Hc) as R1.
    specialize (IH ms1 ms' nm _ H R1). destruct (str_eqb nm cur) eqn:E; apply IH; intro Hn.
    + exact (Hc Hn).
    + apply str_eqb_false in E. contradiction.
Qed.

(* ====================================================================== .outputs *)
Definition st_out (st : nst) (p : str) : nst :=
  mkNst (n_idx st) (n_ins st) (n_inn st) (n_outn st ++ [p]) (n_att st) (n_conns st) (n_bb st) (n_lib st) (n_def st).

Lemma R_set_out nm cur al m m1 st p :
  vcore m m1 ->
  (forall p', port_dir p' m1 = if str_eqb p' p then dirf (mem p (n_inn st)) true else port_dir p' m) ->
  reserved nm = false -> RX nm cur al m st -> RX nm cur al m1 (st_out st p).
Proof.
  intros [V1 [V2 [V3 V4]]] Hd Hres [[R1 R2 R3 R4 R5 R6 R7 R8] HN].
  split; [|cbn [st_out n_att n_conns n_bb]; rewrite V1; exact HN].
  constructor; cbn [st_out n_idx n_ins n_inn n_outn n_att n_conns n_bb n_lib n_def]; rewrite ?V1, ?V2, ?V3, ?V4; auto.
  intros Hr p'. rewrite Hd, mem_app, mem_one. destruct (str_eqb p' p) eqn:E.
  - apply str_eqb_spec in E. subst. rewrite orb_true_r. reflexivity.
  - rewrite orb_false_r. apply R2. exact Hr.
Qed.

Lemma dirf_is_in a b : dir_eqb (dirf a b) DIn || dir_eqb (dirf a b) DInout = a.
Proof. destruct a, b; reflexivity. Qed.

Lemma R_do_output al cur ms tok ms' nm st ins :
  do_output al cur (Ok ms) tok = Ok ms' ->
  RX nm cur al (get_model nm ms) st -> n_ins st = ins ->
  (nm = cur -> n_bb st = false /\ reserved nm = false) ->
  RX nm cur al (get_model nm ms') (if str_eqb nm cur then out_tok ins st tok else st).
Proof.
  intros H HR Hins Hc. unfold do_output in H. cbn [bind] in H.
  destruct (pni tok) as [[p i]|] eqn:Ep; [|discriminate]. cbn [bind] in H. apply pni_nb in Ep.
  set (ms1 := match find_port _ _ with None => _ | Some _ => ms end) in H.
  set (d := port_dir p (get_model cur ms1)) in H.
  remember (dir_eqb d DIn || dir_eqb d DInout) as inout eqn:Eio.
  set (ms2 := upd_model cur _ ms1) in H.
  set (ms3 := grow_port cur p (S i) ms2) in H.
  assert (N1 : map m_name ms1 = map m_name ms).
  { unfold ms1. destruct (find_port _ _); [reflexivity|apply names_add_port]. }
  assert (N2 : map m_name ms3 = map m_name ms).
  { unfold ms3, ms2. rewrite names_grow_port, upd_model_names; [exact N1|intros x Hx; exact Hx]. }
  destruct (str_eqb nm cur) eqn:E.
  - apply str_eqb_spec in E. subst nm. destruct (Hc eq_refl) as [C2 C3].
    assert (Hf : find_model cur ms = Some (get_model cur ms)).
    { destruct (find_model cur ms) as [m0|] eqn:E0; [rewrite (get_model_find _ _ _ E0); reflexivity|]. exfalso.
      assert (Hx : find_model cur ms1 = None) by (apply find_model_None; rewrite N1; apply find_model_None; exact E0).
      assert (Hy : find_model cur ms3 = None) by (apply find_model_None; rewrite N2; apply find_model_None; exact E0).
      assert (Hio : inout = false) by (rewrite Eio; unfold d; rewrite (get_model_none _ _ Hx); reflexivity).
      rewrite Hio in H. unfold upd_model_res in H. rewrite Hy in H. discriminate. }
    set (m := get_model cur ms) in *.
    pose proof (r_dir _ _ _ (RX_R _ _ _ _ _ HR) C3) as Hdir. set (a := mem p (n_inn st)) in *.
    assert (A : vcore m (get_model cur ms1) /\ (forall p', port_dir p' (get_model cur ms1) =
                   if str_eqb p' p then (match find_port p (m_ports m) with Some _ => port_dir p m | None => DOut end)
                   else port_dir p' m) /\ find_model cur ms1 = Some (get_model cur ms1) /\
                exists q, find_port p (m_ports (get_model cur ms1)) = Some q).
    { unfold ms1. destruct (find_port p (m_ports m)) as [q0|] eqn:Eq.
      - split; [apply vcore_refl|]. split; [|split; [exact Hf|exists q0; exact Eq]].
        intro p'. destruct (str_eqb p' p) eqn:E3; [|reflexivity].
        apply str_eqb_spec in E3. subst. reflexivity.
      - destruct (get_model_add_port_same cur (mkPort p DOut 0) ms m Hf) as [m1 [E1 [G1 [G2 [G3 [G4 [G5 [G6 [G7 G8]]]]]]]]].
        rewrite E1. split; [repeat split; assumption|]. split; [|split].
        + intro p'. unfold port_dir. rewrite G2, find_port_app. cbn [p_name p_dir].
          destruct (find_port p' (m_ports m)) eqn:E2.
          * destruct (str_eqb p' p) eqn:E3; [|reflexivity]. apply str_eqb_spec in E3. subst. congruence.
          * rewrite str_eqb_sym. destruct (str_eqb p' p); reflexivity.
        + rewrite <- E1. apply (find_of_names cur _ ms m); [symmetry; apply names_add_port|exact Hf].
        + rewrite G2, find_port_app, Eq. cbn [p_name]. rewrite str_eqb_refl. eauto. }
    destruct A as [A1 [A2 [A3 A4]]].
    assert (Hio : inout = a).
    { rewrite Eio. unfold d. rewrite A2, str_eqb_refl. destruct (find_port p (m_ports m)) eqn:Eq.
      - rewrite Hdir. apply dirf_is_in.
      - pose proof (Hdir p) as Hp. unfold port_dir in Hp. rewrite Eq in Hp. unfold a.
        destruct (mem p (n_inn st)), (mem p (n_outn st)); cbn in Hp; try discriminate; reflexivity. }
    assert (B : vcore m (get_model cur ms2) /\
                forall p', port_dir p' (get_model cur ms2) = if str_eqb p' p then dirf a true else port_dir p' m).
    { unfold ms2. rewrite (get_model_upd_same _ _ _ (get_model cur ms1)); [|intros x Hx; exact Hx|exact A3]. split.
      - destruct A1 as [V1 [V2 [V3 V4]]]. repeat split; assumption.
      - intro p'. rewrite port_dir_set. destruct (str_eqb p' p) eqn:E3.
        + apply str_eqb_spec in E3. subst p'. rewrite Hio.
          pose proof A4 as Hfp.
          destruct Hfp as [q Hq]. rewrite Hq. destruct a; reflexivity.
        + specialize (A2 p'). rewrite E3 in A2. unfold port_dir in A2 |- *.
          destruct (find_port p' (m_ports (get_model cur ms1))); [exact A2|exact A2]. }
    destruct B as [B1' B2'].
    assert (R1 : RX cur cur al (get_model cur ms3) (st_out st p)).
    { eapply RX_geq; [apply geq_grow_port|]. eapply R_set_out; eauto. }
    assert (Hk : out_keep ins tok = negb a).
    { unfold out_keep. rewrite Ep. f_equal. rewrite <- Hins. apply (r_ins _ _ _ (RX_R _ _ _ _ _ HR) p). }
    unfold out_tok, tok_named, att_in. rewrite Hk, Ep. rewrite Hio in H. destruct a; cbn [negb].
    + inversion H; subst ms'. rewrite <- (add_att_nil (st_out st p)) in R1. exact R1.
    + destruct (get_model_upd_res_same _ _ _ _ H) as [m' [H1 [H2 H3]]]; [intros; eapply connect_to_name; eauto|].
      rewrite H2. exact (RX_connect cur _ _ _ _ _ _ (st_out st p) H1 C2 R1).
  - apply str_eqb_false in E. apply RX_other; [exact E|]. apply RX_R in HR.
    assert (G : geq (get_model nm ms) (get_model nm ms3)).
    { unfold ms3. eapply geq_trans; [|apply geq_grow_port]. unfold ms2.
      rewrite get_model_upd_other; [|intros x Hx; exact Hx|exact E].
      unfold ms1. destruct (find_port _ _); [apply geq_refl|apply geq_add_port_other; exact E]. }
    destruct inout.
    + inversion H; subst ms'. eapply R_geq; eauto.
    + rewrite (get_model_upd_res_other _ _ _ _ nm H); [|intros; eapply connect_to_name; eauto|exact E].
      eapply R_geq; eauto.
Qed.

Lemma R_do_outputs al cur ins l : forall ms ms' nm st,
  fold_left (do_output al cur) l (Ok ms) = Ok ms' ->
  RX nm cur al (get_model nm ms) st -> n_ins st = ins ->
  (nm = cur -> n_bb st = false /\ reserved nm = false) ->
  RX nm cur al (get_model nm ms') (if str_eqb nm cur then fold_left (out_tok ins) l st else st).
Proof.
  induction l as [|t l IH]; intros ms ms' nm st H HR Hi Hc; cbn [fold_left] in *.
  - inversion H; subst. destruct (str_eqb nm cur); exact HR.
  - destruct (do_output al cur (Ok ms) t) as [ms1|e] eqn:E1; [|rewrite fold_res_err in H; [discriminate|reflexivity]].
    pose proof (R_do_output _ _ _ _ _ _ _ _ E1 HR Hi Hc) as R1.
    specialize (IH ms1 ms' nm _ H R1). destruct (str_eqb nm cur) eqn:E; apply IH; auto.
Qed.
