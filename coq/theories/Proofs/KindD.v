(* In every state reachable by editing calls, a reference points at a definition and the top
   instance of a netlist is an instance: both setters check the kind of their argument, kinds are
   never rewritten below the counter, and nothing else writes these fields. *)
From Coq Require Import List Arith Bool Lia.
From RecordUpdate Require Import RecordSet.
From SV Require Import Base.Base IR.State IR.NS IR.Ops Proofs.AssocX Proofs.Frame Proofs.Inv1a Proofs.Inv2a
  Proofs.InvP Proofs.InvW Proofs.Fresh Proofs.CloneStart.
Import ListNotations RecordSetNotations.

Definition RefD (s : state) : Prop := forall x d, iref s x = Some d -> kind_of s d = Some KDefinition.
Definition TopK (s : state) : Prop := forall n t, top s n = Some t -> kind_of s t = Some KInstance.

Record dq (s s' : state) : Prop := mkDq {
  dq_kind : forall x k, kind_of s x = Some k -> kind_of s' x = Some k;
  dq_ref : forall x d, iref s' x = Some d -> iref s x = Some d \/ kind_of s' d = Some KDefinition;
  dq_top : forall n t, top s' n = Some t -> top s n = Some t \/ kind_of s' t = Some KInstance
}.
Lemma dq_refl s : dq s s. Proof. constructor; [auto|intros; left; assumption|intros; left; assumption]. Qed.
Lemma dq_trans a b c : dq a b -> dq b c -> dq a c.
Proof.
  intros [A1 A2 A3] [B1 B2 B3]. constructor; [auto| |].
  - intros x d H. destruct (B2 x d H) as [H1|H1]; [|right; exact H1]. destruct (A2 x d H1) as [H2|H2]; [left; exact H2|right; apply B1; exact H2].
  - intros n t H. destruct (B3 n t H) as [H1|H1]; [|right; exact H1]. destruct (A3 n t H1) as [H2|H2]; [left; exact H2|right; apply B1; exact H2].
Qed.
Lemma dq_same s s' : kind_of s' = kind_of s -> iref s' = iref s -> top s' = top s -> dq s s'.
Proof. intros A B C. constructor; rewrite ?A, ?B, ?C; [auto|intros; left; assumption|intros; left; assumption]. Qed.
Lemma dq_bind r f s : dq s (fst r) -> (forall s1, dq s1 (fst (f s1))) -> dq s (fst (r >>= f)).
Proof. destruct r as [s1 [x|]]; cbn; intros H1 H2; [exact H1|]. eapply dq_trans; [exact H1|apply H2]. Qed.
Lemma dq_guard b x s k : (forall s1, dq s1 (fst (k s1))) -> dq s (fst (guard b x s k)).
Proof. intro H. unfold guard. destruct b; [apply H|apply dq_refl]. Qed.
Lemma dq_guard_same b x s k : dq s (fst (k s)) -> dq s (fst (guard b x s k)).
Proof. intro H. unfold guard. destruct b; [exact H|apply dq_refl]. Qed.
Lemma dq_fold_idsR f l : (forall s x, dq s (fst (f s x))) -> forall s, dq s (fst (fold_idsR f l s)).
Proof. intro H. induction l as [|x l IH]; intro s; cbn; [apply dq_refl|]. apply dq_bind; [apply H|apply IH]. Qed.
Lemma dq_fold_pairsR f l : (forall s x, dq s (fst (f s x))) -> forall s, dq s (fst (fold_pairsR f l s)).
Proof. intro H. induction l as [|x l IH]; intro s; cbn; [apply dq_refl|]. apply dq_bind; [apply H|apply IH]. Qed.
Lemma dq_fold_ids f l : (forall s x, dq s (f s x)) -> forall s, dq s (fold_ids f l s).
Proof. intro H. induction l as [|x l IH]; intro s; cbn; [apply dq_refl|]. eapply dq_trans; [apply H|apply IH]. Qed.
Lemma dq_fold_left {A} (f : state -> A -> state) l : (forall s x, dq s (f s x)) -> forall s, dq s (fold_left f l s).
Proof. intro H. induction l as [|x l IH]; intro s; cbn; [apply dq_refl|]. eapply dq_trans; [apply H|apply IH]. Qed.
Lemma dq_struct s s' : struct_eq s s' -> dq s s'.
Proof. intro H. apply dq_same; [apply (se_kind _ _ H)|apply (se_iref _ _ H)|apply (se_top _ _ H)]. Qed.
Lemma dq_fw s s' : frame_w s s' -> tq s s' -> dq s s'.
Proof. intros H T. apply dq_same; [apply (fw_kind _ _ H)|apply (fw_iref _ _ H)|apply (tq_top _ _ T)]. Qed.
Ltac dq_triv := apply dq_same; reflexivity.

Lemma dq_alloc s k : Fresh s -> dq s (s <| next := S (next s) |> <| kind_of ::= fun f => upd f (next s) (Some k) |>).
Proof.
  intro F. constructor; cbn; [|intros; left; assumption|intros; left; assumption]. intros x k0 Hx. unfold upd.
  destruct (Nat.eqb_spec x (next s)) as [->|]; [|exact Hx]. rewrite (f_kind _ F (next s) (Nat.le_refl _)) in Hx. discriminate.
Qed.

Lemma dq_construct s k nm props : Fresh s -> dq s (fst (fst (construct s k nm props))).
Proof.
  intro F. unfold construct, alloc. cbn zeta beta iota.
  set (s0 := s <| next := S (next s) |> <| kind_of ::= fun f => upd f (next s) (Some k) |>).
  assert (T0 : dq s s0) by (apply dq_alloc; exact F).
  destruct (has_data k); cbn [fst]; [|exact T0].
  eapply dq_trans; [exact T0|]. apply dq_bind; [apply dq_struct, se_ns_create|]. intro s1.
  apply dq_bind; [destruct nm; [eapply dq_trans; [|apply dq_struct, se_dict_set]; dq_triv|dq_triv]|].
  intro s3. apply dq_struct, se_set_props.
Qed.

Lemma dq_op_add s r p c pos : dq s (fst (op_add s r p c pos)).
Proof.
  unfold op_add. repeat (apply dq_guard; intro).
  apply dq_bind; [destruct (ns_rel r); [apply dq_struct, se_ns_add|apply dq_refl]|].
  intro sx. eapply dq_trans; [|apply dq_fw; [apply fw_add_post|apply tq_add_post]]. dq_triv.
Qed.

Lemma dq_remove_core s r p c : dq s (fst (remove_core s r p c)).
Proof.
  unfold remove_core. apply dq_bind; [|intro; dq_triv].
  eapply dq_trans with (b := emit (if ns_rel r then ns_remove_child s p c (rel_child r) else s) (ERemove r p c)).
  - destruct (ns_rel r); [|dq_triv]. eapply dq_trans; [apply dq_struct, se_ns_remove_child|dq_triv].
  - destruct r; try apply dq_refl.
    + apply dq_fold_idsR. intros s0 n. apply dq_fold_idsR. intros; apply dq_fw; [apply fw_drop_outer|apply tq_drop_outer].
    + destruct (par _ RPorts p); [|apply dq_refl]. apply dq_fold_idsR. intros; apply dq_fw; [apply fw_drop_outer|apply tq_drop_outer].
Qed.

Lemma is_kind_some s y k : is_kind s y k = true -> kind_of s y = Some k.
Proof. unfold is_kind. destruct (kind_of s y) as [k0|]; [|discriminate]. destruct k0, k; try discriminate; reflexivity. Qed.

Lemma dq_op_set_reference s x v : dq s (fst (op_set_reference s x v)).
Proof.
  destruct (fw_op_set_reference_but_iref s x v) as [_ [_ [_ [Hkd Hother]]]].
  constructor; [intros y k Hy; rewrite Hkd; exact Hy| |intros n t Ht; left; rewrite <- (tq_top _ _ (tq_op_set_reference s x v)); exact Ht].
  intros y d Hd. destruct (Nat.eq_dec y x) as [->|Hne]; [|left; rewrite <- Hother by exact Hne; exact Hd].
  rewrite Hkd. clear Hkd Hother. revert Hd. unfold op_set_reference, guard.
  destruct (is_kind s x KInstance && match v with Some d0 => is_kind s d0 KDefinition | None => true end) eqn:G; [|left; exact Hd].
  destruct (match v, iref s x with Some d', Some d0 => same_shape s d0 d' | _, _ => true end); [|left; exact Hd].
  apply andb_true_iff in G as [_ G].
  assert (Hgen : forall (r : R) (k : state -> R), frame_f s (fst r) ->
            (forall s1, iref (fst (k s1)) x = iref s1 x \/ iref (fst (k s1)) x = v) ->
            iref (fst (r >>= k)) x = Some d -> iref s x = Some d \/ kind_of s d = Some KDefinition).
  { intros [s1 [e|]] k [_ [_ [C _]]] Hk; cbn [bindR fst] in *.
    - rewrite C. intro H; left; exact H.
    - destruct (Hk s1) as [H1|H1]; rewrite H1; [rewrite C; intro H; left; exact H|].
      intro Hv. rewrite Hv in H1. subst v. right. cbn beta iota in G. apply is_kind_some. exact G. }
  destruct v as [d'|].
  - apply Hgen.
    + destruct (iref (emit s (EReference x (Some d'))) x) as [d0|].
      * apply ff_bind; [destruct (memb _ _); cbn; repeat split; reflexivity|].
        intro s2. apply ff_of_fw. apply fw_fold_pairsR. intros; apply fw_rekey.
      * cbn [fst ret]. apply ff_of_fw. eapply frame_w_trans; [|apply fw_fold_ids; intros; apply frame_new_outer]. constructor; reflexivity.
    + intro s3. right. cbn. apply upd_same.
  - apply Hgen.
    + apply ff_of_fw. eapply frame_w_trans; [|apply fw_fold_idsR; intros; apply fw_drop_outer]. constructor; reflexivity.
    + intro s3.
      destruct (iref (set_ipins s3 x []) x) as [d0|]; [destruct (memb x (drefs (set_ipins s3 x []) d0))|]; cbn; try (right; apply upd_same).
      left. reflexivity.
Qed.

Lemma dq_create_items r p : forall n s, Fresh s -> dq s (fst (create_items s r p n)).
Proof.
  induction n as [|n IH]; intros s F; cbn [create_items]; [apply dq_refl|].
  pose proof (fresh_alloc s (rel_child r) F) as F0. pose proof (dq_alloc s (rel_child r) F) as T0.
  unfold alloc in *. cbn [fst] in *. cbn zeta.
  eapply dq_trans; [exact T0|].
  pose proof (fresh_op_add _ r p (next s) None F0) as F1.
  pose proof (dq_op_add (s <| next := S (next s) |> <| kind_of ::= fun f => upd f (next s) (Some (rel_child r)) |>) r p (next s) None) as T1.
  destruct (op_add _ r p (next s) None) as [s1 [x|]]; cbn [bindR fst] in *; [exact T1|].
  eapply dq_trans; [exact T1|apply IH; assumption].
Qed.

Lemma refd_dq s s' : dq s s' -> RefD s -> RefD s'.
Proof. intros [A B _] H x d Hd. destruct (B x d Hd) as [H1|H1]; [apply A, (H x d H1)|exact H1]. Qed.
Lemma topk_dq s s' : dq s s' -> TopK s -> TopK s'.
Proof. intros [A _ C] H n t Ht. destruct (C n t Ht) as [H1|H1]; [apply A, (H n t H1)|exact H1]. Qed.

Lemma dq_clear_old_top s n : dq s (clear_old_top s n).
Proof. unfold clear_old_top. destruct (top s n); dq_triv. Qed.

Theorem step_dq s o : Fresh s -> dq s (fst (step s o)).
Proof.
  intros F. destruct o; cbn [step].
  - apply dq_construct; exact F.
  - apply dq_guard_same. unfold create_and_add.
    pose proof (dq_construct s (rel_child r) nm props F) as Tc. pose proof (fresh_construct s (rel_child r) nm props F) as Fc.
    destruct (construct s (rel_child r) nm props) as [res x]. cbn [fst] in *.
    destruct res as [s1 [e|]]; cbn [bindR fst] in *; [exact Tc|].
    pose proof (dq_op_add s1 r p x None) as Ta. pose proof (fresh_op_add s1 r p x None Fc) as Fa.
    destruct (op_add s1 r p x None) as [s2 [e|]]; cbn [bindR fst] in *; [eapply dq_trans; eassumption|].
    eapply dq_trans; [exact Tc|]. eapply dq_trans; [exact Ta|].
    destruct r; try apply dq_refl; [apply dq_create_items; assumption|apply dq_create_items; assumption|apply dq_op_set_reference].
  - apply dq_guard_same. apply dq_create_items; assumption.
  - apply dq_op_add.
  - unfold op_remove. repeat (apply dq_guard; intro). apply dq_bind; [apply dq_remove_core|intro; dq_triv].
  - unfold op_remove_from. repeat (apply dq_guard; intro). apply dq_bind; [apply dq_fold_idsR; intros; apply dq_remove_core|intro; dq_triv].
  - unfold op_reorder. repeat (apply dq_guard; intro). dq_triv.
  - unfold op_reorder_wire. repeat (apply dq_guard; intro). dq_triv.
  - unfold op_connect. apply dq_guard. intro s1. destruct p as [i|n i|]; cbn; try apply dq_refl.
    + destruct (ipwire s1 i); cbn; [apply dq_refl|dq_triv].
    + destruct (assoc i (ipins s1 n)) as [[w0|]|]; cbn; try apply dq_refl. dq_triv.
  - unfold op_disconnect. repeat (apply dq_guard; intro). destruct p; dq_triv.
  - unfold op_disconnect_from. repeat (apply dq_guard; intro). cbn [fst ret].
    match goal with |- dq ?sx (set_wpins (fold_left ?f ?l ?sx) _ _) =>
      apply (dq_trans sx (fold_left f l sx)); [|dq_triv]; apply dq_fold_left; intros sq q; destruct q; dq_triv end.
  - apply dq_op_set_reference.
  - (* the top-instance setter *)
    unfold op_set_top, guard. destruct (is_kind s n KNetlist && _) eqn:HG; [|apply dq_refl].
    apply andb_true_iff in HG as [_ Ha].
    set (s1 := clear_old_top (emit s (ETop n a)) n).
    assert (T1 : dq s s1) by (eapply dq_trans; [|apply dq_clear_old_top]; dq_triv).
    assert (K1 : kind_of s1 = kind_of s) by (unfold s1, clear_old_top; destruct (top _ n); reflexivity).
    assert (F1 : Fresh s1) by (apply (fresh_same s); try (unfold s1, clear_old_top; destruct (top _ n); reflexivity); exact F).
    destruct a as [x|d|].
    + cbn [fst ret]. eapply dq_trans; [exact T1|]. constructor; cbn; [auto|intros; left; assumption|].
      intros n0 t. unfold upd. destruct (Nat.eqb n0 n); [|intro H; left; exact H].
      intro H. injection H as <-. right. rewrite K1. apply is_kind_some. exact Ha.
    + pose proof (dq_construct s1 KInstance None [] F1) as Tc. pose proof (fresh_construct s1 KInstance None [] F1) as Fc.
      destruct (construct_frame s1 KInstance None []) as [_ [_ [_ [_ Hkc]]]].
      assert (Et : snd (construct s1 KInstance None []) = next s1) by reflexivity.
      destruct (construct s1 KInstance None []) as [res t]. cbn [fst snd] in *. subst t.
      eapply dq_trans; [exact T1|].
      destruct res as [s2 [e|]]; cbn [bindR fst] in *; [exact Tc|]. eapply dq_trans; [exact Tc|].
      pose proof (dq_op_set_reference s2 (next s1) (Some d)) as Tr.
      destruct (op_set_reference s2 (next s1) (Some d)) as [s3 [e|]]; cbn [bindR fst ret] in *; [exact Tr|]. eapply dq_trans; [exact Tr|].
      set (s4 := s3 <| istop ::= fun f => upd f (next s1) true |>).
      set (s5 := clear_old_top (emit s4 (ETop n (TopInst (next s1)))) n).
      assert (T5 : dq s3 s5) by (eapply dq_trans; [|apply dq_clear_old_top]; dq_triv).
      assert (K5 : kind_of s5 = kind_of s3) by (unfold s5, clear_old_top; destruct (top _ n); reflexivity).
      eapply dq_trans; [exact T5|]. constructor; cbn; [auto|intros; left; assumption|].
      intros n0 t. unfold upd. destruct (Nat.eqb n0 n); [|intro H; left; exact H].
      intro H. injection H as <-. right. rewrite K5. apply (dq_kind _ _ Tr). rewrite Hkc. apply upd_same.
    + cbn [fst ret]. eapply dq_trans; [exact T1|]. constructor; cbn; [auto|intros; left; assumption|].
      intros n0 t. unfold upd. destruct (Nat.eqb n0 n); [discriminate|intro H; left; exact H].
  - apply dq_guard. intro. apply dq_struct, se_op_set_name.
  - apply dq_guard. intro. apply dq_struct, se_op_del_name.
  - apply dq_guard. intro. apply dq_struct, se_dict_set.
  - apply dq_guard. intro. apply dq_struct, se_dict_del.
  - apply dq_guard. intro. apply dq_struct, se_dict_pop.
  - apply dq_guard. intro. dq_triv.
  - repeat (apply dq_guard; intro). dq_triv.
  - apply dq_guard. intro. dq_triv.
  - apply dq_guard. intro. dq_triv.
  - dq_triv.
Qed.

Theorem reachable_refd_topk ops : RefD (run ops init) /\ TopK (run ops init).
Proof.
  assert (G : forall ops s, Fresh s -> RefD s /\ TopK s -> RefD (run ops s) /\ TopK (run ops s)).
  { induction ops0 as [|o ops0 IH]; intros s F [A B]; cbn [run fold_left]; [split; assumption|].
    apply IH; [apply step_fresh; exact F|]. pose proof (step_dq s o F) as Q. split; [apply (refd_dq s _ Q A)|apply (topk_dq s _ Q B)]. }
  apply G; [apply fresh_init|]. split; intros x d H; discriminate.
Qed.
