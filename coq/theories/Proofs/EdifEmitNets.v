(* Write-then-read of the NETS of one cell (Fmt/EdifEmit.net_sexp / pin_sexp against
   Fmt/EdifFile.parse_net / parse_portref) and the assembly of a whole cell:
     pin_roundtrip      one (portref ..) with member / instanceref comes back as the same pin
     joined_loop        all pins of a wire through the reader's joined loop
     nets_loop          all nets of a cell through the contents loop = Fmt/EdifNets.read_nets
     (glued to Proofs/EdifNetsProofs.cell_nets_roundtrip in cell_contents_roundtrip) *)
From Coq Require Import List NArith ZArith Bool Arith String Lia Permutation.
From SV Require Import Base.Base Fmt.EdifLex Fmt.EdifName Fmt.EdifCable Fmt.EdifBus Fmt.EdifNets
  Fmt.EdifFile Fmt.EdifFileSpec Fmt.EdifEmit Proofs.EdifNameProofs Proofs.EdifNetsProofs Proofs.EdifFileNets
  Proofs.EdifFileWf Proofs.EdifEmitLemmas.
Import ListNotations.
Local Open Scope N_scope.

(* the ports of the cell an instance references, as the WRITER finds them *)
Definition wports (libs : list nvlib) (x : nvinst) : option (list nvport) :=
  match in_ref x with
  | Some (l, cn) =>
    match find_lib l libs with
    | Some L => match find_cell cn (li_cells L) with Some C => Some (ce_ports C) | None => None end
    | None => None
    end
  | None => None
  end.

Definition port_good (ports : list nvport) (pt : str) (k : N) : Prop :=
  exists po, find_port pt ports = Some po /\ po_ident po = pt /\ ident_w pt = true /\ k < po_width po /\
             (po_array po = false -> po_width po = 1).

(* [rp x]: the ports the READER holds for instance x (those of the cell it resolved) *)
Definition pin_good (libs : list nvlib) (c : nvcell) (rp : nvinst -> list nvport) (p : pd) : Prop :=
  match p with
  | PTop pt k => port_good (ce_ports c) pt k
  | PInst i pt k =>
    exists x, find_inst_v i (ce_insts c) = Some x /\ in_ident x = i /\ ident_w i = true /\
              wports libs x = Some (rp x) /\ port_good (rp x) pt k
  end.

Definition einsts (rp : nvinst -> list nvport) (l : list nvinst) : list einst := map (fun x => (x, rp x)) l.

Lemma find_inst_einsts rp i l : find_inst i (einsts rp l) = option_map (fun x => (x, rp x)) (find_inst_v i l).
Proof.
  unfold find_inst, find_inst_v, einsts. induction l as [|x l IH]; [reflexivity|].
  cbn [map find fst]. destruct (ident_eqb (in_ident x) i); [reflexivity|exact IH].
Qed.

Lemma target_roundtrip ports po k t : target_sexp po k = EmOk t -> ident_w (po_ident po) = true ->
  find_port (po_ident po) ports = Some po -> k < po_width po -> (po_array po = false -> po_width po = 1) ->
  exists r, parse_portref_target t = Ok r /\ resolve_port ports (fst r) (snd r) = Ok (po_ident po, k).
Proof.
  intros Ht Hi Hf Hk Hsc. destruct (ident_w_parts _ Hi) as (_ & Htok & Hat).
  unfold target_sexp in Ht. apply N.ltb_lt in Hk. rewrite Hk in Ht. cbn [negb] in Ht. apply N.ltb_lt in Hk.
  unfold atom_of in Ht. rewrite Hat in Ht.
  assert (Hpy : py_index (Z.of_N k) (po_width po) = Some k).
  { unfold py_index. replace (0 <=? Z.of_N k)%Z with true by (symmetry; apply Z.leb_le; lia).
    replace (Z.of_N k <? Z.of_N (po_width po))%Z with true by (symmetry; apply Z.ltb_lt; lia).
    now rewrite N2Z.id. }
  destruct (po_array po) eqn:Ea; inversion Ht; subst t.
  - exists (po_ident po, Z.of_N k). split.
    + unfold parse_portref_target.
      replace (is_kw "member" (KW "member")) with true by (vm_compute; reflexivity).
      cbn [parse_namedef]. rewrite Htok, int_tok_dec. cbn [nm_ident]. now rewrite (ident_w_nowild _ Hi).
    + cbn [fst snd]. unfold resolve_port. now rewrite Hf, Hpy.
  - exists (po_ident po, 0%Z). split.
    + unfold parse_portref_target. now rewrite (nameref_read _ Hi).
    + cbn [fst snd]. unfold resolve_port. rewrite Hf.
      assert (k = 0) by (specialize (Hsc eq_refl); lia). subst k. change 0%Z with (Z.of_N 0). now rewrite Hpy.
Qed.

Theorem pin_roundtrip libs c cx rp p x :
  cx_ports cx = ce_ports c -> pin_good libs c rp p -> pin_sexp libs c p = EmOk x ->
  exists args, x = SList (KW "portref" :: args) /\ parse_portref cx (einsts rp (ce_insts c)) args = Ok p.
Proof.
  intros Hcx Hg Hx. destruct p as [pt k|i pt k]; cbn [pin_good] in Hg.
  - destruct Hg as (po & Hf & Hid & Hi & Hk & Hsc). unfold pin_sexp in Hx. rewrite Hf in Hx.
    destruct (target_sexp po k) as [t| |] eqn:Et; try discriminate. inversion Hx. subst x.
    eexists. split; [reflexivity|]. subst pt.
    destruct (target_roundtrip (ce_ports c) po k t Et Hi Hf Hk Hsc) as (r & Hr1 & Hr2).
    unfold parse_portref. rewrite Hr1. cbn [loop]. rewrite Hcx, Hr2. reflexivity.
  - destruct Hg as (xi & Hfi & Hii & Hiw & Hwp & po & Hf & Hid & Hi & Hk & Hsc).
    unfold pin_sexp in Hx. rewrite Hfi in Hx. unfold wports in Hwp.
    destruct (in_ref xi) as [[l cn]|] eqn:Er; [|discriminate].
    destruct (find_lib l libs) as [L|]; [|discriminate].
    destruct (find_cell cn (li_cells L)) as [C|]; [|discriminate]. inversion Hwp as [Hp]. rewrite Hp in Hx.
    rewrite Hf in Hx. destruct (target_sexp po k) as [t| |] eqn:Et; try discriminate.
    unfold atom_of in Hx. rewrite Hii in Hx. destruct (ident_w_parts _ Hiw) as (_ & _ & Hat). rewrite Hat in Hx.
    inversion Hx. subst x. eexists. split; [reflexivity|]. subst pt.
    destruct (target_roundtrip (rp xi) po k t Et Hi Hf Hk Hsc) as (r & Hr1 & Hr2).
    unfold parse_portref. rewrite Hr1. unfold KW. cbn [loop]. unfold portref_step at 1.
    replace (kweq (lower (K "instanceref")) "portref") with false by (vm_compute; reflexivity).
    replace (kweq (lower (K "instanceref")) "instanceref") with true by (vm_compute; reflexivity).
    rewrite (nameref_read _ Hiw). rewrite find_inst_einsts, Hfi. cbn [option_map fst snd].
    rewrite Er, Hr2. cbn [fst snd]. now rewrite Hii.
Qed.

(* ---------------------------------------------------------------------------------------- *)
Lemma NoDup_app_l {X} (a b : list X) : NoDup (a ++ b) -> NoDup a.
Proof. induction a as [|x a IH]; intros H; [constructor|]. inversion H; subst. constructor; auto. intro; apply H2, in_or_app; auto. Qed.
Lemma NoDup_app_r {X} (a b : list X) : NoDup (a ++ b) -> NoDup b.
Proof. induction a as [|x a IH]; intros H; auto. inversion H; auto. Qed.
Lemma NoDup_app_disj {X} (a b : list X) x : NoDup (a ++ b) -> In x b -> ~ In x a.
Proof.
  induction a as [|y a IH]; intros H Hb Ha; [exact Ha|]. inversion H; subst. destruct Ha as [->|Ha].
  - apply H2, in_or_app; auto. - exact (IH H3 Hb Ha).
Qed.

Lemma wire_has_notin p w : ~ In p w -> wire_has p w = false.
Proof.
  intros H. destruct (wire_has p w) eqn:E; auto. exfalso. apply H. unfold wire_has in E.
  apply existsb_exists in E as (q & Hq & E). apply pd_eqb_spec in E. now subst.
Qed.

Lemma pin_used_notin p cabs : ~ In p (pins_of cabs) -> pin_used p cabs = false.
Proof.
  intros H. destruct (pin_used p cabs) eqn:E; auto. exfalso. apply H. unfold pin_used in E.
  apply existsb_exists in E as (e & He & E). apply existsb_exists in E as (w & Hw & E).
  unfold wire_has in E. apply existsb_exists in E as (q & Hq & E). apply pd_eqb_spec in E. subst q.
  unfold pins_of. apply in_flat_map. exists e. split; auto. unfold cab_pins. apply in_concat. eauto.
Qed.

Lemma joined_loop libs c cx rp cabs pins : forall acc refs,
  cx_ports cx = ce_ports c -> Forall (pin_good libs c rp) pins -> emap (pin_sexp libs c) pins = EmOk refs ->
  (forall p, In p pins -> ~ In p (pins_of cabs)) -> NoDup (acc ++ pins) ->
  loop (joined_step cx (einsts rp (ce_insts c)) cabs) false acc refs = Ok (acc ++ pins).
Proof.
  induction pins as [|p pins IH]; intros acc refs Hcx Hg Hx Hfree Hnd.
  - inversion Hx. now rewrite app_nil_r.
  - cbn [emap] in Hx. destruct (pin_sexp libs c p) as [x| |] eqn:Ep; try discriminate.
    destruct (emap (pin_sexp libs c) pins) as [xs| |] eqn:Eps; try discriminate. inversion Hx. subst refs.
    inversion Hg as [|? ? Hgp Hgs]; subst.
    destruct (pin_roundtrip libs c cx rp p x Hcx Hgp Ep) as (args & -> & Hp).
    unfold KW. cbn [loop]. unfold joined_step at 1.
    replace (kweq (lower (K "portref")) "portref") with true by (vm_compute; reflexivity).
    rewrite Hp. rewrite (pin_used_notin p cabs) by (apply Hfree; now left).
    rewrite (wire_has_notin p acc) by (apply NoDup_remove_2 in Hnd; intro; apply Hnd, in_or_app; auto).
    cbn [orb]. replace (acc ++ p :: pins) with ((acc ++ [p]) ++ pins) by (now rewrite <- app_assoc).
    apply IH; auto.
    + intros q Hq. apply Hfree. now right.
    + now rewrite <- app_assoc.
Qed.

Definition net_good (libs : list nvlib) (c : nvcell) (rp : nvinst -> list nvport) (nt : net pd) : Prop :=
  ident_w (fst (fst nt)) = true /\ text_ok (snd (fst nt)) = true /\
  big_index (fst (fst nt)) (snd (fst nt)) = false /\ Forall (pin_good libs c rp) (snd nt).

Lemma nets_loop libs c cx rp (nets : list (net pd)) : forall cabs0 xs cabsF,
  cx_ports cx = ce_ports c ->
  emap (net_sexp libs c) nets = EmOk xs -> Forall (net_good libs c rp) nets ->
  sinv cabs0 -> read_nets cabs0 nets = Some cabsF ->
  NoDup (spins cabs0 ++ flat_map snd nets) ->
  loop (contents_step cx) false (mkcst (einsts rp (ce_insts c)) cabs0) xs =
  Ok (mkcst (einsts rp (ce_insts c)) cabsF).
Proof.
  induction nets as [|nt nets IH]; intros cabs0 xs cabsF Hcx Hx Hg Hs Hr Hnd.
  - inversion Hx. cbn in Hr. inversion Hr. reflexivity.
  - cbn [emap] in Hx. destruct (net_sexp libs c nt) as [x| |] eqn:En; try discriminate.
    destruct (emap (net_sexp libs c) nets) as [xs'| |] eqn:Ens; try discriminate. inversion Hx. subst xs.
    inversion Hg as [|? ? Hgn Hgs]; subst. destruct Hgn as (Hi & Ht & Hbig & Hpins).
    destruct nt as [[ident name] pins]. cbn [fst snd] in *.
    cbn [read_nets] in Hr. destruct (read_net cabs0 (ident, name, pins)) as [cabs1|] eqn:Er1; [|discriminate].
    unfold net_sexp in En. cbn [fst snd] in En.
    destruct (name_sexp ident name) as [nx| |] eqn:Enm; try discriminate.
    destruct (emap (pin_sexp libs c) pins) as [refs| |] eqn:Erefs; try discriminate. inversion En. subst x.
    destruct (elemname_roundtrip _ _ _ Hi Ht Enm) as (n & Hn & Hn1 & Hn2).
    cbn [flat_map snd] in Hnd.
    destruct (read_net_inv cabs0 ident name pins cabs1 Hs Er1) as [Hs1 Hperm].
    unfold KW. cbn [loop]. unfold contents_step at 1.
    replace (kweq (lower (K "net")) "instance") with false by (vm_compute; reflexivity).
    replace (kweq (lower (K "net")) "net") with true by (vm_compute; reflexivity).
    cbn [cs_insts cs_cabs]. unfold parse_net. rewrite Hn.
    replace (is_kw "joined" (Atom (K "joined"))) with true by (vm_compute; reflexivity). cbn [negb].
    rewrite (joined_loop libs c cx rp cabs0 pins [] refs Hcx Hpins Erefs).
    + cbn [app loop]. rewrite Hn1, Hn2, Hbig, Er1.
      apply IH; auto.
      rewrite app_assoc in Hnd. eapply Permutation_NoDup; [|exact Hnd].
      apply Permutation_app_tail. now apply Permutation_sym.
    + intros p Hp. rewrite pins_of_spins. eapply NoDup_app_disj; [exact Hnd|]. apply in_or_app. now left.
    + cbn [app]. apply NoDup_app_r in Hnd. now apply NoDup_app_l in Hnd.
Qed.

(* ---------------------------------------------------------------------------------------- *)
(* contents: instances, then nets *)
Lemma loop_app {S} (step : S -> str -> list sexp -> result S) ae a : forall s b,
  loop step ae s (a ++ b) = match loop step ae s a with Ok s' => loop step ae s' b | Err e => Err e end.
Proof.
  induction a as [|x a IH]; intros s b; [reflexivity|].
  destruct x as [t|t|l]; [reflexivity|reflexivity|].
  destruct l as [|h args]; cbn [app loop].
  - destruct ae; [apply IH|reflexivity].
  - destruct h as [k|k|k]; try reflexivity. destruct (step s (lower k) args); [apply IH|reflexivity].
Qed.

(* what the reader context must hold for an instance: its reference resolves to a declared cell
   with view "netlist" whose ports are [rp i] *)
Definition inst_good (cx : ctx) (rp : nvinst -> list nvport) (i : nvinst) : Prop :=
  exists l c cs C, in_ref i = Some (l, c) /\ elem_w (in_ident i) (in_name i) = true /\
    forallb prop_w (in_props i) = true /\ ident_w l = true /\ ident_w c = true /\
    resolve_lib cx (Some l) = Ok (l, cs) /\ find_cell c cs = Some C /\ ce_ident C = c /\
    ce_view C = Some (K "netlist") /\ ce_ports C = rp i.

Lemma einsts_idents rp l : map (fun ip : einst => in_ident (fst ip)) (einsts rp l) = map in_ident l.
Proof. unfold einsts. rewrite map_map. reflexivity. Qed.
Lemma einsts_names rp l : map (fun ip : einst => in_name (fst ip)) (einsts rp l) = map in_name l.
Proof. unfold einsts. rewrite map_map. reflexivity. Qed.

Lemma insts_loop cx rp lib cell (is : list nvinst) : forall acc xs cabs,
  emap (inst_sexp [] lib cell) is = EmOk xs -> Forall (inst_good cx rp) is ->
  uniq_ci (map in_ident (acc ++ is)) = true -> uniq_x (map in_name (acc ++ is)) = true ->
  loop (contents_step cx) false (mkcst (einsts rp acc) cabs) xs = Ok (mkcst (einsts rp (acc ++ is)) cabs).
Proof.
  induction is as [|i is IH]; intros acc xs cabs Hx Hg Hui Hun.
  - inversion Hx. now rewrite app_nil_r.
  - cbn [emap] in Hx. destruct (inst_sexp [] lib cell i) as [x| |] eqn:Ei; try discriminate.
    destruct (emap (inst_sexp [] lib cell) is) as [xs'| |] eqn:Eis; try discriminate. inversion Hx. subst xs.
    inversion Hg as [|? ? Hgi Hgs]; subst.
    destruct Hgi as (l & c & cs & C & Hr & Hel & Hps & Hl & Hc & Hres & Hfc & Hcid & Hv & Hp).
    rewrite map_app in Hui, Hun. cbn [map] in Hui, Hun.
    destruct (inst_roundtrip cx (einsts rp acc) lib cell i x l c cs C Ei Hr Hel Hps Hl Hc Hres Hfc Hcid Hv)
      as (args & -> & Hpi).
    { rewrite einsts_idents. exact (uniq_ci_mid _ _ _ Hui). }
    { rewrite einsts_names. exact (uniq_x_mid _ _ _ Hun). }
    unfold KW. cbn [loop]. unfold contents_step at 1.
    replace (kweq (lower (K "instance")) "instance") with true by (vm_compute; reflexivity).
    cbn [cs_insts cs_cabs]. rewrite Hpi, Hp.
    replace (acc ++ i :: is) with ((acc ++ [i]) ++ is) by (now rewrite <- app_assoc).
    specialize (IH (acc ++ [i]) xs' cabs eq_refl Hgs).
    assert (E : einsts rp (acc ++ [i]) = einsts rp acc ++ [(i, rp i)]) by (unfold einsts; now rewrite map_app).
    rewrite E in IH. apply IH; rewrite <- app_assoc; cbn [app]; now rewrite map_app.
Qed.

Lemma emit_from_pins {P} ident name (ws : list (list P)) : forall idx,
  flat_map snd (emit_from ident name idx ws) = List.concat ws.
Proof. induction ws as [|w ws IH]; intros idx; [reflexivity|]. cbn. now rewrite IH. Qed.

Lemma emit_cable_pins {P} ident name (c : cab P) : flat_map snd (emit_cable ident name c) = List.concat (c_wires c).
Proof.
  unfold emit_cable. destruct (c_wires c) as [|w [|w' ws]] eqn:E.
  - reflexivity.
  - destruct (c_array c); cbn; now rewrite !app_nil_r.
  - apply emit_from_pins.
Qed.

Lemma emit_nets_pins (cabs : list (entry pd)) : flat_map snd (emit_nets cabs) = pins_of cabs.
Proof.
  induction cabs as [|e cabs IH]; [reflexivity|].
  change (emit_nets (e :: cabs)) with (emit_cable (e_ident e) (e_name e) (e_cab e) ++ emit_nets cabs).
  change (pins_of (e :: cabs)) with (cab_pins e ++ pins_of cabs).
  rewrite flat_map_app. f_equal; [apply emit_cable_pins|exact IH].
Qed.

(* ---------------------------------------------------------------------------------------- *)
(* ONE CELL: (Cell name (celltype GENERIC) (view netlist (viewtype NETLIST) (interface ..) [(contents ..)]))
   read by parse_cell in a reader state [rlibs] (libraries read), [rcells] (cells of this library
   read so far) gives [norm_cell c] *)
Lemma einsts_fst rp l : map fst (einsts rp l) = l.
Proof. unfold einsts. rewrite map_map. cbn. apply map_id. Qed.

Lemma sinv_nil : @sinv pd [].
Proof. constructor; cbn; [constructor|constructor|intros e []]. Qed.

Theorem cell_roundtrip rlibs libs lib rcells c x rp :
  cell_sexp [] libs lib c = EmOk x ->
  elem_w (ce_ident c) (ce_name c) = true ->
  forallb port_w (ce_ports c) = true ->
  uniq_ci (map po_ident (ce_ports c)) = true -> uniq_x (map po_name (ce_ports c)) = true ->
  Forall (inst_good (mkctx rlibs lib rcells (ce_ident c) (K "netlist") (ce_ports c)) rp) (ce_insts c) ->
  uniq_ci (map in_ident (ce_insts c)) = true -> uniq_x (map in_name (ce_insts c)) = true ->
  wf_cell (ce_cabs c) -> Forall (net_good libs c rp) (emit_nets (ce_cabs c)) -> NoDup (pins_of (ce_cabs c)) ->
  ident_taken (ce_ident c) (map ce_ident rcells) = false ->
  name_taken (ce_name c) (map ce_name rcells) = false ->
  exists args, x = SList (KW "Cell" :: args) /\ parse_cell rlibs lib rcells args = Ok (norm_cell c).
Proof.
  intros Hx Hel Hpw Hpu Hpn Hig Hiu Hin Hwf Hng Hnd Hti Htn.
  unfold elem_w in Hel. apply andb_true_iff in Hel as [Hi Ht].
  unfold cell_sexp in Hx. rewrite Hpu, Hiu in Hx. cbn [andb negb] in Hx.
  destruct (name_sexp (ce_ident c) (ce_name c)) as [nx| |] eqn:En; try discriminate.
  destruct (emap port_sexp (ce_ports c)) as [pxs| |] eqn:Eps; try discriminate.
  destruct (emap (inst_sexp [] lib (ce_ident c)) (ce_insts c)) as [ixs| |] eqn:Eis; try discriminate.
  destruct (emap (net_sexp libs c) (emit_nets (ce_cabs c))) as [nxs| |] eqn:Ens; try discriminate.
  inversion Hx. subst x. clear Hx. eexists. split; [reflexivity|].
  destruct (elemname_roundtrip _ _ _ Hi Ht En) as (n & Hn & Hn1 & Hn2).
  unfold parse_cell. rewrite Hn.
  replace (chk_celltype (SList [KW "celltype"; KW "GENERIC"])) with (@Ok unit tt) by (vm_compute; reflexivity).
  unfold KW at 1. cbn [loop app]. unfold cell_step at 1.
  replace (kweq (lower (K "view")) "status") with false by (vm_compute; reflexivity).
  replace (kweq (lower (K "view")) "view") with true by (vm_compute; reflexivity).
  cbn [snd fst]. unfold parse_view.
  replace (parse_namedef (KW "netlist")) with (@Ok nmd (mknmd (K "netlist") None)) by (vm_compute; reflexivity).
  replace (chk_viewtype (SList [KW "viewtype"; KW "NETLIST"])) with (@Ok unit tt) by (vm_compute; reflexivity).
  rewrite (interface_roundtrip _ _ Eps Hpw Hpu Hpn). cbn [nm_ident]. rewrite Hn1.
  set (cx := mkctx rlibs lib rcells (ce_ident c) (K "netlist") (ce_ports c)) in *.
  assert (Hplace : place (map ce_name rcells) (map ce_ident rcells) n = Ok (ce_name c)).
  { unfold place. now rewrite Hn1, Hn2, Hti, Htn. }
  destruct (is_nil (ce_insts c) && is_nil (ce_cabs c)) eqn:Enil.
  - apply andb_true_iff in Enil as [E1 E2].
    destruct (ce_insts c) eqn:Ei; [|discriminate]. destruct (ce_cabs c) eqn:Ec; [|discriminate].
    cbn [loop snd fst]. rewrite Hplace. cbn [snd fst cs_insts cs_cabs map].
    unfold norm_cell. rewrite Ei, Ec. reflexivity.
  - unfold KW at 1. cbn [loop]. unfold view_step at 1.
    replace (kweq (lower (K "contents")) "status") with false by (vm_compute; reflexivity).
    replace (kweq (lower (K "contents")) "contents") with true by (vm_compute; reflexivity).
    cbn [snd fst]. rewrite loop_app.
    change (mkcst [] []) with (mkcst (einsts rp []) []).
    rewrite (insts_loop cx rp lib (ce_ident c) (ce_insts c) [] ixs [] Eis Hig Hiu Hin). cbn [app].
    rewrite (nets_loop libs c cx rp (emit_nets (ce_cabs c)) [] nxs (map (@norm_entry pd) (ce_cabs c)) eq_refl Ens Hng sinv_nil).
    + cbn [loop snd fst]. rewrite Hplace. cbn [snd fst cs_insts cs_cabs]. rewrite einsts_fst. reflexivity.
    + apply cell_nets_roundtrip. exact Hwf.
    + cbn [app]. change (spins (@nil (entry pd))) with (@nil pd). cbn [app]. now rewrite emit_nets_pins.
Qed.
