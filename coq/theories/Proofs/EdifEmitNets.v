(* Write-then-read of the NETS of one cell (Fmt/EdifEmit.net_sexp / pin_sexp against
   Fmt/EdifFile.parse_net / parse_portref) and the assembly of a whole cell:
     pin_roundtrip      one (portref ..) with member / instanceref comes back as the same pin
     joined_loop        all pins of a wire through the reader's joined loop
     nets_loop          all nets of a cell through the contents loop = Fmt/EdifNets.read_nets
     (glued to Proofs/EdifNetsProofs.cell_nets_roundtrip in cell_contents_roundtrip) *)
From Coq Require Import List NArith ZArith Bool Arith String Lia Permutation.
From SV Require Import Base.Base Fmt.EdifLex Fmt.EdifName Fmt.EdifCable Fmt.EdifBus Fmt.EdifNets
  Fmt.EdifFile Fmt.EdifFileSpec Fmt.EdifEmit Proofs.EdifNameProofs Proofs.EdifNetsProofs Proofs.EdifFileNets
  Proofs.EdifFileWf Proofs.EdifEmitLemmas.
Import ListNotations.
Local Open Scope N_scope.

(* the ports of the cell an instance references, as the WRITER finds them *)
Definition wports (libs : list nvlib) (x : nvinst) : option (list nvport) :=
  match in_ref x with
  | Some (l, cn) =>
    match find_lib l libs with
    | Some L => match find_cell cn (li_cells L) with Some C => Some (ce_ports C) | None => None end
    | None => None
    end
  | None => None
  end.

Definition port_good (ports : list nvport) (pt : str) (k : N) : Prop :=
  exists po, find_port pt ports = Some po /\ po_ident po = pt /\ ident_w pt = true /\ k < po_width po /\
             (po_array po = false -> po_width po = 1).

(* [rp x]: the ports the READER holds for instance x (those of the cell it resolved) *)
Definition pin_good (libs : list nvlib) (c : nvcell) (rp : nvinst -> list nvport) (p : pd) : Prop :=
  match p with
  | PTop pt k => port_good (ce_ports c) pt k
  | PInst i pt k =>
    exists x, find_inst_v i (ce_insts c) = Some x /\ in_ident x = i /\ ident_w i = true /\
              wports libs x = Some (rp x) /\ port_good (rp x) pt k
  end.

Definition einsts (rp : nvinst -> list nvport) (l : list nvinst) : list einst := map (fun x => (x, rp x)) l.

Lemma find_inst_einsts rp i l : find_inst i (einsts rp l) = option_map (fun x => (x, rp x)) (find_inst_v i l).
Proof.
  unfold find_inst, find_inst_v, einsts. induction l as [|x l IH]; [reflexivity|].
  cbn [map find fst]. destruct (ident_eqb (in_ident x) i); [reflexivity|exact IH].
Qed.

Lemma target_roundtrip ports po k t : target_sexp po k = EmOk t -> ident_w (po_ident po) = true ->
  find_port (po_ident po) ports = Some po -> k < po_width po -> (po_array po = false -> po_width po = 1) ->
  exists r, parse_portref_target t = Ok r /\ resolve_port ports (fst r) (snd r) = Ok (po_ident po, k).
Proof.
  intros Ht Hi Hf Hk Hsc. destruct (ident_w_parts _ Hi) as (_ & Htok & Hat).
  unfold target_sexp in Ht. apply N.ltb_lt in Hk. rewrite Hk in Ht. cbn [negb] in Ht. apply N.ltb_lt in Hk.
  unfold atom_of in Ht. rewrite Hat in Ht.
  assert (Hpy : py_index (Z.of_N k) (po_width po) = Some k).
  { unfold py_index. replace (0 <=? Z.of_N k)%Z with true by (symmetry; apply Z.leb_le; lia).
    replace (Z.of_N k <? Z.of_N (po_width po))%Z with true by (symmetry; apply Z.ltb_lt; lia).
    now rewrite N2Z.id. }
  destruct (po_array po) eqn:Ea; inversion Ht; subst t.
  - exists (po_ident po, Z.of_N k). split.
    + unfold parse_portref_target.
      replace (is_kw "member" (KW "member")) with true by (vm_compute; reflexivity).
      cbn [parse_namedef]. rewrite Htok, int_tok_dec. cbn [nm_ident]. now rewrite (ident_w_nowild _ Hi).
    + cbn [fst snd]. unfold resolve_port. now rewrite Hf, Hpy.
  - exists (po_ident po, 0%Z). split.
    + unfold parse_portref_target. now rewrite (nameref_read _ Hi).
    + cbn [fst snd]. unfold resolve_port. rewrite Hf.
      assert (k = 0) by (specialize (Hsc eq_refl); lia). subst k. change 0%Z with (Z.of_N 0). now rewrite Hpy.
Qed.

Theorem pin_roundtrip libs c cx rp p x :
  cx_ports cx = ce_ports c -> pin_good libs c rp p -> pin_sexp libs c p = EmOk x ->
  exists args, x = SList (KW "portref" :: args) /\ parse_portref cx (einsts rp (ce_insts c)) args = Ok p.
Proof.
  intros Hcx Hg Hx. destruct p as [pt k|i pt k]; cbn [pin_good] in Hg.
  - destruct Hg as (po & Hf & Hid & Hi & Hk & Hsc). unfold pin_sexp in Hx. rewrite Hf in Hx.
    destruct (target_sexp po k) as [t| |] eqn:Et; try discriminate. inversion Hx. subst x.
    eexists. split; [reflexivity|]. subst pt.
    destruct (target_roundtrip (ce_ports c) po k t Et Hi Hf Hk Hsc) as (r & Hr1 & Hr2).
    unfold parse_portref. rewrite Hr1. cbn [loop]. rewrite Hcx, Hr2. reflexivity.
  - destruct Hg as (xi & Hfi & Hii & Hiw & Hwp & po & Hf & Hid & Hi & Hk & Hsc).
    unfold pin_sexp in Hx. rewrite Hfi in Hx. unfold wports in Hwp.
    destruct (in_ref xi) as [[l cn]|] eqn:Er; [|discriminate].
    destruct (find_lib l libs) as [L|]; [|discriminate].
    destruct (find_cell cn (li_cells L)) as [C|]; [|discriminate]. inversion Hwp as [Hp]. rewrite Hp in Hx.
    rewrite Hf in Hx. destruct (target_sexp po k) as [t| |] eqn:Et; try discriminate.
    unfold atom_of in Hx. rewrite Hii in Hx. destruct (ident_w_parts _ Hiw) as (_ & _ & Hat). rewrite Hat in Hx.
    inversion Hx. subst x. eexists. split; [reflexivity|]. subst pt.
    destruct (target_roundtrip (rp xi) po k t Et Hi Hf Hk Hsc) as (r & Hr1 & Hr2).
    unfold parse_portref. rewrite Hr1. unfold KW. cbn [loop]. unfold portref_step at 1.
    replace (kweq (lower (K "instanceref")) "portref") with false by (vm_compute; reflexivity).
    replace (kweq (lower (K "instanceref")) "instanceref") with true by (vm_compute; reflexivity).
    rewrite (nameref_read _ Hiw). rewrite find_inst_einsts, Hfi. cbn [option_map fst snd].
    rewrite Er, Hr2. cbn [fst snd]. now rewrite Hii.
Qed.

(* ---------------------------------------------------------------------------------------- *)
Lemma NoDup_app_l {X} (a b : list X) : NoDup (a ++ b) -> NoDup a.
Proof. induction a as [|x a IH]; intros H; [constructor|]. inversion H; subst. constructor; auto. intro; apply H2, in_or_app; auto. Qed.
Lemma NoDup_app_r {X} (a b : list X) : NoDup (a ++ b) -> NoDup b.
Proof. induction a as [|x a IH]; intros H; auto. inversion H; auto. Qed.
Lemma NoDup_app_disj {X} (a b : list X) x : NoDup (a ++ b) -> In x b -> ~ In x a.
Proof.
  induction a as [|y a IH]; intros H Hb Ha; [exact Ha|]. inversion H; subst. destruct Ha as [->|Ha].
  - apply H2, in_or_app; auto. - exact (IH H3 Hb Ha).
Qed.

Lemma wire_has_notin p w : ~ In p w -> wire_has p w = false.
Proof.
  intros H. destruct (wire_has p w) eqn:E; auto. exfalso. apply H. unfold wire_has in E.
  apply existsb_exists in E as (q & Hq & E). apply pd_eqb_spec in E. now subst.
Qed.

Lemma pin_used_notin p cabs : ~ In p (pins_of cabs) -> pin_used p cabs = false.
Proof.
  intros H. destruct (pin_used p cabs) eqn:E; auto. exfalso. apply H. unfold pin_used in E.
  apply existsb_exists in E as (e & He & E). apply existsb_exists in E as (w & Hw & E).
  unfold wire_has in E. apply existsb_exists in E as (q & Hq & E). apply pd_eqb_spec in E. subst q.
  unfold pins_of. apply in_flat_map. exists e. split; auto. unfold cab_pins. apply in_concat. eauto.
Qed.

Lemma joined_loop libs c cx rp cabs pins : forall acc refs,
  cx_ports cx = ce_ports c -> Forall (pin_good libs c rp) pins -> emap (pin_sexp libs c) pins = EmOk refs ->
  (forall p, In p pins -> ~ In p (pins_of cabs)) -> NoDup (acc ++ pins) ->
  loop (joined_step cx (einsts rp (ce_insts c)) cabs) false acc refs = Ok (acc ++ pins).
Proof.
  induction pins as [|p pins IH]; intros acc refs Hcx Hg Hx Hfree Hnd.
  - inversion Hx. now rewrite app_nil_r.
  - cbn [emap] in Hx. destruct (pin_sexp libs c p) as [x| |] eqn:Ep; try discriminate.
    destruct (emap (pin_sexp libs c) pins) as [xs| |] eqn:Eps; try discriminate. inversion Hx. subst refs.
    inversion Hg as [|? ? Hgp Hgs]; subst.
    destruct (pin_roundtrip libs c cx rp p x Hcx Hgp Ep) as (args & -> & Hp).
    unfold KW. cbn [loop]. unfold joined_step at 1.
    replace (kweq (lower (K "portref")) "portref") with true by (vm_compute; reflexivity).
    rewrite Hp. rewrite (pin_used_notin p cabs) by (apply Hfree; now left).
    rewrite (wire_has_notin p acc) by (apply NoDup_remove_2 in Hnd; intro; apply Hnd, in_or_app; auto).
    cbn [orb]. replace (acc ++ p :: pins) with ((acc ++ [p]) ++ pins) by (now rewrite <- app_assoc).
    apply IH; auto.
    + intros q Hq. apply Hfree. now right.
    + now rewrite <- app_assoc.
Qed.

Definition net_good (libs : list nvlib) (c : nvcell) (rp : nvinst -> list nvport) (nt : net pd) : Prop :=
  ident_w (fst (fst nt)) = true /\ text_ok (snd (fst nt)) = true /\
  big_index (fst (fst nt)) (snd (fst nt)) = false /\ Forall (pin_good libs c rp) (snd nt).

Lemma nets_loop libs c cx rp (nets : list (net pd)) : forall cabs0 xs cabsF,
  cx_ports cx = ce_ports c ->
  emap (net_sexp libs c) nets = EmOk xs -> Forall (net_good libs c rp) nets ->
  sinv cabs0 -> read_nets cabs0 nets = Some cabsF ->
  NoDup (spins cabs0 ++ flat_map snd nets) ->
  loop (contents_step cx) false (mkcst (einsts rp (ce_insts c)) cabs0) xs =
  Ok (mkcst (einsts rp (ce_insts c)) cabsF).
Proof.
  induction nets as [|nt nets IH]; intros cabs0 xs cabsF Hcx Hx Hg Hs Hr Hnd.
  - inversion Hx. cbn in Hr. inversion Hr. reflexivity.
  - cbn [emap] in Hx. destruct (net_sexp libs c nt) as [x| |] eqn:En; try discriminate.
    destruct (emap (net_sexp libs c) nets) as [xs'| |] eqn:Ens; try discriminate. inversion Hx. subst xs.
    inversion Hg as [|? ? Hgn Hgs]; subst. destruct Hgn as (Hi & Ht & Hbig & Hpins).
    destruct nt as [[ident name] pins]. cbn [fst snd] in *.
    cbn [read_nets] in Hr. destruct (read_net cabs0 (ident, name, pins)) as [cabs1|] eqn:Er1; [|discriminate].
    unfold net_sexp in En. cbn [fst snd] in En.
    destruct (name_sexp ident name) as [nx| |] eqn:Enm; try discriminate.
    destruct (emap (pin_sexp libs c) pins) as [refs| |] eqn:Erefs; try discriminate. inversion En. subst x.
    destruct (elemname_roundtrip _ _ _ Hi Ht Enm) as (n & Hn & Hn1 & Hn2).
    cbn [flat_map snd] in Hnd.
    destruct (read_net_inv cabs0 ident name pins cabs1 Hs Er1) as [Hs1 Hperm].
    unfold KW. cbn [loop]. unfold contents_step at 1.
    replace (kweq (lower (K "net")) "instance") with false by (vm_compute; reflexivity).
    replace (kweq (lower (K "net")) "net") with true by (vm_compute; reflexivity).
    cbn [cs_insts cs_cabs]. unfold parse_net. rewrite Hn.
    replace (is_kw "joined" (Atom (K "joined"))) with true by (vm_compute; reflexivity). cbn [negb].
    rewrite (joined_loop libs c cx rp cabs0 pins [] refs Hcx Hpins Erefs).
    + cbn [app loop]. rewrite Hn1, Hn2, Hbig, Er1.
      apply IH; auto.
      rewrite app_assoc in Hnd. eapply Permutation_NoDup; [|exact Hnd].
      apply Permutation_app_tail. now apply Permutation_sym.
    + intros p Hp. rewrite pins_of_spins. eapply NoDup_app_disj; [exact Hnd|]. apply in_or_app. now left.
    + cbn [app]. apply NoDup_app_r in Hnd. now apply NoDup_app_l in Hnd.
Qed.
