(* C07 independence for Netlist.clone in every reachable state: edits of the copy never show in the
   original. *)
From Coq Require Import List Arith NArith ZArith Bool Lia.
From RecordUpdate Require Import RecordSet.
From SV Require Import Base.Base IR.State IR.NS IR.Ops Xform.Clone Proofs.InvW Proofs.CloneFrame Proofs.CloneStart Proofs.CloneFull
  Proofs.CloneNetInv Proofs.Locality Proofs.LocalityStep Proofs.LocalityHist Proofs.LocalityClone Proofs.LocalityOrig Proofs.XHistAll Proofs.LocalityDrefs Proofs.Inv2a Proofs.Fresh Proofs.LocalityRefs Proofs.RefK.
Import ListNotations RecordSetNotations.

Theorem netlist_clone_copy_region_closed ops n :
  let s := run ops init in
  kind_of s n = Some KNetlist -> Closed s n -> snd (fst (clone_netlist s n)) = None ->
  RClosed (copy_region (next s)) (fst (fst (clone_netlist s n))).
Proof.
  intros s Hk Hc Hok. destruct (clone_netlist_ci s n (reachable_startok ops)) as [m C].
  apply (copy_region_closed s _ m (reachable_uf ops) (clone_netlist_reachable_inv ops n Hk Hc Hok) C).
Qed.

Theorem netlist_clone_copy_edits_independent ops n h :
  let s := run ops init in
  let sF := fst (fst (clone_netlist s n)) in
  kind_of s n = Some KNetlist -> Closed s n -> snd (fst (clone_netlist s n)) = None ->
  Forall (op_in (copy_region (next s))) h ->
  out_eq (copy_region (next s)) sF (run h sF) /\ RClosed (copy_region (next s)) (run h sF).
Proof.
  intros s sF Hk Hc Hok H. apply (history_independent _ sF h (netlist_clone_copy_region_closed ops n Hk Hc Hok) H).
Qed.

(* the same for the frame-and-closure clone of ANY kind of root, given the invariant of the state after
   the clone (C07_clone_any_keeps_invariant) - stated for the netlist root above because the running
   invariant CI is exported for that root only *)

Lemma g_run ops : forall s, XHistAll.G s -> XHistAll.G (run ops s).
Proof. induction ops as [|o ops IH]; intros s Gs; cbn; [exact Gs|]. apply IH. apply XHistAll.g_step. exact Gs. Qed.

Theorem netlist_clone_orig_region_closed ops n :
  let s := run ops init in
  let sF := fst (fst (clone_netlist s n)) in
  kind_of s n = Some KNetlist -> Closed s n -> snd (fst (clone_netlist s n)) = None ->
  RClosed (orig_region (next s) (next sF)) sF.
Proof.
  intros s sF Hk Hc Hok. destruct (clone_netlist_ci s n (reachable_startok ops)) as [m C].
  pose proof (g_run ops init XHistAll.g_init) as Gs. fold s in Gs.
  assert (GF : XHistAll.G sF).
  { pose proof (XHistAll.g_clone_any s n Gs) as H. unfold clone_any in H. rewrite Hk in H. apply H; [intros _; exact Hc|exact Hok]. }
  destruct Gs as [Us [_ [_ TKs]]]. destruct GF as [UF' _].
  apply (orig_region_closed s sF m Us TKs UF' C). intros d x Hd Hx. left.
  unfold sF, s in Hx. rewrite (clone_netlist_reachable_old_drefs ops n Hk Hc Hok d Hd) in Hx. fold s in Hx.
  destruct Us as [Is [_ [Fs _]]]. apply (i2_ref _ (inv_r _ Is)) in Hx.
  destruct (Nat.lt_ge_cases x (next s)) as [Hl|Hg]; [exact Hl|]. rewrite (f_iref _ Fs x Hg) in Hx. discriminate.
Qed.

Theorem netlist_clone_orig_edits_independent ops n h :
  let s := run ops init in
  let sF := fst (fst (clone_netlist s n)) in
  kind_of s n = Some KNetlist -> Closed s n -> snd (fst (clone_netlist s n)) = None ->
  Forall (op_in (orig_region (next s) (next sF))) h ->
  out_eq (orig_region (next s) (next sF)) sF (run h sF) /\ RClosed (orig_region (next s) (next sF)) (run h sF).
Proof.
  intros s sF Hk Hc Hok H. apply (history_independent _ sF h (netlist_clone_orig_region_closed ops n Hk Hc Hok) H).
Qed.

(* references of either region stay inside it after Netlist.clone of a closed netlist *)
Theorem netlist_clone_refin ops n :
  let s := run ops init in
  let sF := fst (fst (clone_netlist s n)) in
  kind_of s n = Some KNetlist -> Closed s n -> snd (fst (clone_netlist s n)) = None ->
  RefIn (copy_region (next s)) sF /\ RefIn (orig_region (next s) (next sF)) sF.
Proof.
  intros s sF Hk Hc Hok. destruct (clone_netlist_ci s n (reachable_startok ops)) as [m C].
  pose proof (g_run ops init XHistAll.g_init) as Gs. fold s in Gs.
  assert (GF : XHistAll.G sF).
  { pose proof (XHistAll.g_clone_any s n Gs) as H. unfold clone_any in H. rewrite Hk in H. apply H; [intros _; exact Hc|exact Hok]. }
  destruct Gs as [[Is [_ [Fs [_ Ks]]]] _]. destruct GF as [[IF [_ [FF _]]] _].
  pose proof (ci_os _ _ _ _ C) as O. unfold sF in *. clear sF. split.
  - intros x d Hx H. unfold copy_region in *. destruct (Nat.lt_ge_cases d (next s)) as [Hl|Hg]; [exfalso|exact Hg].
    apply (i2_ref _ (inv_r _ IF)) in H. unfold s in H. rewrite (clone_netlist_reachable_old_drefs ops n Hk Hc Hok d Hl) in H. fold s in H.
    apply (i2_ref _ (inv_r _ Is)) in H. rewrite (f_iref _ Fs x Hx) in H. discriminate.
  - intros x d [Hx|Hx] H; unfold orig_region.
    + rewrite (os_iref _ _ _ O x Hx) in H. pose proof (Ks x d H) as Hkd.
      destruct (Nat.lt_ge_cases d (next s)) as [Hl|Hg]; [left; exact Hl|]. exfalso. apply Hkd. apply (f_kind _ Fs d Hg).
    + rewrite (f_iref _ FF x Hx) in H. discriminate.
Qed.

(* INDEPENDENCE at full strength for Netlist.clone, reference sets included, both directions *)
Theorem netlist_clone_independent ops n h :
  let s := run ops init in
  let sF := fst (fst (clone_netlist s n)) in
  kind_of s n = Some KNetlist -> Closed s n -> snd (fst (clone_netlist s n)) = None ->
  (Forall (op_in (copy_region (next s))) h ->
     out_eq (copy_region (next s)) sF (run h sF) /\ forall x, x < next s -> drefs (run h sF) x = drefs sF x) /\
  (Forall (op_in (fun x => x < next s \/ next sF <= x)) h ->
     out_eq (fun x => x < next s \/ next sF <= x) sF (run h sF) /\
     forall x, next s <= x -> x < next sF -> drefs (run h sF) x = drefs sF x).
Proof.
  intros s sF Hk Hc Hok. destruct (netlist_clone_refin ops n Hk Hc Hok) as [R1 R2]. fold s in R1, R2. fold sF in R1, R2. split; intro H.
  - destruct (run_loc2 _ h sF H (netlist_clone_copy_region_closed ops n Hk Hc Hok) R1) as [[O _] [D _]].
    split; [exact O|]. intros x Hx. apply D. unfold copy_region. lia.
  - destruct (run_loc2 _ h sF H (netlist_clone_orig_region_closed ops n Hk Hc Hok) R2) as [[O _] [D _]].
    split; [exact O|]. intros x Hx1 Hx2. apply D. unfold orig_region. lia.
Qed.

(* CLOSURE, both regions: after a completed Netlist.clone the copy and the original are separated *)
Theorem netlist_clone_separated ops n :
  let s := run ops init in
  let sF := fst (fst (clone_netlist s n)) in
  kind_of s n = Some KNetlist -> Closed s n -> snd (fst (clone_netlist s n)) = None ->
  Separated (copy_region (next s)) (orig_region (next s) (next sF)) sF.
Proof.
  intros s sF Hk Hc Hok. split; [apply (netlist_clone_copy_region_closed ops n Hk Hc Hok)|].
  split; [apply (netlist_clone_orig_region_closed ops n Hk Hc Hok)|].
  intros x Hx H1 [H2|H2]; unfold copy_region in H1; lia.
Qed.

(* in particular nothing reachable from the copy of the netlist is an object of the original *)
Theorem netlist_clone_footprint_disjoint ops n y :
  let s := run ops init in
  let sF := fst (fst (clone_netlist s n)) in
  kind_of s n = Some KNetlist -> Closed s n -> snd (fst (clone_netlist s n)) = None ->
  footprint sF (snd (clone_netlist s n)) y -> next s <= y.
Proof.
  intros s sF Hk Hc Hok H.
  assert (Hr : next s <= snd (clone_netlist s n)).
  { destruct (clone_netlist_reachable_struct ops n Hk Hc Hok) as [M NS].
    destruct (ns_rng _ _ _ _ _ NS _ _ (ns_root _ _ _ _ _ NS)) as [_ [B _]]. exact B. }
  apply (rclosed_footprint (copy_region (next s)) sF _ y (netlist_clone_copy_region_closed ops n Hk Hc Hok) Hr H).
Qed.
