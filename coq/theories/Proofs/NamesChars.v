(* C17 (engine names): which characters an identifier made by make_valid consists of, when it is
   legal, and that lower-case names give lower-case identifiers. *)
From Coq Require Import List Arith NArith Bool Lia.
From SV Require Import Base.Base IR.State IR.NS Proofs.Ident Names.Edifify Proofs.NamesDec Proofs.NamesSuffix.
Import ListNotations.

Definition idchars (s : str) : Prop := Forall (fun c => is_idchar c = true) s.

(* what make_valid guarantees about the characters: legal characters throughout, first character a
   letter, or '&' followed by something, or - in one corner case - '_' *)
Definition made (s : str) : Prop :=
  match s with
  | [] => False
  | c :: t => idchars t /\ (is_alpha c = true \/ c = 95%N \/ (c = 38%N /\ t <> []))
  end.

Lemma Forall_firstn {A} (P : A -> Prop) k : forall l, Forall P l -> Forall P (firstn k l).
Proof.
  induction k as [|k IH]; intros l H; [constructor|]. destruct H; cbn; [constructor|].
  constructor; [assumption|apply IH; assumption].
Qed.

Lemma Forall_skipn {A} (P : A -> Prop) k : forall l, Forall P l -> Forall P (skipn k l).
Proof.
  induction k as [|k IH]; intros l H; [exact H|]. destruct H; cbn; [constructor|apply IH; assumption].
Qed.

Lemma is_alpha_idchar c : is_alpha c = true -> is_idchar c = true.
Proof. unfold is_idchar, is_alnum. intros ->. reflexivity. Qed.

Lemma digits_idchars ds : digits ds -> idchars ds.
Proof.
  unfold digits, idchars. apply Forall_impl. intros c H. unfold is_idchar, is_alnum. rewrite H.
  rewrite orb_true_r. reflexivity.
Qed.

Lemma sfx_idchars n : idchars (sfx n).
Proof.
  unfold sfx. apply Forall_app. split; [repeat constructor|].
  apply Forall_app. split; [apply digits_idchars, dec_digits|repeat constructor].
Qed.

Lemma sfx_head n : exists w, sfx n = 95%N :: w.
Proof. unfold sfx, str_sdn. eexists. reflexivity. Qed.

(* a prefix of a made string followed by legal characters starting with '_' is made *)
Lemma made_prefix_app s k w w' : made s -> w = 95%N :: w' -> idchars w -> made (firstn k s ++ w).
Proof.
  intros Hs -> Hw. destruct s as [|c t]; [destruct Hs|]. destruct Hs as [Ht Hc].
  destruct k as [|k]; cbn [firstn app].
  - split; [inversion Hw; assumption|]. right. left. reflexivity.
  - split; [apply Forall_app; split; [apply Forall_firstn; exact Ht|exact Hw]|].
    destruct Hc as [Hc|[Hc|[Hc _]]]; [left; exact Hc|right; left; exact Hc|].
    right. right. split; [exact Hc|]. destruct (firstn k t); discriminate.
Qed.

Lemma made_all_idchars_or_amp s : made s -> idchars s \/ exists t, s = 38%N :: t /\ idchars t /\ t <> [].
Proof.
  destruct s as [|c t]; [intros []|]. intros [Ht [Hc|[Hc|[Hc Hne]]]].
  - left. constructor; [apply is_alpha_idchar; exact Hc|exact Ht].
  - left. subst. constructor; [reflexivity|exact Ht].
  - right. subst. exists t. auto.
Qed.

Lemma made_length_fix s : made s -> made (length_fix s).
Proof.
  intro Hs. unfold length_fix. destruct (length_good s) eqn:Eg; [exact Hs|].
  unfold length_good, name_length_target in Eg. apply Nat.ltb_ge in Eg.
  destruct (sdn_suffix s) as [m|] eqn:Es.
  - destruct (sdn_suffix_spec _ _ Es) as (b & ds & nl & Hl & Hb & _ & _ & Hd & _ & Hnl).
    assert (Hsk : skipn (m_start m) s = str_sdn ++ ds ++ [95%N] ++ nl)
      by (rewrite Hl at 1; rewrite <- Hb; apply skipn_app_exact).
    rewrite Hsk.
    assert (Hid : idchars (str_sdn ++ ds ++ [95%N] ++ nl)).
    { destruct (made_all_idchars_or_amp _ Hs) as [Ha|(t & Ht & Hit & _)].
      - rewrite Hl in Ha. apply Forall_app in Ha as [_ Ha]. exact Ha.
      - destruct b as [|c b]; [rewrite Hl in Ht; discriminate|].
        rewrite Hl in Ht. inversion Ht; subst. apply Forall_app in Hit as [_ Ha]. exact Ha. }
    unfold slice_to_256_minus. destruct (m_len m <=? name_length_target);
      eapply made_prefix_app; try exact Hs; try exact Hid; reflexivity.
  - destruct s as [|c t]; [destruct Hs|]. destruct Hs as [Ht Hc]. cbn [firstn].
    split; [apply Forall_firstn; exact Ht|].
    destruct Hc as [Hc|[Hc|[Hc _]]]; [left; exact Hc|right; left; exact Hc|].
    right. right. split; [exact Hc|]. cbn [length] in Eg. destruct t; [cbn in Eg; lia|discriminate].
Qed.

Lemma lower_c_idchar c : is_idchar c = true -> is_idchar (lower_c c) = true.
Proof.
  unfold lower_c. destruct (is_upper c) eqn:E; [|auto]. intros _.
  unfold is_upper in E. apply andb_true_iff in E as [E1 E2]. apply N.leb_le in E1, E2.
  unfold is_idchar, is_alnum, is_alpha, is_lower.
  replace ((97 <=? c + 32)%N) with true by (symmetry; apply N.leb_le; lia).
  replace ((c + 32 <=? 122)%N) with true by (symmetry; apply N.leb_le; lia).
  cbn. rewrite orb_true_r. reflexivity.
Qed.

Lemma lower_c_alpha c : is_alpha c = true -> is_alpha (lower_c c) = true.
Proof.
  unfold lower_c. destruct (is_upper c) eqn:E; [|auto]. intros _.
  unfold is_upper in E. apply andb_true_iff in E as [E1 E2]. apply N.leb_le in E1, E2.
  unfold is_alpha, is_lower.
  replace ((97 <=? c + 32)%N) with true by (symmetry; apply N.leb_le; lia).
  replace ((c + 32 <=? 122)%N) with true by (symmetry; apply N.leb_le; lia).
  cbn. apply orb_true_r.
Qed.

Lemma made_lower s : made s -> made (lower s).
Proof.
  destruct s as [|c t]; [intros []|]. intros [Ht Hc]. cbn. split.
  - apply Forall_map. eapply Forall_impl; [|exact Ht]. intros a. apply lower_c_idchar.
  - destruct Hc as [Hc|[Hc|[Hc Hne]]].
    + left. apply lower_c_alpha. exact Hc.
    + right. left. subst. reflexivity.
    + right. right. subst. split; [reflexivity|]. destruct t; [congruence|discriminate].
Qed.

Lemma made_bump l : made l -> made (bump l).
Proof.
  intro Hl. destruct (bump_form l) as [[_ H]|(m & b & _ & _ & Hb & H)]; rewrite H.
  - rewrite <- (firstn_all l) at 1. destruct (sfx_head 1) as [w Hw].
    eapply made_prefix_app; [exact Hl|exact Hw|apply sfx_idchars].
  - rewrite Hb. destruct (sfx_head (m_num m + 1)) as [w Hw].
    eapply made_prefix_app; [exact Hl|exact Hw|apply sfx_idchars].
Qed.

Lemma made_conflicts_fix i objs : forall fuel c r,
  made c -> conflicts_fix fuel i c objs = Ok r -> made r.
Proof.
  induction fuel as [|f IH]; intros c r Hc H; [discriminate|].
  cbn [conflicts_fix] in H. destruct (conflicts_good i (lower c) objs).
  - inversion H; subst. exact Hc.
  - eapply IH; [|exact H]. apply made_length_fix, made_bump, made_lower. exact Hc.
Qed.

Lemma sanitize_idchar c : is_idchar (sanitize_c c) = true.
Proof.
  unfold sanitize_c. destruct (is_alnum c) eqn:E; [|reflexivity].
  unfold is_idchar. rewrite E. reflexivity.
Qed.

Lemma sanitize_alpha c : is_alpha c = true -> sanitize_c c = c.
Proof. unfold sanitize_c, is_alnum. intros ->. reflexivity. Qed.

Lemma made_characters_fix x c : characters_fix x = Some c -> made c.
Proof.
  unfold characters_fix, characters_good. destruct x as [|a x]; [discriminate|].
  assert (Hsan : idchars (map sanitize_c (a :: x))).
  { apply Forall_map. apply Forall_forall. intros. apply sanitize_idchar. }
  destruct (is_alpha a && forallb is_idchar (a :: x)) eqn:E.
  - intro H. inversion H; subst. apply made_length_fix.
    apply andb_true_iff in E as [E1 E2]. apply forallb_Forall in E2. inversion E2; subst.
    split; [assumption|left; exact E1].
  - destruct (is_alpha a) eqn:Ea; intro H; inversion H; subst; apply made_length_fix.
    + cbn [map]. rewrite (sanitize_alpha _ Ea). inversion Hsan; subst. split; [assumption|left; exact Ea].
    + split; [exact Hsan|]. right. right. split; [reflexivity|discriminate].
Qed.

(* (b), universal part: whatever the name and the siblings *)
Theorem make_valid_made fuel i objs name r : make_valid fuel i objs name = Ok r -> made r.
Proof.
  unfold make_valid. destruct (characters_fix (length_fix name)) as [c|] eqn:E; [|discriminate].
  apply made_conflicts_fix. eapply made_characters_fix. exact E.
Qed.

(* ... hence the identifier is legal exactly when it does not begin with '_' and is short enough *)
Definition length_ok (s : str) : Prop :=
  match s with c :: t => if N.eqb c 38 then length t <= 255 else length s <= 255 | [] => False end.

Theorem made_legal_iff r : made r -> (legal_identifier r <-> hd 0%N r <> 95%N /\ length_ok r).
Proof.
  destruct r as [|c t]; [intros []|]. intros [Ht Hc]. unfold legal_identifier, length_ok. cbn [hd].
  destruct (N.eqb_spec c 38) as [->|Hne].
  - destruct Hc as [Hc|[Hc|[_ Hc]]]; [discriminate|discriminate|].
    split; [intros (_ & H & _); split; [discriminate|exact H]|intros [_ H]; auto].
  - destruct Hc as [Hc|[Hc|[Hc _]]]; [| |contradiction].
    + split; [intros (_ & H & _); split; [intro; subst; discriminate|exact H]|].
      intros [_ H]. repeat split; [exact Hc|exact H|constructor; [apply is_alpha_idchar; exact Hc|exact Ht]].
    + subst. split; [intros (H & _); discriminate|intros [H _]; congruence].
Qed.

(* a non-empty name never raises IndexError *)
Lemma length_fix_nonempty s : s <> [] -> length_fix s <> [].
Proof.
  intro Hs. unfold length_fix. destruct (length_good s) eqn:Eg; [exact Hs|].
  unfold length_good, name_length_target in Eg. apply Nat.ltb_ge in Eg.
  destruct (sdn_suffix s) as [m|] eqn:Es.
  - destruct (sdn_suffix_spec _ _ Es) as (b & ds & nl & Hl & Hb & _).
    assert (Hsk : skipn (m_start m) s = str_sdn ++ ds ++ [95%N] ++ nl)
      by (rewrite Hl at 1; rewrite <- Hb; apply skipn_app_exact).
    rewrite Hsk. intro H. apply app_eq_nil in H as [_ H]. discriminate.
  - destruct s; [congruence|discriminate].
Qed.

Theorem make_valid_no_index_error fuel i objs name : name <> [] -> make_valid fuel i objs name <> IndexError.
Proof.
  intro Hn. unfold make_valid. pose proof (length_fix_nonempty _ Hn) as H.
  destruct (length_fix name) as [|a x] eqn:E; [congruence|].
  assert (exists c, characters_fix (a :: x) = Some c) as [c ->].
  { unfold characters_fix, characters_good.
    destruct (is_alpha a && forallb is_idchar (a :: x)); [eexists; reflexivity|].
    destruct (is_alpha a); eexists; reflexivity. }
  clear. revert c. induction fuel as [|f IH]; intro c; [discriminate|].
  cbn [conflicts_fix]. destruct (conflicts_good i (lower c) objs); [discriminate|apply IH].
Qed.

(* ---------- lower-case names give lower-case identifiers ---------- *)

Definition no_upper (s : str) : Prop := Forall (fun c => is_upper c = false) s.

Lemma no_upper_lower_id s : no_upper s -> lower s = s.
Proof.
  induction 1 as [|c s Hc _ IH]; [reflexivity|].
  change (lower (c :: s)) with (lower_c c :: lower s). rewrite IH. unfold lower_c. rewrite Hc. reflexivity.
Qed.

Lemma digits_no_upper ds : digits ds -> no_upper ds.
Proof.
  unfold digits, no_upper. apply Forall_impl. intros c H. unfold is_digit in H. unfold is_upper.
  apply andb_true_iff in H as [H1 H2]. apply N.leb_le in H1, H2.
  apply andb_false_iff. left. apply N.leb_gt. lia.
Qed.

Lemma sfx_no_upper n : no_upper (sfx n).
Proof.
  unfold sfx. apply Forall_app. split; [repeat constructor|].
  apply Forall_app. split; [apply digits_no_upper, dec_digits|repeat constructor].
Qed.

Lemma no_upper_length_fix s : no_upper s -> no_upper (length_fix s).
Proof.
  intro H. unfold length_fix. destruct (length_good s); [exact H|].
  destruct (sdn_suffix s) as [m|]; [|apply Forall_firstn; exact H].
  apply Forall_app. split; [|apply Forall_skipn; exact H].
  unfold slice_to_256_minus. destruct (m_len m <=? name_length_target); apply Forall_firstn; exact H.
Qed.

Lemma no_upper_bump l : no_upper l -> no_upper (bump l).
Proof.
  intro Hl. destruct (bump_form l) as [[_ H]|(m & b & _ & _ & Hb & H)]; rewrite H.
  - apply Forall_app. split; [exact Hl|apply sfx_no_upper].
  - apply Forall_app. split; [rewrite Hb; apply Forall_firstn; exact Hl|apply sfx_no_upper].
Qed.

Lemma no_upper_conflicts_fix i objs : forall fuel c r,
  no_upper c -> conflicts_fix fuel i c objs = Ok r -> no_upper r.
Proof.
  induction fuel as [|f IH]; intros c r Hc H; [discriminate|].
  cbn [conflicts_fix] in H. destruct (conflicts_good i (lower c) objs).
  - inversion H; subst. exact Hc.
  - eapply IH; [|exact H]. apply no_upper_length_fix, no_upper_bump.
    rewrite (no_upper_lower_id _ Hc). exact Hc.
Qed.

Lemma sanitize_no_upper c : is_upper c = false -> is_upper (sanitize_c c) = false.
Proof. unfold sanitize_c. destruct (is_alnum c); [auto|reflexivity]. Qed.

Lemma no_upper_characters_fix x c : no_upper x -> characters_fix x = Some c -> no_upper c.
Proof.
  intro Hx. unfold characters_fix, characters_good. destruct x as [|a x]; [discriminate|].
  assert (Hsan : no_upper (map sanitize_c (a :: x))).
  { apply Forall_map. eapply Forall_impl; [|exact Hx]. intros. apply sanitize_no_upper. assumption. }
  destruct (is_alpha a && forallb is_idchar (a :: x)).
  - intro H. inversion H; subst. apply no_upper_length_fix. exact Hx.
  - destruct (is_alpha a); intro H; inversion H; subst; apply no_upper_length_fix; [exact Hsan|].
    constructor; [reflexivity|exact Hsan].
Qed.

Theorem make_valid_no_upper fuel i objs name r :
  no_upper name -> make_valid fuel i objs name = Ok r -> no_upper r.
Proof.
  intro Hn. unfold make_valid. destruct (characters_fix (length_fix name)) as [c|] eqn:E; [|discriminate].
  apply no_upper_conflicts_fix. eapply no_upper_characters_fix; [|exact E].
  apply no_upper_length_fix. exact Hn.
Qed.
