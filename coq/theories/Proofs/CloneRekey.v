(* Re-pointing a copied instance to the copy of its definition (Definition._clone_rip_and_replace):
   the outer-pin table is re-keyed through the memo; pin-wire links are kept. *)
From Coq Require Import List Arith Bool Lia.
From RecordUpdate Require Import RecordSet.
From SV Require Import Base.Base IR.State IR.NS IR.Ops Xform.Clone Proofs.AssocX Proofs.Frame Proofs.Inv1a Proofs.Inv2a
  Proofs.InvP Proofs.InvW Proofs.Fresh Proofs.NsInv Proofs.Repoint Proofs.CloneInv Proofs.RefK Proofs.CloneRef Proofs.CloneT Proofs.FieldT
  Proofs.CloneMemo Proofs.CloneRR Proofs.CloneFaith Proofs.CloneInvP Proofs.CloneFull
  Proofs.CloneMemoK Proofs.CloneFaithK Proofs.CloneStage Proofs.CloneStageP.
Import ListNotations RecordSetNotations.

Definition rekey_look (m : memo) (x' : id) (s : state) (kv : id * id) : R :=
  match mget m (fst kv) with Some k' => rekey s x' (fst kv, k') | None => raise s XStuck end.

Lemma rekey_all_unfold m s x' : rekey_all m s x' = fold_pairsR (rekey_look m x') (map (fun k => (k, k)) (keys s x')) s.
Proof. unfold rekey_all, keys. rewrite map_map. reflexivity. Qed.

Lemma rekey_look_fold m x' : forall L s s',
  fold_pairsR (rekey_look m x') (map (fun k => (k, k)) L) s = (s', None) ->
  exists ps, map fst ps = L /\ (forall k k', In (k, k') ps -> mget m k = Some k') /\
             fold_pairsR (fun s cn => rekey s x' cn) ps s = (s', None).
Proof.
  induction L as [|k L IH]; intros s s' E; cbn [map fold_pairsR] in E.
  - exists []. split; [reflexivity|]. split; [intros k k' []|exact E].
  - unfold rekey_look at 1 in E. cbn [fst] in E. destruct (mget m k) as [k'|] eqn:Ek; [|cbn in E; discriminate].
    destruct (rekey s x' (k, k')) as [s1 [e|]] eqn:Er; cbn [bindR] in E; [discriminate|].
    destruct (IH s1 s' E) as [ps [A [B C]]]. exists ((k, k') :: ps). split; [cbn; rewrite A; reflexivity|]. split.
    + intros a b [H|H]; [injection H as <- <-; exact Ek|apply B; exact H].
    + cbn [fold_pairsR]. rewrite Er. cbn [bindR]. exact C.
Qed.

(* the re-keying of one instance *)
Lemma remap_keys s m x' s' :
  InvP s -> NoDup (keys s x') -> NoDup (map snd m) ->
  (forall a b, In (a, b) m -> ~ In b (keys s x') /\ ~ In b (map fst m)) ->
  rekey_all m s x' = (s', None) ->
  InvP s' /\ frame_w s s' /\ ipwire s' = ipwire s /\
  (forall i, In i (keys s' x') <-> exists k, In k (keys s x') /\ mget m k = Some i) /\ NoDup (keys s' x') /\
  (forall n, n <> x' -> ipins s' n = ipins s n) /\
  (forall w, wpins s' w = map (fun q => match q with POut n c => if Nat.eqb n x' then match mget m c with Some c' => POut n c' | None => q end else q | _ => q end) (wpins s w)).
Proof.
  intros Hp Hnd Hinj Hfresh E. rewrite rekey_all_unfold in E.
  destruct (rekey_look_fold m x' _ _ _ E) as [ps [Hfst [Hlook Efold]]].
  assert (Hsnd_in : forall n, In n (map snd ps) -> exists k, In (k, n) ps).
  { intros n Hn. apply in_map_iff in Hn as [[k n'] [E1 Hn]]. cbn in E1. subst n'. exists k. exact Hn. }
  assert (Hf : NoDup (map fst ps)) by (rewrite Hfst; exact Hnd).
  assert (Hs : NoDup (map snd ps)).
  { clear -Hlook Hf Hinj. induction ps as [|[k k'] ps IHp]; cbn; [constructor|]. cbn in Hf. inversion Hf as [|? ? Hn Hf']; subst.
    constructor; [|apply IHp; [intros a b H; apply Hlook; right; exact H|exact Hf']].
    intro Hin. apply in_map_iff in Hin as [[k2 k2'] [E1 Hin]]. cbn in E1. subst k2'.
    assert (k2 = k).
    { apply (memo_inj m k2 k k' Hinj); apply mget_in; [apply Hlook; right; exact Hin|apply Hlook; left; reflexivity]. }
    subst k2. apply Hn. apply in_map_iff. exists (k, k'). split; [reflexivity|exact Hin]. }
  assert (Hck : forall c, In c (map fst ps) -> In c (keys s x')) by (intros c Hc; rewrite Hfst in Hc; exact Hc).
  assert (Hnk : forall n, In n (map snd ps) -> ~ In n (keys s x') /\ ~ In n (map fst ps)).
  { intros n Hn. destruct (Hsnd_in n Hn) as [k Hk]. pose proof (mget_in m k n (Hlook k n Hk)) as Hm. destruct (Hfresh k n Hm) as [A B].
    split; [exact A|]. intro Hin. apply B. rewrite Hfst in Hin. 
    (* a current key that is also a memo value: excluded by A *) exfalso. apply A. exact Hin. }
  destruct (fold_rekey_fresh x' ps s Hp Hnd Hf Hs Hck Hnk) as [_ [Hp2 [Hfw [Hw [Hk2 [Hnd2 Ho2]]]]]].
  destruct (fold_rekey_fresh_full x' ps s Hp Hnd Hf Hs Hck Hnk) as [_ Hwp].
  rewrite Efold in Hp2, Hfw, Hw, Hk2, Hnd2, Ho2, Hwp. cbn [fst] in *.
  split; [exact Hp2|]. split; [exact Hfw|]. split; [exact Hw|]. split; [|split; [exact Hnd2|split; [exact Ho2|]]].
  - intro i. rewrite Hk2. split.
    + intros [Hi|[Hi Hn]]; [|exfalso; apply Hn; rewrite Hfst; exact Hi].
      destruct (Hsnd_in i Hi) as [k Hk]. exists k. split; [apply Hck; apply in_map_iff; exists (k, i); split; [reflexivity|exact Hk]|apply Hlook; exact Hk].
    + intros [k [Hk Hm]]. left. rewrite <- Hfst in Hk. apply in_map_iff in Hk as [[k1 k1'] [E1 Hk]]. cbn in E1. subst k1.
      rewrite (Hlook k k1' Hk) in Hm. injection Hm as <-. apply in_map_iff. exists (k, k1'). split; [reflexivity|exact Hk].
  - intro w. rewrite Hwp. apply map_ext_in. intros q Hq.
    rewrite seq_rename_spec; [|exact Hf|intros n Hn; apply (proj2 (Hnk n Hn))].
    destruct q as [i|n c|]; cbn; try reflexivity. destruct (Nat.eqb_spec n x') as [->|]; [|reflexivity].
    destruct (assoc c ps) as [c'|] eqn:Ea.
    + apply assoc_Some_In in Ea. rewrite (Hlook c c' Ea). reflexivity.
    + (* c is a key of x' (the outer pin is on a wire), so it is among the pairs *)
      exfalso. assert (Hc : In c (keys s x')).
      { apply (p_pins _ Hp) in Hq. cbn in Hq. destruct (assoc c (ipins s x')) as [ow|] eqn:Eo; [|discriminate].
        apply assoc_In_fst. exists ow. exact Eo. }
      rewrite <- Hfst in Hc. apply assoc_None_not_In in Ea. contradiction.
Qed.
