(* C09: instance paths of a uniquified design. [Uniquified s t]: every instance strictly below the top
   instance t passes uniquify's own test (its definition has exactly one reference, or is a leaf), and
   the top instance does not occur below itself. In such a design an instance has exactly one path. *)
From Coq Require Import List Arith Bool Lia Relations.
From SV Require Import Base.Base IR.State IR.NS IR.Ops Xform.Clone Xform.Strs Xform.Xform Hier.Paths Hier.Enum
  Proofs.Inv1a Proofs.Inv2a Proofs.HierEnum.
Import ListNotations.

(* c occurs strictly below the top instance t *)
Definition Below (s : state) (t c : id) : Prop := exists y p, is_rpath s t (c :: y :: p).

Definition Uniquified (s : state) (t : id) : Prop :=
  (forall x y p, is_rpath s t (x :: y :: p) -> inst_unique s x = Some true) /\ ~ Below s t t.

(* boolean counterpart: all instance paths are enumerated by the walk of the hier engine *)
Definition uniq_ok (s : state) (t : id) (p : href) : bool :=
  match p with
  | x :: _ :: _ => match inst_unique s x with Some true => negb (Nat.eqb x t) | _ => false end
  | _ => true
  end.
Definition uniquified_b (s : state) (t : id) : bool :=
  match walk s keep_all (depth_fuel s) [t] with
  | Some l => forallb (uniq_ok s t) l
  | None => false
  end.

Lemma uniquified_b_sound s t : Inv1a s -> uniquified_b s t = true -> Uniquified s t.
Proof.
  intros I H. unfold uniquified_b in H. destruct (walk s keep_all (depth_fuel s) [t]) as [l|] eqn:E; [|discriminate H].
  destruct (walk_spec _ _ _ _ I E) as [_ Hl]. rewrite forallb_forall in H.
  assert (A : forall p, is_rpath s t p -> uniq_ok s t p = true) by (intros p Hp; apply H, Hl, ext_all_rpath, Hp).
  split.
  - intros x y p Hp. specialize (A _ Hp). cbn in A. destruct (inst_unique s x) as [[|]|]; [reflexivity|discriminate A|discriminate A].
  - intros [y [p Hp]]. specialize (A _ Hp). cbn in A. destruct (inst_unique s t) as [[|]|]; try discriminate A.
    rewrite Nat.eqb_refl in A. discriminate A.
Qed.

Lemma rpath_inv s t c p :
  is_rpath s t (c :: p) -> (p = [] /\ c = t) \/ (exists x p', p = x :: p' /\ is_rpath s t (x :: p') /\ child s c x).
Proof. intro H. inversion H; subst; [left; split; reflexivity|right]. eexists _, _. split; [reflexivity|]. split; assumption. Qed.

Lemma rpath_suffix s t : forall l x p, is_rpath s t (l ++ x :: p) -> is_rpath s t (x :: p).
Proof.
  induction l as [|a l IH]; intros x p H; [exact H|]. cbn in H.
  destruct (rpath_inv _ _ _ _ H) as [[E _]|[y [p' [E [H' _]]]]]; [destruct l; discriminate E|].
  apply IH. rewrite E. exact H'.
Qed.

Lemma rpath_last s t : forall p, is_rpath s t p -> exists q, p = q ++ [t].
Proof. induction 1 as [|c x p H [q IH] Hc]; [exists []; reflexivity|]. exists (c :: q). cbn. rewrite IH. reflexivity. Qed.

(* a path of length >= 2 goes through a child of the top instance *)
Lemma rpath_top_child s t : forall p c y, is_rpath s t (c :: y :: p) -> exists c', child s c' t.
Proof.
  induction p as [|z p IH]; intros c y H.
  - destruct (rpath_inv _ _ _ _ H) as [[E _]|[x [p' [E [H' Hc]]]]]; [discriminate E|]. injection E as <- <-.
    destruct (rpath_inv _ _ _ _ H') as [[_ ->]|[x' [p'' [E _]]]]; [exists c; exact Hc|discriminate E].
  - destruct (rpath_inv _ _ _ _ H) as [[E _]|[x [p' [E [H' Hc]]]]]; [discriminate E|]. injection E as <- <-. apply (IH _ _ H').
Qed.

Lemma child_par s c x : Inv1a s -> child s c x -> exists d, iref s x = Some d /\ par s RChildren c = Some d.
Proof.
  intros I H. unfold child, sub in H. destruct (iref s x) as [d|]; [|destruct H]. exists d. split; [reflexivity|].
  apply (i1_kids _ I). exact H.
Qed.

Lemma par_child s c x d : Inv1a s -> iref s x = Some d -> par s RChildren c = Some d -> child s c x.
Proof. intros I Hr Hp. unfold child, sub. rewrite Hr. apply (i1_kids _ I). exact Hp. Qed.

Lemma has_child_nonleaf s d c : In c (kids s RChildren d) -> is_leaf_def s d = false.
Proof. intro H. unfold is_leaf_def. destruct (kids s RChildren d); [destruct H|reflexivity]. Qed.

Lemma has_cable_nonleaf s d c : In c (kids s RCables d) -> is_leaf_def s d = false.
Proof. intro H. unfold is_leaf_def. destruct (kids s RChildren d); [|reflexivity]. destruct (kids s RCables d); [destruct H|reflexivity]. Qed.

(* the definition of a non-leaf instance strictly below the top is referenced by that instance only *)
Lemma uniq_refs s t x y p d z :
  Inv2a s -> Uniquified s t -> is_rpath s t (x :: y :: p) -> iref s x = Some d -> is_leaf_def s d = false ->
  iref s z = Some d -> z = x.
Proof.
  intros I2 [Hu _] Hp Hr Hl Hz. specialize (Hu _ _ _ Hp). unfold inst_unique in Hu. rewrite Hr, Hl, orb_false_r in Hu.
  injection Hu as Hu. apply Nat.eqb_eq in Hu.
  apply (i2_ref _ I2) in Hr, Hz. destruct (drefs s d) as [|a [|b l]]; try discriminate Hu.
  destruct Hr as [<-|[]], Hz as [<-|[]]. reflexivity.
Qed.

(* an instance of a uniquified design has one path *)
Theorem rpath_unique s t : Inv1a s -> Inv2a s -> Uniquified s t ->
  forall p c q, is_rpath s t (c :: p) -> is_rpath s t (c :: q) -> p = q.
Proof.
  intros I1 I2 Hu. induction p as [|x p IH]; intros c q Hp Hq.
  - destruct (rpath_inv _ _ _ _ Hp) as [[_ ->]|[x [p' [E _]]]]; [|discriminate E].
    destruct q as [|y q]; [reflexivity|]. exfalso. apply (proj2 Hu). exists y, q. exact Hq.
  - destruct (rpath_inv _ _ _ _ Hp) as [[E _]|[x0 [p0 [E [Hp' Hc]]]]]; [discriminate E|]. injection E as <- <-.
    destruct (rpath_inv _ _ _ _ Hq) as [[-> ->]|[y [q' [-> [Hq' Hc']]]]].
    { exfalso. apply (proj2 Hu). exists x, p. exact Hp. }
    destruct (child_par _ _ _ I1 Hc) as [d [Hrx Hpx]]. destruct (child_par _ _ _ I1 Hc') as [d' [Hry Hpy]].
    assert (d' = d) by congruence. subst d'.
    assert (Hl : is_leaf_def s d = false).
    { unfold child, sub in Hc. rewrite Hrx in Hc. apply (has_child_nonleaf _ _ _ Hc). }
    assert (Hxy : x = y).
    { destruct p as [|x1 p1].
      - destruct (rpath_inv _ _ _ _ Hp') as [[_ ->]|[? [? [E _]]]]; [|discriminate E].
        destruct q' as [|y1 q1].
        + destruct (rpath_inv _ _ _ _ Hq') as [[_ ->]|[? [? [E _]]]]; [reflexivity|discriminate E].
        + pose proof (uniq_refs s t y y1 q1 d t I2 Hu Hq' Hry Hl Hrx) as E. subst y.
          exfalso. apply (proj2 Hu). exists y1, q1. exact Hq'.
      - symmetry. apply (uniq_refs s t x x1 p1 d y I2 Hu Hp' Hrx Hl Hry). }
    subst y. f_equal. apply (IH x q' Hp' Hq').
Qed.

(* ... so no instance occurs twice on a path *)
Lemma rpath_head_fresh s t c p : Inv1a s -> Inv2a s -> Uniquified s t -> is_rpath s t (c :: p) -> ~ In c p.
Proof.
  intros I1 I2 Hu Hp Hin. apply in_split in Hin as [l1 [l2 E]].
  assert (H2 : is_rpath s t (c :: l2)) by (apply (rpath_suffix s t (c :: l1) c l2); cbn; rewrite <- E; exact Hp).
  pose proof (rpath_unique s t I1 I2 Hu _ _ _ Hp H2) as E2. rewrite E2 in E at 1.
  apply (f_equal (@length id)) in E. rewrite app_length in E. cbn in E. lia.
Qed.

(* the parent instance of an instance on a path is determined *)
Lemma rpath_parent_unique s t c x p y q : Inv1a s -> Inv2a s -> Uniquified s t ->
  is_rpath s t (c :: x :: p) -> is_rpath s t (c :: y :: q) -> x = y /\ p = q.
Proof. intros I1 I2 Hu H1 H2. pose proof (rpath_unique s t I1 I2 Hu _ _ _ H1 H2) as E. injection E as -> ->. split; reflexivity. Qed.

(* an acyclic instantiation graph has no instance below itself *)
Lemma rpath_reach s t : forall p c y, is_rpath s t (c :: y :: p) -> clos_trans id (child s) c t.
Proof.
  induction p as [|z p IH]; intros c y H.
  - destruct (rpath_inv _ _ _ _ H) as [[E _]|[x [p' [E [H' Hc]]]]]; [discriminate E|]. injection E as <- <-.
    destruct (rpath_inv _ _ _ _ H') as [[_ ->]|[x' [p'' [E _]]]]; [apply t_step; exact Hc|discriminate E].
  - destruct (rpath_inv _ _ _ _ H) as [[E _]|[x [p' [E [H' Hc]]]]]; [discriminate E|]. injection E as <- <-.
    eapply t_trans; [apply t_step; exact Hc|apply (IH _ _ H')].
Qed.

Lemma acyclic_not_below s t : acyclic s -> ~ Below s t t.
Proof. intros A [y [p H]]. apply (acc_no_cycle (child s) t (A t)). apply (rpath_reach s t p t y H). Qed.
