(* The namespace manager and the data-dictionary calls never touch the structural fields. *)
From Coq Require Import List Arith NArith ZArith Bool.
From RecordUpdate Require Import RecordSet.
From SV Require Import Base.Base IR.State IR.NS IR.Ops.
Import ListNotations RecordSetNotations.

Record struct_eq (s s' : state) : Prop := mkSE {
  se_kids : kids s' = kids s;
  se_par : par s' = par s;
  se_wpins : wpins s' = wpins s;
  se_ipwire : ipwire s' = ipwire s;
  se_iref : iref s' = iref s;
  se_drefs : drefs s' = drefs s;
  se_ipins : ipins s' = ipins s;
  se_next : next s' = next s;
  se_kind : kind_of s' = kind_of s;
  se_top : top s' = top s;
  se_istop : istop s' = istop s;
  se_bdownto : bdownto s' = bdownto s;
  se_bscalar : bscalar s' = bscalar s;
  se_blower : blower s' = blower s;
  se_pdir : pdir s' = pdir s;
  se_policy : policy s' = policy s
}.

Lemma struct_eq_refl s : struct_eq s s.
Proof. constructor; reflexivity. Qed.

Lemma struct_eq_trans a b c : struct_eq a b -> struct_eq b c -> struct_eq a c.
Proof. intros [] []; constructor; congruence. Qed.

Lemma se_set_data s e l : struct_eq s (set_data s e l).
Proof. constructor; reflexivity. Qed.
Lemma se_set_nstab s e t : struct_eq s (set_nstab s e t).
Proof. constructor; reflexivity. Qed.
Lemma se_emit s e : struct_eq s (emit s e).
Proof. constructor; reflexivity. Qed.
Lemma se_data_write s e k v : struct_eq s (data_write s e k v).
Proof. apply se_set_data. Qed.
Lemma se_data_erase s e k : struct_eq s (data_erase s e k).
Proof. apply se_set_data. Qed.

#[export] Hint Resolve struct_eq_refl se_set_data se_set_nstab se_emit se_data_write se_data_erase : se.

Lemma se_fold_left {A} (f : state -> A -> state) l :
  (forall s x, struct_eq s (f s x)) -> forall s, struct_eq s (fold_left f l s).
Proof.
  intro H. induction l as [|x l IH]; intro s; cbn; [apply struct_eq_refl|].
  eapply struct_eq_trans; [apply H|apply IH].
Qed.

Lemma se_apply_namespace p s e : struct_eq s (apply_namespace p s e).
Proof.
  unfold apply_namespace. apply se_fold_left. intros s0 x.
  destruct (fresh_table _ _ _); eauto 6 using struct_eq_trans with se.
Qed.

Lemma se_drop_namespace s e : struct_eq s (drop_namespace s e).
Proof.
  unfold drop_namespace. apply se_fold_left. intros s0 x.
  destruct (_ && _); eauto 6 using struct_eq_trans with se.
Qed.

Lemma se_ns_dictionary_set s e k v : struct_eq s (fst (ns_dictionary_set s e k v)).
Proof.
  unfold ns_dictionary_set, ret, raise.
  repeat match goal with
         | |- context [if ?b then _ else _] => destruct b
         | |- context [match ?x with _ => _ end] => destruct x
         end; cbn; auto using se_apply_namespace with se.
Qed.

Lemma se_ns_remove_key s e k : struct_eq s (ns_remove_key s e k).
Proof.
  unfold ns_remove_key.
  repeat match goal with |- context [match ?x with _ => _ end] => destruct x end; auto with se.
Qed.

Lemma se_ns_dictionary_delete s e k : struct_eq s (fst (ns_dictionary_delete s e k)).
Proof.
  unfold ns_dictionary_delete, ret, raise.
  repeat match goal with
         | |- context [if ?b then _ else _] => destruct b
         | |- context [match ?x with _ => _ end] => destruct x
         end; cbn; auto using se_drop_namespace, se_ns_remove_key with se.
Qed.

Lemma se_bind r f s :
  struct_eq s (fst r) -> (forall s1, struct_eq s1 (fst (f s1))) -> struct_eq s (fst (r >>= f)).
Proof.
  destruct r as [s1 [x|]]; cbn; intros H1 H2; [assumption|].
  eapply struct_eq_trans; [apply H1|apply H2].
Qed.

Lemma se_dict_set s e k v : struct_eq s (fst (dict_set s e k v)).
Proof.
  unfold dict_set. apply se_bind; [apply se_ns_dictionary_set|].
  intro s1. cbn. eauto using struct_eq_trans with se.
Qed.

Lemma se_dict_del s e k : struct_eq s (fst (dict_del s e k)).
Proof.
  unfold dict_del. apply se_bind; [apply se_ns_dictionary_delete|].
  intro s1. destruct (has_key _ _ _); cbn; eauto using struct_eq_trans with se.
Qed.

Lemma se_dict_pop s e k : struct_eq s (fst (dict_pop s e k)).
Proof.
  unfold dict_pop. apply se_bind; [apply se_ns_dictionary_delete|].
  intro s1. destruct (has_key _ _ _); cbn; eauto using struct_eq_trans with se.
Qed.

Lemma se_ns_add s p c ck : struct_eq s (fst (ns_add s p c ck)).
Proof.
  unfold ns_add. destruct (match nstab s p with Some _ => _ | None => _ end); [apply struct_eq_refl|].
  apply se_bind.
  - destruct (sassoc str_NS (data s p)).
    + destruct (match sassoc str_NS (data s c) with Some _ => _ | None => _ end);
        [apply struct_eq_refl|apply se_dict_set].
    + destruct (has_key s c str_NS); [apply se_dict_del|apply struct_eq_refl].
  - intro s1. destruct (nstab s1 p); cbn; auto with se.
Qed.

Lemma se_ns_remove_child s p c ck : struct_eq s (ns_remove_child s p c ck).
Proof. unfold ns_remove_child. destruct (nstab s p); auto with se. Qed.

Lemma se_ns_create s e : struct_eq s (fst (ns_create s e)).
Proof. apply se_dict_set. Qed.

Lemma se_set_props e props : forall s, struct_eq s (fst (set_props s e props)).
Proof.
  induction props as [|[k v] ps IH]; intro s; cbn; [apply struct_eq_refl|].
  apply se_bind; [apply se_dict_set|apply IH].
Qed.

Lemma se_op_set_name s e nm : struct_eq s (fst (op_set_name s e nm)).
Proof.
  unfold op_set_name. destruct nm; [apply se_dict_set|].
  destruct (has_key _ _ _); [apply se_dict_del|apply struct_eq_refl].
Qed.

Lemma se_op_del_name s e : struct_eq s (fst (op_del_name s e)).
Proof. unfold op_del_name. destruct (has_key _ _ _); [apply se_dict_del|apply struct_eq_refl]. Qed.
