(* C07 independence over histories: any sequence of editing calls (accepted or refused) whose
   argument objects lie in a closed region P leaves every field of every object outside P unchanged,
   and P stays closed (objects created by the calls join P). *)
From Coq Require Import List Arith NArith ZArith Bool Lia.
From RecordUpdate Require Import RecordSet.
From SV Require Import Base.Base IR.State IR.NS IR.Ops Proofs.Frame Proofs.Locality Proofs.LocalityNs
  Proofs.LocalityStruct Proofs.LocalityStep Xform.Clone Proofs.CloneFrame.
Import ListNotations RecordSetNotations.

Theorem run_loc P : forall ops s, Forall (op_in P) ops -> Loc P s (run ops s).
Proof.
  induction ops as [|o ops IH]; intros s H; cbn; [apply loc_refl|].
  inversion H as [|? ? Ho Hops]; subst. eapply loc_trans; [apply step_loc; exact Ho|apply IH; exact Hops].
Qed.

Theorem step_local P s o : RClosed P s -> op_in P o -> out_eq P s (fst (step s o)) /\ RClosed P (fst (step s o)).
Proof. intros C H. apply (step_loc P s o H C). Qed.

Theorem history_independent P s ops :
  RClosed P s -> Forall (op_in P) ops -> out_eq P s (run ops s) /\ RClosed P (run ops s).
Proof. intros C H. apply (run_loc P ops s H C). Qed.

(* the region of the copy after a clone: the objects created by the call and everything created
   later; the region of the original: the objects that existed before the call *)
Definition copy_region (n0 : id) : id -> Prop := fun x => n0 <= x.

(* fields outside the copy's region = fields of the pre-existing objects: out_eq is osame *)
Lemma out_eq_copy_osame n0 s s' : out_eq (copy_region n0) s s' -> policy s' = policy s -> osame n0 s s'.
Proof.
  intros [] Hp. unfold copy_region in *.
  constructor; try assumption; intros;
    match goal with H : forall x, ~ _ -> ?f s' x = _ |- ?f s' _ = _ => apply H; lia
                  | H : forall r x, ~ _ -> ?f s' r x = _ |- ?f s' _ _ = _ => apply H; lia end.
Qed.

(* the containment part of the closure of the copy's region is what the frame-and-closure theorem
   of the clone gives *)
Lemma copy_region_kids s s' : CloneOK s s' ->
  (forall x, next s' <= x -> copy_region (next s) x) /\
  (forall r x c, copy_region (next s) x -> In c (kids s' r x) -> copy_region (next s) c).
Proof.
  intros [O K]. split.
  - intros x Hx. unfold copy_region. pose proof (os_next _ _ _ O). lia.
  - intros r x c Hx Hc. apply (K x r c Hx Hc).
Qed.
