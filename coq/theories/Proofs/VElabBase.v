(* Engine `verilog`, document-level reader (Fmt/VElab.v): lemmas on the list helpers, the result monad and the
   identity tests. *)
From Coq Require Import List ZArith Bool Arith Lia.
From SV Require Import Base.Base Fmt.VBits Fmt.VTop Fmt.VDoc Fmt.VElab.
Import ListNotations.

(* ---------- find_idx ---------- *)
Lemma find_idx_some {A} (p : A -> bool) l k :
  find_idx p l = Some k -> exists x, nth_error l k = Some x /\ p x = true /\ forall j y, (j < k)%nat -> nth_error l j = Some y -> p y = false.
Proof.
  revert k. induction l as [|a l IH]; intros k H; cbn in H; [discriminate|].
  destruct (p a) eqn:E.
  - inversion H; subst. exists a. split; [reflexivity|]. split; [exact E|]. intros j y Hj. lia.
  - destruct (find_idx p l) as [k'|] eqn:F; [|discriminate]. inversion H; subst.
    destruct (IH k' eq_refl) as (x & Hx & Px & Hm). exists x. split; [exact Hx|]. split; [exact Px|].
    intros j y Hj Hy. destruct j; cbn in Hy; [inversion Hy; subst; exact E|]. apply (Hm j y); [lia|exact Hy].
Qed.

Lemma find_idx_none {A} (p : A -> bool) l : find_idx p l = None -> forall x, In x l -> p x = false.
Proof.
  induction l as [|a l IH]; intros H x Hx; [contradiction|]. cbn in H.
  destruct (p a) eqn:E; [discriminate|]. destruct (find_idx p l) eqn:F; [discriminate|].
  destruct Hx as [<-|Hx]; [exact E|apply IH; [reflexivity|exact Hx]].
Qed.

Lemma find_idx_lt {A} (p : A -> bool) l k : find_idx p l = Some k -> (k < length l)%nat.
Proof. intro H. destruct (find_idx_some p l k H) as (x & Hx & _). apply nth_error_Some. congruence. Qed.

Lemma find_idx_app_none {A} (p : A -> bool) l x : find_idx p l = None -> p x = true -> find_idx p (l ++ [x]) = Some (length l).
Proof.
  induction l as [|a l IH]; intros H Px; cbn.
  - rewrite Px. reflexivity.
  - cbn in H. destruct (p a); [discriminate|]. destruct (find_idx p l) eqn:F; [discriminate|]. rewrite (IH eq_refl Px). reflexivity.
Qed.

Lemma find_idx_app_some {A} (p : A -> bool) l l2 k : find_idx p l = Some k -> find_idx p (l ++ l2) = Some k.
Proof.
  revert k. induction l as [|a l IH]; intros k H; cbn in *; [discriminate|].
  destruct (p a); [exact H|]. destruct (find_idx p l) as [k'|] eqn:F; [|discriminate]. rewrite (IH k' eq_refl). exact H.
Qed.

(* ---------- index_of ---------- *)
Lemma index_of_some x l k : index_of x l = Some k -> nth_error l k = Some x.
Proof.
  intro H. destruct (find_idx_some _ _ _ H) as (y & Hy & E & _). apply Nat.eqb_eq in E. subst. exact Hy.
Qed.

Lemma index_of_lt x l k : index_of x l = Some k -> (k < length l)%nat.
Proof. apply find_idx_lt. Qed.

Lemma index_of_in x l : In x l -> exists k, index_of x l = Some k.
Proof.
  intro H. destruct (index_of x l) as [k|] eqn:E; [exists k; reflexivity|].
  assert (F := find_idx_none _ _ E x H). rewrite Nat.eqb_refl in F. discriminate.
Qed.

Lemma index_of_nth_nodup l k x : NoDup l -> nth_error l k = Some x -> index_of x l = Some k.
Proof.
  intros Hd Hk. destruct (index_of_in x l (nth_error_In _ _ Hk)) as (j & Hj).
  rewrite Hj. f_equal. apply index_of_some in Hj.
  apply (proj1 (NoDup_nth_error l) Hd); [apply nth_error_Some; congruence|congruence].
Qed.

(* ---------- nth_upd ---------- *)
Lemma nth_upd_length {A} k (f : A -> A) l : length (nth_upd k f l) = length l.
Proof. revert k. induction l as [|a l IH]; intro k; destruct k; cbn; try reflexivity; rewrite IH; reflexivity. Qed.

Lemma nth_upd_same {A} k (f : A -> A) l x : nth_error l k = Some x -> nth_error (nth_upd k f l) k = Some (f x).
Proof. revert k. induction l as [|a l IH]; intros k H; destruct k; cbn in *; try discriminate; [inversion H; reflexivity|apply IH; exact H]. Qed.

Lemma nth_upd_other {A} k j (f : A -> A) l : j <> k -> nth_error (nth_upd k f l) j = nth_error l j.
Proof.
  revert k j. induction l as [|a l IH]; intros k j H; destruct k, j; cbn; try reflexivity; [congruence|apply IH; congruence].
Qed.

Lemma nth_upd_out {A} k (f : A -> A) l : (length l <= k)%nat -> nth_upd k f l = l.
Proof. revert k. induction l as [|a l IH]; intros k H; destruct k; cbn in *; try reflexivity; [lia|rewrite IH; [reflexivity|lia]]. Qed.

Lemma nth_upd_map {A B} (g : A -> B) k (f : A -> A) l : (forall x, g (f x) = g x) -> map g (nth_upd k f l) = map g l.
Proof. intro H. revert k. induction l as [|a l IH]; intro k; destruct k; cbn; try reflexivity; [rewrite H; reflexivity|rewrite IH; reflexivity]. Qed.

Lemma nth_upd_map_at {A B} (g : A -> B) k (f : A -> A) l : (forall x, nth_error l k = Some x -> g (f x) = g x) -> map g (nth_upd k f l) = map g l.
Proof.
  revert k. induction l as [|a l IH]; intros k H; destruct k; cbn; try reflexivity.
  - rewrite (H a eq_refl). reflexivity.
  - rewrite IH; [reflexivity|]. intros x Hx. apply H. exact Hx.
Qed.

Lemma nth_upd_ext {A} k (f g : A -> A) l : (forall x, nth_error l k = Some x -> f x = g x) -> nth_upd k f l = nth_upd k g l.
Proof.
  revert k. induction l as [|a l IH]; intros k H; destruct k; cbn; try reflexivity.
  - rewrite (H a eq_refl). reflexivity.
  - rewrite (IH k); [reflexivity|]. intros x Hx. apply H. exact Hx.
Qed.

Lemma nth_upd_Forall {A} (P : A -> Prop) k (f : A -> A) l : Forall P l -> (forall x, P x -> P (f x)) -> Forall P (nth_upd k f l).
Proof.
  intros H Hf. revert k. induction H as [|a l Ha Hl IH]; intro k; destruct k; cbn; constructor; auto.
Qed.

Lemma nth_upd_In {A} k (f : A -> A) l y : In y (nth_upd k f l) -> In y l \/ exists x, nth_error l k = Some x /\ y = f x.
Proof.
  revert k. induction l as [|a l IH]; intros k H; destruct k; cbn in *; try contradiction.
  - destruct H as [<-|H]; [right; exists a; split; reflexivity|left; right; exact H].
  - destruct H as [<-|H]; [left; left; reflexivity|]. destruct (IH k H) as [H1|H1]; [left; right; exact H1|right; exact H1].
Qed.

Lemma nth_default_error {A} (l : list A) k d x : nth_error l k = Some x -> nth k l d = x.
Proof. intro H. apply nth_error_nth. exact H. Qed.

Lemma nth_error_app_last {A} (l : list A) x : nth_error (l ++ [x]) (length l) = Some x.
Proof. rewrite nth_error_app2 by lia. rewrite Nat.sub_diag. reflexivity. Qed.

(* ---------- identity tests ---------- *)
Lemma pin_eqb_spec a b : pin_eqb a b = true <-> a = b.
Proof.
  destruct a, b; cbn; split; intro H; try discriminate; try (inversion H; subst; rewrite ?Nat.eqb_refl; reflexivity).
  - apply andb_true_iff in H. destruct H as [H1 H2]. apply Nat.eqb_eq in H1, H2. subst. reflexivity.
  - apply andb_true_iff in H. destruct H as [H12 H3]. apply andb_true_iff in H12. destruct H12 as [H1 H2].
    apply Nat.eqb_eq in H1, H2, H3. subst. reflexivity.
Qed.

Lemma pin_eqb_refl a : pin_eqb a a = true.
Proof. apply pin_eqb_spec. reflexivity. Qed.

Lemma wire_eqb_spec (a b : ewire) : wire_eqb a b = true <-> a = b.
Proof.
  destruct a, b; unfold wire_eqb; cbn; split; intro H.
  - apply andb_true_iff in H. destruct H as [H1 H2]. apply Nat.eqb_eq in H1, H2. subst. reflexivity.
  - inversion H; subst. rewrite !Nat.eqb_refl. reflexivity.
Qed.

Lemma pin_wire_none p d : pin_wire p d = None -> ~ In p (map fst (ed_conn d)).
Proof.
  unfold pin_wire. intros H Hin. destruct (find _ _) eqn:F; [discriminate|].
  apply in_map_iff in Hin. destruct Hin as (c & Hc & Hin).
  assert (X := find_none _ _ F c Hin). cbn in X. rewrite Hc, pin_eqb_refl in X. discriminate.
Qed.

Lemma pin_wire_some p d w : pin_wire p d = Some w -> In (p, w) (ed_conn d).
Proof.
  unfold pin_wire. intro H. destruct (find _ _) as [c|] eqn:F; [|discriminate]. inversion H; subst.
  apply find_some in F. destruct F as [Hin E]. apply pin_eqb_spec in E. destruct c; cbn in *; subst. exact Hin.
Qed.

Lemma pin_wire_in_nodup p w d : NoDup (map fst (ed_conn d)) -> In (p, w) (ed_conn d) -> pin_wire p d = Some w.
Proof.
  unfold pin_wire. induction (ed_conn d) as [|[q v] l IH]; intros Hd Hin; [contradiction|]. cbn in *.
  inversion Hd as [|? ? Hn Hd']; subst.
  destruct Hin as [E|Hin].
  - inversion E; subst. rewrite pin_eqb_refl. reflexivity.
  - destruct (pin_eqb q p) eqn:E.
    + apply pin_eqb_spec in E. subst. exfalso. apply Hn. apply in_map_iff. exists (p, w). split; [reflexivity|exact Hin].
    + apply IH; assumption.
Qed.

(* ---------- result monad ---------- *)
Lemma bind_ok {A B} (r : result A) (f : A -> result B) b : bind r f = Ok b -> exists a, r = Ok a /\ f a = Ok b.
Proof. destruct r; cbn; intro H; [exists a; split; [reflexivity|exact H]|discriminate]. Qed.

Lemma fold_res_inv {A S} (P : S -> Prop) (f : A -> S -> result S) l :
  (forall x s s', In x l -> P s -> f x s = Ok s' -> P s') -> forall s s', P s -> fold_res f l s = Ok s' -> P s'.
Proof.
  induction l as [|x l IH]; intros Hf s s' Hs H; cbn in H.
  - inversion H; subst. exact Hs.
  - apply bind_ok in H. destruct H as (s1 & H1 & H2).
    apply (IH (fun y a b Hy => Hf y a b (or_intror Hy)) s1 s'); [|exact H2].
    apply (Hf x s s1); [left; reflexivity|exact Hs|exact H1].
Qed.

(* the same with a binary relation that is reflexive and transitive *)
Lemma fold_res_rel {A S} (R : S -> S -> Prop) (f : A -> S -> result S) l :
  (forall s, R s s) -> (forall a b c, R a b -> R b c -> R a c) ->
  (forall x s s', In x l -> f x s = Ok s' -> R s s') -> forall s s', fold_res f l s = Ok s' -> R s s'.
Proof.
  intros Hr Ht. induction l as [|x l IH]; intros Hf s s' H; cbn in H.
  - inversion H; subst. apply Hr.
  - apply bind_ok in H. destruct H as (s1 & H1 & H2).
    apply (Ht s s1 s'); [apply (Hf x); [left; reflexivity|exact H1]|].
    apply IH; [intros y a b Hy; apply Hf; right; exact Hy|exact H2].
Qed.

(* ---------- bundles ---------- *)
From SV Require Import Proofs.VerilogLists Proofs.VerilogGrow.
Open Scope Z_scope.

Lemma populate_width_pos l r : 1 <= snd (populate l r).
Proof. destruct l, r; cbn; lia. Qed.

Lemma new_bundle_wfb l r : wfb (new_bundle l r 0).
Proof.
  unfold new_bundle. assert (H := populate_width_pos l r). destruct (populate l r) as [lo w]. cbn in *.
  unfold wfb. cbn. rewrite seq_length. split; [lia|]. split; [apply seq_NoDup|].
  intros x Hx. apply in_seq in Hx. lia.
Qed.

Lemma rebase_wfb dfn il b : wfb b -> wfb (rebase dfn il b).
Proof. destruct dfn; cbn; intro H; exact H. Qed.

Lemma update_cable_wfb l r dfn b : wfb b -> wfb (update_cable l r dfn b).
Proof.
  intro H. unfold update_cable. destruct (in_range l r) as [[il iu]|] eqn:E; [|exact H].
  destruct (grow_spec (rebase dfn il b) il iu (rebase_wfb dfn il b H) (in_range_le _ _ _ _ E)) as ((_ & W & _) & _). exact W.
Qed.

Lemma update_port_wfb l r dfn b : wfb b -> wfb (update_port l r dfn b).
Proof.
  intro H. unfold update_port. destruct (in_range l r) as [[il iu]|] eqn:E; [|exact H].
  destruct (_ =? _); [apply rebase_wfb; exact H|].
  destruct (grow_spec (rebase dfn il b) il iu (rebase_wfb dfn il b H) (in_range_le _ _ _ _ E)) as ((_ & W & _) & _). exact W.
Qed.
