(* Engine `verilog`, document-level reader: the effect of one assign statement (parse_assign +
   connect_wires_for_assign), exactly: one instance of SDN_VERILOG_ASSIGNMENT_w is added, w = the smaller width;
   its pin k carries bit k (from the low end) of BOTH sides: o[k] = lhs bit k, i[k] = rhs bit k (the meaning of the
   statement; former finding V06-assign-msb-first); nothing else changes except implied one-bit cables. *)
From Coq Require Import List ZArith Bool Arith Lia Sorted Permutation.
From SV Require Import Base.Base Fmt.VBits Fmt.VExpr Fmt.VTop Fmt.VDoc Fmt.VElab Fmt.VSpec Fmt.VSem
  Proofs.VerilogLists Proofs.VerilogSlice Proofs.VerilogGrow Proofs.VerilogPort Proofs.VElabBase Proofs.VElabInv Proofs.VElabWf
  Proofs.VElabExpr Proofs.VElabConn.
Import ListNotations.
Open Scope Z_scope.

Lemma var_inst_index a d d1 k : var_inst a d = Ok (d1, k) -> (k < length (ed_cables d1))%nat.
Proof.
  unfold var_inst. destruct (has_glob _); [discriminate|]. unfold cou_cable.
  destruct (find_cable (atom_name a) d) as [j|] eqn:F; intro H; inversion H; subst; cbn.
  - rewrite nth_upd_length. eapply find_idx_lt. exact F.
  - rewrite app_length. cbn. lia.
Qed.

Lemma wires_from_ext d1 d2 k l r : cables_ext d1 d2 -> (k < length (ed_cables d1))%nat -> wires_from k l r d2 = wires_from k l r d1.
Proof.
  intros [_ (ex & M & _)] Hk. unfold wires_from, cable_bundle. rewrite M. rewrite nth_error_app1 by exact Hk. reflexivity.
Qed.

Lemma wire_label_same_cables d d' w : ed_cables d' = ed_cables d -> wire_label d' w = wire_label d w.
Proof. intro H. unfold wire_label. rewrite H. reflexivity. Qed.

Lemma in_interleave_l {A} (a b : list A) x : length a = length b -> In x a -> In x (interleave a b).
Proof.
  revert b. induction a as [|y a IH]; intros [|z b] L H; cbn in *; try contradiction; try discriminate.
  destruct H as [<-|H]; [left; reflexivity|right; right; apply IH; [lia|exact H]].
Qed.
Lemma in_interleave_r {A} (a b : list A) x : length a = length b -> In x b -> In x (interleave a b).
Proof.
  revert b. induction a as [|y a IH]; intros [|z b] L H; cbn in *; try contradiction; try discriminate.
  destruct H as [<-|H]; [right; left; reflexivity|right; right; apply IH; [lia|exact H]].
Qed.
Lemma in_interleave {A} (a b : list A) x : In x (interleave a b) -> In x a \/ In x b.
Proof.
  revert b. induction a as [|y a IH]; intros [|z b] H; cbn in *; try contradiction.
  destruct H as [<-|[<-|H]]; [left; left; reflexivity|right; left; reflexivity|].
  destruct (IH b H); [left; right; assumption|right; right; assumption].
Qed.

Lemma in_combine_nth {A B} (a : list A) (f : nat -> B) w k x : (k < w)%nat -> nth_error a k = Some x -> (w <= length a)%nat ->
  In (x, f k) (combine (firstn w a) (map f (seq 0 w))).
Proof.
  intros Hk Hx Hw.
  assert (G : forall s a, nth_error a k = Some x -> (k < w)%nat -> (w <= length a)%nat -> In (x, f (s + k)%nat) (combine (firstn w a) (map f (seq s w)))).
  { clear. revert k. induction w as [|w IH]; intros k s a Hx Hk Hw; [lia|].
    destruct a as [|y a]; [destruct k; discriminate|]. cbn. destruct k.
    - cbn in Hx. inversion Hx; subst. left. rewrite Nat.add_0_r. reflexivity.
    - right. replace (s + S k)%nat with (S s + k)%nat by lia. apply IH; [exact Hx|lia|cbn in Hw; lia]. }
  apply (G O a Hx Hk Hw).
Qed.

(* parse_variable_instantiation on a typed atom: at most an implied one-bit cable is created *)
Lemma var_inst_ext d a d1 k : DInv d -> datom_typed (crange d) a -> var_inst a d = Ok (d1, k) -> cables_ext d d1.
Proof.
  intros DI [G T] H. unfold var_inst in H. rewrite G in H. inversion H as [H0]. clear H.
  unfold crange in T.
  destruct (find_cable (atom_name a) d) as [j|] eqn:F.
  - destruct (find_idx_some _ _ _ F) as (c & C & _). rewrite C in T.
    assert (W : wfb (ec_b c)) by (eapply (proj1 (Forall_forall _ _) (di_cables d DI)); eapply nth_error_In; exact C).
    assert (X : cou_cable (atom_name a) (atom_l a) (atom_r a) None false d = (d, j)).
    { destruct W as (Wn & _).
      destruct (atom_sel_cases a) as [[L R]|[(i & L & R)|(h & l & L & R)]]; rewrite L, R in *.
      - eapply cou_cable_whole; eassumption.
      - destruct T as (lo & w & E & T). inversion E; subst.
        eapply cou_cable_inside; try eassumption; [reflexivity|lia|unfold b_hi; lia].
      - destruct T as (lo & w & E & T). inversion E; subst.
        eapply cou_cable_inside; try eassumption; [cbn; rewrite Z.min_r, Z.max_l by lia; reflexivity|lia|unfold b_hi; lia]. }
    rewrite X in H0. inversion H0; subst. apply cables_ext_refl.
  - assert (L : atom_l a = None /\ atom_r a = None).
    { destruct (atom_sel_cases a) as [X|[(i & L & R)|(h & l & L & R)]]; [exact X| |].
      - rewrite L, R in T. destruct T as (lo & w & E & _). discriminate.
      - rewrite L, R in T. destruct T as (lo & w & E & _). discriminate. }
    destruct L as [L R]. rewrite L, R in H0. unfold cou_cable in H0. rewrite F in H0. inversion H0; subst.
    constructor; [destruct d; reflexivity|]. eexists. split; [reflexivity|constructor; [reflexivity|constructor]].
Qed.

Theorem assign_item_spec lhs rhs n d d' : DInv d -> datom_typed (crange d) lhs -> datom_typed (crange d) rhs ->
  assign_item lhs rhs n d = Ok d' ->
  let lb := datom_bits (crange d) lhs in let rb := datom_bits (crange d) rhs in
  let w := Nat.min (length lb) (length rb) in let ii := length (ed_insts d) in
  exists d2 new,
    cables_ext d d2 /\
    d' = set_conn (set_insts d2 (ed_insts d ++ [{| ei_name := assign_name w n; ei_ref := RAssign w; ei_params := []; ei_attrs := [] |}]))
                  (ed_conn d ++ new) /\
    (forall p x, In (p, x) new -> exists pk k, p = POuter ii pk k) /\
    (forall k, (k < w)%nat -> pin_label d' (POuter ii 1 k) = nth_error lb k /\ pin_label d' (POuter ii 0 k) = nth_error rb k).
Proof.
  intros DI Tl Tr H lb rb w ii. unfold assign_item in H.
  apply bind_ok in H. destruct H as ([d1 kl] & H1 & H). apply bind_ok in H. destruct H as ([d2 kr] & H2 & H).
  apply bind_ok in H. destruct H as (outs & Ho & H). apply bind_ok in H. destruct H as (ins & Hin & H).
  apply bind_ok in H. destruct H as ([d3 i3] & H3 & H).
  assert (E1 : cables_ext d d1) by (exact (var_inst_ext d lhs d1 kl DI Tl H1)).
  assert (DI1 : DInv d1) by (apply (ds_inv _ _ (var_inst_dstep _ _ _ _ H1)); exact DI).
  assert (Tr1 : datom_typed (crange d1) rhs) by (exact (datom_typed_ext d d1 rhs E1 Tr)).
  assert (E2 : cables_ext d1 d2) by (exact (var_inst_ext d1 rhs d2 kr DI1 Tr1 H2)).
  assert (DI2 : DInv d2) by (apply (ds_inv _ _ (var_inst_dstep _ _ _ _ H2)); exact DI1).
  rewrite (wires_from_ext d1 d2 kl _ _ E2 (var_inst_index _ _ _ _ H1)) in Ho.
  assert (Al : atom_wires lhs d = Ok (d1, outs)) by (unfold atom_wires; rewrite H1; cbn [bind]; rewrite Ho; reflexivity).
  assert (Ar : atom_wires rhs d1 = Ok (d2, ins)) by (unfold atom_wires; rewrite H2; cbn [bind]; rewrite Hin; reflexivity).
  destruct (atom_wires_spec d lhs d1 outs DI Tl Al) as (_ & Ll & _).
  destruct (atom_wires_spec d1 rhs d2 ins DI1 Tr1 Ar) as (_ & Lr & _).
  rewrite (datom_bits_ext d d1 rhs E1 Tr) in Lr. fold lb in Ll. fold rb in Lr.
  assert (Ll2 : map (wire_label d2) outs = map Some (rev lb)) by (eapply labels_ext; eassumption).
  assert (Lo : length outs = length lb) by (apply (f_equal (@length _)) in Ll; rewrite !map_length, rev_length in Ll; exact Ll).
  assert (Li : length ins = length rb) by (apply (f_equal (@length _)) in Lr; rewrite !map_length, rev_length in Lr; exact Lr).
  rewrite Lo, Li in H3, H. fold w in H3, H.
  destruct (add_inst_inv _ _ _ _ H3) as (N3 & DI3 & _ & K3 & I3).
  assert (Ed3 : d3 = set_insts d2 (ed_insts d2 ++ [{| ei_name := assign_name w n; ei_ref := RAssign w; ei_params := []; ei_attrs := [] |}])).
  { unfold add_inst in H3. destruct (find_inst _ d2); [discriminate|]. inversion H3; subst. reflexivity. }
  destruct (cables_ext_fields d d1 E1) as (_ & _ & Fi1 & Fc1 & _). destruct (cables_ext_fields d1 d2 E2) as (_ & _ & Fi2 & Fc2 & _).
  assert (Eii : length (ed_insts d2) = ii) by (unfold ii; rewrite Fi2, Fi1; reflexivity). subst i3. rewrite Eii in H.
  pose proof (connect_all_conn _ _ _ H) as Ed'.
  set (calls := interleave (combine (firstn w (rev outs)) (map (POuter ii 1) (seq 0 w))) (combine (firstn w (rev ins)) (map (POuter ii 0) (seq 0 w)))) in *.
  exists d2, (map (fun wp => (snd wp, fst wp)) calls).
  split; [eapply cables_ext_trans; eassumption|]. split; [|split].
  - rewrite Ed', Ed3. cbn. rewrite Fi2, Fi1, Fc2, Fc1. reflexivity.
  - intros p x Hp. apply in_map_iff in Hp. destruct Hp as ([x' p'] & E & Hp). cbn in E. inversion E; subst.
    apply in_interleave in Hp. destruct Hp as [Hp|Hp]; apply in_combine_r in Hp; apply in_map_iff in Hp; destruct Hp as (k & <- & _); eauto.
  - intros k Hk.
    assert (DI' : DInv d') by (apply (ds_inv _ _ (connect_all_dstep _ _ _ H)); apply DI3; exact DI2).
    assert (Lc : length (combine (firstn w (rev outs)) (map (POuter ii 1) (seq 0 w))) = length (combine (firstn w (rev ins)) (map (POuter ii 0) (seq 0 w)))).
    { rewrite !combine_length, !firstn_length, !rev_length, !map_length, !seq_length. unfold w. lia. }
    assert (Cab : ed_cables d' = ed_cables d2) by (rewrite Ed', Ed3; reflexivity).
    assert (PL : forall pk (l : list ewire) x, nth_error l k = Some x -> (w <= length l)%nat ->
                 In (x, POuter ii pk k) calls -> pin_label d' (POuter ii pk k) = wire_label d2 x).
    { intros pk l x Hx Hw Hc. unfold pin_label. rewrite (pin_wire_in_nodup (POuter ii pk k) x d' (di_conn d' DI')).
      - apply wire_label_same_cables. exact Cab.
      - rewrite Ed'. cbn. apply in_app_iff. right. apply in_map_iff. exists (x, POuter ii pk k). split; [reflexivity|exact Hc]. }
    assert (Ll2r : map (wire_label d2) (rev outs) = map Some lb) by (rewrite map_rev, Ll2, <- map_rev, rev_involutive; reflexivity).
    assert (Lrr : map (wire_label d2) (rev ins) = map Some rb) by (rewrite map_rev, Lr, <- map_rev, rev_involutive; reflexivity).
    assert (Ko : exists x, nth_error (rev outs) k = Some x) by (destruct (nth_error (rev outs) k) eqn:E; [eauto|apply nth_error_None in E; rewrite rev_length in E; unfold w in Hk; lia]).
    assert (Ki : exists x, nth_error (rev ins) k = Some x) by (destruct (nth_error (rev ins) k) eqn:E; [eauto|apply nth_error_None in E; rewrite rev_length in E; unfold w in Hk; lia]).
    destruct Ko as (xo & Xo), Ki as (xi & Xi). split.
    + rewrite (PL 1%nat (rev outs) xo Xo ltac:(rewrite rev_length; unfold w; lia)).
      * assert (Y := f_equal (fun l => nth_error l k) Ll2r). cbn in Y. rewrite !nth_error_map, Xo in Y. cbn in Y.
        destruct (nth_error lb k); cbn in Y; [inversion Y; reflexivity|discriminate].
      * apply in_interleave_l; [exact Lc|]. apply in_combine_nth; [exact Hk|exact Xo|rewrite rev_length; unfold w; lia].
    + rewrite (PL 0%nat (rev ins) xi Xi ltac:(rewrite rev_length; unfold w; lia)).
      * assert (Y := f_equal (fun l => nth_error l k) Lrr). cbn in Y. rewrite !nth_error_map, Xi in Y. cbn in Y.
        destruct (nth_error rb k); cbn in Y; [inversion Y; reflexivity|discriminate].
      * apply in_interleave_r; [exact Lc|]. apply in_combine_nth; [exact Hk|exact Xi|rewrite rev_length; unfold w; lia].
Qed.
