(* C12, PORT starts: get_hwires(selection = ALL) from a hierarchical port returns exactly the union,
   over the pins of the port, of the connectivity classes of the wires attached to the pin (inside
   the instance and, one level up, outside it), each wire occurrence once.

   The file also holds the lemmas shared by the port / cable / get_hcables proofs:
     reach_split, reach_flat_map   reachability of the generic closure from a list of start pins is
                                   the union of the reachabilities from each of them;
     href_union_nodup              the order-preserving de-duplication of the result never repeats
                                   a reference (the in_yield set of the code);
     pin_reach_conn                from one pin occurrence the closure reaches the classes of the
                                   wires on its two sides;
     hw_close_ALL_reach            the closure of the model run on ANY list of pin occurrences with
                                   the fuel the model hands to it terminates, is duplicate-free and
                                   returns exactly the reachable wire occurrences. *)
From Coq Require Import List Arith Bool Lia Relations.
From SV Require Import Base.Base IR.State Proofs.Inv1a Proofs.Inv2a Hier.Paths Hier.Enum Hier.Trace Hier.Conn
  Proofs.HierValid Proofs.HierEnum Proofs.HierClosure Proofs.HierTrace.
Import ListNotations.

(* ------------------------------------------------------------------------------------------ *)
(* reachability from several start pins                                                        *)
Section ReachSplit.
  Variables A B : Type.
  Variable nb : A -> list B.
  Variable pins : B -> list A.

  Lemma reach_mono : forall i1 i2 b, incl i1 i2 -> reach A B nb pins i1 b -> reach A B nb pins i2 b.
  Proof.
    intros i1 i2 b Hi H. induction H as [a b Ha Hb|b a b' _ IH Ha Hb].
    - apply reach_init with a; [apply Hi; exact Ha|exact Hb].
    - apply reach_step with b a; assumption.
  Qed.

  Lemma reach_split : forall init b,
    reach A B nb pins init b <-> exists a, In a init /\ reach A B nb pins [a] b.
  Proof.
    intros init b. split.
    - intro H. induction H as [a b Ha Hb|b a b' _ IH Ha Hb].
      + exists a. split; [exact Ha|]. apply reach_init with a; [left; reflexivity|exact Hb].
      + destruct IH as (a0 & Ha0 & Hr). exists a0. split; [exact Ha0|].
        apply reach_step with b a; assumption.
    - intros (a & Ha & Hr). apply reach_mono with [a]; [|exact Hr].
      intros y [<-|[]]. exact Ha.
  Qed.

  Lemma reach_flat_map : forall (X : Type) (f : X -> list A) (l : list X) b,
    reach A B nb pins (flat_map f l) b <-> exists x, In x l /\ reach A B nb pins (f x) b.
  Proof.
    intros X f l b. rewrite reach_split. split.
    - intros (a & Ha & Hr). apply in_flat_map in Ha as (x & Hx & Ha). exists x. split; [exact Hx|].
      apply reach_split. exists a. auto.
    - intros (x & Hx & Hr). apply reach_split in Hr as (a & Ha & Hr). exists a. split; [|exact Hr].
      apply in_flat_map. exists x. auto.
  Qed.
End ReachSplit.

(* ------------------------------------------------------------------------------------------ *)
(* the result list of the queries never repeats a reference                                    *)
Lemma nodup_snoc : forall (T : Type) (l : list T) x, NoDup l -> ~ In x l -> NoDup (l ++ [x]).
Proof.
  intros T l x. induction l as [|y l IH]; intros Hn Hx; cbn.
  - constructor; [intros []|constructor].
  - inversion Hn as [|? ? Hy Hl]; subst. constructor.
    + rewrite in_app_iff. intros [H|[H|[]]]; [contradiction|]. subst. apply Hx. left; reflexivity.
    + apply IH; [exact Hl|]. intro H. apply Hx. right; exact H.
Qed.

Lemma href_union_nodup : forall b a, NoDup a -> NoDup (href_union a b).
Proof.
  induction b as [|k b IH]; intros a Ha; cbn; [exact Ha|].
  destruct (href_mem k a) eqn:E.
  - apply IH. exact Ha.
  - apply IH. apply nodup_snoc; [exact Ha|]. intro H. apply href_mem_In in H. congruence.
Qed.

(* the shape of every answer of get_hwires / get_hcables: directly yielded references first, then
   what the closure found, both filtered through the in_yield set *)
Lemma result_nodup : forall y f, NoDup (href_union (href_union [] y) f).
Proof. intros y f. apply href_union_nodup. apply href_union_nodup. constructor. Qed.

Lemma result_In : forall y f h, In h (href_union (href_union [] y) f) <-> In h y \/ In h f.
Proof. intros y f h. rewrite !href_union_In. cbn [In]. tauto. Qed.

(* ------------------------------------------------------------------------------------------ *)
Section Starts.
  Variable s : state.
  Variable t : id.
  Hypothesis I1 : Inv1a s.
  Hypothesis I2 : Inv2a s.
  Hypothesis K : WFk s.
  Hypothesis C : WFc s.
  Hypothesis Hroot : is_root s t.

  Local Notation GA := (hpin_occ s t).
  Local Notation GB := (hwire_occ s t).
  Local Notation nbA := (nb_sel s SAll).
  Local Notation pinsB := (hpins_of_hwire s).
  Local Notation rch := (reach href href nbA pinsB).

  (* what the closure reaches from pin occurrences are wire occurrences *)
  Lemma reach_good : forall start b, (forall a, In a start -> GA a) -> rch start b -> GB b.
  Proof.
    intros start b Hs H. induction H as [a b Ha Hb|b a b' _ IH Ha Hb].
    - exact (g_nb s t I1 C a b (Hs a Ha) Hb).
    - exact (g_nb s t I1 C a b' (g_pins s t I1 C b a IH Ha) Hb).
  Qed.

  (* from one pin occurrence: the classes of the wires on its two sides *)
  Lemma pin_reach_conn : forall a b, GA a ->
    (rch [a] b <-> exists x, In x (nbA a) /\ Conn.conn s t x b).
  Proof.
    intros a b G. split.
    - intro H. assert (Hx : exists x, In x (nbA a)).
      { clear -H. induction H as [a0 b Ha Hb|b a0 b' _ IH _ _]; [|exact IH].
        destruct Ha as [<-|[]]. eauto. }
      destruct Hx as (x & Hx). exists x. split; [exact Hx|].
      apply (code_conn_iff_conn s t I1 C x b (g_nb s t I1 C a x G Hx)).
      apply (reach_pin_conn href href nbA pinsB (hpin_occ s t) (sym2 s t I1 C) a x b G Hx).
      exact H.
    - intros (x & Hx & H).
      apply (reach_pin_conn href href nbA pinsB (hpin_occ s t) (sym2 s t I1 C) a x b G Hx).
      apply (code_conn_iff_conn s t I1 C x b (g_nb s t I1 C a x G Hx)). exact H.
  Qed.

  (* from the pins of a wire occurrence: its class (the wire itself is yielded separately) *)
  Lemma wire_reach_conn : forall x b, GB x -> ((b = x \/ rch (pinsB x) b) <-> Conn.conn s t x b).
  Proof.
    intros x b G. rewrite <- (code_conn_iff_conn s t I1 C x b G).
    apply (reach_pins_conn_gen href href nbA pinsB).
  Qed.

  (* the closure of the model, with the model's fuel, on any list of pin occurrences *)
  Lemma hw_close_ALL_reach : forall n U start,
    acyclic s -> top s n = Some t -> all_hwires s n = Some U ->
    (forall a, In a start -> GA a) ->
    exists found, hw_close s SAll (close_fuel (pin_weight s U) start) start = Some found /\
                  NoDup found /\ (forall b, In b found <-> rch start b).
  Proof.
    intros n U start A Ht HU Hs.
    destruct (all_hwires_spec s n t I1 K A Ht) as (U' & EU & NU & SU).
    rewrite HU in EU. inversion EU; subst U'. clear EU.
    destruct (worklist_closure_correct href href href_eqb href_eqb href_eqb_spec href_eqb_spec
                nbA pinsB U start (close_fuel (pin_weight s U) start) NU) as (l & El & Nl & Sl).
    { intros b Hb. apply SU. exact (reach_good start b Hs Hb). }
    { unfold close_fuel, pin_weight. lia. }
    exists l. split; [|split; [exact Nl|exact Sl]].
    unfold hw_close. cbn [sel_all].
    change (fun hw : href => hpins_of_hwire s hw) with pinsB. exact El.
  Qed.

  (* occurrences of ports *)
  Lemma port_occ_valid : forall q x p, is_rpath s t (x :: p) -> In q (ports_of s x) ->
    is_valid s (q :: x :: p) = true.
  Proof.
    intros q x p Hp Hq. apply (is_valid_iff s _ I1 I2 K).
    apply hr_port with t; [split; assumption|assumption].
  Qed.

  Lemma port_occ_kind : forall q x, In q (ports_of s x) -> kind_of s q = Some KPort.
  Proof.
    intros q x Hq. unfold ports_of in Hq. destruct (iref s x) as [d|]; [|destruct Hq].
    exact (wk_kids s K RPorts d q Hq).
  Qed.

  Lemma port_pins_occ : forall q x p, is_rpath s t (x :: p) -> In q (ports_of s x) ->
    forall a, In a (map (fun i => i :: q :: x :: p) (kids s RPins q)) -> GA a.
  Proof.
    intros q x p Hp Hq a Ha. apply in_map_iff in Ha as (i & <- & Hi).
    exists i, q, x, p. auto.
  Qed.

  (* get_hwires from a port runs the closure from the pins of the port *)
  Lemma get_hwires_port_run : forall usum q x p found,
    is_rpath s t (x :: p) -> In q (ports_of s x) ->
    hw_close s SAll (close_fuel usum (map (fun i => i :: q :: x :: p) (kids s RPins q)))
             (map (fun i => i :: q :: x :: p) (kids s RPins q)) = Some found ->
    get_hwires s SAll false usum (q :: x :: p) = Some (href_union (href_union [] []) (rev found)).
  Proof.
    intros usum q x p found Hp Hq E.
    unfold get_hwires. rewrite (port_occ_valid q x p Hp Hq). cbn [negb].
    rewrite (port_occ_kind q x Hq). cbn beta iota zeta.
    unfold href in *. rewrite E. reflexivity.
  Qed.

  Theorem get_hwires_ALL_port : forall n U q x p,
    acyclic s -> top s n = Some t -> all_hwires s n = Some U ->
    is_rpath s t (x :: p) -> In q (ports_of s x) ->
    exists l, get_hwires s SAll false (pin_weight s U) (q :: x :: p) = Some l /\ NoDup l /\
              (forall b, In b l <-> exists i y, In i (kids s RPins q) /\
                                                In y (nbA (i :: q :: x :: p)) /\ Conn.conn s t y b).
  Proof.
    intros n U q x p A Ht HU Hp Hq.
    pose proof (port_pins_occ q x p Hp Hq) as Hs.
    destruct (hw_close_ALL_reach n U _ A Ht HU Hs) as (found & Ef & Nf & Sf).
    exists (href_union (href_union [] []) (rev found)).
    split; [exact (get_hwires_port_run _ q x p found Hp Hq Ef)|].
    split; [apply result_nodup|].
    intro b. rewrite result_In, <- in_rev, Sf, reach_split. cbn [In]. split.
    - intros [[]|(a & Ha & Hr)]. pose proof (Hs a Ha) as Ga.
      apply in_map_iff in Ha as (i & <- & Hi).
      apply (pin_reach_conn _ b Ga) in Hr as (y & Hy & Hc). exists i, y. auto.
    - intros (i & y & Hi & Hy & Hc). right. exists (i :: q :: x :: p).
      assert (Ha : In (i :: q :: x :: p) (map (fun i => i :: q :: x :: p) (kids s RPins q)))
        by (apply in_map_iff; exists i; auto).
      split; [exact Ha|]. apply (pin_reach_conn _ b (Hs _ Ha)). exists y. auto.
  Qed.
End Starts.

Print Assumptions reach_split.
Print Assumptions href_union_nodup.
Print Assumptions hw_close_ALL_reach.
Print Assumptions get_hwires_ALL_port.
