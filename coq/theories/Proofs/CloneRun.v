(* The running invariant of a library / netlist clone and its preservation by one Definition._clone. *)
From Coq Require Import List Arith Bool Lia.
From RecordUpdate Require Import RecordSet.
From SV Require Import Base.Base IR.State IR.NS IR.Ops Xform.Clone Proofs.AssocX Proofs.Frame Proofs.Inv1a Proofs.Inv2a
  Proofs.InvP Proofs.InvW Proofs.Fresh Proofs.NsInv Proofs.CloneInv Proofs.RefK Proofs.CloneRef Proofs.CloneT Proofs.FieldT
  Proofs.CloneMemo Proofs.CloneRR Proofs.CloneFaith Proofs.CloneInvP Proofs.CloneFull
  Proofs.CloneMemoK Proofs.CloneFaithK Proofs.CloneStage Proofs.CloneStageP.
Import ListNotations RecordSetNotations.

Lemma inv1ar_extend s s' r :
  Inv1aR s r -> Above s -> ParLt s -> kpframe (next s) s s' -> Frag (next s) (next s') s' -> Above s' -> next s <= next s' -> Inv1aR s' r.
Proof.
  intros [H1 H2] Ab Pl Hf [G1 G2 G3 G4] Ab' Hn. split.
  - intros p x. destruct (Nat.lt_ge_cases p (next s)) as [Hp|Hp].
    + destruct (Hf r p Hp) as [Ek _]. rewrite Ek. destruct (Nat.lt_ge_cases x (next s)) as [Hx|Hx].
      * destruct (Hf r x Hx) as [_ Ep]. rewrite Ep. apply H1.
      * split.
        -- intro Hin. apply H1 in Hin. rewrite (proj2 (Ab r x Hx)) in Hin. discriminate.
        -- intro Hpar. exfalso. destruct (Nat.lt_ge_cases x (next s')) as [Hx'|Hx'].
           ++ apply (G4 r x p) in Hpar; lia.
           ++ rewrite (proj2 (Ab' r x Hx')) in Hpar. discriminate.
    + destruct (Nat.lt_ge_cases p (next s')) as [Hp'|Hp']; [apply G1; lia|].
      rewrite (proj1 (Ab' r p Hp')). split; [intros []|]. intro Hpar. exfalso.
      destruct (Nat.lt_ge_cases x (next s)) as [Hx|Hx].
      * destruct (Hf r x Hx) as [_ Ep]. rewrite Ep in Hpar. apply Pl in Hpar. lia.
      * destruct (Nat.lt_ge_cases x (next s')) as [Hx'|Hx'].
        -- apply (G4 r x p) in Hpar; lia.
        -- rewrite (proj2 (Ab' r x Hx')) in Hpar. discriminate.
  - intros p. destruct (Nat.lt_ge_cases p (next s)) as [Hp|Hp].
    + destruct (Hf r p Hp) as [-> _]. apply H2.
    + destruct (Nat.lt_ge_cases p (next s')) as [Hp'|Hp']; [apply G2; lia|]. rewrite (proj1 (Ab' r p Hp')). constructor.
Qed.

Lemma inv1ar_same s s' r : kids s' = kids s -> par s' = par s -> Inv1aR s r -> Inv1aR s' r.
Proof. intros Hk Hp [H1 H2]. split; rewrite Hk; [rewrite Hp|]; auto. Qed.

Lemma kl_of_inv1a s : Inv1a s -> Above s -> forall r p c, In c (kids s r p) -> c < next s /\ p < next s.
Proof.
  intros I Ab r p c Hc. split.
  - apply (i1_kids _ I) in Hc. destruct (Nat.lt_ge_cases c (next s)) as [H|H]; [exact H|]. rewrite (proj2 (Ab r c H)) in Hc. discriminate.
  - destruct (Nat.lt_ge_cases p (next s)) as [H|H]; [exact H|]. rewrite (proj1 (Ab r p H)) in Hc. destruct Hc.
Qed.

Record RI (s0 s : state) (m : memo) : Prop := mkRI {
  ri_st : ST s0 s m;
  ri_1a : forall r, r <> RLibs -> Inv1aR s r;
  ri_kl : forall r p c, In c (kids s r p) -> c < next s /\ p < next s;
  ri_t : InvT s;
  ri_p : InvP s;
  ri_k : InvK s;
  ri_ab : Above s;
  ri_pl : ParLt s;
  ri_po : forall r y, y < next s0 -> par s r y = par s0 r y;
  ri_pn : forall r y p, next s0 <= y -> par s r y = Some p -> next s0 <= p;
  ri_rl : forall n d, iref s n = Some d -> d < next s;
  ri_nw : forall x j w, next s0 <= x -> assoc j (ipins s x) = Some (Some w) -> next s0 <= w;
  ri_dr : forall d, d < next s0 -> drefs s d = drefs s0 d
}.

Lemma ri_start s0 : UF s0 -> RI s0 s0 [].
Proof.
  intros [I [T [F [FT0 K]]]]. pose proof (above_of_fresh s0 F) as Ab. constructor; auto.
  - apply st_start; assumption.
  - intros r _. apply inv1a_R. apply (inv_a _ I).
  - apply (kl_of_inv1a s0 (inv_a _ I) Ab).
  - apply (inv_p _ I).
  - apply (inv_k _ I).
  - apply (parlt_of_inv1a s0 (inv_a _ I) Ab).
  - intros r y p Hy Hp. rewrite (f_par _ F r y Hy) in Hp. discriminate.
  - intros n d H. apply (ref_lt s0 n d K F H).
  - intros x j w Hx H. destruct (ft_above s0 FT0 F x Hx) as [_ [_ A]]. rewrite A in H. discriminate.
Qed.

(* the image of a definition: its ports (with their pins), cables (with their wires) and children
   are the images of those of the source, and conversely for ports and children *)
Record DefImg (s0 : state) (d d' : id) (s : state) (m : memo) : Prop := mkDI {
  di_ports : forall p, In p (kids s0 RPorts d) -> exists p', In (p, p') m /\ In p' (kids s RPorts d') /\ ImgOK s0 RPins p p' s m;
  di_cables : forall p, In p (kids s0 RCables d) -> exists p', In (p, p') m /\ In p' (kids s RCables d') /\ ImgOK s0 RWires p p' s m;
  di_children : forall p, In p (kids s0 RChildren d) -> exists p', In (p, p') m /\ In p' (kids s RChildren d');
  di_ports_rev : forall p', In p' (kids s RPorts d') -> exists p, In (p, p') m /\ In p (kids s0 RPorts d);
  di_children_rev : forall p', In p' (kids s RChildren d') -> exists p, In (p, p') m /\ In p (kids s0 RChildren d);
  di_ports_ord : Forall2 (fun p p' => In (p, p') m) (kids s0 RPorts d) (kids s RPorts d');
  di_cables_ord : Forall2 (fun p p' => In (p, p') m) (kids s0 RCables d) (kids s RCables d');
  di_children_ord : Forall2 (fun p p' => In (p, p') m) (kids s0 RChildren d) (kids s RChildren d')
}.

Section DefStage.
  Variables (s0 s G : state) (m m' : memo) (d d' : id).
  Hypothesis U0 : UF s0.
  Hypothesis R : RI s0 s m.
  Hypothesis Hd : d < next s0.
  Hypothesis Hkd : kind_of s0 d = Some KDefinition.
  Hypothesis Hfree : forall y, In y (def_objects s0 d) -> ~ In y (map fst m).
  Hypothesis E : def_clone1 (s, m) d = ((G, m', d'), None).

  Theorem def_stage :
    RI s0 G m' /\ StageOut s0 s G m m' (def_objects s0 d) /\ DefImg s0 d d' G m' /\
    d' = next s /\ In (d, d') m' /\ next s < next G /\ kpframe (next s) s G /\ (forall r, par G r d' = None) /\
    drefs G d' = drefs s0 d /\ (forall y, y <> d' -> drefs G y = drefs s y) /\ kstable s G.
  Proof.
    destruct U0 as [I0 [T0 [F0 [FT0 K0]]]]. pose proof (inv_a _ I0) as I1.
    pose proof (ri_st _ _ _ R) as ST0. pose proof (ri_ab _ _ _ R) as Ab. pose proof (ri_pl _ _ _ R) as Pl.
    pose proof (st_n0 _ _ _ ST0) as Hn0.
    destruct (def_clone1_stage s0 s m d G m' d' I1 T0 F0 (pk_of_st _ _ _ ST0) Ab Pl Hd Hkd Hfree E) as [SO [Hd' [Hin [D1 [D2 [D3 [D4 [D5 [O1 [O2 O3]]]]]]]]]].
    destruct (def_clone1_kp s m d G m' d' Ab Pl E) as [_ [Hn [Hf [Hg [Hpd [AbG PlG]]]]]].
    destruct (def_clone1_t s m d G m' d' Ab Pl E) as [HkdG TF].
    destruct (km_def_clone1 _ _ _ _ _ _ _ E) as [_ Km].
    assert (Hds : d < next s) by lia.
    assert (Hchs : forall x, In x (kids s RChildren d) -> x < next s).
    { intros x Hx. rewrite (st_kids _ _ _ ST0 RChildren d Hd) in Hx. pose proof (src_lt s0 I1 F0 _ _ _ Hx). lia. }
    destruct (def_clone1_ref s m d G m' d' Ab Pl Hds Hchs E) as [_ [_ [Hdr _]]].
    assert (STG : ST s0 G m') by (apply (st_of_stage s0 s G m m' _ ST0 SO); lia).
    assert (I1G : forall r, r <> RLibs -> Inv1aR G r) by (intros r Hr; apply (inv1ar_extend s G r (ri_1a _ _ _ R r Hr) Ab Pl Hf Hg AbG); lia).
    assert (Hlt : forall r p c, In c (kids s r p) -> c < next s).
    { intros r p c Hc. apply (ri_kl _ _ _ R r p c Hc). }
    assert (KLG : forall r p c, In c (kids G r p) -> c < next G /\ p < next G).
    { intros r p c Hc. destruct (Nat.lt_ge_cases p (next s)) as [Hp|Hp].
      - destruct (Hf r p Hp) as [Ek _]. rewrite Ek in Hc. destruct (ri_kl _ _ _ R r p c Hc). split; lia.
      - destruct (Nat.lt_ge_cases p (next G)) as [Hp1|Hp1]; [|rewrite (proj1 (AbG r p Hp1)) in Hc; destruct Hc].
        pose proof (fg_kin _ _ _ Hg r p c (conj Hp Hp1) Hc). split; lia. }
    assert (TG : InvT G).
    { intros r p c Hc. destruct (Nat.lt_ge_cases p (next s)) as [Hp|Hp].
      - destruct (Hf r p Hp) as [Ek _]. rewrite Ek in Hc. rewrite !Km by (try exact Hp; apply (Hlt r p c Hc)). apply (ri_t _ _ _ R). exact Hc.
      - destruct (Nat.lt_ge_cases p (next G)) as [Hp1|Hp1]; [apply TF; [lia|exact Hc]|].
        rewrite (proj1 (AbG r p Hp1)) in Hc. destruct Hc. }
    assert (HnewparG : forall r y p, next s <= y -> par G r y = Some p -> next s <= p).
    { intros r y p Hy Hp. destruct (Nat.lt_ge_cases y (next G)) as [Hl|Hge]; [apply (fg_pin _ _ _ Hg r y p (conj Hy Hl) Hp)|].
      rewrite (proj2 (AbG r y Hge)) in Hp. discriminate. }
    assert (PoG : forall r y, y < next s0 -> par G r y = par s0 r y).
    { intros r y Hy. rewrite (proj2 (Hf r y ltac:(lia))). apply (ri_po _ _ _ R r y Hy). }
    assert (PnG : forall r y p, next s0 <= y -> par G r y = Some p -> next s0 <= p).
    { intros r y p Hy Hp. destruct (Nat.lt_ge_cases y (next s)) as [Hl|Hge].
      - rewrite (proj2 (Hf r y Hl)) in Hp. apply (ri_pn _ _ _ R r y p Hy Hp).
      - pose proof (HnewparG r y p Hge Hp). lia. }
    split; [|split; [exact SO|split; [constructor; assumption|]]].
    - constructor; try assumption.
      + apply (stage_invp s0 s G m m' _ ST0 SO (inv_p _ I0) FT0 F0 (ri_p _ _ _ R)).
      + apply (stage_invk s0 s G m m' _ SO (inv_k _ I0) (ri_k _ _ _ R) F0 K0 (ri_rl _ _ _ R) Ab Hf HnewparG PoG PnG).
      + intros n e Hr. destruct (Nat.lt_ge_cases n (next s)) as [Hl|Hge].
        * destruct (so_old _ _ _ _ _ _ SO n Hl) as [_ [_ [_ [_ Hi]]]]. rewrite Hi in Hr. pose proof (ri_rl _ _ _ R n e Hr). lia.
        * destruct (so_def _ _ _ _ _ _ SO n Hge) as [_ [_ D]].
          destruct (kind_of G n) as [kn|] eqn:Ek; [|rewrite (proj2 (D ltac:(discriminate))) in Hr; discriminate].
          destruct (kind_eqb kn KInstance) eqn:Eq; [|rewrite (proj2 (D ltac:(intro X; injection X as ->; discriminate Eq))) in Hr; discriminate].
          assert (kn = KInstance) by (destruct kn; try discriminate Eq; reflexivity). subst kn.
          destruct (so_cov _ _ _ _ _ _ SO n Hge (or_intror (or_intror Ek))) as [x Hx].
          assert (Hk0 : kind_of s0 x = Some KInstance) by (rewrite <- (so_kind _ _ _ _ _ _ SO x n Hx); exact Ek).
          destruct (so_inst _ _ _ _ _ _ SO x n Hx Hge Hk0) as [_ Hir]. rewrite Hir in Hr. pose proof (ref_lt s0 x e K0 F0 Hr). lia.
      + intros x j w Hx Hw. destruct (Nat.lt_ge_cases x (next s)) as [Hl|Hge].
        * destruct (so_old _ _ _ _ _ _ SO x Hl) as [_ [_ [Hi _]]]. rewrite Hi in Hw. apply (ri_nw _ _ _ R x j w Hx Hw).
        * destruct (so_def _ _ _ _ _ _ SO x Hge) as [_ [_ D]].
          destruct (kind_of G x) as [kn|] eqn:Ek; [|rewrite (proj1 (D ltac:(discriminate))) in Hw; discriminate].
          destruct (kind_eqb kn KInstance) eqn:Eq; [|rewrite (proj1 (D ltac:(intro X; injection X as ->; discriminate Eq))) in Hw; discriminate].
          assert (kn = KInstance) by (destruct kn; try discriminate Eq; reflexivity). subst kn.
          destruct (so_cov _ _ _ _ _ _ SO x Hge (or_intror (or_intror Ek))) as [x0 Hx0].
          assert (Hk0 : kind_of s0 x0 = Some KInstance) by (rewrite <- (so_kind _ _ _ _ _ _ SO x0 x Hx0); exact Ek).
          destruct (so_inst _ _ _ _ _ _ SO x0 x Hx0 Hge Hk0) as [Hmap _].
          pose proof (imap_assoc m' _ _ Hmap j) as Ha. destruct (assoc j (ipins s0 x0)) as [o|]; [|rewrite Ha in Hw; discriminate].
          destruct Ha as [o' [Ho' Ha]]. rewrite Ha in Hw. injection Hw as ->. destruct (mwire_some _ _ _ Ho') as [w0 [_ Hm]].
          apply (so_rng _ _ _ _ _ _ SO w0 w Hm).
      + intros y Hy. rewrite Hdr. unfold upd. replace (Nat.eqb y d') with false by (symmetry; apply Nat.eqb_neq; lia). apply (ri_dr _ _ _ R y Hy).
    - split; [exact Hd'|]. split; [exact Hin|]. split; [exact Hn|]. split; [exact Hf|]. split; [exact Hpd|]. split.
      + rewrite Hdr, upd_same. apply (ri_dr _ _ _ R d Hd).
      + split; [intros y Hy; rewrite Hdr; unfold upd; replace (Nat.eqb y d') with false by (symmetry; apply Nat.eqb_neq; exact Hy); reflexivity|].
        split; [lia|]. intros r y Hy. apply (proj1 (Hf r y Hy)).
  Qed.
End DefStage.

(* allocation of the copy of a library or of the netlist object *)
Lemma plain_stage s0 s m x K s1 x' :
  RI s0 s m -> x < next s0 -> ~ In x (map fst m) -> kind_of s0 x = Some K ->
  kind_eqb K KPin = false -> kind_eqb K KWire = false -> kind_eqb K KInstance = false ->
  clone_alloc s K = (s1, x') ->
  let s' := copy_data s1 x x' in
  RI s0 s' ((x, x') :: m) /\ x' = next s /\ next s' = S (next s) /\ kids s' = kids s /\ par s' = par s /\ drefs s' = drefs s /\
  iref s' = iref s /\ kind_of s' x' = Some K.
Proof.
  intros R Hx Hn Hk K1 K2 K3 Ea. cbn zeta.
  destruct (st_alloc_plain s0 s m x K s1 x' (ri_st _ _ _ R) Hx Hn Hk K1 K2 K3 Ea) as [STn Hx'].
  destruct (clone_alloc_fields _ _ _ _ Ea) as [_ [N1 [Kd1 [Kk1 [W1 [P1 [I1 R1]]]]]]].
  destruct (clone_alloc_kp _ _ _ _ Ea) as [_ [_ [_ Pp1]]].
  destruct (above_alloc s K s1 x' (ri_ab _ _ _ R) (ri_pl _ _ _ R) Ea) as [Ab1 Pl1].
  pose proof (rd_clone_alloc s K) as [_ Rd]. rewrite Ea in Rd. cbn [fst] in Rd.
  assert (Hlt : forall r p c, In c (kids s r p) -> c < next s /\ p < next s).
  { intros r p c Hc. apply (ri_kl _ _ _ R r p c Hc). }
  split; [|repeat split; try assumption; try (cbn; congruence)].
  - constructor.
    + exact STn.
    + intros r Hr. apply (inv1ar_same s _ r); [exact Kk1|exact Pp1|apply (ri_1a _ _ _ R r Hr)].
    + intros r p c Hc. cbn in Hc. rewrite Kk1 in Hc. destruct (Hlt r p c Hc). cbn. lia.
    + intros r p c Hc. cbn in Hc. rewrite Kk1 in Hc. destruct (Hlt r p c Hc) as [Hc1 Hp1]. cbn. rewrite Kd1. unfold upd.
      replace (Nat.eqb c (next s)) with false by (symmetry; apply Nat.eqb_neq; lia).
      replace (Nat.eqb p (next s)) with false by (symmetry; apply Nat.eqb_neq; lia). apply (ri_t _ _ _ R). exact Hc.
    + apply (invp_same s _ (ri_p _ _ _ R)); [intro q; apply pw_ext; cbn; assumption|intro w; cbn; rewrite P1; reflexivity].
    + apply (invk_same s _ (ri_k _ _ _ R)); [intro n; unfold keys; cbn; rewrite I1; reflexivity|exact R1|intro y; cbn; rewrite Pp1; reflexivity|intro y; cbn; rewrite Pp1; reflexivity].
    + exact Ab1.
    + exact Pl1.
    + intros r y Hy. cbn. rewrite Pp1. apply (ri_po _ _ _ R r y Hy).
    + intros r y p Hy Hp. cbn in Hp. rewrite Pp1 in Hp. apply (ri_pn _ _ _ R r y p Hy Hp).
    + intros n d Hr. cbn in Hr. rewrite R1 in Hr. pose proof (ri_rl _ _ _ R n d Hr). cbn. lia.
    + intros y j w Hy Hw. cbn in Hw. rewrite I1 in Hw. apply (ri_nw _ _ _ R y j w Hy Hw).
    + intros d Hd. cbn. rewrite Rd. apply (ri_dr _ _ _ R d Hd).
  - cbn. rewrite Kd1, Hx'. apply upd_same.
Qed.
