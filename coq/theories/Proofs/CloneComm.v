(* Definition._clone_rip_and_replace commutes with updates of the library-level containment fields. *)
From Coq Require Import List Arith Bool Lia.
From RecordUpdate Require Import RecordSet.
From SV Require Import Base.Base IR.State IR.NS IR.Ops Xform.Clone Proofs.CloneRemap.
Import ListNotations RecordSetNotations.

Section Comm.
  Variable U : state -> state.
  Hypothesis U_iref : forall s x v, set_iref (U s) x v = U (set_iref s x v).
  Hypothesis U_drefs : forall s x v, set_drefs (U s) x v = U (set_drefs s x v).
  Hypothesis U_ipins : forall s x v, set_ipins (U s) x v = U (set_ipins s x v).
  Hypothesis U_wpins : forall s x v, set_wpins (U s) x v = U (set_wpins s x v).
  Hypothesis Ui : forall s, ipins (U s) = ipins s.
  Hypothesis Uw : forall s, wpins (U s) = wpins s.
  Hypothesis Ur : forall s, iref (U s) = iref s.
  Hypothesis Ud : forall s, drefs (U s) = drefs s.
  Hypothesis Uk : forall s d, kids (U s) RChildren d = kids s RChildren d.

  Definition lift (r : R) : R := (U (fst r), snd r).

  Lemma U_rekey s n cn : rekey (U s) n cn = lift (rekey s n cn).
  Proof.
    unfold rekey. destruct cn as [cur new]. rewrite Ui.
    destruct (assoc cur (ipins s n)) as [[w|]|]; unfold lift; cbn [fst snd ret raise]; [|rewrite U_ipins; reflexivity|reflexivity].
    rewrite U_ipins. rewrite Uw. rewrite U_wpins. reflexivity.
  Qed.

  Lemma lift_bind (r : R) (f : state -> R) : (forall s, f (U s) = lift (f s)) -> lift r >>= f = lift (r >>= f).
  Proof. intro H. destruct r as [s [e|]]; cbn; [reflexivity|]. apply H. Qed.

  Lemma U_fold_pairsR (f : state -> id * id -> R) : (forall s x, f (U s) x = lift (f s x)) ->
    forall l s, fold_pairsR f l (U s) = lift (fold_pairsR f l s).
  Proof. intro H. induction l as [|x l IH]; intro s; cbn [fold_pairsR]; [reflexivity|]. rewrite H. apply lift_bind. exact IH. Qed.
  Lemma U_fold_idsR (f : state -> id -> R) : (forall s x, f (U s) x = lift (f s x)) ->
    forall l s, fold_idsR f l (U s) = lift (fold_idsR f l s).
  Proof. intro H. induction l as [|x l IH]; intro s; cbn [fold_idsR]; [reflexivity|]. rewrite H. apply lift_bind. exact IH. Qed.

  Lemma U_rekey_all m s x' : rekey_all m (U s) x' = lift (rekey_all m s x').
  Proof.
    unfold rekey_all. rewrite Ui. apply U_fold_pairsR. intros s1 kv. destruct (mget m (fst kv)); [apply U_rekey|reflexivity].
  Qed.

  Lemma U_rr_step m s x' : rr_step m (U s) x' = lift (rr_step m s x').
  Proof.
    unfold rr_step. rewrite Ur. destruct (iref s x') as [e|]; [|reflexivity]. destruct (mget m e) as [e'|]; [|reflexivity].
    rewrite U_iref. apply U_rekey_all.
  Qed.

  Lemma U_def_rr m s d' : def_rr m (U s) d' = lift (def_rr m s d').
  Proof.
    unfold def_rr. rewrite Ud, U_drefs, Uk.
    apply (U_fold_idsR (rr_step m)). intros s1 x. apply U_rr_step.
  Qed.
End Comm.

(* the two updates used by Library._clone / Netlist._clone *)
Lemma comm_set_par m s r c v d' : r <> RChildren ->
  def_rr m (set_par s r c v) d' = (set_par (fst (def_rr m s d')) r c v, snd (def_rr m s d')).
Proof. intro Hr. apply (U_def_rr (fun s => set_par s r c v)); intros; reflexivity. Qed.

Lemma comm_set_kids m s r p l d' : r <> RChildren ->
  def_rr m (set_kids s r p l) d' = (set_kids (fst (def_rr m s d')) r p l, snd (def_rr m s d')).
Proof.
  intro Hr. apply (U_def_rr (fun s => set_kids s r p l)); intros; try reflexivity.
  cbn. unfold upd2. destruct r; try reflexivity. contradiction.
Qed.

Record CommOK (U : state -> state) : Prop := mkCO {
  co1 : forall s x v, set_iref (U s) x v = U (set_iref s x v);
  co2 : forall s x v, set_drefs (U s) x v = U (set_drefs s x v);
  co3 : forall s x v, set_ipins (U s) x v = U (set_ipins s x v);
  co4 : forall s x v, set_wpins (U s) x v = U (set_wpins s x v);
  co5 : forall s, ipins (U s) = ipins s;
  co6 : forall s, wpins (U s) = wpins s;
  co7 : forall s, iref (U s) = iref s;
  co8 : forall s, drefs (U s) = drefs s;
  co9 : forall s d, kids (U s) RChildren d = kids s RChildren d
}.

Lemma commok_id : CommOK (fun s => s).
Proof. constructor; reflexivity. Qed.

Lemma commok_set_par U r c v : CommOK U -> r <> RChildren -> CommOK (fun s => set_par (U s) r c v).
Proof.
  intros [A1 A2 A3 A4 A5 A6 A7 A8 A9] Hr. constructor; intros.
  - change (set_iref (set_par (U s) r c v) x v0) with (set_par (set_iref (U s) x v0) r c v). rewrite A1. reflexivity.
  - change (set_drefs (set_par (U s) r c v) x v0) with (set_par (set_drefs (U s) x v0) r c v). rewrite A2. reflexivity.
  - change (set_ipins (set_par (U s) r c v) x v0) with (set_par (set_ipins (U s) x v0) r c v). rewrite A3. reflexivity.
  - change (set_wpins (set_par (U s) r c v) x v0) with (set_par (set_wpins (U s) x v0) r c v). rewrite A4. reflexivity.
  - apply A5.
  - apply A6.
  - apply A7.
  - apply A8.
  - apply A9.
Qed.

Lemma commok_set_kids U r p l : CommOK U -> r <> RChildren -> CommOK (fun s => set_kids (U s) r p l).
Proof.
  intros [A1 A2 A3 A4 A5 A6 A7 A8 A9] Hr. constructor; intros.
  - change (set_iref (set_kids (U s) r p l) x v) with (set_kids (set_iref (U s) x v) r p l). rewrite A1. reflexivity.
  - change (set_drefs (set_kids (U s) r p l) x v) with (set_kids (set_drefs (U s) x v) r p l). rewrite A2. reflexivity.
  - change (set_ipins (set_kids (U s) r p l) x v) with (set_kids (set_ipins (U s) x v) r p l). rewrite A3. reflexivity.
  - change (set_wpins (set_kids (U s) r p l) x v) with (set_kids (set_wpins (U s) x v) r p l). rewrite A4. reflexivity.
  - apply A5.
  - apply A6.
  - apply A7.
  - apply A8.
  - cbn. unfold upd2. destruct r; try apply A9. contradiction.
Qed.

Lemma commok_def_rr U m s d' : CommOK U -> def_rr m (U s) d' = (U (fst (def_rr m s d')), snd (def_rr m s d')).
Proof. intros [A1 A2 A3 A4 A5 A6 A7 A8 A9]. apply (U_def_rr U); assumption. Qed.

(* the loop of Library._clone: the parent pointer of each copied definition is set just before its
   references are redirected; the result is that of redirecting first and setting the pointers after *)
Lemma interleaved_fold m r v : r <> RChildren -> forall L U s, CommOK U ->
  let plain := fold_idsR (def_rr m) L s in
  let inter := fold_idsR (fun s d' => def_rr m (set_par s r d' v) d') L (U s) in
  snd inter = snd plain /\ (snd plain = None -> fst inter = fold_ids (fun s d' => set_par s r d' v) L (U (fst plain))).
Proof.
  intro Hr. induction L as [|d' L IH]; intros U s HU; cbn [fold_idsR fold_ids].
  - cbn. split; [reflexivity|intros _; reflexivity].
  - cbn zeta. pose proof (commok_set_par U r d' v HU Hr) as HU1.
    rewrite (commok_def_rr (fun s => set_par (U s) r d' v) m s d' HU1).
    destruct (def_rr m s d') as [s1 [e|]]; cbn [fst snd bindR].
    + split; [reflexivity|discriminate].
    + apply (IH (fun s => set_par (U s) r d' v) s1 HU1).
Qed.
