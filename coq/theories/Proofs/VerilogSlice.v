(* Engine `verilog`: slice_inverse, decl_inverse, concat_inverse, lowend_align *)
From Coq Require Import List ZArith Bool Lia Arith Permutation Sorted.
From SV Require Import Fmt.VBits Proofs.VerilogLists.
Import ListNotations.
Open Scope Z_scope.

(* ---------------- reader: a part-select [h:l] ---------------- *)
Lemma get_range {A} (ws : list A) lo l h :
  lo <= l -> l <= h -> h <= lo + Z.of_nat (length ws) - 1 ->
  exists t, get_wires lo ws (Some h) (Some l) = Some t /\
    length t = Z.to_nat (h - l + 1) /\
    forall k, (k < length t)%nat -> nth_error t k = nth_error ws (Z.to_nat (h - Z.of_nat k - lo)).
Proof.
  intros H1 H2 H3. unfold get_wires. eexists. split; [reflexivity|].
  rewrite Z.min_r, Z.max_l by lia.
  rewrite py_slice_inside by lia.
  assert (Hlen : length (firstn (Z.to_nat (h - lo + 1 - (l - lo))) (skipn (Z.to_nat (l - lo)) ws))
                 = Z.to_nat (h - l + 1)).
  { rewrite firstn_length, skipn_length. lia. }
  split; [rewrite rev_length; exact Hlen|].
  intros k Hk. rewrite rev_length in Hk. rewrite nth_error_rev_lt by lia.
  rewrite Hlen. rewrite nth_error_firstn_lt by lia. rewrite nth_error_skipn_add.
  f_equal. lia.
Qed.

Lemma get_single {A} (ws : list A) lo i :
  lo <= i -> i <= lo + Z.of_nat (length ws) - 1 ->
  exists w, nth_error ws (Z.to_nat (i - lo)) = Some w /\ get_wires lo ws (Some i) None = Some [w].
Proof.
  intros H1 H2. unfold get_wires. rewrite py_index_inside by lia.
  destruct (nth_error ws (Z.to_nat (i - lo))) eqn:E.
  - eexists; split; reflexivity.
  - apply nth_error_None in E. lia.
Qed.

(* (a) the slice text written for wires l..h of a cable and the reader's selection from that text:
       the same wires, most significant first *)
Theorem slice_inverse_lemma : forall (A : Type) (ws : list A) (lo : Z) (downto : bool) (l h : Z),
  lo <= l -> l <= h -> h <= lo + Z.of_nat (length ws) - 1 ->
  exists b t,
    write_brackets lo (Z.of_nat (length ws)) (Some l) (Some h) = Some b /\
    get_wires lo ws (fst (read_brackets b)) (snd (read_brackets b)) = Some t /\
    length t = Z.to_nat (h - l + 1) /\
    forall k, (k < length t)%nat -> nth_error t k = nth_error ws (Z.to_nat (h - Z.of_nat k - lo)).
Proof.
  intros A ws lo _ l h H1 H2 H3. unfold write_brackets.
  destruct (Z.eqb_spec (Z.of_nat (length ws)) 0) as [E0|E0]; [lia|].
  destruct (Z.eqb_spec (Z.of_nat (length ws)) 1) as [E1|E1].
  - (* single-wire cable: the name alone *)
    assert (l = lo) by lia. assert (h = lo) by lia. subst l h.
    unfold opt_is. rewrite Z.eqb_refl. replace (lo + Z.of_nat (length ws) - 1) with lo by lia.
    rewrite Z.eqb_refl. cbn [andb].
    exists BNone. destruct ws as [|x [|y ws]]; cbn in E1; try lia.
    exists [x]. cbn. repeat split; try reflexivity.
    + replace (lo - lo + 1) with 1 by lia. reflexivity.
    + intros k Hk. assert (k = 0)%nat by lia. subst k. cbn.
      replace (Z.to_nat (lo - 0 - lo)) with 0%nat by lia. reflexivity.
  - destruct (andb (l =? lo) (h =? lo + Z.of_nat (length ws) - 1)) eqn:Efull.
    + exists (BRange h l). cbn [read_brackets fst snd].
      destruct (get_range ws lo l h H1 H2 H3) as [t [Ht Hp]]. exists t. split; [reflexivity|]. split; assumption.
    + destruct (Z.eqb_spec l h) as [Elh|Elh].
      * subst h. unfold inb.
        destruct (Z.leb_spec lo l); [|lia]. destruct (Z.leb_spec l (lo + Z.of_nat (length ws) - 1)); [|lia].
        cbn [andb]. exists (BIdx l). cbn [read_brackets fst snd].
        destruct (get_single ws lo l H1 H3) as [w [Hw Hg]]. exists [w]. split; [reflexivity|].
        split; [exact Hg|]. split; [cbn; lia|].
        intros k Hk. cbn in Hk. assert (k = 0)%nat by lia. subst k. cbn [nth_error].
        rewrite <- Hw. f_equal. lia.
      * unfold inb.
        destruct (Z.leb_spec lo l); [|lia]. destruct (Z.leb_spec l (lo + Z.of_nat (length ws) - 1)); [|lia].
        destruct (Z.leb_spec lo h); [|lia]. destruct (Z.leb_spec h (lo + Z.of_nat (length ws) - 1)); [|lia].
        cbn [andb]. exists (BRange h l). cbn [read_brackets fst snd].
        destruct (get_range ws lo l h H1 H2 H3) as [t [Ht Hp]]. exists t. split; [reflexivity|]. split; assumption.
Qed.

(* the declaration "[msb:lsb]" written for a bundle is read back as the same (lower_index, width) *)
Theorem decl_inverse_lemma : forall lo width, 1 <= width ->
  exists b, write_decl lo width = Some b /\
    populate (fst (read_brackets b)) (snd (read_brackets b)) = (lo, width).
Proof.
  intros lo width H. unfold write_decl.
  destruct (Z.eqb_spec width 0); [lia|].
  destruct (Z.eqb_spec width 1) as [E|E]; destruct (Z.eqb_spec lo 0) as [E2|E2]; cbn [andb].
  - subst. exists BNone. split; reflexivity.
  - exists (BRange (lo + width - 1) lo). split; [reflexivity|]. cbn. f_equal; lia.
  - exists (BRange (lo + width - 1) lo). split; [reflexivity|]. cbn. f_equal; lia.
  - exists (BRange (lo + width - 1) lo). split; [reflexivity|]. cbn. f_equal; lia.
Qed.

(* ---------------- (b) concatenation ---------------- *)
Fixpoint somes {A} (l : list (option A)) : list A :=
  match l with [] => [] | Some x :: r => x :: somes r | None :: r => somes r end.

Definition expand_piece (p : piece) : list wire :=
  let '(c, l, h) := p in map (fun i => (c, i)) (zdown h l).
Definition expand (ps : list piece) : list wire := flat_map expand_piece ps.

Definition pending (st : option (nat * Z * Z)) : list wire :=
  match st with Some (c, f, p) => map (fun i => (c, i)) (zdown f p) | None => [] end.
Definition st_ok (st : option (nat * Z * Z)) : Prop :=
  match st with Some (_, f, p) => p <= f | None => True end.

(* the run-length grouping loses and invents nothing, for any list of wires *)
Lemma group_expand : forall ws st, st_ok st -> expand (group st ws) = pending st ++ somes ws.
Proof.
  induction ws as [|[[c i]|] ws IH]; intros st Hst.
  - destruct st as [[[c f] p]|]; cbn; rewrite ?app_nil_r; reflexivity.
  - destruct st as [[[pc f] p]|]; cbn [group somes].
    + destruct (Nat.eqb_spec c pc) as [->|Hne].
      * destruct (Z.eqb_spec i (p - 1)) as [->|Hi].
        -- rewrite IH by (cbn in *; lia). cbn [pending]. cbn in Hst.
           rewrite zdown_snoc by lia. rewrite map_app, <- app_assoc. reflexivity.
        -- cbn [expand flat_map]. fold (expand (group (Some (pc, i, i)) ws)).
           rewrite IH by (cbn; lia). cbn [pending expand_piece]. rewrite zdown_single. reflexivity.
      * cbn [expand flat_map]. fold (expand (group (Some (c, i, i)) ws)).
        rewrite IH by (cbn; lia). cbn [pending expand_piece]. rewrite zdown_single. reflexivity.
    + rewrite IH by (cbn; lia). cbn [pending]. rewrite zdown_single. reflexivity.
  - cbn [group somes]. apply IH. exact Hst.
Qed.

Definition in_cable (e : env) (c : nat) (i : Z) : Prop :=
  fst (e c) <= i /\ i <= fst (e c) + Z.of_nat (snd (e c)) - 1.
Definition piece_ok (e : env) (p : piece) : Prop :=
  let '(c, l, h) := p in in_cable e c l /\ in_cable e c h /\ l <= h.
Definition st_in (e : env) (st : option (nat * Z * Z)) : Prop :=
  match st with Some (c, f, p) => in_cable e c f /\ in_cable e c p /\ p <= f | None => True end.

Lemma group_pieces_ok : forall e ws st,
  st_in e st -> (forall c i, In (Some (c, i)) ws -> in_cable e c i) -> Forall (piece_ok e) (group st ws).
Proof.
  induction ws as [|[[c i]|] ws IH]; intros st Hst Hws.
  - destruct st as [[[c f] p]|]; cbn; [|constructor]. constructor; [|constructor].
    cbn in *. unfold in_cable in *. intuition lia.
  - assert (Hci : in_cable e c i) by (apply Hws; left; reflexivity).
    assert (Hws' : forall c i, In (Some (c, i)) ws -> in_cable e c i) by (intros; apply Hws; right; assumption).
    destruct st as [[[pc f] p]|]; cbn [group].
    + destruct (Nat.eqb_spec c pc) as [->|Hne].
      * destruct (Z.eqb_spec i (p - 1)) as [->|Hi].
        -- apply IH; [|exact Hws']. cbn in *. unfold in_cable in *. intuition lia.
        -- constructor; [cbn in *; unfold in_cable in *; intuition lia|].
           apply IH; [|exact Hws']. cbn. unfold in_cable in *. intuition lia.
      * constructor; [cbn in *; unfold in_cable in *; intuition lia|].
        apply IH; [|exact Hws']. cbn. unfold in_cable in *. intuition lia.
    + apply IH; [|exact Hws']. cbn. unfold in_cable in *. intuition lia.
  - cbn [group]. apply IH; [exact Hst|]. intros; apply Hws; right; assumption.
Qed.

Lemma cable_wires_length c lo n : length (cable_wires c lo n) = n.
Proof. unfold cable_wires. rewrite map_length, seq_length. reflexivity. Qed.

Lemma cable_wires_nth c lo n k : (k < n)%nat -> nth_error (cable_wires c lo n) k = Some (c, lo + Z.of_nat k).
Proof.
  intro H. unfold cable_wires. rewrite nth_error_map.
  rewrite (nth_error_nth' _ 0%nat) by (rewrite seq_length; lia). rewrite seq_nth by lia. reflexivity.
Qed.

Lemma zdown_sorted c lo h l :
  StronglySorted (gt_key (fun w : wire => snd w - lo)) (map (fun i => (c, i)) (zdown h l)).
Proof.
  unfold zdown. rewrite map_map.
  generalize (Z.to_nat (h - l + 1)). intro n.
  assert (G : forall m s, StronglySorted (gt_key (fun w : wire => snd w - lo))
                (map (fun k => (c, h - Z.of_nat k)) (seq s m))).
  { induction m as [|m IH]; intro s; cbn; [constructor|]. constructor; [apply IH|].
    rewrite Forall_forall. intros x Hx. apply in_map_iff in Hx. destruct Hx as [k [<- Hk]].
    apply in_seq in Hk. unfold gt_key. cbn. lia. }
  apply G.
Qed.

(* one emitted piece, read back: the wires high..low of that cable, most significant first *)
Lemma read_piece_ok : forall e c l h, piece_ok e (c, l, h) ->
  exists b, write_brackets (fst (e c)) (Z.of_nat (snd (e c))) (Some l) (Some h) = Some b /\
            read_piece e c b = Some (expand_piece (c, l, h)).
Proof.
  intros e c l h [[H1 H2] [[H3 H4] H5]].
  destruct (slice_inverse_lemma wire (cable_wires c (fst (e c)) (snd (e c))) (fst (e c)) true l h)
    as [b [t [Hb [Hg [Hlen Hnth]]]]]; try rewrite cable_wires_length; try lia.
  rewrite cable_wires_length in Hb. exists b. split; [exact Hb|].
  unfold read_piece. rewrite Hg.
  assert (Ht : t = map (fun i => (c, i)) (zdown h l)).
  { apply list_eq_nth_error.
    - rewrite map_length, zdown_length. exact Hlen.
    - intros k Hk. rewrite Hnth by exact Hk. rewrite nth_error_map, zdown_nth by lia.
      rewrite cable_wires_nth by lia. cbn. f_equal. f_equal. lia. }
  rewrite Ht. rewrite sort_desc_id by apply zdown_sorted. reflexivity.
Qed.

Lemma pieces_roundtrip : forall e ps, Forall (piece_ok e) ps ->
  exists t, write_pieces e ps = Some t /\ read_concat e t = Some (expand ps).
Proof.
  induction 1 as [|[[c l] h] ps Hp Hps IH].
  - exists []. split; reflexivity.
  - destruct IH as [t [Ht Hr]]. destruct (read_piece_ok e c l h Hp) as [b [Hb Hrb]].
    exists ((c, b) :: t). cbn [write_pieces read_concat]. rewrite Hb, Ht, Hrb, Hr. split; reflexivity.
Qed.

(* (b) whatever list of wires a port or alias carries (gaps = None are skipped by the writer), the text
       _write_concatenation emits is expanded by the reader to the same list *)
Theorem concat_inverse_lemma : forall (e : env) (ws : list (option wire)),
  (forall c i, In (Some (c, i)) ws -> in_cable e c i) ->
  exists t, write_concat e ws = Some t /\ read_concat e t = Some (somes ws).
Proof.
  intros e ws H. unfold write_concat.
  destruct (pieces_roundtrip e (group None ws)) as [t [Ht Hr]].
  - apply group_pieces_ok; [exact I|exact H].
  - exists t. split; [exact Ht|]. rewrite Hr. rewrite group_expand by exact I. reflexivity.
Qed.

(* ---------------- (c) low-end alignment ---------------- *)
Theorem lowend_align_lemma : forall (W : Type) (ws : list W) (pins : list nat) (n : nat),
  Permutation pins (seq 0 n) -> (length ws <= n)%nat ->
  align Z.of_nat pins ws = Some (combine ws (rev (seq 0 (length ws)))).
Proof.
  intros W ws pins n Hp Hle. unfold align.
  assert (Hlen : length pins = n) by (rewrite (Permutation_length Hp); apply seq_length).
  rewrite Hlen. destruct (Nat.ltb_spec n (length ws)); [lia|].
  rewrite (sort_desc_unique Z.of_nat pins (rev (seq 0 n))).
  - destruct (Nat.ltb_spec (length ws) n).
    + rewrite skipn_rev_seq by lia. reflexivity.
    + assert (E : n = length ws) by lia. rewrite E. reflexivity.
  - rewrite Hp. apply Permutation_rev.
  - apply rev_seq_sorted.
Qed.

(* bit k of the expression, counted from its least significant end, meets pin k *)
Lemma combine_rev_seq_nth {W} (ws : list W) k w :
  (k < length ws)%nat -> nth_error ws (length ws - 1 - k) = Some w ->
  nth_error (combine ws (rev (seq 0 (length ws)))) (length ws - 1 - k) = Some (w, k).
Proof.
  intros Hk Hw.
  assert (G : forall (l1 : list W) (l2 : list nat) i a b, nth_error l1 i = Some a -> nth_error l2 i = Some b ->
              nth_error (combine l1 l2) i = Some (a, b)).
  { induction l1 as [|x l1 IH]; intros l2 i a b Ha Hb; destruct i; destruct l2; cbn in *; try discriminate.
    - inversion Ha; inversion Hb; reflexivity.
    - apply IH; assumption. }
  apply G; [exact Hw|].
  rewrite nth_error_rev_lt by (rewrite seq_length; lia). rewrite seq_length.
  rewrite (nth_error_nth' _ 0%nat) by (rewrite seq_length; lia). rewrite seq_nth by lia. f_equal. lia.
Qed.

Theorem lowend_align_bit_lemma : forall (W : Type) (ws : list W) (pins : list nat) (n k : nat) (w : W),
  Permutation pins (seq 0 n) -> (length ws <= n)%nat -> (k < length ws)%nat ->
  nth_error ws (length ws - 1 - k) = Some w ->
  exists calls, align Z.of_nat pins ws = Some calls /\ In (w, k) calls /\
    (forall w' k', In (w', k') calls -> (k' < length ws)%nat).
Proof.
  intros W ws pins n k w Hp Hle Hk Hw. eexists. split; [apply (lowend_align_lemma W ws pins n Hp Hle)|]. split.
  - eapply nth_error_In. apply combine_rev_seq_nth; eassumption.
  - intros w' k' Hin. apply in_combine_r in Hin. apply in_rev, in_seq in Hin. lia.
Qed.
