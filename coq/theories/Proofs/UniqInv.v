(* C08, "the netlist stays well-formed": uniquify keeps the containment invariant of C01 (every
   container lists exactly the elements that name it as parent, once) and the reference-set
   invariant of C02 (an instance is listed by exactly the definition it references, once) on every
   successful run, for any fuel. It is a breadth-first walk over Definition.clone (Proofs/CloneInv.v), two renames,
   add_definition and a reference change. *)
From Coq Require Import List Arith Bool Lia.
From RecordUpdate Require Import RecordSet.
From SV Require Import Base.Base IR.State IR.NS IR.Ops Xform.Clone Xform.Strs Xform.Xform
  Proofs.Frame Proofs.Inv1a Proofs.Inv2a Proofs.InvW Proofs.C01_full Proofs.Fresh Proofs.NsInv Proofs.CloneInv Proofs.RefK Proofs.CloneRef Proofs.CloneT.
From SV Require Import Proofs.UniqFresh.
Import ListNotations RecordSetNotations.

Definition UI (s : state) : Prop := Inv1a s /\ Inv2a s /\ Fresh s /\ RefK s /\ InvT s.

Lemma ui_struct s s' : struct_eq s s' -> UI s -> UI s'.
Proof.
  intros H [I [I2 [F [K T]]]]. split; [exact (inv1a_cont _ _ (struct_cont _ _ H) I)|].
  split; [exact (inv2a_ref _ _ (struct_ref _ _ H) I2)|]. split; [exact (fresh_frame _ _ (struct_frame _ _ H) F)|].
  split; [exact (refk_rq _ _ (rq_struct _ _ H) K)|exact (tstep_invt _ _ (tstep_struct _ _ H) T)].
Qed.

Definition UP (r : XR) : Prop := snd r = None -> UI (st (fst r)).

Lemma up_liftR x (r : R) k :
  (snd r = None -> UI (fst r)) -> (forall x', UI (st x') -> UP (k x')) -> UP (liftR x r k).
Proof.
  intros Hr Hk. unfold liftR. destruct r as [s [e|]]; cbn in *; [intro H; discriminate|].
  apply Hk. cbn. apply Hr. reflexivity.
Qed.

Lemma up_dict_set x e k v kk :
  UI (st x) -> (forall x', UI (st x') -> UP (kk x')) -> UP (liftR x (dict_set (st x) e k v) kk).
Proof. intros H Hk. apply up_liftR; [|exact Hk]. intros _. eapply ui_struct; [apply se_dict_set|exact H]. Qed.

Lemma up_make_instance_unique x inst : UI (st x) -> UP (make_instance_unique x inst).
Proof.
  intros [I [I2 [F [K T]]]]. unfold make_instance_unique.
  destruct (iref (st x) inst) as [d|] eqn:Ei; [|intro H; discriminate].
  pose proof (ref_lt _ _ _ K F Ei) as Hd.
  destruct (par (st x) RDefs d) as [lib|]; [|intro H; discriminate].
  pose proof (clone_definition_inv1a (st x) d I F) as HI. pose proof (clone_definition_fresh (st x) d I F) as HF.
  pose proof (clone_definition_inv2a (st x) d I I2 F K Hd) as HR. pose proof (clone_definition_invt (st x) d I F T) as HTc.
  destruct (clone_definition (st x) d) as [r d']. cbn [fst snd] in HI, HF, HR, HTc.
  apply up_liftR; [intro Hok; destruct (HR Hok) as [HR1 HR2]; split; [apply HI; exact Hok|split; [exact HR1|split; [apply HF; exact Hok|split; [exact HR2|apply HTc; exact Hok]]]]|].
  intros x1 U1.
  set (named := rename_block x1 lib d d').
  assert (Hn : UP named).
  { unfold UP. destruct named as [x5 e] eqn:Eb. cbn [fst snd]. intros ->.
    apply (rename_block_post UI x1 lib d d' x5 U1); [|exact Eb].
    intros s0 k0 v0 _ H0 _. eapply ui_struct; [apply se_dict_set|exact H0]. }
  destruct named as [x5 [e|]]; [intro H; discriminate|].
  assert (U5 : UI (st x5)) by (apply Hn; reflexivity).
  apply up_liftR.
  - intros _. destruct U5 as [I5 [R5 [F5 [K5 T5]]]]. split; [apply op_add_inv1a; exact I5|].
    split; [exact (re_inv2a _ _ R5 (re_op_add _ _ _ _ _))|]. split; [apply fresh_op_add; exact F5|].
    split; [exact (refk_rq _ _ (rq_op_add _ _ _ _ _) K5)|exact (tstep_invt _ _ (tstep_op_add _ _ _ _ _) T5)].
  - intros x6 [I6 [R6 [F6 [K6 T6]]]].
    pose proof (op_set_reference_inv2a (st x6) inst (Some d') R6) as HS.
    destruct (op_set_reference (st x6) inst (Some d')) as [s7 [e|]] eqn:Es; cbn [liftR]; [intro H; discriminate|].
    intros _. cbn [fst st]. cbn [fst snd] in HS.
    pose proof (ce_op_set_reference (st x6) inst (Some d')) as Hce. pose proof (fresh_op_set_reference (st x6) inst (Some d') F6) as Hf.
    pose proof (rq_op_set_reference (st x6) inst (Some d')) as Hq. pose proof (tstep_op_set_reference (st x6) inst (Some d')) as Ht.
    rewrite Es in Hce, Hf, Hq, Ht. cbn [fst] in Hce, Hf, Hq, Ht.
    split; [exact (ce_inv1a _ _ I6 Hce)|]. split; [apply HS; discriminate|]. split; [exact Hf|].
    split; [exact (refk_rq _ _ Hq K6)|exact (tstep_invt _ _ Ht T6)].
Qed.

Lemma up_uniq_loop : forall fuel x queue, UI (st x) -> UP (uniq_loop fuel x queue).
Proof.
  induction fuel as [|f IH]; intros x queue U; destruct queue as [|inst rest]; cbn [uniq_loop];
    try (intros _; exact U); try (intro H; discriminate).
  destruct (inst_unique (st x) inst) as [u|]; [|intro H; discriminate].
  match goal with |- context [if u then ?a else ?b] =>
    set (r := if u then a else b);
    assert (Hr : UP r) by (unfold r; destruct u; [intros _; exact U|apply up_make_instance_unique; exact U]);
    destruct r as [x1 [e|]]; [intro H; discriminate|] end.
  assert (U1 : UI (st x1)) by (apply Hr; reflexivity).
  destruct (iref (st x1) inst) as [d|]; [|intro H; discriminate].
  apply IH. exact U1.
Qed.

Theorem uniquify_inv fuel x n x' : UI (st x) -> uniquify fuel x n = (x', None) -> UI (st x').
Proof.
  intros U E. unfold uniquify in E.
  destruct (top (st x) n) as [t|]; [|discriminate]. destruct (iref (st x) t) as [d|]; [|discriminate].
  pose proof (up_uniq_loop fuel x (kids (st x) RChildren d) U) as H. rewrite E in H. apply H. reflexivity.
Qed.

Lemma reachable_fresh ops : Fresh (run ops init).
Proof.
  assert (G : forall ops s, Fresh s -> Fresh (run ops s)).
  { induction ops0 as [|o ops0 IH]; intros s F; cbn [run fold_left]; [exact F|]. apply IH. apply step_fresh. exact F. }
  apply G. apply fresh_init.
Qed.

Lemma reachable_ui ops : UI (run ops init).
Proof.
  pose proof (C01_full.reachable_inv ops) as HI.
  split; [apply (inv_a _ HI)|]. split; [apply (inv_r _ HI)|]. split; [apply reachable_fresh|]. split; [apply reachable_refk|].
  apply (reachable_nsinv ops).
Qed.

(* in every state reachable by editing calls, with any counters and any fuel *)
Theorem uniquify_reachable ops u f fuel n x' :
  uniquify fuel (mkX (run ops init) u f) n = (x', None) -> Inv1a (st x') /\ Inv2a (st x') /\ InvT (st x').
Proof.
  intro E. destruct (uniquify_inv fuel (mkX (run ops init) u f) n x' (reachable_ui ops) E) as [A [B [_ [_ C]]]]. split; [exact A|split; assumption].
Qed.

(* Definition.clone alone, in every reachable state, for a definition that exists *)
Theorem clone_definition_reachable ops d :
  let s := run ops init in
  d < next s -> snd (fst (clone_definition s d)) = None ->
  Inv1a (fst (fst (clone_definition s d))) /\ Inv2a (fst (fst (clone_definition s d))) /\ InvT (fst (fst (clone_definition s d))).
Proof.
  cbn zeta. intros Hd Hok. destruct (reachable_ui ops) as [I [I2 [F [K T]]]].
  split; [apply clone_definition_inv1a; assumption|]. split; [apply clone_definition_inv2a; assumption|apply clone_definition_invt; assumption].
Qed.
