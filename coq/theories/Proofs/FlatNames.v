(* C09: the leaf instances and their names after flatten of a uniquified design.
   [fname] (Proofs/FlatWalk.v) is the name the code computes; here it is related to the slash-joined
   names along the path, and the set of children of the top definition is characterised. *)
From Coq Require Import List Arith NArith Bool Lia.
From SV Require Import Base.Base IR.State IR.NS IR.Ops Xform.Clone Xform.Strs Xform.Xform Hier.Paths
  Proofs.Inv1a Proofs.Inv2a Proofs.InvW Proofs.CloneFull Proofs.FlatLeaf Proofs.FlatEff Proofs.FlatPaths Proofs.FlatWalk.
Import ListNotations.

(* "/".join(l) *)
Fixpoint join_slash (l : list str) : str :=
  match l with
  | [] => []
  | a :: l' => match l' with [] => a | _ :: _ => a ++ str_slash ++ join_slash l' end
  end.

Lemma join_slash_snoc l a : l <> [] -> join_slash (l ++ [a]) = join_slash l ++ str_slash ++ a.
Proof.
  induction l as [|b l IH]; intro H; [contradiction|]. destruct l as [|c l]; [reflexivity|].
  change (join_slash ((b :: c :: l) ++ [a])) with (b ++ str_slash ++ join_slash ((c :: l) ++ [a])).
  rewrite IH by discriminate. change (join_slash (b :: c :: l)) with (b ++ str_slash ++ join_slash (c :: l)).
  rewrite <- !app_assoc. reflexivity.
Qed.

Lemma join_slash_nonempty l : l <> [] -> Forall (fun a : str => a <> []) l -> join_slash l <> [].
Proof.
  destruct l as [|a l]; [contradiction|]. intros _ H. inversion H as [|? ? Ha _]; subst.
  destruct l; cbn [join_slash]; [exact Ha|]. intro E. apply app_eq_nil in E as [E _]. contradiction.
Qed.

(* the names of the instances strictly below the top instance along a path (leaf first, top
   instance last), top-most first; None if one of them has no name *)
Fixpoint onames (s : state) (p : list id) : option (list str) :=
  match p with
  | [] => Some []
  | c :: p' =>
      match p' with
      | [] => Some []
      | _ :: _ => match onames s p', get_str s c str_NAME with
                  | Some l, Some nm => Some (l ++ [nm])
                  | _, _ => None
                  end
      end
  end.

Lemma onames_cons2 s c y p :
  onames s (c :: y :: p) = match onames s (y :: p), get_str s c str_NAME with
                           | Some l, Some nm => Some (l ++ [nm]) | _, _ => None end.
Proof. reflexivity. Qed.
Lemma fname_cons s c p : fname s (c :: p) = joino (pname s p) (get_str s c str_NAME).
Proof. reflexivity. Qed.

(* the same names with a missing name counted as the empty string (what _name_in_path hands on) *)
Fixpoint enames (s : state) (p : list id) : list str :=
  match p with
  | [] => []
  | c :: p' =>
      match p' with
      | [] => []
      | _ :: _ => enames s p' ++ [oe (get_str s c str_NAME)]
      end
  end.

Lemma enames_cons2 s c y p : enames s (c :: y :: p) = enames s (y :: p) ++ [oe (get_str s c str_NAME)].
Proof. reflexivity. Qed.

Lemma onames_enames s : forall p l, onames s p = Some l -> enames s p = l.
Proof.
  induction p as [|c p IH]; intros l E; [injection E as <-; reflexivity|].
  destruct p as [|y p]; [injection E as <-; reflexivity|].
  rewrite onames_cons2 in E. rewrite enames_cons2.
  destruct (onames s (y :: p)) as [l'|] eqn:El; [|discriminate E].
  destruct (get_str s c str_NAME) as [nm|] eqn:En; [|discriminate E].
  injection E as <-. rewrite (IH l' eq_refl). reflexivity.
Qed.

(* the code's flat name, a missing name read as "", is the slash-joined list of the names along the path *)
Lemma fname_enames s : forall p c y, oe (fname s (c :: y :: p)) = join_slash (enames s (c :: y :: p)).
Proof.
  induction p as [|z q IH]; intros c y.
  - reflexivity.
  - rewrite fname_cons, pname_cons2, (IH y z), (enames_cons2 s c y (z :: q)). cbn [joino oe].
    rewrite join_slash_snoc; [reflexivity|]. rewrite enames_cons2. intro H. apply app_eq_nil in H as [_ H]. discriminate H.
Qed.

(* two or more levels below the top instance there is always a flat name *)
Lemma fname_deep s c y z p : fname s (c :: y :: z :: p) = Some (join_slash (enames s (c :: y :: z :: p))).
Proof. rewrite <- fname_enames. reflexivity. Qed.

(* when every instance on the path has a name - the empty string included - the code's flat name is the
   slash-joined list of those names *)
Lemma fname_join s p l : onames s p = Some l -> l <> [] -> fname s p = Some (join_slash l).
Proof.
  intros E Hne. destruct p as [|c [|y p]]; [injection E as <-; contradiction|injection E as <-; contradiction|].
  pose proof (onames_enames s _ _ E) as Ee. rewrite onames_cons2 in E.
  destruct (onames s (y :: p)) as [l'|] eqn:El; [|discriminate E].
  destruct (get_str s c str_NAME) as [nm|] eqn:En; [|discriminate E]. injection E as <-.
  destruct p as [|z q].
  - injection El as <-. rewrite fname_cons, En. reflexivity.
  - rewrite fname_deep, Ee. reflexivity.
Qed.

Lemma onames_nonempty s c y p l : onames s (c :: y :: p) = Some l -> l <> [].
Proof.
  rewrite onames_cons2. destruct (onames s (y :: p)) as [l'|]; [|discriminate].
  destruct (get_str s c str_NAME) as [nm|]; [|discriminate]. intros E H. injection E as <-.
  apply app_eq_nil in H as [_ H]. discriminate H.
Qed.

Section Results.
  Variables (fuel : nat) (x : xstate) (n : id) (x' : xstate) (t topd : id).
  Hypothesis U0 : UF (st x).
  Hypothesis Hu : Uniquified (st x) t.
  Hypothesis Htop : top (st x) n = Some t.
  Hypothesis Ht : iref (st x) t = Some topd.
  Hypothesis E : flatten fuel x n = (x', None).

  (* LEAVES: the children of the top definition are exactly the leaf instances below the top *)
  Theorem flatten_children :
    (forall c, In c (kids (st x') RChildren topd) <-> Below (st x) t c /\ Leafy (st x) c) /\
    NoDup (kids (st x') RChildren topd) /\ iref (st x') = iref (st x).
  Proof.
    destruct (flatten_spec fuel x n x' t topd U0 Hu Htop Ht E) as [done [F _]].
    pose proof (inv_a _ (proj1 (fs_uf _ _ _ _ _ F))) as J1. pose proof (inv_a _ (proj1 U0)) as I1.
    split; [|split; [apply (i1_nodup _ J1)|apply (fs_iref _ _ _ _ _ F)]].
    intro c. rewrite (i1_kids _ J1), (fs_pari _ _ _ _ _ F). split.
    - destruct (memb c done) eqn:Em.
      + apply memb_In in Em. destruct (hierb (st x) c) eqn:Eh; [discriminate|]. intros _.
        split; [apply (fs_done _ _ _ _ _ F); exact Em|].
        pose proof (fs_ref _ _ _ _ _ F c Em) as Hr. unfold hierb in Eh. destruct (iref (st x) c) as [d|] eqn:Hrc; [|contradiction].
        exists d. split; [exact Hrc|]. apply negb_false_iff in Eh. exact Eh.
      + intro Hp. exfalso. apply memb_false in Em. apply Em. apply (fs_done _ _ _ _ _ F). exists t, [].
        apply rp_child; [apply rp_top|]. apply (par_child _ _ _ _ I1 Ht Hp).
    - intros [Hb [d [Hr Hl]]]. apply (fs_done _ _ _ _ _ F) in Hb. apply memb_In in Hb. rewrite Hb.
      unfold hierb. rewrite Hr, Hl. reflexivity.
  Qed.

  (* NAMES *)
  Theorem flatten_name_code c y p :
    is_rpath (st x) t (c :: y :: p) -> get_str (st x') c str_NAME = fname (st x) (c :: y :: p).
  Proof. destruct (flatten_spec fuel x n x' t topd U0 Hu Htop Ht E) as [done [F _]]. apply (fs_namei _ _ _ _ _ F). Qed.

  (* "named by the slash-joined instance names along the path", whatever those names are *)
  Theorem flatten_name_joined c y p l :
    is_rpath (st x) t (c :: y :: p) -> onames (st x) (c :: y :: p) = Some l ->
    get_str (st x') c str_NAME = Some (join_slash l).
  Proof. intros Hp Hl. rewrite (flatten_name_code c y p Hp). apply fname_join; [exact Hl|apply (onames_nonempty _ _ _ _ _ Hl)]. Qed.

  (* an unnamed child of the top definition stays unnamed; anywhere below, a missing name on the path
     counts as the empty string, so the instance has a flat name *)
  Theorem flatten_top_child_name c : is_rpath (st x) t [c; t] -> get_str (st x') c str_NAME = get_str (st x) c str_NAME.
  Proof. intro Hp. rewrite (flatten_name_code c t [] Hp). reflexivity. Qed.

  Theorem flatten_name_missing_as_empty c y z p :
    is_rpath (st x) t (c :: y :: z :: p) ->
    get_str (st x') c str_NAME = Some (join_slash (enames (st x) (c :: y :: z :: p))).
  Proof. intro Hp. rewrite (flatten_name_code c y (z :: p) Hp). apply fname_deep. Qed.

  (* data other than the name, EDIF.identifier and the namespace tag is unchanged, on every object *)
  Theorem flatten_data y k :
    k <> str_NAME -> k <> str_IDENT -> k <> str_NS -> sassoc k (data (st x') y) = sassoc k (data (st x) y).
  Proof. destruct (flatten_spec fuel x n x' t topd U0 Hu Htop Ht E) as [done [F _]]. apply (fs_keys _ _ _ _ _ F). Qed.
End Results.
