(* Termination of the loops of Query/Enum.v that carry a visited set (get_libraries, get_cables) and
   of the first loop of get_wires. The push graph of QueryEnumTerm.v counts the appends guarded by
   "if c not in <set>" as unconditional and may then be cyclic (two libraries that instantiate each
   other's definitions); here the guarded appends are bounded by the number of identifiers that are
   not yet in the set, and only the unguarded appends have to be well founded. *)
From Coq Require Import List Arith Bool Lia Relations Wellfounded.
From SV Require Import Base.Base IR.State Hier.Paths Query.Enum Proofs.QueryEnumWL Proofs.QueryEnumTerm.
Import ListNotations.

Section TermMarks.
Context {T : Type}.
Variable acts : item -> list (act T).
Variable bad : item -> bool.
Variable U : list id.                       (* every identifier the table can mark *)
Hypothesis HU : forall x c os ys, In (AMark c os ys) (acts x) -> In c U.

(* the unguarded appends *)
Definition psteps_to (y x : item) : Prop := In (APush y) (acts x).

(* how many identifiers can still be marked *)
Definition um (M : list id) : nat := length (filter (fun c => negb (memb c M)) U).

Lemma um_gen (V : list id) c M :
  length (filter (fun c' => negb (memb c' (c :: M))) V) <= length (filter (fun c' => negb (memb c' M)) V) /\
  (In c V -> memb c M = false ->
   length (filter (fun c' => negb (memb c' (c :: M))) V) < length (filter (fun c' => negb (memb c' M)) V)).
Proof.
  induction V as [|v V [IH1 IH2]]; [split; [apply le_n|intros []]|].
  cbn [filter]. change (memb v (c :: M)) with (Nat.eqb v c || memb v M). destruct (Nat.eqb v c) eqn:Evc.
  - cbn [orb negb]. apply Nat.eqb_eq in Evc. subst v. split.
    + destruct (memb c M); cbn [negb length]; lia.
    + intros _ Hm. rewrite Hm. cbn [negb length]. lia.
  - cbn [orb]. apply Nat.eqb_neq in Evc. split.
    + destruct (memb v M); cbn [negb length]; lia.
    + intros [Hv|Hv] Hm; [congruence|]. specialize (IH2 Hv Hm). destruct (memb v M); cbn [negb length]; lia.
Qed.

Lemma um_lt c M : In c U -> memb c M = false -> um (c :: M) < um M.
Proof. intros H1 H2. apply (proj2 (um_gen U c M) H1 H2). Qed.

(* one item: either no guarded statement fired, the set is unchanged and only unguarded appends
   happened, or the set grew *)
Lemma run_acts_cases (al : list (act T)) : forall stack st stack1 st1,
  (forall c os ys, In (AMark c os ys) al -> In c U) ->
  run_acts al stack st = (stack1, st1) ->
  (w_marks st1 = w_marks st /\ exists l, stack1 = l ++ stack /\ forall y, In y l -> In (APush y) al) \/
  um (w_marks st1) < um (w_marks st).
Proof.
  induction al as [|a al IH]; intros stack st stack1 st1 Hal H; cbn [run_acts] in H.
  - injection H as <- <-. left. split; [reflexivity|]. exists []. split; [reflexivity|intros y []].
  - assert (Hal' : forall c os ys, In (AMark c os ys) al -> In c U) by (intros c os ys Hc; eapply Hal; right; exact Hc).
    destruct a as [y|o|c os ys].
    + apply IH in H as [(Hm & l & -> & Hl)|Hlt]; [|right; exact Hlt|exact Hal']. left. split; [exact Hm|].
      exists (l ++ [y]). split; [rewrite <- app_assoc; reflexivity|].
      intros z Hz. apply in_app_or in Hz as [Hz|[<-|[]]]; [right; apply Hl; exact Hz|left; reflexivity].
    + apply IH in H as [(Hm & l & -> & Hl)|Hlt]; [|right; exact Hlt|exact Hal']. left. split; [exact Hm|].
      exists l. split; [reflexivity|]. intros z Hz. right. apply Hl. exact Hz.
    + destruct (memb c (w_marks st)) eqn:Em.
      * apply IH in H as [(Hm & l & -> & Hl)|Hlt]; [|right; exact Hlt|exact Hal']. left. split; [exact Hm|].
        exists l. split; [reflexivity|]. intros z Hz. right. apply Hl. exact Hz.
      * right. assert (Hc : um (c :: w_marks st) < um (w_marks st)).
        { apply um_lt; [eapply Hal; left; reflexivity|exact Em]. }
        apply IH in H as [(Hm & _)|Hlt]; [|cbn [w_marks] in Hlt; lia|exact Hal']. rewrite Hm. exact Hc.
Qed.

(* enough fuel exists for this stack from this state *)
Definition term (stack : list item) (st : wst T) : Prop :=
  exists f0, forall f, f0 <= f -> wl acts bad f stack st <> WFuel.

Lemma term_nil st : term [] st.
Proof. exists 0. intros f _. destruct f; discriminate. Qed.

Lemma term_cons n :
  (forall st, um (w_marks st) < n -> forall stack, term stack st) ->
  forall x, Acc psteps_to x -> forall rest,
  (forall st, um (w_marks st) < S n -> term rest st) ->
  forall st, um (w_marks st) < S n -> term (x :: rest) st.
Proof.
  intros IHn. induction 1 as [x _ IH]. intros rest Hr st Hst. unfold term. cbn [wl].
  destruct (bad x) eqn:Eb.
  - exists 1. intros f Hf. destruct f; [lia|]. cbn [wl]. rewrite Eb. discriminate.
  - destruct (run_acts (acts x) rest st) as [stack1 st1] eqn:Er.
    assert (Hg : term stack1 st1).
    { destruct (run_acts_cases _ _ _ _ _ (HU x) Er) as [(Hm & l & -> & Hl)|Hlt].
      - assert (Hall : forall st', um (w_marks st') < S n -> term (l ++ rest) st').
        { clear Er. induction l as [|y l IHl]; [exact Hr|]. cbn [app]. apply IH.
          - apply Hl. left. reflexivity.
          - apply IHl. intros z Hz. apply Hl. right. exact Hz. }
        apply Hall. rewrite Hm. exact Hst.
      - apply IHn. lia. }
    destruct Hg as (f0 & Hf0). exists (S f0). intros f Hf. destruct f; [lia|]. cbn [wl]. rewrite Eb, Er.
    apply Hf0. lia.
Qed.

Hypothesis HAcc : forall x, Acc psteps_to x.

Lemma term_all n : forall st, um (w_marks st) < n -> forall stack, term stack st.
Proof.
  induction n as [|n IHn]; [intros st Hst; lia|].
  assert (H : forall stack st, um (w_marks st) < S n -> term stack st).
  { induction stack as [|x rest IH]; intros st Hst; [apply term_nil|].
    apply (term_cons n IHn x (HAcc x) rest IH st Hst). }
  intros st Hst stack. apply H. exact Hst.
Qed.

Theorem wl_marks_terminates stack st : exists fuel, wl acts bad fuel stack st <> WFuel.
Proof.
  destruct (term_all (S (um (w_marks st))) st (Nat.lt_succ_diag_r _) stack) as (f0 & Hf).
  exists f0. apply Hf. apply le_n.
Qed.

Theorem wl_run_marks_terminates roots : exists fuel, wl_run acts bad fuel roots <> WFuel.
Proof.
  destruct (wl_marks_terminates (rev roots) (mkW [] [])) as (f0 & Hf).
  exists f0. unfold wl_run. destruct (wl acts bad f0 (rev roots) (mkW [] [])); [discriminate|contradiction|discriminate].
Qed.

Theorem wl_run_marks_terminates_ge roots : exists f0, forall f, f0 <= f -> wl_run acts bad f roots <> WFuel.
Proof.
  destruct (term_all (S (um (w_marks (mkW [] [])))) (mkW [] []) (Nat.lt_succ_diag_r _) (rev roots)) as (f0 & Hf).
  exists f0. intros f Hle. specialize (Hf f Hle). unfold wl_run.
  destruct (wl acts bad f (rev roots) (mkW [] [])); [discriminate|contradiction|discriminate].
Qed.
End TermMarks.

Print Assumptions wl_run_marks_terminates.

From SV Require Import IR.NS IR.Ops Proofs.FieldT Proofs.Inv1a Proofs.Inv2a Proofs.InvW Hier.Enum Hier.Trace Query.Filter Query.EnumSpec
  Proofs.QueryEnumBase Proofs.QueryEnumView.

(* take a membership in the statements of a dispatch apart *)
Lemma in_mark_lib {s rec d} {a : act qout} : In a (mark_lib_of s rec d) ->
  exists l, par s RDefs d = Some l /\ a = AMark l [OOth l] (if rec then [IE l] else []).
Proof.
  unfold mark_lib_of. destruct (par s RDefs d) as [l|]; [|intros []]. intros [<-|[]]. exists l. split; reflexivity.
Qed.

Lemma in_search_wire {s x ow} {a : act qout} : In a (search_wire s x ow) ->
  exists w os ys, ow = Some w /\ a = AMark w os ys.
Proof.
  unfold search_wire. destruct ow as [w|]; [|intros []]. intros [<-|[]]. eexists _, _, _. split; reflexivity.
Qed.

Ltac dec H :=
  lazymatch type of H with
  | In _ (_ ++ _) => apply in_app_or in H as [H|H]; dec H
  | In _ (flat_map _ _) =>
      let z := fresh "z" in let Hz := fresh "Hz" in apply in_flat_map in H as (z & Hz & H); dec H
  | In _ (push_ids _) =>
      let z := fresh "z" in let Hz := fresh "Hz" in apply in_push_ids in H as (z & Hz & H); try discriminate H
  | In _ (push_opt _) =>
      let z := fresh "z" in let Hz := fresh "Hz" in apply in_push_opt in H as (z & Hz & H); try discriminate H
  | In _ (oth_ids _) =>
      let z := fresh "z" in let Hz := fresh "Hz" in apply in_oth_ids in H as (z & Hz & H); try discriminate H
  | In _ (mark_lib_of _ _ _) =>
      let z := fresh "z" in let Hz := fresh "Hz" in apply in_mark_lib in H as (z & Hz & H); try discriminate H
  | In _ (search_wire _ _ _) =>
      let z := fresh "z" in let os := fresh "os" in let ys := fresh "ys" in let Hz := fresh "Hz" in
      apply in_search_wire in H as (z & os & ys & Hz & H); try discriminate H
  | In _ (push_pins _) =>
      let z := fresh "z" in let Hz := fresh "Hz" in apply in_map_iff in H as (z & H & Hz); try discriminate H
  | In _ (map _ _) =>
      let z := fresh "z" in let Hz := fresh "Hz" in apply in_map_iff in H as (z & H & Hz); try discriminate H
  | In _ [] => destruct H
  | In _ (_ :: _) => destruct H as [H|H]; [try discriminate H|dec H]
  | In _ (match ?o with _ => _ end) =>
      let E := fresh "E" in let v := fresh "v" in
      remember o as v eqn:E in H; symmetry in E; destruct v; dec H
  | _ => idtac
  end.

Section Hier2.
Variable s : state.
Hypothesis W : QWF s.
Hypothesis HA : acyclic s.

Definition ids_of : list id := seq 0 (next s).

Lemma in_ids_of k x : kind_of s x = Some k -> In x ids_of.
Proof. intro H. apply in_seq. split; [lia|]. cbn. apply (q_alloc s W x k H). Qed.

Lemma acc_no_push {T} (acts : item -> list (act T)) x :
  (forall y, ~ In (APush y) (acts x)) -> Acc (psteps_to acts) x.
Proof. intro H. constructor. intros y Hy. destruct (H y Hy). Qed.

(* ---- get_libraries ---- *)
Section LibsTerm.
Variables rec inside : bool.
Notation A := (acts_libraries s rec inside).

Lemma lt_marks x c os ys : In (AMark c os ys) (A x) -> In c ids_of.
Proof.
  intro H. destruct x as [e|n i| |h]; cbn [acts_libraries] in H.
  - destruct (kind_of s e) as [[]|]; dec H;
      injection H as <- _ _;
      match goal with Hp : par s RDefs _ = Some ?l |- In ?l _ => apply (in_ids_of KLibrary), (par_parent_kind s W RDefs _ _ Hp) end.
  - dec H.
  - dec H.
  - dec H.
Qed.

Lemma lt_inst_in x : inside = true -> kind_of s x = Some KInstance -> Acc (psteps_to A) (IE x).
Proof.
  intro Hi. pose proof (acc_inst_down s W HA x) as H. induction H as [x _ IH]. intro Hk. constructor. intros y Hy.
  unfold psteps_to in Hy. cbn [acts_libraries] in Hy. rewrite Hk, Hi in Hy. dec Hy. injection Hy as Hy; subst y.
  apply IH; [exists i; split; [assumption|apply (kids_par s W); assumption]|eapply (kid_kind s W RChildren); eassumption].
Qed.

Lemma lt_def_out d : inside = false -> kind_of s d = Some KDefinition -> Acc (psteps_to A) (IE d).
Proof.
  intro Hi. pose proof (acc_def_up s W HA d) as H. induction H as [d _ IH]. intro Hk. constructor. intros y Hy.
  unfold psteps_to in Hy. cbn [acts_libraries] in Hy. rewrite Hk, Hi in Hy. dec Hy. injection Hy as Hy; subst y.
  apply IH; [exists z; split; [assumption|apply (drefs_iref s W); assumption]|eapply (par_parent_kind s W RChildren); eassumption].
Qed.

Lemma lt_def d : kind_of s d = Some KDefinition -> Acc (psteps_to A) (IE d).
Proof.
  intro Hk. destruct (bool_cases inside) as [Hi|Hi]; [|apply lt_def_out; assumption].
  constructor. intros y Hy. unfold psteps_to in Hy. cbn [acts_libraries] in Hy. rewrite Hk, Hi in Hy. dec Hy. injection Hy as Hy; subst y.
  apply lt_inst_in; [exact Hi|eapply (kid_kind s W RChildren); eassumption].
Qed.

Lemma lt_inst x : kind_of s x = Some KInstance -> Acc (psteps_to A) (IE x).
Proof.
  intro Hk. destruct (bool_cases inside) as [Hi|Hi]; [apply lt_inst_in; assumption|].
  constructor. intros y Hy. unfold psteps_to in Hy. cbn [acts_libraries] in Hy. rewrite Hk, Hi in Hy. dec Hy. injection Hy as Hy; subst y.
  apply lt_def. eapply (par_parent_kind s W RChildren); eassumption.
Qed.

Lemma lt_elem x : Acc (psteps_to A) (IE x).
Proof.
  assert (Hport : forall p, kind_of s p = Some KPort -> Acc (psteps_to A) (IE p)).
  { intros p Hk. constructor. intros y Hy. unfold psteps_to in Hy. cbn [acts_libraries] in Hy. rewrite Hk in Hy. dec Hy. injection Hy as Hy; subst y.
    apply lt_def. eapply (par_parent_kind s W RPorts); eassumption. }
  assert (Hcable : forall p, kind_of s p = Some KCable -> Acc (psteps_to A) (IE p)).
  { intros p Hk. constructor. intros y Hy. unfold psteps_to in Hy. cbn [acts_libraries] in Hy. rewrite Hk in Hy. dec Hy. injection Hy as Hy; subst y.
    apply lt_def. eapply (par_parent_kind s W RCables); eassumption. }
  destruct (kind_of s x) as [[]|] eqn:Hk.
  - apply acc_no_push. intros y Hy. cbn [acts_libraries] in Hy. rewrite Hk in Hy. dec Hy.
  - apply acc_no_push. intros y Hy. cbn [acts_libraries] in Hy. rewrite Hk in Hy. dec Hy.
  - apply lt_def, Hk.
  - apply Hport, Hk.
  - apply Hcable, Hk.
  - constructor. intros y Hy. unfold psteps_to in Hy. cbn [acts_libraries] in Hy. rewrite Hk in Hy. dec Hy. injection Hy as Hy; subst y.
    apply Hcable. eapply (par_parent_kind s W RWires); eassumption.
  - constructor. intros y Hy. unfold psteps_to in Hy. cbn [acts_libraries] in Hy. rewrite Hk in Hy. dec Hy. injection Hy as Hy; subst y.
    apply Hport. eapply (par_parent_kind s W RPins); eassumption.
  - apply lt_inst, Hk.
  - apply acc_no_push. intros y Hy. cbn [acts_libraries] in Hy. rewrite Hk in Hy. dec Hy.
Qed.

Lemma lt_item y : Acc (psteps_to A) y.
Proof.
  destruct y as [x|n i| |h].
  - apply lt_elem.
  - constructor. intros y Hy. unfold psteps_to in Hy. cbn [acts_libraries] in Hy. dec Hy. injection Hy as Hy; subst y. apply lt_elem.
  - apply acc_no_push. intros y Hy. cbn [acts_libraries] in Hy. dec Hy.
  - constructor. intros y Hy. unfold psteps_to in Hy. cbn [acts_libraries] in Hy. dec Hy. injection Hy as Hy; subst y. apply lt_elem.
Qed.

Theorem libraries_terminates roots : exists fuel, cands_libraries s fuel roots rec inside <> WFuel.
Proof.
  unfold cands_libraries. destruct (wl_run_marks_terminates A no_bad ids_of lt_marks lt_item roots) as (fuel & H).
  exists fuel. destruct (wl_run A no_bad fuel roots); [discriminate|contradiction|discriminate].
Qed.
End LibsTerm.

(* ---- get_cables, every selection ---- *)
Lemma wire_alloc p w : pin_wire s p = Some w -> In w ids_of.
Proof.
  intro H. apply (in_ids_of KWire). apply (ft_p _ (q_ft _ W)). apply (wpins_pin_wire s W) in H. intro E. rewrite E in H. destruct H.
Qed.

Section CablesTerm.
Variable rec : bool.
Variable x : sel.
Notation A := (acts_cables s rec x).

Lemma ct_marks it c os ys : In (AMark c os ys) (A it) -> In c ids_of.
Proof.
  intro H. destruct it as [e|n i| |h]; cbn [acts_cables] in H.
  - destruct (kind_of s e) as [[]|]; dec H; injection H as <- _ _;
      match goal with
      | Hp : ipwire s ?i = Some ?w |- In ?w _ => apply (wire_alloc (PIn i) w Hp)
      | Hp : pin_wire s ?p = Some ?w |- In ?w _ => apply (wire_alloc p w Hp)
      end.
  - dec H; injection H as <- _ _;
      match goal with
      | Hp : ipwire s ?i = Some ?w |- In ?w _ => apply (wire_alloc (PIn i) w Hp)
      | Hp : pin_wire s ?p = Some ?w |- In ?w _ => apply (wire_alloc p w Hp)
      end.
  - dec H.
  - dec H.
Qed.

Lemma ct_pin i : kind_of s i = Some KPin -> Acc (psteps_to A) (IE i).
Proof. intro Hk. apply acc_no_push. intros y Hy. cbn [acts_cables] in Hy. rewrite Hk in Hy. dec Hy. Qed.

Lemma ct_of_pin w p : In p (wpins s w) -> Acc (psteps_to A) (item_of_pin p).
Proof.
  intro H. apply (wpins_pin_wire s W) in H. destruct (on_wire_kind s W w p H) as (i & Hi & Hk).
  destruct p as [j|n j|]; cbn [item_of_pin].
  - cbn in Hi. injection Hi as ->. apply ct_pin, Hk.
  - apply acc_no_push. intros y Hy. cbn [acts_cables] in Hy. dec Hy.
  - apply acc_no_push. intros y Hy. cbn [acts_cables] in Hy. dec Hy.
Qed.

Lemma ct_wire w : kind_of s w = Some KWire -> Acc (psteps_to A) (IE w).
Proof.
  intro Hk. constructor. intros y Hy. unfold psteps_to in Hy. cbn [acts_cables] in Hy. rewrite Hk in Hy. dec Hy;
    injection Hy as Hy; subst y;
    match goal with
    | Hz : In ?z (wpins s _) |- Acc _ (item_of_pin ?z) => apply (ct_of_pin _ _ Hz)
    | Hz : In ?z (wpins s _), E : ?z = PIn ?i |- Acc _ (IE ?i) => subst z; apply (ct_of_pin _ _ Hz)
    end.
Qed.

Lemma ct_cable c : kind_of s c = Some KCable -> Acc (psteps_to A) (IE c).
Proof.
  intro Hk. constructor. intros y Hy. unfold psteps_to in Hy. cbn [acts_cables] in Hy. rewrite Hk in Hy. dec Hy;
    injection Hy as Hy; subst y; apply ct_wire; eapply (kid_kind s W RWires); eassumption.
Qed.

Lemma ct_port p : kind_of s p = Some KPort -> Acc (psteps_to A) (IE p).
Proof.
  intro Hk. constructor. intros y Hy. unfold psteps_to in Hy. cbn [acts_cables] in Hy. rewrite Hk in Hy. dec Hy.
  injection Hy as Hy; subst y. apply ct_pin. eapply (kid_kind s W RPins); eassumption.
Qed.

Lemma ct_opin n it : In it (opins s n) -> Acc (psteps_to A) it.
Proof.
  intro H. unfold opins in H. apply in_map_iff in H as (kv & <- & _).
  apply acc_no_push. intros y Hy. cbn [acts_cables] in Hy. dec Hy.
Qed.

Lemma ct_inst e : kind_of s e = Some KInstance -> Acc (psteps_to A) (IE e).
Proof.
  pose proof (acc_inst_down s W HA e) as H. induction H as [e _ IH]. intro Hk. constructor. intros y Hy.
  unfold psteps_to in Hy. cbn [acts_cables] in Hy. rewrite Hk in Hy. dec Hy.
  - injection Hy as Hy; subst y.
    apply IH; [exists i; split; [assumption|apply (kids_par s W); assumption]|eapply (kid_kind s W RChildren); eassumption].
  - injection Hy as Hy; subst y. eapply ct_opin; eassumption.
Qed.

Lemma ct_def d : kind_of s d = Some KDefinition -> Acc (psteps_to A) (IE d).
Proof.
  intro Hk. constructor. intros y Hy. unfold psteps_to in Hy. cbn [acts_cables] in Hy. rewrite Hk in Hy. dec Hy.
  - injection Hy as Hy; subst y. apply ct_inst. eapply (kid_kind s W RChildren); eassumption.
  - injection Hy as Hy; subst y. apply ct_pin. eapply (kid_kind s W RPins); eassumption.
Qed.

Lemma ct_elem e : Acc (psteps_to A) (IE e).
Proof.
  destruct (kind_of s e) as [[]|] eqn:Hk.
  - constructor. intros y Hy. unfold psteps_to in Hy. cbn [acts_cables] in Hy. rewrite Hk in Hy. dec Hy.
    injection Hy as Hy; subst y. apply ct_def. eapply (kid_kind s W RDefs); eassumption.
  - constructor. intros y Hy. unfold psteps_to in Hy. cbn [acts_cables] in Hy. rewrite Hk in Hy. dec Hy.
    injection Hy as Hy; subst y. apply ct_def. eapply (kid_kind s W RDefs); eassumption.
  - apply ct_def, Hk.
  - apply ct_port, Hk.
  - apply ct_cable, Hk.
  - apply ct_wire, Hk.
  - apply ct_pin, Hk.
  - apply ct_inst, Hk.
  - apply acc_no_push. intros y Hy. cbn [acts_cables] in Hy. rewrite Hk in Hy. dec Hy.
Qed.

Lemma ct_item y : Acc (psteps_to A) y.
Proof.
  destruct y as [e|n i| |h].
  - apply ct_elem.
  - apply acc_no_push. intros y Hy. cbn [acts_cables] in Hy. dec Hy.
  - apply acc_no_push. intros y Hy. cbn [acts_cables] in Hy. dec Hy.
  - constructor. intros y Hy. unfold psteps_to in Hy. cbn [acts_cables] in Hy. dec Hy. injection Hy as Hy; subst y. apply ct_elem.
Qed.

Theorem cables_terminates roots : exists fuel, cands_cables s fuel roots rec x <> WFuel.
Proof.
  unfold cands_cables. destruct (wl_run_marks_terminates A (bad_cables s x) ids_of ct_marks ct_item roots) as (fuel & H).
  exists fuel. destruct (wl_run A (bad_cables s x) fuel roots); [discriminate|contradiction|discriminate].
Qed.
End CablesTerm.

(* ---- get_wires, first loop ---- *)
Section WiresTerm.
Variable rec : bool.
Variable x : sel.
Notation A := (acts_wires s rec x).

Lemma wt_marks it c os ys : In (AMark c os ys) (A it) -> In c ids_of.
Proof.
  intro H. destruct it as [e|n i| |h]; cbn [acts_wires] in H.
  - destruct (kind_of s e) as [[]|]; dec H.
  - dec H.
  - dec H.
  - dec H.
Qed.

Lemma wt_no_marks : no_marks A.
Proof.
  intros it c os ys H. destruct it as [e|n i| |h]; cbn [acts_wires] in H.
  - destruct (kind_of s e) as [[]|]; dec H.
  - dec H.
  - dec H.
  - dec H.
Qed.

Lemma wt_def d : kind_of s d = Some KDefinition -> Acc (psteps_to A) (IE d).
Proof.
  pose proof (acc_def_down s W HA d) as H. induction H as [d _ IH]. intro Hk. constructor. intros y Hy.
  unfold psteps_to in Hy. cbn [acts_wires] in Hy. rewrite Hk in Hy. dec Hy. injection Hy as Hy; subst y.
  pose proof (kid_kind s W RChildren _ _ Hz) as Hkz. cbn [rel_child] in Hkz.
  constructor. intros y Hy. unfold psteps_to in Hy. cbn [acts_wires] in Hy. rewrite Hkz in Hy. dec Hy. injection Hy as Hy; subst y.
  apply IH; [exists z; split; [apply (kids_par s W); assumption|assumption]|eapply (iref_def_kind s W); eassumption].
Qed.

Lemma wt_elem e : Acc (psteps_to A) (IE e).
Proof.
  assert (Hwire : forall w, kind_of s w = Some KWire -> Acc (psteps_to A) (IE w)).
  { intros w Hk. apply acc_no_push. intros y Hy. cbn [acts_wires] in Hy. rewrite Hk in Hy. dec Hy. }
  assert (Hlib : forall l, kind_of s l = Some KLibrary -> Acc (psteps_to A) (IE l)).
  { intros l Hk. constructor. intros y Hy. unfold psteps_to in Hy. cbn [acts_wires] in Hy. rewrite Hk in Hy. dec Hy.
    injection Hy as Hy; subst y. apply wt_def. eapply (kid_kind s W RDefs); eassumption. }
  destruct (kind_of s e) as [[]|] eqn:Hk.
  - constructor. intros y Hy. unfold psteps_to in Hy. cbn [acts_wires] in Hy. rewrite Hk in Hy. dec Hy.
    injection Hy as Hy; subst y. apply Hlib. eapply (kid_kind s W RLibs); eassumption.
  - apply Hlib, Hk.
  - apply wt_def, Hk.
  - apply acc_no_push. intros y Hy. cbn [acts_wires] in Hy. rewrite Hk in Hy. dec Hy.
  - constructor. intros y Hy. unfold psteps_to in Hy. cbn [acts_wires] in Hy. rewrite Hk in Hy. dec Hy.
    injection Hy as Hy; subst y. apply Hwire. eapply (kid_kind s W RWires); eassumption.
  - apply Hwire, Hk.
  - apply acc_no_push. intros y Hy. cbn [acts_wires] in Hy. rewrite Hk in Hy. dec Hy.
  - constructor. intros y Hy. unfold psteps_to in Hy. cbn [acts_wires] in Hy. rewrite Hk in Hy. dec Hy.
    injection Hy as Hy; subst y. apply wt_def. eapply (iref_def_kind s W); eassumption.
  - apply acc_no_push. intros y Hy. cbn [acts_wires] in Hy. rewrite Hk in Hy. dec Hy.
Qed.

Lemma wt_item y : Acc (psteps_to A) y.
Proof.
  destruct y as [e|n i| |h].
  - apply wt_elem.
  - apply acc_no_push. intros y Hy. cbn [acts_wires] in Hy. dec Hy.
  - apply acc_no_push. intros y Hy. cbn [acts_wires] in Hy. dec Hy.
  - constructor. intros y Hy. unfold psteps_to in Hy. cbn [acts_wires] in Hy. dec Hy. injection Hy as Hy; subst y. apply wt_elem.
Qed.

Theorem wires_first_terminates roots : exists fuel, wl_run A (bad_wires s x) fuel roots <> WFuel.
Proof. apply (wl_run_marks_terminates A (bad_wires s x) ids_of wt_marks wt_item roots). Qed.
End WiresTerm.

(* ---- get_wires, second loop and whole function ---- *)
Section WiresRounds.
Variable x : sel.
Notation U := ids_of.

Lemma in_opt_wire o w : In w (opt_wire o) -> o = Some w.
Proof. destruct o as [v|]; [intros [<-|[]]; reflexivity|intros []]. Qed.

Lemma outer_wires_alloc refs i w : In w (outer_wires s refs i) -> In w U.
Proof.
  unfold outer_wires. intro H. apply in_flat_map in H as (n & _ & H). apply in_opt_wire in H. apply (wire_alloc _ _ H).
Qed.

Lemma pin_cands_alloc p w : In w (pin_cands s x p) -> In w U.
Proof.
  assert (Ho : forall q, In w (opt_wire (pin_wire s q)) -> In w U).
  { intros q H. apply in_opt_wire in H. apply (wire_alloc _ _ H). }
  assert (Hi : forall i, In w (opt_wire (ipwire s i)) -> In w U) by (intro i; apply (Ho (PIn i))).
  unfold pin_cands. destruct x, p; intro H; try (apply in_app_or in H as [H|H]);
    first [ destruct H | eapply Ho; exact H | eapply Hi; exact H | eapply outer_wires_alloc; exact H ].
Qed.

Lemma um_le c M : um U (c :: M) <= um U M.
Proof. apply (proj1 (um_gen U c M)). Qed.

Lemma um_le_len (V M : list id) : length (filter (fun c => negb (memb c M)) V) <= length V.
Proof. induction V as [|v V IH]; [apply le_n|]. cbn [filter]. destruct (negb (memb v M)); cbn [length]; lia. Qed.

Lemma look_um ws : forall iny ys news iny' ys' news',
  (forall w, In w ws -> In w U) ->
  look s x ws (iny, ys, news) = (iny', ys', news') ->
  um U iny' <= um U iny /\ (news' = news \/ um U iny' < um U iny).
Proof.
  induction ws as [|w ws IH]; intros iny ys news iny' ys' news' HU H; cbn [look] in H.
  - injection H as <- <- <-. split; [apply le_n|left; reflexivity].
  - destruct (memb w iny) eqn:Em.
    + apply IH in H; [exact H|intros v Hv; apply HU; right; exact Hv].
    + apply IH in H as [H1 _]; [|intros v Hv; apply HU; right; exact Hv].
      pose proof (um_lt U w iny (HU w (or_introl eq_refl)) Em). split; [lia|right; lia].
Qed.

Lemma fold_look_um pins : forall iny ys news iny' ys' news',
  fold_left (fun st p => look s x (pin_cands s x p) st) pins (iny, ys, news) = (iny', ys', news') ->
  um U iny' <= um U iny /\ (news' = news \/ um U iny' < um U iny).
Proof.
  induction pins as [|p pins IH]; intros iny ys news iny' ys' news' H; cbn [fold_left] in H.
  - injection H as <- <- <-. split; [apply le_n|left; reflexivity].
  - destruct (look s x (pin_cands s x p) (iny, ys, news)) as [[iny1 ys1] news1] eqn:El.
    apply look_um in El as [A1 A2]; [|intros w Hw; eapply pin_cands_alloc; exact Hw].
    apply IH in H as [B1 B2]. split; [lia|]. destruct A2 as [->|A2]; [|right; lia]. destruct B2 as [->|B2]; [left; reflexivity|right; lia].
Qed.

Lemma rounds_terminates f : forall pins iny ys, um U iny < f -> rounds s x f pins iny ys <> WFuel.
Proof.
  induction f as [|f IH]; intros pins iny ys Hlt; [lia|].
  destruct pins as [|p pins]; [discriminate|]. cbn [rounds].
  destruct (existsb (bad_search s x) (p :: pins)); [discriminate|].
  destruct (fold_left (fun st p0 => look s x (pin_cands s x p0) st) (p :: pins) (iny, ys, [])) as [[iny' ys'] news] eqn:Ef.
  apply fold_look_um in Ef as [_ [->|Hs]].
  - cbn [dedup_pins_acc]. destruct f; discriminate.
  - apply IH. lia.
Qed.

Theorem wires_terminates cb rec roots : exists fuel, query_wires s cb fuel roots rec x <> WFuel.
Proof.
  destruct (wl_run_marks_terminates_ge (acts_wires s rec x) (bad_wires s x) U (wt_marks rec x) (wt_item rec x) roots) as (f0 & Hf).
  exists (f0 + S (length U)). unfold query_wires. specialize (Hf (f0 + S (length U)) (Nat.le_add_r _ _)).
  destruct (wl_run (acts_wires s rec x) (bad_wires s x) (f0 + S (length U)) roots) as [l| |]; [|contradiction|discriminate].
  assert (Hr : rounds s x (f0 + S (length U)) (dedup_pins_acc [] (searched l)) (Query.Enum.dedup (yielded l)) [] <> WFuel).
  { apply rounds_terminates. pose proof (um_le_len U (Query.Enum.dedup (yielded l))). unfold um. lia. }
  cbv zeta. destruct (rounds s x (f0 + S (length U)) (dedup_pins_acc [] (searched l)) (Query.Enum.dedup (yielded l)) []); cbn [wmap];
    [discriminate|contradiction|discriminate].
Qed.
End WiresRounds.
End Hier2.

Print Assumptions libraries_terminates.
Print Assumptions cables_terminates.
Print Assumptions wires_first_terminates.
Print Assumptions wires_terminates.
