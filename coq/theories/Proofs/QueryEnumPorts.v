(* get_ports: the candidates enumerated by the loop of Query/Enum.v are exactly the elements named by
   the declarative specification Query/EnumSpec.v, for every kind of root (cands_ports_spec). *)
From Coq Require Import List Arith Bool Lia Relations.
From SV Require Import Base.Base IR.State IR.NS IR.Ops Proofs.Inv1a Proofs.Inv2a Proofs.InvW
  Hier.Paths Hier.Enum Hier.Trace Proofs.KindD Query.Filter Query.Enum Query.EnumSpec
  Proofs.QueryEnumWL Proofs.QueryEnumBase Proofs.QueryEnumView.
Import ListNotations.

Lemma succ_push_pins {T} l : flat_map (@succ_of T) (push_pins l) = map item_of_pin l.
Proof. induction l as [|x l IH]; cbn; [reflexivity|f_equal; exact IH]. Qed.
Lemma emit_push_pins {T} l : flat_map (@emit_of T) (push_pins l) = [].
Proof. induction l as [|x l IH]; cbn; [reflexivity|exact IH]. Qed.
Lemma plain_push_pins {T} l : Forall (@plain T) (push_pins l).
Proof. apply Forall_forall. intros a H. apply in_map_iff in H as (x & <- & _). exact I. Qed.

Lemma plain_ports s x : Forall plain (acts_ports s x).
Proof.
  destruct x as [x|n i| |h]; cbn [acts_ports].
  - destruct (kind_of s x) as [[]|]; try apply plain_push_ids; try apply plain_push_opt; try apply plain_push_pins;
      try (repeat constructor; fail).
    + apply plain_flat_map. intro l. apply plain_push_ids.
    + destruct (par s RPins x); repeat constructor.
  - repeat constructor.
  - constructor.
  - apply plain_push_opt.
Qed.

Section Ports.
Variable s : state.
Hypothesis W : QWF s.
Notation A := (acts_ports s).
Notation Em := (Emits A).

Lemma p_view x :
  match kind_of s x with
  | Some KDefinition => emits A (IE x) = [OPar x] /\ succs A (IE x) = []
  | Some KLibrary => emits A (IE x) = [] /\ succs A (IE x) = map IE (kids s RDefs x)
  | Some KNetlist => emits A (IE x) = [] /\ succs A (IE x) = map IE (flat_map (fun l => kids s RDefs l) (kids s RLibs x))
  | Some KInstance => emits A (IE x) = [] /\ succs A (IE x) = match iref s x with Some r => [IE r] | None => [] end
  | Some KPort => emits A (IE x) = [OOth x] /\ succs A (IE x) = []
  | Some KPin => emits A (IE x) = match par s RPins x with Some p => [OOth p] | None => [] end /\ succs A (IE x) = []
  | Some KWire => emits A (IE x) = [] /\ succs A (IE x) = map item_of_pin (wpins s x)
  | Some KCable => emits A (IE x) = [] /\ succs A (IE x) = map IE (kids s RWires x)
  | None => emits A (IE x) = [] /\ succs A (IE x) = []
  end.
Proof.
  unfold emits, succs. cbn [acts_ports]. destruct (kind_of s x) as [[]|]; cbn [flat_map app emit_of succ_of];
    rewrite ?emit_push_ids, ?succ_push_ids, ?emit_push_opt, ?succ_push_opt, ?emit_push_pins, ?succ_push_pins;
    try (split; reflexivity).
  - destruct (net_defs_shape (T := qout) s x) as [E1 E2]. rewrite E1, E2. split; reflexivity.
  - destruct (par s RPins x); split; reflexivity.
Qed.

Lemma p_def d o : kind_of s d = Some KDefinition -> (Em (IE d) o <-> o = OPar d).
Proof.
  intro Hk. pose proof (p_view d) as V. rewrite Hk in V. destruct V as [E1 E2].
  rewrite (emits_leaf A _ _ E2), E1. cbn. split; [intros [<-|[]]; reflexivity|intros ->; left; reflexivity].
Qed.

Lemma p_scope x o :
  kind_of s x = Some KDefinition \/ kind_of s x = Some KLibrary \/ kind_of s x = Some KNetlist ->
  (Em (IE x) o <-> exists d, scope_defs s x d /\ o = OPar d).
Proof.
  intro Hk. rewrite (scope_through s W A) by
    (try exact Hk; intros y Hy; pose proof (p_view y) as V; rewrite Hy in V; exact V).
  split; intros (d & Hd & H); exists d; (split; [exact Hd|]); apply (p_def d o (scope_kind s W x d Hd)); exact H.
Qed.

Lemma p_inst x o : kind_of s x = Some KInstance -> (Em (IE x) o <-> exists d, iref s x = Some d /\ o = OPar d).
Proof.
  intro Hk. pose proof (p_view x) as V. rewrite Hk in V. destruct V as [E1 E2].
  rewrite (emits_through A _ _ E1), E2. destruct (iref s x) as [r|] eqn:Er.
  - split.
    + intros (y & [<-|[]] & H). apply (p_def r o (iref_def_kind s W _ _ Er)) in H. exists r. auto.
    + intros (d & E & ->). injection E as <-. exists (IE r). split; [left; reflexivity|]. apply (p_def r _ (iref_def_kind s W _ _ Er)). reflexivity.
  - split; [intros (y & [] & _)|intros (d & E & _); discriminate].
Qed.

Lemma p_port x o : kind_of s x = Some KPort -> (Em (IE x) o <-> o = OOth x).
Proof.
  intro Hk. pose proof (p_view x) as V. rewrite Hk in V. destruct V as [E1 E2].
  rewrite (emits_leaf A _ _ E2), E1. cbn. split; [intros [<-|[]]; reflexivity|intros ->; left; reflexivity].
Qed.

Lemma p_pin x o : kind_of s x = Some KPin -> (Em (IE x) o <-> exists p, par s RPins x = Some p /\ o = OOth p).
Proof.
  intro Hk. pose proof (p_view x) as V. rewrite Hk in V. destruct V as [E1 E2].
  rewrite (emits_leaf A _ _ E2), E1. destruct (par s RPins x) as [p|]; cbn.
  - split; [intros [<-|[]]; exists p; auto|intros (p' & E & ->); injection E as <-; left; reflexivity].
  - split; [intros []|intros (p' & E & _); discriminate].
Qed.

Lemma p_opin n i o : Em (IO n i) o <-> Em (IE i) o.
Proof.
  rewrite (emits_through A (IO n i) o eq_refl). cbn.
  split; [intros (y & [<-|[]] & H); exact H|intro H; exists (IE i); split; [left; reflexivity|exact H]].
Qed.

Lemma p_wire x o : kind_of s x = Some KWire ->
  (Em (IE x) o <-> exists i p, on_wire s x i /\ par s RPins i = Some p /\ o = OOth p).
Proof.
  intro Hk. pose proof (p_view x) as V. rewrite Hk in V. destruct V as [E1 E2].
  rewrite (emits_through A _ _ E1), E2. split.
  - intros (y & Hy & H). apply in_map_iff in Hy as (q & <- & Hq). apply (wpins_pin_wire s W) in Hq.
    destruct (on_wire_kind s W x q Hq) as (i & Hi & Hki).
    assert (H' : Em (IE i) o).
    { destruct q as [j|n j|]; cbn in Hi; try discriminate; injection Hi as <-; cbn [item_of_pin] in H; [exact H|apply p_opin in H; exact H]. }
    apply (p_pin i o Hki) in H' as (p & Hp & ->). exists i, p. split; [exists q; auto|auto].
  - intros (i & p & (q & Hq & Hi) & Hp & ->). exists (item_of_pin q). split; [apply in_map, (wpins_pin_wire s W); exact Hq|].
    destruct (on_wire_kind s W x q Hq) as (i' & Hi' & Hki). rewrite Hi in Hi'. injection Hi' as <-.
    assert (H' : Em (IE i) (OOth p)) by (apply (p_pin i _ Hki); exists p; auto).
    destruct q as [j|n j|]; cbn in Hi; try discriminate; injection Hi as <-; cbn [item_of_pin]; [exact H'|apply p_opin; exact H'].
Qed.

Lemma p_cable x o : kind_of s x = Some KCable ->
  (Em (IE x) o <-> exists w i p, par s RWires w = Some x /\ on_wire s w i /\ par s RPins i = Some p /\ o = OOth p).
Proof.
  intro Hk. pose proof (p_view x) as V. rewrite Hk in V. destruct V as [E1 E2].
  rewrite (emits_through A _ _ E1), E2. split.
  - intros (y & Hy & H). apply in_map_iff in Hy as (w & <- & Hw).
    apply (p_wire w o (kid_kind s W _ _ _ Hw)) in H as (i & p & Hi & Hp & ->). exists w, i, p.
    split; [apply (kids_par s W); exact Hw|auto].
  - intros (w & i & p & Hw & Hi & Hp & ->). apply (kids_par s W) in Hw. exists (IE w). split; [apply in_map; exact Hw|].
    apply (p_wire w _ (kid_kind s W _ _ _ Hw)). exists i, p. auto.
Qed.

Lemma p_none x o : kind_of s x = None -> ~ Em (IE x) o.
Proof.
  intros Hk H. pose proof (p_view x) as V. rewrite Hk in V. destruct V as [E1 E2].
  apply (emits_leaf A _ _ E2) in H. rewrite E1 in H. destruct H.
Qed.

Lemma p_elem_A x p : Em (IE x) (OPar p) <-> (scope_defs s x p \/ iref s x = Some p).
Proof.
  destruct (kind_of s x) as [[]|] eqn:Hk.
  1-3: rewrite p_scope by tauto; split;
    [ intros (d & Hd & E); injection E as <-; left; exact Hd
    | intros [Hd|Hr]; [exists p; auto|apply (iref_kind s W) in Hr; congruence] ].
  all: assert (Hns : ~ scope_defs s x p) by (unfold scope_defs; rewrite Hk; tauto).
  - rewrite (p_port x _ Hk). split; [discriminate|]. intros [Hd|Hr]; [contradiction|apply (iref_kind s W) in Hr; congruence].
  - rewrite (p_cable x _ Hk). split; [intros (w & i & q & _ & _ & _ & E); discriminate|].
    intros [Hd|Hr]; [contradiction|apply (iref_kind s W) in Hr; congruence].
  - rewrite (p_wire x _ Hk). split; [intros (i & q & _ & _ & E); discriminate|].
    intros [Hd|Hr]; [contradiction|apply (iref_kind s W) in Hr; congruence].
  - rewrite (p_pin x _ Hk). split; [intros (q & _ & E); discriminate|].
    intros [Hd|Hr]; [contradiction|apply (iref_kind s W) in Hr; congruence].
  - rewrite (p_inst x _ Hk). split; [intros (d & Hd & E); injection E as <-; right; exact Hd|].
    intros [Hd|Hr]; [contradiction|exists p; auto].
  - split; [intro H; exfalso; apply (p_none x _ Hk H)|]. intros [Hd|Hr]; [contradiction|apply (iref_kind s W) in Hr; congruence].
Qed.

Lemma p_elem_B x e : Em (IE x) (OOth e) <-> portsB_elem s x e.
Proof.
  unfold portsB_elem. destruct (kind_of s x) as [[]|] eqn:Hk.
  1-3: rewrite p_scope by tauto; split; [intros (d & _ & E); discriminate|intros []].
  - rewrite (p_port x _ Hk). split; [intro E; injection E as ->; reflexivity|intros ->; reflexivity].
  - rewrite (p_cable x _ Hk). split.
    + intros (w & i & q & Hw & Hi & Hq & E). injection E as ->. exists w, i. auto.
    + intros (w & i & Hw & Hi & Hq). exists w, i, e. auto.
  - rewrite (p_wire x _ Hk). split.
    + intros (i & q & Hi & Hq & E). injection E as ->. exists i. auto.
    + intros (i & Hi & Hq). exists i, e. auto.
  - rewrite (p_pin x _ Hk). split; [intros (q & Hq & E); injection E as ->; exact Hq|intro H; exists e; auto].
  - rewrite (p_inst x _ Hk). split; [intros (d & _ & E); discriminate|intros []].
  - split; [intro H; apply (p_none x _ Hk H)|intros []].
Qed.

(* every kind of root: an outer pin continues with its inner pin, a valid reference with its item *)
Lemma p_root it o : Em it o <-> exists x, item_elem s it x /\ Em (IE x) o.
Proof.
  destruct it as [x|n i| |h]; cbn [item_elem].
  - split; [intro H; exists x; auto|intros (y & -> & H); exact H].
  - rewrite p_opin. split; [intro H; exists i; auto|intros (y & -> & H); exact H].
  - split; [|intros (y & [] & _)]. intro H. apply emits_iff in H. cbn in H. destruct H as [[]|(y & [] & _)].
  - rewrite (emits_through A (IH h) o) by (unfold emits; cbn [acts_ports]; apply emit_push_opt).
    unfold succs. cbn [acts_ports]. rewrite succ_push_opt. destruct (href_item s h) as [x|] eqn:Ex.
    + apply (href_item_iff s W) in Ex. split.
      * intros (y & [<-|[]] & H). exists x. auto.
      * intros (y & Hy & H). destruct Ex as [_ E]. destruct Hy as [_ E']. rewrite E in E'. injection E' as <-.
        exists (IE x). split; [left; reflexivity|exact H].
    + split; [intros (y & [] & _)|]. intros (y & Hy & _). apply (href_item_iff s W) in Hy. congruence.
Qed.

Theorem cands_ports_spec fuel it ps os :
  cands_ports s fuel [it] = WOk (ps, os) ->
  (forall e, (exists p, In p ps /\ In e (kids s RPorts p)) <-> reachA_ports s it e) /\
  (forall e, In e os <-> reachB_ports s it e) /\ NoDup os.
Proof.
  unfold cands_ports. intro H.
  destruct (wl_run A no_bad fuel [it]) as [l| |] eqn:E; try discriminate H. cbn in H. injection H as <- <-.
  pose proof (run_one A no_bad fuel it l (plain_ports s) E) as Hem.
  split; [|split]; [intro e|intro e|apply dedup_NoDup].
  - unfold reachA_ports, portsA_elem. split.
    + intros (p & Hp & He). apply in_pars, Hem, p_root in Hp as (x & Hx & Hp). apply p_elem_A in Hp.
      exists x. split; [exact Hx|]. exists p. split; [exact Hp|apply (kids_par s W); exact He].
    + intros (x & Hx & d & Hd & He). exists d. split; [|apply (kids_par s W); exact He].
      apply in_pars, Hem, p_root. exists x. split; [exact Hx|apply p_elem_A; exact Hd].
  - rewrite dedup_In, in_oths, Hem, p_root. unfold reachB_ports.
    split; intros (x & Hx & H); exists x; (split; [exact Hx|apply p_elem_B; exact H]).
Qed.
End Ports.
