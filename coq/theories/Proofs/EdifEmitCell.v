(* From the boolean class [writable] (Fmt/EdifEmit.v) to the hypotheses of the one-cell round trip
   (Proofs/EdifEmitNets.cell_roundtrip), then library and file assembly:
     cabs_wf            forallb cab_w + unique names / identifiers -> Proofs/EdifNetsProofs.wf_cell
     cabs_nets_good     ... -> every written net has a legal identifier, a printable name, no big index *)
From Coq Require Import List NArith ZArith Bool Arith String Lia Permutation.
From SV Require Import Base.Base Fmt.EdifLex Fmt.EdifName Fmt.EdifCable Fmt.EdifBus Fmt.EdifNets
  Fmt.EdifFile Fmt.EdifFileSpec Fmt.EdifEmit Proofs.EdifNameProofs Proofs.EdifBusProofs Proofs.EdifNetsProofs
  Proofs.EdifFileNets Proofs.EdifFileWf Proofs.EdifEmitLemmas Proofs.EdifEmitNets.
Import ListNotations.
Local Open Scope N_scope.

Lemma uniq_x_NoDup l : uniq_x l = true -> NoDup l.
Proof.
  induction l as [|a l IH]; intros H; [constructor|]. cbn in H. apply andb_true_iff in H as [Ha Hl].
  constructor; auto. intros Hin. apply negb_true_iff in Ha.
  assert (existsb (str_eqb a) l = true); [|congruence].
  apply existsb_exists. exists a. split; auto. apply str_eqb_refl.
Qed.

Lemma uniq_ci_NoDup l : uniq_ci l = true -> NoDup (map lower l).
Proof.
  induction l as [|a l IH]; intros H; [constructor|]. cbn in H. apply andb_true_iff in H as [Ha Hl].
  cbn [map]. constructor; auto. intros Hin. apply negb_true_iff in Ha. apply in_map_iff in Hin as (b & Hb & Hin).
  assert (existsb (ident_eqb a) l = true); [|congruence].
  apply existsb_exists. exists b. split; auto. unfold ident_eqb. rewrite Hb. apply str_eqb_refl.
Qed.

Lemma emit_from_in {P} ident name (ws : list (list P)) : forall idx nt, In nt (emit_from ident name idx ws) ->
  exists i w, nt = (bit_ident ident i, bit_name name i, w) /\ idx <= i /\ i < idx + N.of_nat (List.length ws).
Proof.
  induction ws as [|w ws IH]; intros idx nt H; [destruct H|].
  cbn [emit_from] in H. destruct H as [<-|H].
  - exists idx, w. split; auto. cbn [List.length]. lia.
  - destruct (IH _ _ H) as (i & w' & E & H1 & H2). exists i, w'. split; auto. cbn [List.length]. lia.
Qed.

Lemma text_ok_app a b : text_ok (a ++ b) = text_ok a && text_ok b.
Proof. unfold text_ok. apply forallb_app. Qed.

Lemma text_ok_dec i : text_ok (dec i) = true.
Proof.
  unfold text_ok. apply forallb_forall. intros c Hc. apply dec_no_special in Hc.
  unfold is_digit in Hc. apply andb_true_iff in Hc as [H1 H2]. apply N.leb_le in H1. apply N.leb_le in H2.
  apply orb_true_iff. right. apply andb_true_iff. split; apply N.leb_le; lia.
Qed.

Lemma text_ok_bit_name name i : text_ok name = true -> text_ok (bit_name name i) = true.
Proof.
  intros H. unfold bit_name. rewrite text_ok_app, H. cbn [andb].
  change (c_lbr :: dec i ++ [c_rbr]) with ([c_lbr] ++ dec i ++ [c_rbr]).
  rewrite !text_ok_app, text_ok_dec. reflexivity.
Qed.

Lemma cab_w_net e nt : cab_w e = true -> In nt (emit_cable (e_ident e) (e_name e) (e_cab e)) ->
  ident_w (fst (fst nt)) = true /\ text_ok (snd (fst nt)) = true /\ big_index (fst (fst nt)) (snd (fst nt)) = false.
Proof.
  unfold cab_w. intros H Hin.
  apply andb_true_iff in H as [H Hk]. apply andb_true_iff in H as [H Hids]. apply andb_true_iff in H as [Ht Hne].
  rewrite forallb_forall in Hids. split; [exact (Hids nt Hin)|].
  assert (Hfrom : forall ws, In nt (emit_from (e_ident e) (e_name e) (c_lower (e_cab e)) ws) ->
            is_busb (e_cab e) = true -> (List.length ws <= List.length (c_wires (e_cab e)))%nat ->
            text_ok (snd (fst nt)) = true /\ big_index (fst (fst nt)) (snd (fst nt)) = false).
  { intros ws Hi Hb Hlen. rewrite Hb in Hk. rename Hk into Hmax. apply N.leb_le in Hmax.
    destruct (emit_from_in _ _ _ _ _ Hi) as (i & w & -> & H1 & H2). cbn [fst snd]. split.
    - now apply text_ok_bit_name.
    - unfold big_index. rewrite bitname_inverse.
      apply N.ltb_ge. unfold max_bits. change (Z.to_N 65536) with 65536. lia. }
  unfold emit_cable in Hin. destruct (c_wires (e_cab e)) as [|w [|w' ws]] eqn:Ew.
  - destruct Hin.
  - destruct (c_array (e_cab e)) eqn:Ea.
    + apply (Hfrom [w]); auto. unfold is_busb. now rewrite Ea.
    + destruct Hin as [<-|[]]. cbn [fst snd]. split; auto.
      assert (Hb : is_busb (e_cab e) = false) by (unfold is_busb; rewrite Ea, Ew; reflexivity).
      rewrite Hb in Hk. apply andb_true_iff in Hk as [_ Hnb]. unfold big_index.
      destruct (net_bit (e_ident e) (e_name e)) as [[[[i|] a] b]|]; try discriminate. reflexivity.
  - apply (Hfrom (w :: w' :: ws)); auto. unfold is_busb. rewrite Ew. cbn. now rewrite orb_true_r.
Qed.

Lemma cab_w_entry e : cab_w e = true -> scalar_entry e \/ bus_entry e.
Proof.
  unfold cab_w. intros H.
  apply andb_true_iff in H as [H Hk]. apply andb_true_iff in H as [H _]. apply andb_true_iff in H as [_ Hne].
  destruct (is_busb (e_cab e)) eqn:Hb.
  - right. repeat split; auto.
    intro E. rewrite E in Hne. discriminate.
  - left. apply andb_true_iff in Hk as [Hlo Hnb]. apply N.eqb_eq in Hlo.
    unfold is_busb in Hb. apply orb_false_iff in Hb as [Ha Hlen].
    destruct (e_cab e) as [lo ar ws] eqn:Ec. cbn [c_lower c_array c_wires] in *. subst lo ar.
    destruct ws as [|w [|w' ws]]; [discriminate| |discriminate].
    exists w. split; auto.
    destruct (net_bit (e_ident e) (e_name e)) as [[[[i|] a] b]|]; try discriminate. eauto.
Qed.

Theorem cabs_wf (cabs : list (entry pd)) : forallb cab_w cabs = true ->
  uniq_ci (map (@e_ident pd) cabs) = true -> uniq_x (map (@e_name pd) cabs) = true -> wf_cell cabs.
Proof.
  intros Hw Hi Hn. split; [now apply uniq_x_NoDup|]. split.
  - apply uniq_ci_NoDup in Hi. now rewrite map_map in Hi.
  - apply Forall_forall. intros e He. rewrite forallb_forall in Hw. apply cab_w_entry. auto.
Qed.

Theorem cabs_nets_good libs c rp (cabs : list (entry pd)) : forallb cab_w cabs = true ->
  (forall p, In p (pins_of cabs) -> pin_good libs c rp p) ->
  Forall (net_good libs c rp) (emit_nets cabs).
Proof.
  intros Hw Hp. apply Forall_forall. intros nt Hin.
  assert (Hpins : Forall (pin_good libs c rp) (snd nt)).
  { apply Forall_forall. intros p Hpn. apply Hp. rewrite <- emit_nets_pins. apply in_flat_map. eauto. }
  unfold emit_nets in Hin. apply in_flat_map in Hin as (e & He & Hin).
  rewrite forallb_forall in Hw. destruct (cab_w_net e nt (Hw e He) Hin) as (H1 & H2 & H3).
  repeat split; auto.
Qed.

(* ---------------------------------------------------------------------------------------- *)
(* the position of a cell in the file: libs = prev ++ Lc :: after, li_cells Lc = done ++ rest *)
Definition cell_ok (C : nvcell) : Prop := ident_w (ce_ident C) = true /\ forallb port_w (ce_ports C) = true.

Record env (libs prev : list nvlib) (lib : str) (done : list nvcell) : Prop := {
  ev_split : exists Lc after rest, libs = prev ++ Lc :: after /\ li_ident Lc = lib /\ li_cells Lc = done ++ rest;
  ev_uniq : uniq_ci (map li_ident libs) = true;
  ev_lib : ident_w lib = true;
  ev_prev_ids : forall L, In L prev -> ident_w (li_ident L) = true;
  ev_prev_cells : forall L C, In L prev -> In C (li_cells L) -> cell_ok C;
  ev_done : forall C, In C done -> cell_ok C }.

Lemma find_app {X} (f : X -> bool) a b : find f (a ++ b) = match find f a with Some x => Some x | None => find f b end.
Proof. induction a as [|x a IH]; [reflexivity|]. cbn. destruct (f x); auto. Qed.

Lemma find_map {X Y} (f : Y -> bool) (g : X -> Y) l : find f (map g l) = option_map g (find (fun x => f (g x)) l).
Proof. induction l as [|x l IH]; [reflexivity|]. cbn. destruct (f (g x)); auto. Qed.

Lemma find_lib_norm l prev : find_lib l (map norm_lib prev) = option_map norm_lib (find_lib l prev).
Proof. unfold find_lib. apply find_map. Qed.
Lemma find_cell_norm c cs : find_cell c (map norm_cell cs) = option_map norm_cell (find_cell c cs).
Proof. unfold find_cell. apply find_map. Qed.

Lemma ident_eqb_refl a : ident_eqb a a = true.
Proof. unfold ident_eqb. apply str_eqb_refl. Qed.

Lemma find_none_existsb {X} (f : X -> bool) l : existsb f l = false -> find f l = None.
Proof. induction l as [|x l IH]; [reflexivity|]. cbn. destruct (f x); [discriminate|auto]. Qed.

Definition rpf (prev : list nvlib) (lib : str) (done : list nvcell) (i : nvinst) : list nvport :=
  match ref_cell prev lib done (in_ref i) with Some C => ce_ports C | None => [] end.

Lemma find_lib_none lib prev : existsb (ident_eqb lib) (map li_ident prev) = false -> find_lib lib prev = None.
Proof.
  unfold find_lib. induction prev as [|L prev IH]; [reflexivity|]. cbn [map existsb find]. intros H.
  apply orb_false_iff in H as [H1 H2]. rewrite ident_eqb_sym, H1. auto.
Qed.

Lemma ref_cell_facts libs prev lib done l cn C cell view ports :
  env libs prev lib done -> ref_cell prev lib done (Some (l, cn)) = Some C ->
  (exists cs, resolve_lib (mkctx (map norm_lib prev) lib (map norm_cell done) cell view ports) (Some l) = Ok (l, cs) /\
              find_cell cn cs = Some (norm_cell C)) /\
  (exists L, find_lib l libs = Some L /\ find_cell cn (li_cells L) = Some C) /\
  ce_ident C = cn /\ ident_w l = true /\ cell_ok C.
Proof.
  intros E H. destruct E as [(Lc & after & rest & Hlibs & Hlc & Hcells) Hu Hlib Hpi Hpc Hd].
  unfold ref_cell in H. destruct (ident_eqb lib l) eqn:El.
  - destruct (str_eqb lib l) eqn:Es; [|discriminate]. apply str_eqb_spec in Es. subst l.
    destruct (find_cell cn done) as [C'|] eqn:Ef; [|discriminate].
    destruct (str_eqb (ce_ident C') cn) eqn:Ec; [|discriminate]. inversion H. subst C'.
    apply str_eqb_spec in Ec.
    assert (HinC : In C done) by (unfold find_cell in Ef; apply find_some in Ef; tauto).
    split; [|split; [|split; [|split]]]; auto.
    + exists (map norm_cell done). unfold resolve_lib. cbn [cx_lib cx_cells]. rewrite El. split; auto.
      now rewrite find_cell_norm, Ef.
    + exists Lc. split.
      * rewrite Hlibs. unfold find_lib. rewrite find_app.
        rewrite Hlibs, map_app in Hu. cbn [map] in Hu. apply uniq_ci_mid in Hu. rewrite Hlc in Hu.
        fold (find_lib lib prev). rewrite (find_lib_none _ _ Hu). cbn [find]. now rewrite Hlc, ident_eqb_refl.
      * rewrite Hcells. unfold find_cell. rewrite find_app. fold (find_cell cn done). now rewrite Ef.
  - destruct (find_lib l prev) as [L|] eqn:Efl; [|discriminate].
    destruct (str_eqb (li_ident L) l) eqn:Es; [|discriminate]. apply str_eqb_spec in Es.
    destruct (find_cell cn (li_cells L)) as [C'|] eqn:Ef; [|discriminate].
    destruct (str_eqb (ce_ident C') cn) eqn:Ec; [|discriminate]. inversion H. subst C'.
    apply str_eqb_spec in Ec.
    assert (HinL : In L prev) by (unfold find_lib in Efl; apply find_some in Efl; tauto).
    assert (HinC : In C (li_cells L)) by (unfold find_cell in Ef; apply find_some in Ef; tauto).
    split; [|split; [|split; [|split]]]; auto.
    + exists (map norm_cell (li_cells L)). unfold resolve_lib. cbn [cx_lib cx_libs cx_cells]. rewrite El.
      rewrite find_lib_norm, Efl. cbn [option_map norm_lib li_ident li_cells]. rewrite Es. split; auto.
      now rewrite find_cell_norm, Ef.
    + exists L. split; auto. rewrite Hlibs. unfold find_lib. rewrite find_app. fold (find_lib l prev). now rewrite Efl.
    + rewrite <- Es. auto.
    + eauto.
Qed.

Lemma inst_w_good libs prev lib done cell view ports i :
  env libs prev lib done -> inst_w prev lib done i = true ->
  inst_good (mkctx (map norm_lib prev) lib (map norm_cell done) cell view ports) (rpf prev lib done) i.
Proof.
  intros E H. unfold inst_w in H. apply andb_true_iff in H as [H Hr]. apply andb_true_iff in H as [Hel Hps].
  destruct (in_ref i) as [[l cn]|] eqn:Er; [|discriminate].
  destruct (ref_cell prev lib done (Some (l, cn))) as [C|] eqn:Erc; [|discriminate].
  destruct (ref_cell_facts libs prev lib done l cn C cell view ports E Erc)
    as ((cs & Hres & Hfc) & _ & Hcid & Hl & Hok & _).
  exists l, cn, cs, (norm_cell C). repeat split; auto.
  - rewrite <- Hcid. exact Hok.
  - unfold rpf. rewrite Er, Erc. reflexivity.
Qed.

Lemma port_pin_good ports pt k : forallb port_w ports = true -> port_pin_w ports pt k = true -> port_good ports pt k.
Proof.
  intros Hw H. unfold port_pin_w in H. destruct (find_port pt ports) as [po|] eqn:Ef; [|discriminate].
  apply andb_true_iff in H as [Hid Hk]. apply str_eqb_spec in Hid. apply N.ltb_lt in Hk.
  assert (Hin : In po ports) by (unfold find_port in Ef; apply find_some in Ef; tauto).
  rewrite forallb_forall in Hw. specialize (Hw po Hin). unfold port_w in Hw.
  apply andb_true_iff in Hw as [Hw Harr]. apply andb_true_iff in Hw as [Hw _].
  apply andb_true_iff in Hw as [Hw _]. apply andb_true_iff in Hw as [Hw _].
  unfold elem_w in Hw. apply andb_true_iff in Hw as [Hi _].
  exists po. repeat split; auto.
  - now rewrite <- Hid.
  - intros Ea. rewrite Ea in Harr. cbn [orb] in Harr. now apply N.eqb_eq in Harr.
Qed.

Lemma pin_w_good libs prev lib done c p :
  env libs prev lib done -> forallb port_w (ce_ports c) = true ->
  forallb (inst_w prev lib done) (ce_insts c) = true ->
  pin_w prev lib done c p = true -> pin_good libs c (rpf prev lib done) p.
Proof.
  intros E Hpw Hiw H. destruct p as [pt k|i pt k]; cbn [pin_w pin_good] in *.
  - now apply port_pin_good.
  - destruct (find_inst_v i (ce_insts c)) as [x|] eqn:Ef; [|discriminate].
    apply andb_true_iff in H as [Hid H]. apply str_eqb_spec in Hid.
    destruct (ref_cell prev lib done (in_ref x)) as [C|] eqn:Erc; [|discriminate].
    assert (Hin : In x (ce_insts c)) by (unfold find_inst_v in Ef; apply find_some in Ef; tauto).
    rewrite forallb_forall in Hiw. specialize (Hiw x Hin). unfold inst_w in Hiw.
    apply andb_true_iff in Hiw as [Hiw _]. apply andb_true_iff in Hiw as [Hel _].
    unfold elem_w in Hel. apply andb_true_iff in Hel as [Hix _].
    destruct (in_ref x) as [[l cn]|] eqn:Er; [|discriminate].
    destruct (ref_cell_facts libs prev lib done l cn C [] [] [] E Erc)
      as (_ & (L & HfL & HfC) & Hcid & Hl & Hok & Hpo).
    exists x. repeat split; auto.
    + now rewrite <- Hid.
    + unfold wports, rpf. now rewrite Er, HfL, HfC, Erc.
    + unfold rpf. rewrite Er, Erc. now apply port_pin_good.
Qed.

Lemma uniq_pd_NoDup l : uniq_pd l = true -> NoDup l.
Proof.
  induction l as [|a l IH]; intros H; [constructor|]. cbn in H. apply andb_true_iff in H as [Ha Hl].
  constructor; auto. intros Hin. apply negb_true_iff in Ha.
  assert (existsb (pd_eqb a) l = true); [|congruence].
  apply existsb_exists. exists a. split; auto. now apply pd_eqb_spec.
Qed.

(* ONE CELL from the boolean class: cell number [length done] of library [lib] of a file
   libs = prev ++ Lc :: after, read in the state the reader has reached there *)
Theorem cell_w_roundtrip libs prev lib done c x :
  env libs prev lib done -> cell_w prev lib done c = true ->
  ident_taken (ce_ident c) (map ce_ident done) = false -> name_taken (ce_name c) (map ce_name done) = false ->
  cell_sexp [] libs lib c = EmOk x ->
  exists args, x = SList (KW "Cell" :: args) /\
    parse_cell (map norm_lib prev) lib (map norm_cell done) args = Ok (norm_cell c).
Proof.
  intros E Hw Hti Htn Hx. unfold cell_w in Hw.
  repeat match type of Hw with _ && _ = true => let H := fresh "Hc" in apply andb_true_iff in Hw as [Hw H] end.
  (* Hc: uniq_pd, Hc0: pins pin_w, Hc1: uniq_x cab names, Hc2: uniq_ci cab ids, Hc3: cab_w, Hc4: uniq_x inst names,
     Hc5: uniq_ci inst ids, Hc6: inst_w, Hc7: uniq_x port names, Hc8: uniq_ci port ids, Hc9: port_w, Hw: elem_w *)
  apply (cell_roundtrip (map norm_lib prev) libs lib (map norm_cell done) c x (rpf prev lib done)); auto.
  - apply Forall_forall. intros i Hi. rewrite forallb_forall in Hc6. eapply inst_w_good; eauto.
  - now apply cabs_wf.
  - apply cabs_nets_good; auto. intros p Hp. rewrite forallb_forall in Hc0.
    eapply pin_w_good; eauto.
  - apply uniq_pd_NoDup. exact Hc.
  - now rewrite map_map.
  - now rewrite map_map.
Qed.

(* ---------------------------------------------------------------------------------------- *)
(* ONE LIBRARY *)
Definition prev_ok (prev : list nvlib) : Prop :=
  (forall L, In L prev -> ident_w (li_ident L) = true) /\
  (forall L C, In L prev -> In C (li_cells L) -> cell_ok C).

Lemma cell_w_ok prev lib done c : cell_w prev lib done c = true -> cell_ok c.
Proof.
  unfold cell_w. intros Hw.
  repeat match type of Hw with _ && _ = true => let H := fresh "Hc" in apply andb_true_iff in Hw as [Hw H] end.
  unfold elem_w in Hw. apply andb_true_iff in Hw as [Hi _]. split; auto.
Qed.

Lemma cells_loop libs prev Lc after : forall todo done xs,
  libs = prev ++ Lc :: after -> uniq_ci (map li_ident libs) = true -> prev_ok prev ->
  ident_w (li_ident Lc) = true -> li_cells Lc = done ++ todo -> (forall C, In C done -> cell_ok C) ->
  cells_w prev (li_ident Lc) done todo = true ->
  uniq_ci (map ce_ident (done ++ todo)) = true -> uniq_x (map ce_name (done ++ todo)) = true ->
  emap (cell_sexp [] libs (li_ident Lc)) todo = EmOk xs ->
  loop (lib_step (map norm_lib prev) (li_ident Lc)) false (false, map norm_cell done) xs =
  Ok (false, map norm_cell (done ++ todo)).
Proof.
  induction todo as [|c todo IH]; intros done xs Hlibs Hu Hprev Hlib Hcells Hdone Hw Hui Hun Hx.
  - inversion Hx. now rewrite app_nil_r.
  - cbn [emap] in Hx. destruct (cell_sexp [] libs (li_ident Lc) c) as [x| |] eqn:Ec; try discriminate.
    destruct (emap (cell_sexp [] libs (li_ident Lc)) todo) as [xs'| |] eqn:Ecs; try discriminate.
    inversion Hx. subst xs. cbn [cells_w] in Hw. apply andb_true_iff in Hw as [Hwc Hws].
    assert (E : env libs prev (li_ident Lc) done).
    { destruct Hprev as [Hp1 Hp2]. constructor; auto. exists Lc, after, (c :: todo). auto. }
    rewrite map_app in Hui, Hun. cbn [map] in Hui, Hun.
    destruct (cell_w_roundtrip libs prev (li_ident Lc) done c x E Hwc) as (args & -> & Hp); auto.
    { exact (uniq_ci_mid _ _ _ Hui). }
    { exact (uniq_x_mid _ _ _ Hun). }
    unfold KW. cbn [loop]. unfold lib_step at 1.
    replace (kweq (lower (K "Cell")) "status") with false by (vm_compute; reflexivity).
    replace (kweq (lower (K "Cell")) "cell") with true by (vm_compute; reflexivity).
    cbn [fst snd]. rewrite Hp.
    replace (map norm_cell done ++ [norm_cell c]) with (map norm_cell (done ++ [c])) by (now rewrite map_app).
    replace (done ++ c :: todo) with ((done ++ [c]) ++ todo) by (now rewrite <- app_assoc).
    apply IH; auto.
    + now rewrite <- app_assoc.
    + intros C HC. apply in_app_or in HC as [HC|[<-|[]]]; auto. eapply cell_w_ok; eauto.
    + rewrite <- app_assoc. cbn [app]. now rewrite map_app.
    + rewrite <- app_assoc. cbn [app]. now rewrite map_app.
Qed.

Lemma cells_w_ok prev lib : forall todo done, cells_w prev lib done todo = true -> forall C, In C todo -> cell_ok C.
Proof.
  induction todo as [|c todo IH]; intros done H C HC; [destruct HC|].
  cbn [cells_w] in H. apply andb_true_iff in H as [Hc Hs]. destruct HC as [<-|HC]; [eapply cell_w_ok; eauto|eauto].
Qed.

Lemma norm_lib_idents prev : map li_ident (map norm_lib prev) = map li_ident prev.
Proof. rewrite map_map. apply map_ext. reflexivity. Qed.
Lemma norm_lib_names prev : map li_name (map norm_lib prev) = map li_name prev.
Proof. rewrite map_map. apply map_ext. reflexivity. Qed.

Theorem lib_w_roundtrip libs prev Lc after x :
  libs = prev ++ Lc :: after -> uniq_ci (map li_ident libs) = true -> prev_ok prev ->
  lib_w prev Lc = true ->
  ident_taken (li_ident Lc) (map li_ident prev) = false -> name_taken (li_name Lc) (map li_name prev) = false ->
  lib_sexp [] libs Lc = EmOk x ->
  exists args, x = SList (KW "Library" :: args) /\ parse_library (map norm_lib prev) args = Ok (norm_lib Lc).
Proof.
  intros Hlibs Hu Hprev Hw Hti Htn Hx. unfold lib_w in Hw.
  apply andb_true_iff in Hw as [Hw Hcn]. apply andb_true_iff in Hw as [Hw Hci]. apply andb_true_iff in Hw as [Hel Hcw].
  unfold elem_w in Hel. apply andb_true_iff in Hel as [Hi Ht].
  unfold lib_sexp in Hx. rewrite Hci in Hx. cbn [negb] in Hx.
  destruct (name_sexp (li_ident Lc) (li_name Lc)) as [nx| |] eqn:En; try discriminate.
  destruct (emap (cell_sexp [] libs (li_ident Lc)) (li_cells Lc)) as [cxs| |] eqn:Ecs; try discriminate.
  inversion Hx. subst x. clear Hx. cbn [app]. eexists. split; [reflexivity|].
  destruct (elemname_roundtrip _ _ _ Hi Ht En) as (n & Hn & Hn1 & Hn2).
  unfold parse_library. rewrite Hn.
  replace (chk_int_form "ediflevel" 1 (SList [KW "edifLevel"; KW "0"])) with (@Ok unit tt) by (vm_compute; reflexivity).
  replace (chk_technology (SList [KW "technology"; SList [KW "numberDefinition"]])) with (@Ok unit tt)
    by (vm_compute; reflexivity).
  rewrite Hn1.
  change (@nil nvcell) with (map norm_cell []).
  rewrite (cells_loop libs prev Lc after (li_cells Lc) [] cxs Hlibs Hu Hprev Hi eq_refl); auto.
  - cbn [app snd]. unfold place_strict. rewrite Hn1, Hn2, norm_lib_idents, norm_lib_names, Hti, Htn. reflexivity.
  - intros C [].
Qed.

Lemma lib_w_ok prev L : lib_w prev L = true -> ident_w (li_ident L) = true /\ forall C, In C (li_cells L) -> cell_ok C.
Proof.
  unfold lib_w. intros Hw.
  apply andb_true_iff in Hw as [Hw _]. apply andb_true_iff in Hw as [Hw _]. apply andb_true_iff in Hw as [Hel Hcw].
  unfold elem_w in Hel. apply andb_true_iff in Hel as [Hi _]. split; auto. eapply cells_w_ok; eauto.
Qed.

(* ---------------------------------------------------------------------------------------- *)
(* THE FILE *)
Lemma libs_loop libs : forall todo done xs st top,
  libs = done ++ todo -> uniq_ci (map li_ident libs) = true -> uniq_x (map li_name libs) = true ->
  prev_ok done -> libs_w done todo = true ->
  emap (lib_sexp [] libs) todo = EmOk xs ->
  loop body_step false (mkbst (map norm_lib done) st top) xs = Ok (mkbst (map norm_lib (done ++ todo)) st top).
Proof.
  induction todo as [|L todo IH]; intros done xs st top Hlibs Hui Hun Hprev Hw Hx.
  - inversion Hx. now rewrite app_nil_r.
  - cbn [emap] in Hx. destruct (lib_sexp [] libs L) as [x| |] eqn:El; try discriminate.
    destruct (emap (lib_sexp [] libs) todo) as [xs'| |] eqn:Els; try discriminate. inversion Hx. subst xs.
    cbn [libs_w] in Hw. apply andb_true_iff in Hw as [HwL Hws].
    assert (Hui' := Hui). assert (Hun' := Hun). rewrite Hlibs, map_app in Hui', Hun'. cbn [map] in Hui', Hun'.
    destruct (lib_w_roundtrip libs done L todo x Hlibs Hui Hprev HwL) as (args & -> & Hp); auto.
    { exact (uniq_ci_mid _ _ _ Hui'). }
    { exact (uniq_x_mid _ _ _ Hun'). }
    unfold KW. cbn [loop]. unfold body_step at 1.
    replace (kweq (lower (K "Library")) "status") with false by (vm_compute; reflexivity).
    replace (kweq (lower (K "Library")) "library") with true by (vm_compute; reflexivity).
    cbn [orb bs_libs bs_status bs_top]. rewrite Hp.
    replace (map norm_lib done ++ [norm_lib L]) with (map norm_lib (done ++ [L])) by (now rewrite map_app).
    replace (done ++ L :: todo) with ((done ++ [L]) ++ todo) by (now rewrite <- app_assoc).
    apply IH; auto.
    + now rewrite <- app_assoc.
    + destruct Hprev as [P1 P2]. destruct (lib_w_ok _ _ HwL) as [Q1 Q2]. split.
      * intros L' H'. apply in_app_or in H' as [H'|[<-|[]]]; auto.
      * intros L' C H' HC. apply in_app_or in H' as [H'|[<-|[]]]; eauto.
Qed.

Lemma libs_w_ok : forall todo done, prev_ok done -> libs_w done todo = true -> prev_ok (done ++ todo).
Proof.
  induction todo as [|L todo IH]; intros done Hp Hw; [now rewrite app_nil_r|].
  cbn [libs_w] in Hw. apply andb_true_iff in Hw as [HwL Hws].
  replace (done ++ L :: todo) with ((done ++ [L]) ++ todo) by (now rewrite <- app_assoc).
  apply IH; auto. destruct Hp as [P1 P2]. destruct (lib_w_ok _ _ HwL) as [Q1 Q2]. split.
  - intros L' H'. apply in_app_or in H' as [H'|[<-|[]]]; auto.
  - intros L' C H' HC. apply in_app_or in H' as [H'|[<-|[]]]; eauto.
Qed.

Lemma emap_atoms ts : forallb atom_ok ts = true -> emap atom_of ts = EmOk (map Atom ts).
Proof.
  induction ts as [|a ts IH]; intros H; [reflexivity|]. cbn [forallb] in H. apply andb_true_iff in H as [Ha Hs].
  cbn [emap map]. unfold atom_of at 1. now rewrite Ha, (IH Hs).
Qed.

Lemma status_read ts prog st : params_w ts prog = true -> status_sexp ts prog = EmOk st ->
  exists args, st = SList (KW "status" :: args) /\ chk_status args = Ok tt.
Proof.
  unfold params_w. intros Hp Hs. apply andb_true_iff in Hp as [Hp Hprog]. apply andb_true_iff in Hp as [Hlen Hts].
  apply Nat.eqb_eq in Hlen.
  assert (Hat : forallb atom_ok ts = true).
  { apply forallb_forall. intros a Ha. rewrite forallb_forall in Hts. specialize (Hts a Ha).
    apply andb_true_iff in Hts as [Hts _]. now apply andb_true_iff in Hts as [_ Hts]. }
  assert (Hint : forallb is_int_atom (map Atom ts) = true).
  { apply forallb_forall. intros x Hx. apply in_map_iff in Hx as (a & <- & Ha). rewrite forallb_forall in Hts.
    specialize (Hts a Ha). apply andb_true_iff in Hts as [Hts _]. now apply andb_true_iff in Hts as [Hts _]. }
  unfold status_sexp in Hs. rewrite (emap_atoms _ Hat) in Hs.
  assert (Hcomment : str_tok_ok (K "Built by 'BYU spydrnet tool'") = true) by (vm_compute; reflexivity).
  assert (Hts6 : chk_int_form "timestamp" 6 (SList (KW "timeStamp" :: map Atom ts)) = Ok tt).
  { unfold chk_int_form. replace (is_kw "timestamp" (KW "timeStamp")) with true by (vm_compute; reflexivity).
    rewrite map_length, Hlen, Hint. reflexivity. }
  assert (Hc : forall s, written_step s (lower (K "comment")) [Str (K "Built by 'BYU spydrnet tool'")] = Ok s).
  { intros s. unfold written_step.
    replace (kweq (lower (K "comment")) "author") with false by (vm_compute; reflexivity).
    replace (kweq (lower (K "comment")) "program") with false by (vm_compute; reflexivity).
    replace (kweq (lower (K "comment")) "dataorigin") with false by (vm_compute; reflexivity).
    replace (kweq (lower (K "comment")) "property") with false by (vm_compute; reflexivity).
    replace (kweq (lower (K "comment")) "metax") with false by (vm_compute; reflexivity).
    replace (kweq (lower (K "comment")) "comment") with true by (vm_compute; reflexivity).
    cbn [orb]. unfold chk_comment. cbn [forallb is_str_ok]. now rewrite Hcomment. }
  assert (Hst : forall wargs, chk_written wargs = Ok tt ->
            chk_status [SList (KW "written" :: wargs)] = Ok tt).
  { intros wargs Hw. unfold chk_status, KW. cbn [loop]. unfold status_step at 1.
    replace (kweq (lower (K "written")) "written") with true by (vm_compute; reflexivity). now rewrite Hw. }
  destruct prog as [[p v]|].
  - unfold plain_str in Hs. destruct (str_ok p); [|discriminate].
    apply andb_true_iff in Hprog as [Hp1 Hv1].
    assert (Hprog_step : forall rest, written_step (false, false) (lower (K "program")) (Str p :: rest) =
              match rest with
              | [] => Ok (false, true)
              | [SList [vk; Str s2]] => if str_tok_ok p && is_kw "version" vk && str_tok_ok s2 then Ok (false, true) else Err FeShape
              | _ => Err FeShape
              end).
    { intros rest. unfold written_step.
      replace (kweq (lower (K "program")) "author") with false by (vm_compute; reflexivity).
      replace (kweq (lower (K "program")) "program") with true by (vm_compute; reflexivity).
      cbn [snd fst]. destruct rest as [|[a|s|[|vk [|[a|s2|l2] [|z zs]]]] [|y ys]]; try reflexivity; now rewrite ?Hp1. }
    destruct v as [v|].
    + destruct (str_ok v); [|discriminate]. inversion Hs. subst st. eexists. split; [reflexivity|].
      apply Hst. unfold chk_written. cbn [app]. rewrite Hts6. unfold KW at 1. cbn [loop].
      rewrite Hprog_step. replace (is_kw "version" (KW "version")) with true by (vm_compute; reflexivity).
      rewrite Hp1, Hv1. cbn [andb]. unfold KW. cbn [loop]. now rewrite Hc.
    + inversion Hs. subst st. eexists. split; [reflexivity|].
      apply Hst. unfold chk_written. cbn [app]. rewrite Hts6. unfold KW at 1. cbn [loop].
      rewrite Hprog_step. unfold KW. cbn [loop]. now rewrite Hc.
  - inversion Hs. subst st. eexists. split; [reflexivity|].
    apply Hst. unfold chk_written. cbn [app]. rewrite Hts6. unfold KW. cbn [loop]. now rewrite Hc.
Qed.

Lemma prev_ok_nil : prev_ok [].
Proof. split; [intros L []|intros L C []]. Qed.

(* THE WHOLE FILE: for a writable value, the document the writer model writes (when all its atoms are
   ASCII) is read by the reader model as [norm_file n] *)
Theorem file_roundtrip ts prog n d :
  writable n = true -> params_w ts prog = true -> emit_file ts prog [] n = EmOk d ->
  atoms_ascii d = true -> elab_file d = Ok (norm_file n).
Proof.
  intros Hw Hpar Hd Hasc. unfold writable in Hw.
  apply andb_true_iff in Hw as [Hw Htop]. apply andb_true_iff in Hw as [Hw Hun].
  apply andb_true_iff in Hw as [Hw Hui]. apply andb_true_iff in Hw as [Hel Hlw].
  unfold elem_w in Hel. apply andb_true_iff in Hel as [Hi Ht].
  destruct n as [fname fident libs top]. cbn [nf_name nf_ident nf_libs nf_top] in *.
  destruct top as [t|]; [|discriminate].
  unfold top_w in Htop. apply andb_true_iff in Htop as [Htel Htf].
  unfold elem_w in Htel. apply andb_true_iff in Htel as [Hti Htt].
  destruct (find_lib (tp_lib t) libs) as [L|] eqn:EfL; [|discriminate].
  apply andb_true_iff in Htf as [HLid Htf]. apply str_eqb_spec in HLid.
  destruct (find_cell (tp_cell t) (li_cells L)) as [C|] eqn:EfC; [|discriminate].
  apply str_eqb_spec in Htf.
  pose proof (libs_w_ok libs [] prev_ok_nil Hlw) as [Pk1 Pk2]. cbn [app] in Pk1, Pk2.
  assert (HinL : In L libs) by (unfold find_lib in EfL; apply find_some in EfL; tauto).
  assert (HinC : In C (li_cells L)) by (unfold find_cell in EfC; apply find_some in EfC; tauto).
  assert (HwL : ident_w (tp_lib t) = true) by (rewrite <- HLid; auto).
  assert (HwC : ident_w (tp_cell t) = true) by (rewrite <- Htf; apply (Pk2 L C HinL HinC)).
  unfold emit_file in Hd. cbn [nf_name nf_ident nf_libs nf_top] in Hd. rewrite Hui in Hd. cbn [negb] in Hd.
  destruct (name_sexp fident fname) as [nx| |] eqn:En; try discriminate.
  destruct (status_sexp ts prog) as [st| |] eqn:Est; try discriminate.
  destruct (emap (lib_sexp [] libs) libs) as [lxs| |] eqn:Els; try discriminate.
  destruct (name_sexp (tp_ident t) (tp_name t)) as [tnx| |] eqn:Etn; try discriminate.
  unfold atom_of in Hd. destruct (ident_w_parts _ HwC) as (_ & _ & HatC). destruct (ident_w_parts _ HwL) as (_ & _ & HatL).
  rewrite HatC, HatL in Hd. inversion Hd. subst d. clear Hd.
  destruct (status_read ts prog st Hpar Est) as (sargs & -> & Hst).
  destruct (elemname_roundtrip _ _ _ Hi Ht En) as (n0 & Hn0 & Hn01 & Hn02).
  destruct (elemname_roundtrip _ _ _ Hti Htt Etn) as (n1 & Hn1 & Hn11 & Hn12).
  unfold elab_file. rewrite Hasc. cbn [negb app].
  replace (is_kw "edif" (KW "edif")) with true by (vm_compute; reflexivity). cbn [negb].
  rewrite Hn0.
  replace (chk_int_form "edifversion" 3 (SList [KW "edifversion"; KW "2"; KW "0"; KW "0"])) with (@Ok unit tt)
    by (vm_compute; reflexivity).
  replace (chk_int_form "ediflevel" 1 (SList [KW "edifLevel"; KW "0"])) with (@Ok unit tt) by (vm_compute; reflexivity).
  replace (chk_keywordmap (SList [KW "keywordmap"; SList [KW "keywordlevel"; KW "0"]])) with (@Ok unit tt)
    by (vm_compute; reflexivity).
  unfold body. unfold KW at 1. cbn [loop]. unfold body_step at 1.
  replace (kweq (lower (K "status")) "status") with true by (vm_compute; reflexivity).
  cbn [bs_status bs_libs bs_top]. rewrite Hst. rewrite loop_app.
  change (@nil nvlib) with (map norm_lib []) at 1.
  rewrite (libs_loop libs libs [] lxs true None eq_refl Hui Hun prev_ok_nil Hlw Els). cbn [app].
  unfold KW at 1. cbn [loop]. unfold body_step at 1.
  replace (kweq (lower (K "design")) "status") with false by (vm_compute; reflexivity).
  replace (kweq (lower (K "design")) "library") with false by (vm_compute; reflexivity).
  replace (kweq (lower (K "design")) "external") with false by (vm_compute; reflexivity).
  replace (kweq (lower (K "design")) "design") with true by (vm_compute; reflexivity).
  cbn [orb bs_top bs_libs bs_status]. unfold parse_design. rewrite Hn1.
  replace (is_kw "cellref" (KW "cellref")) with true by (vm_compute; reflexivity).
  replace (is_kw "libraryref" (KW "libraryref")) with true by (vm_compute; reflexivity).
  cbn [negb]. rewrite (nameref_read _ HwC), (nameref_read _ HwL).
  rewrite find_lib_norm, EfL. cbn [option_map norm_lib li_cells li_ident]. rewrite find_cell_norm, EfC.
  cbn [option_map norm_cell ce_ident bs_libs bs_top]. unfold norm_file. cbn [nf_name nf_ident nf_libs nf_top].
  rewrite Hn01, Hn02, Hn11, Hn12, HLid, Htf. destruct t; reflexivity.
Qed.
