(* From the boolean class [writable] (Fmt/EdifEmit.v) to the hypotheses of the one-cell round trip
   (Proofs/EdifEmitNets.cell_roundtrip), then library and file assembly:
     cabs_wf            forallb cab_w + unique names / identifiers -> Proofs/EdifNetsProofs.wf_cell
     cabs_nets_good     ... -> every written net has a legal identifier, a printable name, no big index *)
From Coq Require Import List NArith ZArith Bool Arith String Lia Permutation.
From SV Require Import Base.Base Fmt.EdifLex Fmt.EdifName Fmt.EdifCable Fmt.EdifBus Fmt.EdifNets
  Fmt.EdifFile Fmt.EdifFileSpec Fmt.EdifEmit Proofs.EdifNameProofs Proofs.EdifBusProofs Proofs.EdifNetsProofs
  Proofs.EdifFileNets Proofs.EdifFileWf Proofs.EdifEmitLemmas Proofs.EdifEmitNets.
Import ListNotations.
Local Open Scope N_scope.

Lemma uniq_x_NoDup l : uniq_x l = true -> NoDup l.
Proof.
  induction l as [|a l IH]; intros H; [constructor|]. cbn in H. apply andb_true_iff in H as [Ha Hl].
  constructor; auto. intros Hin. apply negb_true_iff in Ha.
  assert (existsb (str_eqb a) l = true); [|congruence].
  apply existsb_exists. exists a. split; auto. apply str_eqb_refl.
Qed.

Lemma uniq_ci_NoDup l : uniq_ci l = true -> NoDup (map lower l).
Proof.
  induction l as [|a l IH]; intros H; [constructor|]. cbn in H. apply andb_true_iff in H as [Ha Hl].
  cbn [map]. constructor; auto. intros Hin. apply negb_true_iff in Ha. apply in_map_iff in Hin as (b & Hb & Hin).
  assert (existsb (ident_eqb a) l = true); [|congruence].
  apply existsb_exists. exists b. split; auto. unfold ident_eqb. rewrite Hb. apply str_eqb_refl.
Qed.

Lemma emit_from_in {P} ident name (ws : list (list P)) : forall idx nt, In nt (emit_from ident name idx ws) ->
  exists i w, nt = (bit_ident ident i, bit_name name i, w) /\ idx <= i /\ i < idx + N.of_nat (List.length ws).
Proof.
  induction ws as [|w ws IH]; intros idx nt H; [destruct H|].
  cbn [emit_from] in H. destruct H as [<-|H].
  - exists idx, w. split; auto. cbn [List.length]. lia.
  - destruct (IH _ _ H) as (i & w' & E & H1 & H2). exists i, w'. split; auto. cbn [List.length]. lia.
Qed.

Lemma text_ok_app a b : text_ok (a ++ b) = text_ok a && text_ok b.
Proof. unfold text_ok. apply forallb_app. Qed.

Lemma text_ok_dec i : text_ok (dec i) = true.
Proof.
  unfold text_ok. apply forallb_forall. intros c Hc. apply dec_no_special in Hc.
  unfold is_digit in Hc. apply andb_true_iff in Hc as [H1 H2]. apply N.leb_le in H1. apply N.leb_le in H2.
  apply orb_true_iff. right. apply andb_true_iff. split; apply N.leb_le; lia.
Qed.

Lemma text_ok_bit_name name i : text_ok name = true -> text_ok (bit_name name i) = true.
Proof.
  intros H. unfold bit_name. rewrite text_ok_app, H. cbn [andb].
  change (c_lbr :: dec i ++ [c_rbr]) with ([c_lbr] ++ dec i ++ [c_rbr]).
  rewrite !text_ok_app, text_ok_dec. reflexivity.
Qed.

Lemma cab_w_net e nt : cab_w e = true -> In nt (emit_cable (e_ident e) (e_name e) (e_cab e)) ->
  ident_w (fst (fst nt)) = true /\ text_ok (snd (fst nt)) = true /\ big_index (fst (fst nt)) (snd (fst nt)) = false.
Proof.
  unfold cab_w. intros H Hin.
  apply andb_true_iff in H as [H Hk]. apply andb_true_iff in H as [H Hids]. apply andb_true_iff in H as [Ht Hne].
  rewrite forallb_forall in Hids. split; [exact (Hids nt Hin)|].
  assert (Hfrom : forall ws, In nt (emit_from (e_ident e) (e_name e) (c_lower (e_cab e)) ws) ->
            is_busb (e_cab e) = true -> (List.length ws <= List.length (c_wires (e_cab e)))%nat ->
            text_ok (snd (fst nt)) = true /\ big_index (fst (fst nt)) (snd (fst nt)) = false).
  { intros ws Hi Hb Hlen. rewrite Hb in Hk. apply andb_true_iff in Hk as [Hbs Hmax]. apply N.leb_le in Hmax.
    destruct (emit_from_in _ _ _ _ _ Hi) as (i & w & -> & H1 & H2). cbn [fst snd]. split.
    - now apply text_ok_bit_name.
    - unfold big_index. rewrite bitname_inverse.
      + apply N.ltb_ge. unfold max_bits. change (Z.to_N 65536) with 65536. lia.
      + destruct (e_name e) as [|ch r]; auto. apply negb_true_iff in Hbs. now apply N.eqb_neq in Hbs. }
  unfold emit_cable in Hin. destruct (c_wires (e_cab e)) as [|w [|w' ws]] eqn:Ew.
  - destruct Hin.
  - destruct (c_array (e_cab e)) eqn:Ea.
    + apply (Hfrom [w]); auto. unfold is_busb. now rewrite Ea.
    + destruct Hin as [<-|[]]. cbn [fst snd]. split; auto.
      assert (Hb : is_busb (e_cab e) = false) by (unfold is_busb; rewrite Ea, Ew; reflexivity).
      rewrite Hb in Hk. apply andb_true_iff in Hk as [_ Hnb]. unfold big_index.
      destruct (net_bit (e_ident e) (e_name e)) as [[[[i|] a] b]|]; try discriminate. reflexivity.
  - apply (Hfrom (w :: w' :: ws)); auto. unfold is_busb. rewrite Ew. cbn. now rewrite orb_true_r.
Qed.

Lemma cab_w_entry e : cab_w e = true -> scalar_entry e \/ bus_entry e.
Proof.
  unfold cab_w. intros H.
  apply andb_true_iff in H as [H Hk]. apply andb_true_iff in H as [H _]. apply andb_true_iff in H as [_ Hne].
  destruct (is_busb (e_cab e)) eqn:Hb.
  - right. apply andb_true_iff in Hk as [Hbs _]. repeat split; auto.
    + intro E. rewrite E in Hne. discriminate.
    + unfold name_ok. destruct (e_name e) as [|ch r]; auto. apply negb_true_iff in Hbs. now apply N.eqb_neq in Hbs.
  - left. apply andb_true_iff in Hk as [Hlo Hnb]. apply N.eqb_eq in Hlo.
    unfold is_busb in Hb. apply orb_false_iff in Hb as [Ha Hlen].
    destruct (e_cab e) as [lo ar ws] eqn:Ec. cbn [c_lower c_array c_wires] in *. subst lo ar.
    destruct ws as [|w [|w' ws]]; [discriminate| |discriminate].
    exists w. split; auto.
    destruct (net_bit (e_ident e) (e_name e)) as [[[[i|] a] b]|]; try discriminate. eauto.
Qed.

Theorem cabs_wf (cabs : list (entry pd)) : forallb cab_w cabs = true ->
  uniq_ci (map (@e_ident pd) cabs) = true -> uniq_x (map (@e_name pd) cabs) = true -> wf_cell cabs.
Proof.
  intros Hw Hi Hn. split; [now apply uniq_x_NoDup|]. split.
  - apply uniq_ci_NoDup in Hi. now rewrite map_map in Hi.
  - apply Forall_forall. intros e He. rewrite forallb_forall in Hw. apply cab_w_entry. auto.
Qed.

Theorem cabs_nets_good libs c rp (cabs : list (entry pd)) : forallb cab_w cabs = true ->
  (forall p, In p (pins_of cabs) -> pin_good libs c rp p) ->
  Forall (net_good libs c rp) (emit_nets cabs).
Proof.
  intros Hw Hp. apply Forall_forall. intros nt Hin.
  assert (Hpins : Forall (pin_good libs c rp) (snd nt)).
  { apply Forall_forall. intros p Hpn. apply Hp. rewrite <- emit_nets_pins. apply in_flat_map. eauto. }
  unfold emit_nets in Hin. apply in_flat_map in Hin as (e & He & Hin).
  rewrite forallb_forall in Hw. destruct (cab_w_net e nt (Hw e He) Hin) as (H1 & H2 & H3).
  repeat split; auto.
Qed.
