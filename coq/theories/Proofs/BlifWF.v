(* EBLIF engine: the reader's invariant.  Every statement handler of BlifRead.exec keeps
     - model names distinct,
     - every pin on a wire naming a declared port bit (of the model / of the instanced model),
     - every pin on at most one wire, once,
     - every instance mirroring its definition (its pins = the port bits of the definition),
     - port names and cable names distinct per model.
   Self-containedness (no pin on a detached cable) is the separate invariant Oinv of
   Proofs/BlifExec.v. *)
From Coq Require Import List Arith NArith Bool Lia Permutation.
From SV Require Import Base.Base Fmt.Blif Fmt.BlifRead Fmt.BlifSpec Proofs.BlifBase.
Import ListNotations.

Record WFc (ms : list model) (m : model) : Prop := {
  c_pins : forall pr, In pr (all_wire_pins m) -> pin_ok ms m pr;
  c_once : NoDup (all_wire_pins m);
  c_mirror : forall x, In x (m_insts m) ->
      (exists r, find_model (i_ref x) ms = Some r) /\ NoDup (i_pins x) /\
      forall p b, In (p, b) (i_pins x) <-> sigb ms (i_ref x) p b;
  c_ports : NoDup (map p_name (m_ports m));
  c_cables : NoDup (map c_name (m_cables m)) }.

Definition Inv (ms : list model) : Prop :=
  NoDup (map m_name ms) /\ forall m, In m ms -> WFc ms m.

(* [ms'] knows every model of [ms] and gives the same port bits *)
Definition same_sig (ms ms' : list model) : Prop :=
  (forall r, In r (map m_name ms) -> In r (map m_name ms')) /\
  (forall r p b, sigb ms r p b <-> sigb ms' r p b).

Lemma pin_ok_ext ms ms' m m' pr :
  (forall r p b, sigb ms r p b -> sigb ms' r p b) ->
  (forall p b, port_bit m p b -> port_bit m' p b) ->
  (forall i x, nth_error (m_insts m) i = Some x -> exists x', nth_error (m_insts m') i = Some x' /\ i_ref x' = i_ref x) ->
  pin_ok ms m pr -> pin_ok ms' m' pr.
Proof.
  intros Hs Hp Hi. destruct pr as [p b|i p b]; cbn.
  - apply Hp.
  - intros [x [H1 H2]]. destruct (Hi _ _ H1) as [x' [H3 H4]]. exists x'. split; [assumption|].
    rewrite H4. apply Hs. assumption.
Qed.

Lemma WFc_ext ms ms' m : same_sig ms ms' -> WFc ms m -> WFc ms' m.
Proof.
  intros [Hn Hs] [H1 H2 H3 H4 H5]. constructor; auto.
  - intros pr Hpr. eapply pin_ok_ext; [| | |apply H1; exact Hpr]; eauto.
    intros r p b. apply Hs.
  - intros x Hx. destruct (H3 x Hx) as [[r Hr] [Hd Hm]]. repeat split; auto.
    + apply find_model_some_iff. apply Hn. apply find_model_some_iff. eauto.
    + intro H. apply Hs. apply Hm. assumption.
    + intro H. apply Hm. apply Hs. assumption.
Qed.

(* ---------- updates of one model that keep its name and port bits ---------- *)
Lemma sigb_upd_model cur f ms r p b :
  (forall m, m_name m = cur -> m_name (f m) = cur) ->
  (forall m, In m ms -> m_name m = cur -> forall p b, port_bit (f m) p b <-> port_bit m p b) ->
  sigb (upd_model cur f ms) r p b <-> sigb ms r p b.
Proof.
  intros Hn Hp. unfold sigb. rewrite (find_model_upd _ _ _ _ Hn).
  destruct (find_model r ms) as [m|] eqn:E.
  - pose proof (find_model_In _ _ _ E) as [Hin Hnm].
    destruct (str_eqb (m_name m) cur) eqn:Ec.
    + apply str_eqb_spec in Ec. split.
      * intros [m' [H1 H2]]. inversion H1; subst m'. exists m. split; [reflexivity|]. apply (Hp m Hin Ec). assumption.
      * intros [m' [H1 H2]]. inversion H1; subst m'. exists (f m). split; [reflexivity|]. apply (Hp m Hin Ec). assumption.
    + tauto.
  - split; intros [m' [H1 _]]; discriminate.
Qed.

Lemma same_sig_upd_model cur f ms :
  (forall m, m_name m = cur -> m_name (f m) = cur) ->
  (forall m, In m ms -> m_name m = cur -> forall p b, port_bit (f m) p b <-> port_bit m p b) ->
  same_sig ms (upd_model cur f ms).
Proof.
  intros Hn Hp. split.
  - intros r Hr. rewrite (upd_model_names _ _ _ Hn). assumption.
  - intros r p b. symmetry. apply sigb_upd_model; assumption.
Qed.

Lemma inv_upd_model cur f ms :
  Inv ms ->
  (forall m, m_name m = cur -> m_name (f m) = cur) ->
  (forall m, In m ms -> m_name m = cur -> forall p b, port_bit (f m) p b <-> port_bit m p b) ->
  (forall m, In m ms -> m_name m = cur -> WFc ms m -> WFc ms (f m)) ->
  Inv (upd_model cur f ms).
Proof.
  intros [Hnd Hall] Hn Hp Hf. split.
  - rewrite (upd_model_names _ _ _ Hn). assumption.
  - intros m' Hm'. apply In_upd_model in Hm' as [m [Hin ->]].
    apply (WFc_ext ms); [apply same_sig_upd_model; assumption|].
    destruct (str_eqb (m_name m) cur) eqn:E; [|auto].
    apply str_eqb_spec in E. apply Hf; auto.
Qed.

(* the same with a handler that may fail *)
Lemma inv_upd_model_res cur f ms ms' :
  Inv ms ->
  upd_model_res cur f ms = Ok ms' ->
  (forall m m', In m ms -> m_name m = cur -> f m = Ok m' ->
     m_name m' = cur /\ (forall p b, port_bit m' p b <-> port_bit m p b) /\ (WFc ms m -> WFc ms m')) ->
  Inv ms'.
Proof.
  intros HI H Hf. unfold upd_model_res in H. destruct (find_model cur ms) as [m|] eqn:E; [|discriminate].
  apply bind_ok in H as [m' [H1 H2]]. inversion H2; subst ms'. clear H2.
  pose proof (find_model_In _ _ _ E) as [Hin Hnm]. destruct (Hf m m' Hin Hnm H1) as [Ha [Hb Hc]].
  destruct HI as [Hnd Hall].
  assert (Huniq : forall x, In x ms -> m_name x = cur -> x = m).
  { intros x Hx Hxn. pose proof (find_model_unique ms x Hnd Hx) as Hu. rewrite Hxn in Hu. congruence. }
  apply inv_upd_model; [split; assumption| | |].
  - intros; assumption.
  - intros x Hx Hxn p b. rewrite (Huniq x Hx Hxn). apply Hb.
  - intros x Hx Hxn Hw. apply Hc. rewrite <- (Huniq x Hx Hxn). assumption.
Qed.

(* ---------- pins that keep their meaning ---------- *)
Lemma pin_ok_same ms m m' pr :
  m_ports m' = m_ports m -> m_insts m' = m_insts m -> pin_ok ms m' pr <-> pin_ok ms m pr.
Proof.
  intros Hp Hi. destruct pr; cbn; unfold port_bit; rewrite ?Hp, ?Hi; tauto.
Qed.

(* ---------- ensure_model ---------- *)
Lemma port_bit_new nm p b : ~ port_bit (new_model nm) p b.
Proof. intros [q [[] _]]. Qed.

Lemma same_sig_ensure nm ms : same_sig ms (ensure_model nm ms).
Proof.
  unfold ensure_model. destruct (find_model nm ms) eqn:E.
  - split; [auto|tauto].
  - split.
    + intros r Hr. rewrite map_app, in_app_iff. auto.
    + intros r p b. unfold sigb. rewrite find_model_app. destruct (find_model r ms) eqn:E2; [tauto|].
      split; [intros [m [H _]]; discriminate|].
      intros [m [H1 H2]]. cbn in H1. destruct (str_eqb nm r); [|discriminate].
      inversion H1; subst. exfalso. eapply port_bit_new; eauto.
Qed.

Lemma inv_ensure nm ms : Inv ms -> Inv (ensure_model nm ms).
Proof.
  intros [Hnd Hall]. pose proof (same_sig_ensure nm ms) as Hs.
  unfold ensure_model in *. destruct (find_model nm ms) eqn:E; [split; assumption|].
  split.
  - rewrite map_app. cbn. apply NoDup_app_iff. repeat split; auto.
    + constructor; [tauto|constructor].
    + intros x Hx [<-|[]]. apply find_model_None in E. contradiction.
  - intros m Hm. apply in_app_iff in Hm as [Hm|[<-|[]]].
    + apply (WFc_ext ms); auto.
    + constructor; cbn; try constructor; try tauto.
Qed.

Lemma ensure_model_finds nm ms : exists m, find_model nm (ensure_model nm ms) = Some m.
Proof.
  unfold ensure_model. destruct (find_model nm ms) eqn:E; [eauto|].
  rewrite find_model_app, E. cbn. rewrite str_eqb_refl. eauto.
Qed.

(* ---------- growth of a definition: new port bits, mirrored on every reference ---------- *)
Definition bump (r : str) (new : list (str * nat)) (i : inst) : inst :=
  if str_eqb (i_ref i) r then set_ipins i (i_pins i ++ new) else i.

Lemma add_pins_refs_eq r new ms :
  add_pins_refs r new ms = map (fun m => set_insts m (map (bump r new) (m_insts m))) ms.
Proof. reflexivity. Qed.

Lemma bump_ref r new i : i_ref (bump r new i) = i_ref i.
Proof. unfold bump. destruct (str_eqb (i_ref i) r); reflexivity. Qed.

Lemma find_model_add_pins r new ms nm :
  find_model nm (add_pins_refs r new ms) =
  option_map (fun m => set_insts m (map (bump r new) (m_insts m))) (find_model nm ms).
Proof.
  rewrite add_pins_refs_eq. unfold find_model. induction ms as [|m ms IH]; cbn; [reflexivity|].
  destruct (str_eqb (m_name m) nm); [reflexivity|exact IH].
Qed.

Lemma sigb_add_pins r new ms r' p b : sigb (add_pins_refs r new ms) r' p b <-> sigb ms r' p b.
Proof.
  unfold sigb. rewrite find_model_add_pins. destruct (find_model r' ms) as [m|]; cbn.
  - split; intros [m' [H1 H2]]; inversion H1; subst; eexists; split; try reflexivity; exact H2.
  - split; intros [m' [H1 _]]; discriminate.
Qed.

Lemma inv_grow r g new ms m :
  Inv ms -> find_model r ms = Some m ->
  m_name (g m) = r -> m_cables (g m) = m_cables m -> m_orphans (g m) = m_orphans m -> m_insts (g m) = m_insts m ->
  (forall p b, port_bit (g m) p b <-> port_bit m p b \/ In (p, b) new) ->
  NoDup new -> (forall p b, In (p, b) new -> ~ port_bit m p b) ->
  NoDup (map p_name (m_ports (g m))) ->
  Inv (add_pins_refs r new (upd_model r g ms)).
Proof.
  intros [Hnd Hall] Hfind Hgn Hgc Hgo Hgi Hgp Hnew Hfresh Hgports.
  pose proof (find_model_In _ _ _ Hfind) as [Hmin Hmn].
  assert (Huniq : forall x, In x ms -> m_name x = r -> x = m).
  { intros x Hx Hxn. pose proof (find_model_unique ms x Hnd Hx) as Hu. rewrite Hxn in Hu. congruence. }
  assert (Hgn' : forall x, m_name x = r -> In x ms -> m_name (g x) = r).
  { intros x Hxn Hx. rewrite (Huniq x Hx Hxn). assumption. }
  set (ms1 := upd_model r g ms).
  assert (Hnames1 : map m_name ms1 = map m_name ms).
  { unfold ms1, upd_model. rewrite map_map. clear -Hgn' Hnd. 
    assert (forall x, In x ms -> m_name (if str_eqb (m_name x) r then g x else x) = m_name x).
    { intros x Hx. destruct (str_eqb (m_name x) r) eqn:E; [|reflexivity]. apply str_eqb_spec in E.
      rewrite (Hgn' x E Hx). symmetry. exact E. }
    apply map_ext_in. intros a Ha. apply H. exact Ha. }
  assert (Hnames : map m_name (add_pins_refs r new ms1) = map m_name ms).
  { rewrite add_pins_refs_eq, map_map. cbn. exact Hnames1. }
  (* port bits of ms1 *)
  assert (Hfind1 : forall nm, find_model nm ms1 =
            match find_model nm ms with Some x => Some (if str_eqb (m_name x) r then g x else x) | None => None end).
  { intro nm. unfold ms1, find_model, upd_model. clear -Hgn' Hnd.
    induction ms as [|x ms IH]; cbn; [reflexivity|].
    assert (Hx : m_name (if str_eqb (m_name x) r then g x else x) = m_name x).
    { destruct (str_eqb (m_name x) r) eqn:E; [|reflexivity]. apply str_eqb_spec in E.
      rewrite (Hgn' x E (or_introl eq_refl)). symmetry. exact E. }
    rewrite Hx. destruct (str_eqb (m_name x) nm); [reflexivity|].
    cbn in Hnd. inversion Hnd as [|? ? Hn1 Hn2]; subst.
    apply IH; try assumption. intros y Hy Hin. apply Hgn'; [assumption|right; assumption]. }
  assert (Hsig : forall r' p b, sigb (add_pins_refs r new ms1) r' p b <-> sigb ms r' p b \/ (r' = r /\ In (p, b) new)).
  { intros r' p b. rewrite sigb_add_pins. unfold sigb. rewrite Hfind1.
    destruct (find_model r' ms) as [x|] eqn:E.
    - pose proof (find_model_In _ _ _ E) as [Hx Hxn].
      destruct (str_eqb (m_name x) r) eqn:Er.
      + apply str_eqb_spec in Er. assert (x = m) by (apply Huniq; auto). subst x. split.
        * intros [m' [H1 H2]]. inversion H1; subst m'. apply Hgp in H2 as [H2|H2]; [left; eauto|right; split; congruence].
        * intros [[m' [H1 H2]]|[H1 H2]].
          -- inversion H1; subst m'. eexists; split; [reflexivity|]. apply Hgp. auto.
          -- eexists; split; [reflexivity|]. apply Hgp. auto.
      + apply str_eqb_false in Er. split.
        * intros [m' [H1 H2]]. inversion H1; subst m'. left. eauto.
        * intros [H|[H1 H2]]; [assumption|]. exfalso. apply Er. congruence.
    - split; [intros [m' [H1 _]]; discriminate|]. intros [[m' [H1 _]]|[H1 H2]]; [discriminate|].
      subst r'. congruence. }
  split; [rewrite Hnames; assumption|].
  intros m' Hm'. rewrite add_pins_refs_eq in Hm'. apply in_map_iff in Hm' as [m1 [<- Hm1]].
  unfold ms1 in Hm1. apply In_upd_model in Hm1 as [m0 [Hm0 ->]].
  pose proof (Hall m0 Hm0) as [W1 W2 W3 W4 W5].
  assert (Hcab : m_cables (if str_eqb (m_name m0) r then g m0 else m0) = m_cables m0 /\
                 m_orphans (if str_eqb (m_name m0) r then g m0 else m0) = m_orphans m0 /\
                 m_insts (if str_eqb (m_name m0) r then g m0 else m0) = m_insts m0).
  { destruct (str_eqb (m_name m0) r) eqn:E; [|auto]. apply str_eqb_spec in E.
    rewrite (Huniq m0 Hm0 E). auto. }
  destruct Hcab as [Hc [Ho Hi]].
  constructor.
  - unfold all_wire_pins. cbn [set_insts m_cables m_orphans]. rewrite Hc, Ho. intros pr Hpr.
    specialize (W1 pr Hpr). destruct pr as [p b|i p b]; cbn in *.
    + destruct (str_eqb (m_name m0) r) eqn:E; [|assumption]. apply str_eqb_spec in E.
      rewrite (Huniq m0 Hm0 E). apply Hgp. left. rewrite <- (Huniq m0 Hm0 E). assumption.
    + destruct W1 as [x [Hx1 Hx2]]. exists (bump r new x). split.
      * rewrite Hi. rewrite nth_error_map, Hx1. reflexivity.
      * rewrite bump_ref. apply Hsig. auto.
  - unfold all_wire_pins. cbn [set_insts m_cables m_orphans]. rewrite Hc, Ho. exact W2.
  - cbn [set_insts m_insts]. rewrite Hi. intros x' Hx'. apply in_map_iff in Hx' as [x [<- Hx]].
    destruct (W3 x Hx) as [[rx Hrx] [Hdx Hmx]]. rewrite bump_ref. split; [|split].
    + apply find_model_some_iff. rewrite Hnames. apply find_model_some_iff. eauto.
    + unfold bump. destruct (str_eqb (i_ref x) r) eqn:E; [|assumption]. apply str_eqb_spec in E.
      cbn. apply NoDup_app_iff. repeat split; auto.
      intros [p b] H1 H2. apply Hmx in H1. rewrite E in H1. destruct H1 as [m1 [H3 H4]].
      assert (m1 = m) by congruence. subst m1. eapply Hfresh; eauto.
    + intros p b. rewrite Hsig. unfold bump. destruct (str_eqb (i_ref x) r) eqn:E.
      * apply str_eqb_spec in E. cbn. rewrite in_app_iff, Hmx. split; intros [H|H]; auto. tauto.
      * apply str_eqb_false in E. rewrite Hmx. split; [auto|]. intros [H|[H _]]; [assumption|contradiction].
  - cbn [set_insts m_ports]. destruct (str_eqb (m_name m0) r) eqn:E; [|assumption]. apply str_eqb_spec in E.
    rewrite (Huniq m0 Hm0 E). assumption.
  - cbn [set_insts m_cables]. rewrite Hc. assumption.
Qed.

Lemma find_model_upd' nm f ms r :
  (forall m, In m ms -> m_name m = nm -> m_name (f m) = nm) ->
  find_model r (upd_model nm f ms) =
  match find_model r ms with
  | Some m => Some (if str_eqb (m_name m) nm then f m else m)
  | None => None
  end.
Proof.
  unfold find_model, upd_model. induction ms as [|x ms IH]; intro Hf; cbn; [reflexivity|].
  assert (Hx : m_name (if str_eqb (m_name x) nm then f x else x) = m_name x).
  { destruct (str_eqb (m_name x) nm) eqn:E; [|reflexivity]. apply str_eqb_spec in E.
    rewrite (Hf x (or_introl eq_refl) E). symmetry. exact E. }
  rewrite Hx. destruct (str_eqb (m_name x) r); [reflexivity|].
  apply IH. intros y Hy. apply Hf. right. assumption.
Qed.

(* what a growth step does to the model called [nm] *)
Lemma find_model_grow r g new ms nm :
  (forall m, In m ms -> m_name m = r -> m_name (g m) = r) ->
  find_model nm (add_pins_refs r new (upd_model r g ms)) =
  match find_model nm ms with
  | Some x => let y := if str_eqb (m_name x) r then g x else x in
              Some (set_insts y (map (bump r new) (m_insts y)))
  | None => None
  end.
Proof.
  intro Hg. rewrite find_model_add_pins, (find_model_upd' _ _ _ _ Hg).
  destruct (find_model nm ms); reflexivity.
Qed.

Lemma port_bit_app m q p b :
  port_bit (set_ports m (m_ports m ++ [q])) p b <-> port_bit m p b \/ In (p, b) (bits_of q).
Proof.
  unfold port_bit. cbn. split.
  - intros [q' [H1 [H2 H3]]]. apply in_app_iff in H1 as [H1|[<-|[]]].
    + left. eauto.
    + right. apply bits_of_In. auto.
  - intros [[q' [H1 [H2 H3]]]|H].
    + exists q'. rewrite in_app_iff. auto.
    + apply bits_of_In in H as [-> H]. exists q. rewrite in_app_iff. cbn. auto.
Qed.

Lemma inv_add_port r q ms m :
  Inv ms -> find_model r ms = Some m -> find_port (p_name q) (m_ports m) = None ->
  Inv (add_port r q ms).
Proof.
  intros HI Hf Hp. unfold add_port.
  pose proof (find_model_In _ _ _ Hf) as [Hmin Hmn].
  pose proof (proj2 HI m Hmin) as [_ _ _ W4 _].
  apply find_port_None in Hp.
  apply (inv_grow r _ _ ms m); auto.
  - apply port_bit_app.
  - unfold bits_of. apply NoDup_map_pair. apply seq_NoDup.
  - intros p b H1 [q' [H2 [H3 H4]]]. apply bits_of_In in H1 as [-> _]. apply Hp. rewrite <- H3. apply in_map. assumption.
  - cbn. rewrite map_app. cbn. apply NoDup_app_iff. repeat split; auto.
    + constructor; [intros []|constructor].
    + intros x Hx [<-|[]]. contradiction.
Qed.

Lemma port_bit_widen m p w q0 :
  NoDup (map p_name (m_ports m)) -> find_port p (m_ports m) = Some q0 -> p_width q0 < w ->
  forall p' b', port_bit (set_ports m (upd_port p (fun q => set_pwidth q w) (m_ports m))) p' b' <->
    port_bit m p' b' \/ In (p', b') (map (pair p) (seq (p_width q0) (w - p_width q0))).
Proof.
  intros Hnd Hf Hw p' b'. pose proof (find_port_In _ _ _ Hf) as [Hq0 Hq0n].
  assert (Huniq : forall q, In q (m_ports m) -> p_name q = p -> q = q0).
  { intros q Hq Hqn. pose proof (find_port_unique _ q Hnd Hq) as Hu. rewrite Hqn in Hu. congruence. }
  unfold port_bit. cbn [set_ports m_ports]. rewrite in_map_iff. split.
  - intros [q' [H1 [H2 H3]]]. apply In_upd_port in H1 as [q [Hq ->]].
    destruct (str_eqb (p_name q) p) eqn:E.
    + apply str_eqb_spec in E. cbn in H2, H3. rewrite (Huniq q Hq E) in *.
      destruct (Nat.lt_ge_cases b' (p_width q0)).
      * left. exists q0. auto.
      * right. exists b'. split; [congruence|]. apply in_seq. lia.
    + left. eauto.
  - intros [[q [H1 [H2 H3]]]|[k [H1 H2]]].
    + exists (if str_eqb (p_name q) p then set_pwidth q w else q). split; [apply In_upd_port; eauto|].
      destruct (str_eqb (p_name q) p) eqn:E; [|auto]. apply str_eqb_spec in E. cbn.
      rewrite (Huniq q H1 E) in *. split; [assumption|]. lia.
    + inversion H1; subst. apply in_seq in H2. exists (set_pwidth q0 w). split.
      * apply In_upd_port. exists q0. rewrite str_eqb_refl. auto.
      * cbn. split; [reflexivity|lia].
Qed.

(* ---------- frame of the growth steps ---------- *)
Definition grows (ms ms' : list model) : Prop :=
  (forall r, In r (map m_name ms) -> In r (map m_name ms')) /\
  forall nm m, find_model nm ms = Some m -> exists m', find_model nm ms' = Some m' /\
     (forall p b, port_bit m p b -> port_bit m' p b) /\
     (forall p, In p (map p_name (m_ports m)) -> In p (map p_name (m_ports m'))) /\
     m_cables m' = m_cables m /\ m_orphans m' = m_orphans m /\
     (forall i x, nth_error (m_insts m) i = Some x ->
        exists x', nth_error (m_insts m') i = Some x' /\ i_ref x' = i_ref x) /\
     length (m_insts m') = length (m_insts m).

Lemma grows_refl ms : grows ms ms.
Proof. split; [auto|]. intros nm m H. exists m. repeat split; eauto. Qed.

Lemma grows_trans a b c : grows a b -> grows b c -> grows a c.
Proof.
  intros [A1 A2] [B1 B2]. split; [auto|]. intros nm m H.
  destruct (A2 nm m H) as [m1 [H1 [P1 [N1 [C1 [O1 [I1 L1]]]]]]].
  destruct (B2 nm m1 H1) as [m2 [H2 [P2 [N2 [C2 [O2 [I2 L2]]]]]]].
  exists m2. repeat split; auto; try congruence.
  intros i x Hx. destruct (I1 i x Hx) as [x1 [Hx1 R1]]. destruct (I2 i x1 Hx1) as [x2 [Hx2 R2]].
  exists x2. split; congruence.
Qed.

Lemma grows_ensure nm ms : grows ms (ensure_model nm ms).
Proof.
  unfold ensure_model. destruct (find_model nm ms) eqn:E; [apply grows_refl|].
  split.
  - intros r Hr. rewrite map_app, in_app_iff. auto.
  - intros r m H. exists m. rewrite find_model_app, H. repeat split; eauto.
Qed.

Lemma grows_step r g new ms :
  (forall m, In m ms -> m_name m = r -> m_name (g m) = r) ->
  (forall m, In m ms -> m_name m = r ->
     (forall p b, port_bit m p b -> port_bit (g m) p b) /\
     (forall p, In p (map p_name (m_ports m)) -> In p (map p_name (m_ports (g m)))) /\
     m_cables (g m) = m_cables m /\ m_orphans (g m) = m_orphans m /\ m_insts (g m) = m_insts m) ->
  grows ms (add_pins_refs r new (upd_model r g ms)).
Proof.
  intros Hn Hg. split.
  - intros x Hx. rewrite add_pins_refs_eq, map_map. cbn.
    unfold upd_model. rewrite map_map. apply in_map_iff in Hx as [m [<- Hm]].
    apply in_map_iff. exists m. split; [|assumption].
    destruct (str_eqb (m_name m) r) eqn:E; [|reflexivity]. apply str_eqb_spec in E. rewrite (Hn m Hm E). auto.
  - intros nm m H. rewrite (find_model_grow _ _ _ _ _ Hn), H. cbn zeta.
    pose proof (find_model_In _ _ _ H) as [Hin Hnm].
    eexists. split; [reflexivity|]. cbn [set_insts m_ports m_cables m_orphans m_insts].
    assert (Hy : let y := if str_eqb (m_name m) r then g m else m in
                 (forall p b, port_bit m p b -> port_bit y p b) /\
                 (forall p, In p (map p_name (m_ports m)) -> In p (map p_name (m_ports y))) /\
                 m_cables y = m_cables m /\ m_orphans y = m_orphans m /\ m_insts y = m_insts m).
    { cbn zeta. destruct (str_eqb (m_name m) r) eqn:E; [|repeat split; auto].
      apply str_eqb_spec in E. apply Hg; auto. }
    cbn zeta in Hy. destruct Hy as [Y1 [Y2 [Y3 [Y4 Y5]]]].
    repeat split; auto.
    + intros i x Hx. rewrite Y5, nth_error_map, Hx. cbn. eexists. split; [reflexivity|]. apply bump_ref.
    + rewrite map_length, Y5. reflexivity.
Qed.

Lemma grows_add_port r q ms : grows ms (add_port r q ms).
Proof.
  unfold add_port. apply grows_step.
  - intros; assumption.
  - intros m Hm Hn. repeat split; auto.
    + intros p b [q' [H1 H2]]. exists q'. cbn. rewrite in_app_iff. auto.
    + intros p Hp. cbn. rewrite map_app, in_app_iff. auto.
Qed.

Lemma upd_port_notin p f ps : ~ In p (map p_name ps) -> upd_port p f ps = ps.
Proof.
  unfold upd_port. induction ps as [|x ps IH]; cbn; [reflexivity|]. intro H.
  destruct (str_eqb (p_name x) p) eqn:E.
  - apply str_eqb_spec in E. exfalso. apply H. auto.
  - f_equal. apply IH. tauto.
Qed.

Lemma port_width_find p m q0 : find_port p (m_ports m) = Some q0 -> port_width p m = p_width q0.
Proof. unfold port_width. intros ->. reflexivity. Qed.

Lemma grows_grow_port r p w ms : Inv ms -> grows ms (grow_port r p w ms).
Proof.
  intros [Hnd Hall]. unfold grow_port. destruct (find_model r ms) as [m|] eqn:E; [|apply grows_refl].
  destruct (Nat.ltb (port_width p m) w) eqn:Hw; [|apply grows_refl].
  apply Nat.ltb_lt in Hw. apply grows_step.
  - intros; assumption.
  - intros x Hx Hn.
    assert (x = m).
    { pose proof (find_model_unique ms x Hnd Hx) as Hu. rewrite Hn in Hu. congruence. }
    subst x. pose proof (Hall m Hx) as [_ _ _ W4 _].
    repeat split; auto.
    + intros p' b' Hp. destruct (find_port p (m_ports m)) as [q0|] eqn:Ef.
      * rewrite (port_width_find _ _ _ Ef) in Hw. apply (port_bit_widen m p w q0 W4 Ef Hw). auto.
      * apply find_port_None in Ef. cbn. unfold port_bit. cbn. rewrite (upd_port_notin _ _ _ Ef). exact Hp.
    + intros p' Hp'. cbn. rewrite upd_port_names; auto.
Qed.

Lemma inv_grow_port r p w ms m q0 :
  Inv ms -> find_model r ms = Some m -> find_port p (m_ports m) = Some q0 ->
  Inv (grow_port r p w ms).
Proof.
  intros HI Hf Hp. unfold grow_port. rewrite Hf. rewrite (port_width_find _ _ _ Hp).
  destruct (Nat.ltb (p_width q0) w) eqn:Hw; [|assumption]. apply Nat.ltb_lt in Hw.
  pose proof (find_model_In _ _ _ Hf) as [Hmin Hmn].
  pose proof (proj2 HI m Hmin) as [_ _ _ W4 _].
  pose proof (find_port_In _ _ _ Hp) as [Hq0 Hq0n].
  apply (inv_grow r _ _ ms m); auto.
  - apply port_bit_widen; assumption.
  - apply NoDup_map_pair. apply seq_NoDup.
  - intros p' b' H1 [q [H2 [H3 H4]]]. apply in_map_iff in H1 as [k [H1 H5]].
    injection H1 as E1 E2. apply in_seq in H5.
    pose proof (find_port_unique _ q W4 H2) as Hu. rewrite H3, <- E1 in Hu.
    assert (q = q0) by congruence. subst q. lia.
  - cbn. rewrite upd_port_names; auto.
Qed.

(* after growing, the bits are there *)
Lemma grow_port_bits r p w ms m q0 :
  Inv ms -> find_model r ms = Some m -> find_port p (m_ports m) = Some q0 ->
  exists m', find_model r (grow_port r p w ms) = Some m' /\ (forall b, b < w -> port_bit m' p b).
Proof.
  intros HI Hf Hp. pose proof (find_model_In _ _ _ Hf) as [Hmin Hmn].
  pose proof (proj2 HI m Hmin) as [_ _ _ W4 _].
  pose proof (find_port_In _ _ _ Hp) as [Hq0 Hq0n].
  unfold grow_port. rewrite Hf, (port_width_find _ _ _ Hp).
  destruct (Nat.ltb (p_width q0) w) eqn:Hw.
  - apply Nat.ltb_lt in Hw. rewrite find_model_grow; [|intros; assumption]. rewrite Hf. cbn zeta.
    rewrite Hmn, str_eqb_refl. eexists. split; [reflexivity|]. intros b Hb.
    assert (Hpb : port_bit (set_ports m (upd_port p (fun q => set_pwidth q w) (m_ports m))) p b).
    { apply (port_bit_widen m p w q0 W4 Hp Hw). destruct (Nat.lt_ge_cases b (p_width q0)).
      - left. exists q0. auto.
      - right. apply in_map. apply in_seq. lia. }
    destruct Hpb as [q Hq]. exists q. exact Hq.
  - apply Nat.ltb_ge in Hw. exists m. split; [assumption|]. intros b Hb. exists q0. repeat split; auto. lia.
Qed.

(* ---------- create_child ---------- *)
Lemma sigb_find ms r m p b : find_model r ms = Some m -> (sigb ms r p b <-> port_bit m p b).
Proof.
  intro H. unfold sigb. split.
  - intros [m' [H1 H2]]. congruence.
  - eauto.
Qed.

Lemma inv_add_child cur ref k ms rm :
  Inv ms -> find_model ref ms = Some rm -> Inv (add_child cur ref k ms).
Proof.
  intros HI Hr. unfold add_child, get_model. rewrite Hr.
  pose proof (find_model_In _ _ _ Hr) as [Hrin Hrn].
  pose proof (proj2 HI rm Hrin) as [_ _ _ R4 _].
  apply inv_upd_model; auto.
  - intros; tauto.
  - intros m Hm Hn [W1 W2 W3 W4 W5]. constructor; auto.
    + intros pr Hpr. specialize (W1 pr Hpr). destruct pr as [p b|i p b]; cbn in *; [assumption|].
      destruct W1 as [x [H1 H2]]. exists x. split; [|assumption].
      rewrite nth_error_app1; [assumption|]. apply nth_error_Some. congruence.
    + cbn. intros x Hx. apply in_app_iff in Hx as [Hx|[<-|[]]]; [auto|]. cbn. split; [eauto|]. split.
      * apply all_pins_NoDup. assumption.
      * intros p b. rewrite all_pins_In. symmetry. apply sigb_find. assumption.
Qed.

(* ---------- data of an instance ---------- *)
Lemma inv_upd_inst cur idx f ms :
  Inv ms -> (forall i, i_ref (f i) = i_ref i /\ i_pins (f i) = i_pins i) ->
  Inv (upd_model cur (upd_inst idx f) ms).
Proof.
  intros HI Hf. apply inv_upd_model; auto.
  - intros; tauto.
  - intros m Hm Hn [W1 W2 W3 W4 W5]. constructor; auto.
    + intros pr Hpr. specialize (W1 pr Hpr). destruct pr as [p b|i p b]; cbn in *; [assumption|].
      destruct W1 as [x [H1 H2]]. rewrite nth_error_upd_nth, H1.
      destruct (Nat.eqb i idx); cbn; eexists; split; try reflexivity; [|assumption].
      rewrite (proj1 (Hf x)). assumption.
    + cbn. intros x Hx. apply In_upd_nth in Hx as [Hx|[y [Hy ->]]]; [auto|].
      destruct (Hf y) as [E1 E2]. rewrite E1, E2. auto.
Qed.

Lemma set_inst_name_inv cur idx nm ms ms' :
  Inv ms -> upd_model_res cur (set_inst_name idx nm) ms = Ok ms' -> Inv ms'.
Proof.
  intros HI H. unfold upd_model_res in H. destruct (find_model cur ms) as [m|] eqn:E; [|discriminate].
  apply bind_ok in H as [m' [H1 H2]]. inversion H2; subst ms'. unfold set_inst_name in H1.
  destruct (name_taken nm idx (m_insts m)); [discriminate|]. inversion H1; subst m'.
  pose proof (find_model_In _ _ _ E) as [Hin Hn]. destruct HI as [Hnd Hall].
  assert (Heq : upd_model cur (fun _ => upd_inst idx (fun i => set_iname i (Some nm)) m) ms
                = upd_model cur (upd_inst idx (fun i => set_iname i (Some nm))) ms).
  { unfold upd_model. apply map_ext_in. intros x Hx. destruct (str_eqb (m_name x) cur) eqn:Ex; [|reflexivity].
    apply str_eqb_spec in Ex. pose proof (find_model_unique ms x Hnd Hx) as Hu. rewrite Ex in Hu. congruence. }
  rewrite Heq. apply inv_upd_inst; [split; assumption|]. intros i. split; reflexivity.
Qed.

(* ---------- make_blackbox ---------- *)
Lemma inv_blackbox cur ms :
  Inv ms -> Inv (upd_model cur (fun m => set_cables m []) ms).
Proof.
  intro HI. apply inv_upd_model; auto.
  - intros; tauto.
  - intros m Hm Hn [W1 W2 W3 W4 W5].
    assert (Hsub : forall pr, In pr (all_wire_pins (set_cables m [])) -> In pr (all_wire_pins m)).
    { unfold all_wire_pins. cbn [set_cables m_cables m_orphans app]. intros pr H.
      rewrite cable_pins_app. apply in_app_iff. right. exact H. }
    constructor; auto.
    + intros pr Hpr. apply Hsub in Hpr. apply W1 in Hpr. destruct pr; cbn in *; assumption.
    + unfold all_wire_pins in *. cbn [set_cables m_cables m_orphans app]. rewrite cable_pins_app in W2.
      apply NoDup_app_iff in W2. tauto.
    + cbn. constructor.
Qed.

(* ---------- .conn ---------- *)
Lemma pad_wires_concat k ws : concat (pad_wires k ws) = concat ws.
Proof.
  revert ws. induction k as [|k IH]; intros [|w ws]; cbn; auto.
  - apply (IH []).
  - rewrite IH. reflexivity.
Qed.

Lemma upd_cable_concat_eq c f cs :
  (forall ws, concat (f ws) = concat ws) -> cable_pins (upd_cable c f cs) = cable_pins cs.
Proof.
  intro Hf. induction cs as [|x cs IH]; [reflexivity|]. cbn [upd_cable map].
  fold (upd_cable c f cs). rewrite !cable_pins_cons, IH.
  destruct (str_eqb (c_name x) c); cbn [c_wires]; [rewrite Hf|]; reflexivity.
Qed.

Lemma ensure_wire_pins c k cs : cable_pins (ensure_wire c k cs) = cable_pins cs.
Proof.
  unfold ensure_wire. destruct (find_cable c cs).
  - apply upd_cable_concat_eq. apply pad_wires_concat.
  - rewrite cable_pins_app. unfold cable_pins at 2. cbn [flat_map c_wires]. rewrite app_nil_r, pad_wires_concat.
    cbn. apply app_nil_r.
Qed.

Lemma ensure_wire_names c k cs :
  NoDup (map c_name cs) -> NoDup (map c_name (ensure_wire c k cs)).
Proof.
  intro H. unfold ensure_wire. destruct (find_cable c cs) eqn:E.
  - rewrite upd_cable_names. assumption.
  - rewrite map_app. cbn. apply NoDup_app_iff. repeat split; auto.
    + constructor; [intros []|constructor].
    + intros x Hx [<-|[]]. apply find_cable_None in E. contradiction.
Qed.

Lemma find_cable_upd c f cs c' :
  find_cable c' (upd_cable c f cs) =
  match find_cable c' cs with
  | Some x => Some (if str_eqb (c_name x) c then mkCable (c_name x) (f (c_wires x)) else x)
  | None => None
  end.
Proof.
  unfold find_cable, upd_cable. induction cs as [|x cs IH]; cbn; [reflexivity|].
  destruct (str_eqb (c_name x) c) eqn:E; cbn; destruct (str_eqb (c_name x) c'); auto; rewrite E; reflexivity.
Qed.

Lemma find_cable_app c cs x :
  find_cable c (cs ++ [x]) =
  match find_cable c cs with Some y => Some y | None => if str_eqb (c_name x) c then Some x else None end.
Proof.
  unfold find_cable. induction cs as [|y cs IH]; cbn; [reflexivity|].
  destruct (str_eqb (c_name y) c); [reflexivity|exact IH].
Qed.

Lemma ensure_wire_finds c k cs : exists x, find_cable c (ensure_wire c k cs) = Some x.
Proof.
  unfold ensure_wire. destruct (find_cable c cs) eqn:E.
  - rewrite find_cable_upd, E. eauto.
  - rewrite find_cable_app, E. cbn. rewrite str_eqb_refl. eauto.
Qed.

Lemma ensure_wire_keeps c k cs c' x :
  find_cable c' cs = Some x -> exists y, find_cable c' (ensure_wire c k cs) = Some y.
Proof.
  intro H. unfold ensure_wire. destruct (find_cable c cs) eqn:E.
  - rewrite find_cable_upd, H. eauto.
  - rewrite find_cable_app, H. eauto.
Qed.

(* removing pins [extra ws] from the unique cable named c *)
Lemma upd_cable_rm_perm c f (extra : list wire -> list pinref) cs x :
  NoDup (map c_name cs) -> find_cable c cs = Some x ->
  (forall ws, Permutation (extra ws ++ concat (f ws)) (concat ws)) ->
  Permutation (extra (c_wires x) ++ cable_pins (upd_cable c f cs)) (cable_pins cs).
Proof.
  intros Hnd Hf Hp. induction cs as [|y cs IH]; [discriminate|].
  inversion Hnd as [|? ? Hn Hd]; subst. cbn [upd_cable map]. fold (upd_cable c f cs).
  unfold find_cable in Hf. cbn in Hf. destruct (str_eqb (c_name y) c) eqn:E.
  - inversion Hf; subst y. apply str_eqb_spec in E. subst c.
    rewrite (upd_cable_notin _ _ _ Hn). rewrite !cable_pins_cons. cbn [c_wires].
    rewrite app_assoc, Hp. reflexivity.
  - fold (find_cable c cs) in Hf. rewrite !cable_pins_cons. rewrite <- (IH Hd Hf).
    rewrite !app_assoc. apply Permutation_app_tail. apply Permutation_app_comm.
Qed.

Lemma upd_cable_app c f a b : upd_cable c f (a ++ b) = upd_cable c f a ++ upd_cable c f b.
Proof. unfold upd_cable. apply map_app. Qed.

Lemma upd_cable_snoc c f cs x : c_name x <> c -> upd_cable c f (cs ++ [x]) = upd_cable c f cs ++ [x].
Proof.
  intro H. rewrite upd_cable_app. f_equal. cbn. apply str_eqb_false in H. rewrite H. reflexivity.
Qed.

Lemma cable_pins_snoc cs x : cable_pins (cs ++ [x]) = cable_pins cs ++ concat (c_wires x).
Proof. rewrite cable_pins_app. unfold cable_pins at 2. cbn. rewrite app_nil_r. reflexivity. Qed.

(* ---------- wires addressed by (cable, position): set_wire ---------- *)
Lemma nth_upd_nth_other {A} k (f : A -> A) l k' d : k' <> k -> nth k' (upd_nth k f l) d = nth k' l d.
Proof.
  revert k k'. induction l as [|x l IH]; intros [|k] [|k'] H; cbn; try reflexivity; try congruence.
  apply IH. congruence.
Qed.

Lemma wire_at_set_wire_other c k f cs c' k' :
  (c' <> c \/ k' <> k) -> wire_at c' k' (set_wire c k f cs) = wire_at c' k' cs.
Proof.
  intro H. unfold wire_at, set_wire. rewrite find_cable_upd. destruct (find_cable c' cs) as [x|] eqn:E; [|reflexivity].
  destruct (str_eqb (c_name x) c) eqn:Ec; [|reflexivity]. cbn [c_wires].
  apply str_eqb_spec in Ec. apply find_cable_In in E as [_ E]. destruct H as [H|H]; [congruence|].
  apply nth_upd_nth_other. exact H.
Qed.

Lemma upd_nth_nil_perm {A} k (ws : list (list A)) :
  Permutation (nth k ws [] ++ concat (upd_nth k (fun _ => []) ws)) (concat ws).
Proof.
  revert ws. induction k as [|k IH]; intros [|w ws]; cbn; try reflexivity.
  rewrite <- (IH ws). rewrite !app_assoc. apply Permutation_app_tail. apply Permutation_app_comm.
Qed.

(* emptying wire (c, k): its pins leave the cable *)
Lemma set_wire_nil_perm c k cs :
  NoDup (map c_name cs) ->
  Permutation (wire_at c k cs ++ cable_pins (set_wire c k (fun _ => []) cs)) (cable_pins cs).
Proof.
  intro Hnd. unfold wire_at, set_wire. destruct (find_cable c cs) as [x|] eqn:E.
  - apply (upd_cable_rm_perm c (upd_nth k (fun _ => [])) (fun ws => nth k ws []) cs x Hnd E). apply upd_nth_nil_perm.
  - apply find_cable_None in E. rewrite (upd_cable_notin _ _ _ E). reflexivity.
Qed.

Lemma upd_nth_app_concat {A} k (w : list A) (ws : list (list A)) :
  k < length ws -> Permutation (concat (upd_nth k (fun w1 => w1 ++ w) ws)) (w ++ concat ws).
Proof.
  revert ws. induction k as [|k IH]; intros [|w0 ws] H; cbn in *; try lia.
  - rewrite (app_assoc w w0). apply Permutation_app_tail. apply Permutation_app_comm.
  - rewrite IH by lia. rewrite !app_assoc. apply Permutation_app_tail. apply Permutation_app_comm.
Qed.

Lemma upd_nth_beyond {A} k (f : A -> A) l : length l <= k -> upd_nth k f l = l.
Proof. revert k. induction l as [|x l IH]; intros [|k] H; cbn in *; try reflexivity; try lia. f_equal. apply IH. lia. Qed.

Lemma upd_cable_perm_at c f cs x extra :
  NoDup (map c_name cs) -> find_cable c cs = Some x ->
  Permutation (concat (f (c_wires x))) (extra ++ concat (c_wires x)) ->
  Permutation (cable_pins (upd_cable c f cs)) (extra ++ cable_pins cs).
Proof.
  intros Hnd Hf Hp. induction cs as [|y cs IH]; [discriminate|].
  inversion Hnd as [|? ? Hn Hd]; subst. cbn [upd_cable map]. fold (upd_cable c f cs).
  unfold find_cable in Hf. cbn in Hf. destruct (str_eqb (c_name y) c) eqn:E.
  - inversion Hf; subst y. apply str_eqb_spec in E. subst c.
    rewrite (upd_cable_notin _ _ _ Hn). rewrite !cable_pins_cons. cbn [c_wires]. rewrite Hp, app_assoc. reflexivity.
  - fold (find_cable c cs) in Hf. rewrite !cable_pins_cons. rewrite (IH Hd Hf).
    rewrite !app_assoc. apply Permutation_app_tail. apply Permutation_app_comm.
Qed.

Lemma find_cable_unique cs x :
  NoDup (map c_name cs) -> In x cs -> find_cable (c_name x) cs = Some x.
Proof.
  unfold find_cable. induction cs as [|y cs IH]; cbn; [tauto|].
  intros Hnd [->|Hin].
  - rewrite str_eqb_refl. reflexivity.
  - inversion Hnd; subst. destruct (str_eqb (c_name y) (c_name x)) eqn:E.
    + apply str_eqb_spec in E. exfalso. apply H1. rewrite E. apply in_map. assumption.
    + auto.
Qed.

(* appending [w] to wire (c, k): the pins arrive if that wire exists, otherwise nothing changes *)
Lemma set_wire_app_perm c k w cs :
  NoDup (map c_name cs) ->
  Permutation (cable_pins (set_wire c k (fun w1 => w1 ++ w) cs)) (w ++ cable_pins cs) \/
  set_wire c k (fun w1 => w1 ++ w) cs = cs.
Proof.
  intro Hnd. unfold set_wire. destruct (find_cable c cs) as [x|] eqn:E.
  - destruct (Nat.lt_ge_cases k (length (c_wires x))) as [Hk|Hk].
    + left. apply (upd_cable_perm_at c _ cs x w Hnd E). apply upd_nth_app_concat. exact Hk.
    + right. unfold upd_cable. rewrite <- (map_id cs) at 2. apply map_ext_in. intros y Hy.
      destruct (str_eqb (c_name y) c) eqn:Ey; [|reflexivity]. apply str_eqb_spec in Ey.
      assert (y = x).
      { pose proof (find_cable_unique cs y Hnd Hy) as Hu. rewrite Ey in Hu. congruence. }
      subst y. rewrite upd_nth_beyond by exact Hk. destruct x; reflexivity.
  - right. apply find_cable_None in E. apply upd_cable_notin. exact E.
Qed.

Lemma set_wire_names c k f cs : map c_name (set_wire c k f cs) = map c_name cs.
Proof. apply upd_cable_names. Qed.

Lemma nb_eqb_true x y : nb_eqb x y = true <-> x = y.
Proof.
  destruct x as [c k], y as [c' k']. unfold nb_eqb. cbn [fst snd]. rewrite andb_true_iff. split.
  - intros [H1 H2]. apply str_eqb_spec in H1. apply Nat.eqb_eq in H2. congruence.
  - intro H. inversion H. rewrite str_eqb_refl, Nat.eqb_refl. auto.
Qed.

Lemma nb_eqb_false x y : nb_eqb x y = false <-> x <> y.
Proof.
  split.
  - intros H E. apply nb_eqb_true in E. congruence.
  - intro H. destruct (nb_eqb x y) eqn:E; [|reflexivity]. apply nb_eqb_true in E. contradiction.
Qed.

(* .conn keeps every pin that is on a wire on a wire, once (a wire named by a stale table entry could
   in principle be missing: then pins would leave; [extra]) *)
Lemma do_conn_spec al a i b j m m' :
  do_conn al a i b j m = Ok m' -> NoDup (map c_name (m_cables m)) ->
  m_name m' = m_name m /\ m_ports m' = m_ports m /\ m_insts m' = m_insts m /\ m_orphans m' = m_orphans m /\
  NoDup (map c_name (m_cables m')) /\
  exists extra, Permutation (extra ++ all_wire_pins m') (all_wire_pins m).
Proof.
  unfold do_conn. intros H Hnd.
  set (cs1 := ensure_wire a i (m_cables m)) in *. set (cs2 := ensure_wire b j cs1) in *.
  set (x := merged_into al (a, i)) in *. set (y := merged_into al (b, j)) in *.
  assert (Hnd2 : NoDup (map c_name cs2)) by (apply ensure_wire_names, ensure_wire_names; assumption).
  assert (Hp2 : cable_pins cs2 = cable_pins (m_cables m)).
  { unfold cs2, cs1. rewrite !ensure_wire_pins. reflexivity. }
  destruct (nb_eqb x y) eqn:Exy; inversion H; subst m'; clear H;
    cbn [set_cables m_name m_ports m_insts m_orphans m_cables]; repeat split; auto.
  - exists []. unfold all_wire_pins. cbn [set_cables m_cables m_orphans app]. rewrite !cable_pins_app, Hp2. reflexivity.
  - rewrite !set_wire_names. exact Hnd2.
  - apply nb_eqb_false in Exy.
    set (w := wire_at (fst y) (snd y) cs2) in *.
    set (cs3 := set_wire (fst x) (snd x) (fun w1 => w1 ++ w) cs2) in *.
    assert (Hnd3 : NoDup (map c_name cs3)) by (unfold cs3; rewrite set_wire_names; exact Hnd2).
    assert (Hw : wire_at (fst y) (snd y) cs3 = w).
    { unfold cs3. apply wire_at_set_wire_other. destruct x as [xc xk], y as [yc yk]. cbn [fst snd] in *.
      destruct (str_eqb yc xc) eqn:E1; [|left; apply str_eqb_false; exact E1]. apply str_eqb_spec in E1. subst yc.
      right. intro E. subst yk. apply Exy. reflexivity. }
    pose proof (set_wire_nil_perm (fst y) (snd y) cs3 Hnd3) as P1. rewrite Hw in P1.
    unfold all_wire_pins. cbn [set_cables m_cables m_orphans]. rewrite !cable_pins_app. rewrite <- Hp2.
    destruct (set_wire_app_perm (fst x) (snd x) w cs2 Hnd2) as [P2|P2]; fold cs3 in P2.
    + exists []. cbn [app]. apply Permutation_app_tail.
      apply (Permutation_app_inv_l w). rewrite P1, P2. reflexivity.
    + exists w. rewrite app_assoc. apply Permutation_app_tail. rewrite P1, P2. reflexivity.
Qed.

Lemma do_conn_WFc ms al a i b j m m' : do_conn al a i b j m = Ok m' -> WFc ms m -> WFc ms m'.
Proof.
  intros H [W1 W2 W3 W4 W5]. destruct (do_conn_spec _ _ _ _ _ _ _ H W5) as [Hn [Hp [Hi [Ho [Hc [extra Hperm]]]]]].
  constructor.
  - intros pr Hpr. apply (pin_ok_same ms m m'); auto. apply W1. eapply Permutation_in; [exact Hperm|].
    apply in_app_iff. auto.
  - apply (Permutation_NoDup (Permutation_sym Hperm)) in W2. apply NoDup_app_iff in W2. tauto.
  - rewrite Hi. assumption.
  - rewrite Hp. assumption.
  - assumption.
Qed.

(* ---------- connect_to: connect through the table of merged wires ---------- *)
Lemma connect_to_spec al pr c k m m' :
  connect_to al pr c k m = Ok m' ->
  NoDup (map c_name (m_cables m)) ->
  ~ In pr (all_wire_pins m) /\
  m_name m' = m_name m /\ m_ports m' = m_ports m /\ m_insts m' = m_insts m /\
  m_orphans m' = m_orphans m /\
  NoDup (map c_name (m_cables m')) /\
  (Permutation (all_wire_pins m') (pr :: all_wire_pins m) \/ all_wire_pins m' = all_wire_pins m).
Proof.
  unfold connect_to. destruct (connected m pr) eqn:Ec; [discriminate|]. intros H Hnd. inversion H; subst m'. clear H.
  assert (Hnc : ~ In pr (all_wire_pins m)).
  { intro Hin. apply connected_In in Hin. congruence. }
  set (t := merged_into al (c, k)). set (cs := ensure_wire c k (m_cables m)).
  assert (Hnd2 : NoDup (map c_name cs)) by (apply ensure_wire_names; assumption).
  unfold set_cables. cbn [m_name m_ports m_insts m_orphans m_cables]. repeat split; auto.
  - rewrite upd_cable_names. exact Hnd2.
  - unfold all_wire_pins. cbn [m_cables m_orphans]. rewrite !cable_pins_app.
    rewrite <- (ensure_wire_pins c k (m_cables m)). fold cs.
    destruct (in_dec (list_eq_dec N.eq_dec) (fst t) (map c_name cs)) as [Hin|Hin].
    + left. rewrite (upd_cable_perm (fst t) _ cs [pr] Hnd2 Hin); [reflexivity|]. intro ws. apply add_to_wire_perm.
    + right. rewrite (upd_cable_notin _ _ _ Hin). reflexivity.
Qed.

Lemma connect_to_WFc ms al pr c k m m' :
  connect_to al pr c k m = Ok m' -> WFc ms m -> pin_ok ms m pr -> WFc ms m'.
Proof.
  intros H [H1 H2 H3 H4 H5] Hok.
  destruct (connect_to_spec _ _ _ _ _ _ H H5) as [Hnc [Hn [Hp [Hi [Ho [Hc Hperm]]]]]].
  constructor.
  - intros pr' Hin. apply (pin_ok_same ms m m'); auto.
    destruct Hperm as [Hperm|Heq]; [|rewrite Heq in Hin; auto].
    apply (Permutation_in _ Hperm) in Hin. destruct Hin as [<-|Hin]; auto.
  - destruct Hperm as [Hperm|Heq]; [|rewrite Heq; assumption].
    apply (Permutation_NoDup (Permutation_sym Hperm)). constructor; assumption.
  - rewrite Hi. assumption.
  - rewrite Hp. assumption.
  - assumption.
Qed.
