(* Proofs about the whole-file EDIF writer model (Fmt/EdifEmit.v):
     file_eqb_eq          the boolean equality of netlist values is sound
     rt_check_sound       the round-trip checker: rt_check = true -> the document written is read
                          back by the reader model as [norm_file n]
     rt_check_text        ... from CHARACTERS: the text printed for the document, tokenized and read
     emit_deterministic   emit_file is a function of the value (and of the timestamp parameter)
     prepass_* / emit_prepass_idem   second write of an unchanged netlist *)
From Coq Require Import List NArith ZArith Bool Arith String Lia.
From SV Require Import Base.Base Fmt.EdifTopo Fmt.EdifLex Fmt.EdifName Fmt.EdifCable Fmt.EdifBus Fmt.EdifNets
  Fmt.EdifFile Fmt.EdifEmit Proofs.EdifLexProofs Proofs.EdifTopoProofs Proofs.EdifFileText.
Import ListNotations.
Local Open Scope N_scope.

Lemma list_eqb_eq {X} (e : X -> X -> bool) : (forall x y, e x y = true -> x = y) ->
  forall a b, list_eqb e a b = true -> a = b.
Proof.
  intros He. induction a as [|x a IH]; destruct b as [|y b]; cbn; try discriminate; auto.
  intros H. apply andb_true_iff in H as [H1 H2]. f_equal; auto.
Qed.

Lemma opt_eqb_eq {X} (e : X -> X -> bool) : (forall x y, e x y = true -> x = y) ->
  forall a b, opt_eqb e a b = true -> a = b.
Proof. intros He [x|] [y|]; cbn; try discriminate; auto. intros H. f_equal; auto. Qed.

Lemma str_eqb_eq a b : str_eqb a b = true -> a = b.
Proof. apply str_eqb_spec. Qed.

Ltac split_andb :=
  repeat match goal with H : _ && _ = true |- _ => apply andb_true_iff in H; destruct H end.

Lemma pair_eqb_eq a b : pair_eqb a b = true -> a = b.
Proof.
  destruct a, b. unfold pair_eqb. cbn. intros H. split_andb.
  f_equal; now apply str_eqb_eq.
Qed.

Lemma pval_eqb_eq a b : pval_eqb a b = true -> a = b.
Proof.
  destruct a, b; cbn; try discriminate; intros H; f_equal.
  - now apply Z.eqb_eq. - now apply str_eqb_eq. - now apply Bool.eqb_prop.
Qed.

Lemma prop_eqb_eq a b : prop_eqb a b = true -> a = b.
Proof.
  destruct a, b. unfold prop_eqb. cbn. intros H. split_andb. f_equal.
  - now apply str_eqb_eq. - eapply opt_eqb_eq; eauto using str_eqb_eq. - now apply pval_eqb_eq.
Qed.

Lemma port_eqb_eq a b : port_eqb a b = true -> a = b.
Proof.
  destruct a, b. unfold port_eqb. cbn. intros H. split_andb. f_equal;
    auto using str_eqb_eq, Bool.eqb_prop; now apply N.eqb_eq.
Qed.

Lemma inst_eqb_eq a b : inst_eqb a b = true -> a = b.
Proof.
  destruct a, b. unfold inst_eqb. cbn. intros H. split_andb. f_equal; auto using str_eqb_eq.
  - eapply opt_eqb_eq; eauto using pair_eqb_eq.
  - eapply list_eqb_eq; eauto using prop_eqb_eq.
Qed.

Lemma pd_eqb_eq a b : pd_eqb a b = true -> a = b.
Proof.
  destruct a, b; cbn; try discriminate; intros H; split_andb; f_equal; auto using str_eqb_eq; now apply N.eqb_eq.
Qed.

Lemma cab_eqb_eq a b : cab_eqb a b = true -> a = b.
Proof.
  destruct a as [[n i] [lo ar ws]], b as [[n' i'] [lo' ar' ws']]. unfold cab_eqb, e_name, e_ident, e_cab. cbn.
  intros H. split_andb.
  apply str_eqb_eq in H. apply str_eqb_eq in H3. apply N.eqb_eq in H2. apply Bool.eqb_prop in H1.
  apply (list_eqb_eq _ (list_eqb_eq _ pd_eqb_eq)) in H0. now subst.
Qed.

Lemma cell_eqb_eq a b : cell_eqb a b = true -> a = b.
Proof.
  destruct a, b. unfold cell_eqb. cbn. intros H. split_andb. f_equal; auto using str_eqb_eq.
  - eapply opt_eqb_eq; eauto using str_eqb_eq.
  - eapply list_eqb_eq; eauto using port_eqb_eq.
  - eapply list_eqb_eq; eauto using inst_eqb_eq.
  - eapply list_eqb_eq; eauto using cab_eqb_eq.
Qed.

Lemma lib_eqb_eq a b : lib_eqb a b = true -> a = b.
Proof.
  destruct a, b. unfold lib_eqb. cbn. intros H. split_andb. f_equal; auto using str_eqb_eq.
  eapply list_eqb_eq; eauto using cell_eqb_eq.
Qed.

Lemma top_eqb_eq a b : top_eqb a b = true -> a = b.
Proof. destruct a, b. unfold top_eqb. cbn. intros H. split_andb. f_equal; auto using str_eqb_eq. Qed.

Lemma file_eqb_eq a b : file_eqb a b = true -> a = b.
Proof.
  destruct a, b. unfold file_eqb. cbn. intros H. split_andb. f_equal; auto using str_eqb_eq.
  - eapply list_eqb_eq; eauto using lib_eqb_eq.
  - eapply opt_eqb_eq; eauto using top_eqb_eq.
Qed.

(* ---------------------------------------------------------------------------------------- *)
Theorem rt_check_sound ts prog fl n : rt_check ts prog fl n = true ->
  exists d, emit_file ts prog fl n = EmOk d /\ sexp_ok d = true /\ elab_file d = Ok (norm_file n).
Proof.
  unfold rt_check, rt_status. destruct (emit_file ts prog fl n) as [d| |]; try discriminate.
  destruct (sexp_ok d) eqn:Hok; cbn [negb]; try discriminate.
  destruct (elab_file d) as [n'|e] eqn:He.
  - destruct (file_eqb n' (norm_file n)) eqn:Hq; try discriminate.
    intros _. exists d. repeat split; auto. rewrite He. f_equal. now apply file_eqb_eq.
  - destruct e; discriminate.
Qed.

Lemma elab_text_print_eq l : sexp_ok (SList l) = true -> elab_text (print (SList l)) = elab_file (SList l).
Proof.
  intros Hok. unfold elab_text. rewrite (tokenize_print _ Hok). unfold elab_tokens.
  rewrite read_first_flatten by (apply sexp_ok_atoms_ok in Hok; exact Hok).
  destruct (elab_file (SList l)); reflexivity.
Qed.

Lemma elab_file_ok_list d n : elab_file d = Ok n -> exists l, d = SList l.
Proof.
  destruct d as [a|s|l]; [| |eauto]; unfold elab_file; destruct (negb _); discriminate.
Qed.

(* from characters: the text of the written document, through the tokenizer and the reader *)
Theorem rt_check_text ts prog fl n : rt_check ts prog fl n = true ->
  exists t, emit_text ts prog fl n = EmOk t /\ elab_text t = Ok (norm_file n).
Proof.
  intros H. apply rt_check_sound in H as (d & Hd & Hok & He).
  exists (print d). unfold emit_text. rewrite Hd. split; auto.
  destruct (elab_file_ok_list _ _ He) as [l ->]. now rewrite elab_text_print_eq.
Qed.

(* the only inputs of the writer model are the value, the timestamp fields and the program metadata *)
Theorem emit_timestamp_only ts ts' prog fl n d : emit_file ts prog fl n = EmOk d ->
  Forall (fun a => atom_ok a = true) ts' -> List.length ts' = List.length ts ->
  exists d', emit_file ts' prog fl n = EmOk d'.
Proof.
  unfold emit_file. destruct (nf_top n); try discriminate.
  destruct (negb _); try discriminate.
  destruct (name_sexp (nf_ident n) (nf_name n)); try discriminate.
  intros H Hts _.
  assert (Hs : exists s, status_sexp ts' prog = EmOk s).
  { unfold status_sexp in *.
    assert (Ht : exists t, emap atom_of ts' = EmOk t).
    { clear H. induction Hts as [|tk tl Ha _ [t IH]]; cbn; eauto. unfold atom_of at 1. rewrite Ha, IH. eauto. }
    destruct Ht as [t ->].
    destruct (emap atom_of ts); try discriminate.
    destruct prog as [[p v]|]; eauto.
    destruct (plain_str p); try discriminate.
    destruct v as [v|]; eauto. destruct (plain_str v); try discriminate. eauto. }
  destruct Hs as [s ->].
  destruct (status_sexp ts prog); try discriminate.
  destruct (emap _ (nf_libs n)); try discriminate.
  destruct (name_sexp _ _); try discriminate.
  destruct (atom_of _); try discriminate. destruct (atom_of _); try discriminate. eauto.
Qed.

(* ---------------------------------------------------------------------------------------- *)
(* second write: on a value that is in dependency order the pre-pass changes nothing *)
Local Close Scope N_scope.
Local Open Scope nat_scope.

Lemma seq_split_inv n l1 o l2 : seq 0 n = l1 ++ o :: l2 ->
  o = List.length l1 /\ forall d, d < o -> In d l1.
Proof.
  intros H.
  assert (Hlen : List.length l1 < n).
  { apply (f_equal (@List.length nat)) in H. rewrite seq_length, app_length in H. cbn in H. lia. }
  assert (Ho : o = List.length l1).
  { assert (E : nth (List.length l1) (seq 0 n) 0 = o).
    { rewrite H. rewrite app_nth2 by lia. rewrite Nat.sub_diag. reflexivity. }
    rewrite seq_nth in E by lia. cbn in E. lia. }
  split; auto. intros d Hd. subst o.
  assert (E : nth d (seq 0 n) 0 = nth d l1 0).
  { rewrite H. now rewrite app_nth1. }
  rewrite seq_nth in E by lia. cbn in E.
  assert (Hin : In (nth d l1 0) l1) by (apply nth_In; exact Hd).
  rewrite <- E in Hin. exact Hin.
Qed.

Lemma pick_seq {X} (pre l : list X) : pick (pre ++ l) (seq (List.length pre) (List.length l)) = Some l.
Proof.
  revert pre. induction l as [|x l IH]; intros pre; cbn [List.length seq pick]; auto.
  rewrite nth_error_app2 by lia. rewrite Nat.sub_diag. cbn [nth_error].
  specialize (IH (pre ++ [x])). rewrite <- app_assoc in IH. cbn [app] in IH.
  rewrite app_length in IH. cbn [List.length] in IH. rewrite Nat.add_1_r in IH. now rewrite IH.
Qed.

Lemma reorder_ordered {X} deps (l : list X) : ordered_by deps (List.length l) = true -> reorder deps l = Some l.
Proof.
  intros H. unfold reorder.
  rewrite (toposort_fixpoint deps (seq 0 (List.length l))).
  - exact (pick_seq [] l).
  - apply seq_NoDup.
  - intros l1 o l2 d E Hd. destruct (seq_split_inv _ _ _ _ E) as [Ho Hlt]. apply Hlt.
    unfold ordered_by in H. rewrite forallb_forall in H.
    assert (Hin : In o (seq 0 (List.length l))) by (rewrite E; apply in_or_app; right; left; reflexivity).
    specialize (H o Hin). rewrite forallb_forall in H. apply Nat.ltb_lt. now apply H.
Qed.

Lemma omap_id {X} (f : X -> option X) l : (forall x, In x l -> f x = Some x) -> omap f l = Some l.
Proof.
  induction l as [|a l IH]; intros H; cbn; auto.
  rewrite (H a) by (left; reflexivity). rewrite IH; auto. intros x Hx. apply H. now right.
Qed.

Theorem prepass_ordered n : ordered n = true -> prepass n = Some n.
Proof.
  unfold ordered. intros H. apply andb_true_iff in H as [H1 H2]. unfold prepass.
  rewrite (reorder_ordered _ _ H1).
  rewrite omap_id.
  - now destruct n.
  - intros L HL. rewrite forallb_forall in H2. rewrite (reorder_ordered _ _ (H2 L HL)). now destruct L.
Qed.

(* two writes of a netlist that the first write left in dependency order produce the same
   document, whatever the timestamps: the second pre-pass is the identity and emit_file is a function *)
Theorem emit_second_write ts prog fl n n1 : prepass n = Some n1 -> ordered n1 = true ->
  prepass n1 = Some n1 /\
  forall n2, prepass n1 = Some n2 -> emit_file ts prog fl n2 = emit_file ts prog fl n1.
Proof.
  intros _ Ho. split; [now apply prepass_ordered|].
  intros n2 H2. rewrite (prepass_ordered _ Ho) in H2. now inversion H2.
Qed.

(* ---------------------------------------------------------------------------------------- *)
(* Example: two libraries; a primitive cell "INV" with ports I, O; a top cell whose name "top cell"
   differs from its identifier, an array port "d" of 2 pins, a scalar port, two instances (one
   renamed "u[0]" -> u_0_, with an integer, a string (containing a double quote and a percent
   sign) and a boolean property), a bus cable "d" with lower index 2 and a scalar cable *)
Local Close Scope nat_scope.
Local Open Scope N_scope.
Definition S_ (s : string) : str := s2l s.
Definition ex_inv : nvcell :=
  mkcell (S_ "INV") (S_ "INV") None
    [mkport (S_ "I") (S_ "I") 1 1 false; mkport (S_ "O") (S_ "O") 2 1 false] [] [].
Definition ex_top : nvcell :=
  mkcell (S_ "top cell") (S_ "top_cell") None
    [mkport (S_ "d") (S_ "d") 1 2 true; mkport (S_ "q") (S_ "q") 0 1 false]
    [mkinst (S_ "u[0]") (S_ "u_0_") (Some (S_ "prims", S_ "INV"))
       [mkprop (S_ "INIT") None (PVInt (-5)%Z);
        mkprop (S_ "note") (Some (S_ "the note")) (PVStr (34 :: S_ "50%"));
        mkprop (S_ "keep") None (PVBool true)];
     mkinst (S_ "u1") (S_ "u1") (Some (S_ "prims", S_ "INV")) []]
    [(S_ "d", S_ "d", mkcab 2 true [[PTop (S_ "d") 0; PInst (S_ "u_0_") (S_ "I") 0]; [PTop (S_ "d") 1; PInst (S_ "u1") (S_ "I") 0]]);
     (S_ "n$1", S_ "&_n_1", mkcab 0 false [[PInst (S_ "u_0_") (S_ "O") 0; PInst (S_ "u1") (S_ "O") 0; PTop (S_ "q") 0]])].
Definition ex_file : nvfile :=
  mkfile (S_ "design 1") (S_ "design_1")
    [mklib (S_ "prims") (S_ "prims") [ex_inv]; mklib (S_ "work") (S_ "work") [ex_top]]
    (Some (mktop (S_ "design 1") (S_ "design_1") (S_ "work") (S_ "top_cell"))).
Definition ex_ts : list str := map S_ ["2026"; "10"; "01"; "23"; "00"; "00"]%string.

Example emit_roundtrip_example :
  writable ex_file = true /\ params_w ex_ts None = true /\ ordered ex_file = true /\
  rt_check ex_ts None [] ex_file = true /\
  emit_text ex_ts None [] ex_file = EmOk (S_
    ("(edif (rename design_1 ""design 1"") (edifversion 2 0 0) (edifLevel 0) (keywordmap (keywordlevel 0)) " ++
     "(status (written (timeStamp 2026 10 01 23 00 00) (comment ""Built by 'BYU spydrnet tool'""))) " ++
     "(Library prims (edifLevel 0) (technology (numberDefinition)) " ++
       "(Cell INV (celltype GENERIC) (view netlist (viewtype NETLIST) " ++
         "(interface (port I (direction INPUT)) (port O (direction OUTPUT)))))) " ++
     "(Library work (edifLevel 0) (technology (numberDefinition)) " ++
       "(Cell (rename top_cell ""top cell"") (celltype GENERIC) (view netlist (viewtype NETLIST) " ++
         "(interface (port (array d 2) (direction INPUT)) (port q)) " ++
         "(contents " ++
           "(instance (rename u_0_ ""u[0]"") (viewref netlist (cellref INV (libraryref prims))) " ++
             "(property INIT (integer -5)) (property (rename note ""the note"") (string ""%34%50%37%"")) " ++
             "(property keep (boolean (True)))) " ++
           "(instance u1 (viewref netlist (cellref INV (libraryref prims)))) " ++
           "(net (rename d_2_ ""d[2]"") (joined (portref (member d 0)) (portref I (instanceref u_0_)))) " ++
           "(net (rename d_3_ ""d[3]"") (joined (portref (member d 1)) (portref I (instanceref u1)))) " ++
           "(net (rename &_n_1 ""n$1"") (joined (portref O (instanceref u_0_)) (portref O (instanceref u1)) (portref q))))))) " ++
     "(design (rename design_1 ""design 1"") (cellref top_cell (libraryref work))))")%string).
Proof. vm_compute. repeat split. Qed.

(* a bus whose identifier starts with "&_" (refused by [writable] until the reader repair 9b86b49 of finding K4): it is
   writable and the checker says yes *)
Definition ex_amp : nvfile :=
  mkfile (S_ "t") (S_ "t")
    [mklib (S_ "work") (S_ "work")
       [mkcell (S_ "t") (S_ "t") None [mkport (S_ "a") (S_ "a") 1 2 true] []
          [(S_ "$b", S_ "&_b", mkcab 0 false [[PTop (S_ "a") 0]; [PTop (S_ "a") 1]])]]]
    (Some (mktop (S_ "t") (S_ "t") (S_ "work") (S_ "t"))).
Example emit_roundtrip_amp_bus_holds :
  writable ex_amp = true /\ rt_check ex_ts None [] ex_amp = true /\ rt_status ex_ts None [] ex_amp = 0.
Proof. vm_compute. repeat split. Qed.

(* a float property (2.5e-09, a parameter of the writer model) is written as (number (e 25 -10)); the
   reader model is outside its subset on it (rt_status 1) *)
Definition ex_fl : floats :=
  [((S_ "work", S_ "top_cell", S_ "u1"), [mkxprop (S_ "delay") None (XNum false 25 (-10)%Z)])].
Example emit_float_example :
  rt_status ex_ts None ex_fl ex_file = 1 /\
  xprop_sexp (mkxprop (S_ "delay") None (XNum false 25 (-10)%Z)) =
    EmOk (SList [KW "property"; Atom (S_ "delay");
                 SList [KW "number"; SList [KW "e"; Atom (S_ "25"); Atom (S_ "-10")]]]) /\
  (exists d, emit_file ex_ts None ex_fl ex_file = EmOk d /\
             existsb (str_eqb (S_ "number")) (flatten d) = true /\ tokenize (print d) = flatten d).
Proof.
  split; [vm_compute; reflexivity|]. split; [vm_compute; reflexivity|].
  eexists. split; [vm_compute; reflexivity|]. split; vm_compute; reflexivity.
Qed.
