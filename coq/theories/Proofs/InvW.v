(* C01 (pin-wire half) + C02 (outer pins mirror the definition) + no-stuck: concrete lemmas about
   the primitives that touch wires, pin wires and instance pin maps. *)
From Coq Require Import List Arith Bool Permutation.
From RecordUpdate Require Import RecordSet.
From SV Require Import Base.Base IR.State IR.NS IR.Ops Proofs.AssocX Proofs.Frame Proofs.Inv1a Proofs.Inv2a Proofs.InvP.
Import ListNotations RecordSetNotations.

Definition keys (s : state) (n : id) : list id := map fst (ipins s n).

Record InvK (s : state) : Prop := mkInvK {
  k_keys : forall n i, In i (keys s n) <->
             (exists d p, iref s n = Some d /\ par s RPorts p = Some d /\ par s RPins i = Some p);
  k_nodup : forall n, NoDup (keys s n)
}.

Lemma invk_init : InvK init.
Proof.
  constructor; cbn; [|constructor]. intros n i. split; [tauto|]. intros [d [p [H _]]]. discriminate.
Qed.

(* fields that the wire/pin primitives never touch *)
Record frame_w (s s' : state) : Prop := mkFW {
  fw_kids : kids s' = kids s;
  fw_par : par s' = par s;
  fw_iref : iref s' = iref s;
  fw_drefs : drefs s' = drefs s;
  fw_next : next s' = next s;
  fw_kind : kind_of s' = kind_of s
}.

Lemma frame_w_refl s : frame_w s s.
Proof. constructor; reflexivity. Qed.
Lemma frame_w_trans a b c : frame_w a b -> frame_w b c -> frame_w a c.
Proof. intros [] []; constructor; congruence. Qed.

(* ---- pin_wire under the primitive writers ---- *)
Lemma pw_set_ipwire s i v q :
  pin_wire (set_ipwire s i v) q = if pin_eqb q (PIn i) then v else pin_wire s q.
Proof.
  destruct q as [j|n j|]; cbn; unfold upd; try reflexivity; try (destruct (Nat.eqb j i); reflexivity).
Qed.

Lemma pw_set_ipins_other s n l q :
  (forall j, q <> POut n j) -> pin_wire (set_ipins s n l) q = pin_wire s q.
Proof.
  intro H. destruct q as [j|m j|]; cbn; try reflexivity.
  unfold upd. destruct (Nat.eqb_spec m n) as [->|]; [exfalso; apply (H j); reflexivity|reflexivity].
Qed.

Lemma pw_set_ipins_same s n l j :
  pin_wire (set_ipins s n l) (POut n j) = match assoc j l with Some ow => ow | None => None end.
Proof. cbn. rewrite upd_same. reflexivity. Qed.

Lemma pw_set_pin_wire s p v q :
  p <> PDet -> pin_wire (set_pin_wire s p v) q = if pin_eqb q p then v else pin_wire s q.
Proof.
  intro Hp. destruct p as [i|n i|]; [apply pw_set_ipwire| |congruence].
  unfold set_pin_wire. destruct q as [j|m j|]; cbn; try reflexivity.
  unfold upd. destruct (Nat.eqb_spec m n) as [->|Hne]; cbn; [|reflexivity].
  destruct (Nat.eqb_spec j i) as [->|Hji]; [rewrite assoc_set_same; reflexivity|].
  rewrite assoc_set_other by assumption. reflexivity.
Qed.

Lemma keys_set_pin_wire s p v n :
  pin_stored s p = true -> keys (set_pin_wire s p v) n = keys s n.
Proof.
  destruct p as [i|m i|]; cbn; try reflexivity. intro H. unfold keys. cbn. unfold upd.
  destruct (Nat.eqb n m) eqn:E; [|reflexivity]. apply Nat.eqb_eq in E; subst m.
  apply map_fst_assoc_set_in. apply assoc_In_fst. destruct (assoc i (ipins s n)) as [v0|]; [eexists; reflexivity|discriminate].
Qed.

(* ---- new_outer ---- *)
Lemma pw_new_outer s n i q :
  ~ In i (keys s n) -> pin_wire (new_outer s n i) q = pin_wire s q.
Proof.
  intro H. unfold new_outer. destruct q as [j|m j|]; cbn; try reflexivity.
  unfold upd. destruct (Nat.eqb_spec m n) as [->|]; [|reflexivity].
  destruct (Nat.eqb_spec j i) as [->|Hji].
  - rewrite assoc_set_same. apply assoc_None_not_In in H. unfold keys in H. rewrite H. reflexivity.
  - rewrite assoc_set_other by assumption. reflexivity.
Qed.

Lemma keys_new_outer s n i m x :
  In x (keys (new_outer s n i) m) <-> In x (keys s m) \/ (m = n /\ x = i).
Proof.
  unfold new_outer, keys. cbn. unfold upd. destruct (Nat.eqb_spec m n) as [->|Hne].
  - rewrite In_keys_set. split; [intros [->|H]; auto|intros [H|[_ ->]]; auto].
  - split; [auto|intros [H|[H _]]; [assumption|contradiction]].
Qed.

Lemma keys_nodup_new_outer s n i m : NoDup (keys s m) -> NoDup (keys (new_outer s n i) m).
Proof.
  unfold new_outer, keys. cbn. unfold upd. destruct (Nat.eqb m n) eqn:E; [|auto].
  apply Nat.eqb_eq in E; subst m. apply NoDup_keys_set.
Qed.

Lemma frame_new_outer s n i : frame_w s (new_outer s n i).
Proof. constructor; reflexivity. Qed.

Lemma wpins_new_outer s n i : wpins (new_outer s n i) = wpins s.
Proof. reflexivity. Qed.

(* ---- drop_outer ---- *)
Lemma pw_del_key s n i q :
  pin_wire (set_ipins s n (assoc_del i (ipins s n))) q = if pin_eqb q (POut n i) then None else pin_wire s q.
Proof.
  destruct q as [j|m j|]; cbn; try reflexivity.
  unfold upd. destruct (Nat.eqb_spec m n) as [->|Hne]; cbn; [|reflexivity].
  destruct (Nat.eqb_spec j i) as [->|Hji]; [rewrite assoc_del_same; reflexivity|].
  rewrite assoc_del_other by assumption. reflexivity.
Qed.

Lemma keys_del_key s n i m x :
  In x (keys (set_ipins s n (assoc_del i (ipins s n))) m) <-> In x (keys s m) /\ ~ (m = n /\ x = i).
Proof.
  unfold keys. cbn. unfold upd. destruct (Nat.eqb_spec m n) as [->|Hne].
  - rewrite In_keys_del. split; [intros [H1 H2]; split; [assumption|intros [_ H]; contradiction]|].
    intros [H1 H2]; split; [assumption|intro; apply H2; auto].
  - split; [intro H; split; [assumption|intros [H1 _]; contradiction]|tauto].
Qed.

Lemma keys_nodup_del_key s n i m :
  NoDup (keys s m) -> NoDup (keys (set_ipins s n (assoc_del i (ipins s n))) m).
Proof.
  unfold keys. cbn. unfold upd. destruct (Nat.eqb m n) eqn:E; [|auto].
  apply Nat.eqb_eq in E; subst m. apply NoDup_keys_del.
Qed.

Definition drop_post (s s' : state) (n i : id) : Prop :=
  InvP s' /\ frame_w s s' /\ ipwire s' = ipwire s /\
  (forall m x, In x (keys s' m) <-> In x (keys s m) /\ ~ (m = n /\ x = i)) /\
  (forall m, NoDup (keys s m) -> NoDup (keys s' m)) /\
  (forall q, q <> POut n i -> pin_wire s' q = pin_wire s q) /\
  pin_wire s' (POut n i) = None.

Lemma drop_outer_spec s n i :
  InvP s -> In i (keys s n) ->
  snd (drop_outer s n i) = None /\ drop_post s (fst (drop_outer s n i)) n i.
Proof.
  intros Hp Hk. unfold drop_outer.
  apply assoc_In_fst in Hk as [ow Hk]. rewrite Hk. cbn [snd fst ret]. split; [reflexivity|].
  assert (Hpw : pin_wire s (POut n i) = ow) by (cbn; rewrite Hk; reflexivity).
  unfold drop_post.
  destruct ow as [w|].
  - set (s' := set_ipins _ n _).
    assert (Hq : forall q, pin_wire s' q = if pin_eqb q (POut n i) then None else pin_wire s q).
    { intro q. unfold s'. rewrite pw_del_key. reflexivity. }
    assert (Hw : forall w0, wpins s' w0 = if Nat.eqb w0 w then pin_remove_first (POut n i) (wpins s w) else wpins s w0).
    { intro w0. unfold s'. cbn. unfold upd. destruct (Nat.eqb w0 w); reflexivity. }
    split; [apply (invp_unlink s s' w (POut n i) Hp Hpw Hq Hw)|].
    split; [constructor; reflexivity|].
    split; [reflexivity|].
    split; [intros m x; unfold s'; match goal with |- context [set_ipins ?s0 n _] => exact (keys_del_key s0 n i m x) end|].
    split; [intros m Hm; unfold s'; match goal with |- context [set_ipins ?s0 n _] => exact (keys_nodup_del_key s0 n i m Hm) end|].
    split.
    + intros q Hne. rewrite Hq. destruct (pin_eqb q (POut n i)) eqn:E; [apply pin_eqb_spec in E; contradiction|reflexivity].
    + rewrite Hq, pin_eqb_refl. reflexivity.
  - set (s' := set_ipins s n _).
    assert (Hq : forall q, pin_wire s' q = pin_wire s q).
    { intro q. unfold s'. rewrite pw_del_key. destruct (pin_eqb q (POut n i)) eqn:E; [|reflexivity].
      apply pin_eqb_spec in E; subst q. symmetry; assumption. }
    split; [apply (invp_same s s' Hp Hq); intro; reflexivity|].
    split; [constructor; reflexivity|].
    split; [reflexivity|].
    split; [intros m x; apply (keys_del_key s n i m x)|].
    split; [intros m Hm; apply (keys_nodup_del_key s n i m); exact Hm|].
    split; [intros q _; apply Hq|rewrite Hq; assumption].
Qed.

(* ---- sequences of drops ---- *)
Definition drops_post (s s' : state) (D : id -> id -> Prop) : Prop :=
  InvP s' /\ frame_w s s' /\ ipwire s' = ipwire s /\
  (forall m x, In x (keys s' m) <-> In x (keys s m) /\ ~ D m x) /\
  (forall m, NoDup (keys s m) -> NoDup (keys s' m)) /\
  (forall q, (forall m x, q = POut m x -> ~ D m x) -> pin_wire s' q = pin_wire s q) /\
  (forall m x, D m x -> pin_wire s' (POut m x) = None).

Lemma drops_post_none s : InvP s -> drops_post s s (fun _ _ => False).
Proof.
  intro H. split; [exact H|]. split; [apply frame_w_refl|]. split; [reflexivity|].
  split; [intros m x; tauto|]. split; [intros m Hm; exact Hm|]. split; [intros; reflexivity|intros m x []].
Qed.

Lemma drop_post_drops s s' n i : drop_post s s' n i -> drops_post s s' (fun m x => m = n /\ x = i).
Proof.
  intros [H1 [H2 [H3 [H4 [H5 [H6 H7]]]]]].
  split; [exact H1|]. split; [exact H2|]. split; [exact H3|].
  split; [exact H4|]. split; [exact H5|]. split.
  - intros q Hq. apply H6. intro Heq. apply (Hq n i Heq). split; reflexivity.
  - intros m x [-> ->]. exact H7.
Qed.

Lemma drops_post_weaken s s' (D D' : id -> id -> Prop) :
  (forall m x, D m x <-> D' m x) -> drops_post s s' D -> drops_post s s' D'.
Proof.
  intros He [H1 [H2 [H3 [H4 [H5 [H6 H7]]]]]].
  split; [exact H1|]. split; [exact H2|]. split; [exact H3|]. split; [|split; [exact H5|split]].
  - intros m x. rewrite H4, (He m x). tauto.
  - intros q Hq. apply H6. intros m x Heq Hd. apply (Hq m x Heq). apply He. exact Hd.
  - intros m x Hd. apply H7. apply He. exact Hd.
Qed.

Lemma drops_post_trans s s1 s2 (D1 D2 : id -> id -> Prop) :
  (forall m x, {D2 m x} + {~ D2 m x}) ->
  drops_post s s1 D1 -> drops_post s1 s2 D2 -> drops_post s s2 (fun m x => D1 m x \/ D2 m x).
Proof.
  intros Hdec [A1 [A2 [A3 [A4 [A5 [A6 A7]]]]]] [B1 [B2 [B3 [B4 [B5 [B6 B7]]]]]].
  split; [exact B1|]. split; [eapply frame_w_trans; eassumption|]. split; [congruence|].
  split; [|split; [|split]].
  - intros m x. rewrite B4, A4. tauto.
  - intros m Hm. apply B5, A5, Hm.
  - intros q Hq. rewrite B6; [apply A6|]; intros m x Heq Hd; apply (Hq m x Heq); [left|right]; exact Hd.
  - intros m x Hd. destruct (Hdec m x) as [H2|H2]; [apply B7; exact H2|].
    destruct Hd as [H1|H1]; [|contradiction].
    rewrite B6; [apply A7; exact H1|]. intros m' x' Heq. inversion Heq; subst. exact H2.
Qed.

Lemma fold_drop_inner n : forall l s,
  InvP s -> NoDup l -> (forall i, In i l -> In i (keys s n)) ->
  snd (fold_idsR (fun s i => drop_outer s n i) l s) = None /\
  drops_post s (fst (fold_idsR (fun s i => drop_outer s n i) l s)) (fun m x => m = n /\ In x l).
Proof.
  induction l as [|i l IH]; intros s Hp Hnd Hk; cbn [fold_idsR].
  - split; [reflexivity|]. eapply drops_post_weaken; [|apply drops_post_none; exact Hp].
    intros m x. cbn. tauto.
  - inversion Hnd as [|? ? Hi Hl]; subst.
    destruct (drop_outer_spec s n i Hp (Hk i (or_introl eq_refl))) as [Hs Hd].
    destruct (drop_outer s n i) as [s1 [e|]]; cbn [fst snd] in *; [discriminate|]. cbn [bindR].
    pose proof (drop_post_drops _ _ _ _ Hd) as Hd1.
    destruct Hd as [Hp1 [_ [_ [Hk1 _]]]].
    assert (Hk' : forall j, In j l -> In j (keys s1 n)).
    { intros j Hj. apply Hk1. split; [apply Hk; right; exact Hj|]. intros [_ ->]. contradiction. }
    destruct (IH s1 Hp1 Hl Hk') as [Hs2 Hd2]. split; [exact Hs2|].
    eapply drops_post_weaken; [|eapply drops_post_trans; [|exact Hd1|exact Hd2]].
    + intros m x. cbn. split; [intros [[-> ->]|[-> H]]; auto|intros [-> [->|H]]; auto].
    + intros m x. destruct (Nat.eq_dec m n) as [->|Hne]; [|right; tauto].
      destruct (in_dec Nat.eq_dec x l); [left; auto|right; tauto].
Qed.

Lemma fold_drop_outer_refs (g : list id) : forall ns s,
  InvP s -> NoDup ns -> NoDup g -> (forall m i, In m ns -> In i g -> In i (keys s m)) ->
  forall (G : state -> list id), (forall s', frame_w s s' -> G s' = g) ->
  snd (fold_idsR (fun s n => fold_idsR (fun s i => drop_outer s n i) (G s) s) ns s) = None /\
  drops_post s (fst (fold_idsR (fun s n => fold_idsR (fun s i => drop_outer s n i) (G s) s) ns s))
             (fun m x => In m ns /\ In x g).
Proof.
  induction ns as [|n ns IH]; intros s Hp Hnn Hng Hk G HG; cbn [fold_idsR].
  - split; [reflexivity|]. eapply drops_post_weaken; [|apply drops_post_none; exact Hp]. intros m x; cbn; tauto.
  - inversion Hnn as [|? ? Hn Hns]; subst.
    rewrite (HG s (frame_w_refl s)).
    destruct (fold_drop_inner n g s Hp Hng (fun i Hi => Hk n i (or_introl eq_refl) Hi)) as [Hs Hd].
    destruct (fold_idsR (fun s i => drop_outer s n i) g s) as [s1 [e|]]; cbn [fst snd] in *; [discriminate|]. cbn [bindR].
    pose proof Hd as [Hp1 [Hf1 [_ [Hk1 _]]]].
    assert (Hk' : forall m i, In m ns -> In i g -> In i (keys s1 m)).
    { intros m i Hm Hi. apply Hk1. split; [apply Hk; [right; exact Hm|exact Hi]|]. intros [-> _]. contradiction. }
    assert (HG' : forall s', frame_w s1 s' -> G s' = g).
    { intros s' Hf. apply HG. eapply frame_w_trans; eassumption. }
    destruct (IH s1 Hp1 Hns Hng Hk' G HG') as [Hs2 Hd2]. split; [exact Hs2|].
    eapply drops_post_weaken; [|eapply drops_post_trans; [|exact Hd|exact Hd2]].
    + intros m x. cbn. split; [intros [[-> H]|[H1 H2]]; auto|intros [[->|H1] H2]; auto].
    + intros m x. destruct (in_dec Nat.eq_dec m ns); [|right; tauto].
      destruct (in_dec Nat.eq_dec x g); [left; auto|right; tauto].
Qed.

Lemma fold_drop_refs_one (c : id) : forall ns s,
  InvP s -> NoDup ns -> (forall m, In m ns -> In c (keys s m)) ->
  snd (fold_idsR (fun s n => drop_outer s n c) ns s) = None /\
  drops_post s (fst (fold_idsR (fun s n => drop_outer s n c) ns s)) (fun m x => In m ns /\ x = c).
Proof.
  induction ns as [|n ns IH]; intros s Hp Hnn Hk; cbn [fold_idsR].
  - split; [reflexivity|]. eapply drops_post_weaken; [|apply drops_post_none; exact Hp]. intros m x; cbn; tauto.
  - inversion Hnn as [|? ? Hn Hns]; subst.
    destruct (drop_outer_spec s n c Hp (Hk n (or_introl eq_refl))) as [Hs Hd].
    destruct (drop_outer s n c) as [s1 [e|]]; cbn [fst snd] in *; [discriminate|]. cbn [bindR].
    pose proof (drop_post_drops _ _ _ _ Hd) as Hd1.
    destruct Hd as [Hp1 [_ [_ [Hk1 _]]]].
    assert (Hk' : forall m, In m ns -> In c (keys s1 m)).
    { intros m Hm. apply Hk1. split; [apply Hk; right; exact Hm|]. intros [-> _]. contradiction. }
    destruct (IH s1 Hp1 Hns Hk') as [Hs2 Hd2]. split; [exact Hs2|].
    eapply drops_post_weaken; [|eapply drops_post_trans; [|exact Hd1|exact Hd2]].
    + intros m x. cbn. split; [intros [[-> ->]|[H1 ->]]; auto|intros [[->|H1] ->]; auto].
    + intros m x. destruct (in_dec Nat.eq_dec m ns); [|right; tauto].
      destruct (Nat.eq_dec x c); [left; auto|right; tauto].
Qed.

(* ---- the full invariant ---- *)
Record Inv (s : state) : Prop := mkInv {
  inv_a : Inv1a s; inv_r : Inv2a s; inv_p : InvP s; inv_k : InvK s
}.

Lemma inv_init : Inv init.
Proof. constructor; [apply inv1a_init|apply inv2a_init|apply invp_init|apply invk_init]. Qed.

Lemma invk_same s s' :
  InvK s -> (forall n, keys s' n = keys s n) -> iref s' = iref s ->
  (forall x, par s' RPorts x = par s RPorts x) -> (forall x, par s' RPins x = par s RPins x) -> InvK s'.
Proof.
  intros [H1 H2] Hk Hr Hp1 Hp2. constructor.
  - intros n i. rewrite Hk, Hr, H1. split; intros [d [p [A [B C]]]]; exists d, p; rewrite ?Hp1, ?Hp2 in *; auto.
  - intro n. rewrite Hk. apply H2.
Qed.

Lemma pw_ext s s' q : ipwire s' = ipwire s -> ipins s' = ipins s -> pin_wire s' q = pin_wire s q.
Proof. intros H1 H2. destruct q; cbn; rewrite ?H1, ?H2; reflexivity. Qed.

(* states that agree on everything the pin-wire and mirror invariants look at *)
Definition pk_eq (s s' : state) : Prop :=
  wpins s' = wpins s /\ ipwire s' = ipwire s /\ ipins s' = ipins s /\ iref s' = iref s /\
  (forall x, par s' RPorts x = par s RPorts x) /\ (forall x, par s' RPins x = par s RPins x).

Lemma pk_eq_refl s : pk_eq s s.
Proof. repeat split; reflexivity. Qed.

Lemma pk_eq_trans a b c : pk_eq a b -> pk_eq b c -> pk_eq a c.
Proof.
  intros [A1 [A2 [A3 [A4 [A5 A6]]]]] [B1 [B2 [B3 [B4 [B5 B6]]]]].
  split; [congruence|]. split; [congruence|]. split; [congruence|]. split; [congruence|].
  split; intro x; [rewrite B5; apply A5|rewrite B6; apply A6].
Qed.

Lemma struct_pk s s' : struct_eq s s' -> pk_eq s s'.
Proof. intros []. repeat split; try assumption; intro x; rewrite se_par; reflexivity. Qed.

Lemma pk_invp s s' : pk_eq s s' -> InvP s -> InvP s'.
Proof.
  intros [A1 [A2 [A3 _]]] H. apply (invp_same s s' H).
  - intro q. apply pw_ext; assumption.
  - intro w. rewrite A1. reflexivity.
Qed.

Lemma pk_invk s s' : pk_eq s s' -> InvK s -> InvK s'.
Proof.
  intros [A1 [A2 [A3 [A4 [A5 A6]]]]] H. apply (invk_same s s' H); try assumption.
  intro n. unfold keys. rewrite A3. reflexivity.
Qed.

Lemma wpins_set_pin_wire s p v : wpins (set_pin_wire s p v) = wpins s.
Proof. destruct p; reflexivity. Qed.

Lemma frame_set_pin_wire s p v : frame_w s (set_pin_wire s p v).
Proof. destruct p; constructor; reflexivity. Qed.

(* ---- connect / disconnect / reorder of wire pins ---- *)
Lemma op_connect_pk s w p pos :
  InvP s -> InvK s -> InvP (fst (op_connect s w p pos)) /\ InvK (fst (op_connect s w p pos)).
Proof.
  intros Hp Hk. unfold op_connect, guard. destruct (_ && _); [|split; assumption].
  assert (Hlink : forall p0, p0 <> PDet -> pin_stored s p0 = true -> pin_wire s p0 = None ->
            let s' := set_pin_wire (set_wpins (emit s (EConnect w p0)) w (py_insert pos p0 (wpins (emit s (EConnect w p0)) w))) p0 (Some w) in
            InvP s' /\ InvK s').
  { intros p0 Hd Hst Hnone s'. split.
    - apply (invp_link s s' w p0 pos Hp Hnone).
      + intro q. unfold s'. rewrite pw_set_pin_wire by assumption. destruct (pin_eqb q p0); [reflexivity|]. apply pw_ext; reflexivity.
      + intro w0. unfold s'. rewrite wpins_set_pin_wire. cbn. unfold upd. destruct (Nat.eqb w0 w); reflexivity.
    - apply (invk_same s s' Hk).
      + intro n. unfold s'. rewrite keys_set_pin_wire; [reflexivity|exact Hst].
      + unfold s'. destruct p0; reflexivity.
      + intro x. unfold s'. destruct p0; reflexivity.
      + intro x. unfold s'. destruct p0; reflexivity. }
  destruct p as [i|n i|]; cbn [fst raise].
  - destruct (ipwire s i) eqn:E; cbn [fst raise ret]; [split; assumption|].
    apply (Hlink (PIn i)); [discriminate|reflexivity|exact E].
  - destruct (assoc i (ipins s n)) as [[w0|]|] eqn:E; cbn [fst raise ret]; try (split; assumption).
    apply (Hlink (POut n i)); [discriminate|cbn; rewrite E; reflexivity|cbn; rewrite E; reflexivity].
  - split; assumption.
Qed.

Lemma can_disconnect_spec s w p :
  can_disconnect s w p = true -> p <> PDet /\ pin_stored s p = true /\ pin_wire s p = Some w.
Proof.
  unfold can_disconnect, wire_is. destruct p as [i|n i|]; cbn.
  - destruct (ipwire s i) as [x|]; [|discriminate]. intro H. apply Nat.eqb_eq in H. subst. repeat split. discriminate.
  - destruct (assoc i (ipins s n)) as [[x|]|]; try discriminate. intro H. apply Nat.eqb_eq in H. subst. repeat split. discriminate.
  - discriminate.
Qed.

Lemma op_disconnect_pk s w p :
  InvP s -> InvK s -> InvP (fst (op_disconnect s w p)) /\ InvK (fst (op_disconnect s w p)).
Proof.
  intros Hp Hk. unfold op_disconnect, guard. destruct (_ && _); [|split; assumption].
  destruct (can_disconnect s w p) eqn:Hc; [|split; assumption].
  apply can_disconnect_spec in Hc as [Hd [Hst Hw]].
  assert (Hun : forall s', (forall q, pin_wire s' q = if pin_eqb q p then None else pin_wire s q) ->
                           (forall w0, wpins s' w0 = if Nat.eqb w0 w then pin_remove_first p (wpins s w) else wpins s w0) ->
                           (forall n, keys s' n = keys s n) -> iref s' = iref s -> par s' = par s ->
                           InvP s' /\ InvK s').
  { intros s' H1 H2 H3 H4 H5. split; [apply (invp_unlink s s' w p Hp Hw H1 H2)|].
    apply (invk_same s s' Hk H3 H4); intro x; rewrite H5; reflexivity. }
  destruct p as [i|n i|]; [| |congruence]; cbn [fst ret]; apply Hun.
  - intro q. rewrite pw_set_pin_wire by discriminate. destruct (pin_eqb q (PIn i)); [reflexivity|]. apply pw_ext; reflexivity.
  - intro w0. rewrite wpins_set_pin_wire. cbn. unfold upd. destruct (Nat.eqb w0 w); reflexivity.
  - intro n. rewrite keys_set_pin_wire; [reflexivity|exact Hst].
  - reflexivity.
  - reflexivity.
  - intro q. rewrite pw_set_pin_wire by discriminate. destruct (pin_eqb q (POut n i)); [reflexivity|]. apply pw_ext; reflexivity.
  - intro w0. rewrite wpins_set_pin_wire. cbn. unfold upd. destruct (Nat.eqb w0 w); reflexivity.
  - intro m. rewrite keys_set_pin_wire; [reflexivity|exact Hst].
  - reflexivity.
  - reflexivity.
Qed.

Lemma op_reorder_wire_pk s w l :
  InvP s -> InvK s -> InvP (fst (op_reorder_wire s w l)) /\ InvK (fst (op_reorder_wire s w l)).
Proof.
  intros Hp Hk. unfold op_reorder_wire, guard. destruct (is_kind s w KWire); [|split; assumption].
  destruct (pins_nodupb l && pins_subsetb l (wpins s w) && pins_subsetb (wpins s w) l) eqn:Hg; [|split; assumption].
  apply andb_true_iff in Hg as [Hg H3]. apply andb_true_iff in Hg as [H1 H2].
  apply pins_nodupb_NoDup in H1. apply pins_subsetb_spec in H2, H3. cbn [fst ret]. split.
  - apply (invp_permute s _ w l Hp H1).
    + intro x. split; [apply H3|apply H2].
    + intro q. apply pw_ext; reflexivity.
    + intro w0. cbn. unfold upd. destruct (Nat.eqb w0 w); reflexivity.
  - apply (invk_same s _ Hk); intros; reflexivity.
Qed.

(* ---- sequences of new outer pins ---- *)
Definition adds_post (s s' : state) (A : id -> id -> Prop) : Prop :=
  (forall q, pin_wire s' q = pin_wire s q) /\ wpins s' = wpins s /\ frame_w s s' /\ ipwire s' = ipwire s /\
  (forall m x, In x (keys s' m) <-> In x (keys s m) \/ A m x) /\
  (forall m, NoDup (keys s m) -> NoDup (keys s' m)).

Lemma adds_post_none s : adds_post s s (fun _ _ => False).
Proof.
  split; [reflexivity|]. split; [reflexivity|]. split; [apply frame_w_refl|]. split; [reflexivity|].
  split; [intros; tauto|auto].
Qed.

Lemma adds_post_weaken s s' (A A' : id -> id -> Prop) :
  (forall m x, A m x <-> A' m x) -> adds_post s s' A -> adds_post s s' A'.
Proof.
  intros He [H1 [H2 [H3 [H4 [H5 H6]]]]]. repeat (split; [assumption|]). split; [|assumption].
  intros m x. rewrite H5, (He m x). tauto.
Qed.

Lemma adds_post_trans s s1 s2 (A1 A2 : id -> id -> Prop) :
  adds_post s s1 A1 -> adds_post s1 s2 A2 -> adds_post s s2 (fun m x => A1 m x \/ A2 m x).
Proof.
  intros [A1' [A2' [A3 [A4 [A5 A6]]]]] [B1 [B2 [B3 [B4 [B5 B6]]]]].
  split; [intro q; rewrite B1; apply A1'|]. split; [congruence|]. split; [eapply frame_w_trans; eassumption|].
  split; [congruence|]. split; [intros m x; rewrite B5, A5; tauto|]. intros m Hm. apply B6, A6, Hm.
Qed.

Lemma new_outer_adds s n i : ~ In i (keys s n) -> adds_post s (new_outer s n i) (fun m x => m = n /\ x = i).
Proof.
  intro H. split; [intro q; apply pw_new_outer; exact H|]. split; [reflexivity|].
  split; [apply frame_new_outer|]. split; [reflexivity|].
  split; [intros m x; apply keys_new_outer|]. intros m Hm. apply keys_nodup_new_outer. exact Hm.
Qed.

Lemma fold_new_inner n : forall l s,
  NoDup l -> (forall i, In i l -> ~ In i (keys s n)) ->
  adds_post s (fold_ids (fun s i => new_outer s n i) l s) (fun m x => m = n /\ In x l).
Proof.
  induction l as [|i l IH]; intros s Hnd Hk; cbn [fold_ids].
  - eapply adds_post_weaken; [|apply adds_post_none]. intros m x; cbn; tauto.
  - inversion Hnd as [|? ? Hi Hl]; subst.
    pose proof (new_outer_adds s n i (Hk i (or_introl eq_refl))) as H1.
    assert (Hk' : forall j, In j l -> ~ In j (keys (new_outer s n i) n)).
    { intros j Hj Hin. apply keys_new_outer in Hin as [Hin|[_ ->]]; [apply (Hk j (or_intror Hj)); exact Hin|contradiction]. }
    pose proof (IH (new_outer s n i) Hl Hk') as H2.
    eapply adds_post_weaken; [|eapply adds_post_trans; [exact H1|exact H2]].
    intros m x. cbn. split; [intros [[-> ->]|[-> H]]; auto|intros [-> [->|H]]; auto].
Qed.

Lemma fold_new_refs (g : list id) : forall ns s,
  NoDup ns -> NoDup g -> (forall m i, In m ns -> In i g -> ~ In i (keys s m)) ->
  forall (G : state -> list id), (forall s', frame_w s s' -> G s' = g) ->
  adds_post s (fold_ids (fun s n => fold_ids (fun s i => new_outer s n i) (G s) s) ns s)
            (fun m x => In m ns /\ In x g).
Proof.
  induction ns as [|n ns IH]; intros s Hnn Hng Hk G HG; cbn [fold_ids].
  - eapply adds_post_weaken; [|apply adds_post_none]. intros m x; cbn; tauto.
  - inversion Hnn as [|? ? Hn Hns]; subst.
    rewrite (HG s (frame_w_refl s)).
    pose proof (fold_new_inner n g s Hng (fun i Hi => Hk n i (or_introl eq_refl) Hi)) as H1.
    set (s1 := fold_ids (fun s i => new_outer s n i) g s) in *.
    pose proof H1 as [P1 [P2 [P3 [P4 [P5 P6]]]]].
    assert (Hk' : forall m i, In m ns -> In i g -> ~ In i (keys s1 m)).
    { intros m i Hm Hi Hin. apply P5 in Hin as [Hin|[-> _]]; [apply (Hk m i (or_intror Hm) Hi); exact Hin|contradiction]. }
    assert (HG' : forall s', frame_w s1 s' -> G s' = g) by (intros s' Hf; apply HG; eapply frame_w_trans; eassumption).
    pose proof (IH s1 Hns Hng Hk' G HG') as H2.
    eapply adds_post_weaken; [|eapply adds_post_trans; [exact H1|exact H2]].
    intros m x. cbn. split; [intros [[-> H]|[Ha Hb]]; auto|intros [[->|Ha] Hb]; auto].
Qed.

Lemma fold_new_refs_one (c : id) : forall ns s,
  NoDup ns -> (forall m, In m ns -> ~ In c (keys s m)) ->
  adds_post s (fold_ids (fun s n => new_outer s n c) ns s) (fun m x => In m ns /\ x = c).
Proof.
  induction ns as [|n ns IH]; intros s Hnn Hk; cbn [fold_ids].
  - eapply adds_post_weaken; [|apply adds_post_none]. intros m x; cbn; tauto.
  - inversion Hnn as [|? ? Hn Hns]; subst.
    pose proof (new_outer_adds s n c (Hk n (or_introl eq_refl))) as H1.
    assert (Hk' : forall m, In m ns -> ~ In c (keys (new_outer s n c) m)).
    { intros m Hm Hin. apply keys_new_outer in Hin as [Hin|[-> _]]; [apply (Hk m (or_intror Hm)); exact Hin|contradiction]. }
    pose proof (IH (new_outer s n c) Hns Hk') as H2.
    eapply adds_post_weaken; [|eapply adds_post_trans; [exact H1|exact H2]].
    intros m x. cbn. split; [intros [[-> ->]|[H ->]]; auto|intros [[->|H] ->]; auto].
Qed.

Lemma adds_invp s s' A : adds_post s s' A -> InvP s -> InvP s'.
Proof.
  intros [H1 [H2 _]] Hp. apply (invp_same s s' Hp H1). intro w. rewrite H2. reflexivity.
Qed.

(* ---- add_* ---- *)
Lemma par_In s r p x : Inv1a s -> (In x (kids s r p) <-> par s r x = Some p).
Proof. intros [H _]. apply H. Qed.

Lemma add_core_pk s r p c pos :
  Inv s -> par s r c = None ->
  let s3 := set_par (set_kids (emit s (EAdd r p c)) r p (py_insert pos c (kids (emit s (EAdd r p c)) r p))) r c (Some p) in
  InvP (add_post s3 r p c) /\ InvK (add_post s3 r p c).
Proof.
  intros [Ha Hr Hp Hk] Hpar s3.
  assert (Hp3 : InvP s3) by (apply (invp_same s s3 Hp); intros; reflexivity).
  destruct r; cbn [add_post].
  1,2,4,5,7: split; [exact Hp3|]; apply (invk_same s s3 Hk); intros; reflexivity.
  - (* ports *)
    assert (Hnk : forall m i, In m (drefs s p) -> In i (kids s RPins c) -> ~ In i (keys s3 m)).
    { intros m i Hm Hi Hin. change (keys s3 m) with (keys s m) in Hin.
      apply (k_keys s Hk) in Hin as [d [p0 [_ [H2 H3]]]].
      apply (par_In s RPins c i Ha) in Hi. rewrite Hi in H3. inversion H3; subst p0. congruence. }
    pose proof (fold_new_refs (kids s RPins c) (drefs s p) s3 (i2_nodup s Hr p) (i1_nodup s Ha RPins c) Hnk
                  (fun s' => kids s' RPins c)) as Hadd.
    assert (HG : forall s', frame_w s3 s' -> kids s' RPins c = kids s RPins c).
    { intros s' [Hk' _ _ _ _ _]. rewrite Hk'. reflexivity. }
    specialize (Hadd HG). change (drefs s3 p) with (drefs s p).
    set (s' := fold_ids _ (drefs s p) s3) in *.
    split; [eapply adds_invp; eassumption|].
    destruct Hadd as [_ [_ [[_ Hpar' Href' _ _ _] [_ [Hkeys Hnd]]]]].
    constructor.
    + intros m x. rewrite Hkeys, Href', Hpar'. change (keys s3 m) with (keys s m). change (iref s3) with (iref s).
      rewrite (k_keys s Hk). cbn. split.
      * intros [[d [p0 [H1 [H2 H3]]]]|[Hm Hx]].
        -- exists d, p0. split; [exact H1|]. split; [|exact H3].
           unfold upd. destruct (Nat.eqb_spec p0 c) as [->|]; [congruence|exact H2].
        -- exists p, c. split; [apply (i2_ref s Hr); exact Hm|]. split; [apply upd_same|].
           apply (par_In s RPins c x Ha). exact Hx.
      * intros [d [p0 [H1 [H2 H3]]]]. unfold upd in H2.
        destruct (Nat.eqb_spec p0 c) as [->|Hne].
        -- inversion H2; subst d. right. split; [apply (i2_ref s Hr); exact H1|apply (par_In s RPins c x Ha); exact H3].
        -- left. exists d, p0. auto.
    + intro m. apply Hnd. apply (k_nodup s Hk).
  - (* pins *)
    change (par s3 RPorts p) with (par s RPorts p).
    destruct (par s RPorts p) as [d|] eqn:Hd.
    + assert (Hnk : forall m, In m (drefs s d) -> ~ In c (keys s3 m)).
      { intros m Hm Hin. change (keys s3 m) with (keys s m) in Hin.
        apply (k_keys s Hk) in Hin as [d0 [p0 [_ [_ H3]]]]. congruence. }
      pose proof (fold_new_refs_one c (drefs s d) s3 (i2_nodup s Hr d) Hnk) as Hadd.
      change (drefs s3 d) with (drefs s d).
      set (s' := fold_ids _ (drefs s d) s3) in *.
      split; [eapply adds_invp; eassumption|].
      destruct Hadd as [_ [_ [[_ Hpar' Href' _ _ _] [_ [Hkeys Hnd]]]]].
      constructor.
      * intros m x. rewrite Hkeys, Href', Hpar'. change (keys s3 m) with (keys s m). change (iref s3) with (iref s).
        rewrite (k_keys s Hk). cbn. split.
        -- intros [[d0 [p0 [H1 [H2 H3]]]]|[Hm ->]].
           ++ exists d0, p0. split; [exact H1|]. split; [exact H2|].
              unfold upd. destruct (Nat.eqb_spec x c) as [->|]; [congruence|exact H3].
           ++ exists d, p. split; [apply (i2_ref s Hr); exact Hm|]. split; [exact Hd|apply upd_same].
        -- intros [d0 [p0 [H1 [H2 H3]]]]. unfold upd in H3.
           destruct (Nat.eqb_spec x c) as [->|Hne].
           ++ inversion H3; subst p0. rewrite Hd in H2. inversion H2; subst d0.
              right. split; [apply (i2_ref s Hr); exact H1|reflexivity].
           ++ left. exists d0, p0. auto.
      * intro m. apply Hnd. apply (k_nodup s Hk).
    + split; [exact Hp3|]. constructor.
      * intros m x. change (keys s3 m) with (keys s m). change (iref s3) with (iref s).
        rewrite (k_keys s Hk). cbn. split.
        -- intros [d0 [p0 [H1 [H2 H3]]]]. exists d0, p0. split; [exact H1|]. split; [exact H2|].
           unfold upd. destruct (Nat.eqb_spec x c) as [->|]; [congruence|exact H3].
        -- intros [d0 [p0 [H1 [H2 H3]]]]. unfold upd in H3.
           destruct (Nat.eqb_spec x c) as [->|Hne]; [inversion H3; subst p0; congruence|].
           exists d0, p0. auto.
      * intro m. apply (k_nodup s Hk).
Qed.

Lemma inv_struct s s' : struct_eq s s' -> Inv s -> Inv s'.
Proof.
  intros Hs [Ha Hr Hp Hk]. constructor.
  - eapply inv1a_cont; [apply struct_cont; exact Hs|exact Ha].
  - eapply inv2a_ref; [apply struct_ref; exact Hs|exact Hr].
  - eapply pk_invp; [apply struct_pk; exact Hs|exact Hp].
  - eapply pk_invk; [apply struct_pk; exact Hs|exact Hk].
Qed.

(* ---- the namespace manager never gets stuck ---- *)
Definition nostuck (r : R) : Prop := snd r <> Some XStuck.

Lemma nostuck_bind r f : nostuck r -> (forall s, nostuck (f s)) -> nostuck (r >>= f).
Proof. destruct r as [s [e|]]; cbn; auto. Qed.

Lemma nostuck_ret s : nostuck (ret s).
Proof. cbn. discriminate. Qed.

Lemma nostuck_ns_dictionary_set s e k v : nostuck (ns_dictionary_set s e k v).
Proof.
  unfold ns_dictionary_set, nostuck, ret, raise.
  repeat match goal with
         | |- context [if ?b then _ else _] => destruct b
         | |- context [match ?x with _ => _ end] => destruct x
         end; cbn; discriminate.
Qed.

Lemma nostuck_ns_dictionary_delete s e k : nostuck (ns_dictionary_delete s e k).
Proof.
  unfold ns_dictionary_delete, nostuck, ret, raise.
  repeat match goal with
         | |- context [if ?b then _ else _] => destruct b
         | |- context [match ?x with _ => _ end] => destruct x
         end; cbn; discriminate.
Qed.

Lemma nostuck_dict_set s e k v : nostuck (dict_set s e k v).
Proof. unfold dict_set. apply nostuck_bind; [apply nostuck_ns_dictionary_set|intro; apply nostuck_ret]. Qed.

Lemma nostuck_dict_del s e k : nostuck (dict_del s e k).
Proof.
  unfold dict_del. apply nostuck_bind; [apply nostuck_ns_dictionary_delete|].
  intro s1. destruct (has_key _ _ _); cbn; discriminate.
Qed.

Lemma nostuck_dict_pop s e k : nostuck (dict_pop s e k).
Proof.
  unfold dict_pop. apply nostuck_bind; [apply nostuck_ns_dictionary_delete|].
  intro s1. destruct (has_key _ _ _); cbn; discriminate.
Qed.

Lemma nostuck_ns_add s p c ck : nostuck (ns_add s p c ck).
Proof.
  unfold ns_add. destruct (match nstab s p with Some _ => _ | None => _ end); [cbn; discriminate|].
  apply nostuck_bind.
  - destruct (sassoc str_NS (data s p)).
    + destruct (match sassoc str_NS (data s c) with Some _ => _ | None => _ end); [apply nostuck_ret|apply nostuck_dict_set].
    + destruct (has_key s c str_NS); [apply nostuck_dict_del|apply nostuck_ret].
  - intro s1. destruct (nstab s1 p); apply nostuck_ret.
Qed.

Lemma nostuck_set_props e props : forall s, nostuck (set_props s e props).
Proof.
  induction props as [|[k v] ps IH]; intro s; cbn; [apply nostuck_ret|].
  apply nostuck_bind; [apply nostuck_dict_set|apply IH].
Qed.

Lemma nostuck_construct s k nm props : nostuck (fst (construct s k nm props)).
Proof.
  unfold construct. cbn. destruct (has_data k); cbn [fst]; [|apply nostuck_ret].
  apply nostuck_bind; [apply nostuck_dict_set|]. intro s1.
  apply nostuck_bind; [destruct nm; [apply nostuck_dict_set|apply nostuck_ret]|]. intro; apply nostuck_set_props.
Qed.

Lemma nostuck_guard b x s k : x <> XStuck -> (forall s1, nostuck (k s1)) -> nostuck (guard b x s k).
Proof. intros Hx Hk. unfold guard, nostuck. destruct b; [apply Hk|cbn; intro H; inversion H; contradiction]. Qed.

(* alloc and the construction of a fresh element do not touch anything the invariants look at *)
Lemma construct_struct s k nm props :
  let r := fst (fst (construct s k nm props)) in
  kids r = kids s /\ par r = par s /\ wpins r = wpins s /\ ipwire r = ipwire s /\ iref r = iref s /\
  drefs r = drefs s /\ ipins r = ipins s.
Proof.
  unfold construct, alloc. cbn zeta beta iota.
  set (s0 := s <| next := S (next s) |> <| kind_of ::= fun f => upd f (next s) (Some k) |>).
  destruct (has_data k); cbn [fst]; [|repeat split; reflexivity].
  match goal with |- context [fst (?m)] => assert (H0 : struct_eq s0 (fst m)) end.
  { apply se_bind; [apply se_ns_create|]. intro s1.
    apply se_bind; [destruct nm; cbn; [eapply struct_eq_trans; [apply se_emit|apply se_dict_set]|apply se_emit]|].
    intro; apply se_set_props. }
  destruct H0. repeat split; assumption.
Qed.

Lemma inv_of_fields s s' :
  kids s' = kids s -> par s' = par s -> wpins s' = wpins s -> ipwire s' = ipwire s -> iref s' = iref s ->
  drefs s' = drefs s -> ipins s' = ipins s -> Inv s -> Inv s'.
Proof.
  intros H1 H2 H3 H4 H5 H6 H7 [Ha Hr Hp Hk]. constructor.
  - eapply inv1a_cont; [split; eassumption|exact Ha].
  - eapply inv2a_ref; [split; eassumption|exact Hr].
  - eapply pk_invp; [|exact Hp]. repeat split; try assumption; intro; rewrite H2; reflexivity.
  - eapply pk_invk; [|exact Hk]. repeat split; try assumption; intro; rewrite H2; reflexivity.
Qed.

Lemma construct_inv s k nm props : Inv s -> Inv (fst (fst (construct s k nm props))).
Proof.
  intro H. destruct (construct_struct s k nm props) as [H1 [H2 [H3 [H4 [H5 [H6 H7]]]]]].
  eapply inv_of_fields; eassumption.
Qed.

Lemma op_add_inv s r p c pos : Inv s -> Inv (fst (op_add s r p c pos)) /\ nostuck (op_add s r p c pos).
Proof.
  intro Hi.
  assert (Hns : nostuck (op_add s r p c pos)).
  { unfold op_add. repeat (apply nostuck_guard; [discriminate|intro]).
    apply nostuck_bind; [destruct (ns_rel r); [apply nostuck_ns_add|apply nostuck_ret]|intro; apply nostuck_ret]. }
  split; [|exact Hns].
  constructor.
  - apply op_add_inv1a, Hi.
  - eapply inv2a_ref; [apply re_op_add|apply Hi].
  - (* pins / keys *)
    unfold op_add, guard. destruct (_ && _); [|apply Hi].
    destruct (add_guard1 s r p c); [|apply Hi].
    destruct (par s r c) eqn:Hpar; [apply Hi|].
    pose proof (se_ns_add s p c (rel_child r)) as Hse.
    set (res := if ns_rel r then ns_add s p c (rel_child r) else ret s).
    assert (Hse' : struct_eq s (fst res)) by (unfold res; destruct (ns_rel r); [exact Hse|apply struct_eq_refl]).
    destruct res as [s1 [e|]]; cbn [bindR fst snd] in *.
    + apply (inv_struct s s1 Hse' Hi).
    + assert (Hpar1 : par s1 r c = None) by (rewrite (se_par _ _ Hse'); exact Hpar).
      apply (add_core_pk s1 r p c pos (inv_struct s s1 Hse' Hi) Hpar1).
  - unfold op_add, guard. destruct (_ && _); [|apply Hi].
    destruct (add_guard1 s r p c); [|apply Hi].
    destruct (par s r c) eqn:Hpar; [apply Hi|].
    pose proof (se_ns_add s p c (rel_child r)) as Hse.
    set (res := if ns_rel r then ns_add s p c (rel_child r) else ret s).
    assert (Hse' : struct_eq s (fst res)) by (unfold res; destruct (ns_rel r); [exact Hse|apply struct_eq_refl]).
    destruct res as [s1 [e|]]; cbn [bindR fst snd] in *.
    + apply (inv_struct s s1 Hse' Hi).
    + assert (Hpar1 : par s1 r c = None) by (rewrite (se_par _ _ Hse'); exact Hpar).
      apply (add_core_pk s1 r p c pos (inv_struct s s1 Hse' Hi) Hpar1).
Qed.

(* ---- _remove_* ---- *)
Definition Inv1aR (s : state) (r : rel) : Prop :=
  (forall p x, In x (kids s r p) <-> par s r x = Some p) /\ (forall p, NoDup (kids s r p)).

Lemma inv1a_R s r : Inv1a s -> Inv1aR s r.
Proof. intros [H1 H2]. split; intros; [apply H1|apply H2]. Qed.

Lemma drops_invk_ports s s3 p c :
  InvK s -> Inv2a s -> Inv1aR s RPins -> par s RPorts c = Some p ->
  drops_post s s3 (fun m x => In m (drefs s p) /\ In x (kids s RPins c)) ->
  InvK (set_par s3 RPorts c None).
Proof.
  intros Hk Hr [Hpin _] Hc [_ [[_ Hpar Href _ _ _] [_ [Hkeys [Hnd _]]]]].
  constructor.
  - intros m x. change (keys (set_par s3 RPorts c None) m) with (keys s3 m).
    change (iref (set_par s3 RPorts c None)) with (iref s3). rewrite Hkeys, Href, (k_keys s Hk). cbn. rewrite Hpar. split.
    + intros [[d [p0 [H1 [H2 H3]]]] Hnot]. exists d, p0. split; [exact H1|]. split; [|exact H3].
      unfold upd. destruct (Nat.eqb_spec p0 c) as [->|]; [|exact H2].
      exfalso. apply Hnot. rewrite Hc in H2. inversion H2; subst d.
      split; [apply (i2_ref s Hr); exact H1|apply Hpin; exact H3].
    + intros [d [p0 [H1 [H2 H3]]]]. unfold upd in H2.
      destruct (Nat.eqb_spec p0 c) as [->|Hne]; [discriminate|].
      split; [exists d, p0; auto|]. intros [_ Hx]. apply Hpin in Hx. congruence.
  - intro m. change (keys (set_par s3 RPorts c None) m) with (keys s3 m). apply Hnd, (k_nodup s Hk).
Qed.

Lemma drops_invk_pins s s3 p c d :
  InvK s -> Inv2a s -> par s RPins c = Some p -> par s RPorts p = Some d ->
  drops_post s s3 (fun m x => In m (drefs s d) /\ x = c) ->
  InvK (set_par s3 RPins c None).
Proof.
  intros Hk Hr Hc Hd [_ [[_ Hpar Href _ _ _] [_ [Hkeys [Hnd _]]]]].
  constructor.
  - intros m x. change (keys (set_par s3 RPins c None) m) with (keys s3 m).
    change (iref (set_par s3 RPins c None)) with (iref s3). rewrite Hkeys, Href, (k_keys s Hk). cbn. rewrite Hpar. split.
    + intros [[d0 [p0 [H1 [H2 H3]]]] Hnot]. exists d0, p0. split; [exact H1|]. split; [exact H2|].
      unfold upd. destruct (Nat.eqb_spec x c) as [->|]; [|exact H3].
      exfalso. apply Hnot. rewrite Hc in H3. inversion H3; subst p0. rewrite Hd in H2. inversion H2; subst d0.
      split; [apply (i2_ref s Hr); exact H1|reflexivity].
    + intros [d0 [p0 [H1 [H2 H3]]]]. unfold upd in H3.
      destruct (Nat.eqb_spec x c) as [->|Hne]; [discriminate|].
      split; [exists d0, p0; auto|]. intros [_ Hx]. contradiction.
  - intro m. change (keys (set_par s3 RPins c None) m) with (keys s3 m). apply Hnd, (k_nodup s Hk).
Qed.

Lemma invp_of_fields s s' :
  wpins s' = wpins s -> ipwire s' = ipwire s -> ipins s' = ipins s -> InvP s -> InvP s'.
Proof.
  intros H1 H2 H3 Hp. apply (invp_same s s' Hp); [intro q; apply pw_ext; assumption|intro w; rewrite H1; reflexivity].
Qed.

Lemma remove_core_pk s r p c :
  InvP s -> InvK s -> Inv2a s -> (r = RPorts -> Inv1aR s RPins) -> par s r c = Some p ->
  let res := remove_core s r p c in
  snd res = None /\ InvP (fst res) /\ InvK (fst res) /\ ref_eq s (fst res).
Proof.
  intros Hp Hk Hr H1 Hc. cbn zeta.
  pose proof (re_remove_core s r p c) as Hre.
  unfold remove_core in *.
  set (s1 := if ns_rel r then ns_remove_child s p c (rel_child r) else s) in *.
  assert (Hse : struct_eq s s1) by (unfold s1; destruct (ns_rel r); [apply se_ns_remove_child|apply struct_eq_refl]).
  set (s2 := emit s1 (ERemove r p c)) in *.
  assert (Hse2 : struct_eq s s2) by (eapply struct_eq_trans; [exact Hse|apply se_emit]).
  assert (Hp2 : InvP s2) by (eapply pk_invp; [apply struct_pk; exact Hse2|exact Hp]).
  assert (Hk2 : InvK s2) by (eapply pk_invk; [apply struct_pk; exact Hse2|exact Hk]).
  assert (Hr2 : Inv2a s2) by (eapply inv2a_ref; [apply struct_ref; exact Hse2|exact Hr]).
  assert (Hc2 : par s2 r c = Some p) by (rewrite (se_par _ _ Hse2); exact Hc).
  destruct r.
  1,2,4,5,7: cbn [bindR ret fst snd]; split; [reflexivity|]; split;
    [apply (invp_of_fields s2); [reflexivity|reflexivity|reflexivity|exact Hp2]|];
    split; [apply (invk_same s2 _ Hk2); intros; reflexivity|exact Hre].
  - (* ports *)
    assert (H1' : Inv1aR s2 RPins).
    { destruct (H1 eq_refl) as [A B]. split; intros; rewrite (se_kids _ _ Hse2), ?(se_par _ _ Hse2); [apply A|apply B]. }
    assert (Hkeys : forall m i, In m (drefs s2 p) -> In i (kids s2 RPins c) -> In i (keys s2 m)).
    { intros m i Hm Hi. apply (k_keys s2 Hk2). exists p, c. split; [apply (i2_ref s2 Hr2); exact Hm|].
      split; [exact Hc2|apply H1'; exact Hi]. }
    destruct (fold_drop_outer_refs (kids s2 RPins c) (drefs s2 p) s2 Hp2 (i2_nodup s2 Hr2 p) (proj2 H1' c) Hkeys
                (fun s' => kids s' RPins c)) as [Hs Hd].
    { intros s' [Hk' _ _ _ _ _]. rewrite Hk'. reflexivity. }
    destruct (fold_idsR _ (drefs s2 p) s2) as [s3 [e|]]; cbn [fst snd] in *; [discriminate|].
    cbn [bindR ret fst snd]. split; [reflexivity|].
    split; [apply (invp_of_fields s3); [reflexivity|reflexivity|reflexivity|apply Hd]|].
    split; [apply (drops_invk_ports s2 s3 p c Hk2 Hr2 H1' Hc2 Hd)|exact Hre].
  - (* pins *)
    destruct (par s2 RPorts p) as [d|] eqn:Hd.
    + assert (Hkeys : forall m, In m (drefs s2 d) -> In c (keys s2 m)).
      { intros m Hm. apply (k_keys s2 Hk2). exists d, p. split; [apply (i2_ref s2 Hr2); exact Hm|]. split; assumption. }
      destruct (fold_drop_refs_one c (drefs s2 d) s2 Hp2 (i2_nodup s2 Hr2 d) Hkeys) as [Hs Hdp].
      destruct (fold_idsR _ (drefs s2 d) s2) as [s3 [e|]]; cbn [fst snd] in *; [discriminate|].
      cbn [bindR ret fst snd]. split; [reflexivity|].
      split; [apply (invp_of_fields s3); [reflexivity|reflexivity|reflexivity|apply Hdp]|].
      split; [apply (drops_invk_pins s2 s3 p c d Hk2 Hr2 Hc2 Hd Hdp)|exact Hre].
    + cbn [bindR ret fst snd]. split; [reflexivity|].
      split; [apply (invp_of_fields s2); [reflexivity|reflexivity|reflexivity|exact Hp2]|].
      split; [|exact Hre]. constructor.
      * intros m x. change (keys (set_par s2 RPins c None) m) with (keys s2 m).
        change (iref (set_par s2 RPins c None)) with (iref s2). rewrite (k_keys s2 Hk2). cbn. split.
        -- intros [d0 [p0 [A [B C]]]]. exists d0, p0. split; [exact A|]. split; [exact B|].
           unfold upd. destruct (Nat.eqb_spec x c) as [->|]; [|exact C].
           exfalso. pose proof Hc2 as Hc3. pose proof Hd as Hd3. cbn in Hc3, Hd3, B, C. congruence.
        -- intros [d0 [p0 [A [B C]]]]. unfold upd in C. destruct (Nat.eqb_spec x c) as [->|]; [discriminate|]. exists d0, p0. auto.
      * intro m. apply (k_nodup s2 Hk2).
Qed.

Lemma op_remove_inv s r p c : Inv s -> Inv (fst (op_remove s r p c)) /\ nostuck (op_remove s r p c).
Proof.
  intro Hi.
  assert (Hmain : nostuck (op_remove s r p c) /\ InvP (fst (op_remove s r p c)) /\ InvK (fst (op_remove s r p c))).
  { unfold op_remove, guard, nostuck. destruct (_ && _); [|cbn; split; [discriminate|split; apply Hi]].
    destruct (par_is s r c p) eqn:Hpar; [|cbn; split; [discriminate|split; apply Hi]].
    unfold par_is in Hpar. destruct (par s r c) as [q|] eqn:Hq; [|discriminate]. apply Nat.eqb_eq in Hpar; subst q.
    destruct (remove_core_pk s r p c (inv_p s Hi) (inv_k s Hi) (inv_r s Hi) (fun _ => inv1a_R s RPins (inv_a s Hi)) Hq)
      as [Hs [Hp [Hk _]]].
    destruct (remove_core s r p c) as [s1 [e|]]; cbn [fst snd] in *; [discriminate|]. cbn [bindR ret fst snd].
    split; [discriminate|]. split.
    - apply (invp_of_fields s1); [reflexivity|reflexivity|reflexivity|exact Hp].
    - apply (invk_same s1 _ Hk); intros; reflexivity. }
  destruct Hmain as [Hn [Hp Hk]]. split; [|exact Hn].
  constructor; [apply op_remove_inv1a, Hi|eapply inv2a_ref; [apply re_op_remove|apply Hi]|exact Hp|exact Hk].
Qed.

Lemma NoDup_dedup l : NoDup (dedup l).
Proof.
  induction l as [|x l IH]; cbn; [constructor|].
  destruct (memb x l) eqn:E; [exact IH|]. constructor; [|exact IH].
  intro H. apply memb_false in E. apply E. clear - H.
  induction l as [|y l IHl]; cbn in *; [contradiction|].
  destruct (memb y l) eqn:Ey; [right; apply IHl; exact H|].
  destruct H as [->|H]; [left; reflexivity|right; apply IHl; exact H].
Qed.

Lemma fold_remove_core_pk r p : forall order s,
  NoDup order -> (forall c, In c order -> par s r c = Some p) ->
  InvP s -> InvK s -> Inv2a s -> (r = RPorts -> Inv1aR s RPins) ->
  let res := fold_idsR (fun s c => remove_core s r p c) order s in
  snd res = None /\ InvP (fst res) /\ InvK (fst res).
Proof.
  induction order as [|c order IH]; intros s Hnd Hpar Hp Hk Hr H1; cbn [fold_idsR].
  - cbn. auto.
  - inversion Hnd as [|? ? Hc Hord]; subst.
    destruct (remove_core_pk s r p c Hp Hk Hr H1 (Hpar c (or_introl eq_refl))) as [Hs [Hp1 [Hk1 Hre]]].
    pose proof (remove_core_spec s r p c) as Hspec. cbn zeta in Hspec.
    destruct (remove_core s r p c) as [s1 [e|]]; cbn [fst snd] in *; [discriminate|]. cbn [bindR].
    destruct Hspec as [[_ [Hkids Hpar1]]|[Hx _]]; [|congruence].
    apply IH; try assumption.
    + intros c' Hc'. rewrite Hpar1. unfold upd2, upd. rewrite rel_eqb_refl.
      destruct (Nat.eqb_spec c' c) as [->|]; [contradiction|]. apply Hpar. right; exact Hc'.
    + eapply inv2a_ref; [exact Hre|exact Hr].
    + intros ->. destruct (H1 eq_refl) as [A B]. split; intros; rewrite Hkids, ?Hpar1; [apply A|apply B].
Qed.

Lemma op_remove_from_inv s r p cs : Inv s -> Inv (fst (op_remove_from s r p cs)) /\ nostuck (op_remove_from s r p cs).
Proof.
  intro Hi.
  assert (Hmain : nostuck (op_remove_from s r p cs) /\ InvP (fst (op_remove_from s r p cs)) /\ InvK (fst (op_remove_from s r p cs))).
  { unfold op_remove_from, guard, nostuck. destruct (_ && _); [|cbn; split; [discriminate|split; apply Hi]].
    destruct (forallb (fun c => par_is s r c p) cs) eqn:Hall; [|cbn; split; [discriminate|split; apply Hi]].
    rewrite forallb_forall in Hall.
    assert (Hcs : forall c, In c cs -> par s r c = Some p).
    { intros c Hc. specialize (Hall c Hc). unfold par_is in Hall.
      destruct (par s r c) as [q|]; [|discriminate]. apply Nat.eqb_eq in Hall. congruence. }
    set (order := if walks_container r then filter (fun x => memb x cs) (kids s r p) else dedup cs).
    assert (Hnd : NoDup order).
    { unfold order. destruct (walks_container r); [apply NoDup_filter, (i1_nodup s (inv_a s Hi))|apply NoDup_dedup]. }
    assert (Hin : forall c, In c order -> par s r c = Some p).
    { intros c Hc. apply Hcs. unfold order in Hc. destruct (walks_container r).
      - apply filter_In in Hc as [_ Hc]. apply memb_In. exact Hc.
      - apply memb_In. rewrite <- memb_dedup. apply memb_In. exact Hc. }
    destruct (fold_remove_core_pk r p order s Hnd Hin (inv_p s Hi) (inv_k s Hi) (inv_r s Hi)
                (fun _ => inv1a_R s RPins (inv_a s Hi))) as [Hs [Hp Hk]].
    destruct (fold_idsR _ order s) as [s1 [e|]]; cbn [fst snd] in *; [discriminate|]. cbn [bindR ret fst snd].
    split; [discriminate|]. split.
    - apply (invp_of_fields s1); [reflexivity|reflexivity|reflexivity|exact Hp].
    - apply (invk_same s1 _ Hk); intros; reflexivity. }
  destruct Hmain as [Hn [Hp Hk]]. split; [|exact Hn].
  constructor; [apply op_remove_from_inv1a; [apply Hi|exact Hn]|eapply inv2a_ref; [apply re_op_remove_from|apply Hi]|exact Hp|exact Hk].
Qed.

(* ---- rekey (re-pointing one outer pin) ---- *)
Lemma rekey_spec s x c n :
  InvP s -> NoDup (keys s x) -> In c (keys s x) -> (c = n \/ ~ In n (keys s x)) ->
  let r := rekey s x (c, n) in
  snd r = None /\ InvP (fst r) /\ frame_w s (fst r) /\ ipwire (fst r) = ipwire s /\
  (forall i, In i (keys (fst r) x) <-> i = n \/ (In i (keys s x) /\ i <> c)) /\
  NoDup (keys (fst r) x) /\ (forall m, m <> x -> ipins (fst r) m = ipins s m).
Proof.
  intros Hp Hnd Hc Hn. unfold rekey.
  apply assoc_In_fst in Hc as [ow Hc]. rewrite Hc. cbn [snd fst ret]. split; [reflexivity|].
  set (l' := assoc_set n ow (assoc_del c (ipins s x))).
  set (s1 := set_ipins s x l').
  assert (Hpw : pin_wire s (POut x c) = ow) by (cbn; rewrite Hc; reflexivity).
  assert (Hpn : c = n \/ pin_wire s (POut x n) = None).
  { destruct Hn as [->|Hn]; [left; reflexivity|right]. cbn. apply assoc_None_not_In in Hn. unfold keys in Hn. rewrite Hn. reflexivity. }
  assert (Hq1 : forall q, pin_wire s1 q = if pin_eqb q (POut x n) then ow
                                          else if pin_eqb q (POut x c) then None else pin_wire s q).
  { intro q. destruct q as [j|m j|]; cbn; try reflexivity. unfold upd.
    destruct (Nat.eqb_spec m x) as [->|Hmx]; cbn; [|reflexivity].
    unfold l'. destruct (Nat.eqb_spec j n) as [->|Hjn]; [rewrite assoc_set_same; reflexivity|].
    rewrite assoc_set_other by assumption.
    destruct (Nat.eqb_spec j c) as [->|Hjc]; [rewrite assoc_del_same; reflexivity|].
    rewrite assoc_del_other by assumption. reflexivity. }
  assert (Hkeys : forall i, In i (map fst l') <-> i = n \/ (In i (keys s x) /\ i <> c)).
  { intro i. unfold l'. rewrite In_keys_set, In_keys_del. reflexivity. }
  assert (Hnd' : NoDup (map fst l')) by (unfold l'; apply NoDup_keys_set, NoDup_keys_del, Hnd).
  assert (Hfin : forall s', (forall q, pin_wire s' q = pin_wire s1 q) ->
                 (forall w0, wpins s' w0 = match ow with
                                           | Some w => if Nat.eqb w0 w then map (rename_pin (POut x c) (POut x n)) (wpins s w) else wpins s w0
                                           | None => wpins s w0 end) -> InvP s').
  { intros s' Hq Hw. apply (invp_rekey s s' x c n ow Hp Hpw Hpn); [|exact Hw].
    intro q. rewrite Hq. apply Hq1. }
  destruct ow as [w|].
  - split; [apply Hfin; [intro q; apply pw_ext; reflexivity|intro w0; cbn; unfold upd; destruct (Nat.eqb w0 w); reflexivity]|].
    split; [constructor; reflexivity|]. split; [reflexivity|].
    split; [intro i; unfold keys; cbn; rewrite upd_same; apply Hkeys|].
    split; [unfold keys; cbn; rewrite upd_same; exact Hnd'|].
    intros m Hm. cbn. apply upd_other. exact Hm.
  - split; [apply Hfin; [intro q; reflexivity|intro w0; reflexivity]|].
    split; [constructor; reflexivity|]. split; [reflexivity|].
    split; [intro i; unfold keys; cbn; rewrite upd_same; apply Hkeys|].
    split; [unfold keys; cbn; rewrite upd_same; exact Hnd'|].
    intros m Hm. cbn. apply upd_other. exact Hm.
Qed.

(* all pairs processed; pairs with fresh targets *)
Lemma fold_rekey_fresh x : forall ps s,
  InvP s -> NoDup (keys s x) -> NoDup (map fst ps) -> NoDup (map snd ps) ->
  (forall c, In c (map fst ps) -> In c (keys s x)) ->
  (forall n, In n (map snd ps) -> ~ In n (keys s x) /\ ~ In n (map fst ps)) ->
  let r := fold_pairsR (fun s cn => rekey s x cn) ps s in
  snd r = None /\ InvP (fst r) /\ frame_w s (fst r) /\ ipwire (fst r) = ipwire s /\
  (forall i, In i (keys (fst r) x) <-> In i (map snd ps) \/ (In i (keys s x) /\ ~ In i (map fst ps))) /\
  NoDup (keys (fst r) x) /\ (forall m, m <> x -> ipins (fst r) m = ipins s m).
Proof.
  induction ps as [|[c n] ps IH]; intros s Hp Hnd Hf Hs Hck Hnk; cbn [fold_pairsR].
  - cbn. split; [reflexivity|]. split; [exact Hp|]. split; [apply frame_w_refl|]. split; [reflexivity|].
    split; [intro i; tauto|]. split; [exact Hnd|reflexivity].
  - cbn [map fst snd] in *. inversion Hf as [|? ? Hcf Hf']; subst. inversion Hs as [|? ? Hns Hs']; subst.
    destruct (Hnk n (or_introl eq_refl)) as [Hn1 Hn2].
    destruct (rekey_spec s x c n Hp Hnd (Hck c (or_introl eq_refl)) (or_intror Hn1)) as [Hr [Hp1 [Hf1 [Hw1 [Hk1 [Hnd1 Ho1]]]]]].
    destruct (rekey s x (c, n)) as [s1 [e|]]; cbn [fst snd] in *; [discriminate|]. cbn [bindR].
    assert (Hck' : forall c', In c' (map fst ps) -> In c' (keys s1 x)).
    { intros c' Hc'. apply Hk1. right. split; [apply Hck; right; exact Hc'|]. intros ->. contradiction. }
    assert (Hnk' : forall n', In n' (map snd ps) -> ~ In n' (keys s1 x) /\ ~ In n' (map fst ps)).
    { intros n' Hn'. destruct (Hnk n' (or_intror Hn')) as [A B]. split.
      - intro Hin. apply Hk1 in Hin as [->|[Hin _]]; [contradiction|contradiction].
      - intro Hin. apply B. right. exact Hin. }
    destruct (IH s1 Hp1 Hnd1 Hf' Hs' Hck' Hnk') as [Hr2 [Hp2 [Hf2 [Hw2 [Hk2 [Hnd2 Ho2]]]]]].
    split; [exact Hr2|]. split; [exact Hp2|]. split; [eapply frame_w_trans; eassumption|]. split; [congruence|].
    split; [|split; [exact Hnd2|intros m Hm; rewrite Ho2, Ho1 by assumption; reflexivity]].
    intro i. rewrite Hk2, Hk1. split.
    + intros [H|[[->|[H1 H2]] H3]]; [left; right; exact H|left; left; reflexivity|].
      right. split; [exact H1|]. intros [->|H4]; [contradiction|contradiction].
    + intros [[<-|H]|[H1 H2]].
      * right. split; [left; reflexivity|]. intro H. apply Hn2. right. exact H.
      * left. exact H.
      * right. split; [right; split; [exact H1|intros ->; apply H2; left; reflexivity]|]. intro H. apply H2. right. exact H.
Qed.

(* identity pairs: the map is only re-ordered *)
Lemma fold_rekey_id x : forall l s,
  InvP s -> NoDup (keys s x) -> (forall c, In c l -> In c (keys s x)) ->
  let r := fold_pairsR (fun s cn => rekey s x cn) (map (fun i => (i, i)) l) s in
  snd r = None /\ InvP (fst r) /\ frame_w s (fst r) /\ ipwire (fst r) = ipwire s /\
  (forall i, In i (keys (fst r) x) <-> In i (keys s x)) /\
  NoDup (keys (fst r) x) /\ (forall m, m <> x -> ipins (fst r) m = ipins s m).
Proof.
  induction l as [|c l IH]; intros s Hp Hnd Hck; cbn [fold_pairsR map].
  - cbn. split; [reflexivity|]. split; [exact Hp|]. split; [apply frame_w_refl|]. split; [reflexivity|].
    split; [intro i; tauto|]. split; [exact Hnd|reflexivity].
  - destruct (rekey_spec s x c c Hp Hnd (Hck c (or_introl eq_refl)) (or_introl eq_refl)) as [Hr [Hp1 [Hf1 [Hw1 [Hk1 [Hnd1 Ho1]]]]]].
    destruct (rekey s x (c, c)) as [s1 [e|]]; cbn [fst snd] in *; [discriminate|]. cbn [bindR].
    assert (Hsame : forall i, In i (keys s1 x) <-> In i (keys s x)).
    { intro i. rewrite Hk1. split; [intros [->|[H _]]; [apply Hck; left; reflexivity|exact H]|].
      intro H. destruct (Nat.eq_dec i c) as [->|Hne]; [left; reflexivity|right; auto]. }
    assert (Hck' : forall c', In c' l -> In c' (keys s1 x)) by (intros c' Hc'; apply Hsame, Hck; right; exact Hc').
    destruct (IH s1 Hp1 Hnd1 Hck') as [Hr2 [Hp2 [Hf2 [Hw2 [Hk2 [Hnd2 Ho2]]]]]].
    split; [exact Hr2|]. split; [exact Hp2|]. split; [eapply frame_w_trans; eassumption|]. split; [congruence|].
    split; [intro i; rewrite Hk2; apply Hsame|]. split; [exact Hnd2|].
    intros m Hm. rewrite Ho2, Ho1 by assumption. reflexivity.
Qed.

(* ---- pins of a definition, pairs of a re-pointing ---- *)
Lemma NoDup_app_intro {A} (l1 l2 : list A) :
  NoDup l1 -> NoDup l2 -> (forall x, In x l1 -> ~ In x l2) -> NoDup (l1 ++ l2).
Proof.
  induction 1 as [|a l Ha Hl IH]; intros H2 Hd; cbn; [exact H2|].
  constructor.
  - rewrite in_app_iff. intros [H|H]; [contradiction|]. apply (Hd a); [left; reflexivity|exact H].
  - apply IH; [exact H2|]. intros x Hx. apply Hd. right; exact Hx.
Qed.

Lemma NoDup_flat_map {A} (f : A -> list id) (l : list A) :
  NoDup l -> (forall a, In a l -> NoDup (f a)) ->
  (forall a b x, In a l -> In b l -> In x (f a) -> In x (f b) -> a = b) -> NoDup (flat_map f l).
Proof.
  induction 1 as [|a l Ha Hl IH]; intros Hf Hd; cbn; [constructor|].
  apply NoDup_app_intro.
  - apply Hf. left; reflexivity.
  - apply IH; [intros b Hb; apply Hf; right; exact Hb|intros b c x Hb Hc; apply Hd; right; assumption].
  - intros x Hx Hin. apply in_flat_map in Hin as [b [Hb Hxb]].
    assert (a = b) by (apply (Hd a b x); [left; reflexivity|right; exact Hb|exact Hx|exact Hxb]). subst. contradiction.
Qed.

Lemma port_pins_spec s d i :
  Inv1a s -> (In i (port_pins s d) <-> exists p, par s RPorts p = Some d /\ par s RPins i = Some p).
Proof.
  intro Ha. unfold port_pins. rewrite in_flat_map. split.
  - intros [p [H1 H2]]. exists p. split; [apply (par_In s RPorts d p Ha); exact H1|apply (par_In s RPins p i Ha); exact H2].
  - intros [p [H1 H2]]. exists p. split; [apply (par_In s RPorts d p Ha); exact H1|apply (par_In s RPins p i Ha); exact H2].
Qed.

Lemma port_pins_nodup s d : Inv1a s -> NoDup (port_pins s d).
Proof.
  intro Ha. unfold port_pins. apply NoDup_flat_map.
  - apply (i1_nodup s Ha).
  - intros p _. apply (i1_nodup s Ha).
  - intros p q x _ _ Hp Hq. apply (par_In s RPins p x Ha) in Hp. apply (par_In s RPins q x Ha) in Hq. congruence.
Qed.

Lemma combine_fst {A B} (a : list A) (b : list B) : length a = length b -> map fst (combine a b) = a.
Proof.
  revert b; induction a as [|x a IH]; intros [|y b]; cbn; intro H; try reflexivity; try discriminate.
  f_equal. apply IH. congruence.
Qed.

Lemma combine_snd {A B} (a : list A) (b : list B) : length a = length b -> map snd (combine a b) = b.
Proof.
  revert b; induction a as [|x a IH]; intros [|y b]; cbn; intro H; try reflexivity; try discriminate.
  f_equal. apply IH. congruence.
Qed.

Lemma pairs_fst_snd (f : id -> list id) : forall (a b : list id),
  length a = length b ->
  forallb (fun pq => Nat.eqb (length (f (fst pq))) (length (f (snd pq)))) (combine a b) = true ->
  map fst (flat_map (fun pq => combine (f (fst pq)) (f (snd pq))) (combine a b)) = flat_map f a /\
  map snd (flat_map (fun pq => combine (f (fst pq)) (f (snd pq))) (combine a b)) = flat_map f b.
Proof.
  induction a as [|x a IH]; intros [|y b] Hl Hf; cbn in *; try discriminate; [split; reflexivity|].
  apply andb_true_iff in Hf as [H1 H2]. apply Nat.eqb_eq in H1.
  destruct (IH b (f_equal pred Hl) H2) as [A B]. rewrite !map_app, A, B, combine_fst, combine_snd by assumption.
  split; reflexivity.
Qed.

Lemma pin_pairs_spec s d d' :
  same_shape s d d' = true ->
  map fst (pin_pairs s d d') = port_pins s d /\ map snd (pin_pairs s d d') = port_pins s d'.
Proof.
  unfold same_shape, pin_pairs, port_pins. intro H. apply andb_true_iff in H as [H1 H2].
  apply Nat.eqb_eq in H1. apply (pairs_fst_snd (fun p => kids s RPins p) _ _ H1 H2).
Qed.

Lemma combine_self {A} (l : list A) : combine l l = map (fun i => (i, i)) l.
Proof. induction l as [|x l IH]; cbn; [reflexivity|f_equal; exact IH]. Qed.

Lemma pin_pairs_self s d : pin_pairs s d d = map (fun i => (i, i)) (port_pins s d).
Proof.
  unfold pin_pairs, port_pins. rewrite combine_self.
  induction (kids s RPorts d) as [|p l IH]; cbn; [reflexivity|].
  rewrite map_app, combine_self, IH. reflexivity.
Qed.

Lemma keys_port_pins s x d i : Inv1a s -> InvK s -> iref s x = Some d -> (In i (keys s x) <-> In i (port_pins s d)).
Proof.
  intros Ha Hk Hr. rewrite (k_keys s Hk), port_pins_spec by exact Ha. split.
  - intros [d0 [p [H1 H2]]]. rewrite Hr in H1. inversion H1; subst. exists p. exact H2.
  - intros [p H]. exists d, p. split; [exact Hr|exact H].
Qed.

Lemma keys_none s x i : InvK s -> iref s x = None -> ~ In i (keys s x).
Proof. intros Hk Hr H. apply (k_keys s Hk) in H as [d [p [H1 _]]]. congruence. Qed.

(* InvK of a state whose keys/iref differ from s only at instance x *)
Lemma invk_at s s' x v :
  InvK s -> (forall m, m <> x -> keys s' m = keys s m) ->
  (forall m, iref s' m = if Nat.eqb m x then v else iref s m) -> par s' = par s ->
  NoDup (keys s' x) ->
  (forall i, In i (keys s' x) <-> (exists d p, v = Some d /\ par s RPorts p = Some d /\ par s RPins i = Some p)) ->
  InvK s'.
Proof.
  intros Hk Ho Hr Hp Hnd Hx. constructor.
  - intros m i. rewrite Hr, Hp. destruct (Nat.eqb_spec m x) as [->|Hne]; [apply Hx|].
    rewrite Ho by exact Hne. apply (k_keys s Hk).
  - intro m. destruct (Nat.eq_dec m x) as [->|Hne]; [exact Hnd|]. rewrite Ho by exact Hne. apply (k_nodup s Hk).
Qed.

Lemma fold_new_inner_other n : forall l s m, m <> n -> ipins (fold_ids (fun s i => new_outer s n i) l s) m = ipins s m.
Proof.
  induction l as [|i l IH]; intros s m Hm; cbn [fold_ids]; [reflexivity|].
  rewrite IH by exact Hm. cbn. apply upd_other. exact Hm.
Qed.

Lemma drop_outer_other s n i m : m <> n -> ipins (fst (drop_outer s n i)) m = ipins s m.
Proof.
  intro Hm. unfold drop_outer. destruct (assoc i (ipins s n)) as [[w|]|]; cbn; try reflexivity; apply upd_other; exact Hm.
Qed.

Lemma fold_drop_inner_other n : forall l s m, m <> n -> ipins (fst (fold_idsR (fun s i => drop_outer s n i) l s)) m = ipins s m.
Proof.
  induction l as [|i l IH]; intros s m Hm; cbn [fold_idsR]; [reflexivity|].
  pose proof (drop_outer_other s n i m Hm) as H1.
  destruct (drop_outer s n i) as [s1 [e|]]; cbn [bindR fst] in *; [exact H1|]. rewrite IH by exact Hm. exact H1.
Qed.

Lemma op_set_reference_pk s x v :
  Inv s -> nostuck (op_set_reference s x v) /\ InvP (fst (op_set_reference s x v)) /\ InvK (fst (op_set_reference s x v)).
Proof.
  intros [Ha Hr Hp Hk]. unfold op_set_reference, guard, nostuck.
  destruct (_ && _); [|cbn; split; [discriminate|split; assumption]].
  destruct (match v, iref s x with Some d', Some d => same_shape s d d' | _, _ => true end) eqn:Hshape;
    [|cbn; split; [discriminate|split; assumption]].
  set (s1 := emit s (EReference x v)).
  assert (Hp1 : InvP s1) by (apply (invp_of_fields s); [reflexivity|reflexivity|reflexivity|exact Hp]).
  destruct v as [d'|].
  - (* a definition *)
    change (iref s1 x) with (iref s x). destruct (iref s x) as [d|] eqn:Hrx.
    + (* re-pointing *)
      assert (Hm : memb x (drefs s1 d) = true) by (apply memb_In; apply (i2_ref s Hr); exact Hrx).
      rewrite Hm. cbn [bindR ret].
      set (s2 := set_drefs s1 d (remove_first x (drefs s1 d))).
      assert (Hp2 : InvP s2) by (apply (invp_of_fields s); [reflexivity|reflexivity|reflexivity|exact Hp]).
      assert (Hnd2 : NoDup (keys s2 x)) by apply (k_nodup s Hk).
      change (pin_pairs s2 d d') with (pin_pairs s d d').
      destruct (Nat.eq_dec d d') as [<-|Hdd].
      * rewrite pin_pairs_self.
        destruct (fold_rekey_id x (port_pins s d) s2 Hp2 Hnd2) as [Hs [Hp3 [Hf3 [Hw3 [Hk3 [Hnd3 Ho3]]]]]].
        { intros c Hc. apply (keys_port_pins s x d c Ha Hk Hrx). exact Hc. }
        destruct (fold_pairsR _ _ s2) as [s3 [e|]]; cbn [fst snd] in *; [discriminate|]. cbn [bindR ret fst snd].
        split; [discriminate|]. split; [apply (invp_of_fields s3); [reflexivity|reflexivity|reflexivity|exact Hp3]|].
        destruct Hf3 as [Hkk Hpp Hrr _ _ _].
        apply (invk_at s _ x (Some d) Hk).
        -- intros m Hm'. unfold keys. cbn. rewrite Ho3 by exact Hm'. reflexivity.
        -- intro m. cbn. unfold upd. rewrite Hrr. cbn. reflexivity.
        -- cbn. rewrite Hpp. reflexivity.
        -- exact Hnd3.
        -- intro i. change (keys (set_iref (set_drefs s3 d (set_add x (drefs s3 d))) x (Some d)) x) with (keys s3 x).
           rewrite Hk3. change (keys s2 x) with (keys s x). rewrite (k_keys s Hk), Hrx. split.
           ++ intros [d0 [p [H1 H2]]]. exists d0, p. auto.
           ++ intros [d0 [p [H1 H2]]]. exists d0, p. auto.
      * destruct (pin_pairs_spec s d d' Hshape) as [Hfst Hsnd].
        assert (Hfresh : forall n, In n (port_pins s d') -> ~ In n (port_pins s d)).
        { intros n H1 H2. apply (port_pins_spec s d' n Ha) in H1 as [p [A B]].
          apply (port_pins_spec s d n Ha) in H2 as [p' [A' B']]. congruence. }
        destruct (fold_rekey_fresh x (pin_pairs s d d') s2 Hp2 Hnd2) as [Hs [Hp3 [Hf3 [Hw3 [Hk3 [Hnd3 Ho3]]]]]].
        { rewrite Hfst. apply port_pins_nodup, Ha. }
        { rewrite Hsnd. apply port_pins_nodup, Ha. }
        { intros c Hc. rewrite Hfst in Hc. apply (keys_port_pins s x d c Ha Hk Hrx). exact Hc. }
        { intros n Hn. rewrite Hsnd in Hn. rewrite Hfst. split; [|apply Hfresh; exact Hn].
          intro H. apply (keys_port_pins s x d n Ha Hk Hrx) in H. apply (Hfresh n Hn H). }
        destruct (fold_pairsR _ _ s2) as [s3 [e|]]; cbn [fst snd] in *; [discriminate|]. cbn [bindR ret fst snd].
        split; [discriminate|]. split; [apply (invp_of_fields s3); [reflexivity|reflexivity|reflexivity|exact Hp3]|].
        destruct Hf3 as [Hkk Hpp Hrr _ _ _].
        apply (invk_at s _ x (Some d') Hk).
        -- intros m Hm'. unfold keys. cbn. rewrite Ho3 by exact Hm'. reflexivity.
        -- intro m. cbn. unfold upd. rewrite Hrr. cbn. reflexivity.
        -- cbn. rewrite Hpp. reflexivity.
        -- exact Hnd3.
        -- intro i. change (keys (set_iref (set_drefs s3 d' (set_add x (drefs s3 d'))) x (Some d')) x) with (keys s3 x).
           rewrite Hk3, Hsnd, Hfst. change (keys s2 x) with (keys s x). split.
           ++ intros [H|[H1 H2]].
              ** apply (port_pins_spec s d' i Ha) in H as [p H]. exists d', p. split; [reflexivity|exact H].
              ** exfalso. apply H2. apply (keys_port_pins s x d i Ha Hk Hrx). exact H1.
           ++ intros [d0 [p [H1 H2]]]. inversion H1; subst d0. left. apply (port_pins_spec s d' i Ha). exists p. exact H2.
    + (* first assignment *)
      cbn [bindR ret fst snd].
      pose proof (fold_new_inner x (port_pins s1 d') s1 (port_pins_nodup s d' Ha)) as Hadd.
      assert (Hnone : forall i, In i (port_pins s1 d') -> ~ In i (keys s1 x)) by (intros i _; apply (keys_none s x i Hk Hrx)).
      specialize (Hadd Hnone).
      pose proof (fold_new_inner_other x (port_pins s1 d') s1) as Hother.
      set (s3 := fold_ids _ (port_pins s1 d') s1) in *. clearbody s3.
      split; [discriminate|]. split; [apply (invp_of_fields s3); [reflexivity|reflexivity|reflexivity|eapply adds_invp; eassumption]|].
      destruct Hadd as [_ [_ [[Hkk Hpp Hrr _ _ _] [_ [Hkeys Hnd]]]]].
      apply (invk_at s _ x (Some d') Hk).
      * intros m Hm'. unfold keys. cbn. rewrite Hother by exact Hm'. reflexivity.
      * intro m. cbn. unfold upd. rewrite Hrr. cbn. reflexivity.
      * cbn. rewrite Hpp. reflexivity.
      * apply Hnd. apply (k_nodup s Hk).
      * intro i. change (keys (set_iref (set_drefs s3 d' (set_add x (drefs s3 d'))) x (Some d')) x) with (keys s3 x).
        rewrite Hkeys. change (keys s1 x) with (keys s x). change (port_pins s1 d') with (port_pins s d'). split.
        -- intros [H|[_ H]]; [exfalso; apply (keys_none s x i Hk Hrx H)|].
           apply (port_pins_spec s d' i Ha) in H as [p H]. exists d', p. split; [reflexivity|exact H].
        -- intros [d0 [p [H1 H2]]]. inversion H1; subst d0. right. split; [reflexivity|]. apply (port_pins_spec s d' i Ha). exists p. exact H2.
  - (* reference := None *)
    pose proof (fold_drop_inner x (map fst (ipins s1 x)) s1 Hp1 (k_nodup s Hk x) (fun i Hi => Hi)) as [Hs Hd].
    pose proof (fold_drop_inner_other x (map fst (ipins s1 x)) s1) as Hother.
    destruct (fold_idsR _ (map fst (ipins s1 x)) s1) as [s2 [e|]]; cbn [fst snd] in *; [discriminate|]. cbn [bindR].
    destruct Hd as [Hp2 [[Hkk Hpp Hrr Hdd _ _] [Hw2 [Hkeys [Hnd _]]]]].
    set (s3 := set_ipins s2 x []).
    assert (Hempty : forall i, ~ In i (keys s2 x)).
    { intros i Hi. apply Hkeys in Hi as [Hi Hn]. apply Hn. split; [reflexivity|exact Hi]. }
    assert (Hp3 : InvP s3).
    { apply (invp_same s2 s3 Hp2); [|intro; reflexivity].
      intro q. destruct q as [j|m j|]; cbn; try reflexivity. unfold upd.
      destruct (Nat.eqb_spec m x) as [->|]; [|reflexivity]. cbn.
      destruct (assoc j (ipins s2 x)) eqn:E; [|reflexivity].
      exfalso. apply (Hempty j). apply assoc_In_fst. eexists; exact E. }
    change (iref s3 x) with (iref s2 x). rewrite Hrr. change (iref s1 x) with (iref s x).
    assert (Hfinal : forall s4, wpins s4 = wpins s3 -> ipwire s4 = ipwire s3 -> ipins s4 = ipins s3 ->
                                iref s4 = iref s3 -> par s4 = par s3 ->
                                InvP (set_iref s4 x None) /\ InvK (set_iref s4 x None)).
    { intros s4 E1 E2 E3 E4 E5. split; [apply (invp_of_fields s3); try assumption; exact Hp3|].
      apply (invk_at s _ x None Hk).
      - intros m Hm'. unfold keys. cbn. rewrite E3. cbn. rewrite upd_other by exact Hm'. rewrite Hother by exact Hm'. reflexivity.
      - intro m. cbn. unfold upd. rewrite E4. cbn. rewrite Hrr. reflexivity.
      - cbn. rewrite E5. cbn. rewrite Hpp. reflexivity.
      - unfold keys. cbn. rewrite E3. cbn. rewrite upd_same. constructor.
      - intro i. unfold keys. cbn. rewrite E3. cbn. rewrite upd_same. cbn. split; [tauto|]. intros [d0 [p [H _]]]. discriminate. }
    destruct (iref s x) as [d|] eqn:Hrx.
    + assert (Hm : memb x (drefs s3 d) = true).
      { apply memb_In. cbn. rewrite Hdd. apply (i2_ref s Hr). exact Hrx. }
      rewrite Hm. cbn [bindR ret fst snd]. split; [discriminate|]. apply Hfinal; reflexivity.
    + cbn [bindR ret fst snd]. split; [discriminate|]. apply Hfinal; reflexivity.
Qed.

Lemma op_set_reference_inv s x v : Inv s -> Inv (fst (op_set_reference s x v)) /\ nostuck (op_set_reference s x v).
Proof.
  intro Hi. destruct (op_set_reference_pk s x v Hi) as [Hn [Hp Hk]]. split; [|exact Hn].
  constructor; [eapply inv1a_cont; [apply ce_op_set_reference|apply Hi]|apply op_set_reference_inv2a; [apply Hi|exact Hn]|exact Hp|exact Hk].
Qed.

(* composition helpers on results *)
Definition RInv (r : R) : Prop := Inv (fst r) /\ nostuck r.

Lemma rinv_bind r f : RInv r -> (forall s, Inv s -> RInv (f s)) -> RInv (r >>= f).
Proof. intros [H1 H2] Hf. destruct r as [s [e|]]; cbn in *; [split; assumption|apply Hf; exact H1]. Qed.

Lemma rinv_ret s : Inv s -> RInv (ret s).
Proof. intro H. split; [exact H|apply nostuck_ret]. Qed.

Lemma rinv_guard b x s k : x <> XStuck -> Inv s -> (forall s1, Inv s1 -> RInv (k s1)) -> RInv (guard b x s k).
Proof.
  intros Hx Hi Hk. unfold guard. destruct b; [apply Hk; exact Hi|].
  split; [exact Hi|]. unfold nostuck. cbn. intro H. inversion H. contradiction.
Qed.

Lemma rinv_fields s s' :
  Inv s -> kids s' = kids s -> par s' = par s -> wpins s' = wpins s -> ipwire s' = ipwire s -> iref s' = iref s ->
  drefs s' = drefs s -> ipins s' = ipins s -> RInv (ret s').
Proof. intros. apply rinv_ret. eapply inv_of_fields; eassumption. Qed.

Lemma rinv_struct s (r : R) : Inv s -> struct_eq s (fst r) -> nostuck r -> RInv r.
Proof. intros Hi Hs Hn. split; [eapply inv_struct; eassumption|exact Hn]. Qed.

Lemma create_items_rinv r p n : forall s, Inv s -> RInv (create_items s r p n).
Proof.
  induction n as [|n IH]; intros s Hi; cbn [create_items]; [apply rinv_ret; exact Hi|].
  set (s0 := s <| next := S (next s) |> <| kind_of ::= fun f => upd f (next s) (Some (rel_child r)) |>).
  assert (H0 : Inv s0) by (apply (inv_of_fields s); try reflexivity; exact Hi).
  apply rinv_bind; [split; apply (op_add_inv s0 r p (next s) None H0)|exact IH].
Qed.

Lemma construct_rinv s k nm props : Inv s -> RInv (fst (construct s k nm props)).
Proof. intro Hi. split; [apply construct_inv; exact Hi|apply nostuck_construct]. Qed.

Definition unset_pin (w : id) (s : state) (p : pin) : state :=
  match p with
  | POut _ _ => set_pin_wire (emit (emit s (EDisconnect w p)) (EDisconnect w p)) p None
  | _ => set_pin_wire (emit s (EDisconnect w p)) p None
  end.

Lemma unset_pin_spec w s p :
  p <> PDet -> pin_stored s p = true ->
  (forall q, pin_wire (unset_pin w s p) q = if pin_eqb q p then None else pin_wire s q) /\
  (forall n, keys (unset_pin w s p) n = keys s n) /\ wpins (unset_pin w s p) = wpins s /\
  frame_w s (unset_pin w s p) /\ (forall q, pin_stored (unset_pin w s p) q = pin_stored s q).
Proof.
  intros Hd Hst. destruct p as [i|n i|]; [| |congruence]; cbn [unset_pin].
  - split; [intro q; rewrite pw_set_pin_wire by discriminate; destruct (pin_eqb q (PIn i)); [reflexivity|apply pw_ext; reflexivity]|].
    split; [intro; reflexivity|]. split; [reflexivity|]. split; [constructor; reflexivity|]. intro q. destruct q; reflexivity.
  - split; [intro q; rewrite pw_set_pin_wire by discriminate; destruct (pin_eqb q (POut n i)); [reflexivity|apply pw_ext; reflexivity]|].
    split; [intro m; rewrite keys_set_pin_wire; [reflexivity|exact Hst]|]. split; [reflexivity|]. split; [constructor; reflexivity|].
    intro q. destruct q as [j|m j|]; cbn; try reflexivity. unfold upd.
    destruct (Nat.eqb_spec m n) as [->|]; [|reflexivity].
    destruct (Nat.eqb_spec j i) as [->|Hji]; [rewrite assoc_set_same; cbn in Hst; destruct (assoc i (ipins s n)); [reflexivity|discriminate]|].
    rewrite assoc_set_other by exact Hji. reflexivity.
Qed.

Lemma fold_unset w : forall l s,
  (forall p, In p l -> p <> PDet /\ pin_stored s p = true) ->
  let s' := fold_left (unset_pin w) l s in
  (forall q, pin_wire s' q = if pin_memb q l then None else pin_wire s q) /\
  (forall n, keys s' n = keys s n) /\ wpins s' = wpins s /\ frame_w s s'.
Proof.
  induction l as [|p l IH]; intros s Hl; cbn [fold_left].
  - cbn. split; [reflexivity|]. split; [reflexivity|]. split; [reflexivity|apply frame_w_refl].
  - destruct (Hl p (or_introl eq_refl)) as [Hd Hst].
    destruct (unset_pin_spec w s p Hd Hst) as [A [B [C [D E]]]].
    assert (Hl' : forall q, In q l -> q <> PDet /\ pin_stored (unset_pin w s p) q = true).
    { intros q Hq. destruct (Hl q (or_intror Hq)) as [H1 H2]. split; [exact H1|rewrite E; exact H2]. }
    destruct (IH (unset_pin w s p) Hl') as [A' [B' [C' D']]].
    split; [|split; [intro n; rewrite B'; apply B|split; [congruence|eapply frame_w_trans; eassumption]]].
    intro q. rewrite A', A. cbn. destruct (pin_eqb q p); cbn; destruct (pin_memb q l); reflexivity.
Qed.

Lemma pin_memb_dedup q l : pin_memb q (pins_dedup l) = pin_memb q l.
Proof.
  induction l as [|y l IH]; cbn; [reflexivity|].
  destruct (pin_memb y l) eqn:E; cbn; rewrite IH; [|reflexivity].
  destruct (pin_eqb q y) eqn:Eq; cbn; [|reflexivity]. apply pin_eqb_spec in Eq; subst. exact E.
Qed.

Lemma In_pins_dedup q l : In q (pins_dedup l) -> In q l.
Proof. intro H. apply pin_memb_In. rewrite <- pin_memb_dedup. apply pin_memb_In. exact H. Qed.

Lemma op_disconnect_from_pk s w ps :
  InvP s -> InvK s -> InvP (fst (op_disconnect_from s w ps)) /\ InvK (fst (op_disconnect_from s w ps)).
Proof.
  intros Hp Hk. unfold op_disconnect_from, guard. destruct (_ && _); [|split; assumption].
  destruct (forallb (can_disconnect s w) ps) eqn:Hall; [|split; assumption].
  rewrite forallb_forall in Hall. cbn [fst ret].
  change (fold_left _ (pins_dedup ps) s) with (fold_left (unset_pin w) (pins_dedup ps) s).
  destruct (fold_unset w (pins_dedup ps) s) as [A [B [C D]]].
  { intros p Hp'. apply In_pins_dedup in Hp'. destruct (can_disconnect_spec s w p (Hall p Hp')) as [H1 [H2 _]]. auto. }
  set (s1 := fold_left (unset_pin w) (pins_dedup ps) s) in *. clearbody s1.
  split.
  - apply (invp_unlink_many s _ w ps Hp).
    + intros p Hp'. apply (can_disconnect_spec s w p (Hall p Hp')).
    + intro q. change (pin_wire (set_wpins s1 w _) q) with (pin_wire s1 q). rewrite A, pin_memb_dedup. reflexivity.
    + intro w0. cbn. unfold upd. rewrite C. destruct (Nat.eqb w0 w); reflexivity.
  - destruct D as [_ Hpar Href _ _ _]. apply (invk_same s _ Hk).
    + intro n. apply B.
    + exact Href.
    + intro x. cbn. rewrite Hpar. reflexivity.
    + intro x. cbn. rewrite Hpar. reflexivity.
Qed.

Theorem step_inv s o : Inv s -> Inv (fst (step s o)) /\ snd (step s o) <> Some XStuck.
Proof.
  intro Hi. change (RInv (step s o)). destruct o; cbn [step].
  - apply construct_rinv; exact Hi.
  - apply rinv_guard; [discriminate|exact Hi|]. intros s1 H1. unfold create_and_add.
    pose proof (construct_rinv s1 (rel_child r) nm props H1) as Hc.
    destruct (construct s1 (rel_child r) nm props) as [res x]. cbn [fst] in Hc.
    apply rinv_bind.
    + apply rinv_bind; [exact Hc|]. intros s2 H2. split; apply (op_add_inv s2 r p x None H2).
    + intros s2 H2. destruct r; try (apply rinv_ret; exact H2).
      * apply create_items_rinv; exact H2.
      * apply create_items_rinv; exact H2.
      * split; apply (op_set_reference_inv s2 x ref H2).
  - apply rinv_guard; [discriminate|exact Hi|]. intros; apply create_items_rinv; assumption.
  - split; apply (op_add_inv s r p c pos Hi).
  - split; apply (op_remove_inv s r p c Hi).
  - split; apply (op_remove_from_inv s r p cs Hi).
  - split; [|unfold op_reorder, guard, nostuck; destruct (is_kind _ _ _); [destruct (_ && _)|]; cbn; discriminate].
    constructor; [apply op_reorder_inv1a, Hi| | |].
    + eapply inv2a_ref; [|apply Hi]. unfold op_reorder. repeat (apply re_guard; intro). split; reflexivity.
    + unfold op_reorder, guard. destruct (is_kind _ _ _); [|apply Hi]. destruct (_ && _); [|apply Hi].
      apply (invp_of_fields s); [reflexivity|reflexivity|reflexivity|apply Hi].
    + unfold op_reorder, guard. destruct (is_kind _ _ _); [|apply Hi]. destruct (_ && _); [|apply Hi].
      apply (invk_same s _ (inv_k s Hi)); intros; reflexivity.
  - destruct (op_reorder_wire_pk s w l (inv_p s Hi) (inv_k s Hi)) as [Hp Hk].
    split; [|unfold op_reorder_wire, guard, nostuck; destruct (is_kind _ _ _); [destruct (_ && _)|]; cbn; discriminate].
    constructor; [| |exact Hp|exact Hk].
    + eapply inv1a_cont; [|apply Hi]. unfold op_reorder_wire. repeat (apply ce_guard; intro). split; reflexivity.
    + eapply inv2a_ref; [|apply Hi]. unfold op_reorder_wire. repeat (apply re_guard; intro). split; reflexivity.
  - destruct (op_connect_pk s w p pos (inv_p s Hi) (inv_k s Hi)) as [Hp Hk].
    split.
    + constructor; [| |exact Hp|exact Hk].
      * eapply inv1a_cont; [|apply Hi]. unfold op_connect. apply ce_guard. intro s1.
        destruct p as [i|n i|]; cbn; try apply cont_eq_refl.
        -- destruct (ipwire s1 i); cbn; split; reflexivity.
        -- destruct (assoc i (ipins s1 n)) as [[w0|]|]; cbn; split; reflexivity.
      * eapply inv2a_ref; [|apply Hi]. unfold op_connect. apply re_guard. intro s1.
        destruct p as [i|n i|]; cbn; try apply ref_eq_refl.
        -- destruct (ipwire s1 i); cbn; split; reflexivity.
        -- destruct (assoc i (ipins s1 n)) as [[w0|]|]; cbn; split; reflexivity.
    + unfold op_connect, guard, nostuck. destruct (_ && _); [|cbn; discriminate].
      destruct p as [i|n i|]; cbn; try discriminate.
      * destruct (ipwire s i); cbn; discriminate.
      * destruct (assoc i (ipins s n)) as [[w0|]|]; cbn; discriminate.
  - destruct (op_disconnect_pk s w p (inv_p s Hi) (inv_k s Hi)) as [Hp Hk].
    split.
    + constructor; [| |exact Hp|exact Hk].
      * eapply inv1a_cont; [|apply Hi]. unfold op_disconnect. repeat (apply ce_guard; intro). destruct p; cbn; split; reflexivity.
      * eapply inv2a_ref; [|apply Hi]. unfold op_disconnect. repeat (apply re_guard; intro). destruct p; cbn; split; reflexivity.
    + unfold op_disconnect, guard, nostuck. destruct (_ && _); [|cbn; discriminate].
      destruct (can_disconnect _ _ _); [|cbn; discriminate]. destruct p; cbn; discriminate.
  - destruct (op_disconnect_from_pk s w ps (inv_p s Hi) (inv_k s Hi)) as [Hp Hk].
    split.
    + constructor; [| |exact Hp|exact Hk].
      * eapply inv1a_cont; [apply ce_op_disconnect_from|apply Hi].
      * eapply inv2a_ref; [|apply Hi]. unfold op_disconnect_from. repeat (apply re_guard; intro).
        cbn [fst ret]. eapply ref_eq_trans; [|split; reflexivity]. apply re_fold_left. intros sq q. destruct q; split; reflexivity.
    + unfold op_disconnect_from, guard, nostuck. destruct (_ && _); [|cbn; discriminate].
      destruct (forallb _ _); cbn; discriminate.
  - split; apply (op_set_reference_inv s x v Hi).
  - unfold op_set_top. apply rinv_guard; [discriminate|exact Hi|]. intros s1 H1.
    assert (H0 : Inv (clear_old_top (emit s1 (ETop n a)) n)).
    { apply (inv_of_fields s1); try (unfold clear_old_top; destruct (top _ n); reflexivity). exact H1. }
    destruct a as [x|d|].
    + apply (rinv_fields _ _ H0); reflexivity.
    + pose proof (construct_rinv _ KInstance None [] H0) as Hc.
      destruct (construct (clear_old_top (emit s1 (ETop n (TopDef d))) n) KInstance None []) as [res t]. cbn [fst] in Hc.
      apply rinv_bind; [exact Hc|]. intros s2 H2.
      apply rinv_bind; [split; apply (op_set_reference_inv s2 t (Some d) H2)|]. intros s3 H3.
      apply (rinv_fields s3); try (unfold clear_old_top; cbn; destruct (top _ n); reflexivity). exact H3.
    + apply (rinv_fields _ _ H0); reflexivity.
  - apply rinv_guard; [discriminate|exact Hi|]. intros s1 H1. apply (rinv_struct s1); [exact H1|apply se_op_set_name|].
    unfold op_set_name. destruct nm; [apply nostuck_dict_set|]. destruct (has_key _ _ _); [apply nostuck_dict_del|apply nostuck_ret].
  - apply rinv_guard; [discriminate|exact Hi|]. intros s1 H1. apply (rinv_struct s1); [exact H1|apply se_op_del_name|].
    unfold op_del_name. destruct (has_key _ _ _); [apply nostuck_dict_del|apply nostuck_ret].
  - apply rinv_guard; [discriminate|exact Hi|]. intros s1 H1. apply (rinv_struct s1); [exact H1|apply se_dict_set|apply nostuck_dict_set].
  - apply rinv_guard; [discriminate|exact Hi|]. intros s1 H1. apply (rinv_struct s1); [exact H1|apply se_dict_del|apply nostuck_dict_del].
  - apply rinv_guard; [discriminate|exact Hi|]. intros s1 H1. apply (rinv_struct s1); [exact H1|apply se_dict_pop|apply nostuck_dict_pop].
  - apply rinv_guard; [discriminate|exact Hi|]. intros s1 H1. apply (rinv_fields s1); try reflexivity; exact H1.
  - apply rinv_guard; [discriminate|exact Hi|]. intros s1 H1. apply rinv_guard; [discriminate|exact H1|]. intros s2 H2. apply (rinv_fields s2); try reflexivity; exact H2.
  - apply rinv_guard; [discriminate|exact Hi|]. intros s1 H1. apply (rinv_fields s1); try reflexivity; exact H1.
  - apply rinv_guard; [discriminate|exact Hi|]. intros s1 H1. apply (rinv_fields s1); try reflexivity; exact H1.
  - apply (rinv_fields s); try reflexivity; exact Hi.
Qed.
