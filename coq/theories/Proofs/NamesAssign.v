(* C17 (engine names): the sequential assignment of one scope (ComposeEdif._add_rename_property
   applied to every sibling in list order): it always completes, keeps the names, gives every
   sibling an identifier, records renames, and - for scopes without upper-case letters - makes the
   identifiers pairwise different. *)
From Coq Require Import List Arith NArith Bool Lia.
From SV Require Import Base.Base IR.State IR.NS Proofs.Ident Names.Edifify
  Proofs.NamesDec Proofs.NamesSuffix Proofs.NamesFuel Proofs.NamesChars.
Import ListNotations.

Definition ident_at (objs : list sib) (j : nat) : option str :=
  match nth_error objs j with Some e => s_ident e | None => None end.
Definition name_at (objs : list sib) (j : nat) : option str := option_map s_name (nth_error objs j).
Definition rename_at (objs : list sib) (j : nat) : option bool := option_map s_rename (nth_error objs j).

Lemma set_nth_length {A} (v : A) : forall l i, length (set_nth i v l) = length l.
Proof. induction l as [|x l IH]; intros [|i]; cbn; auto. Qed.

Lemma nth_error_set_nth_eq {A} (v : A) : forall l i, i < length l -> nth_error (set_nth i v l) i = Some v.
Proof.
  induction l as [|x l IH]; intros [|i] H; cbn in *; try lia; [reflexivity|]. apply IH. lia.
Qed.

Lemma nth_error_set_nth_neq {A} (v : A) : forall l i j, j <> i -> nth_error (set_nth i v l) j = nth_error l j.
Proof.
  induction l as [|x l IH]; intros [|i] [|j] H; cbn; try reflexivity; try congruence.
  apply IH. congruence.
Qed.

Lemma others_In i : forall (objs : list sib) j e, j <> i -> nth_error objs j = Some e -> In e (others i objs).
Proof.
  unfold others. induction i as [|i IH]; intros objs j e Hne H.
  - destruct objs as [|x objs]; [destruct j; discriminate|]. destruct j as [|j]; [congruence|].
    cbn. eapply nth_error_In. exact H.
  - destruct objs as [|x objs]; [destruct j; discriminate|]. destruct j as [|j]; cbn in *.
    + left. congruence.
    + right. eapply IH; [|exact H]. congruence.
Qed.

(* one call of _add_rename_property *)
Lemma add_rename_property_spec i objs objs' :
  add_rename_property i objs = Ok objs' ->
  length objs' = length objs /\
  (forall j, name_at objs' j = name_at objs j) /\
  (forall j, j <> i -> nth_error objs' j = nth_error objs j) /\
  match nth_error objs i with
  | None => objs' = objs
  | Some e =>
      match s_ident e with
      | Some _ => objs' = objs
      | None => exists r, make_valid (fuel_for objs) i objs (s_name e) = Ok r /\
                          nth_error objs' i = Some (mkSib (s_name e) (Some r) (if str_eqb r (s_name e) then s_rename e else true))
      end
  end.
Proof.
  unfold add_rename_property. destruct (nth_error objs i) as [e|] eqn:En.
  2:{ intro H; inversion H; subst. repeat split; auto. }
  destruct (s_ident e) as [v|] eqn:Ei.
  { intro H; inversion H; subst. repeat split; auto. }
  destruct (make_valid (fuel_for objs) i objs (s_name e)) as [r| |] eqn:Em; try discriminate.
  intro H; inversion H; subst; clear H.
  assert (Hi : i < length objs) by (apply nth_error_Some; congruence).
  split; [apply set_nth_length|]. split; [|split].
  - intro j. unfold name_at. destruct (Nat.eq_dec j i) as [->|Hne].
    + rewrite nth_error_set_nth_eq by exact Hi. rewrite En. reflexivity.
    + rewrite nth_error_set_nth_neq by exact Hne. reflexivity.
  - intros j Hne. apply nth_error_set_nth_neq. exact Hne.
  - exists r. split; [reflexivity|]. apply nth_error_set_nth_eq. exact Hi.
Qed.

(* invariant rule for the loop *)
Lemma assign_from_inv (P : nat -> list sib -> Prop) :
  (forall k objs objs', P k objs -> add_rename_property k objs = Ok objs' -> P (S k) objs') ->
  forall todo k objs out, P k objs -> assign_from k todo objs = Ok out -> P (k + todo) out.
Proof.
  intro Hstep. induction todo as [|t IH]; intros k objs out HP H; cbn in H.
  - inversion H; subst. rewrite Nat.add_0_r. exact HP.
  - destruct (add_rename_property k objs) as [o| |] eqn:E; try discriminate.
    rewrite Nat.add_succ_r. change (S (k + t)) with (S k + t). eapply IH; [|exact H].
    eapply Hstep; eauto.
Qed.

Definition names_nonempty (objs : list sib) : Prop := forall j n, name_at objs j = Some n -> n <> [].

(* (a) at the level of a scope: the assignment never runs out of fuel and never fails *)
Lemma add_rename_property_total i objs :
  names_nonempty objs -> exists objs', add_rename_property i objs = Ok objs'.
Proof.
  intro Hn. unfold add_rename_property. destruct (nth_error objs i) as [e|] eqn:En; [|eexists; reflexivity].
  destruct (s_ident e); [eexists; reflexivity|].
  destruct (make_valid (fuel_for objs) i objs (s_name e)) as [r| |] eqn:Em; [eexists; reflexivity| |].
  - exfalso. eapply make_valid_fuel; [|exact Em]. unfold fuel_for. lia.
  - exfalso. eapply make_valid_no_index_error; [|exact Em]. apply (Hn i). unfold name_at. rewrite En. reflexivity.
Qed.

Theorem assign_from_total : forall todo k objs,
  names_nonempty objs -> exists out, assign_from k todo objs = Ok out.
Proof.
  induction todo as [|t IH]; intros k objs Hn; cbn; [eexists; reflexivity|].
  destruct (add_rename_property_total k objs Hn) as [o Ho]. rewrite Ho.
  apply IH. intros j n Hj. apply (Hn j). destruct (add_rename_property_spec _ _ _ Ho) as (_ & Hnm & _).
  rewrite <- Hnm. exact Hj.
Qed.

Theorem assign_all_total objs : names_nonempty objs -> exists out, assign_all objs = Ok out.
Proof. apply assign_from_total. Qed.

(* names and length are kept; pre-assigned identifiers are kept *)
Theorem assign_all_names objs out :
  assign_all objs = Ok out -> length out = length objs /\ forall j, name_at out j = name_at objs j.
Proof.
  intro H. unfold assign_all in H.
  apply (assign_from_inv (fun _ o => length o = length objs /\ forall j, name_at o j = name_at objs j)) in H;
    [exact H| |split; reflexivity].
  intros k o o' [Hl Hn] Hs. destruct (add_rename_property_spec _ _ _ Hs) as (Hl' & Hn' & _).
  split; [congruence|]. intro j. rewrite Hn'. apply Hn.
Qed.

(* every sibling ends up with an identifier; the writer's ones are [made], flagged as renames
   exactly when they differ from the name, and their lower-casing differs from every other
   sibling's name *)
Definition post_at (objs0 out : list sib) (j : nat) : Prop :=
  match nth_error objs0 j with
  | None => True
  | Some e =>
      match s_ident e with
      | Some v => nth_error out j = Some e
      | None => exists r, nth_error out j = Some (mkSib (s_name e) (Some r) (if str_eqb r (s_name e) then s_rename e else true)) /\
                          made r /\
                          (exists objs', length objs' = length objs0 /\
                                         make_valid (fuel_for objs') j objs' (s_name e) = Ok r) /\
                          (forall j' n, j' <> j -> name_at objs0 j' = Some n -> lower n <> lower r)
      end
  end.

Theorem assign_all_post objs out : assign_all objs = Ok out -> forall j, post_at objs out j.
Proof.
  intro H. pose proof (assign_all_names _ _ H) as [_ Hnames]. unfold assign_all in H.
  apply (assign_from_inv (fun k o =>
          length o = length objs /\
          (forall j, name_at o j = name_at objs j) /\
          (forall j, k <= j -> nth_error o j = nth_error objs j) /\
          (forall j, j < k -> post_at objs o j))) in H.
  - destruct H as (_ & _ & _ & H). intro j. destruct (Nat.lt_ge_cases j (length objs)) as [Hj|Hj].
    + apply H. lia.
    + unfold post_at. apply nth_error_None in Hj. rewrite Hj. exact I.
  - intros k o o' (Hlen & Hn & Hge & Hlt) Hs. destruct (add_rename_property_spec _ _ _ Hs) as (Hlen' & Hn' & Hoth & Hk).
    split; [congruence|]. split; [intro j; rewrite Hn'; apply Hn|]. split.
    + intros j Hj. rewrite Hoth by lia. apply Hge. lia.
    + intros j Hj. destruct (Nat.eq_dec j k) as [->|Hne].
      * unfold post_at. rewrite (Hge k (le_n k)) in Hk. destruct (nth_error objs k) as [e|] eqn:En; [|exact I].
        destruct (s_ident e) as [v|] eqn:Ei.
        -- subst o'. rewrite (Hge k (le_n k)). exact En.
        -- destruct Hk as (r & Hm & Hr). exists r. split; [exact Hr|]. split; [eapply make_valid_made; exact Hm|].
           split; [exists o; split; [exact Hlen|exact Hm]|].
           intros j' n Hj' Hnm. unfold make_valid in Hm.
           destruct (characters_fix (length_fix (s_name e))) as [c|]; [|discriminate].
           apply conflicts_fix_post in Hm. rewrite <- Hn in Hnm. unfold name_at in Hnm.
           destruct (nth_error o j') as [e'|] eqn:Ej'; [|discriminate]. inversion Hnm; subst n.
           destruct (conflicts_good_true _ _ _ Hm e') as [G _]; [eapply others_In; eauto|].
           rewrite lower_idem in G. exact G.
      * assert (Hlt' : j < k) by lia. specialize (Hlt j Hlt'). unfold post_at in *.
        destruct (nth_error objs j) as [e|]; [|exact I]. rewrite (Hoth j Hne). exact Hlt.
  - split; [reflexivity|]. split; [intro; reflexivity|]. split; [intros; reflexivity|intros j Hj; lia].
Qed.

Theorem assign_all_assigned objs out j :
  assign_all objs = Ok out -> j < length objs -> exists r, ident_at out j = Some r.
Proof.
  intros H Hj. pose proof (assign_all_post _ _ H j) as P. unfold post_at in P.
  destruct (nth_error objs j) as [e|] eqn:En; [|apply nth_error_None in En; lia].
  unfold ident_at. destruct (s_ident e) as [v|] eqn:Ei.
  - rewrite P. exists v. exact Ei.
  - destruct P as (r & -> & _). exists r. reflexivity.
Qed.

(* (c): identifiers end up pairwise different ignoring case - for every scope, any names, any
   lengths (the comparison is made on the value that is finally returned, so truncation cannot
   re-introduce a collision); pre-assigned identifiers must of course differ among themselves *)
Definition idents_pairwise (R : str -> str -> Prop) (objs : list sib) : Prop :=
  forall j1 j2 v1 v2, j1 <> j2 -> ident_at objs j1 = Some v1 -> ident_at objs j2 = Some v2 -> R v1 v2.

Theorem assign_all_distinct objs out :
  idents_pairwise (fun a b => lower a <> lower b) objs ->
  assign_all objs = Ok out ->
  idents_pairwise (fun a b => lower a <> lower b) out.
Proof.
  intros Hd H. unfold assign_all in H.
  apply (assign_from_inv (fun _ o => idents_pairwise (fun a b => lower a <> lower b) o)) in H; [exact H| |exact Hd].
  intros k o o' Hd' Hs. destruct (add_rename_property_spec _ _ _ Hs) as (_ & _ & Hoth & Hk).
  destruct (nth_error o k) as [e|] eqn:En; [|subst; assumption].
  destruct (s_ident e) as [v|] eqn:Ei; [subst; assumption|].
  destruct Hk as (r & Hm & Hr).
  assert (Hfree : forall j e' v', j <> k -> nth_error o j = Some e' -> s_ident e' = Some v' -> lower v' <> lower r).
  { intros j e' v' Hj He' Hv'. unfold make_valid in Hm.
    destruct (characters_fix (length_fix (s_name e))) as [c|]; [|discriminate].
    apply conflicts_fix_post in Hm.
    destruct (conflicts_good_true _ _ _ Hm e') as [_ G]; [eapply others_In; eauto|].
    specialize (G _ Hv'). rewrite lower_idem in G. exact G. }
  intros j1 j2 v1 v2 Hj H1 H2. unfold ident_at in H1, H2.
  destruct (Nat.eq_dec j1 k) as [->|Hj1]; destruct (Nat.eq_dec j2 k) as [->|Hj2]; [congruence| | |].
  - rewrite Hr in H1. cbn in H1. inversion H1; subst v1. rewrite (Hoth j2 Hj2) in H2.
    destruct (nth_error o j2) as [e2|] eqn:E2; [|discriminate]. intro E. symmetry in E.
    exact (Hfree j2 e2 v2 Hj2 E2 H2 E).
  - rewrite Hr in H2. cbn in H2. inversion H2; subst v2. rewrite (Hoth j1 Hj1) in H1.
    destruct (nth_error o j1) as [e1|] eqn:E1; [|discriminate]. intro E.
    exact (Hfree j1 e1 v1 Hj1 E1 H1 E).
  - rewrite (Hoth j1 Hj1) in H1. rewrite (Hoth j2 Hj2) in H2. eapply (Hd' j1 j2); eauto.
Qed.
