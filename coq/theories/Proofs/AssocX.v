(* Lemmas on id-keyed association lists (Python dicts) and pin lists used by the mirror proofs. *)
From Coq Require Import List Arith Bool Permutation.
From SV Require Import Base.Base IR.State IR.NS IR.Ops.
Import ListNotations.

Definition haskey {B} (i : id) (l : list (id * B)) : Prop := exists v, assoc i l = Some v.

Lemma assoc_In_fst {B} i (l : list (id * B)) : (exists v, assoc i l = Some v) <-> In i (map fst l).
Proof.
  induction l as [|[k v] l IH]; cbn.
  - split; [intros [v H]; discriminate|tauto].
  - destruct (Nat.eqb_spec i k) as [->|Hne].
    + split; [auto|intros _; eexists; reflexivity].
    + rewrite IH. split; [auto|intros [H|H]; [congruence|assumption]].
Qed.

Lemma haskey_In {B} i (l : list (id * B)) : haskey i l <-> In i (map fst l).
Proof. apply assoc_In_fst. Qed.

Lemma assoc_None_not_In {B} i (l : list (id * B)) : assoc i l = None <-> ~ In i (map fst l).
Proof.
  rewrite <- assoc_In_fst. destruct (assoc i l) as [v|].
  - split; [discriminate|]. intro H. exfalso. apply H. exists v. reflexivity.
  - split; [|reflexivity]. intros _ [v Hv]. discriminate.
Qed.

Lemma map_fst_assoc_del {B} k (l : list (id * B)) :
  map fst (assoc_del k l) = filter (fun x => negb (Nat.eqb x k)) (map fst l).
Proof.
  induction l as [|[k' v] l IH]; cbn; [reflexivity|].
  rewrite (Nat.eqb_sym k' k). destruct (Nat.eqb k k'); cbn; [apply IH|f_equal; apply IH].
Qed.

Lemma NoDup_keys_del {B} k (l : list (id * B)) : NoDup (map fst l) -> NoDup (map fst (assoc_del k l)).
Proof. intro H. rewrite map_fst_assoc_del. apply NoDup_filter, H. Qed.

Lemma In_keys_del {B} k x (l : list (id * B)) : In x (map fst (assoc_del k l)) <-> In x (map fst l) /\ x <> k.
Proof.
  rewrite map_fst_assoc_del, filter_In, negb_true_iff, Nat.eqb_neq. tauto.
Qed.

Lemma map_fst_assoc_set_in {B} k (v : B) (l : list (id * B)) :
  In k (map fst l) -> map fst (assoc_set k v l) = map fst l.
Proof.
  induction l as [|[k' v'] l IH]; cbn; [tauto|].
  destruct (Nat.eqb_spec k k') as [->|Hne]; cbn; [reflexivity|].
  intros [H|H]; [congruence|]. f_equal. apply IH, H.
Qed.

Lemma map_fst_assoc_set_notin {B} k (v : B) (l : list (id * B)) :
  ~ In k (map fst l) -> map fst (assoc_set k v l) = map fst l ++ [k].
Proof.
  induction l as [|[k' v'] l IH]; cbn; [reflexivity|].
  intro H. destruct (Nat.eqb_spec k k') as [->|Hne]; [exfalso; apply H; left; reflexivity|].
  cbn. f_equal. apply IH. intro; apply H; right; assumption.
Qed.

Lemma In_keys_set {B} k (v : B) x (l : list (id * B)) : In x (map fst (assoc_set k v l)) <-> x = k \/ In x (map fst l).
Proof.
  destruct (in_dec Nat.eq_dec k (map fst l)) as [H|H].
  - rewrite map_fst_assoc_set_in by assumption. split; [auto|intros [->|?]; assumption].
  - rewrite map_fst_assoc_set_notin by assumption. rewrite in_app_iff. cbn. split; [intros [?|[?|[]]]; auto|intros [?|?]; auto].
Qed.

Lemma NoDup_keys_set {B} k (v : B) (l : list (id * B)) : NoDup (map fst l) -> NoDup (map fst (assoc_set k v l)).
Proof.
  intro H. destruct (in_dec Nat.eq_dec k (map fst l)) as [Hi|Hi].
  - rewrite map_fst_assoc_set_in; assumption.
  - rewrite map_fst_assoc_set_notin by assumption.
    eapply Permutation_NoDup; [apply Permutation_cons_append|]. constructor; assumption.
Qed.

(* pin lists *)
Lemma pin_memb_In p l : pin_memb p l = true <-> In p l.
Proof.
  induction l as [|q l IH]; cbn; [split; [discriminate|tauto]|].
  rewrite orb_true_iff, pin_eqb_spec, IH. split; intros [H|H]; auto.
Qed.

Lemma pin_remove_first_In p q l : NoDup l -> (In q (pin_remove_first p l) <-> In q l /\ q <> p).
Proof.
  induction 1 as [|z l Hz Hl IH]; cbn; [tauto|].
  destruct (pin_eqb p z) eqn:E.
  - apply pin_eqb_spec in E; subst z. split; [intro H; split; [auto|intro; subst; contradiction]|].
    intros [[H|H] Hn]; [congruence|assumption].
  - cbn. rewrite IH. assert (z <> p) by (intro; subst; rewrite pin_eqb_refl in E; discriminate).
    split; [intros [H1|[H1 H2]]; [subst; auto|auto]|intros [[H1|H1] H2]; auto].
Qed.

Lemma pin_remove_first_NoDup p l : NoDup l -> NoDup (pin_remove_first p l).
Proof.
  induction 1 as [|z l Hz Hl IH]; cbn; [constructor|].
  destruct (pin_eqb p z); [assumption|]. constructor; [|assumption].
  intro H. apply Hz. clear - H. induction l as [|y l IHl]; cbn in *; [tauto|].
  destruct (pin_eqb p y); cbn in *; [right; assumption|destruct H; [left; assumption|right; auto]].
Qed.

Lemma pins_nodupb_NoDup l : pins_nodupb l = true <-> NoDup l.
Proof.
  induction l as [|x l IH]; cbn; [split; [constructor|reflexivity]|].
  rewrite andb_true_iff, negb_true_iff, IH.
  assert (H : pin_memb x l = false <-> ~ In x l).
  { rewrite <- pin_memb_In. destruct (pin_memb x l); split; congruence. }
  rewrite H. split; [intros []; constructor; assumption|inversion 1; auto].
Qed.

Lemma pins_subsetb_spec a b : pins_subsetb a b = true <-> incl a b.
Proof.
  unfold pins_subsetb, incl. rewrite forallb_forall. split; intros H x Hx; specialize (H x Hx); apply pin_memb_In; assumption.
Qed.
