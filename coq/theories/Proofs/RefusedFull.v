(* C14 at full strength: whenever ANY editing call of the model is refused (by a precondition or
   by the naming rules), every object that existed before the call is exactly as it was - the
   half-built element of a compound constructor is registered nowhere. *)
From Coq Require Import List Arith Bool Lia.
From RecordUpdate Require Import RecordSet.
From SV Require Import Base.Base IR.State IR.NS IR.Ops Proofs.AssocX Proofs.Frame Proofs.Refused Proofs.Inv1a Proofs.Inv2a
  Proofs.InvP Proofs.InvW Proofs.Fresh.
Import ListNotations RecordSetNotations.

(* every observable of the objects that existed in s (ids below next s) is the same in s' *)
Record old_eq (s s' : state) : Prop := mkOld {
  oe_next : next s <= next s';
  oe_kind : forall x, x < next s -> kind_of s' x = kind_of s x;
  oe_kids : forall r x, x < next s -> kids s' r x = kids s r x;
  oe_par : forall r x, x < next s -> par s' r x = par s r x;
  oe_wpins : forall x, x < next s -> wpins s' x = wpins s x;
  oe_ipwire : forall x, x < next s -> ipwire s' x = ipwire s x;
  oe_iref : forall x, x < next s -> iref s' x = iref s x;
  oe_drefs : forall x, x < next s -> drefs s' x = drefs s x;
  oe_ipins : forall x, x < next s -> ipins s' x = ipins s x;
  oe_top : forall x, x < next s -> top s' x = top s x;
  oe_istop : forall x, x < next s -> istop s' x = istop s x;
  oe_bdownto : forall x, x < next s -> bdownto s' x = bdownto s x;
  oe_bscalar : forall x, x < next s -> bscalar s' x = bscalar s x;
  oe_blower : forall x, x < next s -> blower s' x = blower s x;
  oe_pdir : forall x, x < next s -> pdir s' x = pdir s x;
  oe_data : forall x, x < next s -> data s' x = data s x;
  oe_nstab : forall x, x < next s -> nstab s' x = nstab s x;
  oe_policy : policy s' = policy s
}.

Lemma old_eq_refl s : old_eq s s.
Proof. constructor; intros; reflexivity || apply Nat.le_refl. Qed.

Lemma old_eq_trans a b c : old_eq a b -> old_eq b c -> old_eq a c.
Proof.
  intros H1 H2. destruct H1, H2.
  constructor; try lia; try congruence; intros;
    match goal with
    | |- ?f c ?r ?x = _ => transitivity (f b r x); auto; match goal with H : forall r x, _ -> f c r x = _ |- _ => apply H; lia end
    | |- ?f c ?x = _ => transitivity (f b x); auto; match goal with H : forall x, _ -> f c x = _ |- _ => apply H; lia end
    end.
Qed.

(* struct_eq states agree on everything but data / nstab / log *)
Lemma old_eq_of_struct s s' :
  struct_eq s s' -> (forall y, y < next s -> data s' y = data s y /\ nstab s' y = nstab s y) -> old_eq s s'.
Proof.
  intros [] Hd. constructor; intros; try congruence; try (rewrite se_next; apply Nat.le_refl);
    try (apply Hd; assumption).
Qed.

(* ---- a data-dictionary call on an element without parent and without children writes only there ---- *)
Definition lonely (s : state) (e : id) : Prop := ns_parent s e = None /\ subtree s e = [e].

Lemma lonely_struct s s' e : struct_eq s s' -> lonely s e -> lonely s' e.
Proof.
  intros [] [H1 H2]. unfold lonely, ns_parent, subtree, net_subtree, lib_subtree, def_subtree in *.
  rewrite se_kind, se_par, se_kids. split; assumption.
Qed.

Definition only_at (e : id) (s s' : state) : Prop :=
  forall y, y <> e -> data s' y = data s y /\ nstab s' y = nstab s y.

Lemma only_at_refl e s : only_at e s s.
Proof. intros y _. split; reflexivity. Qed.

Lemma only_at_trans e a b c : only_at e a b -> only_at e b c -> only_at e a c.
Proof. intros H1 H2 y Hy. destruct (H1 y Hy), (H2 y Hy). split; congruence. Qed.

Lemma only_at_dict_set s e k v : lonely s e -> only_at e s (fst (dict_set s e k v)).
Proof.
  intros [Hp Hs]. unfold dict_set.
  assert (H1 : only_at e s (fst (ns_dictionary_set s e k v))).
  { unfold ns_dictionary_set. destruct (str_eqb k str_NS).
    - destruct (match sassoc k (data s e) with Some v0 => val_eqb v0 v | None => false end); [apply only_at_refl|].
      rewrite Hp. destruct (pol_of_val v) as [p|]; [|apply only_at_refl].
      destruct (is_compliant p s e); [|apply only_at_refl].
      cbn [fst ret]. unfold apply_namespace. rewrite Hs. cbn [fold_left].
      intros y Hy. destruct (fresh_table _ _ e); cbn; unfold upd; apply Nat.eqb_neq in Hy; rewrite Hy; split; reflexivity.
    - destruct (is_name_key k); [|apply only_at_refl].
      destruct v; try apply only_at_refl.
      destruct (negb _); [apply only_at_refl|]. rewrite Hp. apply only_at_refl. }
  destruct (ns_dictionary_set s e k v) as [s1 [x|]]; cbn [bindR fst ret] in *; [exact H1|].
  eapply only_at_trans; [exact H1|]. intros y Hy. cbn. unfold upd. apply Nat.eqb_neq in Hy. rewrite Hy. split; reflexivity.
Qed.

Lemma only_at_set_props e props : forall s, lonely s e -> only_at e s (fst (set_props s e props)).
Proof.
  induction props as [|[k v] ps IH]; intros s Hl; cbn [set_props]; [apply only_at_refl|].
  pose proof (only_at_dict_set s e k v Hl) as H1. pose proof (se_dict_set s e k v) as Hse.
  destruct (dict_set s e k v) as [s1 [x|]]; cbn [bindR fst] in *; [exact H1|].
  eapply only_at_trans; [exact H1|apply IH]. apply (lonely_struct s s1 e Hse Hl).
Qed.

Lemma construct_old s k nm props : Fresh s -> old_eq s (fst (fst (construct s k nm props))).
Proof.
  intro F. unfold construct, alloc. cbn zeta beta iota.
  set (x := next s).
  set (s0 := s <| next := S x |> <| kind_of ::= fun f => upd f x (Some k) |>).
  assert (H0 : old_eq s s0).
  { constructor; cbn; intros; try reflexivity; try (unfold x; lia). unfold upd, x. destruct (Nat.eqb_spec x0 (next s)); [lia|reflexivity]. }
  destruct (has_data k) eqn:Hd; cbn [fst]; [|exact H0].
  assert (Hl0 : lonely s0 x).
  { split.
    - unfold ns_parent. cbn. rewrite upd_same. destruct k; try reflexivity; apply (f_par s F); apply Nat.le_refl.
    - unfold subtree, net_subtree, lib_subtree, def_subtree. cbn. rewrite upd_same.
      destruct k; try reflexivity; rewrite ?(f_kids s F _ x (Nat.le_refl _)); reflexivity. }
  match goal with |- old_eq s (fst ?m) => assert (H1 : struct_eq s0 (fst m) /\ only_at x s0 (fst m)) end.
  { pose proof (se_ns_create s0 x) as Hse1. pose proof (only_at_dict_set s0 x str_NS (VStr (pol_name (policy s0))) Hl0) as Ho1.
    unfold ns_create in *.
    destruct (dict_set s0 x str_NS (VStr (pol_name (policy s0)))) as [s1 [e|]]; cbn [bindR fst] in *; [split; [exact Hse1|exact Ho1]|].
    set (s2 := emit s1 (ECreate k x)).
    assert (Hse2 : struct_eq s0 s2) by (eapply struct_eq_trans; [exact Hse1|apply se_emit]).
    assert (Ho2 : only_at x s0 s2) by (eapply only_at_trans; [exact Ho1|intros y _; split; reflexivity]).
    assert (Hl2 : lonely s2 x) by (apply (lonely_struct s0 s2 x Hse2 Hl0)).
    set (mid := match nm with Some n => dict_set s2 x str_NAME (VStr n) | None => ret s2 end).
    assert (Hm : struct_eq s2 (fst mid) /\ only_at x s2 (fst mid)).
    { unfold mid. destruct nm; [split; [apply se_dict_set|apply only_at_dict_set; exact Hl2]|split; [apply struct_eq_refl|apply only_at_refl]]. }
    destruct mid as [s3 [e|]]; cbn [bindR fst] in *.
    - destruct Hm. split; [eapply struct_eq_trans; eassumption|eapply only_at_trans; eassumption].
    - destruct Hm as [Hm1 Hm2].
      assert (Hl3 : lonely s3 x) by (apply (lonely_struct s2 s3 x Hm1 Hl2)).
      split; [eapply struct_eq_trans; [exact Hse2|eapply struct_eq_trans; [exact Hm1|apply se_set_props]]|].
      eapply only_at_trans; [exact Ho2|eapply only_at_trans; [exact Hm2|apply only_at_set_props; exact Hl3]]. }
  destruct H1 as [Hs Ho]. clear - Hs Ho.
  match goal with |- old_eq s ?t => set (s' := t) in * end. clearbody s'.
  destruct Hs. constructor; intros; rewrite ?se_kids, ?se_par, ?se_wpins, ?se_ipwire, ?se_iref, ?se_drefs, ?se_ipins,
    ?se_top, ?se_istop, ?se_bdownto, ?se_bscalar, ?se_blower, ?se_pdir, ?se_policy; try reflexivity.
  - rewrite se_next. cbn. lia.
  - rewrite se_kind. cbn. unfold upd, x. destruct (Nat.eqb_spec x0 (next s)); [lia|reflexivity].
  - destruct (Ho x0) as [A _]; [unfold x; lia|]. rewrite A. reflexivity.
  - destruct (Ho x0) as [_ B]; [unfold x; lia|]. rewrite B. reflexivity.
Qed.

(* ---- data dictionaries of unallocated ids stay empty ---- *)
Definition FreshD (s : state) : Prop := forall x, next s <= x -> data s x = [].

Lemma kids_lt s r p y : Fresh s -> Inv1a s -> In y (kids s r p) -> y < next s.
Proof.
  intros F Ha H. apply (i1_kids s Ha) in H.
  destruct (Nat.lt_ge_cases y (next s)) as [Hl|Hg]; [exact Hl|]. rewrite (f_par s F r y Hg) in H. discriminate.
Qed.

Lemma subtree_lt s e y : Fresh s -> Inv1a s -> e < next s -> In y (subtree s e) -> y < next s.
Proof.
  intros F Ha He. unfold subtree, net_subtree, lib_subtree, def_subtree.
  assert (Hdef : forall d, d < next s -> In y (d :: kids s RPorts d ++ kids s RCables d ++ kids s RChildren d) -> y < next s).
  { intros d Hd [<-|H]; [exact Hd|]. rewrite !in_app_iff in H. destruct H as [H|[H|H]]; eapply kids_lt; eassumption. }
  assert (Hlib : forall l, l < next s -> In y (l :: flat_map (fun d => d :: kids s RPorts d ++ kids s RCables d ++ kids s RChildren d) (kids s RDefs l)) -> y < next s).
  { intros l Hl [<-|H]; [exact Hl|]. apply in_flat_map in H as [d [Hd H]]. apply (Hdef d); [eapply kids_lt; eassumption|exact H]. }
  destruct (kind_of s e) as [[]|]; try (intros [<-|[]]; exact He).
  - intros [<-|H]; [exact He|]. apply in_flat_map in H as [l [Hl H]]. apply (Hlib l); [eapply kids_lt; eassumption|exact H].
  - apply Hlib. exact He.
  - apply Hdef. exact He.
Qed.

Lemma data_fold_left_notin {A} (f : state -> A -> state) (key : A -> id) l y :
  (forall s a, key a <> y -> data (f s a) y = data s y) -> ~ In y (map key l) ->
  forall s, data (fold_left f l s) y = data s y.
Proof.
  intros Hf. induction l as [|a l IH]; intros Hn s; cbn; [reflexivity|].
  rewrite IH; [apply Hf|]; intro H; apply Hn; cbn; auto.
Qed.

Lemma apply_namespace_data p s e y : ~ In y (subtree s e) -> data (apply_namespace p s e) y = data s y.
Proof.
  intro Hn. unfold apply_namespace. apply (data_fold_left_notin _ (fun x => x)); [|rewrite map_id; exact Hn].
  intros s0 a Ha. destruct (fresh_table _ _ a); cbn; unfold upd; apply Nat.eqb_neq in Ha; rewrite Nat.eqb_sym, Ha; reflexivity.
Qed.

Lemma drop_namespace_data s e y : ~ In y (subtree s e) -> data (drop_namespace s e) y = data s y.
Proof.
  intro Hn. unfold drop_namespace. apply (data_fold_left_notin _ (fun x => x)); [|rewrite map_id; exact Hn].
  intros s0 a Ha. destruct (_ && _); cbn; [unfold upd; apply Nat.eqb_neq in Ha; rewrite Nat.eqb_sym, Ha|]; reflexivity.
Qed.

Lemma subtree_head s e : In e (subtree s e).
Proof. unfold subtree, net_subtree, lib_subtree, def_subtree. destruct (kind_of s e) as [[]|]; left; reflexivity. Qed.

Lemma dict_set_data s e k v y : ~ In y (subtree s e) -> data (fst (dict_set s e k v)) y = data s y.
Proof.
  intro Hn. assert (Hy : y <> e) by (intros ->; apply Hn, subtree_head).
  unfold dict_set.
  assert (H1 : data (fst (ns_dictionary_set s e k v)) y = data s y).
  { unfold ns_dictionary_set, ret, raise.
    repeat match goal with
           | |- context [if ?b then _ else _] => destruct b
           | |- context [match ?x with _ => _ end] => destruct x
           end; cbn [fst]; try reflexivity. apply apply_namespace_data. exact Hn. }
  destruct (ns_dictionary_set s e k v) as [s1 [x|]]; cbn [bindR fst ret] in *; [exact H1|].
  cbn. unfold upd. apply Nat.eqb_neq in Hy. rewrite Hy. exact H1.
Qed.

Lemma dict_del_data s e k y : ~ In y (subtree s e) -> data (fst (dict_del s e k)) y = data s y.
Proof.
  intro Hn. assert (Hy : y <> e) by (intros ->; apply Hn, subtree_head).
  unfold dict_del.
  assert (H1 : data (fst (ns_dictionary_delete s e k)) y = data s y).
  { unfold ns_dictionary_delete, ns_remove_key, ret, raise.
    repeat match goal with
           | |- context [if ?b then _ else _] => destruct b
           | |- context [match ?x with _ => _ end] => destruct x
           end; cbn [fst]; try reflexivity. apply drop_namespace_data. exact Hn. }
  destruct (ns_dictionary_delete s e k) as [s1 [x|]]; cbn [bindR fst ret] in *; [exact H1|].
  destruct (has_key _ e k); cbn; [unfold upd; apply Nat.eqb_neq in Hy; rewrite Hy|]; exact H1.
Qed.

Lemma dict_pop_data s e k y : ~ In y (subtree s e) -> data (fst (dict_pop s e k)) y = data s y.
Proof.
  intro Hn. assert (Hy : y <> e) by (intros ->; apply Hn, subtree_head).
  unfold dict_pop.
  assert (H1 : data (fst (ns_dictionary_delete s e k)) y = data s y).
  { unfold ns_dictionary_delete, ns_remove_key, ret, raise.
    repeat match goal with
           | |- context [if ?b then _ else _] => destruct b
           | |- context [match ?x with _ => _ end] => destruct x
           end; cbn [fst]; try reflexivity. apply drop_namespace_data. exact Hn. }
  destruct (ns_dictionary_delete s e k) as [s1 [x|]]; cbn [bindR fst ret] in *; [exact H1|].
  destruct (has_key _ e k); cbn; [unfold upd; apply Nat.eqb_neq in Hy; rewrite Hy|]; exact H1.
Qed.

Lemma ns_add_data s p c ck y : ~ In y (subtree s c) -> data (fst (ns_add s p c ck)) y = data s y.
Proof.
  intro Hn. unfold ns_add. destruct (match nstab s p with Some _ => _ | None => _ end); [reflexivity|].
  match goal with |- context [?m >>= _] => set (mid := m) end.
  assert (Hm : data (fst mid) y = data s y).
  { unfold mid. destruct (sassoc str_NS (data s p)).
    - destruct (match sassoc str_NS (data s c) with Some _ => _ | None => _ end); [reflexivity|apply dict_set_data; exact Hn].
    - destruct (has_key s c str_NS); [apply dict_del_data; exact Hn|reflexivity]. }
  destruct mid as [s1 [x|]]; cbn [bindR fst] in *; [exact Hm|]. destruct (nstab s1 p); exact Hm.
Qed.

(* ---- operations that never touch a data dictionary ---- *)
Definition dsame (s s' : state) : Prop := data s' = data s.
Lemma dsame_refl s : dsame s s. Proof. reflexivity. Qed.
Lemma dsame_trans a b c : dsame a b -> dsame b c -> dsame a c. Proof. unfold dsame; congruence. Qed.
Lemma ds_bind r f s : dsame s (fst r) -> (forall s1, dsame s1 (fst (f s1))) -> dsame s (fst (r >>= f)).
Proof. destruct r as [s1 [x|]]; cbn; intros H1 H2; [exact H1|]. eapply dsame_trans; [exact H1|apply H2]. Qed.
Lemma ds_guard b x s k : (forall s1, dsame s1 (fst (k s1))) -> dsame s (fst (guard b x s k)).
Proof. intro H. unfold guard. destruct b; [apply H|apply dsame_refl]. Qed.
Lemma ds_fold_ids f l : (forall s x, dsame s (f s x)) -> forall s, dsame s (fold_ids f l s).
Proof. intro H. induction l as [|x l IH]; intro s; cbn; [apply dsame_refl|]. eapply dsame_trans; [apply H|apply IH]. Qed.
Lemma ds_fold_idsR f l : (forall s x, dsame s (fst (f s x))) -> forall s, dsame s (fst (fold_idsR f l s)).
Proof. intro H. induction l as [|x l IH]; intro s; cbn; [apply dsame_refl|]. apply ds_bind; [apply H|apply IH]. Qed.
Lemma ds_fold_pairsR f l : (forall s x, dsame s (fst (f s x))) -> forall s, dsame s (fst (fold_pairsR f l s)).
Proof. intro H. induction l as [|x l IH]; intro s; cbn; [apply dsame_refl|]. apply ds_bind; [apply H|apply IH]. Qed.
Lemma ds_fold_left {A} (f : state -> A -> state) l : (forall s x, dsame s (f s x)) -> forall s, dsame s (fold_left f l s).
Proof. intro H. induction l as [|x l IH]; intro s; cbn; [apply dsame_refl|]. eapply dsame_trans; [apply H|apply IH]. Qed.

Lemma ds_drop_outer s n i : dsame s (fst (drop_outer s n i)).
Proof. unfold drop_outer. destruct (assoc i (ipins s n)) as [[w|]|]; reflexivity. Qed.
Lemma ds_rekey s n cn : dsame s (fst (rekey s n cn)).
Proof. unfold rekey. destruct cn. destruct (assoc _ _) as [[w|]|]; reflexivity. Qed.
Lemma ds_add_post s r p c : dsame s (add_post s r p c).
Proof.
  unfold add_post. destruct r; try apply dsame_refl.
  - apply ds_fold_ids. intros s0 n. apply ds_fold_ids. intros; reflexivity.
  - destruct (par s RPorts p); [|apply dsame_refl]. apply ds_fold_ids. intros; reflexivity.
Qed.
Lemma ds_remove_core s r p c : dsame s (fst (remove_core s r p c)).
Proof.
  unfold remove_core. apply ds_bind; [|intro; reflexivity].
  eapply dsame_trans with (b := emit (if ns_rel r then ns_remove_child s p c (rel_child r) else s) (ERemove r p c)).
  - destruct (ns_rel r); [|reflexivity]. unfold ns_remove_child. destruct (nstab s p); reflexivity.
  - destruct r; try apply dsame_refl.
    + apply ds_fold_idsR. intros s0 n. apply ds_fold_idsR. intros; apply ds_drop_outer.
    + destruct (par _ RPorts p); [|apply dsame_refl]. apply ds_fold_idsR. intros; apply ds_drop_outer.
Qed.
Lemma ds_op_set_reference s x v : dsame s (fst (op_set_reference s x v)).
Proof.
  unfold op_set_reference. repeat (apply ds_guard; intro). destruct v as [d'|].
  - apply ds_bind; [|intro; reflexivity].
    destruct (iref _ x).
    + apply ds_bind; [destruct (memb _ _); reflexivity|]. intro. apply ds_fold_pairsR. intros; apply ds_rekey.
    + cbn [fst ret]. eapply dsame_trans; [|apply ds_fold_ids; intros; reflexivity]. reflexivity.
  - apply ds_bind; [eapply dsame_trans; [|apply ds_fold_idsR; intros; apply ds_drop_outer]; reflexivity|].
    intro s3. apply ds_bind; [destruct (iref _ x); [destruct (memb _ _)|]; reflexivity|intro; reflexivity].
Qed.

(* the part of construct that matters above: it writes data/nstab at the new id only *)
Lemma construct_spec s k nm props :
  Fresh s ->
  let s0 := s <| next := S (next s) |> <| kind_of ::= fun f => upd f (next s) (Some k) |> in
  struct_eq s0 (fst (fst (construct s k nm props))) /\ only_at (next s) s0 (fst (fst (construct s k nm props))).
Proof.
  intro F. unfold construct, alloc. cbn zeta beta iota.
  set (x := next s).
  set (s0 := s <| next := S x |> <| kind_of ::= fun f => upd f x (Some k) |>).
  destruct (has_data k) eqn:Hd; cbn [fst]; [|split; [apply struct_eq_refl|apply only_at_refl]].
  assert (Hl0 : lonely s0 x).
  { split.
    - unfold ns_parent. cbn. rewrite upd_same. destruct k; try reflexivity; apply (f_par s F); apply Nat.le_refl.
    - unfold subtree, net_subtree, lib_subtree, def_subtree. cbn. rewrite upd_same.
      destruct k; try reflexivity; rewrite ?(f_kids s F _ x (Nat.le_refl _)); reflexivity. }
  pose proof (se_ns_create s0 x) as Hse1. pose proof (only_at_dict_set s0 x str_NS (VStr (pol_name (policy s0))) Hl0) as Ho1.
  unfold ns_create in *.
  destruct (dict_set s0 x str_NS (VStr (pol_name (policy s0)))) as [s1 [e|]]; cbn [bindR fst] in *; [split; [exact Hse1|exact Ho1]|].
  set (s2 := emit s1 (ECreate k x)).
  assert (Hse2 : struct_eq s0 s2) by (eapply struct_eq_trans; [exact Hse1|apply se_emit]).
  assert (Ho2 : only_at x s0 s2) by (eapply only_at_trans; [exact Ho1|intros y _; split; reflexivity]).
  assert (Hl2 : lonely s2 x) by (apply (lonely_struct s0 s2 x Hse2 Hl0)).
  set (mid := match nm with Some n => dict_set s2 x str_NAME (VStr n) | None => ret s2 end).
  assert (Hm : struct_eq s2 (fst mid) /\ only_at x s2 (fst mid)).
  { unfold mid. destruct nm; [split; [apply se_dict_set|apply only_at_dict_set; exact Hl2]|split; [apply struct_eq_refl|apply only_at_refl]]. }
  destruct mid as [s3 [e|]]; cbn [bindR fst] in *.
  - destruct Hm. split; [eapply struct_eq_trans; eassumption|eapply only_at_trans; eassumption].
  - destruct Hm as [Hm1 Hm2].
    assert (Hl3 : lonely s3 x) by (apply (lonely_struct s2 s3 x Hm1 Hl2)).
    split; [eapply struct_eq_trans; [exact Hse2|eapply struct_eq_trans; [exact Hm1|apply se_set_props]]|].
    eapply only_at_trans; [exact Ho2|eapply only_at_trans; [exact Hm2|apply only_at_set_props; exact Hl3]].
Qed.

Lemma freshd_construct s k nm props : Fresh s -> FreshD s -> FreshD (fst (fst (construct s k nm props))).
Proof.
  intros F D. destruct (construct_spec s k nm props F) as [Hs Ho].
  destruct (construct_frame s k nm props) as [_ [_ [_ [Hn _]]]].
  intros y Hy. rewrite Hn in Hy. destruct (Ho y) as [A _]; [lia|]. rewrite A. cbn. apply D. lia.
Qed.

Lemma freshd_same s s' : next s <= next s' -> dsame s s' -> FreshD s -> FreshD s'.
Proof. intros Hn Hd D y Hy. rewrite Hd. apply D. lia. Qed.

Lemma is_kind_lt' s x k : Fresh s -> is_kind s x k = true -> x < next s.
Proof. apply is_kind_lt. Qed.

Lemma next_op_add s r p c pos : next (fst (op_add s r p c pos)) = next s.
Proof.
  unfold op_add, guard. destruct (_ && _); [|reflexivity]. destruct (add_guard1 _ _ _ _); [|reflexivity].
  destruct (par s r c); [reflexivity|].
  pose proof (se_ns_add s p c (rel_child r)) as Hse.
  set (res := if ns_rel r then ns_add s p c (rel_child r) else ret s).
  assert (Hn : next (fst res) = next s) by (unfold res; destruct (ns_rel r); [apply (se_next _ _ Hse)|reflexivity]).
  destruct res as [s1 [e|]]; cbn [bindR fst ret] in *; [exact Hn|].
  rewrite (fw_next _ _ (fw_add_post _ r p c)). cbn. exact Hn.
Qed.

Lemma freshd_op_add s r p c pos : Fresh s -> Inv1a s -> FreshD s -> FreshD (fst (op_add s r p c pos)).
Proof.
  intros F Ha D y Hy. rewrite next_op_add in Hy.
  unfold op_add, guard.
  destruct (is_kind s p (rel_parent r) && is_kind s c (rel_child r)) eqn:Hk; [|apply D; exact Hy].
  apply andb_true_iff in Hk as [_ Hk2].
  destruct (add_guard1 _ _ _ _); [|apply D; exact Hy]. destruct (par s r c); [apply D; exact Hy|].
  assert (Hny : ~ In y (subtree s c)).
  { intro H. apply (subtree_lt s c y F Ha (is_kind_lt s c _ F Hk2)) in H. lia. }
  pose proof (ns_add_data s p c (rel_child r) y Hny) as Hd.
  set (res := if ns_rel r then ns_add s p c (rel_child r) else ret s).
  assert (Hd' : data (fst res) y = data s y) by (unfold res; destruct (ns_rel r); [exact Hd|reflexivity]).
  destruct res as [s1 [e|]]; cbn [bindR fst ret] in *; [rewrite Hd'; apply D; exact Hy|].
  rewrite (ds_add_post _ r p c). cbn. rewrite Hd'. apply D. exact Hy.
Qed.
