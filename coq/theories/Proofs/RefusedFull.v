(* C14 at full strength: whenever ANY editing call of the model is refused (by a precondition or
   by the naming rules), every object that existed before the call is exactly as it was - the
   half-built element of a compound constructor is registered nowhere. *)
From Coq Require Import List Arith Bool Lia.
From RecordUpdate Require Import RecordSet.
From SV Require Import Base.Base IR.State IR.NS IR.Ops Proofs.AssocX Proofs.Frame Proofs.Refused Proofs.Inv1a Proofs.Inv2a
  Proofs.InvP Proofs.InvW Proofs.Fresh.
Import ListNotations RecordSetNotations.

(* every observable of the objects that existed in s (ids below next s) is the same in s' *)
Record old_eq (s s' : state) : Prop := mkOld {
  oe_next : next s <= next s';
  oe_kind : forall x, x < next s -> kind_of s' x = kind_of s x;
  oe_kids : forall r x, x < next s -> kids s' r x = kids s r x;
  oe_par : forall r x, x < next s -> par s' r x = par s r x;
  oe_wpins : forall x, x < next s -> wpins s' x = wpins s x;
  oe_ipwire : forall x, x < next s -> ipwire s' x = ipwire s x;
  oe_iref : forall x, x < next s -> iref s' x = iref s x;
  oe_drefs : forall x, x < next s -> drefs s' x = drefs s x;
  oe_ipins : forall x, x < next s -> ipins s' x = ipins s x;
  oe_top : forall x, x < next s -> top s' x = top s x;
  oe_istop : forall x, x < next s -> istop s' x = istop s x;
  oe_bdownto : forall x, x < next s -> bdownto s' x = bdownto s x;
  oe_bscalar : forall x, x < next s -> bscalar s' x = bscalar s x;
  oe_blower : forall x, x < next s -> blower s' x = blower s x;
  oe_pdir : forall x, x < next s -> pdir s' x = pdir s x;
  oe_data : forall x, x < next s -> data s' x = data s x;
  oe_nstab : forall x, x < next s -> nstab s' x = nstab s x;
  oe_policy : policy s' = policy s
}.

Lemma old_eq_refl s : old_eq s s.
Proof. constructor; intros; reflexivity || apply Nat.le_refl. Qed.

Lemma old_eq_trans a b c : old_eq a b -> old_eq b c -> old_eq a c.
Proof.
  intros H1 H2. destruct H1, H2.
  constructor; try lia; try congruence; intros;
    match goal with
    | |- ?f c ?r ?x = _ => transitivity (f b r x); auto; match goal with H : forall r x, _ -> f c r x = _ |- _ => apply H; lia end
    | |- ?f c ?x = _ => transitivity (f b x); auto; match goal with H : forall x, _ -> f c x = _ |- _ => apply H; lia end
    end.
Qed.

(* struct_eq states agree on everything but data / nstab / log *)
Lemma old_eq_of_struct s s' :
  struct_eq s s' -> (forall y, y < next s -> data s' y = data s y /\ nstab s' y = nstab s y) -> old_eq s s'.
Proof.
  intros [] Hd. constructor; intros; try congruence; try (rewrite se_next; apply Nat.le_refl);
    try (apply Hd; assumption).
Qed.

(* ---- a data-dictionary call on an element without parent and without children writes only there ---- *)
Definition lonely (s : state) (e : id) : Prop := ns_parent s e = None /\ subtree s e = [e].

Lemma lonely_struct s s' e : struct_eq s s' -> lonely s e -> lonely s' e.
Proof.
  intros [] [H1 H2]. unfold lonely, ns_parent, subtree, net_subtree, lib_subtree, def_subtree in *.
  rewrite se_kind, se_par, se_kids. split; assumption.
Qed.

Definition only_at (e : id) (s s' : state) : Prop :=
  forall y, y <> e -> data s' y = data s y /\ nstab s' y = nstab s y.

Lemma only_at_refl e s : only_at e s s.
Proof. intros y _. split; reflexivity. Qed.

Lemma only_at_trans e a b c : only_at e a b -> only_at e b c -> only_at e a c.
Proof. intros H1 H2 y Hy. destruct (H1 y Hy), (H2 y Hy). split; congruence. Qed.

Lemma only_at_dict_set s e k v : lonely s e -> only_at e s (fst (dict_set s e k v)).
Proof.
  intros [Hp Hs]. unfold dict_set.
  assert (H1 : only_at e s (fst (ns_dictionary_set s e k v))).
  { unfold ns_dictionary_set. destruct (str_eqb k str_NS).
    - destruct (match sassoc k (data s e) with Some v0 => val_eqb v0 v | None => false end); [apply only_at_refl|].
      rewrite Hp. destruct (pol_of_val v) as [p|]; [|apply only_at_refl].
      destruct (is_compliant p s e); [|apply only_at_refl].
      cbn [fst ret]. unfold apply_namespace. rewrite Hs. cbn [fold_left].
      intros y Hy. destruct (fresh_table _ _ e); cbn; unfold upd; apply Nat.eqb_neq in Hy; rewrite Hy; split; reflexivity.
    - destruct (is_name_key k); [|apply only_at_refl].
      destruct v; try apply only_at_refl.
      destruct (negb _); [apply only_at_refl|]. rewrite Hp. apply only_at_refl. }
  destruct (ns_dictionary_set s e k v) as [s1 [x|]]; cbn [bindR fst ret] in *; [exact H1|].
  eapply only_at_trans; [exact H1|]. intros y Hy. cbn. unfold upd. apply Nat.eqb_neq in Hy. rewrite Hy. split; reflexivity.
Qed.

Lemma only_at_set_props e props : forall s, lonely s e -> only_at e s (fst (set_props s e props)).
Proof.
  induction props as [|[k v] ps IH]; intros s Hl; cbn [set_props]; [apply only_at_refl|].
  pose proof (only_at_dict_set s e k v Hl) as H1. pose proof (se_dict_set s e k v) as Hse.
  destruct (dict_set s e k v) as [s1 [x|]]; cbn [bindR fst] in *; [exact H1|].
  eapply only_at_trans; [exact H1|apply IH]. apply (lonely_struct s s1 e Hse Hl).
Qed.

Lemma construct_old s k nm props : Fresh s -> old_eq s (fst (fst (construct s k nm props))).
Proof.
  intro F. unfold construct, alloc. cbn zeta beta iota.
  set (x := next s).
  set (s0 := s <| next := S x |> <| kind_of ::= fun f => upd f x (Some k) |>).
  assert (H0 : old_eq s s0).
  { constructor; cbn; intros; try reflexivity; try (unfold x; lia). unfold upd, x. destruct (Nat.eqb_spec x0 (next s)); [lia|reflexivity]. }
  destruct (has_data k) eqn:Hd; cbn [fst]; [|exact H0].
  assert (Hl0 : lonely s0 x).
  { split.
    - unfold ns_parent. cbn. rewrite upd_same. destruct k; try reflexivity; apply (f_par s F); apply Nat.le_refl.
    - unfold subtree, net_subtree, lib_subtree, def_subtree. cbn. rewrite upd_same.
      destruct k; try reflexivity; rewrite ?(f_kids s F _ x (Nat.le_refl _)); reflexivity. }
  match goal with |- old_eq s (fst ?m) => assert (H1 : struct_eq s0 (fst m) /\ only_at x s0 (fst m)) end.
  { pose proof (se_ns_create s0 x) as Hse1. pose proof (only_at_dict_set s0 x str_NS (VStr (pol_name (policy s0))) Hl0) as Ho1.
    unfold ns_create in *.
    destruct (dict_set s0 x str_NS (VStr (pol_name (policy s0)))) as [s1 [e|]]; cbn [bindR fst] in *; [split; [exact Hse1|exact Ho1]|].
    set (s2 := emit s1 (ECreate k x)).
    assert (Hse2 : struct_eq s0 s2) by (eapply struct_eq_trans; [exact Hse1|apply se_emit]).
    assert (Ho2 : only_at x s0 s2) by (eapply only_at_trans; [exact Ho1|intros y _; split; reflexivity]).
    assert (Hl2 : lonely s2 x) by (apply (lonely_struct s0 s2 x Hse2 Hl0)).
    set (mid := match nm with Some n => dict_set s2 x str_NAME (VStr n) | None => ret s2 end).
    assert (Hm : struct_eq s2 (fst mid) /\ only_at x s2 (fst mid)).
    { unfold mid. destruct nm; [split; [apply se_dict_set|apply only_at_dict_set; exact Hl2]|split; [apply struct_eq_refl|apply only_at_refl]]. }
    destruct mid as [s3 [e|]]; cbn [bindR fst] in *.
    - destruct Hm. split; [eapply struct_eq_trans; eassumption|eapply only_at_trans; eassumption].
    - destruct Hm as [Hm1 Hm2].
      assert (Hl3 : lonely s3 x) by (apply (lonely_struct s2 s3 x Hm1 Hl2)).
      split; [eapply struct_eq_trans; [exact Hse2|eapply struct_eq_trans; [exact Hm1|apply se_set_props]]|].
      eapply only_at_trans; [exact Ho2|eapply only_at_trans; [exact Hm2|apply only_at_set_props; exact Hl3]]. }
  destruct H1 as [Hs Ho]. clear - Hs Ho.
  match goal with |- old_eq s ?t => set (s' := t) in * end. clearbody s'.
  destruct Hs. constructor; intros; rewrite ?se_kids, ?se_par, ?se_wpins, ?se_ipwire, ?se_iref, ?se_drefs, ?se_ipins,
    ?se_top, ?se_istop, ?se_bdownto, ?se_bscalar, ?se_blower, ?se_pdir, ?se_policy; try reflexivity.
  - rewrite se_next. cbn. lia.
  - rewrite se_kind. cbn. unfold upd, x. destruct (Nat.eqb_spec x0 (next s)); [lia|reflexivity].
  - destruct (Ho x0) as [A _]; [unfold x; lia|]. rewrite A. reflexivity.
  - destruct (Ho x0) as [_ B]; [unfold x; lia|]. rewrite B. reflexivity.
Qed.

(* ---- data dictionaries of unallocated ids stay empty ---- *)
Definition FreshD (s : state) : Prop := forall x, next s <= x -> data s x = [].

Lemma kids_lt s r p y : Fresh s -> Inv1a s -> In y (kids s r p) -> y < next s.
Proof.
  intros F Ha H. apply (i1_kids s Ha) in H.
  destruct (Nat.lt_ge_cases y (next s)) as [Hl|Hg]; [exact Hl|]. rewrite (f_par s F r y Hg) in H. discriminate.
Qed.

Lemma subtree_lt s e y : Fresh s -> Inv1a s -> e < next s -> In y (subtree s e) -> y < next s.
Proof.
  intros F Ha He. unfold subtree, net_subtree, lib_subtree, def_subtree.
  assert (Hdef : forall d, d < next s -> In y (d :: kids s RPorts d ++ kids s RCables d ++ kids s RChildren d) -> y < next s).
  { intros d Hd [<-|H]; [exact Hd|]. rewrite !in_app_iff in H. destruct H as [H|[H|H]]; eapply kids_lt; eassumption. }
  assert (Hlib : forall l, l < next s -> In y (l :: flat_map (fun d => d :: kids s RPorts d ++ kids s RCables d ++ kids s RChildren d) (kids s RDefs l)) -> y < next s).
  { intros l Hl [<-|H]; [exact Hl|]. apply in_flat_map in H as [d [Hd H]]. apply (Hdef d); [eapply kids_lt; eassumption|exact H]. }
  destruct (kind_of s e) as [[]|]; try (intros [<-|[]]; exact He).
  - intros [<-|H]; [exact He|]. apply in_flat_map in H as [l [Hl H]]. apply (Hlib l); [eapply kids_lt; eassumption|exact H].
  - apply Hlib. exact He.
  - apply Hdef. exact He.
Qed.

Lemma data_fold_left_notin {A} (f : state -> A -> state) (key : A -> id) l y :
  (forall s a, key a <> y -> data (f s a) y = data s y) -> ~ In y (map key l) ->
  forall s, data (fold_left f l s) y = data s y.
Proof.
  intros Hf. induction l as [|a l IH]; intros Hn s; cbn; [reflexivity|].
  rewrite IH; [apply Hf|]; intro H; apply Hn; cbn; auto.
Qed.

Lemma apply_namespace_data p s e y : ~ In y (subtree s e) -> data (apply_namespace p s e) y = data s y.
Proof.
  intro Hn. unfold apply_namespace. apply (data_fold_left_notin _ (fun x => x)); [|rewrite map_id; exact Hn].
  intros s0 a Ha. destruct (fresh_table _ _ a); cbn; unfold upd; apply Nat.eqb_neq in Ha; rewrite Nat.eqb_sym, Ha; reflexivity.
Qed.

Lemma drop_namespace_data s e y : ~ In y (subtree s e) -> data (drop_namespace s e) y = data s y.
Proof.
  intro Hn. unfold drop_namespace. apply (data_fold_left_notin _ (fun x => x)); [|rewrite map_id; exact Hn].
  intros s0 a Ha. destruct (_ && _); cbn; [unfold upd; apply Nat.eqb_neq in Ha; rewrite Nat.eqb_sym, Ha|]; reflexivity.
Qed.

Lemma subtree_head s e : In e (subtree s e).
Proof. unfold subtree, net_subtree, lib_subtree, def_subtree. destruct (kind_of s e) as [[]|]; left; reflexivity. Qed.

Lemma dict_set_data s e k v y : ~ In y (subtree s e) -> data (fst (dict_set s e k v)) y = data s y.
Proof.
  intro Hn. assert (Hy : y <> e) by (intros ->; apply Hn, subtree_head).
  unfold dict_set.
  assert (H1 : data (fst (ns_dictionary_set s e k v)) y = data s y).
  { unfold ns_dictionary_set, ret, raise.
    repeat match goal with
           | |- context [if ?b then _ else _] => destruct b
           | |- context [match ?x with _ => _ end] => destruct x
           end; cbn [fst]; try reflexivity. apply apply_namespace_data. exact Hn. }
  destruct (ns_dictionary_set s e k v) as [s1 [x|]]; cbn [bindR fst ret] in *; [exact H1|].
  cbn. unfold upd. apply Nat.eqb_neq in Hy. rewrite Hy. exact H1.
Qed.

Lemma dict_del_data s e k y : ~ In y (subtree s e) -> data (fst (dict_del s e k)) y = data s y.
Proof.
  intro Hn. assert (Hy : y <> e) by (intros ->; apply Hn, subtree_head).
  unfold dict_del.
  assert (H1 : data (fst (ns_dictionary_delete s e k)) y = data s y).
  { unfold ns_dictionary_delete, ns_remove_key, ret, raise.
    repeat match goal with
           | |- context [if ?b then _ else _] => destruct b
           | |- context [match ?x with _ => _ end] => destruct x
           end; cbn [fst]; try reflexivity. apply drop_namespace_data. exact Hn. }
  destruct (ns_dictionary_delete s e k) as [s1 [x|]]; cbn [bindR fst ret] in *; [exact H1|].
  destruct (has_key _ e k); cbn; [unfold upd; apply Nat.eqb_neq in Hy; rewrite Hy|]; exact H1.
Qed.

Lemma dict_pop_data s e k y : ~ In y (subtree s e) -> data (fst (dict_pop s e k)) y = data s y.
Proof.
  intro Hn. assert (Hy : y <> e) by (intros ->; apply Hn, subtree_head).
  unfold dict_pop.
  assert (H1 : data (fst (ns_dictionary_delete s e k)) y = data s y).
  { unfold ns_dictionary_delete, ns_remove_key, ret, raise.
    repeat match goal with
           | |- context [if ?b then _ else _] => destruct b
           | |- context [match ?x with _ => _ end] => destruct x
           end; cbn [fst]; try reflexivity. apply drop_namespace_data. exact Hn. }
  destruct (ns_dictionary_delete s e k) as [s1 [x|]]; cbn [bindR fst ret] in *; [exact H1|].
  destruct (has_key _ e k); cbn; [unfold upd; apply Nat.eqb_neq in Hy; rewrite Hy|]; exact H1.
Qed.

Lemma ns_add_data s p c ck y : ~ In y (subtree s c) -> data (fst (ns_add s p c ck)) y = data s y.
Proof.
  intro Hn. unfold ns_add. destruct (match nstab s p with Some _ => _ | None => _ end); [reflexivity|].
  match goal with |- context [?m >>= _] => set (mid := m) end.
  assert (Hm : data (fst mid) y = data s y).
  { unfold mid. destruct (sassoc str_NS (data s p)).
    - destruct (match sassoc str_NS (data s c) with Some _ => _ | None => _ end); [reflexivity|apply dict_set_data; exact Hn].
    - destruct (has_key s c str_NS); [apply dict_del_data; exact Hn|reflexivity]. }
  destruct mid as [s1 [x|]]; cbn [bindR fst] in *; [exact Hm|]. destruct (nstab s1 p); exact Hm.
Qed.

(* ---- operations that never touch a data dictionary ---- *)
Definition dsame (s s' : state) : Prop := data s' = data s.
Lemma dsame_refl s : dsame s s. Proof. reflexivity. Qed.
Lemma dsame_trans a b c : dsame a b -> dsame b c -> dsame a c. Proof. unfold dsame; congruence. Qed.
Lemma ds_bind r f s : dsame s (fst r) -> (forall s1, dsame s1 (fst (f s1))) -> dsame s (fst (r >>= f)).
Proof. destruct r as [s1 [x|]]; cbn; intros H1 H2; [exact H1|]. eapply dsame_trans; [exact H1|apply H2]. Qed.
Lemma ds_guard b x s k : (forall s1, dsame s1 (fst (k s1))) -> dsame s (fst (guard b x s k)).
Proof. intro H. unfold guard. destruct b; [apply H|apply dsame_refl]. Qed.
Lemma ds_fold_ids f l : (forall s x, dsame s (f s x)) -> forall s, dsame s (fold_ids f l s).
Proof. intro H. induction l as [|x l IH]; intro s; cbn; [apply dsame_refl|]. eapply dsame_trans; [apply H|apply IH]. Qed.
Lemma ds_fold_idsR f l : (forall s x, dsame s (fst (f s x))) -> forall s, dsame s (fst (fold_idsR f l s)).
Proof. intro H. induction l as [|x l IH]; intro s; cbn; [apply dsame_refl|]. apply ds_bind; [apply H|apply IH]. Qed.
Lemma ds_fold_pairsR f l : (forall s x, dsame s (fst (f s x))) -> forall s, dsame s (fst (fold_pairsR f l s)).
Proof. intro H. induction l as [|x l IH]; intro s; cbn; [apply dsame_refl|]. apply ds_bind; [apply H|apply IH]. Qed.
Lemma ds_fold_left {A} (f : state -> A -> state) l : (forall s x, dsame s (f s x)) -> forall s, dsame s (fold_left f l s).
Proof. intro H. induction l as [|x l IH]; intro s; cbn; [apply dsame_refl|]. eapply dsame_trans; [apply H|apply IH]. Qed.

Lemma ds_drop_outer s n i : dsame s (fst (drop_outer s n i)).
Proof. unfold drop_outer. destruct (assoc i (ipins s n)) as [[w|]|]; reflexivity. Qed.
Lemma ds_rekey s n cn : dsame s (fst (rekey s n cn)).
Proof. unfold rekey. destruct cn. destruct (assoc _ _) as [[w|]|]; reflexivity. Qed.
Lemma ds_add_post s r p c : dsame s (add_post s r p c).
Proof.
  unfold add_post. destruct r; try apply dsame_refl.
  - apply ds_fold_ids. intros s0 n. apply ds_fold_ids. intros; reflexivity.
  - destruct (par s RPorts p); [|apply dsame_refl]. apply ds_fold_ids. intros; reflexivity.
Qed.
Lemma ds_remove_core s r p c : dsame s (fst (remove_core s r p c)).
Proof.
  unfold remove_core. apply ds_bind; [|intro; reflexivity].
  eapply dsame_trans with (b := emit (if ns_rel r then ns_remove_child s p c (rel_child r) else s) (ERemove r p c)).
  - destruct (ns_rel r); [|reflexivity]. unfold ns_remove_child. destruct (nstab s p); reflexivity.
  - destruct r; try apply dsame_refl.
    + apply ds_fold_idsR. intros s0 n. apply ds_fold_idsR. intros; apply ds_drop_outer.
    + destruct (par _ RPorts p); [|apply dsame_refl]. apply ds_fold_idsR. intros; apply ds_drop_outer.
Qed.
Lemma ds_op_set_reference s x v : dsame s (fst (op_set_reference s x v)).
Proof.
  unfold op_set_reference. repeat (apply ds_guard; intro). destruct v as [d'|].
  - apply ds_bind; [|intro; reflexivity].
    destruct (iref _ x).
    + apply ds_bind; [destruct (memb _ _); reflexivity|]. intro. apply ds_fold_pairsR. intros; apply ds_rekey.
    + cbn [fst ret]. eapply dsame_trans; [|apply ds_fold_ids; intros; reflexivity]. reflexivity.
  - apply ds_bind; [eapply dsame_trans; [|apply ds_fold_idsR; intros; apply ds_drop_outer]; reflexivity|].
    intro s3. apply ds_bind; [destruct (iref _ x); [destruct (memb _ _)|]; reflexivity|intro; reflexivity].
Qed.

(* the part of construct that matters above: it writes data/nstab at the new id only *)
Lemma construct_spec s k nm props :
  Fresh s ->
  let s0 := s <| next := S (next s) |> <| kind_of ::= fun f => upd f (next s) (Some k) |> in
  struct_eq s0 (fst (fst (construct s k nm props))) /\ only_at (next s) s0 (fst (fst (construct s k nm props))).
Proof.
  intro F. unfold construct, alloc. cbn zeta beta iota.
  set (x := next s).
  set (s0 := s <| next := S x |> <| kind_of ::= fun f => upd f x (Some k) |>).
  destruct (has_data k) eqn:Hd; cbn [fst]; [|split; [apply struct_eq_refl|apply only_at_refl]].
  assert (Hl0 : lonely s0 x).
  { split.
    - unfold ns_parent. cbn. rewrite upd_same. destruct k; try reflexivity; apply (f_par s F); apply Nat.le_refl.
    - unfold subtree, net_subtree, lib_subtree, def_subtree. cbn. rewrite upd_same.
      destruct k; try reflexivity; rewrite ?(f_kids s F _ x (Nat.le_refl _)); reflexivity. }
  pose proof (se_ns_create s0 x) as Hse1. pose proof (only_at_dict_set s0 x str_NS (VStr (pol_name (policy s0))) Hl0) as Ho1.
  unfold ns_create in *.
  destruct (dict_set s0 x str_NS (VStr (pol_name (policy s0)))) as [s1 [e|]]; cbn [bindR fst] in *; [split; [exact Hse1|exact Ho1]|].
  set (s2 := emit s1 (ECreate k x)).
  assert (Hse2 : struct_eq s0 s2) by (eapply struct_eq_trans; [exact Hse1|apply se_emit]).
  assert (Ho2 : only_at x s0 s2) by (eapply only_at_trans; [exact Ho1|intros y _; split; reflexivity]).
  assert (Hl2 : lonely s2 x) by (apply (lonely_struct s0 s2 x Hse2 Hl0)).
  set (mid := match nm with Some n => dict_set s2 x str_NAME (VStr n) | None => ret s2 end).
  assert (Hm : struct_eq s2 (fst mid) /\ only_at x s2 (fst mid)).
  { unfold mid. destruct nm; [split; [apply se_dict_set|apply only_at_dict_set; exact Hl2]|split; [apply struct_eq_refl|apply only_at_refl]]. }
  destruct mid as [s3 [e|]]; cbn [bindR fst] in *.
  - destruct Hm. split; [eapply struct_eq_trans; eassumption|eapply only_at_trans; eassumption].
  - destruct Hm as [Hm1 Hm2].
    assert (Hl3 : lonely s3 x) by (apply (lonely_struct s2 s3 x Hm1 Hl2)).
    split; [eapply struct_eq_trans; [exact Hse2|eapply struct_eq_trans; [exact Hm1|apply se_set_props]]|].
    eapply only_at_trans; [exact Ho2|eapply only_at_trans; [exact Hm2|apply only_at_set_props; exact Hl3]].
Qed.

Lemma freshd_construct s k nm props : Fresh s -> FreshD s -> FreshD (fst (fst (construct s k nm props))).
Proof.
  intros F D. destruct (construct_spec s k nm props F) as [Hs Ho].
  destruct (construct_frame s k nm props) as [_ [_ [_ [Hn _]]]].
  intros y Hy. rewrite Hn in Hy. destruct (Ho y) as [A _]; [lia|]. rewrite A. cbn. apply D. lia.
Qed.

Lemma freshd_same s s' : next s <= next s' -> dsame s s' -> FreshD s -> FreshD s'.
Proof. intros Hn Hd D y Hy. rewrite Hd. apply D. lia. Qed.

Lemma is_kind_lt' s x k : Fresh s -> is_kind s x k = true -> x < next s.
Proof. apply is_kind_lt. Qed.

Lemma next_op_add s r p c pos : next (fst (op_add s r p c pos)) = next s.
Proof.
  unfold op_add, guard. destruct (_ && _); [|reflexivity]. destruct (add_guard1 _ _ _ _); [|reflexivity].
  destruct (par s r c); [reflexivity|].
  pose proof (se_ns_add s p c (rel_child r)) as Hse.
  set (res := if ns_rel r then ns_add s p c (rel_child r) else ret s).
  assert (Hn : next (fst res) = next s) by (unfold res; destruct (ns_rel r); [apply (se_next _ _ Hse)|reflexivity]).
  destruct res as [s1 [e|]]; cbn [bindR fst ret] in *; [exact Hn|].
  rewrite (fw_next _ _ (fw_add_post _ r p c)). cbn. exact Hn.
Qed.

Lemma freshd_op_add s r p c pos : Fresh s -> Inv1a s -> FreshD s -> FreshD (fst (op_add s r p c pos)).
Proof.
  intros F Ha D y Hy. rewrite next_op_add in Hy.
  unfold op_add, guard.
  destruct (is_kind s p (rel_parent r) && is_kind s c (rel_child r)) eqn:Hk; [|apply D; exact Hy].
  apply andb_true_iff in Hk as [_ Hk2].
  destruct (add_guard1 _ _ _ _); [|apply D; exact Hy]. destruct (par s r c); [apply D; exact Hy|].
  assert (Hny : ~ In y (subtree s c)).
  { intro H. apply (subtree_lt s c y F Ha (is_kind_lt s c _ F Hk2)) in H. lia. }
  pose proof (ns_add_data s p c (rel_child r) y Hny) as Hd.
  set (res := if ns_rel r then ns_add s p c (rel_child r) else ret s).
  assert (Hd' : data (fst res) y = data s y) by (unfold res; destruct (ns_rel r); [exact Hd|reflexivity]).
  destruct res as [s1 [e|]]; cbn [bindR fst ret] in *; [rewrite Hd'; apply D; exact Hy|].
  rewrite (ds_add_post _ r p c). cbn. rewrite Hd'. apply D. exact Hy.
Qed.

(* ---- kinds and references survive op_add ---- *)
Lemma kf_op_add s r p c pos :
  kind_of (fst (op_add s r p c pos)) = kind_of s /\ iref (fst (op_add s r p c pos)) = iref s.
Proof.
  unfold op_add, guard. destruct (_ && _); [|split; reflexivity]. destruct (add_guard1 _ _ _ _); [|split; reflexivity].
  destruct (par s r c); [split; reflexivity|].
  pose proof (se_ns_add s p c (rel_child r)) as Hse.
  set (res := if ns_rel r then ns_add s p c (rel_child r) else ret s).
  assert (Hn : kind_of (fst res) = kind_of s /\ iref (fst res) = iref s).
  { unfold res; destruct (ns_rel r); [split; [apply (se_kind _ _ Hse)|apply (se_iref _ _ Hse)]|split; reflexivity]. }
  destruct res as [s1 [e|]]; cbn [bindR fst ret] in *; [exact Hn|].
  rewrite (fw_kind _ _ (fw_add_post _ r p c)), (fw_iref _ _ (fw_add_post _ r p c)). cbn. exact Hn.
Qed.

(* ---- calls that cannot be refused ---- *)
Lemma op_add_item_ok s r p c pos :
  ns_rel r = false -> is_kind s p (rel_parent r) = true -> is_kind s c (rel_child r) = true ->
  par s r c = None -> snd (op_add s r p c pos) = None.
Proof.
  intros Hr Hp Hc Hpar. unfold op_add, guard. rewrite Hp, Hc. cbn [andb].
  assert (Hg : add_guard1 s r p c = true) by (destruct r; try discriminate Hr; unfold add_guard1; rewrite Hpar; reflexivity).
  rewrite Hg, Hpar, Hr. reflexivity.
Qed.

Lemma create_items_ok r p : ns_rel r = false -> forall n s,
  Fresh s -> is_kind s p (rel_parent r) = true -> snd (create_items s r p n) = None.
Proof.
  intros Hr. induction n as [|n IH]; intros s F Hp; cbn [create_items]; [reflexivity|].
  unfold alloc. cbn zeta.
  set (x := next s).
  set (s0 := s <| next := S x |> <| kind_of ::= fun f => upd f x (Some (rel_child r)) |>).
  assert (Hpx : p <> x) by (pose proof (is_kind_lt s p _ F Hp); unfold x; lia).
  assert (Hp0 : is_kind s0 p (rel_parent r) = true).
  { unfold is_kind in *. cbn. unfold upd. apply Nat.eqb_neq in Hpx. rewrite Hpx. exact Hp. }
  assert (Hc0 : is_kind s0 x (rel_child r) = true).
  { unfold is_kind. cbn. rewrite upd_same. destruct (rel_child r); reflexivity. }
  assert (Hpar : par s0 r x = None) by (cbn; apply (f_par s F); apply Nat.le_refl).
  pose proof (op_add_item_ok s0 r p x None Hr Hp0 Hc0 Hpar) as Hok.
  pose proof (fresh_op_add s0 r p x None (fresh_alloc s (rel_child r) F)) as F1.
  destruct (kf_op_add s0 r p x None) as [Hk _].
  destruct (op_add s0 r p x None) as [s1 e]. cbn [snd fst] in *. subst e. cbn [bindR].
  apply IH; [exact F1|]. unfold is_kind in *. rewrite Hk. exact Hp0.
Qed.

Lemma op_set_reference_ok s x v :
  is_kind s x KInstance = true ->
  match v with Some d => is_kind s d KDefinition | None => true end = true ->
  iref s x = None -> only_stuck (op_set_reference s x v).
Proof.
  intros Hx Hv Hi. unfold op_set_reference, guard. rewrite Hx, Hv. cbn [andb]. rewrite Hi.
  replace (match v with Some _ => true | None => true end) with true by (destruct v; reflexivity).
  destruct v as [d'|].
  - apply only_stuck_bind; [|intro; exact I]. cbn [iref emit]. 
    replace (iref (emit s (EReference x (Some d'))) x) with (@None id) by (symmetry; exact Hi). exact I.
  - apply only_stuck_bind; [apply only_stuck_fold_idsR; intros; apply only_stuck_drop_outer|].
    intro s3. apply only_stuck_bind; [|intro; exact I].
    destruct (iref (set_ipins s3 x []) x); [destruct (memb _ _); cbn; [exact I|reflexivity]|exact I].
Qed.

Lemma pol_of_val_name p : pol_of_val (VStr (pol_name p)) = Some p.
Proof. destruct p; vm_compute; reflexivity. Qed.

(* Instance() with no arguments is never refused *)
Lemma construct_instance_ok s : Fresh s -> FreshD s -> snd (fst (construct s KInstance None [])) = None.
Proof.
  intros F D. unfold construct, alloc. cbn zeta beta iota. cbn [has_data fst].
  set (x := next s).
  set (s0 := s <| next := S x |> <| kind_of ::= fun f => upd f x (Some KInstance) |>).
  assert (Hd : data s0 x = []) by (cbn; apply D; apply Nat.le_refl).
  assert (Hk : kind_of s0 x = Some KInstance) by (cbn; apply upd_same).
  assert (Hp : ns_parent s0 x = None).
  { unfold ns_parent. rewrite Hk. cbn. apply (f_par s F). apply Nat.le_refl. }
  unfold ns_create, dict_set, ns_dictionary_set. rewrite str_eqb_refl, Hd. cbn [sassoc].
  rewrite Hp, pol_of_val_name.
  assert (Hc : is_compliant (policy s0) s0 x = true).
  { unfold is_compliant. rewrite Hk. unfold elem_valid, get_str. rewrite Hd. destruct (policy s0); reflexivity. }
  rewrite Hc. reflexivity.
Qed.

(* ---- deleting data entries ---- *)
Lemma old_eq_emit s ev : old_eq s (emit s ev).
Proof. apply old_eq_of_struct; [apply se_emit|intros; split; reflexivity]. Qed.

Lemma get_str_absent s e k : has_key s e k = false -> get_str s e k = None.
Proof. unfold has_key, get_str. destruct (sassoc k (data s e)); [discriminate|reflexivity]. Qed.

Lemma old_eq_ns_remove_key_absent s e k : has_key s e k = false -> old_eq s (ns_remove_key s e k).
Proof.
  intro Hk. apply old_eq_of_struct; [apply se_ns_remove_key|]. intros y _.
  unfold ns_remove_key. rewrite (get_str_absent s e k Hk).
  destruct (ns_parent s e) as [p|]; [|split; reflexivity]. destruct (kind_of s e); [|split; reflexivity].
  destruct (nstab s p) as [t|] eqn:Et; [|split; reflexivity]. cbn. split; [reflexivity|].
  unfold upd. destruct (Nat.eqb_spec y p) as [->|]; [symmetry; exact Et|reflexivity].
Qed.

Lemma data_ns_remove_key s e k : data (ns_remove_key s e k) = data s.
Proof.
  unfold ns_remove_key. destruct (ns_parent s e); [|reflexivity]. destruct (kind_of s e); [|reflexivity].
  destruct (nstab s _); reflexivity.
Qed.

Lemma data_emit s ev : data (emit s ev) = data s.
Proof. reflexivity. Qed.

Section DelPop.
  Variable mk : id -> str -> event.
  Let del (s : state) (e : id) (k : str) : R :=
    ns_dictionary_delete s e k >>= fun s1 =>
    let s2 := emit s1 (mk e k) in
    if has_key s2 e k then ret (data_erase s2 e k) else raise s2 XKey.

  Lemma del_refused_old s e k : refusal (del s e k) -> old_eq s (fst (del s e k)).
  Proof.
    unfold del, ns_dictionary_delete. destruct (str_eqb k str_NS) eqn:E.
    - apply str_eqb_spec in E. subst k.
      destruct (ns_parent s e); [intros _; apply old_eq_refl|].
      destruct (has_key s e str_NS) eqn:Hk; cbn [bindR ret].
      + unfold has_key in *. rewrite data_emit, drop_namespace_own_data.
        destruct (sassoc str_NS (data s e)); [|discriminate]. cbn. intros [x [Hx _]]. discriminate.
      + unfold has_key in *. rewrite data_emit. destruct (sassoc str_NS (data s e)); [discriminate|].
        intros _. cbn. apply old_eq_emit.
    - destruct (is_name_key k); cbn [bindR ret].
      + unfold has_key. rewrite data_emit, data_ns_remove_key.
        destruct (sassoc k (data s e)) eqn:Ek; [cbn; intros [x [Hx _]]; discriminate|].
        intros _. cbn [fst raise]. eapply old_eq_trans; [apply old_eq_ns_remove_key_absent|apply old_eq_emit].
        unfold has_key. rewrite Ek. reflexivity.
      + unfold has_key. rewrite data_emit.
        destruct (sassoc k (data s e)); [cbn; intros [x [Hx _]]; discriminate|].
        intros _. cbn. apply old_eq_emit.
  Qed.

  Lemma del_name_present_ok s e : has_key s e str_NAME = true -> snd (del s e str_NAME) = None.
  Proof.
    intro Hk. unfold del, ns_dictionary_delete.
    replace (str_eqb str_NAME str_NS) with false by (vm_compute; reflexivity).
    replace (is_name_key str_NAME) with true by (vm_compute; reflexivity).
    cbn [bindR ret]. unfold has_key in *. rewrite data_emit, data_ns_remove_key.
    destruct (sassoc str_NAME (data s e)); [reflexivity|discriminate].
  Qed.
End DelPop.

Lemma dict_del_refused_old s e k : refusal (dict_del s e k) -> old_eq s (fst (dict_del s e k)).
Proof. exact (del_refused_old EDictDel s e k). Qed.
Lemma dict_pop_refused_old s e k : refusal (dict_pop s e k) -> old_eq s (fst (dict_pop s e k)).
Proof. exact (del_refused_old EDictPop s e k). Qed.
Lemma dict_del_name_present_ok s e : has_key s e str_NAME = true -> snd (dict_del s e str_NAME) = None.
Proof. exact (del_name_present_ok EDictDel s e). Qed.

(* ---- FreshD is an invariant ---- *)
Definition dn (s s' : state) : Prop := data s' = data s /\ next s <= next s'.
Lemma dn_refl s : dn s s. Proof. split; [reflexivity|apply Nat.le_refl]. Qed.
Lemma dn_trans a b c : dn a b -> dn b c -> dn a c.
Proof. intros [A1 A2] [B1 B2]. split; [congruence|lia]. Qed.
Lemma dn_bind r f s : dn s (fst r) -> (forall s1, dn s1 (fst (f s1))) -> dn s (fst (r >>= f)).
Proof. destruct r as [s1 [x|]]; cbn; intros H1 H2; [exact H1|]. eapply dn_trans; [exact H1|apply H2]. Qed.
Lemma dn_guard b x s k : (forall s1, dn s1 (fst (k s1))) -> dn s (fst (guard b x s k)).
Proof. intro H. unfold guard. destruct b; [apply H|apply dn_refl]. Qed.
Lemma freshd_dn s s' : dn s s' -> FreshD s -> FreshD s'.
Proof. intros [A B] D. apply (freshd_same s s' B A D). Qed.

Lemma dn_remove_core s r p c : dn s (fst (remove_core s r p c)).
Proof. split; [apply ds_remove_core|rewrite next_remove_core; apply Nat.le_refl]. Qed.

Lemma dn_op_set_reference s x v : dn s (fst (op_set_reference s x v)).
Proof.
  split; [apply ds_op_set_reference|].
  destruct (fw_op_set_reference_but_iref s x v) as [_ [_ [Hn _]]]. rewrite Hn. apply Nat.le_refl.
Qed.

Lemma dn_op_add_item s r p c pos : ns_rel r = false -> dn s (fst (op_add s r p c pos)).
Proof.
  intro Hr. split; [|rewrite next_op_add; apply Nat.le_refl].
  unfold op_add. repeat (apply ds_guard; intro). rewrite Hr. cbn [bindR ret fst].
  eapply dsame_trans; [|apply ds_add_post]. reflexivity.
Qed.

Lemma dn_create_items r p : ns_rel r = false -> forall n s, dn s (fst (create_items s r p n)).
Proof.
  intro Hr. induction n as [|n IH]; intro s; cbn [create_items]; [apply dn_refl|].
  unfold alloc. cbn zeta.
  eapply dn_trans with (b := s <| next := S (next s) |> <| kind_of ::= fun f => upd f (next s) (Some (rel_child r)) |>);
    [split; [reflexivity|cbn; lia]|].
  apply dn_bind; [apply dn_op_add_item; exact Hr|apply IH].
Qed.

Lemma dn_clear_old_top s n : dn s (clear_old_top s n).
Proof. unfold clear_old_top. destruct (top s n); split; reflexivity || apply Nat.le_refl. Qed.

Lemma elem_lt s e : Fresh s -> elem_has_data s e = true -> e < next s.
Proof.
  intros F H. unfold elem_has_data in H. destruct (kind_of s e) eqn:E; [|discriminate].
  destruct (Nat.lt_ge_cases e (next s)) as [Hl|Hg]; [exact Hl|]. rewrite (f_kind s F e Hg) in E. discriminate.
Qed.

Lemma freshd_struct_data s (r : R) : struct_eq s (fst r) ->
  (forall y, next s <= y -> data (fst r) y = data s y) -> FreshD s -> FreshD (fst r).
Proof. intros Hs Hd D y Hy. rewrite (se_next _ _ Hs) in Hy. rewrite (Hd y Hy). apply D. exact Hy. Qed.

Ltac dn_triv := first [apply dn_refl | split; [reflexivity|apply Nat.le_refl]].

Theorem step_freshd s o : Fresh s -> Inv s -> FreshD s -> FreshD (fst (step s o)).
Proof.
  intros F HI D. pose proof HI as [Ha _].
  assert (Hsub : forall e y, e < next s -> next s <= y -> ~ In y (subtree s e)).
  { intros e y He Hy Hin. apply (subtree_lt s e y F Ha He) in Hin. lia. }
  destruct o; cbn [step].
  - apply freshd_construct; assumption.
  - unfold guard. destruct (_ && _) eqn:HG; [|exact D].
    apply andb_true_iff in HG as [HG _]. apply andb_true_iff in HG as [_ Hns].
    unfold create_and_add.
    pose proof (freshd_construct s (rel_child r) nm props F D) as Dc.
    pose proof (fresh_construct s (rel_child r) nm props F) as Fc.
    destruct (step_inv s (ONew (rel_child r) nm props) HI) as [[Hac _] _]. cbn [step] in Hac.
    destruct (construct s (rel_child r) nm props) as [res x]. cbn [fst] in *.
    destruct res as [s1 [e|]]; cbn [bindR fst] in *; [exact Dc|].
    pose proof (freshd_op_add s1 r p x None Fc Hac Dc) as Da.
    destruct (op_add s1 r p x None) as [s2 [e|]]; cbn [bindR fst] in *; [exact Da|].
    destruct r; try exact Da; try discriminate Hns.
    + apply (freshd_dn s2); [apply dn_create_items; reflexivity|exact Da].
    + apply (freshd_dn s2); [apply dn_create_items; reflexivity|exact Da].
    + apply (freshd_dn s2); [apply dn_op_set_reference|exact Da].
  - unfold guard. destruct (_ && _) eqn:HG; [|exact D]. apply andb_true_iff in HG as [_ Hns]. apply negb_true_iff in Hns.
    apply (freshd_dn s); [apply dn_create_items; exact Hns|exact D].
  - apply freshd_op_add; assumption.
  - apply (freshd_dn s); [|exact D]. unfold op_remove. repeat (apply dn_guard; intro).
    apply dn_bind; [apply dn_remove_core|intro; dn_triv].
  - apply (freshd_dn s); [|exact D]. unfold op_remove_from. repeat (apply dn_guard; intro).
    apply dn_bind; [|intro; dn_triv].
    split; [apply ds_fold_idsR; intros; apply ds_remove_core|rewrite next_fold_remove_core; apply Nat.le_refl].
  - apply (freshd_dn s); [|exact D]. unfold op_reorder. repeat (apply dn_guard; intro). dn_triv.
  - apply (freshd_dn s); [|exact D]. unfold op_reorder_wire. repeat (apply dn_guard; intro). dn_triv.
  - apply (freshd_dn s); [|exact D]. unfold op_connect. apply dn_guard; intro s1.
    destruct p as [i|n i|]; cbn; try dn_triv.
    + destruct (ipwire s1 i); dn_triv.
    + destruct (assoc i (ipins s1 n)) as [[w0|]|]; dn_triv.
  - apply (freshd_dn s); [|exact D]. unfold op_disconnect. repeat (apply dn_guard; intro). destruct p; dn_triv.
  - apply (freshd_dn s); [|exact D]. unfold op_disconnect_from. repeat (apply dn_guard; intro). cbn [fst ret].
    match goal with |- dn ?sx (set_wpins (fold_left ?f ?l ?sx) _ _) =>
      apply (dn_trans sx (fold_left f l sx)); [|dn_triv];
      split; [apply ds_fold_left; intros sq q; destruct q; reflexivity|];
      rewrite (fw_next _ _ (fw_fold_left f l ltac:(intros sq q; destruct q; constructor; reflexivity) sx)); apply Nat.le_refl end.
  - apply (freshd_dn s); [apply dn_op_set_reference|exact D].
  - unfold op_set_top, guard. destruct (_ && _); [|exact D].
    assert (D0 : FreshD (clear_old_top (emit s (ETop n a)) n)).
    { apply (freshd_dn s); [|exact D]. eapply dn_trans; [|apply dn_clear_old_top]. dn_triv. }
    assert (F0 : Fresh (clear_old_top (emit s (ETop n a)) n)).
    { apply (fresh_same s); try (unfold clear_old_top; destruct (top _ n); reflexivity). exact F. }
    destruct a as [x|d|]; [exact D0| |exact D0].
    pose proof (freshd_construct _ KInstance None [] F0 D0) as Dc.
    destruct (construct (clear_old_top (emit s (ETop n (TopDef d))) n) KInstance None []) as [res t]. cbn [fst] in Dc.
    destruct res as [s2 [e|]]; cbn [bindR fst] in *; [exact Dc|].
    pose proof (dn_op_set_reference s2 t (Some d)) as Hd.
    destruct (op_set_reference s2 t (Some d)) as [s3 [e|]]; cbn [bindR fst ret] in *; [apply (freshd_dn s2); assumption|].
    apply (freshd_dn s2); [|exact Dc]. eapply dn_trans; [exact Hd|].
    match goal with |- dn s3 (?a <| top ::= _ |> <| istop ::= _ |>) => apply (dn_trans s3 a); [|dn_triv] end.
    eapply dn_trans; [|apply dn_clear_old_top]. dn_triv.
  - unfold guard. destruct (elem_has_data s e) eqn:He; [|exact D].
    apply (freshd_struct_data s); [apply se_op_set_name| |exact D]. intros y Hy.
    pose proof (Hsub e y (elem_lt s e F He) Hy) as Hn.
    unfold op_set_name. destruct nm; [apply dict_set_data; exact Hn|].
    destruct (has_key s e str_NAME); [apply dict_del_data; exact Hn|reflexivity].
  - unfold guard. destruct (elem_has_data s e) eqn:He; [|exact D].
    apply (freshd_struct_data s); [apply se_op_del_name| |exact D]. intros y Hy.
    pose proof (Hsub e y (elem_lt s e F He) Hy) as Hn.
    unfold op_del_name. destruct (has_key s e str_NAME); [apply dict_del_data; exact Hn|reflexivity].
  - unfold guard. destruct (elem_has_data s e) eqn:He; [|exact D].
    apply (freshd_struct_data s); [apply se_dict_set| |exact D]. intros y Hy.
    apply dict_set_data. apply (Hsub e y (elem_lt s e F He) Hy).
  - unfold guard. destruct (elem_has_data s e) eqn:He; [|exact D].
    apply (freshd_struct_data s); [apply se_dict_del| |exact D]. intros y Hy.
    apply dict_del_data. apply (Hsub e y (elem_lt s e F He) Hy).
  - unfold guard. destruct (elem_has_data s e) eqn:He; [|exact D].
    apply (freshd_struct_data s); [apply se_dict_pop| |exact D]. intros y Hy.
    apply dict_pop_data. apply (Hsub e y (elem_lt s e F He) Hy).
  - apply (freshd_dn s); [|exact D]. apply dn_guard; intro. dn_triv.
  - apply (freshd_dn s); [|exact D]. repeat (apply dn_guard; intro). dn_triv.
  - apply (freshd_dn s); [|exact D]. apply dn_guard; intro. dn_triv.
  - apply (freshd_dn s); [|exact D]. apply dn_guard; intro. dn_triv.
  - apply (freshd_dn s); [|exact D]. dn_triv.
Qed.

(* ---- C14 at full strength ---- *)
Lemma construct_id s k nm props : snd (construct s k nm props) = next s.
Proof. unfold construct, alloc. cbn zeta beta iota. destruct (has_data k); reflexivity. Qed.

Lemma refusal_none s : ~ refusal (s, None).
Proof. intros [x [Hx _]]. discriminate. Qed.

Lemma is_kind_upd_other s x k0 y k :
  y <> x -> is_kind (s <| kind_of ::= fun f => upd f x (Some k0) |>) y k = is_kind s y k.
Proof. intro H. unfold is_kind. cbn. unfold upd. apply Nat.eqb_neq in H. rewrite H. reflexivity. Qed.

Lemma is_kind_of s s' x k : kind_of s' = kind_of s -> is_kind s' x k = is_kind s x k.
Proof. intro H. unfold is_kind. rewrite H. reflexivity. Qed.

Lemma is_kind_new s s' x k : kind_of s' = upd (kind_of s) x (Some k) -> is_kind s' x k = true.
Proof. intro H. unfold is_kind. rewrite H, upd_same. destruct k; reflexivity. Qed.

Lemma is_kind_old s s' x k0 y k : kind_of s' = upd (kind_of s) x (Some k0) -> y <> x -> is_kind s' y k = is_kind s y k.
Proof. intros H Hy. unfold is_kind. rewrite H. unfold upd. apply Nat.eqb_neq in Hy. rewrite Hy. reflexivity. Qed.

Theorem refused_old s o :
  Fresh s -> FreshD s -> Inv s -> refusal (step s o) -> old_eq s (fst (step s o)).
Proof.
  intros F D HI Hr.
  destruct (plain_op o) eqn:Hp; [rewrite (refused_changes_nothing s o Hp Hr); apply old_eq_refl|].
  destruct o; cbn [plain_op] in Hp; try discriminate Hp; cbn [step] in *.
  - (* constructor *) apply construct_old; exact F.
  - (* create-and-add *)
    revert Hr. unfold guard. destruct (_ && _) eqn:HG; [|intros; apply old_eq_refl].
    apply andb_true_iff in HG as [HG Href]. apply andb_true_iff in HG as [Hkp Hns].
    unfold create_and_add.
    pose proof (construct_old s (rel_child r) nm props F) as Ho.
    pose proof (fresh_construct s (rel_child r) nm props F) as Fc.
    pose proof (construct_id s (rel_child r) nm props) as Hx.
    destruct (construct_frame s (rel_child r) nm props) as [_ [_ [Hir [_ Hkd]]]].
    destruct (construct s (rel_child r) nm props) as [res x]. cbn [fst snd] in *. subst x.
    destruct res as [s1 [e|]]; cbn [bindR fst] in *; [intros _; exact Ho|].
    pose proof (op_add_refused s1 r p (next s) None) as Hrf.
    pose proof (fresh_op_add s1 r p (next s) None Fc) as Fa.
    destruct (kf_op_add s1 r p (next s) None) as [Hk2 Hi2].
    destruct (op_add s1 r p (next s) None) as [s2 [e|]]; cbn [bindR fst] in *.
    + intro Hr. rewrite (Hrf Hr). exact Ho.
    + assert (Hnew : is_kind s2 (next s) (rel_child r) = true).
      { rewrite (is_kind_of s1 s2 _ _ Hk2). apply (is_kind_new s s1 _ _ Hkd). }
      intro Hr. exfalso. destruct r; try discriminate Hns; cbn [rel_child] in *.
      * apply (refusal_none _ Hr).
      * apply (refusal_none _ Hr).
      * pose proof (create_items_ok RPins (next s) eq_refl items s2 Fa Hnew) as Hok.
        destruct (create_items s2 RPins (next s) items) as [s3 e]. cbn in Hok. subst e. apply (refusal_none _ Hr).
      * pose proof (create_items_ok RWires (next s) eq_refl items s2 Fa Hnew) as Hok.
        destruct (create_items s2 RWires (next s) items) as [s3 e]. cbn in Hok. subst e. apply (refusal_none _ Hr).
      * apply (refusal_not_only_stuck _ Hr). apply op_set_reference_ok; [exact Hnew| |].
        -- destruct ref as [d|]; [|reflexivity].
           rewrite (is_kind_of s1 s2 _ _ Hk2), (is_kind_old s s1 (next s) KInstance d KDefinition Hkd); [exact Href|].
           pose proof (is_kind_lt s d _ F Href). lia.
        -- rewrite Hi2, Hir. apply (f_iref s F). apply Nat.le_refl.
  - (* create_pins / create_wires *)
    revert Hr. unfold guard. destruct (_ && _) eqn:HG; [|intros; apply old_eq_refl].
    apply andb_true_iff in HG as [Hkp Hns]. apply negb_true_iff in Hns.
    intro Hr. exfalso.
    pose proof (create_items_ok r p Hns n s F Hkp) as Hok.
    destruct (create_items s r p n) as [s3 e]. cbn in Hok. subst e. apply (refusal_none _ Hr).
  - (* top_instance = definition *)
    destruct a as [x|d|]; try discriminate Hp.
    revert Hr. unfold op_set_top, guard. destruct (_ && _) eqn:HG; [|intros; apply old_eq_refl].
    apply andb_true_iff in HG as [_ Hd].
    set (s1 := clear_old_top (emit s (ETop n (TopDef d))) n).
    assert (Hsame : kids s1 = kids s /\ par s1 = par s /\ iref s1 = iref s /\ next s1 = next s /\ kind_of s1 = kind_of s /\ data s1 = data s).
    { unfold s1, clear_old_top. destruct (top _ n); repeat split; reflexivity. }
    destruct Hsame as [E1 [E2 [E3 [E4 [E5 E6]]]]].
    assert (F1 : Fresh s1) by (apply (fresh_same s); assumption).
    assert (D1 : FreshD s1) by (intros y Hy; rewrite E6; apply D; rewrite <- E4; exact Hy).
    pose proof (construct_instance_ok s1 F1 D1) as Hok.
    pose proof (fresh_construct s1 KInstance None [] F1) as Fc.
    pose proof (construct_id s1 KInstance None []) as Hx.
    destruct (construct_frame s1 KInstance None []) as [_ [_ [Hir [_ Hkd]]]].
    destruct (construct s1 KInstance None []) as [res t]. cbn [fst snd] in *. subst t.
    destruct res as [s2 e]. cbn [snd fst] in *. subst e. cbn [bindR].
    intro Hr. exfalso.
    assert (Hos : only_stuck (op_set_reference s2 (next s1) (Some d))).
    { apply op_set_reference_ok.
      - apply (is_kind_new s1 s2 _ _ Hkd).
      - rewrite (is_kind_old s1 s2 (next s1) KInstance d KDefinition Hkd); [rewrite (is_kind_of s s1 _ _ E5); exact Hd|].
        pose proof (is_kind_lt s d _ F Hd). lia.
      - rewrite Hir. apply (f_iref s1 F1). apply Nat.le_refl. }
    destruct (op_set_reference s2 (next s1) (Some d)) as [s3 [e|]]; cbn [bindR] in Hr.
    + apply (refusal_not_only_stuck _ Hr Hos).
    + apply (refusal_none _ Hr).
  - (* name = None *)
    destruct nm as [nm|]; [discriminate Hp|].
    revert Hr. unfold guard. destruct (elem_has_data s e); [|intros; apply old_eq_refl].
    unfold op_set_name. intro Hr. exfalso.
    destruct (has_key s e str_NAME) eqn:Hk; [|apply (refusal_none _ Hr)].
    pose proof (dict_del_name_present_ok s e Hk) as Hok.
    destruct (dict_del s e str_NAME) as [s3 x]. cbn in Hok. subst x. apply (refusal_none _ Hr).
  - (* del name *)
    revert Hr. unfold guard. destruct (elem_has_data s e); [|intros; apply old_eq_refl].
    unfold op_del_name. intro Hr. exfalso.
    destruct (has_key s e str_NAME) eqn:Hk; [|apply (refusal_none _ Hr)].
    pose proof (dict_del_name_present_ok s e Hk) as Hok.
    destruct (dict_del s e str_NAME) as [s3 x]. cbn in Hok. subst x. apply (refusal_none _ Hr).
  - revert Hr. unfold guard. destruct (elem_has_data s e); [|intros; apply old_eq_refl]. apply dict_del_refused_old.
  - revert Hr. unfold guard. destruct (elem_has_data s e); [|intros; apply old_eq_refl]. apply dict_pop_refused_old.
Qed.

(* every state reachable from the empty world carries the three hypotheses *)
Theorem reachable_refused_old ops o :
  let s := run ops init in
  refusal (step s o) -> old_eq s (fst (step s o)).
Proof.
  cbn zeta.
  assert (H : forall ops s, Fresh s -> FreshD s -> Inv s ->
              Fresh (run ops s) /\ FreshD (run ops s) /\ Inv (run ops s)).
  { induction ops0 as [|o0 ops0 IH]; intros s F D HI; cbn [run fold_left]; [split; [|split]; assumption|].
    apply IH; [apply step_fresh; exact F|apply step_freshd; assumption|apply (step_inv s o0 HI)]. }
  destruct (H ops init fresh_init (fun _ _ => eq_refl) inv_init) as [F [D HI]].
  apply refused_old; assumption.
Qed.
