(* C07: a clone - of any element - changes no field of any object that existed before the call
   (reference sets excepted: clones of instances are registered with the definitions they
   reference), and every containment link of the copy stays inside the copy. *)
From Coq Require Import List Arith Bool Lia.
From RecordUpdate Require Import RecordSet.
From SV Require Import Base.Base IR.State IR.NS IR.Ops Xform.Clone Proofs.AssocX Proofs.Frame Proofs.Inv1a
  Proofs.InvW Proofs.Fresh Proofs.RefusedFull Proofs.NsInv.
Import ListNotations RecordSetNotations.

Record osame (n0 : id) (s s' : state) : Prop := mkOsame {
  os_next : next s <= next s';
  os_kind : forall x, x < n0 -> kind_of s' x = kind_of s x;
  os_kids : forall r x, x < n0 -> kids s' r x = kids s r x;
  os_par : forall r x, x < n0 -> par s' r x = par s r x;
  os_wpins : forall x, x < n0 -> wpins s' x = wpins s x;
  os_ipwire : forall x, x < n0 -> ipwire s' x = ipwire s x;
  os_iref : forall x, x < n0 -> iref s' x = iref s x;
  os_ipins : forall x, x < n0 -> ipins s' x = ipins s x;
  os_top : forall x, x < n0 -> top s' x = top s x;
  os_istop : forall x, x < n0 -> istop s' x = istop s x;
  os_bdownto : forall x, x < n0 -> bdownto s' x = bdownto s x;
  os_bscalar : forall x, x < n0 -> bscalar s' x = bscalar s x;
  os_blower : forall x, x < n0 -> blower s' x = blower s x;
  os_pdir : forall x, x < n0 -> pdir s' x = pdir s x;
  os_data : forall x, x < n0 -> data s' x = data s x;
  os_nstab : forall x, x < n0 -> nstab s' x = nstab s x;
  os_policy : policy s' = policy s
}.

Lemma osame_refl n0 s : osame n0 s s.
Proof. constructor; intros; reflexivity || apply Nat.le_refl. Qed.

Lemma osame_trans n0 a b c : osame n0 a b -> osame n0 b c -> osame n0 a c.
Proof.
  intros H1 H2. destruct H1, H2.
  constructor; try lia; try congruence; intros;
    match goal with
    | |- ?f c ?r ?x = _ => transitivity (f b r x); auto
    | |- ?f c ?x = _ => transitivity (f b x); auto
    end.
Qed.

(* a write at an identifier of the copy *)
Ltac osame_write :=
  constructor; cbn; intros; try reflexivity; try apply Nat.le_refl;
  unfold upd2, upd;
  repeat match goal with
         | |- context [rel_eqb ?a ?b] => destruct (rel_eqb a b)
         | |- context [Nat.eqb ?a ?b] => destruct (Nat.eqb_spec a b); [lia|]
         end; reflexivity.

Lemma osame_set_kids n0 s r y l : n0 <= y -> osame n0 s (set_kids s r y l).
Proof. intro H. osame_write. Qed.
Lemma osame_set_par n0 s r y v : n0 <= y -> osame n0 s (set_par s r y v).
Proof. intro H. osame_write. Qed.
Lemma osame_set_wpins n0 s y v : n0 <= y -> osame n0 s (set_wpins s y v).
Proof. intro H. osame_write. Qed.
Lemma osame_set_ipwire n0 s y v : n0 <= y -> osame n0 s (set_ipwire s y v).
Proof. intro H. osame_write. Qed.
Lemma osame_set_iref n0 s y v : n0 <= y -> osame n0 s (set_iref s y v).
Proof. intro H. osame_write. Qed.
Lemma osame_set_ipins n0 s y v : n0 <= y -> osame n0 s (set_ipins s y v).
Proof. intro H. osame_write. Qed.
Lemma osame_set_data n0 s y v : n0 <= y -> osame n0 s (set_data s y v).
Proof. intro H. osame_write. Qed.
Lemma osame_set_nstab n0 s y v : n0 <= y -> osame n0 s (set_nstab s y v).
Proof. intro H. osame_write. Qed.
Lemma osame_set_drefs n0 s y v : osame n0 s (set_drefs s y v).
Proof. osame_write. Qed.
Lemma osame_emit n0 s ev : osame n0 s (emit s ev).
Proof. osame_write. Qed.
Lemma osame_copy_data n0 s a y : n0 <= y -> osame n0 s (copy_data s a y).
Proof. intro H. unfold copy_data. apply osame_set_data. exact H. Qed.
Lemma osame_copy_bundle n0 s a y : n0 <= y -> osame n0 s (copy_bundle s a y).
Proof. intro H. unfold copy_bundle. osame_write. Qed.
Lemma osame_set_top n0 s y v : n0 <= y -> osame n0 s (s <| top ::= fun f => upd f y v |>).
Proof. intro H. osame_write. Qed.
Lemma osame_set_istop n0 s y v : n0 <= y -> osame n0 s (s <| istop ::= fun f => upd f y v |>).
Proof. intro H. osame_write. Qed.

Lemma osame_fold_left {A} n0 (f : state -> A -> state) (P : A -> Prop) l :
  (forall s x, P x -> osame n0 s (f s x)) -> (forall x, In x l -> P x) -> forall s, osame n0 s (fold_left f l s).
Proof.
  intros H. induction l as [|x l IH]; intros HP s; cbn; [apply osame_refl|].
  eapply osame_trans; [apply H; apply HP; left; reflexivity|apply IH; intros y Hy; apply HP; right; exact Hy].
Qed.

Lemma osame_fold_ids n0 (f : state -> id -> state) (P : id -> Prop) l :
  (forall s x, P x -> osame n0 s (f s x)) -> (forall x, In x l -> P x) -> forall s, osame n0 s (fold_ids f l s).
Proof.
  intros H. induction l as [|x l IH]; intros HP s; cbn; [apply osame_refl|].
  eapply osame_trans; [apply H; apply HP; left; reflexivity|apply IH; intros y Hy; apply HP; right; exact Hy].
Qed.

Lemma osame_bind n0 s (r : R) f : osame n0 s (fst r) -> (forall s1, osame n0 s1 (fst (f s1))) -> osame n0 s (fst (r >>= f)).
Proof. destruct r as [s1 [x|]]; cbn; intros H1 H2; [exact H1|]. eapply osame_trans; [exact H1|apply H2]. Qed.

Lemma osame_data_write n0 s e k v : n0 <= e -> osame n0 s (data_write s e k v).
Proof. intro H. unfold data_write. apply osame_set_data. exact H. Qed.
Lemma osame_data_erase n0 s e k : n0 <= e -> osame n0 s (data_erase s e k).
Proof. intro H. unfold data_erase. apply osame_set_data. exact H. Qed.

Lemma osame_apply_namespace n0 pl s e :
  (forall y, In y (subtree s e) -> n0 <= y) -> osame n0 s (apply_namespace pl s e).
Proof.
  intro H. unfold apply_namespace. apply (osame_fold_left n0 _ (fun y => n0 <= y)); [|exact H].
  intros s0 x Hx. eapply osame_trans; [apply osame_emit|]. eapply osame_trans; [apply osame_data_write; exact Hx|].
  match goal with |- osame _ ?s1 (match ?m with _ => _ end) => destruct m end; [apply osame_set_nstab; exact Hx|apply osame_refl].
Qed.

Lemma osame_drop_namespace n0 s e :
  (forall y, In y (subtree s e) -> n0 <= y) -> osame n0 s (drop_namespace s e).
Proof.
  intro H. unfold drop_namespace. apply (osame_fold_left n0 _ (fun y => n0 <= y)); [|exact H].
  intros s0 x Hx. eapply osame_trans; [apply osame_set_nstab; exact Hx|].
  destruct (_ && _); [|apply osame_refl]. eapply osame_trans; [apply osame_emit|apply osame_data_erase; exact Hx].
Qed.

Lemma osame_dict_set_ns n0 s e v :
  (forall y, In y (subtree s e) -> n0 <= y) -> n0 <= e -> osame n0 s (fst (dict_set s e str_NS v)).
Proof.
  intros H He. unfold dict_set, ns_dictionary_set. rewrite str_eqb_refl.
  assert (W : forall s1, osame n0 s1 (data_write (emit s1 (EDictSet e str_NS v)) e str_NS v)).
  { intro s1. eapply osame_trans; [apply osame_emit|apply osame_data_write; exact He]. }
  destruct (match sassoc str_NS (data s e) with Some v0 => val_eqb v0 v | None => false end); cbn [bindR ret fst]; [apply W|].
  destruct (ns_parent s e); [apply osame_refl|]. destruct (pol_of_val v) as [pl|]; [|apply osame_refl].
  destruct (is_compliant pl s e); [|apply osame_refl]. cbn [bindR ret fst].
  eapply osame_trans; [apply osame_apply_namespace; exact H|apply W].
Qed.

Lemma osame_dict_del_ns n0 s e :
  (forall y, In y (subtree s e) -> n0 <= y) -> n0 <= e -> osame n0 s (fst (dict_del s e str_NS)).
Proof.
  intros H He. unfold dict_del, ns_dictionary_delete. rewrite str_eqb_refl.
  destruct (ns_parent s e); [apply osame_refl|].
  assert (W : forall s1, osame n0 s1 (fst (let s2 := emit s1 (EDictDel e str_NS) in if has_key s2 e str_NS then ret (data_erase s2 e str_NS) else raise s2 XKey))).
  { intro s1. cbn zeta. destruct (has_key _ e str_NS); cbn [fst ret raise]; [eapply osame_trans; [apply osame_emit|apply osame_data_erase; exact He]|apply osame_emit]. }
  destruct (has_key s e str_NS); cbn [bindR ret]; [eapply osame_trans; [apply osame_drop_namespace; exact H|apply W]|apply W].
Qed.

(* new elements have new contents *)
Definition kclosed (n0 : id) (s : state) : Prop := forall y r c, n0 <= y -> In c (kids s r y) -> n0 <= c.

Lemma subtree_new n0 s e : kclosed n0 s -> n0 <= e -> forall y, In y (subtree s e) -> n0 <= y.
Proof.
  intros K He y Hy. unfold subtree, net_subtree, lib_subtree, def_subtree in Hy.
  assert (D : forall d, n0 <= d -> forall y0, In y0 (d :: kids s RPorts d ++ kids s RCables d ++ kids s RChildren d) -> n0 <= y0).
  { intros d Hd y0 [<-|H]; [exact Hd|]. apply in_app_or in H as [H|H]; [apply (K d RPorts y0 Hd H)|].
    apply in_app_or in H as [H|H]; [apply (K d RCables y0 Hd H)|apply (K d RChildren y0 Hd H)]. }
  assert (L : forall l, n0 <= l -> forall y0, In y0 (l :: flat_map (fun d => d :: kids s RPorts d ++ kids s RCables d ++ kids s RChildren d) (kids s RDefs l)) -> n0 <= y0).
  { intros l Hl y0 [<-|H]; [exact Hl|]. apply in_flat_map in H as [d [Hd H]]. apply (D d (K l RDefs d Hl Hd) y0 H). }
  destruct (kind_of s e) as [[]|]; try (destruct Hy as [<-|[]]; exact He).
  - destruct Hy as [<-|H]; [exact He|]. apply in_flat_map in H as [l [Hl H]]. apply (L l (K e RLibs l He Hl) y H).
  - apply (L e He y Hy).
  - apply (D e He y Hy).
Qed.

(* ---- the invariant carried through a clone ---- *)
Definition nw (n0 : id) (s : state) (y : id) : Prop := n0 <= y /\ y < next s.

Record CI (n0 : id) (s0 s : state) (m : memo) : Prop := mkCI {
  ci_os : osame n0 s0 s;
  ci_n0 : n0 <= next s;
  ci_fk : forall r x, next s <= x -> kids s r x = [];
  ci_ft : forall x, next s <= x -> top s x = None;
  ci_memo : forall a b, In (a, b) m -> nw n0 s b;
  ci_kids : forall y r c, n0 <= y -> In c (kids s r y) -> nw n0 s c;
  ci_top : forall y t, n0 <= y -> top s y = Some t -> n0 <= t
}.

Lemma nw_mono n0 s s' y : next s <= next s' -> nw n0 s y -> nw n0 s' y.
Proof. intros H [A B]. split; [exact A|lia]. Qed.

Lemma ci_kclosed n0 s0 s m : CI n0 s0 s m -> kclosed n0 s.
Proof. intros C y r c Hy Hc. apply (ci_kids _ _ _ _ C y r c Hy Hc). Qed.

(* a step that writes only at identifiers of the copy and keeps containers, tops and the counter *)
Lemma ci_step n0 s0 s s' m :
  CI n0 s0 s m -> osame n0 s s' -> next s' = next s -> kids s' = kids s -> top s' = top s -> CI n0 s0 s' m.
Proof.
  intros [A B C D E F G] Ho Hn Hk Ht. unfold nw in *. constructor; rewrite ?Hn, ?Hk, ?Ht; try assumption.
  - eapply osame_trans; eassumption.
  - intros a b Hab. destruct (E a b Hab). split; [assumption|lia].
  - intros y r c Hy Hc. destruct (F y r c Hy Hc). split; [assumption|lia].
Qed.

Lemma ci_memo_add n0 s0 s m a b : CI n0 s0 s m -> nw n0 s b -> CI n0 s0 s ((a, b) :: m).
Proof.
  intros [A B C D E F G] Hb. unfold nw in *. constructor; try assumption.
  intros a0 b0 [H|H]; [injection H as <- <-; exact Hb|apply (E a0 b0 H)].
Qed.

Lemma ci_set_kids n0 s0 s m r y l :
  CI n0 s0 s m -> nw n0 s y -> (forall c, In c l -> nw n0 s c) -> CI n0 s0 (set_kids s r y l) m.
Proof.
  intros [A B C D E F G] [Hy1 Hy2] Hl. unfold nw in *. constructor; cbn; try assumption.
  - eapply osame_trans; [exact A|apply osame_set_kids; exact Hy1].
  - intros r0 x Hx. rewrite kids_upd2_ns. destruct (rel_eqb r0 r); cbn [andb]; [|apply C; exact Hx].
    destruct (Nat.eqb_spec x y) as [->|]; [lia|apply C; exact Hx].
  - intros y0 r0 c Hy0. rewrite kids_upd2_ns. destruct (rel_eqb r0 r); cbn [andb]; [|apply F; exact Hy0].
    destruct (Nat.eqb_spec y0 y) as [->|]; [apply Hl|apply F; exact Hy0].
Qed.

(* allocation of one element of the copy, with its create callback *)
Lemma struct_osame n0 s s' : struct_eq s s' -> (forall y, y < n0 -> data s' y = data s y /\ nstab s' y = nstab s y) -> osame n0 s s'.
Proof.
  intros [] Hd. constructor; intros; try congruence; try (rewrite se_next; apply Nat.le_refl); try (apply Hd; assumption).
Qed.

Lemma clone_alloc_spec n0 s0 s m k :
  CI n0 s0 s m ->
  let s1 := fst (clone_alloc s k) in let x := snd (clone_alloc s k) in
  x = next s /\ next s1 = S (next s) /\ kids s1 = kids s /\ top s1 = top s /\ CI n0 s0 s1 m.
Proof.
  intros C. unfold clone_alloc, alloc. cbn zeta.
  set (x := next s). set (sa := s <| next := S x |> <| kind_of ::= fun f => upd f x (Some k) |>).
  assert (Ca : CI n0 s0 sa m).
  { destruct C as [A B C0 D E F G]. unfold nw in *. unfold sa. constructor; cbn; try assumption.
    - eapply osame_trans; [exact A|]. constructor; cbn; intros; try reflexivity; [unfold x; lia|].
      unfold upd. destruct (Nat.eqb_spec x0 x); [unfold x in *; lia|reflexivity].
    - unfold x; lia.
    - intros r y Hy. apply C0. unfold x in *. lia.
    - intros y Hy. apply D. unfold x in *. lia.
    - intros a b Hab. destruct (E a b Hab). split; [assumption|cbn; unfold x; lia].
    - intros y r c Hy Hc. destruct (F y r c Hy Hc). split; [assumption|cbn; unfold x; lia]. }
  destruct (has_data k); cbn [fst snd]; [|split; [reflexivity|split; [reflexivity|split; [reflexivity|split; [reflexivity|exact Ca]]]]].
  pose proof (se_ns_create sa x) as Hse.
  assert (Hsub : forall y, In y (subtree sa x) -> n0 <= y).
  { apply (subtree_new n0 sa x (ci_kclosed _ _ _ _ Ca)). apply (ci_n0 _ _ _ _ C). }
  assert (Ho : osame n0 sa (emit (fst (ns_create sa x)) (ECreate k x))).
  { eapply osame_trans; [apply osame_dict_set_ns; [exact Hsub|apply (ci_n0 _ _ _ _ C)]|apply osame_emit]. }
  split; [reflexivity|]. split; [cbn; rewrite (se_next _ _ Hse); reflexivity|].
  split; [cbn; rewrite (se_kids _ _ Hse); reflexivity|]. split; [cbn; rewrite (se_top _ _ Hse); reflexivity|].
  apply (ci_step n0 s0 sa _ m Ca Ho); cbn; [apply (se_next _ _ Hse)|apply (se_kids _ _ Hse)|apply (se_top _ _ Hse)].
Qed.

(* ---- phase 1: the copies are built ---- *)
Lemma clone_alloc_specE n0 s0 s m k s1 x :
  CI n0 s0 s m -> clone_alloc s k = (s1, x) ->
  x = next s /\ next s1 = S (next s) /\ kids s1 = kids s /\ top s1 = top s /\ CI n0 s0 s1 m /\ nw n0 s1 x.
Proof.
  intros C E. pose proof (clone_alloc_spec n0 s0 s m k C) as H. cbn zeta in H. rewrite E in H. cbn [fst snd] in H.
  destruct H as [A [B [D [F G]]]]. repeat (split; [assumption|]). subst x. split; [apply (ci_n0 _ _ _ _ C)|lia].
Qed.

Definition Spec1 (n0 : id) (s0 : state) (f : SM -> id -> SM * id) : Prop :=
  forall s m x s' m' x', CI n0 s0 s m -> f (s, m) x = ((s', m'), x') ->
    CI n0 s0 s' m' /\ nw n0 s' x' /\ next s <= next s'.

Lemma clone_each_spec n0 s0 f : Spec1 n0 s0 f -> forall l s m s' m' l', CI n0 s0 s m ->
  clone_each f l (s, m) = ((s', m'), l') ->
  CI n0 s0 s' m' /\ (forall c, In c l' -> nw n0 s' c) /\ next s <= next s'.
Proof.
  intros Hf. induction l as [|x l IH]; intros s m s' m' l' C E; cbn [clone_each] in E.
  - injection E as <- <- <-. split; [exact C|split; [intros c []|apply Nat.le_refl]].
  - destruct (f (s, m) x) as [[s1 m1] x'] eqn:E1. destruct (Hf s m x s1 m1 x' C E1) as [C1 [N1 L1]].
    destruct (clone_each f l (s1, m1)) as [[s2 m2] l2] eqn:E2. destruct (IH s1 m1 s2 m2 l2 C1 E2) as [C2 [N2 L2]].
    injection E as <- <- <-. split; [exact C2|split; [|lia]].
    intros c [<-|Hc]; [apply (nw_mono n0 s1 s2 x' L2 N1)|apply N2; exact Hc].
Qed.

Lemma pin_clone1_spec n0 s0 : Spec1 n0 s0 pin_clone1.
Proof.
  intros s m i s' m' i' C E. unfold pin_clone1 in E. destruct (clone_alloc s KPin) as [s1 x] eqn:Ea.
  destruct (clone_alloc_specE n0 s0 s m KPin s1 x C Ea) as [Hx [Hn [Hk [Ht [C1 Nx]]]]].
  injection E as <- <- <-. split; [|split; [exact Nx|cbn; lia]].
  apply ci_memo_add; [|exact Nx].
  apply (ci_step n0 s0 s1 _ m C1); [apply osame_set_ipwire; apply Nx|reflexivity|reflexivity|reflexivity].
Qed.

Lemma wire_clone1_spec n0 s0 : Spec1 n0 s0 wire_clone1.
Proof.
  intros s m i s' m' i' C E. unfold wire_clone1 in E. destruct (clone_alloc s KWire) as [s1 x] eqn:Ea.
  destruct (clone_alloc_specE n0 s0 s m KWire s1 x C Ea) as [Hx [Hn [Hk [Ht [C1 Nx]]]]].
  injection E as <- <- <-. split; [|split; [exact Nx|cbn; lia]].
  apply ci_memo_add; [|exact Nx].
  apply (ci_step n0 s0 s1 _ m C1); [apply osame_set_wpins; apply Nx|reflexivity|reflexivity|reflexivity].
Qed.

Lemma inst_clone1_spec n0 s0 : Spec1 n0 s0 inst_clone1.
Proof.
  intros s m i s' m' i' C E. unfold inst_clone1 in E. destruct (clone_alloc s KInstance) as [s1 x] eqn:Ea.
  destruct (clone_alloc_specE n0 s0 s m KInstance s1 x C Ea) as [Hx [Hn [Hk [Ht [C1 Nx]]]]].
  injection E as <- <- <-. split; [|split; [exact Nx|cbn; lia]].
  apply ci_memo_add; [|exact Nx].
  apply (ci_step n0 s0 s1 _ m C1); [|reflexivity|reflexivity|reflexivity].
  eapply osame_trans; [apply osame_set_ipins; apply Nx|]. eapply osame_trans; [apply osame_set_iref; apply Nx|apply osame_copy_data; apply Nx].
Qed.

(* the new children get their parent pointer *)
Lemma ci_fold_set_par n0 s0 m r p' : forall l s, CI n0 s0 s m -> (forall c, In c l -> nw n0 s c) ->
  CI n0 s0 (fold_ids (fun s i' => set_par s r i' (Some p')) l s) m /\
  next (fold_ids (fun s i' => set_par s r i' (Some p')) l s) = next s /\
  kids (fold_ids (fun s i' => set_par s r i' (Some p')) l s) = kids s /\
  top (fold_ids (fun s i' => set_par s r i' (Some p')) l s) = top s.
Proof.
  induction l as [|c l IH]; intros s C Hl; cbn [fold_ids]; [split; [exact C|split; [reflexivity|split; reflexivity]]|].
  assert (C1 : CI n0 s0 (set_par s r c (Some p')) m).
  { apply (ci_step n0 s0 s _ m C); [apply osame_set_par; apply (Hl c); left; reflexivity|reflexivity|reflexivity|reflexivity]. }
  destruct (IH _ C1) as [A [B [D T]]]; [intros c0 Hc0; apply Hl; right; exact Hc0|].
  split; [exact A|split; [rewrite B; reflexivity|split; [rewrite D; reflexivity|rewrite T; reflexivity]]].
Qed.

Lemma port_clone1_spec n0 s0 : Spec1 n0 s0 port_clone1.
Proof.
  intros s m p s' m' p' C E. unfold port_clone1 in E. destruct (clone_alloc s KPort) as [s1 x] eqn:Ea.
  destruct (clone_alloc_specE n0 s0 s m KPort s1 x C Ea) as [Hx [Hn [Hk [Ht [C1 Nx]]]]].
  destruct (clone_each pin_clone1 (kids s1 RPins p) (s1, (p, x) :: m)) as [[s2 m2] items] eqn:Ee.
  destruct (clone_each_spec n0 s0 pin_clone1 (pin_clone1_spec n0 s0) _ _ _ _ _ _ (ci_memo_add n0 s0 s1 m p x C1 Nx) Ee) as [C2 [N2 L2]].
  pose proof (nw_mono n0 s1 s2 x L2 Nx) as Nx2.
  pose proof (ci_set_kids n0 s0 s2 m2 RPins x items C2 Nx2 N2) as C3.
  destruct (ci_fold_set_par n0 s0 m2 RPins x items _ C3) as [C4 [Hn4 [Hk4 Ht4]]]; [intros c Hc; apply N2; exact Hc|].
  injection E as <- <- <-. split; [|split; [split; [apply Nx|cbn; rewrite Hn4; cbn; apply Nx2]|cbn; rewrite Hn4; cbn; lia]].
  apply (ci_step n0 s0 _ _ m2 C4); [|reflexivity|reflexivity|reflexivity].
  eapply osame_trans; [apply osame_copy_bundle; apply Nx|apply osame_copy_data; apply Nx].
Qed.

Lemma cable_clone1_spec n0 s0 : Spec1 n0 s0 cable_clone1.
Proof.
  intros s m p s' m' p' C E. unfold cable_clone1 in E. destruct (clone_alloc s KCable) as [s1 x] eqn:Ea.
  destruct (clone_alloc_specE n0 s0 s m KCable s1 x C Ea) as [Hx [Hn [Hk [Ht [C1 Nx]]]]].
  destruct (clone_each wire_clone1 (kids s1 RWires p) (s1, (p, x) :: m)) as [[s2 m2] items] eqn:Ee.
  destruct (clone_each_spec n0 s0 wire_clone1 (wire_clone1_spec n0 s0) _ _ _ _ _ _ (ci_memo_add n0 s0 s1 m p x C1 Nx) Ee) as [C2 [N2 L2]].
  pose proof (nw_mono n0 s1 s2 x L2 Nx) as Nx2.
  pose proof (ci_set_kids n0 s0 s2 m2 RWires x items C2 Nx2 N2) as C3.
  destruct (ci_fold_set_par n0 s0 m2 RWires x items _ C3) as [C4 [Hn4 [Hk4 Ht4]]]; [intros c Hc; apply N2; exact Hc|].
  injection E as <- <- <-. split; [|split; [split; [apply Nx|cbn; rewrite Hn4; cbn; apply Nx2]|cbn; rewrite Hn4; cbn; lia]].
  apply (ci_step n0 s0 _ _ m2 C4); [|reflexivity|reflexivity|reflexivity].
  eapply osame_trans; [apply osame_copy_bundle; apply Nx|apply osame_copy_data; apply Nx].
Qed.

(* ---- phase 2: pointers of the copies are redirected into the copy ---- *)
Lemma ci_bind n0 s0 m (r : R) f : CI n0 s0 (fst r) m -> (forall s1, CI n0 s0 s1 m -> CI n0 s0 (fst (f s1)) m) -> CI n0 s0 (fst (r >>= f)) m.
Proof. destruct r as [s1 [x|]]; cbn; intros H1 H2; [exact H1|apply H2; exact H1]. Qed.

Lemma ci_fold_idsR n0 s0 m f l :
  (forall s x, CI n0 s0 s m -> n0 <= x -> CI n0 s0 (fst (f s x)) m) -> (forall x, In x l -> n0 <= x) ->
  forall s, CI n0 s0 s m -> CI n0 s0 (fst (fold_idsR f l s)) m.
Proof.
  intro H. induction l as [|x l IH]; intros Hl s C; cbn [fold_idsR]; [exact C|].
  apply ci_bind; [apply H; [exact C|apply Hl; left; reflexivity]|]. intros s1 C1. apply IH; [intros y Hy; apply Hl; right; exact Hy|exact C1].
Qed.

Lemma ci_write n0 s0 s s' m : CI n0 s0 s m -> osame n0 s s' -> next s' = next s -> kids s' = kids s -> top s' = top s -> CI n0 s0 s' m.
Proof. apply ci_step. Qed.

Lemma kids_new n0 s0 s m r y : CI n0 s0 s m -> n0 <= y -> forall c, In c (kids s r y) -> n0 <= c.
Proof. intros C Hy c Hc. apply (ci_kids _ _ _ _ C y r c Hy Hc). Qed.

Lemma port_rr_ci n0 s0 m0 m s p' : CI n0 s0 s m0 -> n0 <= p' -> CI n0 s0 (fst (port_rr m s p')) m0.
Proof.
  intros C Hp. unfold port_rr. apply ci_fold_idsR; [|apply (kids_new n0 s0 s m0 RPins p' C Hp)|exact C].
  intros s1 i' C1 Hi. destruct (mwire m (ipwire s1 i')); cbn [fst ret raise]; [|exact C1].
  apply (ci_write n0 s0 s1 _ m0 C1); [apply osame_set_ipwire; exact Hi|reflexivity|reflexivity|reflexivity].
Qed.

Lemma cable_rr_ci n0 s0 m0 m s c' : CI n0 s0 s m0 -> n0 <= c' -> CI n0 s0 (fst (cable_rr m s c')) m0.
Proof.
  intros C Hp. unfold cable_rr. apply ci_fold_idsR; [|apply (kids_new n0 s0 s m0 RWires c' C Hp)|exact C].
  intros s1 w' C1 Hw. destruct (map_opt (mpin s1 m) (wpins s1 w')); cbn [fst ret raise]; [|exact C1].
  apply (ci_write n0 s0 s1 _ m0 C1); [apply osame_set_wpins; exact Hw|reflexivity|reflexivity|reflexivity].
Qed.

Lemma inst_rr_def_ci n0 s0 m0 m s x' : CI n0 s0 s m0 -> n0 <= x' -> CI n0 s0 (fst (inst_rr_def m s x')) m0.
Proof.
  intros C Hx. unfold inst_rr_def. destruct (map_opt _ (ipins s x')); cbn [fst ret raise]; [|exact C].
  apply (ci_write n0 s0 s _ m0 C); [apply osame_set_ipins; exact Hx|reflexivity|reflexivity|reflexivity].
Qed.

Lemma ci_set_par n0 s0 s m r y v : CI n0 s0 s m -> n0 <= y -> CI n0 s0 (set_par s r y v) m.
Proof. intros C Hy. apply (ci_write n0 s0 s _ m C); [apply osame_set_par; exact Hy|reflexivity|reflexivity|reflexivity]. Qed.

Lemma ci_set_drefs n0 s0 s m y v : CI n0 s0 s m -> CI n0 s0 (set_drefs s y v) m.
Proof. intros C. apply (ci_write n0 s0 s _ m C); [apply osame_set_drefs|reflexivity|reflexivity|reflexivity]. Qed.

Lemma ci_copy_data n0 s0 s m a y : CI n0 s0 s m -> n0 <= y -> CI n0 s0 (copy_data s a y) m.
Proof. intros C Hy. apply (ci_write n0 s0 s _ m C); [apply osame_copy_data; exact Hy|reflexivity|reflexivity|reflexivity]. Qed.

Lemma def_clone1_spec n0 s0 s m d s' m' d' e :
  CI n0 s0 s m -> def_clone1 (s, m) d = ((s', m', d'), e) ->
  CI n0 s0 s' m' /\ nw n0 s' d' /\ next s <= next s'.
Proof.
  intros C E. unfold def_clone1 in E. destruct (clone_alloc s KDefinition) as [s1 x] eqn:Ea.
  destruct (clone_alloc_specE n0 s0 s m KDefinition s1 x C Ea) as [Hx [Hn [Hk [Ht [C1 Nx]]]]].
  pose proof (ci_memo_add n0 s0 _ m d x (ci_copy_data n0 s0 s1 m d x C1 (proj1 Nx)) Nx) as C1'.
  destruct (clone_each port_clone1 (kids (copy_data s1 d x) RPorts d) (copy_data s1 d x, (d, x) :: m)) as [[s2 m2] ports'] eqn:E2.
  destruct (clone_each_spec n0 s0 port_clone1 (port_clone1_spec n0 s0) _ _ _ _ _ _ C1' E2) as [C2 [N2 L2]].
  destruct (clone_each cable_clone1 (kids s2 RCables d) (s2, m2)) as [[s3 m3] cables'] eqn:E3.
  destruct (clone_each_spec n0 s0 cable_clone1 (cable_clone1_spec n0 s0) _ _ _ _ _ _ C2 E3) as [C3 [N3 L3]].
  destruct (clone_each inst_clone1 (kids s3 RChildren d) (s3, m3)) as [[s4 m4] children'] eqn:E4.
  destruct (clone_each_spec n0 s0 inst_clone1 (inst_clone1_spec n0 s0) _ _ _ _ _ _ C3 E4) as [C4 [N4 L4]].
  cbn [next copy_data set_data] in L2.
  assert (Nx4 : nw n0 s4 x) by (apply (nw_mono n0 s1 s4 x); [cbn in L2; lia|exact Nx]).
  assert (N2' : forall c, In c ports' -> nw n0 s4 c) by (intros c Hc; apply (nw_mono n0 s2 s4 c); [lia|apply N2; exact Hc]).
  assert (N3' : forall c, In c cables' -> nw n0 s4 c) by (intros c Hc; apply (nw_mono n0 s3 s4 c); [lia|apply N3; exact Hc]).
  set (s5 := set_drefs (set_kids (set_kids (set_kids s4 RPorts x ports') RCables x cables') RChildren x children') x (drefs s4 d)) in *.
  assert (C5 : CI n0 s0 s5 m4).
  { unfold s5. apply ci_set_drefs. apply ci_set_kids; [apply ci_set_kids; [apply ci_set_kids; [exact C4|exact Nx4|exact N2']|exact Nx4|exact N3']|exact Nx4|exact N4]. }
  assert (Hn5 : next s5 = next s4) by reflexivity.
  set (rr := fold_idsR (fun s p' => port_rr m4 (set_par s RPorts p' (Some x)) p') ports' s5 >>= fun s6 =>
             fold_idsR (fun s c' => cable_rr m4 (set_par s RCables c' (Some x)) c') cables' s6 >>= fun s7 =>
             fold_idsR (fun s x' => inst_rr_def m4 (set_par s RChildren x' (Some x)) x') children' s7) in E.
  assert (CR : CI n0 s0 (fst rr) m4 /\ next (fst rr) = next s5).
  { assert (G : forall (g : state -> id -> R) l sa,
               (forall sb y, CI n0 s0 sb m4 -> n0 <= y -> CI n0 s0 (fst (g sb y)) m4 /\ next (fst (g sb y)) = next sb) ->
               (forall y, In y l -> n0 <= y) -> CI n0 s0 sa m4 ->
               CI n0 s0 (fst (fold_idsR g l sa)) m4 /\ next (fst (fold_idsR g l sa)) = next sa).
    { intros g l. induction l as [|y l IH]; intros sa Hg Hl Cs; cbn [fold_idsR]; [split; [exact Cs|reflexivity]|].
      destruct (Hg sa y Cs (Hl y (or_introl eq_refl))) as [A B].
      destruct (g sa y) as [sb [ex|]]; cbn [bindR fst] in *; [split; assumption|].
      destruct (IH sb Hg (fun y0 Hy0 => Hl y0 (or_intror Hy0)) A) as [A' B']. split; [exact A'|congruence]. }
    assert (Hnext_rr : forall mm sb y, next (fst (port_rr mm sb y)) = next sb /\ next (fst (cable_rr mm sb y)) = next sb /\ next (fst (inst_rr_def mm sb y)) = next sb).
    { intros mm sb y. assert (F : forall (g : state -> id -> R) l sc, (forall sd z, next (fst (g sd z)) = next sd) -> next (fst (fold_idsR g l sc)) = next sc).
      { intros g l. induction l as [|z l IHl]; intros sc Hg; cbn [fold_idsR]; [reflexivity|].
        pose proof (Hg sc z) as B. destruct (g sc z) as [s4' [ex|]]; cbn [bindR fst] in *; [exact B|]. rewrite IHl by exact Hg. exact B. }
      split; [|split].
      - unfold port_rr. apply F. intros s4' z. destruct (mwire mm (ipwire s4' z)); reflexivity.
      - unfold cable_rr. apply F. intros s4' z. destruct (map_opt _ _); reflexivity.
      - unfold inst_rr_def. destruct (map_opt _ _); reflexivity. }
    unfold rr.
    destruct (G (fun s p' => port_rr m4 (set_par s RPorts p' (Some x)) p') ports' s5) as [A1 B1].
    { intros sb y Cs Hy. split; [apply port_rr_ci; [apply ci_set_par; assumption|exact Hy]|rewrite (proj1 (Hnext_rr m4 _ y)); reflexivity]. }
    { intros y Hy. apply (N2' y Hy). }
    { exact C5. }
    destruct (fold_idsR (fun s p' => port_rr m4 (set_par s RPorts p' (Some x)) p') ports' s5) as [s6 [ex|]]; cbn [bindR fst] in *; [split; assumption|].
    destruct (G (fun s c' => cable_rr m4 (set_par s RCables c' (Some x)) c') cables' s6) as [A2 B2].
    { intros sb y Cs Hy. split; [apply cable_rr_ci; [apply ci_set_par; assumption|exact Hy]|rewrite (proj1 (proj2 (Hnext_rr m4 _ y))); reflexivity]. }
    { intros y Hy. apply (N3' y Hy). }
    { exact A1. }
    destruct (fold_idsR (fun s c' => cable_rr m4 (set_par s RCables c' (Some x)) c') cables' s6) as [s7 [ex|]]; cbn [bindR fst] in *; [split; [assumption|congruence]|].
    destruct (G (fun s x' => inst_rr_def m4 (set_par s RChildren x' (Some x)) x') children' s7) as [A3 B3].
    { intros sb y Cs Hy. split; [apply inst_rr_def_ci; [apply ci_set_par; assumption|exact Hy]|rewrite (proj2 (proj2 (Hnext_rr m4 _ y))); reflexivity]. }
    { intros y Hy. apply (N4 y Hy). }
    { exact A2. }
    split; [exact A3|congruence]. }
  destruct CR as [CR HnR]. injection E as <- <- <- <-.
  split; [exact CR|]. split; [split; [apply Nx|rewrite HnR, Hn5; apply Nx4]|rewrite HnR, Hn5; cbn in L2; lia].
Qed.

(* ---- re-keying outer pins of a copied instance ---- *)
(* wires that existed before the call list no pin of an instance allocated by the call *)
Definition WOld (n0 : id) (s0 : state) : Prop :=
  forall w n i, w < n0 -> In (POut n i) (wpins s0 w) -> n < n0.

Lemma map_rename_notin_local a b l : ~ In a l -> map (rename_pin a b) l = l.
Proof.
  induction l as [|q l IH]; cbn; [reflexivity|]. intro H. rewrite IH by tauto. f_equal.
  unfold rename_pin. destruct (pin_eqb q a) eqn:E; [apply pin_eqb_spec in E; subst; tauto|reflexivity].
Qed.

Lemma osame_wpins_same n0 s w l : (w < n0 -> l = wpins s w) -> osame n0 s (set_wpins s w l).
Proof.
  intro H. constructor; cbn; intros; try reflexivity; try apply Nat.le_refl.
  unfold upd. destruct (Nat.eqb_spec x w) as [->|]; [apply H; assumption|reflexivity].
Qed.

Lemma rekey_ci n0 s0 m0 s x' cn :
  WOld n0 s0 -> CI n0 s0 s m0 -> n0 <= x' -> CI n0 s0 (fst (rekey s x' cn)) m0.
Proof.
  intros HW C Hx. unfold rekey. destruct cn as [cur new]. destruct (assoc cur (ipins s x')) as [ow|]; cbn [fst ret raise]; [|exact C].
  set (s1 := set_ipins s x' (assoc_set new ow (assoc_del cur (ipins s x')))).
  assert (C1 : CI n0 s0 s1 m0) by (apply (ci_write n0 s0 s _ m0 C); [apply osame_set_ipins; exact Hx|reflexivity|reflexivity|reflexivity]).
  destruct ow as [w|]; [|exact C1].
  apply (ci_write n0 s0 s1 _ m0 C1); [|reflexivity|reflexivity|reflexivity].
  apply osame_wpins_same. intro Hw. apply map_rename_notin_local.
  intro Hin. cbn in Hin. rewrite (os_wpins _ _ _ (ci_os _ _ _ _ C) w Hw) in Hin.
  pose proof (HW w x' cur Hw Hin). lia.
Qed.

Lemma ci_fold_pairsR n0 s0 m f l :
  (forall s x, CI n0 s0 s m -> CI n0 s0 (fst (f s x)) m) ->
  forall s, CI n0 s0 s m -> CI n0 s0 (fst (fold_pairsR f l s)) m.
Proof.
  intro H. induction l as [|x l IH]; intros s C; cbn [fold_pairsR]; [exact C|].
  apply ci_bind; [apply H; exact C|exact IH].
Qed.

Lemma rekey_all_ci n0 s0 m0 m s x' : WOld n0 s0 -> CI n0 s0 s m0 -> n0 <= x' -> CI n0 s0 (fst (rekey_all m s x')) m0.
Proof.
  intros HW C Hx. unfold rekey_all. apply ci_fold_pairsR; [|exact C].
  intros s1 kv C1. destruct (mget m (fst kv)); [apply rekey_ci; assumption|exact C1].
Qed.

Lemma ci_set_iref n0 s0 s m y v : CI n0 s0 s m -> n0 <= y -> CI n0 s0 (set_iref s y v) m.
Proof. intros C Hy. apply (ci_write n0 s0 s _ m C); [apply osame_set_iref; exact Hy|reflexivity|reflexivity|reflexivity]. Qed.

Lemma def_rr_ci n0 s0 m0 m s d' : WOld n0 s0 -> CI n0 s0 s m0 -> n0 <= d' -> CI n0 s0 (fst (def_rr m s d')) m0.
Proof.
  intros HW C Hd. unfold def_rr.
  set (s1 := set_drefs s d' _).
  assert (C1 : CI n0 s0 s1 m0) by (apply ci_set_drefs; exact C).
  apply ci_fold_idsR; [|apply (kids_new n0 s0 s1 m0 RChildren d' C1 Hd)|exact C1].
  intros s2 x' C2 Hx. destruct (iref s2 x') as [e|]; [|exact C2].
  destruct (mget m e) as [e'|]; [|exact C2]. apply rekey_all_ci; [exact HW|apply ci_set_iref; assumption|exact Hx].
Qed.

Lemma register_child_ci n0 s0 m s x' : CI n0 s0 s m -> CI n0 s0 (fst (register_child s x')) m.
Proof. intro C. unfold register_child. destruct (iref s x'); cbn [fst ret raise]; [apply ci_set_drefs; exact C|exact C]. Qed.

Lemma reapply_ci n0 s0 m s c : CI n0 s0 s m -> n0 <= c -> CI n0 s0 (fst (reapply s c)) m.
Proof.
  intros C Hc. unfold reapply. destruct (sassoc str_NS (data s c)) as [v|]; [|exact C].
  assert (D : forall s1 (r : R), CI n0 s0 s1 m -> struct_eq s1 (fst r) -> osame n0 s1 (fst r) -> CI n0 s0 (fst r) m).
  { intros s1 r C1 Hse Ho. apply (ci_write n0 s0 s1 _ m C1 Ho); [apply (se_next _ _ Hse)|apply (se_kids _ _ Hse)|apply (se_top _ _ Hse)]. }
  apply ci_bind.
  - apply (D s); [exact C|apply se_dict_del|apply osame_dict_del_ns; [apply (subtree_new n0 s c (ci_kclosed _ _ _ _ C) Hc)|exact Hc]].
  - intros s1 C1. apply (D s1); [exact C1|apply se_dict_set|apply osame_dict_set_ns; [apply (subtree_new n0 s1 c (ci_kclosed _ _ _ _ C1) Hc)|exact Hc]].
Qed.

(* the counter does not move in phase 2 *)
Lemma nx_bind (r : R) f s : next (fst r) = next s -> (forall s1, next (fst (f s1)) = next s1) -> next (fst (r >>= f)) = next s.
Proof. destruct r as [s1 [x|]]; cbn; intros H1 H2; [exact H1|]. rewrite H2. exact H1. Qed.
Lemma nx_fold_idsR f l : (forall s x, next (fst (f s x)) = next s) -> forall s, next (fst (fold_idsR f l s)) = next s.
Proof. intro H. induction l as [|x l IH]; intro s; cbn [fold_idsR]; [reflexivity|]. apply nx_bind; [apply H|apply IH]. Qed.
Lemma nx_fold_pairsR f l : (forall s x, next (fst (f s x)) = next s) -> forall s, next (fst (fold_pairsR f l s)) = next s.
Proof. intro H. induction l as [|x l IH]; intro s; cbn [fold_pairsR]; [reflexivity|]. apply nx_bind; [apply H|apply IH]. Qed.
Lemma nx_rekey s x cn : next (fst (rekey s x cn)) = next s.
Proof. unfold rekey. destruct cn. destruct (assoc _ _) as [[w|]|]; reflexivity. Qed.
Lemma nx_rekey_all m s x : next (fst (rekey_all m s x)) = next s.
Proof. unfold rekey_all. apply nx_fold_pairsR. intros s1 kv. destruct (mget m (fst kv)); [apply nx_rekey|reflexivity]. Qed.
Lemma nx_def_rr m s d : next (fst (def_rr m s d)) = next s.
Proof.
  unfold def_rr. rewrite nx_fold_idsR; [reflexivity|]. intros s1 x. destruct (iref s1 x) as [e|]; [|reflexivity].
  destruct (mget m e); [rewrite nx_rekey_all; reflexivity|reflexivity].
Qed.
Lemma nx_register_child s x : next (fst (register_child s x)) = next s.
Proof. unfold register_child. destruct (iref s x); reflexivity. Qed.
Lemma nx_reapply s c : next (fst (reapply s c)) = next s.
Proof.
  unfold reapply. destruct (sassoc str_NS (data s c)); [|reflexivity].
  apply nx_bind; [apply (se_next _ _ (se_dict_del s c str_NS))|intro s1; apply (se_next _ _ (se_dict_set s1 c str_NS v))].
Qed.

(* ---- libraries ---- *)
Lemma defs_clone1_spec n0 s0 : forall l s m s' m' l' e, CI n0 s0 s m ->
  defs_clone1 l (s, m) = ((s', m'), l', e) ->
  CI n0 s0 s' m' /\ (forall c, In c l' -> nw n0 s' c) /\ next s <= next s'.
Proof.
  induction l as [|d l IH]; intros s m s' m' l' e C E; cbn [defs_clone1] in E.
  - injection E as <- <- <- <-. split; [exact C|split; [intros c []|apply Nat.le_refl]].
  - destruct (def_clone1 (s, m) d) as [[[s1 m1] d'] e1] eqn:E1.
    destruct (def_clone1_spec n0 s0 s m d s1 m1 d' e1 C E1) as [C1 [N1 L1]].
    destruct e1 as [x|].
    + injection E as <- <- <- <-. split; [exact C1|split; [|exact L1]]. intros c [<-|[]]. exact N1.
    + destruct (defs_clone1 l (s1, m1)) as [[[s2 m2] r] e2] eqn:E2.
      destruct (IH s1 m1 s2 m2 r e2 C1 E2) as [C2 [N2 L2]].
      injection E as <- <- <- <-. split; [exact C2|split; [|lia]].
      intros c [<-|Hc]; [apply (nw_mono n0 s1 s2 d' L2 N1)|apply N2; exact Hc].
Qed.

Lemma lib_clone1_spec n0 s0 s m l s' m' l' e :
  WOld n0 s0 -> CI n0 s0 s m -> lib_clone1 (s, m) l = ((s', m', l'), e) ->
  CI n0 s0 s' m' /\ nw n0 s' l' /\ next s <= next s'.
Proof.
  intros HW C E. unfold lib_clone1 in E. destruct (clone_alloc s KLibrary) as [s1 x] eqn:Ea.
  destruct (clone_alloc_specE n0 s0 s m KLibrary s1 x C Ea) as [Hx [Hn [Hk [Ht [C1 Nx]]]]].
  pose proof (ci_memo_add n0 s0 _ m l x (ci_copy_data n0 s0 s1 m l x C1 (proj1 Nx)) Nx) as C1'.
  destruct (defs_clone1 (kids (copy_data s1 l x) RDefs l) (copy_data s1 l x, (l, x) :: m)) as [[[s2 m2] defs'] e2] eqn:E2.
  destruct (defs_clone1_spec n0 s0 _ _ _ _ _ _ _ C1' E2) as [C2 [N2 L2]].
  cbn [next copy_data set_data] in L2.
  assert (Nx2 : nw n0 s2 x) by (apply (nw_mono n0 s1 s2 x); [cbn in L2; lia|exact Nx]).
  destruct e2 as [ex|].
  - injection E as <- <- <- <-. split; [exact C2|split; [exact Nx2|cbn in L2; lia]].
  - set (s3 := set_kids s2 RDefs x defs') in *.
    assert (C3 : CI n0 s0 s3 m2) by (apply ci_set_kids; assumption).
    assert (G : forall ds sa, (forall y, In y ds -> n0 <= y) -> CI n0 s0 sa m2 ->
                CI n0 s0 (fst (fold_idsR (fun s d' => def_rr m2 (set_par s RDefs d' (Some x)) d') ds sa)) m2).
    { intros ds sa Hds Ca. apply ci_fold_idsR; [|exact Hds|exact Ca].
      intros sb y Cb Hy. apply def_rr_ci; [exact HW|apply ci_set_par; assumption|exact Hy]. }
    assert (Hnx : forall ds sa, next (fst (fold_idsR (fun s d' => def_rr m2 (set_par s RDefs d' (Some x)) d') ds sa)) = next sa).
    { intros ds sa. apply nx_fold_idsR. intros sb y. rewrite nx_def_rr. reflexivity. }
    injection E as <- <- <- <-. split; [apply G; [intros y Hy; apply (N2 y Hy)|exact C3]|].
    split; [split; [apply Nx|rewrite Hnx; apply Nx2]|rewrite Hnx; cbn; cbn in L2; lia].
Qed.

Lemma libs_clone1_spec n0 s0 : WOld n0 s0 -> forall ls s m s' m' l' e, CI n0 s0 s m ->
  libs_clone1 ls (s, m) = ((s', m'), l', e) ->
  CI n0 s0 s' m' /\ (forall c, In c l' -> nw n0 s' c) /\ next s <= next s'.
Proof.
  intro HW. induction ls as [|l ls IH]; intros s m s' m' l' e C E; cbn [libs_clone1] in E.
  - injection E as <- <- <- <-. split; [exact C|split; [intros c []|apply Nat.le_refl]].
  - destruct (lib_clone1 (s, m) l) as [[[s1 m1] x] e1] eqn:E1.
    destruct (lib_clone1_spec n0 s0 s m l s1 m1 x e1 HW C E1) as [C1 [N1 L1]].
    destruct e1 as [ex|].
    + injection E as <- <- <- <-. split; [exact C1|split; [|exact L1]]. intros c [<-|[]]. exact N1.
    + destruct (libs_clone1 ls (s1, m1)) as [[[s2 m2] r] e2] eqn:E2.
      destruct (IH s1 m1 s2 m2 r e2 C1 E2) as [C2 [N2 L2]].
      injection E as <- <- <- <-. split; [exact C2|split; [|lia]].
      intros c [<-|Hc]; [apply (nw_mono n0 s1 s2 x L2 N1)|apply N2; exact Hc].
Qed.

(* ---- the public clone() of every kind ---- *)
Definition StartOK (s : state) : Prop :=
  (forall r x, next s <= x -> kids s r x = []) /\ (forall x, next s <= x -> top s x = None) /\ WOld (next s) s.

Lemma ci_start s : StartOK s -> CI (next s) s s [].
Proof.
  intros [A [B _]]. constructor; try assumption.
  - apply osame_refl.
  - apply Nat.le_refl.
  - intros a b [].
  - intros y r c Hy Hc. rewrite (A r y Hy) in Hc. destruct Hc.
  - intros y t Hy Ht. rewrite (B y Hy) in Ht. discriminate.
Qed.

Definition CloneOK (s s' : state) : Prop := osame (next s) s s' /\ kclosed (next s) s'.

Lemma ci_cloneok s s' m : CI (next s) s s' m -> CloneOK s s'.
Proof. intro C. split; [apply (ci_os _ _ _ _ C)|apply (ci_kclosed _ _ _ _ C)]. Qed.

Lemma ci_fold_ids n0 s0 m (f : state -> id -> state) l :
  (forall s x, CI n0 s0 s m -> n0 <= x -> CI n0 s0 (f s x) m) -> (forall x, In x l -> n0 <= x) ->
  forall s, CI n0 s0 s m -> CI n0 s0 (fold_ids f l s) m.
Proof.
  intro H. induction l as [|x l IH]; intros Hl s C; cbn [fold_ids]; [exact C|].
  apply IH; [intros y Hy; apply Hl; right; exact Hy|apply H; [exact C|apply Hl; left; reflexivity]].
Qed.

Theorem clone_pin_ok s i : StartOK s -> CloneOK s (fst (fst (clone_pin s i))).
Proof.
  intro HS. unfold clone_pin. destruct (pin_clone1 (s, []) i) as [[s1 m1] i'] eqn:E.
  destruct (pin_clone1_spec (next s) s s [] i s1 m1 i' (ci_start s HS) E) as [C1 [N1 _]]. cbn [fst ret].
  apply (ci_cloneok s _ m1). apply (ci_write _ _ s1 _ m1 C1); [apply osame_set_ipwire; apply N1|reflexivity|reflexivity|reflexivity].
Qed.

Theorem clone_wire_ok s w : StartOK s -> CloneOK s (fst (fst (clone_wire s w))).
Proof.
  intro HS. unfold clone_wire. destruct (wire_clone1 (s, []) w) as [[s1 m1] w'] eqn:E.
  destruct (wire_clone1_spec (next s) s s [] w s1 m1 w' (ci_start s HS) E) as [C1 [N1 _]]. cbn [fst ret].
  apply (ci_cloneok s _ m1). apply (ci_write _ _ s1 _ m1 C1); [apply osame_set_wpins; apply N1|reflexivity|reflexivity|reflexivity].
Qed.

Theorem clone_port_ok s p : StartOK s -> CloneOK s (fst (fst (clone_port s p))).
Proof.
  intro HS. unfold clone_port. destruct (port_clone1 (s, []) p) as [[s1 m1] p'] eqn:E.
  destruct (port_clone1_spec (next s) s s [] p s1 m1 p' (ci_start s HS) E) as [C1 [N1 _]]. cbn [fst ret].
  apply (ci_cloneok s _ m1). apply ci_fold_ids; [|apply (kids_new _ _ s1 m1 RPins p' C1 (proj1 N1))|exact C1].
  intros s2 x C2 Hx. apply (ci_write _ _ s2 _ m1 C2); [apply osame_set_ipwire; exact Hx|reflexivity|reflexivity|reflexivity].
Qed.

Theorem clone_cable_ok s c : StartOK s -> CloneOK s (fst (fst (clone_cable s c))).
Proof.
  intro HS. unfold clone_cable. destruct (cable_clone1 (s, []) c) as [[s1 m1] c'] eqn:E.
  destruct (cable_clone1_spec (next s) s s [] c s1 m1 c' (ci_start s HS) E) as [C1 [N1 _]]. cbn [fst ret].
  apply (ci_cloneok s _ m1). apply ci_fold_ids; [|apply (kids_new _ _ s1 m1 RWires c' C1 (proj1 N1))|exact C1].
  intros s2 x C2 Hx. apply (ci_write _ _ s2 _ m1 C2); [apply osame_set_wpins; exact Hx|reflexivity|reflexivity|reflexivity].
Qed.

Theorem clone_instance_ok s x : StartOK s -> CloneOK s (fst (fst (clone_instance s x))).
Proof.
  intro HS. unfold clone_instance. destruct (inst_clone1 (s, []) x) as [[s1 m1] x'] eqn:E.
  destruct (inst_clone1_spec (next s) s s [] x s1 m1 x' (ci_start s HS) E) as [C1 [N1 _]]. cbn [fst].
  apply (ci_cloneok s _ m1). apply register_child_ci.
  apply (ci_write _ _ s1 _ m1 C1); [apply osame_set_ipins; apply N1|reflexivity|reflexivity|reflexivity].
Qed.

Theorem clone_definition_ok s d : StartOK s -> CloneOK s (fst (fst (clone_definition s d))).
Proof.
  intro HS. unfold clone_definition. destruct (def_clone1 (s, []) d) as [[[s1 m1] d'] e] eqn:E.
  destruct (def_clone1_spec (next s) s s [] d s1 m1 d' e (ci_start s HS) E) as [C1 [N1 _]].
  destruct e as [ex|]; cbn [fst raise]; [apply (ci_cloneok s _ m1); exact C1|].
  apply (ci_cloneok s _ m1). apply ci_bind.
  - apply ci_fold_idsR; [intros s2 y C2 _; apply register_child_ci; exact C2|apply (kids_new _ _ s1 m1 RChildren d' C1 (proj1 N1))|exact C1].
  - intros s2 C2. apply reapply_ci; [apply ci_set_drefs; exact C2|apply N1].
Qed.

Lemma lib_rip_ci n0 s0 m0 m s l' : CI n0 s0 s m0 -> n0 <= l' -> CI n0 s0 (fst (lib_rip m s l')) m0.
Proof.
  intros C Hl. unfold lib_rip. apply ci_fold_idsR; [|apply (kids_new n0 s0 s m0 RDefs l' C Hl)|exact C].
  intros s1 d' C1 Hd. apply ci_bind.
  - apply ci_fold_idsR; [intros s2 y C2 _; apply register_child_ci; exact C2|apply (kids_new n0 s0 s1 m0 RChildren d' C1 Hd)|exact C1].
  - intros s2 C2. cbn [fst ret]. apply ci_set_drefs. exact C2.
Qed.

Theorem clone_library_ok s l : StartOK s -> CloneOK s (fst (fst (clone_library s l))).
Proof.
  intro HS. pose proof HS as [_ [_ HW]]. unfold clone_library. destruct (lib_clone1 (s, []) l) as [[[s1 m1] l'] e] eqn:E.
  destruct (lib_clone1_spec (next s) s s [] l s1 m1 l' e HW (ci_start s HS) E) as [C1 [N1 _]].
  destruct e as [ex|]; cbn [fst raise]; [apply (ci_cloneok s _ m1); exact C1|].
  apply (ci_cloneok s _ m1). apply ci_bind; [apply lib_rip_ci; [exact C1|apply N1]|].
  intros s2 C2. apply reapply_ci; [exact C2|apply N1].
Qed.

Lemma assoc_Some_In_local {B} i (l : list (id * B)) v : assoc i l = Some v -> In (i, v) l.
Proof.
  induction l as [|[k w] l IH]; cbn; [discriminate|].
  destruct (Nat.eqb_spec i k) as [->|]; [intro H; injection H as ->; left; reflexivity|intro H; right; apply IH; exact H].
Qed.

Lemma ci_set_top_new n0 s0 s m n' t' : CI n0 s0 s m -> nw n0 s n' -> n0 <= t' -> CI n0 s0 (s <| top ::= fun f => upd f n' (Some t') |>) m.
Proof.
  intros [A B C D E F G] [Hn1 Hn2] Ht. constructor; cbn; try assumption.
  - eapply osame_trans; [exact A|apply osame_set_top; exact Hn1].
  - intros x Hx. unfold upd. destruct (Nat.eqb_spec x n') as [->|]; [lia|apply D; exact Hx].
  - intros y t Hy. unfold upd. destruct (Nat.eqb_spec y n') as [->|]; [intro H; injection H as <-; exact Ht|apply G; exact Hy].
Qed.

Lemma ci_set_istop n0 s0 s m t' v : CI n0 s0 s m -> n0 <= t' -> CI n0 s0 (s <| istop ::= fun f => upd f t' v |>) m.
Proof. intros C Ht. apply (ci_write n0 s0 s _ m C); [apply osame_set_istop; exact Ht|reflexivity|reflexivity|reflexivity]. Qed.

Theorem clone_netlist_ok s n : StartOK s -> CloneOK s (fst (fst (clone_netlist s n))).
Proof.
  intro HS. pose proof HS as [_ [_ HW]]. set (n0 := next s). unfold clone_netlist.
  destruct (clone_alloc s KNetlist) as [s1 n'] eqn:Ea.
  destruct (clone_alloc_specE n0 s s [] KNetlist s1 n' (ci_start s HS) Ea) as [Hx [Hn [Hk [Ht [C1 Nx]]]]].
  pose proof (ci_memo_add n0 s _ [] n n' (ci_copy_data n0 s s1 [] n n' C1 (proj1 Nx)) Nx) as C1'.
  destruct (libs_clone1 (kids (copy_data s1 n n') RLibs n) (copy_data s1 n n', [(n, n')])) as [[[s2 m2] libs'] e] eqn:E2.
  destruct (libs_clone1_spec n0 s HW _ _ _ _ _ _ _ C1' E2) as [C2 [N2 L2]].
  cbn [next copy_data set_data] in L2.
  assert (Nx2 : nw n0 s2 n') by (apply (nw_mono n0 s1 s2 n'); [cbn in L2; lia|exact Nx]).
  destruct e as [ex|]; cbn [fst raise]; [apply (ci_cloneok s _ m2); exact C2|].
  set (s3 := set_kids s2 RLibs n' libs').
  assert (C3 : CI n0 s s3 m2) by (apply ci_set_kids; assumption).
  assert (Nx3 : nw n0 s3 n') by exact Nx2.
  (* the top instance *)
  match goal with |- context [let '(r, m) := ?rt in _] => set (rtop := rt) end.
  assert (Hrt : exists mX, CI n0 s (fst (fst rtop)) mX /\ nw n0 (fst (fst rtop)) n').
  { unfold rtop. destruct (top s3 n) as [t|]; [|exists m2; split; [exact C3|exact Nx3]].
    destruct (mget m2 t) as [t'|] eqn:Em.
    - exists m2. cbn [fst ret]. split; [|exact Nx3].
      apply ci_set_top_new; [exact C3|exact Nx3|]. apply (ci_memo _ _ _ _ C3 t t'). apply assoc_Some_In_local. exact Em.
    - destruct (inst_clone1 (s3, m2) t) as [[s4 m4] t'] eqn:E4.
      destruct (inst_clone1_spec n0 s s3 m2 t s4 m4 t' C3 E4) as [C4 [N4 L4]].
      exists m4. cbn [fst].
      assert (Nx4 : nw n0 s4 n') by (apply (nw_mono n0 s3 s4 n' L4 Nx3)).
      pose proof (inst_rr_def_ci n0 s m4 m4 s4 t' C4 (proj1 N4)) as C5.
      assert (Hn5 : next (fst (inst_rr_def m4 s4 t')) = next s4) by (unfold inst_rr_def; destruct (map_opt _ _); reflexivity).
      destruct (inst_rr_def m4 s4 t') as [s5 [ex|]]; cbn [bindR fst] in *; [split; [exact C5|split; [apply Nx4|rewrite Hn5; apply Nx4]]|].
      set (s6 := match iref s5 t' with Some e => match mget m4 e with Some e' => set_iref s5 t' (Some e') | None => s5 end | None => s5 end).
      assert (C6 : CI n0 s s6 m4 /\ next s6 = next s5).
      { unfold s6. destruct (iref s5 t') as [e|]; [|split; [exact C5|reflexivity]]. destruct (mget m4 e); [|split; [exact C5|reflexivity]].
        split; [apply ci_set_iref; [exact C5|apply N4]|reflexivity]. }
      destruct C6 as [C6 Hn6].
      pose proof (rekey_all_ci n0 s m4 m4 s6 t' HW C6 (proj1 N4)) as C7. pose proof (nx_rekey_all m4 s6 t') as Hn7.
      destruct (rekey_all m4 s6 t') as [s7 [ex|]]; cbn [bindR fst ret] in *.
      + split; [exact C7|split; [apply Nx4|rewrite Hn7, Hn6, Hn5; apply Nx4]].
      + assert (Nx7 : nw n0 s7 n') by (split; [apply Nx4|rewrite Hn7, Hn6, Hn5; apply Nx4]).
        split; [apply ci_set_top_new; [exact C7|exact Nx7|apply N4]|exact Nx7]. }
  destruct Hrt as [mX [CX NX]]. destruct rtop as [r m]. cbn [fst] in *.
  apply (ci_cloneok s _ mX).
  destruct r as [s8 [ex|]]; cbn [bindR fst] in *; [exact CX|].
  set (s8' := match top s8 n' with Some t' => s8 <| istop ::= fun f => upd f t' true |> | None => s8 end).
  assert (C8 : CI n0 s s8' mX).
  { unfold s8'. destruct (top s8 n') as [t'|] eqn:Et; [|exact CX]. apply ci_set_istop; [exact CX|apply (ci_top _ _ _ _ CX n' t' (proj1 NX) Et)]. }
  assert (Hlibs : forall y, In y libs' -> n0 <= y) by (intros y Hy; apply (N2 y Hy)).
  apply ci_bind.
  - apply ci_fold_idsR; [|exact Hlibs|exact C8]. intros sa l' Ca Hl.
    pose proof (ci_set_par n0 s sa mX RLibs l' (Some n') Ca Hl) as Cb.
    apply ci_fold_idsR; [|apply (kids_new n0 s sa mX RDefs l' Ca Hl)|exact Cb].
    intros sb d' Cc Hd. apply def_rr_ci; assumption.
  - intros s9 C9. apply reapply_ci; [|apply NX].
    apply ci_fold_ids; [|exact Hlibs|exact C9]. intros sa l' Ca Hl.
    apply ci_fold_ids; [|apply (kids_new n0 s sa mX RDefs l' Ca Hl)|exact Ca].
    intros sb d' Cb _. apply ci_set_drefs. exact Cb.
Qed.

Theorem clone_any_ok s e : StartOK s -> CloneOK s (fst (fst (clone_any s e))).
Proof.
  intro HS. unfold clone_any. destruct (kind_of s e) as [[]|].
  - apply clone_netlist_ok; exact HS.
  - apply clone_library_ok; exact HS.
  - apply clone_definition_ok; exact HS.
  - apply clone_port_ok; exact HS.
  - apply clone_cable_ok; exact HS.
  - apply clone_wire_ok; exact HS.
  - apply clone_pin_ok; exact HS.
  - apply clone_instance_ok; exact HS.
  - cbn. split; [apply osame_refl|]. intros y r c Hy Hc. destruct HS as [A _]. rewrite (A r y Hy) in Hc. destruct Hc.
Qed.
