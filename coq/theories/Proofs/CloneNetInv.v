(* Netlist.clone keeps the structural invariant. *)
From Coq Require Import List Arith Bool Lia.
From RecordUpdate Require Import RecordSet.
From SV Require Import Base.Base IR.State IR.NS IR.Ops Xform.Clone Proofs.AssocX Proofs.Frame Proofs.Inv1a Proofs.Inv2a
  Proofs.InvP Proofs.InvW Proofs.Fresh Proofs.NsInv Proofs.Repoint Proofs.CloneInv Proofs.RefK Proofs.CloneRef Proofs.CloneT Proofs.FieldT
  Proofs.CloneMemo Proofs.CloneRR Proofs.CloneFaith Proofs.CloneInvP Proofs.CloneFull
  Proofs.CloneMemoK Proofs.CloneFaithK Proofs.CloneStage Proofs.CloneStageP Proofs.CloneRun Proofs.CloneEx Proofs.CloneRemap Proofs.CloneComm Proofs.CloneLib
  Proofs.SrcTree Proofs.CloneNet Proofs.CloneTop Proofs.CloneFin Proofs.CloneFrame Proofs.CloneStart Proofs.KindD Proofs.CloneTq.
Import ListNotations RecordSetNotations.

Lemma forall2_impl {A B} (R1 R2 : A -> B -> Prop) : (forall a b, R1 a b -> R2 a b) -> forall l l', Forall2 R1 l l' -> Forall2 R2 l l'.
Proof. intros H l l' F. induction F; constructor; auto. Qed.

(* the instances of a netlist: the children of its definitions and its top instance *)
Definition NetInst (s0 : state) (n x : id) : Prop :=
  (exists l d, In l (kids s0 RLibs n) /\ In d (kids s0 RDefs l) /\ In x (kids s0 RChildren d)) \/ top s0 n = Some x.
(* every instance of the netlist instantiates a definition of the netlist *)
Definition Closed (s0 : state) (n : id) : Prop :=
  forall x e, NetInst s0 n x -> iref s0 x = Some e -> exists l, In l (kids s0 RLibs n) /\ In e (kids s0 RDefs l).

(* the top-instance stage of Netlist._clone and the memo it ends with *)
Definition top_stage (s3 : state) (m2 : memo) (n n' : id) : R * memo :=
  match top s3 n with
  | None => (ret s3, m2)
  | Some t =>
      match mget m2 t with
      | Some t' => (ret (s3 <| top ::= fun f => upd f n' (Some t') |>), m2)
      | None =>
          let '((s4, m4), t') := inst_clone1 (s3, m2) t in
          (inst_rr_def m4 s4 t' >>= fun s5 =>
           let s6 := match iref s5 t' with
                     | Some e => match mget m4 e with Some e' => set_iref s5 t' (Some e') | None => s5 end
                     | None => s5 end in
           rekey_all m4 s6 t' >>= fun s7 =>
           ret (s7 <| top ::= fun f => upd f n' (Some t') |>), m4)
      end
  end.

Definition netlist_memo (s : state) (n : id) : memo :=
  let '(s1, n') := clone_alloc s KNetlist in
  let s1 := copy_data s1 n n' in
  let '(((s2, m2), libs'), e) := libs_clone1 (kids s1 RLibs n) (s1, [(n, n')]) in
  match e with
  | Some x => m2
  | None => snd (top_stage (set_kids s2 RLibs n' libs') m2 n n')
  end.

(* what the proof knows about the result: sQ is the state before the final filter of the reference sets *)
Record NetFacts (s0 : state) (n : id) (sF sQ : state) (M : memo) (n' : id) (libs' : list id) : Prop := mkNF {
  nf_n' : n' = next s0;
  nf_ry : RY s0 sQ M;
  nf_root : In (n, n') M;
  nf_kids : kids sF = kids sQ; nf_par : par sF = par sQ; nf_iref : iref sF = iref sQ; nf_ipins : ipins sF = ipins sQ;
  nf_wpins : wpins sF = wpins sQ; nf_ipwire : ipwire sF = ipwire sQ; nf_kind : kind_of sF = kind_of sQ; nf_next : next sF = next sQ;
  nf_drefs : forall y, drefs sF y = if memb y (flat_map (kids sQ RDefs) libs') then filter (mval M) (drefs sQ y) else drefs sQ y;
  nf_klibs : forall y, kids sQ RLibs y = if Nat.eqb y n' then libs' else kids s0 RLibs y;
  nf_plibs : forall y, par sQ RLibs y = if memb y libs' then Some n' else par s0 RLibs y;
  nf_nd : NoDup libs';
  nf_new : forall l', In l' libs' -> next s0 <= l';
  nf_f2 : Forall2 (fun l l' => In (l, l') M /\ Forall2 (fun d d' => In (d, d') M) (kids s0 RDefs l) (kids sQ RDefs l')) (kids s0 RLibs n) libs';
  nf_fx : forall x x', In (x, x') M -> kind_of s0 x = Some KInstance -> iref sQ x' = remap_ref M (iref s0 x);
  nf_fd : forall d d', In (d, d') M -> kind_of s0 d = Some KDefinition -> FinD M sQ d' /\ In d' (flat_map (kids sQ RDefs) libs');
  nf_hd : forall y, In y (flat_map (kids sQ RDefs) libs') -> exists d, In (d, y) M /\ kind_of s0 d = Some KDefinition;
  nf_cl : forall x x' e, In (x, x') M -> kind_of s0 x = Some KInstance -> iref s0 x = Some e -> In e (map fst M) /\ kind_of s0 e = Some KDefinition;
  nf_keys : forall x x', In (x, x') M -> x = n \/ In x (flat_map (lib_objects s0) (kids s0 RLibs n)) \/ top s0 n = Some x;
  nf_memo : M = netlist_memo s0 n;
  (* the top-instance field: written at the copy of the netlist only, with the image of the top instance *)
  nf_top : forall y t', top sF y = Some t' -> top s0 y = Some t' \/ (y = n' /\ exists t, In (t, t') M /\ top s0 n = Some t);
  nf_topab : forall x, next sF <= x -> top sF x = None
}.

Lemma clone_netlist_facts s0 n :
  UF s0 -> StartOK s0 -> (forall x e, iref s0 x = Some e -> kind_of s0 e = Some KDefinition) ->
  kind_of s0 n = Some KNetlist -> (forall t, top s0 n = Some t -> kind_of s0 t = Some KInstance) -> Closed s0 n ->
  snd (fst (clone_netlist s0 n)) = None ->
  exists sQ M libs', NetFacts s0 n (fst (fst (clone_netlist s0 n))) sQ M (snd (clone_netlist s0 n)) libs'.
Proof.
  intros U0 HS HRD Hkn Htop Hcl. pose proof U0 as [I0 [T0 [F0 [FT0 K0]]]]. pose proof (inv_a _ I0) as I1.
  assert (Hn : n < next s0). { destruct (Nat.lt_ge_cases n (next s0)) as [H|H]; [exact H|]. rewrite (f_kind _ F0 n H) in Hkn. discriminate. }
  pose proof HS as [_ [_ HW]]. set (n0 := next s0). unfold clone_netlist.
  destruct (clone_alloc s0 KNetlist) as [sa n'] eqn:Ea.
  destruct (clone_alloc_specE n0 s0 s0 [] KNetlist sa n' (ci_start s0 HS) Ea) as [_ [_ [_ [_ [C1 Nx]]]]].
  pose proof (ci_memo_add n0 s0 _ [] n n' (ci_copy_data n0 s0 sa [] n n' C1 (proj1 Nx)) Nx) as C1'.
  destruct (ry_plain_stage s0 s0 [] n KNetlist sa n' (ry_start s0 U0) Hn (fun H => H) Hkn (or_intror eq_refl) Ea) as [Y1 [Hn' [Hn1 [Hk1 [Hp1 Hkd1]]]]].
  set (s1 := copy_data sa n n') in *.
  assert (Eks : kids s1 RLibs n = kids s0 RLibs n) by (rewrite Hk1; reflexivity). rewrite Eks.
  set (ls := kids s0 RLibs n) in *.
  destruct (libs_clone1 ls (s1, [(n, n')])) as [[[s2 m2] libs'] e] eqn:Eb.
  destruct (libs_clone1_spec n0 s0 HW _ _ _ _ _ _ _ C1' Eb) as [C2 _].
  destruct e as [ex|]; [cbn; discriminate|].
  assert (Hpre : forall l, In l ls -> LibPre s0 l).
  { intros l Hl. split; [apply (src_lt s0 I1 F0 _ _ _ Hl)|apply (proj1 (T0 _ _ _ Hl))]. }
  assert (Hfree : forall y, In y (flat_map (lib_objects s0) ls) -> ~ In y (map fst [(n, n')])).
  { intros y Hy [<-|[]]. apply (libs_objects_kinds s0 T0 n n Hy Hkn). }
  destruct (ry_libs s0 U0 HRD ls s1 [(n, n')] s2 m2 libs' Y1 Hpre (libs_objects_nodup s0 I1 T0 n) Hfree Eb)
    as [Y2 [Sb2 [Ky2 [Hf2 [Hn2 [F2 [Nd2 P2]]]]]]].
  assert (HL2 : forall y, kids s2 RLibs y = kids s0 RLibs y /\ par s2 RLibs y = par s0 RLibs y).
  { intro y. destruct (ls_libs_clone1 _ _ _ _ _ _ _ Eb y) as [A B]. rewrite A, B, Hk1, Hp1. split; reflexivity. }
  set (s3 := set_kids s2 RLibs n' libs').
  assert (Hnn : In (n, n') m2) by (apply Sb2; left; reflexivity).
  (* facts that hold in every later state *)
  assert (Hlibs : forall s M, RY s0 s M -> msub m2 M -> n' < next s /\ kind_of s n' = Some KNetlist /\
             forall l', In l' libs' -> next s0 < l' /\ l' < next s /\ kind_of s l' = Some KLibrary).
  { intros s M Y Hs. pose proof (ri_st _ _ _ (rx_ri _ _ _ (ry_rx _ _ _ Y))) as T.
    split; [apply (st_rng _ _ _ T n n' (Hs _ Hnn))|]. split; [rewrite (st_kind _ _ _ T n n' (Hs _ Hnn)); exact Hkn|].
    intros l' Hl'. destruct (forall2_in_l _ _ _ F2 l' Hl') as [l [Hl [Hll _]]]. destruct (P2 l' Hl') as [A _].
    split; [lia|]. split; [apply (st_rng _ _ _ T l l' (Hs _ Hll))|]. rewrite (st_kind _ _ _ T l l' (Hs _ Hll)). apply (Hpre l Hl). }
  assert (HK3 : forall y, kids s3 RLibs y = if Nat.eqb y n' then libs' else kids s0 RLibs y).
  { intro y. change (kids s3 RLibs y) with (upd2 (kids s2) RLibs n' libs' RLibs y). rewrite kids_upd2_ns. cbn. destruct (Nat.eqb y n'); [reflexivity|apply HL2]. }
  assert (HP3 : forall y, par s3 RLibs y = par s0 RLibs y) by (intro y; apply HL2).
  assert (Y3 : RY s0 s3 m2).
  { destruct (Hlibs s2 m2 Y2 (fun e H => H)) as [A [B C]].
    apply (ry_lupd_net s0 s2 s3 m2 n' libs' [] U0); try assumption.
    - constructor; try reflexivity; intros r y Hr; destruct r; try reflexivity; contradiction.
    - intros y []. }
  assert (Et3 : top s3 n = top s0 n) by (apply (os_top _ _ _ (ci_os _ _ _ _ C2)); exact Hn).
  assert (T03 : tq s0 s3).
  { pose proof (tq_clone_alloc s0 KNetlist) as H. rewrite Ea in H. cbn [fst] in H. eapply tq_trans; [exact H|].
    apply (tq_trans _ s1); [unfold s1; tq_triv|]. apply (tq_trans _ s2); [apply (tq_libs_clone1 _ _ _ _ _ _ _ Eb)|unfold s3; tq_triv]. }
  match goal with |- context [let '(r, m) := ?rt in _] => set (rtop := rt) end.
  assert (Hrt : snd (fst rtop) = None -> exists s8 M, rtop = ((s8, None), M) /\ RY s0 s8 M /\ msub m2 M /\ kids s8 = kids s3 /\ par s8 = par s3 /\
     (forall x x', In (x, x') M -> ~ In (x, x') m2 -> top s0 n = Some x /\ iref s8 x' = remap_ref M (iref s0 x)) /\
     (forall y t', top s8 y = Some t' -> top s3 y = Some t' \/ (y = n' /\ exists t, In (t, t') M /\ top s0 n = Some t))).
  { unfold rtop. rewrite Et3. destruct (top s0 n) as [t|] eqn:Et.
    2:{ intros _. exists s3, m2. split; [reflexivity|]. split; [exact Y3|]. split; [intros e H; exact H|]. split; [reflexivity|]. split; [reflexivity|].
        split; [intros x x' H Hno; contradiction|]. intros y t' H; left; exact H. }
    destruct (mget m2 t) as [t'|] eqn:Em.
    - intros _. eexists. exists m2. split; [reflexivity|]. split; [apply (ry_feq s0 s3 _ m2); [constructor; reflexivity|exact Y3]|].
      split; [intros e H; exact H|]. split; [reflexivity|]. split; [reflexivity|]. split; [intros x x' H Hno; contradiction|].
      intros y t0. cbn. unfold upd. destruct (Nat.eqb_spec y n') as [->|Hyn]; [|intro H; left; exact H].
      intro H. injection H as <-. right. split; [reflexivity|]. exists t. split; [apply mget_in; exact Em|reflexivity].
    - destruct (inst_clone1 (s3, m2) t) as [[s4 m4] t'] eqn:E4.
      destruct (inst_rr_def m4 s4 t') as [s5 [e5|]] eqn:E5; [cbn; discriminate|]. cbn [bindR].
      pose proof (Htop t eq_refl) as Hkt.
      assert (Ht : t < next s0). { destruct (Nat.lt_ge_cases t (next s0)) as [H|H]; [exact H|]. rewrite (f_kind _ F0 t H) in Hkt. discriminate. }
      assert (Hfr : ~ In t (map fst m2)) by (apply assoc_None_not_In; exact Em).
      destruct (inst_stage s0 s3 s4 s5 m2 m4 t t' U0 Y3 Ht Hkt Hfr E4 E5) as [Y5 [Ht' [Hm4 [N5 [K5 [P5 [D5 [I5 Kd5]]]]]]]].
      match goal with |- context [rekey_all m4 ?x t'] => set (s6 := x) end.
      destruct (rekey_all m4 s6 t') as [s7 [e7|]] eqn:E7; [cbn; discriminate|]. cbn [bindR ret]. intros _. unfold s6 in E7.
      assert (Ht'0 : next s0 <= t') by (rewrite Ht'; apply (st_n0 _ _ _ (ri_st _ _ _ (rx_ri _ _ _ (ry_rx _ _ _ Y3))))).
      assert (Hk5 : kind_of s5 t' = Some KInstance) by (rewrite Kd5; apply upd_same).
      assert (Hin4 : In (t, t') m4) by (rewrite Hm4; left; reflexivity).
      assert (Hi5 : iref s5 t' = iref s0 t) by (rewrite I5; apply upd_same).
      assert (Hcl5 : forall e, iref s0 t = Some e -> In e (map fst m4) /\ kind_of s0 e = Some KDefinition).
      { intros e He. destruct (Hcl t e (or_intror Et) He) as [l [Hl Hd]]. split; [|apply (proj1 (T0 _ _ _ Hd))].
        rewrite Hm4. right. apply Ky2. left. apply (libs_objects_of_def s0 n l e Hl Hd). }
      destruct (top_remap s0 s5 s7 m4 t t' U0 Y5 Ht'0 Hk5 Hin4 Hkt Hi5 Hcl5 E7) as [Y7 [I7 [D7 [K7 [P7 [N7 Kd7]]]]]].
      eexists. exists m4. split; [reflexivity|]. split; [apply (ry_feq s0 s7 _ m4); [constructor; reflexivity|exact Y7]|].
      split; [intros e H; rewrite Hm4; right; exact H|]. split; [cbn; rewrite K7, K5; reflexivity|]. split; [cbn; rewrite P7, P5; reflexivity|].
      split; [intros x x' H Hno; rewrite Hm4 in H; destruct H as [H|H]; [|contradiction]; injection H as <- <-; split; [reflexivity|];
              cbn; rewrite I7, Nat.eqb_refl; reflexivity|].
      assert (T37 : tq s3 s7).
      { eapply tq_trans; [apply (tq_inst_clone1 _ _ _ _ _ _ E4)|]. pose proof (tq_inst_rr_def m4 s4 t') as T45. rewrite E5 in T45. cbn [fst] in T45.
        eapply tq_trans; [exact T45|].
        match type of E7 with rekey_all _ ?x _ = _ => pose proof (tq_rekey_all m4 x t') as T67; rewrite E7 in T67; cbn [fst] in T67; apply (tq_trans _ x); [|exact T67] end.
        destruct (iref s5 t') as [e0|]; [destruct (mget m4 e0); [tq_triv|apply tq_refl]|apply tq_refl]. }
      intros y t0. cbn. unfold upd. destruct (Nat.eqb_spec y n') as [->|Hyn]; [|intro H; left; rewrite (tq_top _ _ T37) in H; exact H].
      intro H. injection H as <-. right. split; [reflexivity|]. exists t. split; [exact Hin4|reflexivity]. }
  assert (HM : snd rtop = netlist_memo s0 n).
  { unfold netlist_memo. rewrite Ea. cbn zeta. change (copy_data sa n n') with s1. rewrite Eks. fold ls. rewrite Eb. reflexivity. }
  clearbody rtop. destruct rtop as [[s8x e8] Mx]. cbn [fst snd] in Hrt, HM. cbn iota beta.
  destruct e8 as [ex|]; [cbn; discriminate|]. destruct (Hrt eq_refl) as [s8 [M [Eq [Y8 [Sb8 [K8 [P8 [New8 Top8]]]]]]]]. injection Eq as -> ->. clear Hrt.
  cbn [bindR].
  set (s8' := match top s8 n' with Some t' => s8 <| istop ::= fun f => upd f t' true |> | None => s8 end).
  assert (F88 : feq s8 s8') by (unfold s8'; destruct (top s8 n'); [constructor; reflexivity|apply feq_refl]).
  pose proof (ry_feq s0 s8 s8' M F88 Y8) as Y8'.
  pose proof (nested_fold M (Some n') libs' (fun s => s) s8' commok_id (fun s d => eq_refl)) as NF. cbn zeta beta in NF.
  set (plain := fold_idsR (fun s l' => fold_idsR (def_rr M) (kids s RDefs l') s) libs' s8') in *.
  set (inter := fold_idsR (fun s l' => fold_idsR (def_rr M) (kids s RDefs l') (set_par s RLibs l' (Some n'))) libs' s8') in *.
  destruct NF as [NF1 NF2]. destruct plain as [sP eP] eqn:EP. destruct inter as [sI eI]. cbn [fst snd] in NF1, NF2. subst eI.
  destruct eP as [ex|]; [cbn; discriminate|]. rewrite (NF2 eq_refl). cbn [bindR]. clear NF2.
  set (sQ := fold_ids (fun s l' => set_par s RLibs l' (Some n')) libs' sP).
  intros _. fold (filt2 (mval M) libs' sQ). cbn [fst].
  set (sR := filt2 (mval M) libs' sQ). set (sF := fst (reapply sR n')).
  (* the second redirect pass *)
  assert (F2' : Forall2 (fun l l' => In (l, l') M /\ Forall2 (fun d d' => In (d, d') M) (kids s0 RDefs l) (kids s8' RDefs l')) ls libs').
  { revert F2. apply forall2_impl. intros l l' [A B]. split; [apply Sb8; exact A|].
    assert (Ek : kids s8' RDefs l' = kids s2 RDefs l') by (rewrite (fe_kids _ _ F88), K8; reflexivity).
    rewrite Ek. revert B. apply forall2_impl. intros d d' H. apply Sb8. exact H. }
  unfold plain in EP.
  destruct (fin_libs s0 M U0 HRD ls libs' s8' sP Y8' F2' EP) as [YP [KP [PP [NP [KdP [FA [PX PO]]]]]]].
  (* the parent pointers of the copied libraries *)
  destruct (fold_set_par_spec RLibs n' libs' sP) as [KQ [NQ PQ]]. fold sQ in KQ, NQ, PQ.
  destruct (fields_fold_set_par RLibs (Some n') libs' sP) as [WQ [WpQ [IpQ IrQ]]]. fold sQ in WQ, WpQ, IpQ, IrQ.
  pose proof (kind_fold_set_par RLibs (Some n') libs' sP) as KdQ. fold sQ in KdQ.
  destruct (rd_fold_set_par RLibs (Some n') libs' sP) as [_ DQ]. fold sQ in DQ.
  assert (HKQ : forall y, kids sQ RLibs y = if Nat.eqb y n' then libs' else kids s0 RLibs y).
  { intro y. rewrite KQ, KP, (fe_kids _ _ F88), K8. apply HK3. }
  assert (HPQ : forall y, par sQ RLibs y = if memb y libs' then Some n' else par s0 RLibs y).
  { intro y. rewrite PQ. cbn [rel_eqb andb]. destruct (memb y libs'); [reflexivity|]. rewrite PP, (fe_par _ _ F88), P8. apply HP3. }
  assert (YQ : RY s0 sQ M).
  { destruct (Hlibs sP M YP Sb8) as [A [B C]].
    apply (ry_lupd_net s0 sP sQ M n' libs' libs' U0); try assumption.
    - constructor; try assumption.
      + intros r y Hr. rewrite KQ. reflexivity.
      + intros r y Hr. rewrite PQ. destruct r; cbn; try reflexivity. contradiction.
    - intros y H. exact H. }
  (* the final state *)
  destruct (filt2_spec (mval M) libs' sQ) as [FXR [DRin DRout]]. fold sR in FXR, DRin, DRout.
  pose proof (feq_reapply sR n') as FEF. fold sF in FEF.
  assert (EkF : kids sF = kids sQ) by (rewrite (fe_kids _ _ FEF); apply (fx_kids _ _ FXR)).
  assert (EpF : par sF = par sQ) by (rewrite (fe_par _ _ FEF); apply (fx_par _ _ FXR)).
  assert (ErF : iref sF = iref sQ) by (rewrite (fe_iref _ _ FEF); apply (fx_iref _ _ FXR)).
  assert (EiF : ipins sF = ipins sQ) by (rewrite (fe_ipins _ _ FEF); apply (fx_ipins _ _ FXR)).
  assert (EwF : wpins sF = wpins sQ) by (rewrite (fe_wpins _ _ FEF); apply (fx_wpins _ _ FXR)).
  assert (EiwF : ipwire sF = ipwire sQ) by (rewrite (fe_ipwire _ _ FEF); apply (fx_ipwire _ _ FXR)).
  pose proof (rx_ri _ _ _ (ry_rx _ _ _ YQ)) as RQ.
  pose proof (ri_st _ _ _ (rx_ri _ _ _ (ry_rx _ _ _ Y8'))) as ST8.
  assert (Hcls : forall x x', In (x, x') m2 -> x = n \/ In x (flat_map (lib_objects s0) ls)).
  { intros x x' H. assert (Hx : In x (map fst m2)) by (apply in_map_iff; exists (x, x'); split; [reflexivity|exact H]).
    apply Ky2 in Hx as [Hx|[Hx|[]]]; [right; exact Hx|left; symmetry; exact Hx]. }
  assert (Hkeys : forall e, In e (flat_map (lib_objects s0) ls) -> In e (map fst M)).
  { intros e He. assert (H2 : In e (map fst m2)) by (apply Ky2; left; exact He).
    apply in_map_iff in H2 as [[a b] [E1 H2]]. cbn in E1. subst a. apply in_map_iff. exists (e, b). split; [reflexivity|apply Sb8; exact H2]. }
  assert (EkdF : kind_of sF = kind_of sQ) by (rewrite (fe_kind _ _ FEF); apply (fx_kind _ _ FXR)).
  assert (EnF : next sF = next sQ) by (rewrite (fe_next _ _ FEF); apply (fx_next _ _ FXR)).
  assert (EtF : top sF = top s8).
  { unfold sF. rewrite (tq_top _ _ (tq_reapply sR n')). unfold sR, filt2.
    rewrite (fold_ids_pres top); [|intros sx l0; apply (fold_ids_pres top); reflexivity].
    unfold sQ. rewrite (fold_ids_pres top) by reflexivity.
    assert (TP : tq s8' sP).
    { pose proof (tq_fold_idsR (fun s l' => fold_idsR (def_rr M) (kids s RDefs l') s) libs'
                    (fun sx l0 => tq_fold_idsR (def_rr M) (kids sx RDefs l0) (fun sy d0 => tq_def_rr M sy d0) sx) s8') as H.
      rewrite EP in H. exact H. }
    rewrite (tq_top _ _ TP). unfold s8'. destruct (top s8 n'); reflexivity. }
  assert (HtopF : forall y t', top sF y = Some t' -> top s0 y = Some t' \/ (y = n' /\ exists t, In (t, t') M /\ top s0 n = Some t)).
  { intros y t' Hy. rewrite EtF in Hy. destruct (Top8 y t' Hy) as [H|H]; [left; rewrite <- (tq_top _ _ T03); exact H|right; exact H]. }
  assert (HtopabF : forall x, next sF <= x -> top sF x = None).
  { intros x Hx. destruct (top sF x) as [t'|] eqn:Ex; [|reflexivity]. exfalso.
    pose proof (st_n0 _ _ _ (ri_st _ _ _ RQ)) as Hn0Q. destruct HS as [_ [HFT _]].
    destruct (HtopF x t' Ex) as [H|[-> _]]; [rewrite (HFT x) in H by lia; discriminate|].
    destruct (Hlibs sQ M YQ Sb8) as [A _]. lia. }
  exists sQ, M, libs'. cbn [snd]. constructor; try assumption.
  - apply Sb8. exact Hnn.
  - intro y. rewrite (fe_drefs _ _ FEF). destruct (memb y (flat_map (kids sQ RDefs) libs')) eqn:Em.
    + apply memb_In in Em. apply DRin. exact Em.
    + apply memb_false in Em. apply DRout. exact Em.
  - intros l' Hl'. destruct (Hlibs sQ M YQ Sb8) as [_ [_ C]]. destruct (C l' Hl'). lia.
  - rewrite KQ, KP. exact F2'.
  - (* every copied instance has its final reference *)
    intros x x' Hxx Hkx. rewrite IrQ.
    assert (FXx : FinX s0 M sP x'); [|apply (FXx x Hxx Hkx)].
    destruct (in_memo_dec m2 x x') as [Hi|Hno].
    + destruct (Hcls x x' Hi) as [->|Hx]; [congruence|].
      destruct (libs_objects_inst s0 T0 n x Hx Hkx) as [l [d [Hl [Hd Hc]]]].
      destruct (forall2_in_r _ _ _ F2' l Hl) as [l' [Hl' [_ B]]]. destruct (forall2_in_r _ _ _ B d Hd) as [d' [Hd' Hdd]].
      pose proof (rx_di _ _ _ (ry_rx _ _ _ Y8') d d' Hdd (proj1 (T0 _ _ _ Hd))) as DI.
      destruct (di_children _ _ _ _ _ DI x Hc) as [p' [Hxp Hp']].
      assert (p' = x') by (apply (memo_fun M x p' x' (st_fun _ _ _ ST8)); assumption). subst p'.
      apply (proj2 (FA l' d' Hl' Hd') x' Hp').
    + destruct (New8 x x' Hxx Hno) as [_ Hi8]. apply PX. intros x2 Hx2 Hk2.
      assert (x2 = x) by (apply (memo_inj M x2 x x' (st_inj _ _ _ ST8)); assumption). subst x2.
      rewrite (fe_iref _ _ F88). exact Hi8.
  - (* reference sets of the copied definitions *)
    intros d d' Hdd Hkd.
    destruct (in_memo_dec m2 d d') as [Hi|Hno]; [|destruct (New8 d d' Hdd Hno) as [Ht _]; rewrite (Htop d Ht) in Hkd; discriminate].
    destruct (Hcls d d' Hi) as [->|Hx]; [congruence|].
    destruct (libs_objects_def s0 T0 n d Hx Hkd) as [l [Hl Hd]].
    destruct (forall2_in_r _ _ _ F2' l Hl) as [l' [Hl' [_ B]]]. destruct (forall2_in_r _ _ _ B d Hd) as [d2 [Hd2 Hdd2]].
    assert (d2 = d') by (apply (memo_fun M d d2 d' (st_fun _ _ _ ST8)); assumption). subst d2.
    split.
    + unfold FinD. rewrite DQ. apply (proj1 (FA l' d' Hl' Hd2)).
    + apply in_flat_map. exists l'. split; [exact Hl'|]. rewrite KQ, KP. exact Hd2.
  - intros y Hy. apply in_flat_map in Hy as [l' [Hl' Hy]]. rewrite KQ, KP in Hy.
    destruct (forall2_in_l _ _ _ F2' l' Hl') as [l [Hl [_ B]]]. destruct (forall2_in_l _ _ _ B y Hy) as [d [Hd Hdy]].
    exists d. split; [exact Hdy|apply (proj1 (T0 _ _ _ Hd))].
  - (* closedness *)
    intros x x' e Hxx Hkx He.
    assert (HN : NetInst s0 n x).
    { destruct (in_memo_dec m2 x x') as [Hi|Hno]; [|right; apply (New8 x x' Hxx Hno)].
      destruct (Hcls x x' Hi) as [->|Hx]; [congruence|]. left. apply (libs_objects_inst s0 T0 n x Hx Hkx). }
    destruct (Hcl x e HN He) as [l [Hl Hd]]. split; [|apply (proj1 (T0 _ _ _ Hd))].
    apply Hkeys. apply (libs_objects_of_def s0 n l e Hl Hd).
  - intros x x' Hxx. destruct (in_memo_dec m2 x x') as [Hi|Hno]; [|right; right; apply (New8 x x' Hxx Hno)].
    destruct (Hcls x x' Hi) as [->|Hx]; [left; reflexivity|right; left; exact Hx].
Qed.

Theorem clone_netlist_inv s0 n :
  UF s0 -> StartOK s0 -> (forall x e, iref s0 x = Some e -> kind_of s0 e = Some KDefinition) ->
  kind_of s0 n = Some KNetlist -> (forall t, top s0 n = Some t -> kind_of s0 t = Some KInstance) -> Closed s0 n ->
  snd (fst (clone_netlist s0 n)) = None -> Inv (fst (fst (clone_netlist s0 n))).
Proof.
  intros U0 HS HRD Hkn Htop Hcl Hok.
  destruct (clone_netlist_facts s0 n U0 HS HRD Hkn Htop Hcl Hok) as [sQ [M [libs' NF]]].
  set (sF := fst (fst (clone_netlist s0 n))) in *. set (n' := snd (clone_netlist s0 n)) in *.
  pose proof (rx_ri _ _ _ (ry_rx _ _ _ (nf_ry _ _ _ _ _ _ _ NF))) as RQ.
  constructor.
  - apply (final_inv1a s0 sF n' libs' U0).
    + intros r Hr. apply (inv1ar_same sQ sF r (nf_kids _ _ _ _ _ _ _ NF) (nf_par _ _ _ _ _ _ _ NF)). apply (ri_1a _ _ _ RQ r Hr).
    + intro y. rewrite (nf_kids _ _ _ _ _ _ _ NF). apply (nf_klibs _ _ _ _ _ _ _ NF).
    + intro y. rewrite (nf_par _ _ _ _ _ _ _ NF). apply (nf_plibs _ _ _ _ _ _ _ NF).
    + rewrite (nf_n' _ _ _ _ _ _ _ NF). apply Nat.le_refl.
    + apply (nf_new _ _ _ _ _ _ _ NF).
    + apply (nf_nd _ _ _ _ _ _ _ NF).
  - apply (final_inv2a s0 sQ sF M (flat_map (kids sQ RDefs) libs') U0 (nf_ry _ _ _ _ _ _ _ NF)).
    + apply (nf_fx _ _ _ _ _ _ _ NF).
    + apply (nf_fd _ _ _ _ _ _ _ NF).
    + apply (nf_hd _ _ _ _ _ _ _ NF).
    + apply (nf_cl _ _ _ _ _ _ _ NF).
    + apply (nf_iref _ _ _ _ _ _ _ NF).
    + apply (nf_drefs _ _ _ _ _ _ _ NF).
  - apply (invp_same sQ sF (ri_p _ _ _ RQ)); [intro q; apply pw_ext; [apply (nf_ipwire _ _ _ _ _ _ _ NF)|apply (nf_ipins _ _ _ _ _ _ _ NF)]|intro w; rewrite (nf_wpins _ _ _ _ _ _ _ NF); reflexivity].
  - apply (invk_same sQ sF (ri_k _ _ _ RQ)); [intro x; unfold keys; rewrite (nf_ipins _ _ _ _ _ _ _ NF); reflexivity|apply (nf_iref _ _ _ _ _ _ _ NF)|intro x; rewrite (nf_par _ _ _ _ _ _ _ NF); reflexivity|intro x; rewrite (nf_par _ _ _ _ _ _ _ NF); reflexivity].
Qed.

(* ---- the copy has the structure of the original ---- *)
Definition img (M : memo) (a b : id) : Prop := In (a, b) M.
(* the image of a pin listed by a wire: inner pins by the memo; outer pins by the memo on the instance and on the key *)
Definition mpinF (s0 : state) (m : memo) (p : pin) : option pin :=
  match p with
  | PIn i => option_map PIn (mget m i)
  | POut n i =>
      match mget m n, assoc i (ipins s0 n) with
      | Some n', Some _ => option_map (POut n') (mget m i)
      | _, _ => None
      end
  | PDet => None
  end.

Record NetStruct (s0 : state) (n : id) (sF : state) (n' : id) (M : memo) : Prop := mkNS {
  ns_fun : NoDup (map fst M);
  ns_inj : NoDup (map snd M);
  ns_rng : forall a b, img M a b -> a < next s0 /\ next s0 <= b /\ kind_of sF b = kind_of s0 a;
  ns_root : img M n n';
  ns_libs : Forall2 (img M) (kids s0 RLibs n) (kids sF RLibs n');
  ns_defs : forall l l', img M l l' -> kind_of s0 l = Some KLibrary -> Forall2 (img M) (kids s0 RDefs l) (kids sF RDefs l');
  ns_ports : forall d d', img M d d' -> kind_of s0 d = Some KDefinition -> Forall2 (img M) (kids s0 RPorts d) (kids sF RPorts d');
  ns_cables : forall d d', img M d d' -> kind_of s0 d = Some KDefinition -> Forall2 (img M) (kids s0 RCables d) (kids sF RCables d');
  ns_children : forall d d', img M d d' -> kind_of s0 d = Some KDefinition -> Forall2 (img M) (kids s0 RChildren d) (kids sF RChildren d');
  ns_pins : forall p p', img M p p' -> kind_of s0 p = Some KPort -> Forall2 (img M) (kids s0 RPins p) (kids sF RPins p');
  ns_wires : forall c c', img M c c' -> kind_of s0 c = Some KCable -> Forall2 (img M) (kids s0 RWires c) (kids sF RWires c');
  ns_ref : forall x x', img M x x' -> kind_of s0 x = Some KInstance ->
             iref sF x' = match iref s0 x with Some e => mget M e | None => None end;
  ns_refs : forall d d', img M d d' -> kind_of s0 d = Some KDefinition ->
             forall x', In x' (drefs sF d') <-> exists x, In x (drefs s0 d) /\ img M x x';
  (* connectivity: wire pointers of pins, outer-pin tables of instances (keys and wires), pin lists of wires, in order *)
  ns_ipwire : forall i i', img M i i' -> kind_of s0 i = Some KPin -> mwire M (ipwire s0 i) = Some (ipwire sF i');
  ns_ipins : forall x x', img M x x' -> kind_of s0 x = Some KInstance -> map_opt (imapk M true) (ipins s0 x) = Some (ipins sF x');
  ns_wpins : forall w w', img M w w' -> kind_of s0 w = Some KWire -> map_opt (mpinF s0 M) (wpins s0 w) = Some (wpins sF w')
}.

Theorem clone_netlist_struct_m s0 n :
  UF s0 -> StartOK s0 -> (forall x e, iref s0 x = Some e -> kind_of s0 e = Some KDefinition) ->
  kind_of s0 n = Some KNetlist -> (forall t, top s0 n = Some t -> kind_of s0 t = Some KInstance) -> Closed s0 n ->
  snd (fst (clone_netlist s0 n)) = None ->
  NetStruct s0 n (fst (fst (clone_netlist s0 n))) (snd (clone_netlist s0 n)) (netlist_memo s0 n).
Proof.
  intros U0 HS HRD Hkn Htop Hcl Hok. pose proof U0 as [I0 [T0 [F0 [FT0 K0]]]]. pose proof (inv_a _ I0) as I1.
  pose proof (clone_netlist_inv s0 n U0 HS HRD Hkn Htop Hcl Hok) as HInv.
  destruct (clone_netlist_facts s0 n U0 HS HRD Hkn Htop Hcl Hok) as [sQ [M [libs' NF]]].
  set (sF := fst (fst (clone_netlist s0 n))) in *. set (n' := snd (clone_netlist s0 n)) in *.
  pose proof (nf_ry _ _ _ _ _ _ _ NF) as Y. pose proof (ry_rx _ _ _ Y) as X. pose proof (rx_ri _ _ _ X) as R. pose proof (ri_st _ _ _ R) as T.
  pose proof (nf_kids _ _ _ _ _ _ _ NF) as Ek. pose proof (nf_f2 _ _ _ _ _ _ _ NF) as F2.
  (* the objects of the netlist that carry containers *)
  assert (Hobj : forall x x', In (x, x') M -> kind_of s0 x <> Some KNetlist -> kind_of s0 x <> Some KInstance ->
            In x (flat_map (lib_objects s0) (kids s0 RLibs n))).
  { intros x x' H K1 K2. destruct (nf_keys _ _ _ _ _ _ _ NF x x' H) as [->|[Hx|Ht]]; [contradiction|exact Hx|]. exfalso. apply K2. apply (Htop x Ht). }
  assert (Hdef : forall d d', In (d, d') M -> kind_of s0 d = Some KDefinition -> DefImg s0 d d' sQ M) by (intros d d' H Hk; apply (rx_di _ _ _ X d d' H Hk)).
  assert (Hdd : forall l d, In l (kids s0 RLibs n) -> In d (kids s0 RDefs l) -> exists d', In (d, d') M).
  { intros l d Hl Hd. destruct (forall2_in_r _ _ _ F2 l Hl) as [l' [_ [_ B]]]. destruct (forall2_in_r _ _ _ B d Hd) as [d' [_ H]]. exists d'. exact H. }
  pose proof (rx_ex _ _ _ X) as EXQ.
  assert (Hflag : forall x x' e, In (x, x') M -> kind_of s0 x = Some KInstance -> iref s0 x = Some e -> rk s0 sQ x' = true).
  { intros x x' e H Hk Er. unfold rk. rewrite (nf_fx _ _ _ _ _ _ _ NF x x' H Hk), Er. cbn.
    destruct (nf_cl _ _ _ _ _ _ _ NF x x' e H Hk Er) as [He _]. apply assoc_In_fst in He as [e' He']. fold (mget M e) in He'. rewrite He'.
    apply Nat.leb_le. apply (st_rng _ _ _ T e e' (mget_in _ _ _ He')). }
  rewrite <- (nf_memo _ _ _ _ _ _ _ NF). constructor.
  - apply (st_fun _ _ _ T).
  - apply (st_inj _ _ _ T).
  - intros a b H. destruct (st_rng _ _ _ T a b H) as [A [B _]]. split; [exact A|]. split; [exact B|].
    rewrite (nf_kind _ _ _ _ _ _ _ NF). apply (st_kind _ _ _ T a b H).
  - apply (nf_root _ _ _ _ _ _ _ NF).
  - rewrite Ek, (nf_klibs _ _ _ _ _ _ _ NF), Nat.eqb_refl. revert F2. apply forall2_mono. intros a b [H _]. exact H.
  - intros l l' H Hk.
    assert (Hl : In l (kids s0 RLibs n)) by (apply (libs_objects_lib s0 T0 n l); [apply (Hobj l l' H); rewrite Hk; discriminate|exact Hk]).
    destruct (forall2_in_r _ _ _ F2 l Hl) as [l2 [_ [Hll B]]].
    assert (l2 = l') by (apply (memo_fun M l l2 l' (st_fun _ _ _ T)); assumption). subst l2. rewrite Ek. exact B.
  - intros d d' H Hk. rewrite Ek. apply (di_ports_ord _ _ _ _ _ (Hdef d d' H Hk)).
  - intros d d' H Hk. rewrite Ek. apply (di_cables_ord _ _ _ _ _ (Hdef d d' H Hk)).
  - intros d d' H Hk. rewrite Ek. apply (di_children_ord _ _ _ _ _ (Hdef d d' H Hk)).
  - intros p p' H Hk.
    destruct (libs_objects_bundle s0 T0 n p RPorts KPort (or_introl (conj eq_refl eq_refl)) (Hobj p p' H ltac:(rewrite Hk; discriminate) ltac:(rewrite Hk; discriminate)) Hk) as [l [d [Hl [Hd Hp]]]].
    destruct (Hdd l d Hl Hd) as [d' Hdd']. destruct (di_ports _ _ _ _ _ (Hdef d d' Hdd' (proj1 (T0 _ _ _ Hd))) p Hp) as [p2 [Hpp [_ [_ [_ O]]]]].
    assert (p2 = p') by (apply (memo_fun M p p2 p' (st_fun _ _ _ T)); assumption). subst p2. rewrite Ek. exact O.
  - intros p p' H Hk.
    destruct (libs_objects_bundle s0 T0 n p RCables KCable (or_intror (conj eq_refl eq_refl)) (Hobj p p' H ltac:(rewrite Hk; discriminate) ltac:(rewrite Hk; discriminate)) Hk) as [l [d [Hl [Hd Hp]]]].
    destruct (Hdd l d Hl Hd) as [d' Hdd']. destruct (di_cables _ _ _ _ _ (Hdef d d' Hdd' (proj1 (T0 _ _ _ Hd))) p Hp) as [p2 [Hpp [_ [_ [_ O]]]]].
    assert (p2 = p') by (apply (memo_fun M p p2 p' (st_fun _ _ _ T)); assumption). subst p2. rewrite Ek. exact O.
  - intros x x' H Hk. rewrite (nf_iref _ _ _ _ _ _ _ NF), (nf_fx _ _ _ _ _ _ _ NF x x' H Hk).
    destruct (iref s0 x) as [e|] eqn:Er; [|reflexivity]. cbn.
    destruct (nf_cl _ _ _ _ _ _ _ NF x x' e H Hk Er) as [He _]. apply assoc_In_fst in He as [e' He']. fold (mget M e) in He'. rewrite He'. reflexivity.
  - intros d d' H Hk x'. destruct (nf_fd _ _ _ _ _ _ _ NF d d' H Hk) as [[Hnd Hnk] HinD].
    rewrite (nf_drefs _ _ _ _ _ _ _ NF). apply memb_In in HinD. rewrite HinD. rewrite filter_In. split.
    + intros [Hin Hmv]. apply mval_true in Hmv as [a Ha]. destruct (st_rng _ _ _ T a x' Ha) as [_ [Hn1 _]].
      destruct (ry_d1 _ _ _ Y d d' H Hk x' Hin) as [r [Hr [->|Hrn]]]; [|exists r; split; assumption].
      exfalso. apply (i2_ref _ (inv_r _ I0)) in Hr. destruct (Nat.lt_ge_cases r (next s0)) as [Hl|Hg]; [lia|]. rewrite (f_iref _ F0 r Hg) in Hr. discriminate.
    + intros [x [Hx Hxx]]. split; [|apply mval_true; exists x; exact Hxx].
      destruct (ry_d2 _ _ _ Y d d' H Hk x Hx) as [Hin|[n2 [Hxn2 Hin]]].
      * exfalso. apply (Hnk x Hin). apply in_map_iff. exists (x, x'). split; [reflexivity|exact Hxx].
      * assert (n2 = x') by (apply (memo_fun M x n2 x' (st_fun _ _ _ T)); assumption). subst n2. exact Hin.
  - intros i i' H Hk. rewrite (nf_ipwire _ _ _ _ _ _ _ NF). apply (ex_pin _ _ _ EXQ i i' H Hk).
  - intros x x' H Hk. rewrite (nf_ipins _ _ _ _ _ _ _ NF). pose proof (ex_inst _ _ _ EXQ x x' H Hk) as Hi.
    destruct (iref s0 x) as [e|] eqn:Er.
    + rewrite (Hflag x x' e H Hk Er) in Hi. exact Hi.
    + assert (Hnil : ipins s0 x = []).
      { destruct (ipins s0 x) as [|[k ow] l] eqn:El; [reflexivity|]. exfalso.
        assert (Hkk : In k (keys s0 x)) by (unfold keys; rewrite El; left; reflexivity).
        apply (k_keys _ (inv_k _ I0)) in Hkk as [d [p [H0 _]]]. congruence. }
      rewrite Hnil in Hi |- *. exact Hi.
  - intros w w' H Hk. rewrite (nf_wpins _ _ _ _ _ _ _ NF). rewrite <- (ex_wire _ _ _ EXQ w w' H Hk). apply map_opt_ext_in.
    intros q Hq. destruct q as [i|x i|]; cbn; try reflexivity.
    destruct (mget M x) as [x'|] eqn:Ex; [|reflexivity]. destruct (assoc i (ipins s0 x)) as [ow|] eqn:Eo; [|reflexivity].
    assert (Hik : In i (keys s0 x)) by (apply assoc_In_fst; exists ow; exact Eo).
    apply (k_keys _ (inv_k _ I0)) in Hik as [d [p [H0 _]]].
    assert (Hkx : kind_of s0 x = Some KInstance) by (apply (ft_r _ FT0); rewrite H0; discriminate).
    rewrite (Hflag x x' d (mget_in _ _ _ Ex) Hkx H0). reflexivity.
Qed.

Theorem clone_netlist_struct s0 n :
  UF s0 -> StartOK s0 -> (forall x e, iref s0 x = Some e -> kind_of s0 e = Some KDefinition) ->
  kind_of s0 n = Some KNetlist -> (forall t, top s0 n = Some t -> kind_of s0 t = Some KInstance) -> Closed s0 n ->
  snd (fst (clone_netlist s0 n)) = None ->
  exists M, NetStruct s0 n (fst (fst (clone_netlist s0 n))) (snd (clone_netlist s0 n)) M.
Proof. intros. exists (netlist_memo s0 n). apply clone_netlist_struct_m; assumption. Qed.


(* a decidable form of the closedness hypothesis *)
Definition net_insts (s : state) (n : id) : list id :=
  flat_map (fun l => flat_map (fun d => kids s RChildren d) (kids s RDefs l)) (kids s RLibs n) ++
  match top s n with Some t => [t] | None => [] end.
Definition closedb (s : state) (n : id) : bool :=
  forallb (fun x => match iref s x with
                    | None => true
                    | Some e => existsb (fun l => memb e (kids s RDefs l)) (kids s RLibs n)
                    end) (net_insts s n).

Lemma closedb_ok s n : closedb s n = true -> Closed s n.
Proof.
  unfold closedb. rewrite forallb_forall. intros H x e HN He.
  assert (Hx : In x (net_insts s n)).
  { unfold net_insts. apply in_or_app. destruct HN as [[l [d [Hl [Hd Hc]]]]|Ht].
    - left. apply in_flat_map. exists l. split; [exact Hl|]. apply in_flat_map. exists d. split; assumption.
    - right. rewrite Ht. left. reflexivity. }
  specialize (H x Hx). rewrite He in H. apply existsb_exists in H as [l [Hl Hm]]. exists l. split; [exact Hl|apply memb_In; exact Hm].
Qed.

(* in every state reachable by editing calls *)
Theorem clone_netlist_reachable_inv ops n :
  let s := run ops init in
  kind_of s n = Some KNetlist -> Closed s n -> snd (fst (clone_netlist s n)) = None -> Inv (fst (fst (clone_netlist s n))).
Proof.
  cbn zeta. intros Hk Hc Hok. destruct (reachable_refd_topk ops) as [HD HT].
  apply clone_netlist_inv; [apply reachable_uf|apply reachable_startok|exact HD|exact Hk|intros t Ht; apply (HT n t Ht)|exact Hc|exact Hok].
Qed.

Theorem clone_netlist_reachable_struct ops n :
  let s := run ops init in
  kind_of s n = Some KNetlist -> Closed s n -> snd (fst (clone_netlist s n)) = None ->
  exists M, NetStruct s n (fst (fst (clone_netlist s n))) (snd (clone_netlist s n)) M.
Proof.
  cbn zeta. intros Hk Hc Hok. destruct (reachable_refd_topk ops) as [HD HT].
  apply clone_netlist_struct; [apply reachable_uf|apply reachable_startok|exact HD|exact Hk|intros t Ht; apply (HT n t Ht)|exact Hc|exact Hok].
Qed.
