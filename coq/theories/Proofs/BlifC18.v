(* EBLIF engine: the lemmas behind Props/C18.v - well-formedness of what the reader returns,
   witnesses (vm_compute) for the clauses the reader violates, example documents. *)
From Coq Require Import List Arith NArith Bool Lia Permutation.
From Coq Require String Ascii.
From SV Require Import Base.Base Fmt.Blif Fmt.BlifRead Fmt.BlifWrite Fmt.BlifSpec
  Proofs.BlifBase Proofs.BlifWF Proofs.BlifExec.
Import ListNotations.

(* ---------- documents written as text ---------- *)
Fixpoint words_aux (cur : str) (s : str) : list str :=
  match s with
  | [] => match cur with [] => [] | _ => [cur] end
  | c :: s' =>
    if N.eqb c 32 then match cur with [] => words_aux [] s' | _ => cur :: words_aux [] s' end
    else words_aux (cur ++ [c]) s'
  end.
Definition W (s : String.string) : line := words_aux [] (s2l s).
Definition D (l : list String.string) : doc := map W l.

(* ---------- well-formedness ---------- *)
(* everything but self-containedness, for every document the reader accepts *)
Definition WFcore (n : bnv) : Prop :=
  NoDup (map m_name (b_models n)) /\ forall m, In m (b_models n) -> WFc (b_models n) m.

Theorem wf_core d n : elab d = Ok n -> WFcore n.
Proof. intro H. apply elab_inv in H. exact H. Qed.

Definition no_blackbox (d : doc) : bool :=
  match classify d with
  | Ok ss => forallb (fun x => negb (is_blackbox_stmt x)) ss
  | Error _ => true
  end.

Lemma elab_oinv d n : no_blackbox d = true -> elab d = Ok n -> Oinv (b_models n).
Proof.
  unfold no_blackbox, elab, elab_stmts. intros Hb H. apply bind_ok in H as [ss [H1 H]]. rewrite H1 in Hb.
  apply bind_ok in H as [s [H2 H3]]. eapply finish_oinv; [|exact H3].
  eapply exec_all_oinv; [exact Hb| |exact H2]. intros m [].
Qed.

Theorem wf_noblackbox d n : no_blackbox d = true -> elab d = Ok n -> WF n.
Proof.
  intros Hb H. pose proof (elab_oinv d n Hb H) as HO. apply elab_inv in H. destruct H as [Hnd Hall].
  split; [assumption|]. apply Forall_forall. intros m Hm. destruct (Hall m Hm) as [W1 W2 W3 W4 W5].
  constructor; auto. rewrite (HO m Hm). reflexivity.
Qed.

(* the self-containedness clause as a boolean, to refute it by computation *)
Definition self_contained_b (n : bnv) : bool :=
  forallb (fun m => match cable_pins (m_orphans m) with [] => true | _ => false end) (b_models n).

Lemma WF_self_contained n : WF n -> self_contained_b n = true.
Proof.
  intros [_ HF]. unfold self_contained_b. apply forallb_forall. intros m Hm.
  rewrite Forall_forall in HF. destruct (HF m Hm) as [_ _ _ _ _ Hs]. rewrite Hs. reflexivity.
Qed.

(* ---------- example documents ---------- *)
Module C18Docs.
Import String.
Local Open Scope string_scope.
Definition nm_top : str := s2l "top".
(* a flat design without black-box declarations: buses, unconn, .names, .latch, instance data *)
Definition doc_flat : doc := D [
  "# example";
  ".model top";
  ".inputs a b[0] b[1] clk";
  ".outputs y q";
  ".subckt AND2 A=a B=b[1] O=n1";
  ".cname u1";
  ".attr src file.v:3";
  ".param W 2";
  ".gate INV I=n1 O=y X[1]=unconn";
  ".names a b[0] n2";
  "11 1";
  ".latch n2 q re clk 0";
  ".end" ].

(* the same with the primitives declared as black boxes *)
Definition doc_blackbox : doc := D [
  ".model top";
  ".inputs a";
  ".outputs y";
  ".subckt INV I=a O=y";
  ".end";
  ".model INV";
  ".inputs I";
  ".outputs O";
  ".blackbox";
  ".end" ].
End C18Docs.
Export C18Docs.

Definition is_ok {A} (r : result A) : bool := match r with Ok _ => true | Error _ => false end.

Lemma doc_flat_reads : is_ok (elab doc_flat) = true.
Proof. vm_compute. reflexivity. Qed.

Lemma doc_flat_no_blackbox : no_blackbox doc_flat = true.
Proof. vm_compute. reflexivity. Qed.

Lemma doc_flat_supported : supported doc_flat = true.
Proof. vm_compute. reflexivity. Qed.

Lemma doc_blackbox_supported : supported doc_blackbox = true.
Proof. vm_compute. reflexivity. Qed.

(* the hypotheses of wf_noblackbox are satisfiable by a non-trivial document *)
Lemma wf_noblackbox_example : exists n, no_blackbox doc_flat = true /\ elab doc_flat = Ok n /\ WF n /\
  length (b_models n) = 5 /\ exists m, find_model nm_top (b_models n) = Some m /\ length (m_insts m) = 4.
Proof.
  destruct (elab doc_flat) as [n|e] eqn:E.
  - exists n. split; [apply doc_flat_no_blackbox|]. split; [reflexivity|]. split.
    + apply (wf_noblackbox doc_flat); [apply doc_flat_no_blackbox|exact E].
    + revert E. vm_compute. intro E. inversion E; subst n. split; [reflexivity|]. eexists. split; reflexivity.
  - pose proof doc_flat_reads as H. rewrite E in H. discriminate.
Qed.

(* ---------- refutation of self-containedness: .blackbox ---------- *)
Lemma wf_refuted_by_blackbox :
  exists d n, supported d = true /\ elab d = Ok n /\ ~ WF n.
Proof.
  exists doc_blackbox. destruct (elab doc_blackbox) as [n|e] eqn:E.
  - exists n. split; [apply doc_blackbox_supported|]. split; [reflexivity|].
    intro HW. apply WF_self_contained in HW. revert E HW. vm_compute. intros E. inversion E; subst n. discriminate.
  - exfalso. revert E. vm_compute. discriminate.
Qed.

(* ---------- refutation of write-then-read: the written file is rejected ---------- *)
Module C18Docs2.
Import String.
Local Open Scope string_scope.
(* three instances of one definition that keep their default names; the writer puts the .gate last *)
Definition doc_default_names : doc := D [
  ".model top";
  ".inputs a";
  ".outputs";
  ".gate IBUF I=a";
  ".subckt IBUF I=a";
  ".subckt IBUF I=a";
  ".end" ].
(* a comment between an instance statement and its .cname *)
Definition doc_comment_in_info : doc := D [
  ".model top";
  ".inputs a";
  ".outputs y";
  ".subckt INV I=a O=y";
  "# the name follows";
  ".cname u1";
  ".end" ].
(* a blank line between .model and its port lists *)
Definition doc_header_gap : doc := D [
  ".model top";
  "";
  ".inputs a";
  ".outputs y";
  ".subckt INV I=a O=y";
  ".end" ].
(* .conn before the statements that use the nets *)
Definition doc_conn_early : doc := D [
  ".model top";
  ".inputs a";
  ".outputs y";
  ".conn a n1";
  ".subckt INV I=n1 O=y";
  ".end" ].
End C18Docs2.
Export C18Docs2.


Lemma roundtrip_refuted : ~ C18_roundtrip_statement.
Proof.
  intro H. pose proof (H doc_default_names) as H1.
  remember (elab doc_default_names) as r eqn:Er. vm_compute in Er. subst r.
  destruct (H1 _ eq_refl) as [n' [H2 _]]. vm_compute in H2. discriminate.
Qed.

Lemma sound_refuted_comment_in_info :
  exists d n, supported d = false /\ elab d = Ok n /\ ~ denote d n.
Proof.
  exists doc_comment_in_info.
  remember (elab doc_comment_in_info) as r eqn:Er. vm_compute in Er. subst r.
  eexists. split; [vm_compute; reflexivity|]. split; [reflexivity|].
  intros [ss [Hg [HF _]]].
  vm_compute in Hg. inversion Hg; subst ss. clear Hg.
  vm_compute in HF. inversion HF as [|sec rest [Hsec _] _]; subst. destruct Hsec as [_ Hi _ _ _].
  specialize (Hi _ eq_refl). vm_compute in Hi. discriminate.
Qed.

Lemma same_wire_b_complete m a b :
  same_wire m a b ->
  existsb (fun c => existsb (fun w => wire_has a w && wire_has b w) (c_wires c)) (m_cables m) = true.
Proof.
  intros [c [w [Hc [Hw [Ha Hb]]]]]. apply existsb_exists. exists c. split; [assumption|].
  apply existsb_exists. exists w. split; [assumption|]. apply andb_true_iff. split; apply existsb_pinref; assumption.
Qed.

Lemma sound_refuted_header_gap :
  exists d n, supported d = false /\ elab d = Ok n /\ ~ denote d n.
Proof.
  exists doc_header_gap.
  remember (elab doc_header_gap) as r eqn:Er. vm_compute in Er. subst r.
  eexists. split; [vm_compute; reflexivity|]. split; [reflexivity|].
  intros [ss [Hg [HF _]]].
  vm_compute in Hg. inversion Hg; subst ss. clear Hg.
  cbn [sections_of split_sections b_models] in HF.
  inversion HF as [|sec rest [Hsec _] _]; subst. destruct Hsec as [_ _ _ Hn _].
  specialize (Hn eq_refl _ eq_refl (PTop [97%N] 0) (PInst 0 [73%N] 0)).
  destruct Hn as [_ Hn].
  match type of Hn with ?P -> _ => assert (HP : P) end.
  { exists ([97%N], 0), ([97%N], 0). vm_compute. split; [left; reflexivity|]. split; [right; right; left; reflexivity|]. left. reflexivity. }
  apply Hn in HP. apply same_wire_b_complete in HP. vm_compute in HP. discriminate.
Qed.
