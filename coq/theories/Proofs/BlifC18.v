(* EBLIF engine: the lemmas behind Props/C18.v - well-formedness of what the reader returns,
   witnesses (vm_compute) for the clauses the reader violates, example documents. *)
From Coq Require Import List Arith NArith Bool Lia Permutation.
From Coq Require String Ascii.
From SV Require Import Base.Base Fmt.Blif Fmt.BlifRead Fmt.BlifWrite Fmt.BlifSpec
  Proofs.BlifBase Proofs.BlifWF Proofs.BlifExec.
Import ListNotations.

(* ---------- documents written as text ---------- *)
Fixpoint words_aux (cur : str) (s : str) : list str :=
  match s with
  | [] => match cur with [] => [] | _ => [cur] end
  | c :: s' =>
    if N.eqb c 32 then match cur with [] => words_aux [] s' | _ => cur :: words_aux [] s' end
    else words_aux (cur ++ [c]) s'
  end.
Definition W (s : String.string) : line := words_aux [] (s2l s).
Definition D (l : list String.string) : doc := map W l.

(* ---------- well-formedness ---------- *)
(* everything but self-containedness, for every document the reader accepts *)
Definition WFcore (n : bnv) : Prop :=
  NoDup (map m_name (b_models n)) /\ forall m, In m (b_models n) -> WFc (b_models n) m.

Theorem wf_core d n : elab d = Ok n -> WFcore n.
Proof. intro H. apply elab_inv in H. exact H. Qed.

Lemma elab_oinv d n : elab d = Ok n -> Oinv (b_models n).
Proof.
  unfold elab, elab_stmts. intro H. apply bind_ok in H as [ss [H1 H]].
  apply bind_ok in H as [s [H2 H3]]. eapply finish_oinv; [|exact H3].
  eapply exec_all_oinv; [|exact H2]. intros m [].
Qed.

(* well-formed and self-contained, for every document the reader accepts *)
Theorem wf_all d n : elab d = Ok n -> WF n.
Proof.
  intro H. pose proof (elab_oinv d n H) as HO. apply elab_inv in H. destruct H as [Hnd Hall].
  split; [assumption|]. apply Forall_forall. intros m Hm. destruct (Hall m Hm) as [W1 W2 W3 W4 W5].
  constructor; auto. rewrite (HO m Hm). reflexivity.
Qed.

(* ---------- example documents ---------- *)
Module C18Docs.
Import String.
Local Open Scope string_scope.
Definition nm_top : str := s2l "top".
Definition i_ref_inv : str := s2l "INV".
(* a flat design without black-box declarations: buses, unconn, .names, .latch, instance data *)
Definition doc_flat : doc := D [
  "# example";
  ".model top";
  ".inputs a b[0] b[1] clk";
  ".outputs y q";
  ".subckt AND2 A=a B=b[1] O=n1";
  ".cname u1";
  ".attr src file.v:3";
  ".param W 2";
  ".gate INV I=n1 O=y X[1]=unconn";
  ".names a b[0] n2";
  "11 1";
  ".latch n2 q re clk 0";
  ".end" ].

(* the same with the primitives declared as black boxes *)
Definition doc_blackbox : doc := D [
  ".model top";
  ".inputs a";
  ".outputs y";
  ".subckt INV I=a O=y";
  ".end";
  ".model INV";
  ".inputs I";
  ".outputs O";
  ".blackbox";
  ".end" ].
End C18Docs.
Export C18Docs.

Definition is_ok {A} (r : result A) : bool := match r with Ok _ => true | Error _ => false end.

Lemma doc_flat_reads : is_ok (elab doc_flat) = true.
Proof. vm_compute. reflexivity. Qed.

Lemma doc_flat_supported : supported doc_flat = true.
Proof. vm_compute. reflexivity. Qed.

Lemma doc_blackbox_supported : supported doc_blackbox = true.
Proof. vm_compute. reflexivity. Qed.

(* the hypothesis of wf_all is satisfiable by non-trivial documents, with and without black boxes *)
Lemma wf_example : exists n, elab doc_flat = Ok n /\ WF n /\
  length (b_models n) = 5 /\ exists m, find_model nm_top (b_models n) = Some m /\ length (m_insts m) = 4.
Proof.
  remember (elab doc_flat) as r eqn:Er. pose proof Er as Er'. vm_compute in Er. subst r.
  eexists. split; [reflexivity|]. split.
  - apply (wf_all doc_flat). symmetry. exact Er'.
  - split; [reflexivity|]. eexists. split; reflexivity.
Qed.

Lemma wf_example_blackbox : exists n m, elab doc_blackbox = Ok n /\ WF n /\
  find_model (i_ref_inv) (b_models n) = Some m /\ m_lib m = LPrim /\ m_cables m = [] /\ length (m_ports m) = 2.
Proof.
  remember (elab doc_blackbox) as r eqn:Er. pose proof Er as Er'. vm_compute in Er. subst r.
  eexists. eexists. split; [reflexivity|]. split.
  - apply (wf_all doc_blackbox). symmetry. exact Er'.
  - vm_compute. repeat split; reflexivity.
Qed.

(* ---------- refutation of write-then-read: the written file is rejected ---------- *)
Module C18Docs2.
Import String.
Local Open Scope string_scope.
(* three instances of one definition that keep their default names; the writer puts the .gate last *)
Definition doc_default_names : doc := D [
  ".model top";
  ".inputs a";
  ".outputs";
  ".gate IBUF I=a";
  ".subckt IBUF I=a";
  ".subckt IBUF I=a";
  ".end" ].
(* a comment between an instance statement and its .cname *)
Definition doc_comment_in_info : doc := D [
  ".model top";
  ".inputs a";
  ".outputs y";
  ".subckt INV I=a O=y";
  "# the name follows";
  ".cname u1";
  ".end" ].
(* a blank line between .model and its port lists *)
Definition doc_header_gap : doc := D [
  ".model top";
  "";
  ".inputs a";
  ".outputs y";
  ".subckt INV I=a O=y";
  ".end" ].
(* comment lines and blank lines at every line boundary - between .model and the port lines, between the port
   lines, between an instance statement and its .cname/.attr/.param, inside the truth table of a .names -,
   the port lines' nets used by a .names and a .subckt, and no .end at the end of the file.  (A trailing
   "# ..." on a statement line never reaches the document: the tokenizer drops it.) *)
Definition doc_gaps : doc := D [
  "# head";
  ".model top";
  "";
  "# ports";
  ".inputs a b";
  "";
  ".outputs y z";
  "# clock";
  ".clock a";
  ".names a b y";
  "# rows";
  "11 1";
  "";
  "0- 1";
  "# name of the table";
  ".cname t1";
  ".subckt INV I=y O=z";
  "";
  "# the name follows";
  ".cname u1";
  "# and the rest";
  ".attr src f.v:3";
  "";
  ".param W 2" ].
(* .end is optional at the end of the file: after an instance statement, inside a truth table, in the header *)
Definition doc_no_end_inst : doc := D [ ".model top"; ".inputs a"; ".outputs y"; ".subckt INV I=a O=y" ].
Definition doc_no_end_rows : doc := D [ ".model top"; ".inputs a"; ".outputs y"; ".names a y"; "1 1" ].
Definition doc_no_end_hdr : doc := D [ ".model top"; ".inputs a"; ".outputs y" ].
(* the port lines in another order: the reader takes them (the theorem C18_sound_full_holds does not cover it) *)
Definition doc_outputs_first : doc := D [ ".model top"; ".clock c"; ".outputs y"; ".inputs a"; ".subckt INV I=a O=y"; ".end" ].
(* .conn before the statements that use the nets *)
Definition doc_conn_early : doc := D [
  ".model top";
  ".inputs a";
  ".outputs y";
  ".conn a n1";
  ".subckt INV I=n1 O=y";
  ".end" ].
(* the second .conn names the cable the first one used to create for the merged net *)
Definition doc_conn_capture : doc := D [
  ".model top";
  ".inputs a b c";
  ".outputs y";
  ".subckt INV I=a O=y";
  ".conn a b";
  ".conn a_0_b_0 c";
  ".end" ].
(* a hierarchical design: a declared sub-model, a declared black box, buses, unconn, .names, .latch,
   instance data, and a .conn after the statements that use the nets *)
Definition doc_hier : doc := D [
  "# hierarchical example";
  ".model top";
  ".inputs a b[0] b[1] clk";
  ".outputs y q";
  ".subckt half A=a B=b[1] S=n1 C=n3";
  ".cname u_half";
  ".attr src top.v:7";
  ".param WIDTH 2";
  ".gate INV I=n1 O=y X[1]=unconn";
  ".cname u_inv";
  ".names a b[0] n2";
  "11 1";
  ".latch n2 q re clk 0";
  ".conn n3 n4";
  ".end";
  ".model half";
  ".inputs A B";
  ".outputs S C";
  ".names A B S";
  "10 1";
  "01 1";
  ".names A B C";
  "11 1";
  ".end";
  ".model INV";
  ".inputs I X[0] X[1]";
  ".outputs O";
  ".blackbox";
  ".end" ].
(* .conn in any order and in chains: the first one stands before the statement that uses net b, the second
   names b again (b stands for a by then), the third joins two names of what is one net already *)
Definition doc_conn_chain : doc := D [
  ".model top";
  ".inputs a b c d";
  ".outputs y";
  ".conn a b";
  ".subckt INV I=b O=y";
  ".conn b c";
  ".conn c a";
  ".end" ].
(* the top-level pins a, b, c, d of doc_conn_capture / doc_conn_chain, and pin I of the first instance *)
Definition pin_a : pinref := PTop (s2l "a") 0.
Definition pin_b : pinref := PTop (s2l "b") 0.
Definition pin_c : pinref := PTop (s2l "c") 0.
Definition pin_d : pinref := PTop (s2l "d") 0.
Definition pin_i0 : pinref := PInst 0 (s2l "I") 0.
(* net names that merely CONTAIN the text unconn (rx_unconnected, __vpr__unconn3) next to the placeholder
   itself: as an operand and as the output of .names, as the actual of a .gate pin.  Before the repair of
   parse_name (`"unconn" in name` -> `name == "unconn"`) the second .names was called
   logic-gate_2_instance_0 instead of __vpr__unconn3 *)
Definition doc_names_unconn : doc := D [
  ".model top";
  ".inputs a rx_unconnected";
  ".outputs y __vpr__unconn3";
  ".names a rx_unconnected y";
  "11 1";
  ".names a y __vpr__unconn3";
  "1- 1";
  ".gate INV I=__vpr__unconn3 O=unconn";
  ".names a unconn";
  "1 1";
  ".end" ].
(* the names of its four instances and their recorded open pins, as the repaired reader gives them *)
Definition names_unconn_inst_names : list (option str) :=
  [Some (s2l "y"); Some (s2l "__vpr__unconn3"); Some (s2l "INV_instance_0"); Some (s2l "logic-gate_1_instance_0")].
Definition names_unconn_open : list (list str) := [[]; []; [s2l "O[0]"]; [s2l "out[0]"]].
Definition pin_rx : pinref := PTop (s2l "rx_unconnected") 0.
Definition pin_vpr : pinref := PTop (s2l "__vpr__unconn3") 0.
Definition pin_i0_in1 : pinref := PInst 0 (s2l "in_1") 0.
Definition pin_i1_out : pinref := PInst 1 (s2l "out") 0.
Definition pin_i2_I : pinref := PInst 2 (s2l "I") 0.
(* an inout port with the .outputs line first (before the repair of parse_input_ports: AssertionError) and the
   same file with the .inputs line first *)
Definition doc_inout_outputs_first : doc := D [ ".model top"; ".outputs io y"; ".inputs io a"; ".subckt AND2 A=io B=a O=y"; ".end" ].
Definition doc_inout_inputs_first : doc := D [ ".model top"; ".inputs io a"; ".outputs io y"; ".subckt AND2 A=io B=a O=y"; ".end" ].
Definition pin_io : pinref := PTop (s2l "io") 0.
Definition pin_i0_A : pinref := PInst 0 (s2l "A") 0.
Definition nm_io : str := s2l "io".
(* expected values of the repaired header-gap / comment-in-info / any-order examples *)
Definition gap_ports : list (str * dir) := [(s2l "a", DIn); (s2l "y", DOut)].
Definition of_ports : list (str * dir) := [(s2l "y", DOut); (s2l "a", DIn)].
Definition u1_names : list (option str) := [Some (s2l "u1")].
Definition info_comment : list (list str) := [[s2l "the"; s2l "name"; s2l "follows"]].
Definition gaps_cnames : list (option str) := [Some (s2l "t1"); Some (s2l "u1")].
Definition clock_a : option (list str) := Some [s2l "a"].
Definition clock_c : option (list str) := Some [s2l "c"].
End C18Docs2.
Export C18Docs2.

Lemma doc_hier_supported : supported doc_hier = true.
Proof. vm_compute. reflexivity. Qed.

Lemma doc_hier_reads : is_ok (elab doc_hier) = true.
Proof. vm_compute. reflexivity. Qed.


Lemma roundtrip_refuted : ~ C18_roundtrip_statement.
Proof.
  intro H. pose proof (H doc_default_names) as H1.
  remember (elab doc_default_names) as r eqn:Er. vm_compute in Er. subst r.
  destruct (H1 _ eq_refl) as [n' [H2 _]]. vm_compute in H2. discriminate.
Qed.

Lemma same_wire_b_complete m a b :
  same_wire m a b ->
  existsb (fun c => existsb (fun w => wire_has a w && wire_has b w) (c_wires c)) (m_cables m) = true.
Proof.
  intros [c [w [Hc [Hw [Ha Hb]]]]]. apply existsb_exists. exists c. split; [assumption|].
  apply existsb_exists. exists w. split; [assumption|]. apply andb_true_iff. split; apply existsb_pinref; assumption.
Qed.

(* the file joins net a with net b, and a third net called a_0_b_0 with net c.  Before the repair of
   merge_wires the reader called the cable of the merged net a_0_b_0, the second .conn found that cable
   and the port pins a and c ended on one wire.  Now wire a keeps its name and takes the pins of b: the
   pins a and b share a wire, the pins a_0_b_0 ... there is no such pin; c sits with neither *)
Lemma conn_capture_repaired :
  supported doc_conn_capture = true /\
  exists n m, elab doc_conn_capture = Ok n /\ find_model nm_top (b_models n) = Some m /\
    same_wire m pin_a pin_b /\ ~ same_wire m pin_a pin_c /\ ~ same_wire m pin_b pin_c /\
    length (m_cables m) = 5.   (* a, b, c, y and the file's own net a_0_b_0: no invented cable *)
Proof.
  split; [vm_compute; reflexivity|].
  remember (elab doc_conn_capture) as r eqn:Er. vm_compute in Er. subst r.
  eexists. eexists. split; [reflexivity|]. split; [vm_compute; reflexivity|]. split; [|split; [|split]].
  - eexists. eexists. split; [left; reflexivity|]. split; [left; reflexivity|]. cbn. split; [left; reflexivity|].
    right. right. left. reflexivity.
  - intro H. apply same_wire_b_complete in H. vm_compute in H. discriminate.
  - intro H. apply same_wire_b_complete in H. vm_compute in H. discriminate.
  - vm_compute. reflexivity.
Qed.

(* .conn before the statement that uses the net, a net named by two .conn, a .conn between two names of
   one net: a, b, c and the instance pin on net b share one wire; d has its own *)
Lemma conn_chain_reads :
  supported doc_conn_chain = true /\
  exists n m, elab doc_conn_chain = Ok n /\ find_model nm_top (b_models n) = Some m /\
    same_wire m pin_a pin_c /\ same_wire m pin_b pin_i0 /\ ~ same_wire m pin_a pin_d /\ length (m_cables m) = 5.
Proof.
  split; [vm_compute; reflexivity|].
  remember (elab doc_conn_chain) as r eqn:Er. vm_compute in Er. subst r.
  eexists. eexists. split; [reflexivity|]. split; [vm_compute; reflexivity|]. split; [|split; [|split]].
  - eexists. eexists. split; [left; reflexivity|]. split; [left; reflexivity|]. cbn. split; [left; reflexivity|].
    right. right. right. left. reflexivity.
  - eexists. eexists. split; [left; reflexivity|]. split; [left; reflexivity|]. cbn. split; [right; left; reflexivity|].
    right. right. left. reflexivity.
  - intro H. apply same_wire_b_complete in H. vm_compute in H. discriminate.
  - vm_compute. reflexivity.
Qed.

(* ---------- write-then-read on the example document (by computation) ---------- *)
Definition inst_key (i : inst) : option str * str * ikind * list (str * str) * list (str * str) * list (str * option str) :=
  (i_name i, i_ref i, i_kind i, i_attr i, i_param i, i_covers i).

Definition ikind_eqb (a b : ikind) : bool :=
  match a, b with KSub, KSub | KGate, KGate | KNames, KNames | KLatch, KLatch => true | _, _ => false end.

Definition inst_same_b (i j : inst) : bool :=
  ostr_eqb (i_name i) (i_name j) && str_eqb (i_ref i) (i_ref j) && ikind_eqb (i_kind i) (i_kind j) &&
  Nat.eqb (length (i_attr i)) (length (i_attr j)) && Nat.eqb (length (i_param i)) (length (i_param j)) &&
  Nat.eqb (length (i_covers i)) (length (i_covers j)).

(* every instance of [m] has a counterpart of the same name, definition, kind and data sizes in [m'] *)
Definition insts_covered_b (m m' : model) : bool :=
  forallb (fun i => existsb (inst_same_b i) (m_insts m')) (m_insts m).

Lemma roundtrip_example :
  exists n n' m m', elab doc_flat = Ok n /\ elab (emit n) = Ok n' /\
    find_model nm_top (b_models n) = Some m /\ find_model nm_top (b_models n') = Some m' /\
    insts_covered_b m m' = true /\ insts_covered_b m' m = true /\
    length (cable_pins (m_cables m)) = length (cable_pins (m_cables m')).
Proof.
  remember (elab doc_flat) as r eqn:Er. vm_compute in Er. subst r.
  eexists. remember (elab (emit _)) as r' eqn:Er'. vm_compute in Er'. subst r'.
  eexists. eexists. eexists. split; [reflexivity|]. split; [reflexivity|].
  split; [vm_compute; reflexivity|]. split; [vm_compute; reflexivity|].
  vm_compute. repeat split; reflexivity.
Qed.

(* ====================================================================== comment lines and blank lines *)
(* REPAIRED reader (peek_statement): in every mode of the line classifier a blank line changes nothing and a
   comment line gives its SComment and leaves the mode as it is - also between .model and the port lines,
   inside a truth table, inside the .cname/.attr/.param block of an instance *)
Definition gap_line (l : line) : Prop := l = [] \/ exists c, l = k_hash :: c.
Definition gap_stmts (l : line) : list stmt :=
  match l with [] => [] | _ :: c => [SComment c] end.

Lemma cl_line_gap md l : gap_line l -> cl_line md l = Ok (gap_stmts l, md).
Proof.
  intros [->|[c ->]].
  - destruct md; reflexivity.
  - destruct md; cbn [cl_line gap_stmts]; unfold cl_top, cl_hdr, cl_plain, cl_rows, cl_info;
      change (is_row_tok k_hash) with false; rewrite ?str_eqb_refl; reflexivity.
Qed.

Lemma classify_from_gap md l d :
  gap_line l -> classify_from md (l :: d) = (do r <- classify_from md d; Ok (gap_stmts l ++ r)).
Proof. intro H. cbn [classify_from]. rewrite (cl_line_gap md l H). reflexivity. Qed.

(* the reading of a document splits at any line boundary: a prefix is read up to some mode, the rest from it *)
Lemma classify_from_split d1 : forall md d2 r,
  classify_from md (d1 ++ d2) = Ok r ->
  exists md' s1 s2, r = s1 ++ s2 /\ classify_from md' d2 = Ok s2 /\
    forall d2' s2', classify_from md' d2' = Ok s2' -> classify_from md (d1 ++ d2') = Ok (s1 ++ s2').
Proof.
  induction d1 as [|l d1 IH]; intros md d2 r H.
  - exists md, [], r. split; [reflexivity|]. split; [exact H|]. intros d2' s2' H'. exact H'.
  - cbn [app classify_from] in H. apply bind_ok in H as [[s md1] [H1 H2]]. apply bind_ok in H2 as [rest [H2 H3]].
    inversion H3; subst r. destruct (IH md1 d2 rest H2) as [md' [s1 [s2 [E1 [E2 E3]]]]].
    exists md', (s ++ s1), s2. split; [rewrite E1, app_assoc; reflexivity|]. split; [exact E2|].
    intros d2' s2' H'. cbn [app classify_from]. rewrite H1. cbn [bind]. rewrite (E3 d2' s2' H'). cbn [bind].
    rewrite app_assoc. reflexivity.
Qed.

Lemma tokenized_gap l : gap_line l -> line_tokenized l = true.
Proof. intros [->|[c ->]]; [reflexivity|]. unfold line_tokenized. rewrite str_eqb_refl. reflexivity. Qed.

(* a comment line or blank line inserted at ANY line boundary of an accepted document: the document is still
   accepted, and its statements are the same ones with the comment at that place *)
Theorem gap_insertion d1 d2 l r :
  gap_line l -> classify (d1 ++ d2) = Ok r ->
  exists s1 s2, r = s1 ++ s2 /\ classify (d1 ++ l :: d2) = Ok (s1 ++ gap_stmts l ++ s2).
Proof.
  intros Hl H. unfold classify in H |- *.
  destruct (tokenized (d1 ++ d2)) eqn:Et; [|discriminate].
  assert (Et' : tokenized (d1 ++ l :: d2) = true).
  { unfold tokenized in Et |- *. rewrite forallb_app in Et |- *. apply andb_true_iff in Et as [A B].
    cbn [forallb]. rewrite A, B, (tokenized_gap l Hl). reflexivity. }
  rewrite Et'. destruct (classify_from_split d1 MTop d2 r H) as [md' [s1 [s2 [E1 [E2 E3]]]]].
  exists s1, s2. split; [exact E1|]. apply E3. rewrite (classify_from_gap md' l d2 Hl), E2. reflexivity.
Qed.

(* the end of the file closes the model in every mode inside a model *)
Lemma eof_closes md : md <> MTop -> classify_from md [] = Ok [SEnd].
Proof. destruct md; [congruence| | | |]; reflexivity. Qed.

(* so a blank line, wherever it is put, changes nothing of what the reader builds *)
Theorem blank_line_irrelevant d1 d2 n : elab (d1 ++ d2) = Ok n -> elab (d1 ++ [] :: d2) = Ok n.
Proof.
  unfold elab. intro H. apply bind_ok in H as [ss [H1 H2]].
  destruct (gap_insertion d1 d2 [] ss (or_introl eq_refl) H1) as [s1 [s2 [E1 E2]]].
  change (s1 ++ gap_stmts [] ++ s2) with (s1 ++ s2) in E2. rewrite <- E1 in E2.
  exact (eq_trans (f_equal (fun r => bind r elab_stmts) E2) H2).
Qed.


(* REPAIRED (finding inout-outputs-first): a port named in an .outputs line and in a later .inputs line is an INOUT
   port whose pin stays on the net it was put on, exactly as with the .inputs line first: same direction, same
   cables (as sets of pins per wire), the port pin on the wire of the gate's pin A *)
Definition dirs_of (m : model) : list (str * dir) := map (fun q => (p_name q, p_dir q)) (m_ports m).
Lemma inout_outputs_first_repaired :
  exists n m n' m', elab doc_inout_outputs_first = Ok n /\ find_model nm_top (b_models n) = Some m /\
    elab doc_inout_inputs_first = Ok n' /\ find_model nm_top (b_models n') = Some m' /\
    port_dir nm_io m = DInout /\ port_dir nm_io m' = DInout /\
    (forall x, In x (dirs_of m) <-> In x (dirs_of m')) /\
    same_wire m pin_io pin_i0_A /\ same_wire m' pin_io pin_i0_A /\
    length (cable_pins (m_cables m)) = length (cable_pins (m_cables m')).
Proof.
  remember (elab doc_inout_outputs_first) as r eqn:Er. vm_compute in Er. subst r.
  remember (elab doc_inout_inputs_first) as r' eqn:Er'. vm_compute in Er'. subst r'.
  eexists. eexists. eexists. eexists. split; [reflexivity|]. split; [vm_compute; reflexivity|].
  split; [reflexivity|]. split; [vm_compute; reflexivity|].
  split; [vm_compute; reflexivity|]. split; [vm_compute; reflexivity|]. split; [|split; [|split]].
  - intro x. vm_compute. tauto.
  - eexists. eexists. split; [left; reflexivity|]. split; [left; reflexivity|]. cbn. split; [left; reflexivity|].
    right. left. reflexivity.
  - eexists. eexists. split; [left; reflexivity|]. split; [left; reflexivity|]. cbn. split; [left; reflexivity|].
    right. left. reflexivity.
  - vm_compute. reflexivity.
Qed.
