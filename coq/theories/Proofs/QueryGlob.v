(* Proofs about Query/Glob.v: the matcher used by spydrnet/util/patterns.py in non-regex mode is
   the declarative shell-wildcard relation [Matches]; literal patterns match exactly themselves;
   case-insensitive matching; absolute patterns. *)
From Coq Require Import List NArith Bool Lia.
From SV Require Import Base.Base Query.Glob.
Import ListNotations.

(* ------------------------------------------------------------------------------------------ *)
(* computation rules of glob_match (the nested fixpoint is never unfolded after this point)     *)

Lemma glob_nil v : glob_match [] v = match v with [] => true | _ :: _ => false end.
Proof. reflexivity. Qed.

Lemma glob_star_unfold p v :
  glob_match (STAR :: p) v =
  glob_match p v || match v with [] => false | _ :: v' => glob_match (STAR :: p) v' end.
Proof. destruct v; reflexivity. Qed.

Lemma glob_cons_nonstar c p v : c <> STAR ->
  glob_match (c :: p) v =
  match v with [] => false | x :: v' => (N.eqb c QUEST || N.eqb c x) && glob_match p v' end.
Proof.
  intro H. apply N.eqb_neq in H. destruct v; cbn [glob_match]; rewrite H; reflexivity.
Qed.

Lemma quest_not_star : QUEST <> STAR.
Proof. discriminate. Qed.

Lemma glob_quest_unfold p v :
  glob_match (QUEST :: p) v = match v with [] => false | _ :: v' => glob_match p v' end.
Proof.
  rewrite (glob_cons_nonstar QUEST p v quest_not_star). destruct v; [reflexivity|].
  rewrite N.eqb_refl. reflexivity.
Qed.

Lemma glob_lit_unfold c p v : c <> STAR -> c <> QUEST ->
  glob_match (c :: p) v =
  match v with [] => false | x :: v' => N.eqb c x && glob_match p v' end.
Proof.
  intros H1 H2. rewrite (glob_cons_nonstar c p v H1). destruct v; [reflexivity|].
  apply N.eqb_neq in H2. rewrite H2. reflexivity.
Qed.

Global Opaque glob_match.

(* ------------------------------------------------------------------------------------------ *)
(* the declarative meaning of a wildcard pattern                                              *)

Inductive Matches : str -> str -> Prop :=
| M_nil : Matches [] []
| M_star : forall p v1 v2, Matches p v2 -> Matches (STAR :: p) (v1 ++ v2)
| M_quest : forall p x v, Matches p v -> Matches (QUEST :: p) (x :: v)
| M_lit : forall c p v, c <> STAR -> c <> QUEST -> Matches p v -> Matches (c :: p) (c :: v).

Lemma glob_star_skip p v1 v2 :
  glob_match p v2 = true -> glob_match (STAR :: p) (v1 ++ v2) = true.
Proof.
  intro H. induction v1 as [|x v1 IH]; cbn [app]; rewrite glob_star_unfold.
  - rewrite H. reflexivity.
  - rewrite IH. apply orb_true_r.
Qed.

Lemma glob_star_split p v :
  glob_match (STAR :: p) v = true -> exists v1 v2, v = v1 ++ v2 /\ glob_match p v2 = true.
Proof.
  induction v as [|x v IH]; rewrite glob_star_unfold; intro H.
  - rewrite orb_false_r in H. exists [], []. auto.
  - apply orb_true_iff in H as [H|H].
    + exists [], (x :: v). auto.
    + destruct (IH H) as (v1 & v2 & -> & H2). exists (x :: v1), v2. auto.
Qed.

(* law of '*': it stands for any sequence of characters (the empty one included) *)
Lemma glob_star p v :
  glob_match (STAR :: p) v = true <-> exists v1 v2, v = v1 ++ v2 /\ glob_match p v2 = true.
Proof.
  split; [apply glob_star_split|]. intros (v1 & v2 & -> & H). apply glob_star_skip, H.
Qed.

(* law of '?': it stands for exactly one character *)
Lemma glob_question p v :
  glob_match (QUEST :: p) v = true <-> exists x v', v = x :: v' /\ glob_match p v' = true.
Proof.
  rewrite glob_quest_unfold. destruct v as [|x v].
  - split; [discriminate|]. intros (x & v' & H & _). discriminate.
  - split; [intro H; exists x, v; auto|]. intros (y & v' & E & H). inversion E; subst. exact H.
Qed.

(* law of every other character: it stands for itself *)
Lemma glob_char c p v : c <> STAR -> c <> QUEST ->
  (glob_match (c :: p) v = true <-> exists v', v = c :: v' /\ glob_match p v' = true).
Proof.
  intros H1 H2. rewrite (glob_lit_unfold c p v H1 H2). destruct v as [|x v].
  - split; [discriminate|]. intros (v' & H & _). discriminate.
  - rewrite andb_true_iff, N.eqb_eq. split.
    + intros [-> H]. exists v. auto.
    + intros (v' & E & H). inversion E; subst. auto.
Qed.

Lemma glob_sound p : forall v, glob_match p v = true -> Matches p v.
Proof.
  induction p as [|c p IH]; intros v H.
  - rewrite glob_nil in H. destruct v; [constructor|discriminate].
  - destruct (N.eq_dec c STAR) as [->|Hs].
    + apply glob_star_split in H as (v1 & v2 & -> & H). constructor. apply IH, H.
    + destruct (N.eq_dec c QUEST) as [->|Hq].
      * apply glob_question in H as (x & v' & -> & H). constructor. apply IH, H.
      * apply (glob_char c p v Hs Hq) in H as (v' & -> & H). constructor; auto.
Qed.

Lemma glob_complete p v : Matches p v -> glob_match p v = true.
Proof.
  induction 1 as [|p v1 v2 _ IH|p x v _ IH|c p v H1 H2 _ IH].
  - reflexivity.
  - apply glob_star_skip, IH.
  - apply glob_question. exists x, v. auto.
  - apply (glob_char c p (c :: v) H1 H2). exists v. auto.
Qed.

Theorem glob_match_iff p v : glob_match p v = true <-> Matches p v.
Proof. split; [apply glob_sound|apply glob_complete]. Qed.

(* ------------------------------------------------------------------------------------------ *)
(* literal patterns                                                                            *)

Definition no_wild (p : str) : Prop := forall c, In c p -> c <> STAR /\ c <> QUEST.

Lemma no_wild_existsb p : existsb is_wild p = false <-> no_wild p.
Proof.
  unfold no_wild. induction p as [|c p IH]; cbn.
  - split; [intros _ c []|reflexivity].
  - rewrite orb_false_iff, IH. unfold is_wild. rewrite orb_false_iff, !N.eqb_neq. split.
    + intros [[H1 H2] H3] d [<-|Hd]; auto.
    + intro H. split; [apply H; auto|]. intros d Hd. apply H. auto.
Qed.

Theorem glob_literal p : no_wild p -> forall v, glob_match p v = true <-> v = p.
Proof.
  induction p as [|c p IH]; intros Hp v.
  - rewrite glob_nil. destruct v; split; congruence.
  - destruct (Hp c (or_introl eq_refl)) as [H1 H2].
    rewrite (glob_char c p v H1 H2). split.
    + intros (v' & -> & H). f_equal. apply IH; [|exact H]. intros d Hd. apply Hp. right. exact Hd.
    + intros ->. exists p. split; [reflexivity|]. apply IH; [|reflexivity].
      intros d Hd. apply Hp. right. exact Hd.
Qed.

(* prefix pattern  s*  (s literal) *)
Theorem glob_prefix s : no_wild s -> forall v,
  glob_match (s ++ [STAR]) v = true <-> exists w, v = s ++ w.
Proof.
  induction s as [|c s IH]; intros Hs v; cbn [app].
  - rewrite glob_star. split; [intros _; exists v; reflexivity|].
    intros _. exists v, []. rewrite app_nil_r. auto.
  - destruct (Hs c (or_introl eq_refl)) as [H1 H2].
    rewrite (glob_char c _ v H1 H2).
    assert (Hs' : no_wild s) by (intros d Hd; apply Hs; right; exact Hd).
    split.
    + intros (v' & -> & H). apply (IH Hs') in H as (w & ->). exists w. reflexivity.
    + intros (w & ->). exists (s ++ w). split; [reflexivity|]. apply (IH Hs'). exists w. reflexivity.
Qed.

(* ------------------------------------------------------------------------------------------ *)
(* the code path (escape '[' ; fnmatch.translate ; match) is glob_match                         *)

Definition tok_of (c : N) : tok :=
  if N.eqb c STAR then TStar else if N.eqb c QUEST then TAny else TLit c.

Lemma tokenize_escape p : tokenize (escape_brackets p) = map tok_of p.
Proof.
  unfold tokenize. induction p as [|c p IH]; [reflexivity|].
  cbn [escape_brackets map]. destruct (N.eqb c LBRACK) eqn:E.
  - apply N.eqb_eq in E; subst c. cbn. rewrite IH. reflexivity.
  - cbn [tokenize_aux]. unfold tok_of at 1.
    destruct (N.eqb c STAR); [rewrite IH; reflexivity|].
    destruct (N.eqb c QUEST); [rewrite IH; reflexivity|].
    rewrite E, IH. reflexivity.
Qed.

Lemma tok_star_unfold ts v :
  tok_match (TStar :: ts) v =
  tok_match ts v || match v with [] => false | _ :: v' => tok_match (TStar :: ts) v' end.
Proof. destruct v; reflexivity. Qed.

Lemma tok_match_glob p : forall v, tok_match (map tok_of p) v = glob_match p v.
Proof.
  induction p as [|c p IH]; intro v; [destruct v; reflexivity|].
  cbn [map]. unfold tok_of at 1. destruct (N.eqb c STAR) eqn:Es.
  - apply N.eqb_eq in Es; subst c. induction v as [|x v IHv].
    + rewrite tok_star_unfold, glob_star_unfold, IH. reflexivity.
    + rewrite tok_star_unfold, glob_star_unfold, IH, IHv. reflexivity.
  - apply N.eqb_neq in Es. destruct (N.eqb c QUEST) eqn:Eq.
    + apply N.eqb_eq in Eq; subst c. rewrite glob_quest_unfold. destruct v; cbn; auto.
    + apply N.eqb_neq in Eq. rewrite (glob_lit_unfold c p v Es Eq). destruct v; cbn; [reflexivity|].
      rewrite IH. reflexivity.
Qed.

Theorem fnmatchcase_escape v p : fnmatchcase v (escape_brackets p) = glob_match p v.
Proof. unfold fnmatchcase. rewrite tokenize_escape. apply tok_match_glob. Qed.

Lemma lower_c_lbrack c : N.eqb (lower_c c) LBRACK = N.eqb c LBRACK.
Proof.
  unfold lower_c, is_upper, LBRACK.
  destruct ((65 <=? c)%N && (c <=? 90)%N) eqn:E; [|reflexivity].
  apply andb_true_iff in E as [E1 E2]. apply N.leb_le in E1, E2.
  transitivity false; [|symmetry]; apply N.eqb_neq; lia.
Qed.

Lemma lower_escape p : lower (escape_brackets p) = escape_brackets (lower p).
Proof.
  induction p as [|c p IH]; [reflexivity|]. cbn [escape_brackets lower map].
  rewrite lower_c_lbrack. destruct (N.eqb c LBRACK) eqn:E.
  - cbn [map]. fold (lower (escape_brackets p)). rewrite IH. reflexivity.
  - cbn [map]. fold (lower (escape_brackets p)). rewrite IH. reflexivity.
Qed.

(* the non-regex branch of _value_matches_pattern, in closed form *)
Theorem value_matches_glob_eq v p is_case :
  value_matches_glob v p is_case =
  if is_case then glob_match p (value_or_empty v)
  else glob_match (lower p) (lower (value_or_empty v)).
Proof.
  unfold value_matches_glob. destruct is_case.
  - apply fnmatchcase_escape.
  - rewrite lower_escape. apply fnmatchcase_escape.
Qed.

(* ------------------------------------------------------------------------------------------ *)
(* case-insensitive matching                                                                   *)

Inductive MatchesCI : str -> str -> Prop :=
| MC_nil : MatchesCI [] []
| MC_star : forall p v1 v2, MatchesCI p v2 -> MatchesCI (STAR :: p) (v1 ++ v2)
| MC_quest : forall p x v, MatchesCI p v -> MatchesCI (QUEST :: p) (x :: v)
| MC_lit : forall c x p v, c <> STAR -> c <> QUEST -> lower_c c = lower_c x ->
    MatchesCI p v -> MatchesCI (c :: p) (x :: v).

Lemma lower_c_fix c : is_upper c = false -> lower_c c = c.
Proof. unfold lower_c. intros ->. reflexivity. Qed.

Lemma lower_c_star c : lower_c c = STAR <-> c = STAR.
Proof.
  unfold lower_c, is_upper, STAR. destruct ((65 <=? c)%N && (c <=? 90)%N) eqn:E; [|tauto].
  apply andb_true_iff in E as [E1 E2]. apply N.leb_le in E1, E2. split; lia.
Qed.

Lemma lower_c_quest c : lower_c c = QUEST <-> c = QUEST.
Proof.
  unfold lower_c, is_upper, QUEST. destruct ((65 <=? c)%N && (c <=? 90)%N) eqn:E; [|tauto].
  apply andb_true_iff in E as [E1 E2]. apply N.leb_le in E1, E2. split; lia.
Qed.

Lemma lower_app a b : lower (a ++ b) = lower a ++ lower b.
Proof. apply map_app. Qed.

Lemma lower_split v : forall a b, lower v = a ++ b -> exists v1 v2, v = v1 ++ v2 /\ lower v1 = a /\ lower v2 = b.
Proof.
  induction v as [|x v IH]; intros a b H.
  - cbn in H. symmetry in H. apply app_eq_nil in H as [-> ->]. exists [], []. auto.
  - destruct a as [|y a].
    + exists [], (x :: v). cbn in *. auto.
    + cbn in H. inversion H; subst. destruct (IH _ _ H2) as (v1 & v2 & -> & <- & <-).
      exists (x :: v1), v2. auto.
Qed.

Theorem nocase_iff_lower p : forall v,
  glob_match (lower p) (lower v) = true <-> MatchesCI p v.
Proof.
  induction p as [|c p IH]; intro v.
  - cbn [lower map]. rewrite glob_nil. destruct v; cbn; split; intro H; try discriminate;
      try constructor; inversion H.
  - cbn [lower map]. fold (lower p). destruct (N.eq_dec c STAR) as [->|Hs].
    + change (lower_c STAR) with STAR. rewrite glob_star. split.
      * intros (a & b & E & H). apply lower_split in E as (v1 & v2 & -> & _ & <-).
        constructor. apply IH, H.
      * intro H. inversion H; subst; [|congruence]. exists (lower v1), (lower v2).
        rewrite lower_app. split; [reflexivity|]. apply IH. assumption.
    + destruct (N.eq_dec c QUEST) as [->|Hq].
      * change (lower_c QUEST) with QUEST. rewrite glob_question. split.
        -- intros (x & v' & E & H). destruct v as [|y v]; [discriminate|]. cbn in E.
           inversion E; subst. constructor. apply IH, H.
        -- intro H. inversion H; subst; [|congruence]. exists (lower_c x), (lower v0).
           split; [reflexivity|]. apply IH. assumption.
      * assert (Hs' : lower_c c <> STAR) by (rewrite lower_c_star; exact Hs).
        assert (Hq' : lower_c c <> QUEST) by (rewrite lower_c_quest; exact Hq).
        rewrite (glob_char _ _ _ Hs' Hq'). split.
        -- intros (v' & E & H). destruct v as [|y v]; [discriminate|]. cbn in E.
           inversion E; subst. constructor; auto. apply IH, H.
        -- intro H. inversion H; subst; try congruence. exists (lower v0).
           split; [cbn; f_equal; congruence|]. apply IH. assumption.
Qed.

(* a case-insensitive match of a literal pattern is equality up to letter case *)
Theorem nocase_literal p : no_wild p -> forall v,
  glob_match (lower p) (lower v) = true <-> lower v = lower p.
Proof.
  intros Hp v. apply glob_literal. intros c Hc. unfold lower in Hc. apply in_map_iff in Hc as (d & <- & Hd).
  destruct (Hp d Hd). rewrite lower_c_star, lower_c_quest. auto.
Qed.

(* ------------------------------------------------------------------------------------------ *)
(* absolute patterns                                                                           *)

Theorem absolute_iff p is_case is_re :
  is_pattern_absolute p is_case is_re = true <-> is_case = true /\ is_re = false /\ no_wild p.
Proof.
  unfold is_pattern_absolute. destruct is_case, is_re; cbn; try (split; [discriminate|intros (?&?&?); discriminate]).
  rewrite negb_true_iff, no_wild_existsb. tauto.
Qed.

(* for an absolute pattern, matching is equality: what justifies answering it by a name lookup *)
Theorem absolute_match_eq p is_case is_re v :
  is_pattern_absolute p is_case is_re = true ->
  (value_matches_glob v p is_case = true <-> value_or_empty v = p).
Proof.
  intro H. apply absolute_iff in H as (-> & _ & Hp). rewrite value_matches_glob_eq.
  apply glob_literal, Hp.
Qed.
