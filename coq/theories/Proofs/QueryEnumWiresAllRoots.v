(* get_wires, selection ALL, from a collection of roots: the first loop yields / collects the union of
   what each root stands for (no marks: wl_run_exact), the second loop closes the collected pins along
   wires the first loop did not yield (query_wires_all_roots_spec).  The single-root theorem is the
   instance roots = [it]. *)
From Coq Require Import List Arith Bool Lia Relations.
From SV Require Import Base.Base IR.State IR.NS IR.Ops Proofs.Inv1a Proofs.Inv2a Proofs.InvW Proofs.AssocX
  Hier.Paths Hier.Enum Hier.Trace Proofs.KindD Query.Filter Query.Enum Query.EnumSpec
  Proofs.FieldT Proofs.QueryEnumWL Proofs.QueryEnumBase Proofs.QueryEnumView Proofs.QueryEnumPorts Proofs.QueryEnumPins
  Proofs.QueryEnumCables Proofs.QueryEnumWires Proofs.QueryEnumWiresSpec Proofs.QueryEnumWiresAll.
Import ListNotations.

(* what the first loop yields (WY) and collects (WP) from a collection of roots *)
Definition all_roots_out (s : state) (roots : list item) (o : wout) : Prop :=
  exists it, In it roots /\ all_item s it o.

Definition reach_wires_all_roots (s : state) (roots : list item) (w : id) : Prop :=
  all_roots_out s roots (WY w) \/
  reach_avoid_of s (fun z => all_roots_out s roots (WY z)) (fun p => all_roots_out s roots (WP p)) w.

(* the closure over predicates only depends on their extensions *)
Lemma reach_avoid_of_ext s (Y Y' : id -> Prop) (P P' : pin -> Prop) w :
  (forall z, Y z <-> Y' z) -> (forall p, P p <-> P' p) -> reach_avoid_of s Y P w -> reach_avoid_of s Y' P' w.
Proof.
  intros HY HP (p & w0 & H1 & H2 & H3 & H4). exists p, w0. split; [apply HP, H1|]. split; [exact H2|]. split; [rewrite <- HY; exact H3|].
  apply (rt_mono (fun a b => wire_adj s a b /\ ~ Y b)); [|exact H4]. intros a b [Ha Hb]. split; [exact Ha|rewrite <- HY; exact Hb].
Qed.

Section Roots.
Variable s : state.
Hypothesis W : QWF s.
Variable rec : bool.

(* the first loop from several roots: the union over the roots *)
Lemma wl_all_roots fuel roots l :
  wl_run (acts_wires s rec SAll) (bad_wires s SAll) fuel roots = WOk l ->
  forall o, In o l <-> all_roots_out s roots o.
Proof.
  intros E o. rewrite (wl_run_exact (acts_wires s rec SAll) _ fuel roots l (plain_no_marks _ (plain_wires s rec SAll)) E o).
  unfold all_roots_out. split; intros (it & Hit & H); exists it; (split; [exact Hit|apply (wa_item s W rec); exact H]).
Qed.

Theorem query_wires_all_roots_spec cb fuel roots res :
  query_wires s cb fuel roots rec SAll = WOk res ->
  NoDup res /\ forall w, In w res <-> reach_wires_all_roots s roots w /\ cb w = true.
Proof.
  intro H. assert (H' := H). unfold query_wires in H'.
  destruct (wl_run (acts_wires s rec SAll) (bad_wires s SAll) fuel roots) as [l| |] eqn:E; try discriminate H'. clear H'.
  pose proof (wl_all_roots fuel roots l E) as Hem.
  destruct (query_wires_all_exact s cb fuel roots rec l res E H) as [Hnd Hex]. split; [exact Hnd|]. intro w. rewrite (Hex w).
  assert (HY : forall z, In z (yielded l) <-> all_roots_out s roots (WY z)).
  { intro z. rewrite <- Hem. unfold yielded. rewrite in_flat_map. split.
    - intros (o & Ho & Hz). destruct o as [w'|q]; cbn in Hz; [|destruct Hz]. destruct Hz as [<-|[]]. exact Ho.
    - intro Ho. exists (WY z). split; [exact Ho|left; reflexivity]. }
  assert (HP : forall q, In q (searched l) <-> all_roots_out s roots (WP q)).
  { intro q. rewrite <- Hem. unfold searched. rewrite in_flat_map. split.
    - intros (o & Ho & Hz). destruct o as [w'|q']; cbn in Hz; [destruct Hz|]. destruct Hz as [<-|[]]. exact Ho.
    - intro Ho. exists (WP q). split; [exact Ho|left; reflexivity]. }
  unfold reach_wires_all_roots. rewrite (HY w), (reach_avoid_of_iff s _ _ (yielded l) (searched l) w HY HP). tauto.
Qed.
End Roots.

(* one root *)
Lemma all_roots_out_one s it o : all_roots_out s [it] o <-> all_item s it o.
Proof. unfold all_roots_out. split; [intros (x & [<-|[]] & H); exact H|intro H; exists it; split; [left; reflexivity|exact H]]. Qed.

Lemma reach_wires_all_roots_one s it w : reach_wires_all_roots s [it] w <-> reach_wires_all s it w.
Proof.
  unfold reach_wires_all_roots, reach_wires_all. rewrite all_roots_out_one.
  split; (intros [H|H]; [left; exact H|right]); (eapply reach_avoid_of_ext; [| |exact H]); intro z; cbv beta;
    rewrite all_roots_out_one; tauto.
Qed.

(* the single-root theorem is the instance roots = [it] *)
Corollary query_wires_all_spec_of_roots s (W : QWF s) rec cb fuel it res :
  query_wires s cb fuel [it] rec SAll = WOk res ->
  NoDup res /\ forall w, In w res <-> reach_wires_all s it w /\ cb w = true.
Proof.
  intro H. destruct (query_wires_all_roots_spec s W rec cb fuel [it] res H) as [Hn Hw]. split; [exact Hn|].
  intro w. rewrite (Hw w), reach_wires_all_roots_one. tauto.
Qed.

(* the union of the roots: a wire some root yields is returned; the order of the roots, the recursive
   flag and the fuel do not change the set of wires returned *)
Corollary query_wires_all_roots_perm s (W : QWF s) cb f1 f2 rec1 rec2 roots1 roots2 r1 r2 :
  (forall it, In it roots1 <-> In it roots2) ->
  query_wires s cb f1 roots1 rec1 SAll = WOk r1 -> query_wires s cb f2 roots2 rec2 SAll = WOk r2 ->
  forall w, In w r1 <-> In w r2.
Proof.
  intros Hr H1 H2 w.
  rewrite (proj2 (query_wires_all_roots_spec s W rec1 cb f1 roots1 r1 H1) w), (proj2 (query_wires_all_roots_spec s W rec2 cb f2 roots2 r2 H2) w).
  assert (Ho : forall o, all_roots_out s roots1 o <-> all_roots_out s roots2 o).
  { intro o. unfold all_roots_out. split; intros (it & Hit & H); exists it; (split; [apply Hr, Hit|exact H]). }
  unfold reach_wires_all_roots. rewrite (Ho (WY w)).
  split; intros [[H|H] Hc]; (split; [|exact Hc]); try (left; exact H); right;
    (eapply reach_avoid_of_ext; [| |exact H]); intro z; cbv beta; rewrite Ho; tauto.
Qed.

Print Assumptions query_wires_all_roots_spec.
Print Assumptions query_wires_all_spec_of_roots.
Print Assumptions query_wires_all_roots_perm.

(* ---- on the netlist exa (one net through three cells): every collection of roots that touches the
   net returns its four wires once each, in the order the roots are met; no root, no wire ---- *)
Example exa_all_two_roots :
  map (fun r => query_wires exa (fun _ => true) 100 r false SAll)
      [[IE 5; IE 7]; [IE 7; IE 5]; [IE 5]; [IE 7]; [IE 2; IE 9]; [IE 21; IE 21]; []; [IE 18; IO 14 7]] =
  [WOk [9; 18; 20; 21]; WOk [9; 18; 20; 21]; WOk [9; 18; 20; 21]; WOk [9; 20; 18; 21];
   WOk [18; 9; 20; 21]; WOk [21; 18; 9; 20]; WOk []; WOk [20; 9; 18; 21]].
Proof. vm_compute. reflexivity. Qed.

Example exa_all_two_roots_one : query_wires exa (fun _ => true) 100 [IE 5; IE 7] false SAll = WOk [9; 18; 20; 21].
Proof. vm_compute. reflexivity. Qed.

(* the specification names the same four wires for the two roots *)
Example exa_roots_spec w : reach_wires_all_roots exa [IE 5; IE 7] w <-> In w [9; 18; 20; 21].
Proof.
  destruct (query_wires_all_roots_spec exa exa_qwf false (fun _ => true) 100 [IE 5; IE 7] _ exa_all_two_roots_one) as [_ H].
  rewrite (H w). tauto.
Qed.

Print Assumptions exa_roots_spec.
