(* C10 across Definition.clone: in every state reachable by editing calls, after a completed clone of
   a definition that carries a naming policy every namespace table is still exactly the names
   (identifiers) of the children of its scope - the tables of the original design untouched, the
   table of the copy rebuilt from the copy's children by the re-applied policy. *)
From Coq Require Import List Arith Bool Lia.
From RecordUpdate Require Import RecordSet.
From SV Require Import Base.Base IR.State IR.NS IR.Ops Xform.Clone Proofs.AssocX Proofs.Frame Proofs.Inv1a Proofs.Inv2a
  Proofs.InvW Proofs.Fresh Proofs.RefusedFull Proofs.NsSlot Proofs.NsInv Proofs.CloneFrame Proofs.CloneStart
  Proofs.CloneInv Proofs.RefK Proofs.CloneRef Proofs.CloneT Proofs.TabK.
Import ListNotations RecordSetNotations.

Definition is_container (k : kind) : bool :=
  match k with KNetlist | KLibrary | KDefinition => true | _ => false end.

Lemma fresh_table_container pl s y t : fresh_table pl s y = Some t -> exists k, kind_of s y = Some k /\ is_container k = true.
Proof. unfold fresh_table. destruct (kind_of s y) as [[]|]; try discriminate; intros _; eexists; split; reflexivity. Qed.

(* assigning the policy creates tables only for containers of the subtree *)
Lemma dict_set_ns_tab s c v y :
  nstab (fst (dict_set s c str_NS v)) y = nstab s y \/
  (In y (subtree s c) /\ exists k, kind_of s y = Some k /\ is_container k = true).
Proof.
  unfold dict_set, ns_dictionary_set. rewrite str_eqb_refl.
  destruct (match sassoc str_NS (data s c) with Some v0 => val_eqb v0 v | None => false end); cbn [bindR ret fst]; [left; reflexivity|].
  destruct (ns_parent s c); [left; reflexivity|].
  destruct (pol_of_val v) as [pl|]; [|left; reflexivity].
  destruct (is_compliant pl s c); [|left; reflexivity]. cbn [bindR ret fst].
  destruct (apply_namespace_spec pl s c) as [_ [_ [_ [_ Ht]]]]. cbn. rewrite Ht.
  destruct (memb y (subtree s c)) eqn:Hm; [|left; reflexivity].
  destruct (fresh_table pl s y) as [t|] eqn:Ef; [|left; reflexivity].
  right. split; [apply memb_In; exact Hm|apply (fresh_table_container pl s y t Ef)].
Qed.

Lemma clone_alloc_tab s k s1 x : clone_alloc s k = (s1, x) ->
  forall y, (is_container k = false \/ (Above s /\ y <> x)) -> nstab s1 y = nstab s y.
Proof.
  unfold clone_alloc, alloc. cbn zeta.
  set (sa := s <| next := S (next s) |> <| kind_of ::= fun f => upd f (next s) (Some k) |>).
  destruct (has_data k); intro E; injection E as <- <-; [|reflexivity].
  intros y Hy. cbn. unfold ns_create.
  destruct (dict_set_ns_tab sa (next s) (VStr (pol_name (policy sa))) y) as [H|[Hin [k0 [Hk Hc]]]]; [exact H|exfalso].
  assert (Hkx : kind_of sa (next s) = Some k) by (cbn; apply upd_same).
  destruct Hy as [Hnc|[Hab Hne]].
  - unfold subtree in Hin. rewrite Hkx in Hin. destruct k; try discriminate Hnc; destruct Hin as [<-|[]]; rewrite Hkx in Hk; injection Hk as <-; discriminate Hc.
  - assert (Hsub : subtree sa (next s) = [next s] \/ ~ is_container k = true).
    { unfold subtree. rewrite Hkx. unfold net_subtree, lib_subtree, def_subtree.
      change (kids sa) with (kids s). rewrite !(proj1 (Hab _ (next s) (Nat.le_refl _))). destruct k; cbn; left; reflexivity. }
    destruct Hsub as [Hs|Hs].
    + rewrite Hs in Hin. destruct Hin as [<-|[]]. apply Hne. reflexivity.
    + unfold subtree in Hin. rewrite Hkx in Hin. destruct k; try (exfalso; apply Hs; reflexivity); destruct Hin as [<-|[]]; apply Hne; reflexivity.
Qed.

Definition TSf (f : SM -> id -> SM * id) : Prop :=
  forall s m x s' m' x', f (s, m) x = ((s', m'), x') -> forall y, nstab s' y = nstab s y.

Lemma ts_clone_each f : TSf f -> forall l s m s' m' l', clone_each f l (s, m) = ((s', m'), l') -> forall y, nstab s' y = nstab s y.
Proof.
  intro Hf. induction l as [|x l IH]; intros s m s' m' l' E y; cbn [clone_each] in E.
  - injection E as <- <- <-. reflexivity.
  - destruct (f (s, m) x) as [[s1 m1] x'] eqn:E1. destruct (clone_each f l (s1, m1)) as [[s2 m2] l2] eqn:E2.
    injection E as <- <- <-. rewrite (IH _ _ _ _ _ E2 y). apply (Hf _ _ _ _ _ _ E1).
Qed.

Lemma ts_pin_clone1 : TSf pin_clone1.
Proof.
  intros s m i s' m' i' E y. unfold pin_clone1 in E. destruct (clone_alloc s KPin) as [s1 x] eqn:Ea.
  injection E as <- <- <-. cbn. apply (clone_alloc_tab _ _ _ _ Ea). left. reflexivity.
Qed.
Lemma ts_wire_clone1 : TSf wire_clone1.
Proof.
  intros s m i s' m' i' E y. unfold wire_clone1 in E. destruct (clone_alloc s KWire) as [s1 x] eqn:Ea.
  injection E as <- <- <-. cbn. apply (clone_alloc_tab _ _ _ _ Ea). left. reflexivity.
Qed.
Lemma ts_inst_clone1 : TSf inst_clone1.
Proof.
  intros s m i s' m' i' E y. unfold inst_clone1 in E. destruct (clone_alloc s KInstance) as [s1 x] eqn:Ea.
  injection E as <- <- <-. cbn. apply (clone_alloc_tab _ _ _ _ Ea). left. reflexivity.
Qed.
Lemma tab_fold_set_par r p : forall L s, nstab (fold_ids (fun s i => set_par s r i p) L s) = nstab s.
Proof. induction L as [|c L IH]; intro s; cbn [fold_ids]; [reflexivity|]. rewrite IH. reflexivity. Qed.
Lemma ts_port_clone1 : TSf port_clone1.
Proof.
  intros s m p s' m' p' E y. unfold port_clone1 in E. destruct (clone_alloc s KPort) as [s1 x] eqn:Ea.
  match type of E with context [clone_each pin_clone1 ?l ?sm] => destruct (clone_each pin_clone1 l sm) as [[s2 m2] pins'] eqn:E2 end.
  injection E as <- <- <-. cbn. rewrite tab_fold_set_par. cbn.
  rewrite (ts_clone_each pin_clone1 ts_pin_clone1 _ _ _ _ _ _ E2 y). apply (clone_alloc_tab _ _ _ _ Ea). left. reflexivity.
Qed.
Lemma ts_cable_clone1 : TSf cable_clone1.
Proof.
  intros s m p s' m' p' E y. unfold cable_clone1 in E. destruct (clone_alloc s KCable) as [s1 x] eqn:Ea.
  match type of E with context [clone_each wire_clone1 ?l ?sm] => destruct (clone_each wire_clone1 l sm) as [[s2 m2] ws'] eqn:E2 end.
  injection E as <- <- <-. cbn. rewrite tab_fold_set_par. cbn.
  rewrite (ts_clone_each wire_clone1 ts_wire_clone1 _ _ _ _ _ _ E2 y). apply (clone_alloc_tab _ _ _ _ Ea). left. reflexivity.
Qed.

(* writes that leave tables and data alone *)
Definition tdsame (s s' : state) : Prop := nstab s' = nstab s /\ data s' = data s.
Lemma td_refl s : tdsame s s. Proof. split; reflexivity. Qed.
Lemma td_trans a b c : tdsame a b -> tdsame b c -> tdsame a c. Proof. intros [] []. split; congruence. Qed.
Lemma td_bind (r : R) f s : tdsame s (fst r) -> (forall s1, tdsame s1 (fst (f s1))) -> tdsame s (fst (r >>= f)).
Proof. destruct r as [s1 [x|]]; cbn; intros H1 H2; [exact H1|]. eapply td_trans; [exact H1|apply H2]. Qed.
Lemma td_fold_idsR f l : (forall s x, tdsame s (fst (f s x))) -> forall s, tdsame s (fst (fold_idsR f l s)).
Proof. intro H. induction l as [|x l IH]; intro s; cbn; [apply td_refl|]. apply td_bind; [apply H|apply IH]. Qed.
Lemma td_port_rr m s p : tdsame s (fst (port_rr m s p)).
Proof. unfold port_rr. apply td_fold_idsR. intros s1 i. destruct (mwire m (ipwire s1 i)); split; reflexivity. Qed.
Lemma td_cable_rr m s c : tdsame s (fst (cable_rr m s c)).
Proof. unfold cable_rr. apply td_fold_idsR. intros s1 w. destruct (map_opt _ _); split; reflexivity. Qed.
Lemma td_inst_rr_def m s x : tdsame s (fst (inst_rr_def m s x)).
Proof. unfold inst_rr_def. destruct (map_opt _ _); split; reflexivity. Qed.
Lemma td_register_child s x : tdsame s (fst (register_child s x)).
Proof. unfold register_child. destruct (iref s x); split; reflexivity. Qed.

(* Definition._clone: only the copy itself can have received a table *)
Lemma def_clone1_tab s m d s' m' d' e :
  Above s -> def_clone1 (s, m) d = ((s', m', d'), e) -> forall y, y <> next s -> nstab s' y = nstab s y.
Proof.
  intros Hab E y Hy. unfold def_clone1 in E. destruct (clone_alloc s KDefinition) as [s1 x] eqn:Ea.
  destruct (clone_alloc_kp s KDefinition s1 x Ea) as [Hx _].
  match type of E with context [clone_each port_clone1 ?l ?sm] => destruct (clone_each port_clone1 l sm) as [[s2 m2] ports'] eqn:E2 end.
  match type of E with context [clone_each cable_clone1 ?l ?sm] => destruct (clone_each cable_clone1 l sm) as [[s3 m3] cables'] eqn:E3 end.
  match type of E with context [clone_each inst_clone1 ?l ?sm] => destruct (clone_each inst_clone1 l sm) as [[s4 m4] children'] eqn:E4 end.
  injection E as <- _ _ _.
  match goal with |- nstab (fst ?rr) y = _ => assert (Hrr : tdsame s4 (fst rr)) end.
  { eapply td_trans; [|apply td_bind; [apply td_fold_idsR; intros s6 p'; eapply td_trans; [|apply td_port_rr]; split; reflexivity|]].
    - split; reflexivity.
    - intro s6. apply td_bind; [apply td_fold_idsR; intros s7 c'; eapply td_trans; [|apply td_cable_rr]; split; reflexivity|].
      intro s7. apply td_fold_idsR. intros s8 x'. eapply td_trans; [|apply td_inst_rr_def]. split; reflexivity. }
  destruct Hrr as [-> _].
  rewrite (ts_clone_each inst_clone1 ts_inst_clone1 _ _ _ _ _ _ E4 y), (ts_clone_each cable_clone1 ts_cable_clone1 _ _ _ _ _ _ E3 y),
    (ts_clone_each port_clone1 ts_port_clone1 _ _ _ _ _ _ E2 y).
  cbn. apply (clone_alloc_tab _ _ _ _ Ea). right. split; [exact Hab|]. rewrite Hx. exact Hy.
Qed.

(* ---- data of identifiers below a bound is not written by the copy machinery ---- *)
Definition DMa (a : id) (s s' : state) : Prop := forall y, y < a -> data s' y = data s y.
Lemma dm_refl a s : DMa a s s. Proof. intros y _. reflexivity. Qed.
Lemma dm_trans a x y z : DMa a x y -> DMa a y z -> DMa a x z.
Proof. intros H1 H2 q Hq. rewrite H2, H1 by exact Hq. reflexivity. Qed.
Lemma dm_same a s s' : data s' = data s -> DMa a s s'. Proof. intros H y _. rewrite H. reflexivity. Qed.
Lemma dm_td a s s' : tdsame s s' -> DMa a s s'. Proof. intros [_ H]. apply dm_same, H. Qed.

Lemma clone_alloc_data s k s1 x : clone_alloc s k = (s1, x) -> (is_container k = false \/ Above s) ->
  forall y, y <> x -> data s1 y = data s y.
Proof.
  unfold clone_alloc, alloc. cbn zeta.
  set (sa := s <| next := S (next s) |> <| kind_of ::= fun f => upd f (next s) (Some k) |>).
  destruct (has_data k); intro E; injection E as <- <-; [|reflexivity].
  intros Hc y Hy. cbn. unfold ns_create. rewrite dict_set_data; [reflexivity|].
  assert (Hkx : kind_of sa (next s) = Some k) by (cbn; apply upd_same).
  intro Hin. unfold subtree in Hin. rewrite Hkx in Hin. unfold net_subtree, lib_subtree, def_subtree in Hin.
  change (kids sa) with (kids s) in Hin.
  destruct Hc as [Hc|Hab].
  - destruct k; try discriminate Hc; destruct Hin as [<-|[]]; apply Hy; reflexivity.
  - rewrite ?(proj1 (Hab _ (next s) (Nat.le_refl _))) in Hin. destruct k; cbn in Hin; destruct Hin as [<-|[]]; apply Hy; reflexivity.
Qed.

Definition DMf (f : SM -> id -> SM * id) : Prop :=
  forall a s m x s' m' x', a <= next s -> f (s, m) x = ((s', m'), x') -> DMa a s s'.

Lemma dm_clone_each f : DMf f -> KMf f -> forall l a s m s' m' l', a <= next s -> clone_each f l (s, m) = ((s', m'), l') -> DMa a s s'.
Proof.
  intros Hf Hm. induction l as [|x l IH]; intros a s m s' m' l' Ha E; cbn [clone_each] in E.
  - injection E as <- <- <-. apply dm_refl.
  - destruct (f (s, m) x) as [[s1 m1] x'] eqn:E1. destruct (clone_each f l (s1, m1)) as [[s2 m2] l2] eqn:E2.
    injection E as <- <- <-. destruct (Hm _ _ _ _ _ _ E1) as [Hn _].
    assert (Ha1 : a <= next s1) by lia.
    eapply dm_trans; [apply (Hf a _ _ _ _ _ _ Ha E1)|apply (IH a _ _ _ _ _ Ha1 E2)].
Qed.

Lemma dm_alloc_noncont a s k s1 x : a <= next s -> is_container k = false -> clone_alloc s k = (s1, x) -> DMa a s s1.
Proof.
  intros Ha Hc Ea y Hy. destruct (clone_alloc_kp s k s1 x Ea) as [Hx _].
  apply (clone_alloc_data _ _ _ _ Ea (or_introl Hc)). lia.
Qed.

Lemma dm_pin_clone1 : DMf pin_clone1.
Proof.
  intros a s m i s' m' i' Ha E. unfold pin_clone1 in E. destruct (clone_alloc s KPin) as [s1 x] eqn:Ea.
  injection E as <- <- <-. eapply dm_trans; [apply (dm_alloc_noncont a s KPin s1 x Ha eq_refl Ea)|apply dm_same; reflexivity].
Qed.
Lemma dm_wire_clone1 : DMf wire_clone1.
Proof.
  intros a s m i s' m' i' Ha E. unfold wire_clone1 in E. destruct (clone_alloc s KWire) as [s1 x] eqn:Ea.
  injection E as <- <- <-. eapply dm_trans; [apply (dm_alloc_noncont a s KWire s1 x Ha eq_refl Ea)|apply dm_same; reflexivity].
Qed.
Lemma dm_copy_data a s p x : a <= x -> DMa a s (copy_data s p x).
Proof. intros Ha y Hy. cbn. unfold upd. replace (Nat.eqb y x) with false by (symmetry; apply Nat.eqb_neq; lia). reflexivity. Qed.
Lemma dm_inst_clone1 : DMf inst_clone1.
Proof.
  intros a s m i s' m' i' Ha E. unfold inst_clone1 in E. destruct (clone_alloc s KInstance) as [s1 x] eqn:Ea.
  destruct (clone_alloc_kp s KInstance s1 x Ea) as [Hx _].
  injection E as <- <- <-. eapply dm_trans; [apply (dm_alloc_noncont a s KInstance s1 x Ha eq_refl Ea)|].
  eapply dm_trans; [|apply dm_copy_data; lia]. apply dm_same; reflexivity.
Qed.
Lemma data_fold_set_par r p : forall L s, data (fold_ids (fun s i => set_par s r i p) L s) = data s.
Proof. induction L as [|c L IH]; intro s; cbn [fold_ids]; [reflexivity|]. rewrite IH. reflexivity. Qed.
Lemma dm_port_clone1 : DMf port_clone1.
Proof.
  intros a s m p s' m' p' Ha E. unfold port_clone1 in E. destruct (clone_alloc s KPort) as [s1 x] eqn:Ea.
  destruct (clone_alloc_kp s KPort s1 x Ea) as [Hx [Hn1 _]].
  match type of E with context [clone_each pin_clone1 ?l ?sm] => destruct (clone_each pin_clone1 l sm) as [[s2 m2] pins'] eqn:E2 end.
  injection E as <- <- <-. eapply dm_trans; [apply (dm_alloc_noncont a s KPort s1 x Ha eq_refl Ea)|].
  assert (Ha1 : a <= next s1) by lia.
  eapply dm_trans; [apply (dm_clone_each pin_clone1 dm_pin_clone1 km_pin_clone1 _ a _ _ _ _ _ Ha1 E2)|].
  eapply dm_trans; [|apply dm_copy_data; lia]. apply dm_same. cbn. rewrite data_fold_set_par. reflexivity.
Qed.
Lemma dm_cable_clone1 : DMf cable_clone1.
Proof.
  intros a s m p s' m' p' Ha E. unfold cable_clone1 in E. destruct (clone_alloc s KCable) as [s1 x] eqn:Ea.
  destruct (clone_alloc_kp s KCable s1 x Ea) as [Hx [Hn1 _]].
  match type of E with context [clone_each wire_clone1 ?l ?sm] => destruct (clone_each wire_clone1 l sm) as [[s2 m2] ws'] eqn:E2 end.
  injection E as <- <- <-. eapply dm_trans; [apply (dm_alloc_noncont a s KCable s1 x Ha eq_refl Ea)|].
  assert (Ha1 : a <= next s1) by lia.
  eapply dm_trans; [apply (dm_clone_each wire_clone1 dm_wire_clone1 km_wire_clone1 _ a _ _ _ _ _ Ha1 E2)|].
  eapply dm_trans; [|apply dm_copy_data; lia]. apply dm_same. cbn. rewrite data_fold_set_par. reflexivity.
Qed.

(* the copy of a definition carries the data dictionary of the original *)
Lemma def_clone1_data s m d s' m' d' e :
  Above s -> d < next s -> def_clone1 (s, m) d = ((s', m', d'), e) -> data s' (next s) = data s d.
Proof.
  intros Hab Hd E. unfold def_clone1 in E. destruct (clone_alloc s KDefinition) as [s1 x] eqn:Ea.
  destruct (clone_alloc_kp s KDefinition s1 x Ea) as [Hx [Hn1 _]].
  pose proof (clone_alloc_data _ _ _ _ Ea (or_intror Hab) d ltac:(lia)) as Hdd.
  match type of E with context [clone_each port_clone1 ?l ?sm] => destruct (clone_each port_clone1 l sm) as [[s2 m2] ports'] eqn:E2 end.
  match type of E with context [clone_each cable_clone1 ?l ?sm] => destruct (clone_each cable_clone1 l sm) as [[s3 m3] cables'] eqn:E3 end.
  match type of E with context [clone_each inst_clone1 ?l ?sm] => destruct (clone_each inst_clone1 l sm) as [[s4 m4] children'] eqn:E4 end.
  injection E as <- _ _ _.
  match goal with |- data (fst ?rr) _ = _ => assert (Hrr : tdsame s4 (fst rr)) end.
  { eapply td_trans; [|apply td_bind; [apply td_fold_idsR; intros s6 p'; eapply td_trans; [|apply td_port_rr]; split; reflexivity|]].
    - split; reflexivity.
    - intro s6. apply td_bind; [apply td_fold_idsR; intros s7 c'; eapply td_trans; [|apply td_cable_rr]; split; reflexivity|].
      intro s7. apply td_fold_idsR. intros s8 x'. eapply td_trans; [|apply td_inst_rr_def]. split; reflexivity. }
  destruct Hrr as [_ ->].
  destruct (km_clone_each port_clone1 km_port_clone1 _ _ _ _ _ _ E2) as [N2 _].
  destruct (km_clone_each cable_clone1 km_cable_clone1 _ _ _ _ _ _ E3) as [N3 _].
  assert (Hn1c : next (copy_data s1 d x) = S (next s)) by exact Hn1.
  assert (A2 : S (next s) <= next (copy_data s1 d x)) by lia. assert (A3 : S (next s) <= next s2) by lia. assert (A4 : S (next s) <= next s3) by lia.
  rewrite (dm_clone_each inst_clone1 dm_inst_clone1 km_inst_clone1 _ (S (next s)) _ _ _ _ _ A4 E4 (next s) (Nat.lt_succ_diag_r _)).
  rewrite (dm_clone_each cable_clone1 dm_cable_clone1 km_cable_clone1 _ (S (next s)) _ _ _ _ _ A3 E3 (next s) (Nat.lt_succ_diag_r _)).
  rewrite (dm_clone_each port_clone1 dm_port_clone1 km_port_clone1 _ (S (next s)) _ _ _ _ _ A2 E2 (next s) (Nat.lt_succ_diag_r _)).
  cbn. rewrite Hx, upd_same. exact Hdd.
Qed.

(* ---- dropping the policy of the root of an orphan subtree ---- *)
Lemma drop_namespace_root_none s e : nstab (drop_namespace s e) e = None.
Proof.
  unfold drop_namespace.
  set (f := fun (s0 : state) (x : id) =>
    let s1 := set_nstab s0 x None in
    if negb (Nat.eqb x e) && has_key s1 x str_NS then data_erase (emit s1 (EDictDel x str_NS)) x str_NS else s1).
  assert (Hstep : forall s0 x y, nstab (f s0 x) y = if Nat.eqb y x then None else nstab s0 y).
  { intros s0 x y. unfold f. cbn zeta. destruct (negb (Nat.eqb x e) && _); cbn; unfold upd; destruct (Nat.eqb y x); reflexivity. }
  assert (Hkeep : forall xs s0, nstab s0 e = None -> nstab (fold_left f xs s0) e = None).
  { induction xs as [|x xs IH]; intros s0 H0; cbn [fold_left]; [exact H0|]. apply IH. rewrite Hstep. destruct (Nat.eqb e x); [reflexivity|exact H0]. }
  assert (Hin : forall xs s0, In e xs -> nstab (fold_left f xs s0) e = None).
  { induction xs as [|x xs IH]; intros s0 H; [destruct H|]. destruct H as [<-|H]; cbn [fold_left]; [|apply IH; exact H].
    apply Hkeep. rewrite Hstep, Nat.eqb_refl. reflexivity. }
  apply Hin. apply subtree_head.
Qed.

Lemma nsinv_after_drop sB d' :
  (forall p t, p <> d' -> nstab sB p = Some t -> TabOK sB (kmem sB) p t) ->
  ns_parent sB d' = None -> has_key sB d' str_NS = true ->
  NsInv (fst (dict_del sB d' str_NS)) /\ ksame sB (fst (dict_del sB d' str_NS)).
Proof.
  intros HX Hpar Hkey. split; [|apply (proj1 (dict_del_ns_facts sB d'))].
  unfold dict_del, ns_dictionary_delete. rewrite str_eqb_refl, Hpar, Hkey. cbn [bindR ret fst].
  set (sC := drop_namespace sB d').
  assert (Q : nsq sB (emit sC (EDictDel d' str_NS))) by (eapply nsq_trans; [apply nsq_drop_namespace|apply nsq_emit]).
  assert (Hnone : nstab (emit sC (EDictDel d' str_NS)) d' = None) by (cbn; apply drop_namespace_root_none).
  assert (G : forall sD, nsq sB sD -> nstab sD d' = None -> NsInv sD).
  { intros sD [K1 K2 K3 K4 K5 K6] Hn p t Hpt.
    assert (Hpd : p <> d') by (intros ->; rewrite Hn in Hpt; discriminate).
    assert (Hb : nstab sB p = Some t) by (destruct (K6 p) as [H|H]; rewrite H in Hpt; [exact Hpt|discriminate]).
    apply (tabok_ext sB sD (kmem sB) (kmem sD) p t (HX p t Hpd Hb)).
    - intros r c _. unfold kmem. rewrite K1. tauto.
    - intros r c _ _. split; [apply K4|apply K5]. }
  destruct (has_key (emit sC (EDictDel d' str_NS)) d' str_NS); cbn [fst ret raise].
  - apply G; [eapply nsq_trans; [exact Q|apply nsq_erase_ns]|exact Hnone].
  - apply G; assumption.
Qed.

Lemma invt_ksame s s' : ksame s s' -> InvT s -> InvT s'.
Proof. intros [K1 K2 _ _ _] H r p c Hc. rewrite K1 in Hc. rewrite K2. apply H. exact Hc. Qed.
Lemma inv1a_ksame s s' : ksame s s' -> Inv1a s -> Inv1a s'.
Proof. intros [K1 _ K3 _ _]. apply inv1a_cont. split; assumption. Qed.

(* the main statement *)
Theorem clone_definition_nsinv ops d :
  let s := run ops init in
  d < next s -> has_key s d str_NS = true -> snd (fst (clone_definition s d)) = None ->
  let s' := fst (fst (clone_definition s d)) in NsInv s' /\ InvT s' /\ Inv1a s'.
Proof.
  cbn zeta. set (s := run ops init). intros Hd Hkey.
  destruct (reachable_nsinv ops) as [HI [HT [F HN]]]. fold s in HI, HT, F, HN.
  pose proof (reachable_tabk ops) as TK. pose proof (reachable_startok ops) as HS. fold s in TK, HS.
  pose proof (inv_a _ HI) as I1.
  pose proof (above_of_fresh s F) as Ab. pose proof (parlt_of_inv1a s I1 Ab) as Pl.
  unfold clone_definition. destruct (def_clone1 (s, []) d) as [[[s1 m1] d'] [e|]] eqn:E; cbn [fst snd]; [discriminate|].
  destruct (def_clone1_kp s [] d s1 m1 d' Ab Pl E) as [Hd' [Hn [Hf [Hg [Hpd [Ab1 Pl1]]]]]].
  destruct (def_clone1_t s [] d s1 m1 d' Ab Pl E) as [Hkd T1].
  pose proof (def_clone1_tab s [] d s1 m1 d' None Ab E) as Htab.
  pose proof (def_clone1_data s [] d s1 m1 d' None Ab Hd E) as Hdat.
  destruct (def_clone1_spec (next s) s s [] d s1 m1 d' None (ci_start s HS) E) as [C1 _]. pose proof (ci_os _ _ _ _ C1) as O1.
  destruct (km_def_clone1 _ _ _ _ _ _ _ E) as [_ Km].
  destruct (fold_idsR register_child (kids s1 RChildren d') s1) as [s2 [e|]] eqn:Ef; cbn [bindR fst snd]; [discriminate|].
  destruct (register_children_spec _ _ _ Ef) as [_ [Rk [Rp [Rn [Rkd _]]]]].
  pose proof (td_fold_idsR register_child (kids s1 RChildren d') td_register_child s1) as [Rt Rd]. rewrite Ef in Rt, Rd. cbn [fst] in Rt, Rd.
  set (sB := set_drefs s2 d' []).
  assert (Bk : kids sB = kids s1) by exact Rk. assert (Bp : par sB = par s1) by exact Rp.
  assert (Bkd : kind_of sB = kind_of s1) by exact Rkd. assert (Bt : nstab sB = nstab s1) by exact Rt.
  assert (Bd : data sB = data s1) by exact Rd.
  (* containment and typing of the state before the policy is re-applied *)
  assert (I1s : Inv1a s1) by (apply (inv1a_extend s s1); try assumption; lia).
  assert (I1B : Inv1a sB) by (apply (inv1a_cont s1); [split; assumption|exact I1s]).
  assert (Hlt : forall r p c, In c (kids s r p) -> c < next s).
  { intros r p c Hc. apply (i1_kids _ I1) in Hc. destruct (Nat.lt_ge_cases c (next s)) as [H|H]; [exact H|].
    rewrite (proj2 (Ab r c H)) in Hc. discriminate. }
  assert (TB : InvT sB).
  { intros r p c Hc. rewrite Bk in Hc. rewrite Bkd.
    destruct (Nat.lt_ge_cases p (next s)) as [Hp|Hp].
    - destruct (Hf r p Hp) as [Ek _]. rewrite Ek in Hc. rewrite !Km by (try exact Hp; apply (Hlt r p c Hc)). apply HT. exact Hc.
    - destruct (Nat.lt_ge_cases p (next s1)) as [Hp1|Hp1]; [apply T1; [lia|exact Hc]|].
      rewrite (proj1 (Ab1 r p Hp1)) in Hc. destruct Hc. }
  (* tables: exact everywhere except at the copy *)
  assert (HX : forall p t, p <> d' -> nstab sB p = Some t -> TabOK sB (kmem sB) p t).
  { intros p t Hpd' Hpt. rewrite Bt, Htab in Hpt by (rewrite <- Hd'; exact Hpd').
    assert (Hp : p < next s).
    { destruct (Nat.lt_ge_cases p (next s)) as [H|H]; [exact H|]. rewrite (tab_none_above s p TK F H) in Hpt. discriminate. }
    apply (tabok_ext s sB (kmem s) (kmem sB) p t (HN p t Hpt)).
    - intros r c _. unfold kmem. rewrite Bk. destruct (Hf r p Hp) as [-> _]. tauto.
    - intros r c _ Hc. unfold name_key, ident_key, get_str. rewrite Bd.
      rewrite (os_data _ _ _ O1 c (Hlt r p c Hc)). split; reflexivity. }
  assert (HparB : ns_parent sB d' = None) by (unfold ns_parent; rewrite Bkd, Hkd, Bp; apply Hpd).
  assert (HdB : data sB d' = data s d) by (rewrite Bd, Hd'; exact Hdat).
  assert (HkeyB : has_key sB d' str_NS = true) by (unfold has_key in *; rewrite HdB; exact Hkey).
  unfold reapply. fold sB. unfold has_key in HkeyB. destruct (sassoc str_NS (data sB d')) as [pv|]; [|discriminate].
  destruct (nsinv_after_drop sB d' HX HparB) as [ND KD]; [unfold has_key; rewrite HdB; exact Hkey|].
  destruct (dict_del sB d' str_NS) as [sD [e|]]; cbn [bindR fst snd] in *; [discriminate|].
  intros _.
  pose proof (inv1a_ksame _ _ KD I1B) as I1D. pose proof (invt_ksame _ _ KD TB) as TD.
  split; [apply nsinv_dict_set; assumption|].
  pose proof (proj1 (dict_set_ns_facts sD d' pv)) as KE.
  split; [apply (invt_ksame _ _ KE TD)|apply (inv1a_ksame _ _ KE I1D)].
Qed.
