(* Engine `verilog`, document-level reader: the frame of a whole module declaration. While the module held at position
   c is read, ITS definition changes freely (its declarations re-base its bundles); every OTHER definition only gains
   ports (on instantiation), keeps every label, and keeps its instances, their names and references (lstepX). Hence a
   connection of a definition k <> c to an instance whose referenced definition is not c keeps its meaning. *)
From Coq Require Import List ZArith Bool Arith Lia Permutation.
From SV Require Import Base.Base Fmt.VBits Fmt.VTop Fmt.VDoc Fmt.VElab Fmt.VSpec Fmt.VSem
  Proofs.VerilogLists Proofs.VerilogGrow Proofs.VElabBase Proofs.VElabInv Proofs.VElabWf Proofs.VElabExpr Proofs.VElabConn
  Proofs.VElabAssign Proofs.VElabNets Proofs.VElabTop Proofs.VElabStable Proofs.VElabVis Proofs.VElabFrame.
Import ListNotations.
Open Scope Z_scope.

Definition irefs (d : edef) : list (str * dref) := map (fun i => (ei_name i, ei_ref i)) (ed_insts d).

Record lmonoS (d d' : edef) : Prop := { lS_mono : lmono d d'; lS_insts : irefs d' = irefs d }.

Lemma lmonoS_refl d : lmonoS d d.
Proof. split; [apply lmono_refl|reflexivity]. Qed.

Lemma lmonoS_trans a b c : lmonoS a b -> lmonoS b c -> lmonoS a c.
Proof. intros [M1 I1] [M2 I2]. split; [eapply lmono_trans; eassumption|congruence]. Qed.

Record lstepX (X : nat -> Prop) (s s' : estate) : Prop := {
  lx_names : exists extra, names s' = names s ++ extra;
  lx_defs : forall k, ~ X k -> lmonoS (get_def k s) (get_def k s') }.

Definition LSX (X : nat -> Prop) (s s' : estate) : Prop := AllD s -> lstepX X s s' /\ AllD s'.

Lemma LSX_refl X s : LSX X s s.
Proof. intro A. split; [|exact A]. constructor; [exists []; rewrite app_nil_r; reflexivity|intros k _; apply lmonoS_refl]. Qed.

Lemma LSX_trans X a b c : LSX X a b -> LSX X b c -> LSX X a c.
Proof.
  intros H1 H2 A. destruct (H1 A) as [[(e1 & N1) D1] A1]. destruct (H2 A1) as [[(e2 & N2) D2] A2]. split; [|exact A2].
  constructor; [exists (e1 ++ e2); rewrite N2, N1, app_assoc; reflexivity|]. intros k Hk. eapply lmonoS_trans; [apply D1|apply D2]; exact Hk.
Qed.

Lemma fold_res_LSX {A} X (f : A -> estate -> result estate) l :
  (forall x s s', In x l -> f x s = Ok s' -> LSX X s s') -> forall s s', fold_res f l s = Ok s' -> LSX X s s'.
Proof. apply fold_res_rel; [apply LSX_refl|apply LSX_trans]. Qed.

Lemma same_defs_LSX X s s' : st_defs s' = st_defs s -> LSX X s s'.
Proof.
  intros E A. assert (G : forall k, get_def k s' = get_def k s) by (intro k; unfold get_def; rewrite E; reflexivity).
  split; [constructor|].
  - exists []. unfold names. rewrite E, app_nil_r. reflexivity.
  - intros k _. rewrite G. apply lmonoS_refl.
  - intro k. rewrite G. apply A.
Qed.

Lemma put_def_LSX (X : nat -> Prop) k d' s : ed_name d' = ed_name (get_def k s) -> (DInv (get_def k s) -> DInv d') ->
  (~ X k -> DInv (get_def k s) -> lmonoS (get_def k s) d') -> LSX X s (put_def k d' s).
Proof.
  intros Nm HI HM A. destruct (le_lt_dec (length (st_defs s)) k) as [Ho|Hk]; [rewrite put_def_out by exact Ho; apply LSX_refl; exact A|].
  split; [constructor|].
  - exists []. rewrite app_nil_r. apply names_put. exact Nm.
  - intros j Hj. destruct (Nat.eq_dec j k) as [->|Hne]; [rewrite get_put_same by exact Hk; apply HM; [exact Hj|apply A]|].
    rewrite get_put_other by exact Hne. apply lmonoS_refl.
  - intro j. destruct (Nat.eq_dec j k) as [->|Hne]; [rewrite get_put_same by exact Hk; apply HI; apply A|].
    rewrite get_put_other by exact Hne. apply A.
Qed.

(* the definition being read: any definition-level step *)
Lemma put_def_LSX_in (X : nat -> Prop) k d' s : X k -> dstep (get_def k s) d' -> LSX X s (put_def k d' s).
Proof. intros Hx [N I _]. apply put_def_LSX; [exact N|exact I|intros Hn; contradiction]. Qed.

Lemma lift_LSX (X : nat -> Prop) cur f s s' : X cur -> (forall d d', f d = Ok d' -> dstep d d') -> lift cur f s = Ok s' -> LSX X s s'.
Proof.
  intros Hx H1 H. unfold lift in H. apply bind_ok in H. destruct H as (d & Hd & H). inversion H; subst.
  apply put_def_LSX_in; [exact Hx|eapply H1; exact Hd].
Qed.

(* any definition: a step that keeps labels and instances *)
Lemma put_def_LSX_S (X : nat -> Prop) k d' s : dstep (get_def k s) d' -> (DInv (get_def k s) -> lmonoS (get_def k s) d') -> LSX X s (put_def k d' s).
Proof. intros [N I _] H. apply put_def_LSX; [exact N|exact I|intros _; exact H]. Qed.

Lemma cou_port_lmonoS name l r dir d : DInv d -> lmonoS d (fst (cou_port name l r dir false d)).
Proof. intro I. split; [apply cou_port_lmono; exact I|]. unfold cou_port. destruct (find_port name d); reflexivity. Qed.

Lemma upd_inst_lmonoS k f d : (forall i, ei_name (f i) = ei_name i) -> (forall i, ei_ref (f i) = ei_ref i) ->
  lmonoS d (set_insts d (nth_upd k f (ed_insts d))).
Proof.
  intros Hn Hr. split; [apply upd_inst_lmono; assumption|]. unfold irefs. cbn [ed_insts set_insts].
  apply nth_upd_map. intro x. rewrite Hn, Hr. reflexivity.
Qed.

Lemma get_blackbox_LSX X name s s' k : get_blackbox name s = (s', k) -> LSX X s s'.
Proof.
  intros G A. destruct (get_blackbox_LS _ _ _ _ G A) as [[N D] A']. split; [|exact A']. constructor; [exact N|].
  intros j _. split; [apply D|]. unfold get_blackbox in G. destruct (find_def name s); inversion G; subst; [reflexivity|].
  destruct (lt_dec j (length (st_defs s))) as [Hj|Hj].
  - unfold get_def. cbn. rewrite app_nth1 by exact Hj. reflexivity.
  - unfold get_def. cbn. rewrite (nth_overflow (st_defs s)) by lia. destruct (Nat.eq_dec j (length (st_defs s))) as [->|Hne].
    + rewrite app_nth2, Nat.sub_diag by lia. reflexivity.
    + rewrite nth_overflow by (rewrite app_length; cbn; lia). reflexivity.
Qed.

Lemma named_conn_LSX (X : nat -> Prop) cur ii rk pc s s' : X cur -> named_conn cur ii rk pc s = Ok s' -> LSX X s s'.
Proof.
  unfold named_conn. destruct pc as [pname [e|]]; destruct (has_glob pname); try discriminate; intros Hx H.
  - apply bind_ok in H. destruct H as ([d1 ws] & H1 & H).
    set (s1 := put_def cur d1 s) in *.
    pose proof (cou_port_dstep pname (Some (Z.of_nat (length ws) - 1)%Z) (Some 0%Z) None false (get_def rk s1)) as X1.
    pose proof (cou_port_lmonoS pname (Some (Z.of_nat (length ws) - 1)%Z) (Some 0%Z) None (get_def rk s1)) as X2.
    destruct (cou_port _ _ _ _ _ (get_def rk s1)) as [rd1 pk]. cbn [fst] in X1, X2.
    set (s2 := put_def rk rd1 s1) in *.
    apply bind_ok in H. destruct H as (calls & _ & H). apply bind_ok in H. destruct H as (d2 & H2 & H). inversion H; subst s'. clear H.
    eapply LSX_trans; [apply put_def_LSX_in; [exact Hx|eapply expr_wires_dstep; exact H1]|].
    eapply LSX_trans; [apply (put_def_LSX_S X rk rd1 s1 X1 X2)|]. apply put_def_LSX_in; [exact Hx|eapply connect_all_dstep; exact H2].
  - inversion H; subst. rewrite upd_def_put. apply put_def_LSX_S; [apply cou_port_dstep|apply cou_port_lmonoS].
Qed.

Lemma inst_item_LSX (X : nat -> Prop) cur m i params attrs conns s s' : X cur -> inst_item cur m i params attrs conns s = Ok s' -> LSX X s s'.
Proof.
  unfold inst_item. intros Hx H.
  destruct (get_blackbox m s) as [s1 rk] eqn:G.
  destruct (_ && _); [destruct (parents_of _ _); [destruct (forallb _ _)|]; discriminate|].
  set (s2 := elect_step cur rk s1) in *.
  assert (D2 : st_defs s2 = st_defs s1) by (unfold s2, elect_step; destruct (st_tops s1); reflexivity).
  apply bind_ok in H. destruct H as ([d1 ii] & H1 & H).
  destruct (add_inst_inv _ _ _ _ H1) as (N1 & DI1 & _).
  set (s3 := set_curinst (put_def cur d1 s2) (Some (cur, ii))) in *.
  apply bind_ok in H. destruct H as (s4 & H4 & H). inversion H; subst s'. clear H.
  assert (V4 : LSX X s3 s4).
  { destruct conns as [l|l].
    - revert H4. apply fold_res_LSX. intros x a b _. apply named_conn_LSX. exact Hx.
    - inversion H4; subst s4. apply same_defs_LSX. reflexivity. }
  eapply LSX_trans; [eapply get_blackbox_LSX; exact G|]. eapply LSX_trans; [apply same_defs_LSX; exact D2|].
  eapply LSX_trans; [apply (put_def_LSX X cur d1 s2 N1 DI1); intro Hn; contradiction|].
  eapply LSX_trans; [apply (same_defs_LSX X (put_def cur d1 s2) s3); reflexivity|].
  eapply LSX_trans; [exact V4|]. rewrite upd_def_put. apply put_def_LSX_in; [exact Hx|apply upd_inst_dstep; reflexivity].
Qed.

Lemma defparam_item_LSX X cur i k v s s' : defparam_item cur i k v s = Ok s' -> LSX X s s'.
Proof.
  unfold defparam_item. destruct (st_curinst s) as [[cd ci]|]; [|discriminate]. intros H.
  apply bind_ok in H. destruct H as (tgt & _ & H). inversion H; subst.
  rewrite upd_def_put. apply put_def_LSX_S; [apply upd_inst_dstep; reflexivity|intros _; apply upd_inst_lmonoS; reflexivity].
Qed.

Lemma body_item_LSX (X : nat -> Prop) cur it s s' : X cur -> body_item cur it s = Ok s' -> LSX X s s'.
Proof.
  destruct it as [dir ty rg nms at_|ty rg nms at_|m i ps at_ conns|i k v|lhs rhs|]; cbn [body_item]; intros Hx H.
  - eapply lift_LSX; [exact Hx| |exact H]. apply fold_res_dstep. intros x a b. apply port_decl_one_dstep.
  - eapply lift_LSX; [exact Hx| |exact H]. intros a b. apply wire_decl_dstep.
  - eapply inst_item_LSX; eassumption.
  - eapply defparam_item_LSX; exact H.
  - apply bind_ok in H. destruct H as (s1 & H1 & H). inversion H; subst.
    eapply LSX_trans; [eapply lift_LSX; [exact Hx| |exact H1]; intros a b; apply assign_item_dstep|]. apply same_defs_LSX. reflexivity.
  - discriminate.
Qed.

Lemma cell_item_LSX (X : nat -> Prop) cur it s s' : X cur -> cell_item cur it s = Ok s' -> LSX X s s'.
Proof.
  destruct it; cbn [cell_item]; intros Hx H; try (inversion H; subst; apply LSX_refl).
  eapply lift_LSX; [exact Hx| |exact H]. apply fold_res_dstep. intros x a b. apply port_decl_one_dstep.
Qed.

(* a whole module declaration, the module held at position c *)
Theorem module_decl_LSX m s s' : module_decl m s = Ok s' -> LSX (eq (snd (get_blackbox (vm_name m) s))) s s'.
Proof.
  unfold module_decl. intros H.
  destruct (get_blackbox (vm_name m) s) as [s1 c] eqn:G. cbn [snd].
  destruct (ed_lib (get_def c s1)); [discriminate|].
  set (s2 := upd_def c _ s1) in *. set (s3 := if vm_cell m then s2 else _) in *. set (s4 := upd_def c _ s3) in *.
  assert (D3 : st_defs s3 = st_defs s2) by (unfold s3; destruct (vm_cell m); [reflexivity|destruct (st_tops s2); reflexivity]).
  apply bind_ok in H. destruct H as (s5 & H5 & H). apply bind_ok in H. destruct H as (s6 & H6 & H).
  assert (V6 : LSX (eq c) s5 s6).
  { destruct (vm_cell m); revert H6; apply fold_res_LSX; intros x a b _; [apply cell_item_LSX|apply body_item_LSX]; reflexivity. }
  assert (V2 : LSX (eq c) s1 s2) by (unfold s2; rewrite upd_def_put; apply put_def_LSX_in; [reflexivity|apply set_meta_dstep]).
  assert (V4 : LSX (eq c) s3 s4) by (unfold s4; rewrite upd_def_put; apply put_def_LSX_in; [reflexivity|apply set_meta_dstep]).
  eapply LSX_trans; [eapply get_blackbox_LSX; exact G|].
  eapply LSX_trans; [exact V2|].
  eapply LSX_trans; [apply same_defs_LSX; exact D3|].
  eapply LSX_trans; [exact V4|].
  eapply LSX_trans; [eapply lift_LSX; [reflexivity| |exact H5]; apply fold_res_dstep; intros x a b; apply header_entry_dstep|].
  eapply LSX_trans; [exact V6|]. inversion H; subst.
  destruct (vm_attrs m); [apply LSX_refl|]. rewrite upd_def_put. apply put_def_LSX_in; [reflexivity|apply set_meta_dstep].
Qed.
