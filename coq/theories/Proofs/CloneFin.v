(* Netlist.clone: the reference sets after the final filter are exact. *)
From Coq Require Import List Arith Bool Lia.
From RecordUpdate Require Import RecordSet.
From SV Require Import Base.Base IR.State IR.NS IR.Ops Xform.Clone Proofs.AssocX Proofs.Frame Proofs.Inv1a Proofs.Inv2a
  Proofs.InvP Proofs.InvW Proofs.Fresh Proofs.NsInv Proofs.Repoint Proofs.CloneInv Proofs.RefK Proofs.CloneRef Proofs.CloneT Proofs.FieldT
  Proofs.CloneMemo Proofs.CloneRR Proofs.CloneFaith Proofs.CloneInvP Proofs.CloneFull
  Proofs.CloneMemoK Proofs.CloneFaithK Proofs.CloneStage Proofs.CloneStageP Proofs.CloneRun Proofs.CloneRemap Proofs.CloneComm Proofs.CloneLib
  Proofs.SrcTree Proofs.CloneNet.
Import ListNotations RecordSetNotations.

Lemma mval_true (M : memo) b : mval M b = true <-> exists a, In (a, b) M.
Proof.
  unfold mval. rewrite existsb_exists. split.
  - intros [[a b0] [H E]]. cbn in E. apply Nat.eqb_eq in E. subst b0. exists a. exact H.
  - intros [a H]. exists (a, b). split; [exact H|cbn; apply Nat.eqb_refl].
Qed.

Section FinalRefs.
  Variables (s0 sQ sF : state) (M : memo) (D : list id).
  Hypothesis U0 : UF s0.
  Hypothesis Y : RY s0 sQ M.
  Hypothesis HFX : forall x x', In (x, x') M -> kind_of s0 x = Some KInstance -> iref sQ x' = remap_ref M (iref s0 x).
  Hypothesis HFD : forall d d', In (d, d') M -> kind_of s0 d = Some KDefinition -> FinD M sQ d' /\ In d' D.
  Hypothesis HD : forall y, In y D -> exists d, In (d, y) M /\ kind_of s0 d = Some KDefinition.
  Hypothesis Hcl : forall x x' e, In (x, x') M -> kind_of s0 x = Some KInstance -> iref s0 x = Some e ->
                     In e (map fst M) /\ kind_of s0 e = Some KDefinition.
  Hypothesis Hir : iref sF = iref sQ.
  Hypothesis Hdr : forall y, drefs sF y = if memb y D then filter (mval M) (drefs sQ y) else drefs sQ y.

  Let X := ry_rx _ _ _ Y.
  Let R := rx_ri _ _ _ X.
  Let T := ri_st _ _ _ R.

  (* a new object that carries a reference is the copy of an instance *)
  Lemma new_ref n d : next s0 <= n -> iref sQ n = Some d -> exists x, In (x, n) M /\ kind_of s0 x = Some KInstance.
  Proof.
    intros Hn Hr. destruct (st_def _ _ _ T n Hn) as [_ [_ D3]].
    destruct (kind_of sQ n) as [kn|] eqn:Ek; [|rewrite (proj2 (D3 ltac:(discriminate))) in Hr; discriminate].
    destruct (kind_eqb kn KInstance) eqn:Eq; [|rewrite (proj2 (D3 ltac:(intro Xe; injection Xe as ->; discriminate Eq))) in Hr; discriminate].
    assert (kn = KInstance) by (destruct kn; try discriminate Eq; reflexivity). subst kn.
    destruct (st_cov _ _ _ T n Hn (or_intror (or_intror Ek))) as [x Hx]. exists x. split; [exact Hx|].
    rewrite <- (st_kind _ _ _ T x n Hx). exact Ek.
  Qed.

  Theorem final_inv2a : Inv2a sF.
  Proof.
    destruct U0 as [I0 [T0 [F0 [FT0 K0]]]]. pose proof (inv_r _ I0) as I2.
    constructor.
    - intros n d. rewrite Hir, Hdr. destruct (memb d D) eqn:Em.
      + apply memb_In in Em. destruct (HD d Em) as [d0 [Hdd Hkd]]. destruct (HFD d0 d Hdd Hkd) as [[Hnd Hnk] _].
        destruct (st_rng _ _ _ T d0 d Hdd) as [Hd0 [Hd1 Hd2]].
        rewrite filter_In. split.
        * intros [Hin Hmv]. apply mval_true in Hmv as [a Ha]. destruct (st_rng _ _ _ T a n Ha) as [_ [Hn1 _]].
          destruct (ry_d1 _ _ _ Y d0 d Hdd Hkd n Hin) as [r [Hr [->|Hrn]]].
          -- apply (i2_ref _ I2) in Hr. destruct (Nat.lt_ge_cases r (next s0)) as [Hl|Hg]; [lia|]. rewrite (f_iref _ F0 r Hg) in Hr. discriminate.
          -- apply (i2_ref _ I2) in Hr. assert (Hkr : kind_of s0 r = Some KInstance) by (apply (ft_r _ FT0); rewrite Hr; discriminate).
             rewrite (HFX r n Hrn Hkr), Hr. cbn. rewrite (in_mget M d0 d (st_fun _ _ _ T) Hdd). reflexivity.
        * intro Hr. assert (Hn : next s0 <= n).
          { destruct (Nat.lt_ge_cases n (next s0)) as [Hl|Hg]; [|exact Hg]. destruct (st_old _ _ _ T n Hl) as [_ [_ [_ [_ Hi]]]]. rewrite Hi in Hr.
            pose proof (ref_lt s0 n d K0 F0 Hr). lia. }
          destruct (new_ref n d Hn Hr) as [x [Hx Hkx]]. rewrite (HFX x n Hx Hkx) in Hr.
          destruct (iref s0 x) as [e|] eqn:Er; [|discriminate]. cbn in Hr.
          assert (He : e = d0).
          { destruct (mget M e) as [e'|] eqn:Eme.
            - injection Hr as ->. apply (memo_inj M e d0 d (st_inj _ _ _ T)); [apply mget_in; exact Eme|exact Hdd].
            - injection Hr as ->. pose proof (ref_lt s0 x d K0 F0 Er). lia. }
          subst e. assert (Hxd : In x (drefs s0 d0)) by (apply (i2_ref _ I2); exact Er).
          assert (Hxk : In x (map fst M)) by (apply in_map_iff; exists (x, n); split; [reflexivity|exact Hx]).
          destruct (ry_d2 _ _ _ Y d0 d Hdd Hkd x Hxd) as [Hin|[n2 [Hxn2 Hin]]]; [exfalso; apply (Hnk x Hin Hxk)|].
          assert (n2 = n) by (apply (memo_fun M x n2 n (st_fun _ _ _ T)); assumption). subst n2.
          split; [exact Hin|apply mval_true; exists x; exact Hx].
      + apply memb_false in Em.
        assert (Hno : forall d0, In (d0, d) M -> kind_of s0 d0 <> Some KDefinition).
        { intros d0 Hdd Hkd. apply Em. apply (HFD d0 d Hdd Hkd). }
        rewrite (ry_dn _ _ _ Y d Hno), (i2_ref _ I2).
        destruct (Nat.lt_ge_cases n (next s0)) as [Hl|Hg].
        * destruct (st_old _ _ _ T n Hl) as [_ [_ [_ [_ Hi]]]]. rewrite Hi. tauto.
        * rewrite (f_iref _ F0 n Hg). split; [discriminate|]. intro Hr. exfalso.
          destruct (new_ref n d Hg Hr) as [x [Hx Hkx]]. rewrite (HFX x n Hx Hkx) in Hr.
          destruct (iref s0 x) as [e|] eqn:Er; [|discriminate]. cbn in Hr.
          destruct (Hcl x n e Hx Hkx Er) as [He Hke]. apply assoc_In_fst in He as [e' He']. fold (mget M e) in He'. rewrite He' in Hr. injection Hr as ->.
          apply (Hno e (mget_in _ _ _ He') Hke).
    - intro d. rewrite Hdr. destruct (memb d D) eqn:Em.
      + apply memb_In in Em. destruct (HD d Em) as [d0 [Hdd Hkd]]. destruct (HFD d0 d Hdd Hkd) as [[Hnd _] _]. apply NoDup_filter. exact Hnd.
      + apply memb_false in Em. rewrite (ry_dn _ _ _ Y d). { apply (i2_nodup _ I2). }
        intros d0 Hdd Hkd. apply Em. apply (HFD d0 d Hdd Hkd).
  Qed.
End FinalRefs.

(* ---- the libraries relation after the copies have been attached to the copied netlist ---- *)
Lemma final_inv1a s0 sQ n' libs' :
  UF s0 -> (forall r, r <> RLibs -> Inv1aR sQ r) ->
  (forall y, kids sQ RLibs y = if Nat.eqb y n' then libs' else kids s0 RLibs y) ->
  (forall y, par sQ RLibs y = if memb y libs' then Some n' else par s0 RLibs y) ->
  next s0 <= n' -> (forall l', In l' libs' -> next s0 <= l') -> NoDup libs' -> Inv1a sQ.
Proof.
  intros [I0 [T0 [F0 _]]] H1 Hk Hp Hn' Hl Hnd. pose proof (inv_a _ I0) as I1.
  assert (Hpl : forall x p, par s0 RLibs x = Some p -> p < next s0 /\ x < next s0).
  { intros x p Hx. apply (i1_kids _ I1) in Hx. split.
    - destruct (Nat.lt_ge_cases p (next s0)) as [Hl0|Hg]; [exact Hl0|]. rewrite (f_kids _ F0 RLibs p Hg) in Hx. destruct Hx.
    - apply (src_lt s0 I1 F0 _ _ _ Hx). }
  constructor.
  - intros r p x. destruct (rel_eq_dec r RLibs) as [->|Hr]; [|apply (proj1 (H1 r Hr))].
    rewrite Hk, Hp. destruct (Nat.eqb_spec p n') as [->|Hpn].
    + destruct (memb x libs') eqn:Em.
      * apply memb_In in Em. split; [reflexivity|intros _; exact Em].
      * apply memb_false in Em. split; [contradiction|]. intro Hx. destruct (Hpl x n' Hx). lia.
    + destruct (memb x libs') eqn:Em.
      * apply memb_In in Em. split.
        -- intro Hx. pose proof (src_lt s0 I1 F0 _ _ _ Hx). pose proof (Hl x Em). lia.
        -- intro Hx. injection Hx as Hx. congruence.
      * apply (i1_kids _ I1).
  - intros r p. destruct (rel_eq_dec r RLibs) as [->|Hr]; [|apply (proj2 (H1 r Hr))].
    rewrite Hk. destruct (Nat.eqb p n'); [exact Hnd|apply (i1_nodup _ I1)].
Qed.

(* ---- the final filter of the reference sets ---- *)
Record feqX (s s' : state) : Prop := mkFeqX {
  fx_kids : kids s' = kids s; fx_par : par s' = par s; fx_next : next s' = next s; fx_kind : kind_of s' = kind_of s;
  fx_iref : iref s' = iref s; fx_ipins : ipins s' = ipins s; fx_wpins : wpins s' = wpins s; fx_ipwire : ipwire s' = ipwire s
}.
Lemma feqx_refl s : feqX s s. Proof. constructor; reflexivity. Qed.
Lemma feqx_trans a b c : feqX a b -> feqX b c -> feqX a c. Proof. intros [] []. constructor; congruence. Qed.

Lemma filter_idem {A} (P : A -> bool) l : filter P (filter P l) = filter P l.
Proof. induction l as [|a l IH]; cbn; [reflexivity|]. destruct (P a) eqn:E; cbn; [rewrite E, IH; reflexivity|exact IH]. Qed.

Definition filt1 (P : id -> bool) (L : list id) (s : state) : state :=
  fold_ids (fun s d' => set_drefs s d' (filter P (drefs s d'))) L s.

Lemma filt1_spec P : forall L s,
  feqX s (filt1 P L s) /\ (forall y, In y L -> drefs (filt1 P L s) y = filter P (drefs s y)) /\
  (forall y, ~ In y L -> drefs (filt1 P L s) y = drefs s y).
Proof.
  induction L as [|d' L IH]; intro s; unfold filt1; cbn [fold_ids].
  - split; [apply feqx_refl|]. split; [intros y []|reflexivity].
  - set (s1 := set_drefs s d' (filter P (drefs s d'))). destruct (IH s1) as [A [B C]]. fold (filt1 P L s1).
    assert (H1 : forall y, drefs s1 y = if Nat.eqb y d' then filter P (drefs s d') else drefs s y) by (intro y; reflexivity).
    split; [eapply feqx_trans; [|exact A]; constructor; reflexivity|]. split.
    + intros y Hy. destruct (in_dec Nat.eq_dec y L) as [Hin|Hout].
      * rewrite (B y Hin), H1. destruct (Nat.eqb_spec y d') as [->|]; [apply filter_idem|reflexivity].
      * rewrite (C y Hout), H1. destruct Hy as [->|Hy]; [rewrite Nat.eqb_refl; reflexivity|contradiction].
    + intros y Hy. rewrite (C y) by (intro H; apply Hy; right; exact H). rewrite H1.
      replace (Nat.eqb y d') with false by (symmetry; apply Nat.eqb_neq; intros ->; apply Hy; left; reflexivity). reflexivity.
Qed.

Definition filt2 (P : id -> bool) (libs : list id) (s : state) : state :=
  fold_ids (fun s l' => fold_ids (fun s d' => set_drefs s d' (filter P (drefs s d'))) (kids s RDefs l') s) libs s.

Lemma filt2_spec P : forall libs s,
  feqX s (filt2 P libs s) /\
  (forall y, In y (flat_map (kids s RDefs) libs) -> drefs (filt2 P libs s) y = filter P (drefs s y)) /\
  (forall y, ~ In y (flat_map (kids s RDefs) libs) -> drefs (filt2 P libs s) y = drefs s y).
Proof.
  induction libs as [|l' libs IH]; intro s; unfold filt2; cbn [fold_ids flat_map].
  - split; [apply feqx_refl|]. split; [intros y []|reflexivity].
  - fold (filt1 P (kids s RDefs l') s). set (s1 := filt1 P (kids s RDefs l') s). fold (filt2 P libs s1).
    destruct (filt1_spec P (kids s RDefs l') s) as [A1 [B1 C1]]. fold s1 in A1, B1, C1.
    destruct (IH s1) as [A [B C]]. rewrite (fx_kids _ _ A1) in B, C.
    split; [eapply feqx_trans; eassumption|]. split.
    + intros y Hy. destruct (in_dec Nat.eq_dec y (flat_map (kids s RDefs) libs)) as [Hin|Hout].
      * rewrite (B y Hin). destruct (in_dec Nat.eq_dec y (kids s RDefs l')) as [Hi1|Ho1]; [rewrite (B1 y Hi1); apply filter_idem|rewrite (C1 y Ho1); reflexivity].
      * rewrite (C y Hout). apply in_app_or in Hy as [Hy|Hy]; [apply B1; exact Hy|contradiction].
    + intros y Hy. rewrite (C y) by (intro H; apply Hy; apply in_or_app; right; exact H). apply C1. intro H. apply Hy. apply in_or_app. left. exact H.
Qed.

Lemma feq_reapply s c : feq s (fst (reapply s c)).
Proof.
  unfold reapply. destruct (sassoc str_NS (data s c)); [|apply feq_refl].
  pose proof (se_dict_del s c str_NS) as H1. destruct (dict_del s c str_NS) as [s1 [e|]]; cbn [bindR fst] in *; [apply feq_struct; exact H1|].
  eapply feq_trans; [apply feq_struct; exact H1|apply feq_struct, se_dict_set].
Qed.
