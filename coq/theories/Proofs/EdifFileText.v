(* From characters: on a printed document the token-level entry of the whole-file model reads the
   document back (read_first inverts flatten on well-formed atoms), so what [elab_text] returns for
   the printed text of d is what [elab_file] returns for d. With Proofs/EdifLexProofs.v
   (tokenize (print d) = flatten d) the soundness theorem therefore holds from the characters of
   the file. *)
From Coq Require Import List NArith Bool Arith Lia.
From SV Require Import Base.Base Fmt.EdifLex Fmt.EdifFile Fmt.EdifFileSpec Fmt.EdifFileDenote
  Proofs.EdifLexProofs Proofs.EdifFileWf Proofs.EdifFileSound.
Import ListNotations.

Lemma quoted_quote s : quoted (quote s) = true.
Proof. unfold quoted, quote. rewrite rev_app_distr. reflexivity. Qed.

Lemma quoted_atom a : is_str_tok a = false -> quoted a = false.
Proof. unfold quoted, is_str_tok. destruct a as [|c r]; auto. intros ->. reflexivity. Qed.

Definition open_one_at (x : sexp) : Prop :=
  atoms_ok x = true -> forall rest top stack,
  read_open (flatten x ++ rest) top stack = read_open rest (x :: top) stack.

Lemma open_many l : Forall open_one_at l -> forallb atoms_ok l = true ->
  forall rest acc stack, read_open (flat_map flatten l ++ rest) acc stack = read_open rest (rev l ++ acc) stack.
Proof.
  induction 1 as [|x l Hx Hl IH]; intros Hok rest acc stack.
  - reflexivity.
  - cbn [forallb] in Hok. apply andb_true_iff in Hok as [Hokx Hokl].
    cbn [flat_map]. rewrite <- app_assoc, (Hx Hokx), (IH Hokl). cbn [rev]. now rewrite <- app_assoc.
Qed.

Lemma open_one x : open_one_at x.
Proof.
  induction x as [a|s|l IH] using sexp_ind'; unfold open_one_at.
  - cbn [atoms_ok flatten app]. intros H rest top stack.
    apply atom_ok_tok in H as (H1 & H2 & H3). cbn [read_open]. rewrite H1, H2. unfold mk_tok. now rewrite (quoted_atom a H3).
  - cbn [flatten app]. intros _ rest top stack.
    destruct (quote_tok s) as (H1 & H2 & _). cbn [read_open]. rewrite H1, H2. unfold mk_tok.
    now rewrite quoted_quote, unquote_quote.
  - cbn [atoms_ok flatten]. intros H rest top stack.
    cbn [app]. rewrite <- app_assoc. cbn [app read_open]. rewrite str_eqb_refl.
    rewrite (open_many l IH H). cbn [read_open]. replace (str_eqb t_rp t_lp) with false by reflexivity.
    rewrite str_eqb_refl, app_nil_r, rev_involutive. reflexivity.
Qed.

Theorem read_first_flatten l : forallb atoms_ok l = true -> read_first (flatten (SList l)) = Some (SList l, O, []).
Proof.
  intro H. cbn [flatten read_first]. rewrite str_eqb_refl. f_equal.
  rewrite (open_many l (proj2 (Forall_forall _ _) (fun x _ => open_one x)) H). cbn [read_open].
  replace (str_eqb t_rp t_lp) with false by reflexivity. now rewrite str_eqb_refl, app_nil_r, rev_involutive.
Qed.

Theorem elab_text_print l n : sexp_ok (SList l) = true ->
  elab_text (print (SList l)) = Ok n -> elab_file (SList l) = Ok n.
Proof.
  intros Hok. unfold elab_text. rewrite (tokenize_print _ Hok). unfold elab_tokens.
  rewrite read_first_flatten by (apply sexp_ok_atoms_ok in Hok; exact Hok).
  destruct (elab_file (SList l)) as [r|]; [|discriminate]. cbn. intro H; inversion H; reflexivity.
Qed.

Theorem elab_text_print_sound l n : sexp_ok (SList l) = true -> supported (SList l) = true ->
  elab_text (print (SList l)) = Ok n -> denote_file (SList l) n /\ wf_file n.
Proof.
  intros Hok Hs H. apply elab_text_print in H; auto. split; [now apply elab_file_sound|eapply elab_file_wf; eauto].
Qed.
Print Assumptions elab_text_print_sound.
