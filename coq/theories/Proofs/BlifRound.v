(* EBLIF engine, write-then-read: the boolean [equiv_b] of BlifSpec decides the equivalence of the
   property (soundness), so [rt_check n = true] certifies the round trip of the netlist [n]:
   the written file is accepted and gives a netlist with the same instances (by name: kind,
   definition, .attr/.param, truth table, .cname), the same nets as sets of named pins, and the same
   declared ports, for the top model and every non-primitive model below it. *)
From Coq Require Import List Arith NArith Bool Lia.
From SV Require Import Base.Base Fmt.Blif Fmt.BlifRead Fmt.BlifWrite Fmt.BlifSpec Proofs.BlifBase Proofs.BlifSound.
Import ListNotations.

Lemma kind_eqb_eq a b : kind_eqb a b = true -> a = b.
Proof. destruct a, b; cbn; intro H; try discriminate; reflexivity. Qed.

Lemma kvs_eqb_eq a : forall b, kvs_eqb a b = true -> a = b.
Proof.
  induction a as [|[k v] a IH]; intros [|[k' v'] b] H; cbn in H; try discriminate; [reflexivity|].
  apply andb_true_iff in H as [H H3]. apply andb_true_iff in H as [H1 H2].
  apply str_eqb_spec in H1, H2. apply IH in H3. congruence.
Qed.

Lemma covers_eqb_eq a : forall b, covers_eqb a b = true -> a = b.
Proof.
  induction a as [|[k v] a IH]; intros [|[k' v'] b] H; cbn in H; try discriminate; [reflexivity|].
  apply andb_true_iff in H as [H H3]. apply andb_true_iff in H as [H1 H2].
  apply str_eqb_spec in H1. apply ostr_eqb_eq in H2. apply IH in H3. congruence.
Qed.

Lemma same_data_b_sound i j : same_data_b i j = true -> same_data i j.
Proof.
  unfold same_data_b, same_data. intro H. repeat (apply andb_true_iff in H as [H ?]).
  apply kind_eqb_eq in H. apply str_eqb_spec in H4. apply kvs_eqb_eq in H3, H2. apply covers_eqb_eq in H1.
  repeat split; auto. intros c Hc. rewrite Hc in H0. apply ostr_eqb_eq in H0. exact H0.
Qed.

Lemma insts_fwd_sound m m' :
  insts_fwd_b m m' = true -> forall nm i, inst_named m nm i -> exists j, inst_named m' nm j /\ same_data i j.
Proof.
  unfold insts_fwd_b. rewrite forallb_forall. intros H nm i [Hi Hn]. specialize (H i Hi). rewrite Hn in H.
  apply existsb_exists in H as [j [Hj H]]. apply andb_true_iff in H as [H1 H2].
  apply ostr_eqb_eq in H1. apply same_data_b_sound in H2. exists j. split; [split; assumption|assumption].
Qed.

Lemma insts_bwd_sound m m' :
  insts_bwd_b m m' = true -> forall nm j, inst_named m' nm j -> exists i, inst_named m nm i /\ same_data i j.
Proof.
  unfold insts_bwd_b. rewrite forallb_forall. intros H nm j [Hj Hn]. specialize (H j Hj). rewrite Hn in H.
  apply existsb_exists in H as [i [Hi H]]. apply andb_true_iff in H as [H1 H2].
  apply ostr_eqb_eq in H1. apply same_data_b_sound in H2. exists i. split; [split; assumption|assumption].
Qed.

Lemma npin_eqb_eq a b : npin_eqb a b = true <-> a = b.
Proof.
  split.
  - destruct a, b; cbn; intro H; try discriminate.
    + apply andb_true_iff in H as [H1 H2]. apply str_eqb_spec in H1. apply Nat.eqb_eq in H2. congruence.
    + apply andb_true_iff in H as [H H3]. apply andb_true_iff in H as [H1 H2].
      apply str_eqb_spec in H1, H2. apply Nat.eqb_eq in H3. congruence.
  - intros <-. destruct a; cbn; rewrite ?str_eqb_refl, ?Nat.eqb_refl; reflexivity.
Qed.

Lemma onpin_is_iff m a pr : onpin_is m a pr = true <-> npin_of m pr = Some a.
Proof.
  unfold onpin_is. destruct (npin_of m pr) as [x|]; [|split; discriminate].
  rewrite npin_eqb_eq. split; congruence.
Qed.

Lemma snn_b_iff m a b : same_net_named m a b <-> snn_b m a b = true.
Proof.
  unfold same_net_named, same_wire, snn_b. rewrite existsb_exists. split.
  - intros [pa [pb [Ha [Hb [c [w [Hc [Hw [Hpa Hpb]]]]]]]]]. exists c. split; [exact Hc|].
    apply existsb_exists. exists w. split; [exact Hw|]. apply andb_true_iff.
    split; apply existsb_exists; [exists pa|exists pb]; (split; [assumption|apply onpin_is_iff; assumption]).
  - intros [c [Hc H]]. apply existsb_exists in H as [w [Hw H]]. apply andb_true_iff in H as [H1 H2].
    apply existsb_exists in H1 as [pa [Hpa H1]]. apply existsb_exists in H2 as [pb [Hpb H2]].
    apply onpin_is_iff in H1, H2. exists pa, pb. repeat split; auto. exists c, w. auto.
Qed.

Lemma named_wires_in m w :
  In w (named_wires m) <->
  exists c w0, In c (m_cables m) /\ In w0 (c_wires c) /\
    w = flat_map (fun pr => match npin_of m pr with Some x => [x] | None => [] end) w0.
Proof.
  unfold named_wires. rewrite in_map_iff. split.
  - intros [w0 [E H]]. apply in_flat_map in H as [c [Hc Hw]]. exists c, w0. auto.
  - intros [c [w0 [Hc [Hw E]]]]. exists w0. split; [auto|]. apply in_flat_map. eauto.
Qed.

Lemma in_named w0 m a :
  In a (flat_map (fun pr => match npin_of m pr with Some x => [x] | None => [] end) w0) <->
  exists pr, In pr w0 /\ npin_of m pr = Some a.
Proof.
  rewrite in_flat_map. split; intros [pr [H1 H2]]; exists pr; (split; [exact H1|]).
  - destruct (npin_of m pr); [destruct H2 as [<-|[]]; reflexivity|destruct H2].
  - rewrite H2. left. reflexivity.
Qed.

Lemma existsb_npin a w : existsb (npin_eqb a) w = true <-> In a w.
Proof.
  rewrite existsb_exists. split; [intros [x [H1 H2]]; apply npin_eqb_eq in H2; subst; exact H1|].
  intro H. exists a. split; [exact H|apply npin_eqb_eq; reflexivity].
Qed.

Lemma snn_w_iff m a b : same_net_named m a b <-> snn_w (named_wires m) a b = true.
Proof.
  unfold snn_w. rewrite existsb_exists. split.
  - intros [pa [pb [Ha [Hb [c [w0 [Hc [Hw [Hpa Hpb]]]]]]]]].
    exists (flat_map (fun pr => match npin_of m pr with Some x => [x] | None => [] end) w0). split.
    + apply named_wires_in. eauto.
    + apply andb_true_iff. split; apply existsb_npin; apply in_named; eauto.
  - intros [w [Hw H]]. apply andb_true_iff in H as [H1 H2]. apply existsb_npin in H1, H2.
    apply named_wires_in in Hw as [c [w0 [Hc [Hw0 ->]]]]. apply in_named in H1 as [pa [Hpa Ha]]. apply in_named in H2 as [pb [Hpb Hb]].
    exists pa, pb. repeat split; auto. exists c, w0. auto.
Qed.

Lemma nets_eq_sound m m' :
  nets_eq_b m m' = true -> forall a b, a <> b -> (same_net_named m a b <-> same_net_named m' a b).
Proof.
  unfold nets_eq_b. cbn zeta. intros H a b Hab. apply andb_true_iff in H as [H1 H2].
  rewrite forallb_forall in H1, H2.
  assert (E : npin_eqb a b = false) by (destruct (npin_eqb a b) eqn:E; [apply npin_eqb_eq in E; contradiction|reflexivity]).
  assert (Hdir : forall ws ws', (forall w, In w ws -> forallb (fun a => forallb (fun b => npin_eqb a b || snn_w ws' a b) w) w = true) ->
             snn_w ws a b = true -> snn_w ws' a b = true).
  { intros ws ws' Hall Hs. unfold snn_w in Hs. apply existsb_exists in Hs as [w [Hw Hs]].
    apply andb_true_iff in Hs as [Sa Sb]. apply existsb_npin in Sa, Sb.
    specialize (Hall w Hw). rewrite forallb_forall in Hall. specialize (Hall a Sa). rewrite forallb_forall in Hall.
    specialize (Hall b Sb). rewrite E in Hall. exact Hall. }
  rewrite !snn_w_iff. split; [apply Hdir; exact H1|apply Hdir; exact H2].
Qed.

Lemma equiv_model_b_sound m m' : equiv_model_b m m' = true -> equiv_model m m'.
Proof.
  unfold equiv_model_b, equiv_model. intro H. apply andb_true_iff in H as [H H3]. apply andb_true_iff in H as [H1 H2].
  split; [apply insts_fwd_sound; exact H1|]. split; [apply insts_bwd_sound; exact H2|apply nets_eq_sound; exact H3].
Qed.

Lemma dir_eqb_eq a b : dir_eqb a b = true -> a = b.
Proof. destruct a, b; cbn; intro H; try discriminate; reflexivity. Qed.

Lemma pv_eqb_eq a b : pv_eqb a b = true -> a = b.
Proof.
  destruct a as [[p d] w], b as [[p' d'] w']. unfold pv_eqb. cbn. intro H.
  apply andb_true_iff in H as [H H3]. apply andb_true_iff in H as [H1 H2].
  apply str_eqb_spec in H1. apply dir_eqb_eq in H2. apply Nat.eqb_eq in H3. congruence.
Qed.

Lemma same_ports_b_sound m m' : same_ports_b m m' = true -> same_ports m m'.
Proof.
  unfold same_ports_b, same_ports. intro H. apply andb_true_iff in H as [H1 H2]. rewrite forallb_forall in H1, H2.
  intro x. split; intro Hx; [specialize (H1 x Hx); apply existsb_exists in H1 as [y [Hy E]]|
                             specialize (H2 x Hx); apply existsb_exists in H2 as [y [Hy E]]];
    apply pv_eqb_eq in E; subst; exact Hy.
Qed.

Lemma lib_eqb_eq a b : lib_eqb a b = true <-> a = b.
Proof. destruct a, b; cbn; split; intro H; try discriminate; reflexivity. Qed.

Lemma same_pins_b_sound m m' : same_pins_b m m' = true -> same_pins m m'.
Proof.
  unfold same_pins_b, same_pins. intro H. apply andb_true_iff in H as [H1 H2]. rewrite forallb_forall in H1, H2.
  intro x. split; intro Hx; [specialize (H1 x Hx); apply existsb_exists in H1 as [y [Hy E]]|
                             specialize (H2 x Hx); apply existsb_exists in H2 as [y [Hy E]]];
    apply npin_eqb_eq in E; subst; exact Hy.
Qed.

Theorem equiv_b_sound n n' : equiv_b n n' = true -> equiv n n' /\ equiv_ports n n' /\ equiv_pins n n'.
Proof.
  unfold equiv_b, equiv, equiv_ports, equiv_pins.
  destruct (b_top n) as [[tn t]|], (b_top n') as [[tn' t']|]; try discriminate; [|auto].
  intro H. apply andb_true_iff in H as [H1 H2]. apply str_eqb_spec in H1. rewrite forallb_forall in H2.
  split; [split; [exact H1|]|split].
  - intros nm Hn Hl. specialize (H2 nm Hn). destruct (find_model nm (b_models n')) as [m'|]; [|discriminate].
    apply orb_true_iff in H2 as [H2|H2]; [apply lib_eqb_eq in H2; contradiction|].
    apply andb_true_iff in H2 as [H2 _]. apply andb_true_iff in H2 as [H2 _].
    exists m'. split; [reflexivity|apply equiv_model_b_sound; exact H2].
  - intros nm Hn Hl m' Hm'. specialize (H2 nm Hn). rewrite Hm' in H2.
    apply orb_true_iff in H2 as [H2|H2]; [apply lib_eqb_eq in H2; contradiction|].
    apply andb_true_iff in H2 as [H2 _]. apply andb_true_iff in H2 as [_ H2]. apply same_ports_b_sound. exact H2.
  - intros nm Hn. specialize (H2 nm Hn). destruct (find_model nm (b_models n')) as [m'|] eqn:Em; [|discriminate].
    split; [eauto|]. intros Hl m0 Hm0. inversion Hm0; subst m0.
    apply orb_true_iff in H2 as [H2|H2]; [apply lib_eqb_eq in H2; contradiction|].
    apply andb_true_iff in H2 as [_ H2]. apply same_pins_b_sound. exact H2.
Qed.

(* the verified checker of one round trip *)
Theorem rt_check_sound n :
  rt_check n = true -> exists n', elab (emit n) = Ok n' /\ equiv n n' /\ equiv_ports n n' /\ equiv_pins n n'.
Proof.
  unfold rt_check. destruct (elab (emit n)) as [n'|]; [|discriminate]. intro H.
  exists n'. split; [reflexivity|apply equiv_b_sound; exact H].
Qed.
