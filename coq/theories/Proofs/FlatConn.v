(* C09, connectivity: along the walk of flatten over a uniquified design, the electrical partition of
   all pins other than the boundary pins being dissolved stays what it was before the call; at the end
   no boundary is left wired, so "connected" means "on the same wire". *)
From Coq Require Import List Arith NArith Bool Lia Relations Permutation.
From SV Require Import Base.Base IR.State IR.NS IR.Ops Xform.Clone Xform.Strs Xform.Xform Hier.Paths
  Proofs.AssocX Proofs.Frame Proofs.Inv1a Proofs.Inv2a Proofs.InvP Proofs.InvW Proofs.Fresh Proofs.NsInv Proofs.RefK Proofs.FieldT
  Proofs.XformInv Proofs.CloneFull Proofs.XHistory Proofs.FlatLeaf Proofs.FlatEff Proofs.FlatPaths Proofs.FlatWalk
  Proofs.FlatConnRel Proofs.FlatConnPin.
Import ListNotations.

Lemma pw_keep s s' : keep s s' -> forall p, pin_wire s' p = pin_wire s p.
Proof. intros K p. apply pw_ext; [apply (kp_ipwire _ _ K)|apply (kp_ipins _ _ K)]. Qed.

Lemma bring_fold_keep nm topd : forall l x x2,
  xfold (fun x c => bring_to_top x c nm topd) l x = (x2, None) -> keep (st x) (st x2).
Proof.
  induction l as [|c l IH]; intros x x2 E; cbn [xfold] in E; [injection E as <-; apply keep_refl|].
  destruct (bring_to_top x c nm topd) as [xa [er|]] eqn:Eb; [discriminate E|].
  destruct (bring_to_top_eff _ _ _ _ _ Eb) as [p B].
  apply (keep_trans _ _ _ (br_keep _ _ _ _ _ _ B) (IH _ _ E)).
Qed.

Lemma St_pins s0 topd s di dc : St s0 topd s di dc ->
  (forall y, par s RPins y = par s0 RPins y) /\ (forall y, par s RPorts y = par s0 RPorts y) /\
  (forall y, kids s RPins y = kids s0 RPins y) /\ (forall y, kids s RPorts y = kids s0 RPorts y).
Proof.
  intro S.
  assert (A : forall y, par s RPins y = par s0 RPins y /\ kids s RPins y = kids s0 RPins y)
    by (intro y; apply (st_paro _ _ _ _ _ S); discriminate).
  assert (B : forall y, par s RPorts y = par s0 RPorts y /\ kids s RPorts y = kids s0 RPorts y)
    by (intro y; apply (st_paro _ _ _ _ _ S); discriminate).
  repeat split; intro y; [apply A|apply B|apply A|apply B].
Qed.

Section Conn.
  Variables (s0 : state) (t topd : id).
  Hypothesis U0 : UF s0.
  Hypothesis Hu : Uniquified s0 t.
  Hypothesis Ht : iref s0 t = Some topd.

  Let I1 : Inv1a s0 := inv_a _ (proj1 U0).
  Let I2 : Inv2a s0 := inv_r _ (proj1 U0).

  Definition D : id -> Prop := Below s0 t.

  (* the pins of the boundaries that flatten dissolves: outer pins of hierarchical instances below the
     top, and the port pins of their definitions *)
  Definition HP (p : pin) : Prop :=
    match p with
    | POut n j => D n /\ hierb s0 n = true
    | PIn j => exists n d q, D n /\ iref s0 n = Some d /\ is_leaf_def s0 d = false /\
                             par s0 RPins j = Some q /\ par s0 RPorts q = Some d
    | PDet => False
    end.

  Record CI (s : state) (done : list id) : Prop := mkCI {
    c_same : forall p q, ~ HP p -> ~ HP q -> (E D (pin_wire s) p q <-> E D (pin_wire s0) p q);
    c_off : forall n j, In n done -> hierb s0 n = true -> pin_wire s (POut n j) = None;
    c_mono : forall p, pin_wire s0 p = None -> pin_wire s p = None
  }.

  Lemma CI_init : CI s0 [].
  Proof. constructor; [intros; reflexivity|intros n j []|auto]. Qed.

  Lemma CI_pw s s' done : (forall p, pin_wire s' p = pin_wire s p) -> CI s done -> CI s' done.
  Proof.
    intros H [A B C]. constructor.
    - intros p q Hp Hq. rewrite <- (A p q Hp Hq). apply E_ext. exact H.
    - intros n j H1 H2. rewrite H. apply B; assumption.
    - intros p Hp. rewrite H. apply C. exact Hp.
  Qed.

  (* a leaf instance's row in [done] asks nothing *)
  Lemma CI_cons_leaf s done inst : hierb s0 inst = false -> CI s done -> CI s (inst :: done).
  Proof.
    intros Hh [A B C]. constructor; [exact A| |exact C].
    intros n j [<-|Hn] Hn2; [congruence|apply B; assumption].
  Qed.

  (* ---- the pins of one instance boundary ---- *)
  Section OneInstance.
    Variables (inst d : id).
    Hypothesis Hb : Below s0 t inst.
    Hypothesis Hr : iref s0 inst = Some d.
    Hypothesis Hl : is_leaf_def s0 d = false.

    (* the parts of a state the argument reads: references and port/pin ownership as in s0 *)
    Definition Sh (s : state) : Prop :=
      iref s = iref s0 /\ (forall y, par s RPins y = par s0 RPins y) /\ (forall y, par s RPorts y = par s0 RPorts y).

    Lemma Sh_wkeep s s' : wkeep s s' -> Sh s -> Sh s'.
    Proof. intros K [A [B C]]. split; [rewrite (wk_iref _ _ K); exact A|]. split; intro y; rewrite (wk_par _ _ K); [apply B|apply C]. Qed.

    Definition PinOf (i : id) : Prop := exists q, par s0 RPins i = Some q /\ par s0 RPorts q = Some d.

    Lemma hp_out j : HP (POut inst j).
    Proof. split; [exact Hb|]. unfold hierb. rewrite Hr, Hl. reflexivity. Qed.
    Lemma hp_in i : PinOf i -> HP (PIn i).
    Proof. intros [q [A B]]. exists inst, d, q. repeat split; assumption. Qed.

    (* no other instance of the design has an outer pin for a pin of d *)
    Lemma only_inst s i n : UF s -> Sh s -> PinOf i -> D n -> n <> inst -> pin_wire s (POut n i) = None.
    Proof.
      intros U [A [B C]] [q [Pq Pd]] Dn Hne. cbn [pin_wire].
      destruct (assoc i (ipins s n)) as [ow|] eqn:Ea; [|reflexivity]. exfalso.
      assert (Hk : In i (keys s n)) by (apply assoc_In_fst; exists ow; exact Ea).
      apply (k_keys _ (inv_k _ (proj1 U))) in Hk as [d' [p' [H1 [H2 H3]]]].
      rewrite B in H3. rewrite C in H2. rewrite A in H1. assert (p' = q) by congruence. subst p'. assert (d' = d) by congruence. subst d'.
      destruct Hb as [y [pp Hy]]. apply Hne. apply (uniq_refs s0 t inst y pp d n I2 Hu Hy Hr Hl H1).
    Qed.

    Lemma redo_one x i x' :
      UF (st x) -> Sh (st x) -> PinOf i -> redo_pin x inst i = (x', None) ->
      UF (st x') /\ wkeep (st x) (st x') /\
      (forall p, pin_wire (st x) p = None -> pin_wire (st x') p = None) /\
      pin_wire (st x') (POut inst i) = None /\
      (forall p q, ~ HP p -> ~ HP q -> (E D (pin_wire (st x')) p q <-> E D (pin_wire (st x)) p q)).
    Proof.
      intros U S Pi Er.
      assert (U' : UF (st x')).
      { pose proof (xp_redo_pin UF (fun s o Hs _ => uf_step s o Hs) x inst i U) as H. rewrite Er in H. apply H. unfold not_stuck. cbn. discriminate. }
      pose proof (wkeep_redo_pin x inst i) as K. rewrite Er in K. cbn [fst] in K. destruct K as [K _].
      pose proof (redo_pin_pw x inst i x' (proj1 U) Er) as Hpw.
      split; [exact U'|]. split; [exact K|]. split; [|split].
      - intros p Hp. rewrite Hpw. unfold dissolve. rewrite Hp.
        destruct (pin_eqb p (POut inst i) || pin_eqb p (PIn i)); [reflexivity|].
        destruct (pin_wire (st x) (POut inst i)); [|reflexivity]. destruct (pin_wire (st x) (PIn i)); reflexivity.
      - rewrite Hpw. unfold dissolve. rewrite pin_eqb_refl. reflexivity.
      - intros p q Hp Hq. rewrite (E_ext D _ _ Hpw p q).
        apply (dissolve_keeps D inst i (pin_wire (st x)) Hb).
        + intros n Dn Hne. apply (only_inst (st x) i n U S Pi Dn Hne).
        + intros ->. apply Hp, hp_out.
        + intros ->. apply Hp, hp_in, Pi.
        + intros ->. apply Hq, hp_out.
        + intros ->. apply Hq, hp_in, Pi.
    Qed.

    Definition RedoPost (x x' : xstate) (l : list id) : Prop :=
      UF (st x') /\ wkeep (st x) (st x') /\
      (forall p, pin_wire (st x) p = None -> pin_wire (st x') p = None) /\
      (forall i, In i l -> pin_wire (st x') (POut inst i) = None) /\
      (forall p q, ~ HP p -> ~ HP q -> (E D (pin_wire (st x')) p q <-> E D (pin_wire (st x)) p q)).

    Lemma RedoPost_refl x : UF (st x) -> RedoPost x x [].
    Proof. intro U. split; [exact U|]. split; [apply wkeep_refl|]. split; [auto|]. split; [intros i []|intros; reflexivity]. Qed.

    Lemma RedoPost_trans x x1 x2 l1 l2 : RedoPost x x1 l1 -> RedoPost x1 x2 l2 -> RedoPost x x2 (l1 ++ l2).
    Proof.
      intros [_ [K1 [M1 [O1 S1]]]] [U2 [K2 [M2 [O2 S2]]]]. split; [exact U2|]. split; [apply (wkeep_trans _ _ _ K1 K2)|].
      split; [intros p Hp; apply M2, M1, Hp|]. split.
      - intros i Hi. apply in_app_or in Hi as [Hi|Hi]; [apply M2, O1, Hi|apply O2, Hi].
      - intros p q Hp Hq. rewrite (S2 p q Hp Hq). apply S1; assumption.
    Qed.

    Lemma redo_pins_fold : forall l x x',
      UF (st x) -> Sh (st x) -> (forall i, In i l -> PinOf i) ->
      xfold (fun x i => redo_pin x inst i) l x = (x', None) -> RedoPost x x' l.
    Proof.
      induction l as [|i l IH]; intros x x' U S Hp Ef; cbn [xfold] in Ef.
      - injection Ef as <-. apply RedoPost_refl. exact U.
      - destruct (redo_pin x inst i) as [x1 [er|]] eqn:Er; [discriminate Ef|].
        destruct (redo_one x i x1 U S (Hp i (or_introl eq_refl)) Er) as [U1 [K1 [M1 [O1 S1]]]].
        assert (R1 : RedoPost x x1 [i]).
        { split; [exact U1|]. split; [exact K1|]. split; [exact M1|]. split; [intros j [<-|[]]; exact O1|exact S1]. }
        apply (RedoPost_trans x x1 x' [i] l R1).
        apply (IH x1 x' U1 (Sh_wkeep _ _ K1 S) (fun j Hj => Hp j (or_intror Hj)) Ef).
    Qed.

    Lemma redo_ports_fold : forall ports x x',
      UF (st x) -> Sh (st x) -> (forall q, In q ports -> par s0 RPorts q = Some d) ->
      (forall q, kids (st x) RPins q = kids s0 RPins q) ->
      xfold (fun x p => xfold (fun x i => redo_pin x inst i) (kids (st x) RPins p) x) ports x = (x', None) ->
      RedoPost x x' (flat_map (fun q => kids s0 RPins q) ports).
    Proof.
      induction ports as [|q ports IH]; intros x x' U S Hq Hk Ef; cbn [xfold flat_map] in Ef |- *.
      - injection Ef as <-. apply RedoPost_refl. exact U.
      - destruct (xfold (fun x i => redo_pin x inst i) (kids (st x) RPins q) x) as [x1 [er|]] eqn:E1; [discriminate Ef|].
        rewrite (Hk q) in E1.
        assert (R1 : RedoPost x x1 (kids s0 RPins q)).
        { apply (redo_pins_fold _ x x1 U S); [|exact E1]. intros i Hi. exists q. split; [apply (i1_kids _ I1); exact Hi|apply Hq; left; reflexivity]. }
        apply (RedoPost_trans x x1 x' _ _ R1). destruct R1 as [U1 [K1 _]].
        apply (IH x1 x' U1 (Sh_wkeep _ _ K1 S) (fun q' H => Hq q' (or_intror H))); [|exact Ef].
        intros q'. rewrite (wk_kids _ _ K1). apply (Hk q').
    Qed.
  End OneInstance.

  (* ---- one round of the while loop ---- *)
  Lemma CI_step_leaf x x1 done inst :
    CI (st x) done -> keep (st x) (st x1) -> hierb s0 inst = false -> CI (st x1) (inst :: done).
  Proof. intros C K Hh. apply CI_cons_leaf; [exact Hh|]. apply (CI_pw (st x)); [apply pw_keep; exact K|exact C]. Qed.

  Lemma CI_step_hier x x1 x2 x3 done inst d nm :
    CI (st x) done -> Below s0 t inst -> iref s0 inst = Some d -> is_leaf_def s0 d = false ->
    keep (st x) (st x1) ->
    xfold (fun x c => bring_to_top x c nm topd) (kids (st x1) RCables d) x1 = (x2, None) ->
    UF (st x2) -> (exists di dc, St s0 topd (st x2) di dc) ->
    xfold (fun x p => xfold (fun x i => redo_pin x inst i) (kids (st x) RPins p) x) (kids (st x2) RPorts d) x2 = (x3, None) ->
    CI (st x3) (inst :: done).
  Proof.
    intros C Hb Hr Hl K1 Ec U2 [di [dc S2]] Er.
    pose proof (bring_fold_keep _ _ _ _ _ Ec) as K2.
    assert (Hpw2 : forall p, pin_wire (st x2) p = pin_wire (st x) p).
    { intro p. rewrite (pw_keep _ _ K2), (pw_keep _ _ K1). reflexivity. }
    destruct (St_pins _ _ _ _ _ S2) as [P1 [P2 [P3 P4]]].
    assert (Sh2 : Sh (st x2)) by (split; [apply (st_iref _ _ _ _ _ S2)|split; assumption]).
    pose proof (P4 d) as Hports.
    assert (R : RedoPost inst (x2) x3 (flat_map (fun q => kids s0 RPins q) (kids (st x2) RPorts d))).
    { apply (redo_ports_fold inst d Hb Hr Hl _ x2 x3 U2 Sh2); [|exact P3|exact Er].
      intros q Hq. rewrite Hports in Hq. apply (i1_kids _ I1). exact Hq. }
    destruct R as [U3 [K3 [M3 [O3 S3]]]]. destruct C as [A B Cm]. constructor.
    - intros p q Hp Hq. rewrite (S3 p q Hp Hq). rewrite <- (A p q Hp Hq). apply E_ext. exact Hpw2.
    - intros n j [<-|Hn] Hh.
      + cbn [pin_wire]. destruct (assoc j (ipins (st x3) inst)) as [ow|] eqn:Ea; [|reflexivity].
        assert (Hk : In j (keys (st x3) inst)) by (apply assoc_In_fst; exists ow; exact Ea).
        apply (k_keys _ (inv_k _ (proj1 U3))) in Hk as [d' [p' [H1 [H2 H3]]]].
        destruct (Sh_wkeep _ _ K3 Sh2) as [Sa [Sb Sc]]. rewrite Sa in H1. rewrite Sc in H2. rewrite Sb in H3.
        assert (d' = d) by congruence. subst d'.
        assert (Hin : In j (flat_map (fun q => kids s0 RPins q) (kids (st x2) RPorts d))).
        { apply in_flat_map. exists p'. split; [rewrite Hports; apply (i1_kids _ I1); exact H2|apply (i1_kids _ I1); exact H3]. }
        pose proof (O3 j Hin) as Ho. cbn [pin_wire] in Ho. rewrite Ea in Ho. exact Ho.
      + apply M3. rewrite Hpw2. apply B; assumption.
    - intros p Hp. apply M3. rewrite Hpw2. apply Cm. exact Hp.
  Qed.

  (* ---- the while loop, with the structural invariant of Proofs/FlatWalk.v ---- *)
  Lemma flat_loop_WC : forall fuel x queue done rem x' rem',
    W s0 t topd x queue done rem -> CI (st x) done -> flat_loop fuel x topd queue rem = ((x', None), rem') ->
    exists done', W s0 t topd x' [] done' rem' /\ CI (st x') done'.
  Proof.
    induction fuel as [|f IH]; intros x queue done rem x' rem' Wx Cx E0; destruct queue as [|[inst pn] rest]; cbn [flat_loop] in E0; try discriminate E0.
    - injection E0 as <- <-. exists done. split; assumption.
    - injection E0 as <- <-. exists done. split; assumption.
    - destruct (bring_to_top x inst pn topd) as [x1 [er|]] eqn:Eb; [discriminate E0|].
      destruct (iref (st x1) inst) as [d|] eqn:Hr1; [|discriminate E0].
      destruct (is_leaf_def (st x1) d) eqn:Hl1.
      + destruct (W_step_leaf s0 t topd U0 Hu Ht _ _ _ _ _ _ _ _ Wx Eb Hr1 Hl1) as [Wn [Hh [K1 _]]].
        apply (IH x1 rest (inst :: done) rem x' rem' Wn (CI_step_leaf x x1 done inst Cx K1 Hh) E0).
      + destruct (xfold (fun x c => bring_to_top x c (Some (name_in_path (st x1) inst)) topd) (kids (st x1) RCables d) x1) as [x2 [er|]] eqn:Ec; [discriminate E0|].
        destruct (xfold (fun x p => xfold (fun x i => redo_pin x inst i) (kids (st x) RPins p) x) (kids (st x2) RPorts d) x2) as [x3 [er|]] eqn:Er; [discriminate E0|].
        destruct (W_step_hier s0 t topd U0 Hu Ht _ _ _ _ _ _ _ _ _ _ Wx Eb Hr1 Hl1 Ec Er) as [Wn [Hb [_ [Hr [Hl0 [K1 [U2 [S2 _]]]]]]]].
        apply (IH x3 _ (inst :: done) (rem ++ [inst]) x' rem' Wn); [|exact E0].
        apply (CI_step_hier x x1 x2 x3 done inst d _ Cx Hb Hr Hl0 K1 Ec U2 S2 Er).
  Qed.
End Conn.

(* the leaf cells are black boxes: a boundary of a leaf instance is not wired on both sides *)
Definition LeafPinsFree (s : state) (t : id) : Prop :=
  forall n j, Below s t n -> hierb s n = false -> pin_wire s (POut n j) = None \/ ipwire s j = None.

Theorem flatten_conn fuel x n x' t topd :
  UF (st x) -> Uniquified (st x) t -> top (st x) n = Some t -> iref (st x) t = Some topd ->
  flatten fuel x n = (x', None) ->
  (forall p q, ~ HP (st x) t p -> ~ HP (st x) t q ->
     (E (Below (st x) t) (pin_wire (st x')) p q <-> E (Below (st x) t) (pin_wire (st x)) p q)) /\
  (forall c j, Below (st x) t c -> hierb (st x) c = true -> pin_wire (st x') (POut c j) = None) /\
  (forall p, pin_wire (st x) p = None -> pin_wire (st x') p = None).
Proof.
  intros U0 Hu Htop Ht E0. unfold flatten in E0. rewrite Htop, Ht in E0.
  destruct (flat_loop fuel x topd (map (fun c => (c, None)) (kids (st x) RChildren topd)) []) as [[x1 [er|]] rem] eqn:El; [discriminate E0|].
  destruct (flat_loop_WC (st x) t topd U0 Hu Ht fuel x _ [] [] x1 rem (W_init (st x) t topd U0 Hu Ht x eq_refl) (CI_init (st x) t) El) as [done [Wd Cd]].
  destruct (remove_fold_eff topd rem x1 x' E0) as [K _].
  pose proof (CI_pw (st x) t (st x1) (st x') done (pw_keep _ _ K) Cd) as [A B C].
  split; [exact A|]. split; [|exact C].
  intros c j [y [p Hp]] Hh. apply B; [|exact Hh]. apply (W_done_below (st x) t topd U0 x1 done rem Wd p c y Hp).
Qed.

(* with black-box leaves: two pins outside the dissolved boundaries are on the same wire afterwards
   exactly when they were connected through the hierarchy before *)
Theorem flatten_conn_same_wire fuel x n x' t topd :
  UF (st x) -> Uniquified (st x) t -> top (st x) n = Some t -> iref (st x) t = Some topd ->
  flatten fuel x n = (x', None) -> LeafPinsFree (st x) t ->
  forall p q, ~ HP (st x) t p -> ~ HP (st x) t q ->
    ((exists w, pin_wire (st x') p = Some w /\ pin_wire (st x') q = Some w) <-> E (Below (st x) t) (pin_wire (st x)) p q).
Proof.
  intros U0 Hu Htop Ht E0 Hfree p q Hp Hq.
  destruct (flatten_conn fuel x n x' t topd U0 Hu Htop Ht E0) as [A [B C]].
  rewrite <- (A p q Hp Hq). symmetry. apply E_no_links.
  intros c j Dc. destruct (hierb (st x) c) eqn:Hh; [left; apply B; assumption|].
  destruct (Hfree c j Dc Hh) as [H|H]; [left; apply C; exact H|right; apply (C (PIn j)); exact H].
Qed.
