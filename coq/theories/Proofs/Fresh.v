(* Freshness: identifiers at or above [next] are unallocated and nothing is recorded for them in
   the containment, parent and reference maps. Preserved by every operation; it is what makes
   "a compound constructor that is refused leaves nothing registered" (C14) a theorem. *)
From Coq Require Import List Arith Bool Lia.
From RecordUpdate Require Import RecordSet.
From SV Require Import Base.Base IR.State IR.NS IR.Ops Proofs.AssocX Proofs.Frame Proofs.Inv1a Proofs.Inv2a
  Proofs.InvP Proofs.InvW.
Import ListNotations RecordSetNotations.

Record Fresh (s : state) : Prop := mkFresh {
  f_kind : forall x, next s <= x -> kind_of s x = None;
  f_kids : forall r x, next s <= x -> kids s r x = [];
  f_par : forall r x, next s <= x -> par s r x = None;
  f_iref : forall x, next s <= x -> iref s x = None
}.

Lemma fresh_init : Fresh init.
Proof. constructor; reflexivity. Qed.

Lemma fresh_frame s s' : frame_w s s' -> Fresh s -> Fresh s'.
Proof.
  intros [Hk Hp Hr _ Hn Hkd] [F1 F2 F3 F4]. constructor; intros; rewrite ?Hkd, ?Hk, ?Hp, ?Hr; rewrite Hn in *; auto.
Qed.

Lemma struct_frame s s' : struct_eq s s' -> frame_w s s'.
Proof. intros []. constructor; assumption. Qed.

Lemma is_kind_lt s x k : Fresh s -> is_kind s x k = true -> x < next s.
Proof.
  intros F H. unfold is_kind in H. destruct (kind_of s x) eqn:E; [|discriminate].
  destruct (Nat.lt_ge_cases x (next s)) as [Hl|Hg]; [exact Hl|]. rewrite (f_kind s F x Hg) in E. discriminate.
Qed.

(* ---- unconditional frames of the pin/wire primitives ---- *)
Lemma fw_drop_outer s n i : frame_w s (fst (drop_outer s n i)).
Proof. unfold drop_outer. destruct (assoc i (ipins s n)) as [[w|]|]; cbn; constructor; reflexivity. Qed.

Lemma fw_rekey s n cn : frame_w s (fst (rekey s n cn)).
Proof. unfold rekey. destruct cn. destruct (assoc _ _) as [[w|]|]; cbn; constructor; reflexivity. Qed.

Lemma fw_bind r f s : frame_w s (fst r) -> (forall s1, frame_w s1 (fst (f s1))) -> frame_w s (fst (r >>= f)).
Proof. destruct r as [s1 [x|]]; cbn; intros H1 H2; [exact H1|]. eapply frame_w_trans; [exact H1|apply H2]. Qed.

Lemma fw_fold_ids f l : (forall s x, frame_w s (f s x)) -> forall s, frame_w s (fold_ids f l s).
Proof.
  intro H. induction l as [|x l IH]; intro s; cbn; [apply frame_w_refl|]. eapply frame_w_trans; [apply H|apply IH].
Qed.

Lemma fw_fold_idsR f l : (forall s x, frame_w s (fst (f s x))) -> forall s, frame_w s (fst (fold_idsR f l s)).
Proof.
  intro H. induction l as [|x l IH]; intro s; cbn; [apply frame_w_refl|]. apply fw_bind; [apply H|apply IH].
Qed.

Lemma fw_fold_pairsR f l : (forall s x, frame_w s (fst (f s x))) -> forall s, frame_w s (fst (fold_pairsR f l s)).
Proof.
  intro H. induction l as [|x l IH]; intro s; cbn; [apply frame_w_refl|]. apply fw_bind; [apply H|apply IH].
Qed.

Lemma fw_fold_left {A} (f : state -> A -> state) l : (forall s x, frame_w s (f s x)) -> forall s, frame_w s (fold_left f l s).
Proof.
  intro H. induction l as [|x l IH]; intro s; cbn; [apply frame_w_refl|]. eapply frame_w_trans; [apply H|apply IH].
Qed.

Lemma fw_add_post s r p c : frame_w s (add_post s r p c).
Proof.
  unfold add_post. destruct r; try apply frame_w_refl.
  - apply fw_fold_ids. intros s0 n. apply fw_fold_ids. intros; apply frame_new_outer.
  - destruct (par s RPorts p); [|apply frame_w_refl]. apply fw_fold_ids. intros; apply frame_new_outer.
Qed.

Lemma fw_guard b x s k : (forall s1, frame_w s1 (fst (k s1))) -> frame_w s (fst (guard b x s k)).
Proof. intro H. unfold guard. destruct b; [apply H|apply frame_w_refl]. Qed.

(* ---- allocation ---- *)
Lemma fresh_alloc s k : Fresh s -> Fresh (fst (alloc s k)).
Proof.
  intros [F1 F2 F3 F4]. constructor; cbn; intros; try (apply F2 || apply F3 || apply F4; lia).
  unfold upd. destruct (Nat.eqb_spec x (next s)); [lia|]. apply F1. lia.
Qed.

Lemma construct_frame s k nm props :
  let s' := fst (fst (construct s k nm props)) in
  kids s' = kids s /\ par s' = par s /\ iref s' = iref s /\ next s' = S (next s) /\
  kind_of s' = upd (kind_of s) (next s) (Some k).
Proof.
  unfold construct, alloc. cbn zeta beta iota.
  set (s0 := s <| next := S (next s) |> <| kind_of ::= fun f => upd f (next s) (Some k) |>).
  destruct (has_data k); cbn [fst]; [|repeat split; reflexivity].
  match goal with |- context [fst (?m)] => assert (H0 : struct_eq s0 (fst m)) end.
  { apply se_bind; [apply se_ns_create|]. intro s1.
    apply se_bind; [destruct nm; cbn; [eapply struct_eq_trans; [apply se_emit|apply se_dict_set]|apply se_emit]|].
    intro; apply se_set_props. }
  destruct H0. repeat split; assumption.
Qed.

Lemma fresh_construct s k nm props : Fresh s -> Fresh (fst (fst (construct s k nm props))).
Proof.
  intros [F1 F2 F3 F4]. destruct (construct_frame s k nm props) as [Hk [Hp [Hr [Hn Hkd]]]].
  constructor; intros; rewrite ?Hkd, ?Hk, ?Hp, ?Hr; rewrite Hn in *; try (apply F2 || apply F3 || apply F4; lia).
  unfold upd. destruct (Nat.eqb_spec x (next s)); [lia|]. apply F1. lia.
Qed.

(* ---- the container operations ---- *)
Lemma fresh_link s r p c l :
  Fresh s -> p < next s -> c < next s ->
  forall s', kids s' = upd2 (kids s) r p l -> par s' = upd2 (par s) r c (Some p) ->
             iref s' = iref s -> next s' = next s -> kind_of s' = kind_of s -> Fresh s'.
Proof.
  intros [F1 F2 F3 F4] Hp Hc s' Hk Hpar Hr Hn Hkd.
  constructor; intros; rewrite ?Hkd, ?Hk, ?Hpar, ?Hr; rewrite Hn in *; auto.
  - rewrite upd2_other_id by lia. apply F2. assumption.
  - rewrite upd2_other_id by lia. apply F3. assumption.
Qed.

Lemma fresh_op_add s r p c pos : Fresh s -> Fresh (fst (op_add s r p c pos)).
Proof.
  intro F. unfold op_add, guard.
  destruct (is_kind s p (rel_parent r) && is_kind s c (rel_child r)) eqn:Hk; [|exact F].
  apply andb_true_iff in Hk as [Hk1 Hk2].
  destruct (add_guard1 s r p c); [|exact F].
  destruct (par s r c); [exact F|].
  pose proof (se_ns_add s p c (rel_child r)) as Hse.
  set (res := if ns_rel r then ns_add s p c (rel_child r) else ret s).
  assert (Hse' : struct_eq s (fst res)) by (unfold res; destruct (ns_rel r); [exact Hse|apply struct_eq_refl]).
  destruct res as [s1 [e|]]; cbn [bindR fst snd] in *.
  - eapply fresh_frame; [apply struct_frame; exact Hse'|exact F].
  - assert (F1 : Fresh s1) by (eapply fresh_frame; [apply struct_frame; exact Hse'|exact F]).
    eapply fresh_frame; [apply fw_add_post|].
    destruct Hse' as [Hkk Hpp _ _ _ _ _ Hnn Hkd _ _ _ _ _ _ _].
    apply (fresh_link s1 r p c (py_insert pos c (kids s1 r p)) F1).
    + rewrite Hnn. apply (is_kind_lt s p _ F Hk1).
    + rewrite Hnn. apply (is_kind_lt s c _ F Hk2).
    + reflexivity.
    + reflexivity.
    + reflexivity.
    + reflexivity.
    + reflexivity.
Qed.

Lemma fw_remove_core_mid s r p c :
  exists s3, fst (remove_core s r p c) = s3 /\
  (snd (remove_core s r p c) <> None -> frame_w s s3) /\
  (snd (remove_core s r p c) = None ->
     kids s3 = kids s /\ par s3 = upd2 (par s) r c None /\ iref s3 = iref s /\ next s3 = next s /\ kind_of s3 = kind_of s).
Proof.
  eexists. split; [reflexivity|]. unfold remove_core.
  set (s1 := if ns_rel r then ns_remove_child s p c (rel_child r) else s).
  assert (H1 : frame_w s s1).
  { unfold s1. destruct (ns_rel r); [apply struct_frame, se_ns_remove_child|apply frame_w_refl]. }
  set (s2 := emit s1 (ERemove r p c)).
  assert (H2 : frame_w s s2) by (destruct H1; constructor; assumption).
  match goal with |- context [?m >>= _] => set (mid := m) end.
  assert (H3 : frame_w s (fst mid)).
  { eapply frame_w_trans; [exact H2|]. unfold mid. destruct r; try apply frame_w_refl.
    - apply fw_fold_idsR. intros s0 n. apply fw_fold_idsR. intros; apply fw_drop_outer.
    - destruct (par s2 RPorts p); [|apply frame_w_refl]. apply fw_fold_idsR. intros; apply fw_drop_outer. }
  destruct mid as [s3 [e|]]; cbn [bindR fst snd ret] in *.
  - split; [intros _; exact H3|discriminate].
  - split; [congruence|]. intros _. destruct H3 as [A B C _ D E]. cbn. rewrite B. repeat split; assumption.
Qed.

Lemma fresh_par_none s r c : Fresh s -> forall s', kids s' = kids s -> par s' = upd2 (par s) r c None ->
  iref s' = iref s -> next s' = next s -> kind_of s' = kind_of s -> Fresh s'.
Proof.
  intros [F1 F2 F3 F4] s' Hk Hp Hr Hn Hkd.
  constructor; intros; rewrite ?Hkd, ?Hk, ?Hp, ?Hr; rewrite Hn in *; auto.
  unfold upd2, upd. destruct (rel_eqb r0 r); [destruct (Nat.eqb x c); [reflexivity|]|]; apply F3; assumption.
Qed.

Lemma fresh_remove_core s r p c : Fresh s -> Fresh (fst (remove_core s r p c)).
Proof.
  intro F. destruct (fw_remove_core_mid s r p c) as [s3 [E [H1 H2]]]. rewrite E.
  destruct (snd (remove_core s r p c)) eqn:Es.
  - eapply fresh_frame; [apply H1; discriminate|exact F].
  - destruct (H2 eq_refl) as [A [B [C [D E']]]]. apply (fresh_par_none s r c F s3 A B C D E').
Qed.

Lemma fresh_set_kids s r p l : Fresh s -> p < next s -> Fresh (set_kids s r p l).
Proof.
  intros [F1 F2 F3 F4] Hp. constructor; cbn; intros; auto.
  rewrite upd2_other_id by lia. apply F2. assumption.
Qed.

Lemma fresh_bind (r : R) f : Fresh (fst r) -> (forall s1, Fresh s1 -> Fresh (fst (f s1))) -> Fresh (fst (r >>= f)).
Proof. destruct r as [s1 [e|]]; cbn; auto. Qed.

Lemma fresh_fold_idsR f l : (forall s x, Fresh s -> Fresh (fst (f s x))) -> forall s, Fresh s -> Fresh (fst (fold_idsR f l s)).
Proof.
  intro H. induction l as [|x l IH]; intros s F; cbn; [exact F|]. apply fresh_bind; [apply H; exact F|exact IH].
Qed.

Lemma next_remove_core s r p c : next (fst (remove_core s r p c)) = next s.
Proof.
  destruct (fw_remove_core_mid s r p c) as [s3 [E [H1 H2]]]. rewrite E.
  destruct (snd (remove_core s r p c)) eqn:Es; [apply (fw_next _ _ (H1 ltac:(discriminate)))|apply (H2 eq_refl)].
Qed.

Lemma next_fold_remove_core r p l : forall s, next (fst (fold_idsR (fun s c => remove_core s r p c) l s)) = next s.
Proof.
  induction l as [|c l IH]; intro s; cbn; [reflexivity|].
  pose proof (next_remove_core s r p c) as H. destruct (remove_core s r p c) as [s1 [e|]]; cbn in *; [exact H|].
  rewrite IH. exact H.
Qed.

Lemma fresh_op_remove s r p c : Fresh s -> Fresh (fst (op_remove s r p c)).
Proof.
  intro F. unfold op_remove, guard.
  destruct (is_kind s p (rel_parent r) && is_kind s c (rel_child r)) eqn:Hk; [|exact F].
  apply andb_true_iff in Hk as [Hk1 _].
  destruct (par_is s r c p); [|exact F].
  pose proof (fresh_remove_core s r p c F) as F1. pose proof (next_remove_core s r p c) as Hn.
  destruct (remove_core s r p c) as [s1 [e|]]; cbn [bindR fst ret] in *; [exact F1|].
  apply fresh_set_kids; [exact F1|]. rewrite Hn. apply (is_kind_lt s p _ F Hk1).
Qed.

Lemma fresh_op_remove_from s r p cs : Fresh s -> Fresh (fst (op_remove_from s r p cs)).
Proof.
  intro F. unfold op_remove_from, guard.
  destruct (is_kind s p (rel_parent r) && forallb (fun c => is_kind s c (rel_child r)) cs) eqn:Hk; [|exact F].
  apply andb_true_iff in Hk as [Hk1 _].
  destruct (forallb _ cs); [|exact F].
  match goal with |- context [fold_idsR ?f ?l s] => pose proof (fresh_fold_idsR f l (fun s0 c F0 => fresh_remove_core s0 r p c F0) s F) as F1;
    pose proof (next_fold_remove_core r p l s) as Hn; destruct (fold_idsR f l s) as [s1 [e|]] end; cbn [bindR fst ret] in *; [exact F1|].
  apply fresh_set_kids; [exact F1|]. rewrite Hn. apply (is_kind_lt s p _ F Hk1).
Qed.

Definition frame_f (s s' : state) : Prop :=
  kids s' = kids s /\ par s' = par s /\ iref s' = iref s /\ next s' = next s /\ kind_of s' = kind_of s.

Lemma ff_of_fw s s' : frame_w s s' -> frame_f s s'.
Proof. intros [A B C _ D E]. repeat split; assumption. Qed.

Lemma ff_trans a b c : frame_f a b -> frame_f b c -> frame_f a c.
Proof. intros [A [B [C [D E]]]] [A' [B' [C' [D' E']]]]. repeat split; congruence. Qed.

Lemma ff_bind r f s : frame_f s (fst r) -> (forall s1, frame_f s1 (fst (f s1))) -> frame_f s (fst (r >>= f)).
Proof. destruct r as [s1 [x|]]; cbn; intros H1 H2; [exact H1|]. eapply ff_trans; [exact H1|apply H2]. Qed.

Lemma fw_op_set_reference_but_iref s x v :
  let s' := fst (op_set_reference s x v) in
  kids s' = kids s /\ par s' = par s /\ next s' = next s /\ kind_of s' = kind_of s /\
  (forall y, y <> x -> iref s' y = iref s y).
Proof.
  unfold op_set_reference, guard. cbn zeta.
  destruct (_ && _); [|repeat split; reflexivity].
  destruct (match v, iref s x with Some d', Some d => same_shape s d d' | _, _ => true end); [|repeat split; reflexivity].
  assert (Hgen : forall (r : R) (k : state -> R), frame_f s (fst r) ->
            (forall s1, kids (fst (k s1)) = kids s1 /\ par (fst (k s1)) = par s1 /\ next (fst (k s1)) = next s1 /\
                        kind_of (fst (k s1)) = kind_of s1 /\ (forall y, y <> x -> iref (fst (k s1)) y = iref s1 y)) ->
            kids (fst (r >>= k)) = kids s /\ par (fst (r >>= k)) = par s /\ next (fst (r >>= k)) = next s /\
            kind_of (fst (r >>= k)) = kind_of s /\ (forall y, y <> x -> iref (fst (r >>= k)) y = iref s y)).
  { intros [s1 [e|]] k [A [B [C [D E]]]] Hk; cbn [bindR fst] in *.
    - repeat split; try assumption. intros; rewrite C; reflexivity.
    - destruct (Hk s1) as [A' [B' [D' [E' C']]]]. repeat split; try congruence. intros y Hy. rewrite C' by exact Hy. rewrite C. reflexivity. }
  destruct v as [d'|].
  - apply Hgen.
    + destruct (iref (emit s (EReference x (Some d'))) x) as [d|].
      * apply ff_bind; [destruct (memb _ _); cbn; repeat split; reflexivity|].
        intro s2. apply ff_of_fw. apply fw_fold_pairsR. intros; apply fw_rekey.
      * cbn [fst ret]. apply ff_of_fw. eapply frame_w_trans; [|apply fw_fold_ids; intros; apply frame_new_outer]. constructor; reflexivity.
    + intro s3. cbn. repeat split; try reflexivity. intros y Hy. apply upd_other. exact Hy.
  - apply Hgen.
    + apply ff_of_fw. eapply frame_w_trans; [|apply fw_fold_idsR; intros; apply fw_drop_outer]. constructor; reflexivity.
    + intro s3.
      assert (Hin : forall (r : R), frame_f (set_ipins s3 x []) (fst r) ->
                kids (fst (r >>= fun s4 => ret (set_iref s4 x None))) = kids s3 /\
                par (fst (r >>= fun s4 => ret (set_iref s4 x None))) = par s3 /\
                next (fst (r >>= fun s4 => ret (set_iref s4 x None))) = next s3 /\
                kind_of (fst (r >>= fun s4 => ret (set_iref s4 x None))) = kind_of s3 /\
                (forall y, y <> x -> iref (fst (r >>= fun s4 => ret (set_iref s4 x None))) y = iref s3 y)).
      { intros [s4 [e|]] [A [B [C [D E]]]]; cbn [bindR fst ret] in *.
        - repeat split; try assumption. intros; rewrite C; reflexivity.
        - cbn. repeat split; try assumption. intros y Hy. rewrite upd_other by exact Hy. rewrite C. reflexivity. }
      apply Hin. destruct (iref _ x); [destruct (memb _ _)|]; cbn; repeat split; reflexivity.
Qed.

Lemma fresh_op_set_reference s x v : Fresh s -> Fresh (fst (op_set_reference s x v)).
Proof.
  intros F. destruct (fw_op_set_reference_but_iref s x v) as [A [B [C [D E]]]].
  assert (Hx : x < next s \/ fst (op_set_reference s x v) = s).
  { unfold op_set_reference, guard.
    destruct (is_kind s x KInstance && _) eqn:Hk; [|right; reflexivity].
    apply andb_true_iff in Hk as [Hk _]. left. apply (is_kind_lt s x _ F Hk). }
  destruct Hx as [Hx|Hx]; [|rewrite Hx; exact F].
  destruct F as [F1 F2 F3 F4]. constructor; intros; rewrite ?D, ?A, ?B; rewrite C in *; auto.
  rewrite E by lia. apply F4. assumption.
Qed.

Lemma fresh_create_items r p n : forall s, Fresh s -> Fresh (fst (create_items s r p n)).
Proof.
  induction n as [|n IH]; intros s F; cbn [create_items]; [exact F|].
  pose proof (fresh_alloc s (rel_child r) F) as F0. cbn in F0.
  apply fresh_bind; [apply fresh_op_add; exact F0|exact IH].
Qed.

Lemma fresh_fields s s' :
  kids s' = kids s -> par s' = par s -> iref s' = iref s -> next s' = next s -> kind_of s' = kind_of s -> Fresh s -> Fresh s'.
Proof. intros A B C D E F. apply (fresh_frame s); [constructor; try assumption|exact F]. Abort.

Lemma fresh_same s s' :
  kids s' = kids s -> par s' = par s -> iref s' = iref s -> next s' = next s -> kind_of s' = kind_of s -> Fresh s -> Fresh s'.
Proof.
  intros A B C D E [F1 F2 F3 F4]. constructor; intros; rewrite ?E, ?A, ?B, ?C; rewrite D in *; auto.
Qed.

Lemma fresh_guard b x s k : Fresh s -> (forall s1, Fresh s1 -> Fresh (fst (k s1))) -> Fresh (fst (guard b x s k)).
Proof. unfold guard. destruct b; auto. Qed.

Lemma fresh_struct s (r : R) : Fresh s -> struct_eq s (fst r) -> Fresh (fst r).
Proof. intros F H. eapply fresh_frame; [apply struct_frame; exact H|exact F]. Qed.

Ltac solve_same :=
  match goal with H : Fresh ?sx |- _ => solve [apply (fresh_same sx); try reflexivity; exact H] end.

Theorem step_fresh s o : Fresh s -> Fresh (fst (step s o)).
Proof.
  intro F. destruct o; cbn [step].
  - apply fresh_construct; exact F.
  - apply fresh_guard; [exact F|]. intros s1 F1. unfold create_and_add.
    pose proof (fresh_construct s1 (rel_child r) nm props F1) as Fc.
    destruct (construct s1 (rel_child r) nm props) as [res x]. cbn [fst] in Fc.
    apply fresh_bind.
    + apply fresh_bind; [exact Fc|]. intros s2 F2. apply fresh_op_add; exact F2.
    + intros s2 F2. destruct r; try exact F2.
      * apply fresh_create_items; exact F2.
      * apply fresh_create_items; exact F2.
      * apply fresh_op_set_reference; exact F2.
  - apply fresh_guard; [exact F|]. intros; apply fresh_create_items; assumption.
  - apply fresh_op_add; exact F.
  - apply fresh_op_remove; exact F.
  - apply fresh_op_remove_from; exact F.
  - unfold op_reorder, guard. destruct (is_kind s p (rel_parent r)) eqn:Hk; [|exact F].
    destruct (_ && _); [|exact F]. cbn [fst ret]. apply fresh_set_kids; [exact F|apply (is_kind_lt s p _ F Hk)].
  - unfold op_reorder_wire. repeat (apply fresh_guard; [assumption|]; intros ? ?). cbn [fst ret]. solve_same.
  - unfold op_connect. apply fresh_guard; [exact F|]. intros s1 F1.
    destruct p as [i|n i|]; cbn; try exact F1.
    + destruct (ipwire s1 i); cbn; [exact F1|]. apply (fresh_same s1); try reflexivity; exact F1.
    + destruct (assoc i (ipins s1 n)) as [[w0|]|]; cbn; try exact F1. apply (fresh_same s1); try reflexivity; exact F1.
  - unfold op_disconnect. repeat (apply fresh_guard; [assumption|]; intros ? ?).
    destruct p; cbn [fst ret]; solve_same.
  - unfold op_disconnect_from. repeat (apply fresh_guard; [assumption|]; intros ? ?). cbn [fst ret].
    match goal with H : Fresh ?sx |- Fresh (set_wpins (fold_left ?f ?l ?sx) _ _) =>
      apply (fresh_frame sx); [|exact H];
      apply (frame_w_trans sx (fold_left f l sx)); [|constructor; reflexivity];
      apply fw_fold_left; intros sq q; destruct q; constructor; reflexivity end.
  - apply fresh_op_set_reference; exact F.
  - unfold op_set_top. apply fresh_guard; [exact F|]. intros s1 F1.
    assert (F0 : Fresh (clear_old_top (emit s1 (ETop n a)) n)).
    { apply (fresh_same s1); try (unfold clear_old_top; destruct (top _ n); reflexivity). exact F1. }
    destruct a as [x|d|].
    + cbn [fst ret]. solve_same.
    + pose proof (fresh_construct _ KInstance None [] F0) as Fc.
      destruct (construct (clear_old_top (emit s1 (ETop n (TopDef d))) n) KInstance None []) as [res t]. cbn [fst] in Fc.
      apply fresh_bind; [exact Fc|]. intros s2 F2.
      apply fresh_bind; [apply fresh_op_set_reference; exact F2|]. intros s3 F3.
      apply (fresh_same s3); try (unfold clear_old_top; cbn; destruct (top _ n); reflexivity). exact F3.
    + cbn [fst ret]. solve_same.
  - apply fresh_guard; [exact F|]. intros s1 F1. apply (fresh_struct s1 _ F1), se_op_set_name.
  - apply fresh_guard; [exact F|]. intros s1 F1. apply (fresh_struct s1 _ F1), se_op_del_name.
  - apply fresh_guard; [exact F|]. intros s1 F1. apply (fresh_struct s1 _ F1), se_dict_set.
  - apply fresh_guard; [exact F|]. intros s1 F1. apply (fresh_struct s1 _ F1), se_dict_del.
  - apply fresh_guard; [exact F|]. intros s1 F1. apply (fresh_struct s1 _ F1), se_dict_pop.
  - apply fresh_guard; [exact F|]. intros s1 F1. apply (fresh_same s1); try reflexivity; exact F1.
  - repeat (apply fresh_guard; [assumption|]; intros ? ?). cbn [fst ret]. solve_same.
  - apply fresh_guard; [exact F|]. intros s1 F1. apply (fresh_same s1); try reflexivity; exact F1.
  - apply fresh_guard; [exact F|]. intros s1 F1. apply (fresh_same s1); try reflexivity; exact F1.
  - apply (fresh_same s); try reflexivity; exact F.
Qed.
