(* C12, the narrow selections (INSIDE / OUTSIDE / BOTH) from port, wire and cable starts.

   hw_close_narrow          in ANY heap the closure under a narrow selection makes one pop per start
                            pin and pushes nothing: it returns the wires on the selected side(s) of
                            the start pins, each once, with the fuel the model hands to it.
   get_hwires_narrow_port   from a hierarchical port: the union over its pins.
   get_hwires_INSIDE_wire   from a hierarchical wire, INSIDE: the wire itself, nothing else.
   get_hwires_OUTSIDE_wire  from a hierarchical wire, OUTSIDE: exactly the wire occurrences ONE
                            boundary crossing away (down through an instance pin on the wire, or up
                            through a port pin on the wire), never the wire itself.
   get_hwires_BOTH_wire     BOTH: the wire itself and the occurrences one crossing away.
   get_hwires_INSIDE_cable / get_hwires_OUTSIDE_cable : the unions over the wires of the cable. *)
From Coq Require Import List Arith Bool Lia Relations.
From SV Require Import Base.Base IR.State Proofs.Inv1a Proofs.Inv2a Hier.Paths Hier.Enum Hier.Trace Hier.Conn
  Proofs.HierValid Proofs.HierEnum Proofs.HierClosure Proofs.HierTrace Proofs.HierNarrow
  Proofs.HierTracePort Proofs.HierTraceCable.
Import ListNotations.

Lemma hw_close_narrow : forall s x usum start, sel_all x = false ->
  exists found, hw_close s x (close_fuel usum start) start = Some found /\ NoDup found /\
                (forall b, In b found <-> exists a, In a start /\ In b (nb_sel s x a)).
Proof.
  intros s x usum start Hx.
  destruct (worklist_no_expand href href href_eqb href_eqb href_eqb_spec href_eqb_spec (nb_sel s x)
              start (close_fuel usum start)) as (l & El & Nl & Sl).
  { unfold close_fuel. lia. }
  exists l. split; [|split; [exact Nl|exact Sl]].
  unfold hw_close. rewrite Hx. exact El.
Qed.

Lemma hw_close_nil : forall s x usum, hw_close s x (close_fuel usum []) [] = Some [].
Proof. reflexivity. Qed.

Section NarrowStarts.
  Variable s : state.
  Variable t : id.
  Hypothesis I1 : Inv1a s.
  Hypothesis I2 : Inv2a s.
  Hypothesis K : WFk s.
  Hypothesis Hroot : is_root s t.

  Local Notation GA := (hpin_occ s t).
  Local Notation GB := (hwire_occ s t).
  Local Notation nbA := (nb_sel s SAll).
  Local Notation pinsB := (hpins_of_hwire s).

  (* ---- port starts ---- *)
  Theorem get_hwires_narrow_port : forall x usum q x0 p, sel_all x = false ->
    is_rpath s t (x0 :: p) -> In q (ports_of s x0) ->
    exists l, get_hwires s x false usum (q :: x0 :: p) = Some l /\ NoDup l /\
              (forall b, In b l <-> exists i, In i (kids s RPins q) /\
                                              In b (nb_sel s x (i :: q :: x0 :: p))).
  Proof.
    intros x usum q x0 p Hx Hp Hq.
    destruct (hw_close_narrow s x usum (map (fun i => i :: q :: x0 :: p) (kids s RPins q)) Hx)
      as (found & Ef & Nf & Sf).
    exists (href_union (href_union [] []) (rev found)). split.
    - unfold get_hwires. rewrite (port_occ_valid s t I1 I2 K Hroot q x0 p Hp Hq). cbn [negb].
      rewrite (port_occ_kind s K q x0 Hq). cbn beta iota zeta.
      unfold href in *. rewrite Ef. reflexivity.
    - split; [apply result_nodup|].
      intro b. rewrite result_In, <- in_rev, Sf. cbn [In]. split.
      + intros [[]|(a & Ha & Hb)]. apply in_map_iff in Ha as (i & <- & Hi). exists i. auto.
      + intros (i & Hi & Hb). right. exists (i :: q :: x0 :: p). split; [|exact Hb].
        apply in_map_iff. exists i. auto.
  Qed.

  Theorem get_hwires_INSIDE_port : forall usum q x0 p,
    is_rpath s t (x0 :: p) -> In q (ports_of s x0) ->
    exists l, get_hwires s SInside false usum (q :: x0 :: p) = Some l /\ NoDup l /\
              (forall b, In b l <-> exists i w c, In i (kids s RPins q) /\ ipwire s i = Some w /\
                                                  par s RWires w = Some c /\ b = w :: c :: x0 :: p).
  Proof.
    intros usum q x0 p Hp Hq.
    destruct (get_hwires_narrow_port SInside usum q x0 p eq_refl Hp Hq) as (l & El & Nl & Sl).
    exists l. split; [exact El|]. split; [exact Nl|]. intro b. rewrite Sl. split.
    - intros (i & Hi & Hb). unfold nb_sel in Hb. cbn [sel_in sel_out app] in Hb.
      rewrite app_nil_r in Hb. unfold opt_list in Hb.
      destruct (inner_hwire s (i :: q :: x0 :: p)) as [h|] eqn:E; [|destruct Hb].
      destruct Hb as [<-|[]]. apply (inner_spec s) in E as (w & c & Hw & Hc & ->).
      exists i, w, c. auto.
    - intros (i & w & c & Hi & Hw & Hc & ->). exists i. split; [exact Hi|].
      unfold nb_sel. cbn [sel_in sel_out app]. rewrite app_nil_r.
      assert (E : inner_hwire s (i :: q :: x0 :: p) = Some (w :: c :: x0 :: p))
        by (apply (inner_spec s); exists w, c; auto).
      rewrite E. left; reflexivity.
  Qed.

  Theorem get_hwires_OUTSIDE_port : forall usum q x0 x' p',
    is_rpath s t (x0 :: x' :: p') -> In q (ports_of s x0) ->
    exists l, get_hwires s SOutside false usum (q :: x0 :: x' :: p') = Some l /\ NoDup l /\
              (forall b, In b l <-> exists i w c, In i (kids s RPins q) /\
                                                  assoc i (ipins s x0) = Some (Some w) /\
                                                  par s RWires w = Some c /\ b = w :: c :: x' :: p').
  Proof.
    intros usum q x0 x' p' Hp Hq.
    destruct (get_hwires_narrow_port SOutside usum q x0 (x' :: p') eq_refl Hp Hq) as (l & El & Nl & Sl).
    exists l. split; [exact El|]. split; [exact Nl|]. intro b. rewrite Sl. split.
    - intros (i & Hi & Hb). unfold nb_sel in Hb. cbn [sel_in sel_out app] in Hb.
      unfold opt_list in Hb.
      destruct (outer_hwire s (i :: q :: x0 :: x' :: p')) as [h|] eqn:E; [|destruct Hb].
      destruct Hb as [<-|[]]. apply (outer_spec s) in E as (w & c & Hw & Hc & ->).
      exists i, w, c. auto.
    - intros (i & w & c & Hi & Hw & Hc & ->). exists i. split; [exact Hi|].
      unfold nb_sel. cbn [sel_in sel_out app].
      assert (E : outer_hwire s (i :: q :: x0 :: x' :: p') = Some (w :: c :: x' :: p'))
        by (apply (outer_spec s); exists w, c; auto).
      rewrite E. left; reflexivity.
  Qed.

  (* ---- wire starts ---- *)
  Theorem get_hwires_INSIDE_wire : forall usum x, GB x ->
    get_hwires s SInside false usum x = Some [x].
  Proof.
    intros usum x G. pose proof (GB_valid s t I1 I2 K Hroot x G) as Hv.
    destruct G as (w & c & x0 & p & -> & Hp & Hc & Hw).
    assert (G : GB (w :: c :: x0 :: p)) by (exists w, c, x0, p; auto).
    unfold get_hwires. rewrite Hv. cbn [negb]. rewrite (GB_kind s t K w c (x0 :: p) G).
    cbn beta iota zeta. cbn [hw_phase1_wire]. rewrite hw_close_nil.
    cbn [rev href_union href_mem app]. reflexivity.
  Qed.

  Hypothesis C : WFc s.

  Lemma GB_par : forall w c r, GB (w :: c :: r) -> par s RWires w = Some c.
  Proof.
    intros w c r (w0 & c0 & x & p & E & _ & _ & Hw). inversion E; subst.
    apply (kids_par s I1). exact Hw.
  Qed.

  Lemma hlink_good : forall b b', hlink s b b' -> GB b -> GB b'.
  Proof.
    intros b b' L G.
    exact (step1_good s t I1 C b b' G (hlink_step s t C b b' L G)).
  Qed.

  (* what the OUTSIDE branch of the Wire case collects *)
  Lemma wire_outside_spec : forall x b, GB x ->
    (In b (wire_outside s x) <-> (hlink_occ s t x b \/ hlink_occ s t b x)).
  Proof.
    intros x b G. pose proof G as G0.
    destruct G as (w & c & x0 & p & -> & Hp & Hc & Hw).
    pose proof (GB_par w c (x0 :: p) G0) as Hwc.
    unfold wire_outside. rewrite in_flat_map. split.
    - intros (pn & Hpn & Hb). destruct pn as [i|n i|]; [| |destruct Hb].
      + (* a port pin on the wire: up, when the instance is not the top *)
        destruct p as [|x' p']; [destruct Hb|].
        destruct (assoc i (ipins s x0)) as [[ow|]|] eqn:Ea; try (destruct Hb; fail).
        destruct (par s RWires ow) as [oc|] eqn:Eo; [|destruct Hb].
        destruct Hb as [<-|[]]. right.
        assert (L : hlink s (ow :: oc :: x' :: p') (w :: c :: x0 :: x' :: p')).
        { apply hlink_intro with i; try assumption.
          - apply (wc_out s C). exact Ea.
          - apply (wc_in s C). exact Hpn. }
        assert (Gb : GB (ow :: oc :: x' :: p')).
        { destruct (wc_local_in s C i w c Hpn Hwc) as (d & q & Hd & Hq & Hqd).
          apply (g_nb s t I1 C (i :: q :: x0 :: x' :: p')).
          - exists i, q, x0, (x' :: p'). split; [reflexivity|]. split; [exact Hp|]. split.
            + apply (ports_of_par s I1). apply (cables_of_par s I1) in Hc as (d' & Hx & Hcd).
              exists d'. split; [exact Hx|]. congruence.
            + apply (kids_par s I1). exact Hq.
          - apply (in_nbA s). right. apply (outer_spec s). exists ow, oc. auto. }
        split; [exact Gb|]. split; [exact G0|exact L].
      + (* an instance pin on the wire: down *)
        destruct (ipwire s i) as [iw|] eqn:Ei; [|destruct Hb].
        destruct (par s RWires iw) as [ic|] eqn:Ec; [|destruct Hb].
        destruct Hb as [<-|[]]. left.
        assert (L : hlink s (w :: c :: x0 :: p) (iw :: ic :: n :: x0 :: p))
          by (apply hlink_intro with i; assumption).
        split; [exact G0|]. split; [exact (hlink_good _ _ L G0)|exact L].
    - intros [(_ & _ & L)|(Gb & _ & L)].
      + inversion L as [n i hinst w1 c1 w' c' Hi Hc1 Hw' Hc' E1 E2]. subst.
        exists (POut n i). split; [exact Hi|]. rewrite Hw', Hc'. left; reflexivity.
      + inversion L as [n i hinst w1 c1 w' c' Hi Hc1 Hw' Hc' E1 E2]. subst.
        exists (PIn i). split; [apply (wc_in s C); exact Hw'|].
        destruct Gb as (w2 & c2 & x2 & p2 & E & _). inversion E; subst.
        apply (wc_out s C) in Hi. rewrite Hi, Hc1. left; reflexivity.
  Qed.

  Theorem get_hwires_OUTSIDE_wire : forall usum x, GB x ->
    exists l, get_hwires s SOutside false usum x = Some l /\ NoDup l /\
              (forall b, In b l <-> (hlink_occ s t x b \/ hlink_occ s t b x)).
  Proof.
    intros usum x G. pose proof (GB_valid s t I1 I2 K Hroot x G) as Hv.
    pose proof (wire_outside_spec x) as Sp.
    destruct G as (w & c & x0 & p & -> & Hp & Hc & Hw).
    assert (G : GB (w :: c :: x0 :: p)) by (exists w, c, x0, p; auto).
    exists (href_union (href_union [] (wire_outside s (w :: c :: x0 :: p))) (rev [])). split.
    - unfold get_hwires. rewrite Hv. cbn [negb]. rewrite (GB_kind s t K w c (x0 :: p) G).
      cbn beta iota zeta. cbn [hw_phase1_wire]. rewrite hw_close_nil. reflexivity.
    - split; [apply result_nodup|]. intro b. rewrite result_In. cbn [rev In].
      rewrite <- (Sp b G). tauto.
  Qed.

  (* a wire is never one crossing away from itself: OUTSIDE excludes the start wire *)
  Lemma hlink_length : forall b b', hlink s b b' -> length b' = S (length b).
  Proof. intros b b' L. destruct L. reflexivity. Qed.

  Lemma hlink_irrefl : forall b, ~ hlink s b b.
  Proof. intros b L. apply hlink_length in L. lia. Qed.

  Theorem get_hwires_OUTSIDE_wire_excludes_start : forall usum x l, GB x ->
    get_hwires s SOutside false usum x = Some l -> ~ In x l.
  Proof.
    intros usum x l G E Hin.
    destruct (get_hwires_OUTSIDE_wire usum x G) as (l' & E' & _ & S').
    rewrite E in E'. inversion E'; subst l'.
    apply S' in Hin as [(_ & _ & L)|(_ & _ & L)]; exact (hlink_irrefl x L).
  Qed.

  (* one step of the code's relation, spelled with crossings *)
  Lemma step1_iff_hlink : forall x b, GB x ->
    (step1 href href nbA pinsB x b <->
     ((b = x /\ pinsB x <> []) \/ hlink_occ s t x b \/ hlink_occ s t b x)).
  Proof.
    intros x b G. split.
    - intro H. pose proof (step1_good s t I1 C x b G H) as Gb.
      destruct (step1_hlink s t I1 C x b G H) as [->|[L|L]].
      + left. split; [reflexivity|]. destruct H as (a & Ha & _). intro E. rewrite E in Ha. destruct Ha.
      + right. left. split; [exact G|]. split; [exact Gb|exact L].
      + right. right. split; [exact Gb|]. split; [exact G|exact L].
    - intros [[-> Hne]|[(_ & _ & L)|(Gb & _ & L)]].
      + destruct (pinsB x) as [|a r] eqn:E; [contradiction Hne; reflexivity|].
        unfold step1. rewrite E. exists a. split; [left; reflexivity|].
        apply (sym1 s t I1 C a x G). rewrite E. left; reflexivity.
      + exact (hlink_step s t C x b L G).
      + destruct (hlink_step s t C b x L Gb) as (a & Ha & Hx).
        unfold step1. exists a. split.
        * exact (sym2 s t I1 C a x (g_pins s t I1 C b a Gb Ha) Hx).
        * exact (sym1 s t I1 C a b Gb Ha).
  Qed.

  Theorem get_hwires_BOTH_wire : forall usum x, GB x ->
    exists l, get_hwires s SBoth false usum x = Some l /\ NoDup l /\
              (forall b, In b l <-> (b = x \/ hlink_occ s t x b \/ hlink_occ s t b x)).
  Proof.
    intros usum x G. pose proof (GB_valid s t I1 I2 K Hroot x G) as Hv.
    pose proof (step1_iff_hlink x) as Sp.
    pose proof (wire_hpins_all_valid s t I1 I2 K C Hroot x G) as Hfil.
    destruct (hw_close_narrow s SBoth usum (pinsB x) eq_refl) as (found & Ef & Nf & Sf).
    destruct G as (w & c & x0 & p & -> & Hp & Hc & Hw).
    assert (G : GB (w :: c :: x0 :: p)) by (exists w, c, x0, p; auto).
    exists (href_union (href_union [] [w :: c :: x0 :: p]) (rev found)). split.
    - unfold get_hwires. rewrite Hv. cbn [negb]. rewrite (GB_kind s t K w c (x0 :: p) G).
      cbn beta iota zeta. cbn [hw_phase1_wire]. rewrite Hfil.
      unfold href in *. rewrite Ef. reflexivity.
    - split; [apply result_nodup|]. intro b. rewrite result_In, <- in_rev, Sf. cbn [In].
      assert (Hs : (exists a, In a (pinsB (w :: c :: x0 :: p)) /\ In b (nb_sel s SBoth a)) <->
                   step1 href href nbA pinsB (w :: c :: x0 :: p) b) by (unfold step1; tauto).
      rewrite Hs, (Sp b G). split.
      + intros [[H|[]]|[[H _]|H]]; auto.
      + intros [H|H]; [left; left; symmetry; exact H|right; right; exact H].
  Qed.

  (* ---- cable starts ---- *)
  Theorem get_hwires_INSIDE_cable : forall usum c x0 p,
    is_rpath s t (x0 :: p) -> In c (cables_of s x0) ->
    exists l, get_hwires s SInside false usum (c :: x0 :: p) = Some l /\ NoDup l /\
              (forall b, In b l <-> exists w, In w (kids s RWires c) /\ b = w :: c :: x0 :: p).
  Proof.
    intros usum c x0 p Hp Hc.
    exists (href_union (href_union [] (map (fun w => w :: c :: x0 :: p) (kids s RWires c))) (rev [])).
    split.
    - unfold get_hwires. rewrite (cable_occ_valid s t I1 I2 K Hroot c x0 p Hp Hc). cbn [negb].
      rewrite (cable_occ_kind s K c x0 Hc). cbn beta iota zeta.
      rewrite (fold_pair_app id href href (fun w => hw_phase1_wire s SInside (w :: c :: x0 :: p))).
      cbn [fst snd app hw_phase1_wire]. rewrite flat_map_single.
      assert (E : flat_map (fun _ : id => @nil href) (kids s RWires c) = [])
        by (induction (kids s RWires c); [reflexivity|assumption]).
      rewrite E, hw_close_nil. reflexivity.
    - split; [apply result_nodup|]. intro b. rewrite result_In, in_map_iff. cbn [rev In]. split.
      + intros [(w & <- & Hw)|[]]. exists w. auto.
      + intros (w & Hw & ->). left. exists w. auto.
  Qed.

  Theorem get_hwires_OUTSIDE_cable : forall usum c x0 p,
    is_rpath s t (x0 :: p) -> In c (cables_of s x0) ->
    exists l, get_hwires s SOutside false usum (c :: x0 :: p) = Some l /\ NoDup l /\
              (forall b, In b l <-> exists w, In w (kids s RWires c) /\
                                              (hlink_occ s t (w :: c :: x0 :: p) b \/
                                               hlink_occ s t b (w :: c :: x0 :: p))).
  Proof.
    intros usum c x0 p Hp Hc.
    exists (href_union (href_union [] (flat_map (fun w => wire_outside s (w :: c :: x0 :: p))
                                              (kids s RWires c))) (rev [])).
    split.
    - unfold get_hwires. rewrite (cable_occ_valid s t I1 I2 K Hroot c x0 p Hp Hc). cbn [negb].
      rewrite (cable_occ_kind s K c x0 Hc). cbn beta iota zeta.
      rewrite (fold_pair_app id href href (fun w => hw_phase1_wire s SOutside (w :: c :: x0 :: p))).
      cbn [fst snd app hw_phase1_wire].
      assert (E : flat_map (fun _ : id => @nil href) (kids s RWires c) = [])
        by (induction (kids s RWires c); [reflexivity|assumption]).
      rewrite E, hw_close_nil. reflexivity.
    - split; [apply result_nodup|]. intro b. rewrite result_In, in_flat_map. cbn [rev In]. split.
      + intros [(w & Hw & Hb)|[]]. exists w. split; [exact Hw|].
        apply (wire_outside_spec _ b (cable_wire_occ s t c x0 p w Hp Hc Hw)). exact Hb.
      + intros (w & Hw & Hb). left. exists w. split; [exact Hw|].
        apply (wire_outside_spec _ b (cable_wire_occ s t c x0 p w Hp Hc Hw)). exact Hb.
  Qed.
End NarrowStarts.

Print Assumptions hw_close_narrow.
Print Assumptions get_hwires_narrow_port.
Print Assumptions get_hwires_INSIDE_port.
Print Assumptions get_hwires_OUTSIDE_port.
Print Assumptions get_hwires_INSIDE_wire.
Print Assumptions get_hwires_OUTSIDE_wire.
Print Assumptions get_hwires_OUTSIDE_wire_excludes_start.
Print Assumptions get_hwires_BOTH_wire.
Print Assumptions get_hwires_INSIDE_cable.
Print Assumptions get_hwires_OUTSIDE_cable.
