(* Engine `verilog`: soundness of the round-trip checker of the writer model (Fmt/VEmit.v rt_check): the boolean
   comparison same_conn_b decides the relation same_conn, so rt_check o n = true certifies that the document written
   for n is accepted by the reader model and gives a netlist with the same connectivity. Proofs only. *)
From Coq Require Import List ZArith Bool Arith Lia.
From SV Require Import Base.Base Fmt.VBits Fmt.VExpr Fmt.VDoc Fmt.VElab Fmt.VEmit.
Import ListNotations.
Open Scope Z_scope.

Lemma plabel_eqb_eq a b : plabel_eqb a b = true -> a = b.
Proof.
  destruct a, b; simpl; intro H; try discriminate.
  - apply str_eqb_spec in H. now subst.
  - apply Nat.eqb_eq in H. now subst.
Qed.

Lemma endpoint_eqb_eq a b : endpoint_eqb a b = true -> a = b.
Proof.
  destruct a, b; simpl; intro H; try discriminate.
  - apply andb_true_iff in H as [H1 H2]. apply plabel_eqb_eq in H1. apply Z.eqb_eq in H2. now subst.
  - apply andb_true_iff in H as [H1 H2]. apply andb_true_iff in H1 as [H0 H1].
    apply str_eqb_spec in H0. apply plabel_eqb_eq in H1. apply Z.eqb_eq in H2. now subst.
Qed.

Lemma odir_eqb_eq a b : odir_eqb a b = true -> a = b.
Proof. destruct a as [[]|], b as [[]|]; simpl; intro H; try discriminate; reflexivity. Qed.

Lemma port_eqb_eq a b : port_eqb a b = true -> a = b.
Proof.
  destruct a, b; unfold port_eqb; simpl; intro H.
  apply andb_true_iff in H as [H H4]. apply andb_true_iff in H as [H H3]. apply andb_true_iff in H as [H1 H2].
  apply plabel_eqb_eq in H1. apply odir_eqb_eq in H2. apply Nat.eqb_eq in H3. apply Z.eqb_eq in H4. now subst.
Qed.

Lemma list_eqb_eq {A} (eqb : A -> A -> bool) :
  (forall x y, eqb x y = true -> x = y) -> forall a b, list_eqb eqb a b = true -> a = b.
Proof.
  intros He a. induction a as [|x a IH]; intros [|y b] H; simpl in H; try discriminate; [reflexivity|].
  apply andb_true_iff in H as [H1 H2]. apply He in H1. apply IH in H2. now subst.
Qed.

Lemma incl_b_sound {A} (eqb : A -> A -> bool) :
  (forall x y, eqb x y = true -> x = y) -> forall a b, incl_b eqb a b = true -> forall x, In x a -> In x b.
Proof.
  intros He a b H x Hx. unfold incl_b in H. rewrite forallb_forall in H. specialize (H x Hx).
  apply existsb_exists in H as [y [Hy E]]. apply He in E. now subst.
Qed.

Lemma incl_b_rel {A} (eqb : A -> A -> bool) a b :
  incl_b eqb a b = true -> forall x, In x a -> exists y, In y b /\ eqb x y = true.
Proof.
  intros H x Hx. unfold incl_b in H. rewrite forallb_forall in H. specialize (H x Hx).
  apply existsb_exists in H. exact H.
Qed.

Lemma ostr_eqb_eq a b : ostr_eqb a b = true -> a = b.
Proof. destruct a, b; simpl; intro H; try discriminate; [apply str_eqb_spec in H; now subst|reflexivity]. Qed.

Lemma kv_eqb_eq a b : kv_eqb a b = true -> a = b.
Proof.
  destruct a, b; unfold kv_eqb; simpl; intro H. apply andb_true_iff in H as [H1 H2].
  apply str_eqb_spec in H1. apply str_eqb_spec in H2. now subst.
Qed.

Lemma attr_eqb_eq a b : attr_eqb a b = true -> a = b.
Proof.
  destruct a, b; unfold attr_eqb; simpl; intro H. apply andb_true_iff in H as [H1 H2].
  apply str_eqb_spec in H1. apply ostr_eqb_eq in H2. now subst.
Qed.

Lemma insts_in_sound a b : incl_b inst_eqb a b = true -> insts_in a b.
Proof.
  intros H i Hi. destruct (incl_b_rel _ _ _ H i Hi) as [j [Hj E]]. exists j. split; [exact Hj|].
  unfold inst_eqb in E.
  apply andb_true_iff in E as [E E6]. apply andb_true_iff in E as [E E5]. apply andb_true_iff in E as [E E4].
  apply andb_true_iff in E as [E E3]. apply andb_true_iff in E as [E1 E2].
  apply str_eqb_spec in E1. apply str_eqb_spec in E2.
  split; [now symmetry|]. split; [now symmetry|].
  split; intro x; split; intro Hx.
  - exact (incl_b_sound _ kv_eqb_eq _ _ E3 x Hx).
  - exact (incl_b_sound _ kv_eqb_eq _ _ E4 x Hx).
  - exact (incl_b_sound _ attr_eqb_eq _ _ E5 x Hx).
  - exact (incl_b_sound _ attr_eqb_eq _ _ E6 x Hx).
Qed.

Lemma nets_incl_sound a b : nets_incl_b a b = true -> forall r e, In e (net_of r a) -> In e (net_of r b).
Proof.
  intros H r e He. unfold net_of in He. apply in_flat_map in He as [ne [Hne He]].
  unfold nets_incl_b in H. rewrite forallb_forall in H. specialize (H ne Hne).
  destruct (str_eqb (fst (fst ne)) (fst r) && (snd (fst ne) =? snd r)) eqn:K; [|destruct He].
  apply andb_true_iff in K as [K1 K2]. apply str_eqb_spec in K1. apply Z.eqb_eq in K2.
  assert (fst ne = r) as <- by (destruct ne as [[c i] eps], r as [c' i']; simpl in *; now subst).
  exact (incl_b_sound _ endpoint_eqb_eq _ _ H e He).
Qed.

Lemma bitref_eqb_eq a b : bitref_eqb a b = true -> a = b.
Proof.
  destruct a, b; unfold bitref_eqb; simpl; intro H. apply andb_true_iff in H as [H1 H2].
  apply str_eqb_spec in H1. apply Z.eqb_eq in H2. now subst.
Qed.

Lemma obit_eqb_eq a b : obit_eqb a b = true -> a = b.
Proof. destruct a, b; simpl; intro H; try discriminate; [apply bitref_eqb_eq in H; now subst|reflexivity]. Qed.

Lemma opair_eqb_eq a b : opair_eqb a b = true -> a = b.
Proof.
  destruct a, b; unfold opair_eqb; simpl; intro H. apply andb_true_iff in H as [H1 H2].
  apply obit_eqb_eq in H1. apply obit_eqb_eq in H2. now subst.
Qed.

Lemma assigns_sound a b :
  assigns_b a b = true -> same_set (nd_assigns a) (nd_assigns b) /\ length (nd_assigns a) = length (nd_assigns b).
Proof.
  unfold assigns_b. intro H. apply andb_true_iff in H as [H H3]. apply andb_true_iff in H as [H1 H2].
  apply Nat.eqb_eq in H3. split; [|exact H3]. intro x. split; intro Hx.
  - exact (incl_b_sound _ (list_eqb_eq _ opair_eqb_eq) _ _ H1 x Hx).
  - exact (incl_b_sound _ (list_eqb_eq _ opair_eqb_eq) _ _ H2 x Hx).
Qed.

Lemma same_conn_def_sound a b : same_conn_def_b a b = true -> same_conn_def a b.
Proof.
  unfold same_conn_def_b. intro H.
  apply andb_true_iff in H as [H H6]. apply andb_true_iff in H as [H H5]. apply andb_true_iff in H as [H H4].
  apply andb_true_iff in H as [H H3]. apply andb_true_iff in H as [H H2]. apply andb_true_iff in H as [H0 H1].
  apply str_eqb_spec in H1. apply (list_eqb_eq _ port_eqb_eq) in H2. apply assigns_sound in H0 as [A1 A2].
  split; [exact H1|]. split; [exact H2|]. split; [now apply insts_in_sound|]. split; [now apply insts_in_sound|].
  split; [|split; assumption].
  intro r. split; intro; [eapply nets_incl_sound; eassumption|eapply nets_incl_sound; eassumption].
Qed.

Lemma find_ndef_in n name d : find_ndef n name = Some d -> In d (nv_defs n) /\ nd_name d = name.
Proof.
  unfold find_ndef. intro H. apply find_some in H as [H1 H2]. apply str_eqb_spec in H2. now split.
Qed.

Lemma same_conn_b_sound o n n' : same_conn_b o n n' = true -> same_conn o n n'.
Proof.
  unfold same_conn_b. intro H. apply andb_true_iff in H as [H1 H2]. split; [now apply ostr_eqb_eq|].
  intros d Hd Hw. rewrite forallb_forall in H2. specialize (H2 d Hd). rewrite Hw in H2. simpl in H2.
  destruct (find_ndef n' (nd_name d)) as [d'|] eqn:F; [|discriminate].
  exists d'. split; [exact (proj1 (find_ndef_in _ _ _ F))|now apply same_conn_def_sound].
Qed.

(* the checker: a verdict "true" is a certificate of the round trip of this netlist under these options *)
Lemma rt_check_sound o n :
  rt_check o n = true -> exists d n', emit o n = WOk d /\ elab d = Ok n' /\ same_conn o n n'.
Proof.
  unfold rt_check. destruct (emit o n) as [d| |]; try discriminate.
  destruct (elab d) as [n'|] eqn:E; try discriminate.
  intro H. exists d, n'. split; [reflexivity|]. split; [exact E|]. now apply same_conn_b_sound.
Qed.

(* emit is a function of the value: two writes of the same value give the same document *)
Lemma emit_deterministic o n (r1 r2 : wres vdoc) : emit o n = r1 -> emit o n = r2 -> r1 = r2.
Proof. intros <- <-. reflexivity. Qed.

(* ---------- a worked example: three levels, buses, a concatenation on a partially connected port, an
   unconnected port, a part select, parameters, an attribute, a single-bit assign, a 3-bit assign between
   slices of different bases of cables whose lower index is not 0 ---------- *)
From Coq Require Import String.
Definition S_ (s : string) : str := s2l s.
Definition ex_leaf : vmodule :=
  {| vm_name := S_ "leaf"; vm_cell := false; vm_params := []; vm_attrs := [];
     vm_header := [HPort None None (S_ "i"); HPort None None (S_ "o")];
     vm_body := [IPortDecl DIn None None [S_ "i"] []; IPortDecl DOut None None [S_ "o"] []] |}.
Definition ex_sub : vmodule :=
  {| vm_name := S_ "sub"; vm_cell := false; vm_params := []; vm_attrs := [];
     vm_header := [HPort None None (S_ "x"); HPort None None (S_ "z"); HPort None None (S_ "q")];
     vm_body := [IPortDecl DIn None (Some (2, 0)) [S_ "x"] []; IPortDecl DOut None (Some (1, 0)) [S_ "z"] [];
                 IPortDecl DOut None None [S_ "q"] [];
                 IInst (S_ "leaf") (S_ "l0") [] []
                   (CNamed [(S_ "i", Some (DAtom (DBit (S_ "x") 0))); (S_ "o", Some (DAtom (DBit (S_ "z") 0)))])] |}.
Definition ex_top : vmodule :=
  {| vm_name := S_ "top"; vm_cell := false; vm_params := []; vm_attrs := [];
     vm_header := [HPort None None (S_ "a"); HPort None None (S_ "b"); HPort None None (S_ "y")];
     vm_body := [IPortDecl DIn None (Some (3, 0)) [S_ "a"] []; IPortDecl DIn None None [S_ "b"] [];
                 IPortDecl DOut None (Some (1, 0)) [S_ "y"] [];
                 IWire TWire (Some (2, 0)) [S_ "t"] []; IWire TWire None [S_ "n1"] [(S_ "keep", Some (S_ "true"))];
                 IInst (S_ "sub") (S_ "u1") [(S_ "W", S_ "3")] []
                   (CNamed [(S_ "x", Some (DCat [DBit (S_ "a") 1; DId (S_ "b")]));
                            (S_ "z", Some (DAtom (DPart (S_ "t") 1 0))); (S_ "q", None)]);
                 IInst (S_ "sub") (S_ "u2") [] [(S_ "mark", None)]
                   (CNamed [(S_ "x", Some (DAtom (DId (S_ "t")))); (S_ "z", Some (DAtom (DId (S_ "y"))));
                            (S_ "q", Some (DAtom (DId (S_ "n1"))))]);
                 IAssign (DId (S_ "n1")) (DBit (S_ "a") 3);
                 IWire TWire (Some (6, 2)) [S_ "v"] []; IWire TReg (Some (0, -3)) [S_ "w"] [];
                 IAssign (DPart (S_ "v") 5 3) (DPart (S_ "w") (-1) (-3))] |}.
Definition ex_src : vdoc := [ex_top; ex_sub; ex_leaf].
Definition ex_opts : vopts := {| o_definition_list := None; o_write_blackbox := true; o_defparam := false |}.
Definition ex_opts_dp : vopts := {| o_definition_list := Some [S_ "top"; S_ "sub"]; o_write_blackbox := false; o_defparam := true |}.
