(* Hypotheses on the heap used by the enumeration theorems (all of them hold in every state reached
   by editing calls: [reachable_qwf]), typing lemmas, and small list facts. *)
From Coq Require Import List Arith Bool Lia Relations.
From SV Require Import Base.Base IR.State IR.NS IR.Ops Proofs.Frame Proofs.Inv1a Proofs.Inv2a Proofs.InvP
  Proofs.InvW Proofs.Fresh Proofs.FieldT Proofs.KindD Proofs.NsInv Hier.Paths Hier.Enum Hier.Trace
  Proofs.HierValid Proofs.AssocX Query.Filter Query.Enum Query.EnumSpec.
Import ListNotations.

(* containment and reference sets exact (C01 / C02), pin-wire links and outer-pin tables exact,
   ids well-kinded and allocated, references point at definitions *)
Record QWF (s : state) : Prop := mkQWF {
  q_inv : Inv s;
  q_wfk : WFk s;
  q_refd : RefD s;
  q_ft : FT s;
  q_alloc : forall x k, kind_of s x = Some k -> x < next s
}.

Lemma wfk_of s : InvT s -> FT s -> Fresh s -> WFk s.
Proof.
  intros HT HF HR. constructor.
  - intros r p c H. apply (HT r p c H).
  - intros r p c H. apply (HT r p c H).
  - intros x d H. apply (ft_r _ HF). rewrite H. discriminate.
  - intros r p c H. destruct (HT r p c H) as [Hk _].
    destruct (Nat.lt_ge_cases c (next s)) as [Hl|Hg]; [exact Hl|]. rewrite (f_kind _ HR c Hg) in Hk. discriminate.
  - intros x d H. destruct (Nat.lt_ge_cases x (next s)) as [Hl|Hg]; [exact Hl|]. rewrite (f_iref _ HR x Hg) in H. discriminate.
Qed.

Theorem reachable_qwf ops : QWF (run ops init).
Proof.
  destruct (reachable_nsinv ops) as (HI & HT & HF & _). constructor.
  - exact HI.
  - apply wfk_of; [exact HT|apply reachable_ft|exact HF].
  - apply (reachable_refd_topk ops).
  - apply reachable_ft.
  - intros x k Hk. destruct (Nat.lt_ge_cases x (next (run ops init))) as [Hl|Hg]; [exact Hl|].
    rewrite (f_kind _ HF x Hg) in Hk. discriminate.
Qed.

Section Typing.
Variable s : state.
Hypothesis W : QWF s.

Lemma q1 : Inv1a s. Proof. apply (inv_a _ (q_inv _ W)). Qed.
Lemma q2 : Inv2a s. Proof. apply (inv_r _ (q_inv _ W)). Qed.

Lemma kids_par r p c : In c (kids s r p) <-> par s r c = Some p.
Proof. apply (i1_kids _ q1). Qed.

Lemma drefs_iref n d : In n (drefs s d) <-> iref s n = Some d.
Proof. apply (i2_ref _ q2). Qed.

Lemma kid_kind r p c : In c (kids s r p) -> kind_of s c = Some (rel_child r).
Proof. apply (wk_kids _ (q_wfk _ W)). Qed.
Lemma kid_parent_kind r p c : In c (kids s r p) -> kind_of s p = Some (rel_parent r).
Proof. apply (wk_parent _ (q_wfk _ W)). Qed.
Lemma par_kind r p c : par s r c = Some p -> kind_of s c = Some (rel_child r).
Proof. intro H. apply kids_par in H. eapply kid_kind, H. Qed.
Lemma par_parent_kind r p c : par s r c = Some p -> kind_of s p = Some (rel_parent r).
Proof. intro H. apply kids_par in H. eapply kid_parent_kind, H. Qed.
Lemma iref_kind x d : iref s x = Some d -> kind_of s x = Some KInstance.
Proof. apply (wk_iref _ (q_wfk _ W)). Qed.
Lemma iref_def_kind x d : iref s x = Some d -> kind_of s d = Some KDefinition.
Proof. apply (q_refd _ W). Qed.

(* a kind decides which parent pointer can be set *)
Lemma par_kind_rel r p c k : par s r c = Some p -> kind_of s c = Some k -> k = rel_child r.
Proof. intros H Hk. apply par_kind in H. congruence. Qed.

Lemma valid_iff h : is_valid s h = true <-> is_href s h.
Proof. apply is_valid_iff; [exact q1|exact q2|apply (q_wfk _ W)]. Qed.

Lemma href_item_iff h x : href_item s h = Some x <-> href_to s h x.
Proof.
  unfold href_item, href_to. destruct (is_valid s h) eqn:E.
  - apply valid_iff in E. tauto.
  - split; [discriminate|]. intros [H _]. apply valid_iff in H. congruence.
Qed.

(* the item of a valid reference is an instance, a port, a cable, an inner pin or a wire *)
Lemma href_item_kind h x : href_to s h x ->
  kind_of s x = Some KInstance \/ kind_of s x = Some KPort \/ kind_of s x = Some KCable \/
  kind_of s x = Some KPin \/ kind_of s x = Some KWire.
Proof.
  intros [H E]. apply valid_iff in H. destruct h as [|y rest]; [discriminate|]. injection E as ->.
  cbn [is_valid] in H. destruct (kind_of s x) as [[]|]; try discriminate H; auto.
Qed.

(* pins on a wire *)
Lemma wpins_pin_wire w p : In p (wpins s w) <-> pin_wire s p = Some w.
Proof. apply (p_pins _ (inv_p _ (q_inv _ W))). Qed.

Lemma stored_key n i v : assoc i (ipins s n) = Some v ->
  exists d p, iref s n = Some d /\ par s RPorts p = Some d /\ par s RPins i = Some p.
Proof.
  intro H. apply (k_keys _ (inv_k _ (q_inv _ W))). unfold keys. apply AssocX.assoc_In_fst. exists v. exact H.
Qed.

Lemma on_wire_kind w p : pin_wire s p = Some w -> exists i, inner_of p = Some i /\ kind_of s i = Some KPin.
Proof.
  destruct p as [i|n i|]; cbn [pin_wire inner_of]; intro H.
  - exists i. split; [reflexivity|]. apply (ft_w _ (q_ft _ W)). rewrite H. discriminate.
  - exists i. split; [reflexivity|]. destruct (assoc i (ipins s n)) as [v|] eqn:E; [|discriminate].
    destruct (stored_key n i v E) as (d & q & _ & _ & Hq). apply (par_kind _ _ _ Hq).
  - discriminate.
Qed.

End Typing.

(* ---- list facts ---- *)
Lemma in_pars l p : In p (pars l) <-> In (OPar p) l.
Proof.
  unfold pars. rewrite in_flat_map. split.
  - intros (o & Ho & Hp). destruct o; cbn in Hp; [destruct Hp as [<-|[]]; exact Ho|destruct Hp].
  - intro H. exists (OPar p). split; [exact H|left; reflexivity].
Qed.
Lemma in_oths l e : In e (oths l) <-> In (OOth e) l.
Proof.
  unfold oths. rewrite in_flat_map. split.
  - intros (o & Ho & Hp). destruct o; cbn in Hp; [destruct Hp|destruct Hp as [<-|[]]; exact Ho].
  - intro H. exists (OOth e). split; [exact H|left; reflexivity].
Qed.

Lemma dedup_acc_In l : forall seen x, In x (dedup_acc seen l) <-> In x l /\ ~ In x seen.
Proof.
  induction l as [|y l IH]; intros seen x; cbn [dedup_acc].
  - cbn. tauto.
  - destruct (memb y seen) eqn:E.
    + apply memb_In in E. rewrite IH. cbn. split; [tauto|]. intros [[<-|H] Hn]; [contradiction|tauto].
    + apply memb_false in E. cbn. rewrite IH. cbn. split.
      * intros [<-|[H Hn]]; [tauto|tauto].
      * intros [[<-|H] Hn]; [left; reflexivity|].
        destruct (Nat.eq_dec y x) as [->|Hne]; [left; reflexivity|right; tauto].
Qed.
Lemma dedup_In l x : In x (dedup l) <-> In x l.
Proof. unfold dedup. rewrite dedup_acc_In. cbn. tauto. Qed.

Lemma dedup_acc_NoDup l : forall seen, NoDup (dedup_acc seen l).
Proof.
  induction l as [|y l IH]; intro seen; cbn [dedup_acc]; [constructor|].
  destruct (memb y seen); [apply IH|]. constructor; [|apply IH].
  rewrite dedup_acc_In. cbn. tauto.
Qed.
Lemma dedup_NoDup l : NoDup (dedup l).
Proof. apply dedup_acc_NoDup. Qed.

Lemma in_push_ids {T} (l : list id) (a : act T) : In a (push_ids l) <-> exists x, In x l /\ a = APush (IE x).
Proof. unfold push_ids. rewrite in_map_iff. split; intros (x & H1 & H2); exists x; [split; [exact H2|symmetry; exact H1]|split; [symmetry; exact H2|exact H1]]. Qed.
Lemma in_oth_ids (l : list id) a : In a (oth_ids l) <-> exists x, In x l /\ a = AOut (OOth x).
Proof. unfold oth_ids. rewrite in_map_iff. split; intros (x & H1 & H2); exists x; [split; [exact H2|symmetry; exact H1]|split; [symmetry; exact H2|exact H1]]. Qed.
Lemma in_push_opt {T} (o : option id) (a : act T) : In a (push_opt o) <-> exists x, o = Some x /\ a = APush (IE x).
Proof.
  destruct o as [y|]; cbn.
  - split; [intros [<-|[]]; exists y; auto|intros (x & E & ->); injection E as ->; left; reflexivity].
  - split; [intros []|intros (x & E & _); discriminate].
Qed.
