(* EBLIF engine, connectivity clause of C18: instance statements.  connect_instance_pins joins
   pin (idx, port, bit) to the net bit its actual names, for every formal=actual pair; the new
   child is the idx-th; the definition it instantiates only gains ports without direction (or, for
   the reserved logic-gate_N / generic-latch definitions, whatever ports .names / .latch need). *)
From Coq Require Import List Arith NArith Bool Lia Permutation.
From SV Require Import Base.Base Fmt.Blif Fmt.BlifRead Fmt.BlifSpec
  Proofs.BlifBase Proofs.BlifWF Proofs.BlifExec Proofs.BlifNetsBase Proofs.BlifNetsView Proofs.BlifNetsRel
  Proofs.BlifNetsStep.
Import ListNotations.

Definition one_pair (idx : nat) (fa : str * str) : list (pinref * netbit) :=
  match nb_of (fst fa), nb_of (snd fa) with
  | Some (p, i), Some (c, k) => if str_eqb c k_unconn then [] else [(PInst idx p i, (c, k))]
  | _, _ => []
  end.

Lemma attach_pairs_flat idx fas : attach_pairs idx fas = flat_map (one_pair idx) fas.
Proof. reflexivity. Qed.

Lemma R_conn_one al cur ref idx ms fa ms' nm st :
  conn_one al cur ref idx (Ok ms) fa = Ok ms' ->
  RX nm cur al (get_model nm ms) st ->
  (nm = cur -> n_bb st = false) ->
  RX nm cur al (get_model nm ms') (if str_eqb nm cur then add_att st (one_pair idx fa) else st).
Proof.
  intros H HR Hc. unfold conn_one in H. cbn [bind] in H.
  destruct (pni (snd fa)) as [[c k]|] eqn:E1; [|discriminate]. cbn [bind] in H.
  destruct (pni (fst fa)) as [[p i]|] eqn:E2; [|discriminate]. cbn [bind] in H.
  apply pni_nb in E1, E2. unfold one_pair. rewrite E1, E2.
  destruct (str_eqb c k_unconn).
  - inversion H; subst ms'. rewrite add_att_nil.
    assert (R1 : RX nm cur al (get_model nm (upd_model cur (upd_inst idx (fun x => set_iunconn x (i_unconn x ++ [unconn_entry p i]))) ms)) st)
      by (eapply RX_geq; [apply geq_upd_inst|exact HR]).
    destruct (str_eqb nm cur); exact R1.
  - destruct (find_port _ _); [|discriminate].
    assert (R1 : RX nm cur al (get_model nm (grow_port ref p (S i) ms)) st) by (eapply RX_geq; [apply geq_grow_port|exact HR]).
    destruct (str_eqb nm cur) eqn:E.
    + apply str_eqb_spec in E. subst nm. pose proof (Hc eq_refl) as C2.
      destruct (get_model_upd_res_same _ _ _ _ H) as [m' [H1 [H2 H3]]]; [intros; eapply connect_to_name; eauto|].
      rewrite H2. exact (RX_connect cur _ _ _ _ _ _ st H1 C2 R1).
    + apply str_eqb_false in E.
      rewrite (get_model_upd_res_other _ _ _ _ nm H); [exact R1|intros; eapply connect_to_name; eauto|exact E].
Qed.

Lemma R_connect_pins al cur ref idx info : forall ms ms' nm st,
  connect_instance_pins al cur ref idx info ms = Ok ms' ->
  RX nm cur al (get_model nm ms) st ->
  (nm = cur -> n_bb st = false) ->
  RX nm cur al (get_model nm ms') (if str_eqb nm cur then add_att st (attach_pairs idx info) else st).
Proof.
  unfold connect_instance_pins. induction info as [|fa info IH]; intros ms ms' nm st H HR Hc; cbn [fold_left] in H.
  - inversion H; subst. rewrite attach_pairs_flat. cbn [flat_map]. rewrite add_att_nil. destruct (str_eqb nm cur); exact HR.
  - destruct (conn_one al cur ref idx (Ok ms) fa) as [ms1|e] eqn:E1; [|rewrite fold_res_err in H; [discriminate|reflexivity]].
    pose proof (R_conn_one _ _ _ _ _ _ _ _ _ E1 HR Hc) as R1.
    specialize (IH ms1 ms' nm _ H R1). rewrite attach_pairs_flat. cbn [flat_map]. rewrite <- attach_pairs_flat.
    destruct (str_eqb nm cur) eqn:E.
    + rewrite <- add_att_app. apply IH. exact Hc.
    + apply IH. exact Hc.
Qed.

Lemma R_finish_inst s ref idx nm0 info ms s' nm st :
  finish_inst s ref idx nm0 info ms = Ok s' ->
  RX nm (s_cur s) (s_merged s) (get_model nm ms) st ->
  (nm = s_cur s -> n_bb st = false) ->
  RX nm (s_cur s) (s_merged s) (get_model nm (st_models s')) (if str_eqb nm (s_cur s) then add_att st (attach_pairs idx info) else st) /\
  s_cur s' = s_cur s /\ s_isbb s' = s_isbb s /\ s_merged s' = s_merged s.
Proof.
  intros H HR Hc. unfold finish_inst in H.
  destruct (match nm0 with Some x => _ | None => _ end) as [name tbl].
  apply bind_ok in H as [ms1 [H1 H]]. apply bind_ok in H as [ms2 [H2 H]]. inversion H; subst s'. clear H.
  cbn [st_models s_nl b_models set_models s_cur s_isbb s_merged]. split; [|split; [|split]; reflexivity].
  apply (R_connect_pins _ _ _ _ _ _ _ _ _ H2); [|exact Hc].
  eapply RX_geq; [eapply geq_set_inst_name; exact H1|exact HR].
Qed.

(* the new child *)
Definition st_child (st : nst) : nst :=
  mkNst (S (n_idx st)) (n_ins st) (n_inn st) (n_outn st) (n_att st) (n_conns st) (n_bb st) (n_lib st) (n_def st).

Lemma R_add_child nm cur al m x st :
  RX nm cur al m st -> RX nm cur al (set_insts m (m_insts m ++ [x])) (st_child st).
Proof.
  intros [[R1 R2 R3 R4 R5 R6 R7 R8] HN]. split; [|exact HN].
  constructor; cbn [st_child n_idx n_ins n_inn n_outn n_att n_conns n_bb n_lib n_def set_insts m_insts m_cables m_lib m_defined]; auto.
  rewrite app_length. cbn. lia.
Qed.

(* common tail of the three instance handlers: [ms] already holds the instanced definition *)
Lemma R_inst_tail s ref k nm0 info ms s' nm st :
  has (s_cur s) ms ->
  finish_inst s ref (length (m_insts (get_model (s_cur s) ms))) nm0 info (add_child (s_cur s) ref k ms) = Ok s' ->
  RX nm (s_cur s) (s_merged s) (get_model nm ms) st ->
  (nm = s_cur s -> n_bb st = false) ->
  RX nm (s_cur s) (s_merged s) (get_model nm (st_models s'))
    (if str_eqb nm (s_cur s) then add_inst st (attach_pairs (n_idx st) info) else st) /\
  s_cur s' = s_cur s /\ s_isbb s' = s_isbb s /\ s_merged s' = s_merged s.
Proof.
  intros Hh H HR Hc. destruct (has_find _ _ Hh) as [m Hm].
  assert (R0 : RX nm (s_cur s) (s_merged s) (get_model nm (add_child (s_cur s) ref k ms)) (if str_eqb nm (s_cur s) then st_child st else st)).
  { destruct (str_eqb nm (s_cur s)) eqn:E.
    - apply str_eqb_spec in E. subst nm. rewrite (get_model_add_child_same _ _ _ _ _ Hm).
      apply R_add_child. rewrite <- (get_model_find _ _ _ Hm). exact HR.
    - apply str_eqb_false in E. rewrite get_model_add_child_other; [exact HR|exact E]. }
  destruct (R_finish_inst _ _ _ _ _ _ _ nm _ H R0) as [R1 [E1 [E2 E3]]].
  { intro Hn. rewrite Hn, str_eqb_refl. exact (Hc Hn). }
  split; [|split; [|split]; assumption].
  destruct (str_eqb nm (s_cur s)) eqn:E; [|exact R1].
  apply str_eqb_spec in E. subst nm. rewrite (r_idx _ _ _ (RX_R _ _ _ _ _ HR)) in R1. exact R1.
Qed.

(* ====================================================================== .subckt / .gate *)
Lemma check_hierarchy_isbb s ref s' : check_hierarchy s ref = Ok s' -> s_isbb s' = s_isbb s /\ s_merged s' = s_merged s.
Proof.
  unfold check_hierarchy. destruct (b_top (s_nl s)) as [[tn tr]|]; [|discriminate].
  destruct (str_eqb ref tr); [|intro H; inversion H; split; reflexivity].
  destruct (str_eqb ref (s_cur s)); [discriminate|].
  destruct (parents_of _ _) as [|p ps]; cbn; [intro H; inversion H; split; reflexivity|].
  destruct (forallb _ _); cbn; intro H; inversion H; split; reflexivity.
Qed.

Lemma R_sub s gate ref pairs s' nm st :
  has (s_cur s) (st_models s) ->
  exec s (SSub gate ref pairs) = Ok s' ->
  RX nm (s_cur s) (s_merged s) (get_model nm (st_models s)) st ->
  (nm = s_cur s -> n_bb st = false) ->
  RX nm (s_cur s) (s_merged s) (get_model nm (st_models s')) (step_g nm (s_cur s) (SSub gate ref pairs) st) /\
  s_cur s' = s_cur s /\ s_isbb s' = s_isbb s /\ s_merged s' = s_merged s.
Proof.
  intros Hh H HR Hc. cbn [exec] in H. apply bind_ok in H as [s1 [H1 H]].
  destruct (check_hierarchy_models _ _ _ H1) as [E1 E2]. pose proof (check_hierarchy_isbb _ _ _ H1) as [E3 E4].
  apply bind_ok in H as [[ms1 info] [H2 H]].
  destruct (veq_do_pairs _ _ _ _ _ _ nm H2) as [V [N I]]. rewrite pairs_info in I. subst info.
  assert (Hh1 : has (s_cur s1) ms1).
  { unfold has. rewrite N, E2, E1. apply has_ensure_other. exact Hh. }
  assert (R1 : RX nm (s_cur s1) (s_merged s1) (get_model nm ms1) st).
  { rewrite E2, E4. eapply RX_veq; [exact V|]. rewrite get_model_ensure, E1. exact HR. }
  destruct (R_inst_tail _ _ _ _ _ _ _ nm st Hh1 H R1) as [R2 [F1 [F2 F3]]]; [rewrite E2; exact Hc|].
  rewrite E2, E4 in *. split; [exact R2|]. split; [|split]; congruence.
Qed.

(* ====================================================================== .names *)
(* the port names of a definition after a run of "add the port unless there is one of that name" *)
Fixpoint add_names (acc : list str) (qs : list str) : list str :=
  match qs with
  | [] => acc
  | q :: qs' => add_names (if existsb (str_eqb q) acc then acc else acc ++ [q]) qs'
  end.

Lemma find_port_mem p ps : (exists q, find_port p ps = Some q) <-> existsb (str_eqb p) (map p_name ps) = true.
Proof.
  rewrite existsb_exists. split.
  - intros [q Hq]. apply find_port_In in Hq as [H1 H2]. exists p. split; [|apply str_eqb_refl].
    rewrite <- H2. apply in_map. exact H1.
  - intros [x [H1 H2]]. apply str_eqb_spec in H2. subst x.
    destruct (find_port p ps) eqn:E; [eauto|]. apply find_port_None in E. contradiction.
Qed.

Lemma names_ensure_port r q ms :
  has r ms ->
  map p_name (m_ports (get_model r (ensure_port r q ms))) =
  (let acc := map p_name (m_ports (get_model r ms)) in
   if existsb (str_eqb (p_name q)) acc then acc else acc ++ [p_name q]) /\ has r (ensure_port r q ms).
Proof.
  intro Hh. destruct (has_find _ _ Hh) as [m Hm]. cbn zeta. unfold ensure_port.
  rewrite (get_model_find _ _ _ Hm).
  destruct (find_port (p_name q) (m_ports m)) as [q0|] eqn:E.
  - rewrite (get_model_find _ _ _ Hm). split; [|exact Hh].
    assert (Hx : existsb (str_eqb (p_name q)) (map p_name (m_ports m)) = true) by (apply find_port_mem; eauto).
    rewrite Hx. reflexivity.
  - destruct (get_model_add_port_same r q ms m Hm) as [m1 [E1 [G1 [G2 _]]]]. rewrite E1, G2, map_app. cbn [map].
    split; [|unfold has; rewrite names_add_port; exact Hh].
    destruct (existsb (str_eqb (p_name q)) (map p_name (m_ports m))) eqn:Hx; [|reflexivity].
    apply find_port_mem in Hx as [q1 Hq1]. congruence.
Qed.

Lemma names_fold_ensure_port r qs : forall ms,
  has r ms ->
  map p_name (m_ports (get_model r (fold_left (fun ms q => ensure_port r q ms) qs ms))) =
  add_names (map p_name (m_ports (get_model r ms))) (map p_name qs).
Proof.
  induction qs as [|q qs IH]; intros ms Hh; cbn [fold_left map add_names]; [reflexivity|].
  destruct (names_ensure_port r q ms Hh) as [E Hh1]. rewrite (IH _ Hh1), E. reflexivity.
Qed.

Lemma add_names_present acc qs : (forall q, In q qs -> In q acc) -> add_names acc qs = acc.
Proof.
  revert acc. induction qs as [|q qs IH]; intros acc H; cbn; [reflexivity|].
  assert (Hx : existsb (str_eqb q) acc = true).
  { apply existsb_exists. exists q. split; [apply H; left; reflexivity|apply str_eqb_refl]. }
  rewrite Hx. apply IH. intros x Hx'. apply H. right. exact Hx'.
Qed.

Lemma add_names_fresh qs : forall acc, NoDup (acc ++ qs) -> add_names acc qs = acc ++ qs.
Proof.
  induction qs as [|q qs IH]; intros acc H; cbn; [rewrite app_nil_r; reflexivity|].
  assert (Hx : existsb (str_eqb q) acc = false).
  { destruct (existsb (str_eqb q) acc) eqn:E; [|reflexivity]. apply existsb_exists in E as [x [H1 H2]].
    apply str_eqb_spec in H2. subst x. apply NoDup_remove_2 in H. exfalso. apply H. apply in_app_iff. auto. }
  rewrite Hx, IH; [rewrite <- app_assoc; reflexivity|]. rewrite <- app_assoc. exact H.
Qed.

(* the reserved definitions logic-gate_N keep the ports in_0 .. in_(N-1), out *)
Definition Q (ms : list model) : Prop :=
  forall k, let m := get_model (k_logic_gate ++ dec k) ms in
    m_ports m = [] \/ map p_name (m_ports m) = names_port_names k.

Lemma names_after_fold k ms :
  Q ms ->
  let ref := k_logic_gate ++ dec k in
  map p_name (m_ports (get_model ref (fold_left (fun ms q => ensure_port ref q ms) (names_ports k) (ensure_model ref ms))))
  = names_port_names k.
Proof.
  intros HQ ref. subst ref. rewrite names_fold_ensure_port by apply has_ensure. rewrite get_model_ensure.
  fold (names_port_names k). destruct (HQ k) as [E|E]; rewrite E.
  - apply (add_names_fresh _ []). apply names_port_names_nodup.
  - apply add_names_present. auto.
Qed.

Lemma R_names s nets s' nm st :
  has (s_cur s) (st_models s) -> Q (st_models s) -> reserved (s_cur s) = false ->
  exec s (SNames nets) = Ok s' ->
  RX nm (s_cur s) (s_merged s) (get_model nm (st_models s)) st ->
  (nm = s_cur s -> n_bb st = false) ->
  RX nm (s_cur s) (s_merged s) (get_model nm (st_models s')) (step_g nm (s_cur s) (SNames nets) st) /\
  s_cur s' = s_cur s /\ s_isbb s' = s_isbb s /\ s_merged s' = s_merged s.
Proof.
  intros Hh HQ Hcr H HR Hc. cbn [exec] in H. destruct (rev nets) as [|lastnet _]; [discriminate|].
  set (k := length nets - 1) in *. set (ref := k_logic_gate ++ dec k) in *.
  set (ms0 := ensure_model ref (st_models s)) in *.
  set (ms1 := fold_left (fun ms q => ensure_port ref q ms) (names_ports k) ms0) in *.
  assert (Hne : s_cur s <> ref).
  { intro E. rewrite E in Hcr. unfold ref in Hcr. rewrite reserved_lg in Hcr. discriminate. }
  assert (N1 : map m_name ms1 = map m_name ms0).
  { apply (mnames_fold_ensure_port ref (fun q => q)). }
  assert (Hh1 : has (s_cur s) ms1) by (unfold has; rewrite N1; apply has_ensure_other; exact Hh).
  assert (R1 : RX nm (s_cur s) (s_merged s) (get_model nm ms1) st).
  { destruct (list_eq_dec N.eq_dec nm ref) as [->|Hn].
    - eapply RX_vcore; [apply reserved_lg|apply (vcore_fold_ensure_port ref (fun q => q))|].
      unfold ms0. rewrite get_model_ensure. exact HR.
    - eapply RX_geq; [apply (geq_fold_ensure_port_other ref (fun q => q)); exact Hn|].
      unfold ms0. rewrite get_model_ensure. exact HR. }
  assert (Hinfo : dict_of (zip (map p_name (m_ports (get_model ref (add_child (s_cur s) ref KNames ms1)))) nets)
                  = zip (names_port_names k) nets).
  { rewrite get_model_add_child_other by (intro E; apply Hne; symmetry; exact E).
    unfold ms1, ms0, ref. rewrite (names_after_fold k _ HQ).
    apply dict_of_nodup. apply zip_fst_nodup. apply names_port_names_nodup. }
  rewrite Hinfo in H.
  destruct (R_inst_tail _ _ _ _ _ _ _ nm st Hh1 H R1 Hc) as [R2 [F1 [F2 F3]]].
  split; [exact R2|]. split; [|split]; assumption.
Qed.

(* ====================================================================== .latch *)
Lemma R_latch s toks s' nm st :
  has (s_cur s) (st_models s) -> reserved (s_cur s) = false ->
  exec s (SLatch toks) = Ok s' ->
  RX nm (s_cur s) (s_merged s) (get_model nm (st_models s)) st ->
  (nm = s_cur s -> n_bb st = false) ->
  RX nm (s_cur s) (s_merged s) (get_model nm (st_models s')) (step_g nm (s_cur s) (SLatch toks) st) /\
  s_cur s' = s_cur s /\ s_isbb s' = s_isbb s /\ s_merged s' = s_merged s.
Proof.
  intros Hh Hcr H HR Hc. cbn [exec] in H.
  set (info := zip latch_order toks) in *. set (ref := k_latch_def) in *.
  set (ms0 := ensure_model ref (st_models s)) in *.
  set (ms1 := match m_ports (get_model ref ms0) with [] => _ | _ => ms0 end) in H.
  assert (A : map m_name ms1 = map m_name ms0 /\ RX nm (s_cur s) (s_merged s) (get_model nm ms1) st).
  { assert (R0 : RX nm (s_cur s) (s_merged s) (get_model nm ms0) st) by (unfold ms0; rewrite get_model_ensure; exact HR).
    unfold ms1. destruct (m_ports (get_model ref ms0)); [|split; [reflexivity|exact R0]]. split.
    - apply (mnames_fold_ensure_port ref (fun kv : str * str => latch_port (fst kv))).
    - destruct (list_eq_dec N.eq_dec nm ref) as [->|Hn].
      + eapply RX_vcore; [apply reserved_latch|apply (vcore_fold_ensure_port ref (fun kv : str * str => latch_port (fst kv)))|exact R0].
      + eapply RX_geq; [apply (geq_fold_ensure_port_other ref (fun kv : str * str => latch_port (fst kv))); exact Hn|exact R0]. }
  destruct A as [N1 R1].
  assert (Hh1 : has (s_cur s) ms1) by (unfold has; rewrite N1; apply has_ensure_other; exact Hh).
  destruct (sassoc k_output info) as [out|]; [|discriminate].
  destruct (R_inst_tail _ _ _ _ _ _ _ nm st Hh1 H R1 Hc) as [R2 [F1 [F2 F3]]].
  split; [exact R2|]. split; [|split]; assumption.
Qed.
