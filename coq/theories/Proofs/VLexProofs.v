(* Lemmas about the character-level Verilog tokenizer model Fmt/VLex.v (theorems restated in Props/C06.v). *)
From Coq Require Import List NArith Bool Lia.
From SV Require Import Base.Base Fmt.VLex.
Import ListNotations.
Open Scope N_scope.

(* ---- the loop form is the recursive form ---- *)
Lemma run_acc_run : forall s st acc, run_acc st s acc = rev acc ++ run st s.
Proof.
  induction s as [|c r IH]; intros st acc; simpl.
  - rewrite rev_append_rev. reflexivity.
  - destruct (step st c) as [[t|] st']; rewrite IH; simpl; [rewrite <- app_assoc|]; reflexivity.
Qed.

Lemma tokenize_raw_loop_eq s : tokenize_raw_loop s = tokenize_raw s.
Proof. unfold tokenize_raw_loop, tokenize_raw. rewrite run_acc_run. reflexivity. Qed.

Lemma tokenize_loop_eq s : tokenize_loop s = tokenize s.
Proof. unfold tokenize_loop, tokenize. rewrite tokenize_raw_loop_eq. reflexivity. Qed.

(* ---- every character is consumed: in exactly one token, or it is white space ---- *)
Definition olist (o : option tok) : list tok := match o with Some t => [t] | None => [] end.

Lemma strip_app a b : strip_ws (a ++ b) = strip_ws a ++ strip_ws b.
Proof. apply filter_app. Qed.

Lemma strip_one c : strip_ws [c] = if is_ws c then [] else [c].
Proof. unfold strip_ws; simpl. destruct (is_ws c); reflexivity. Qed.

Ltac split_ifs :=
  repeat match goal with
         | |- context [if ?x then _ else _] => destruct x eqn:?
         end.

Definition ochar (o : option N) : str := match o with Some c => [c] | None => [] end.

Lemma settle_buf b1 m1 ch : strip_ws (l_buf (settle b1 m1 ch)) = strip_ws b1 ++ strip_ws (ochar ch).
Proof.
  unfold settle; cbn [l_buf]. destruct ch as [c|]; cbn [ochar]; [|cbn; rewrite app_nil_r; reflexivity].
  rewrite (strip_one c).
  destruct (is_ws c) eqn:Hws; cbn [negb]; [destruct (keeps_ws m1)|]; rewrite ?strip_app, ?strip_one, ?Hws, ?app_nil_r; reflexivity.
Qed.

Lemma decide_consumes st c :
  match decide st c with
  | (out, b1, m1, ch) => strip_ws (concat (olist out)) ++ strip_ws b1 ++ strip_ws (ochar ch) = strip_ws (l_buf st ++ [c])
  end.
Proof.
  destruct st as [b m l]. unfold decide; simpl l_buf; simpl l_mode; simpl l_last.
  destruct (is_ws c) eqn:Hws; split_ifs; simpl; rewrite ?app_nil_r, ?strip_app, ?strip_one, ?Hws; simpl;
    rewrite ?app_nil_r; try reflexivity; try (rewrite andb_false_r in *; discriminate).
Qed.

Lemma step_consumes st c :
  strip_ws (concat (olist (fst (step st c))) ++ l_buf (snd (step st c))) = strip_ws (l_buf st ++ [c]).
Proof.
  unfold step. pose proof (decide_consumes st c) as H. destruct (decide st c) as [[[out b1] m1] ch].
  cbn [fst snd]. rewrite strip_app, settle_buf. exact H.
Qed.

Lemma concat_flush st : concat (flush st) = l_buf st.
Proof. unfold flush. destruct (l_buf st); simpl; rewrite ?app_nil_r; reflexivity. Qed.

Lemma run_consumes : forall s st, strip_ws (concat (run st s)) = strip_ws (l_buf st ++ s).
Proof.
  induction s as [|c r IH]; intros st.
  - simpl run. rewrite concat_flush, app_nil_r. reflexivity.
  - simpl run. pose proof (step_consumes st c) as H. destruct (step st c) as [[t|] st']; cbn [fst snd olist] in H.
    + simpl concat in *. rewrite app_nil_r in H. rewrite strip_app, IH. rewrite strip_app in *.
      rewrite app_assoc, H. change (c :: r) with ([c] ++ r). rewrite !strip_app, app_assoc. reflexivity.
    + simpl concat in H. simpl app in H. rewrite IH. change (c :: r) with ([c] ++ r).
      rewrite !strip_app in *. rewrite app_assoc, H. reflexivity.
Qed.

(* ---- no empty token ---- *)
Definition linv (st : lst) : Prop := l_mode st = MNone \/ (l_buf st <> [] /\ in_single (l_buf st) = false).

Lemma set_mode_inv b : set_mode b <> MNone -> b <> [] /\ in_single b = false.
Proof.
  destruct b as [|a [|a' [|a'' r]]]; simpl; try congruence.
  - destruct (a =? 34) eqn:E1; [apply N.eqb_eq in E1; subst; intros _; split; [discriminate|reflexivity]|].
    destruct (a =? 92) eqn:E2; [apply N.eqb_eq in E2; subst; intros _; split; [discriminate|reflexivity]|].
    destruct (a =? 96) eqn:E3; [apply N.eqb_eq in E3; subst; intros _; split; [discriminate|reflexivity]|].
    congruence.
  - intros _. split; [discriminate|reflexivity].
Qed.

Lemma snoc_not_single b c : b <> [] -> in_single (b ++ [c]) = false.
Proof. destruct b as [|x [|y r]]; simpl; congruence. Qed.

Lemma snoc_not_nil (b : str) c : b ++ [c] <> [].
Proof. destruct b; discriminate. Qed.

Lemma settle_inv b1 m1 ch : (m1 = MNone \/ (b1 <> [] /\ in_single b1 = false)) -> linv (settle b1 m1 ch).
Proof.
  intros H; unfold linv, settle; cbn [l_buf l_mode].
  destruct m1; cbn [lmode_eqb];
    [match goal with |- set_mode ?b = _ \/ _ => destruct (set_mode b) eqn:E; [left; reflexivity|right; apply set_mode_inv; congruence ..] end | ..].
  all: destruct H as [H|[Hb Hs]]; [discriminate H|].
  all: right; destruct ch as [c|]; [|split; assumption];
      destruct (negb (is_ws c)); cbn [keeps_ws]; split; try assumption; try apply snoc_not_nil; try (apply snoc_not_single; assumption).
Qed.

Lemma in_single_not_nil b : in_single b = true -> b <> [].
Proof. destruct b; simpl; congruence. Qed.

Lemma decide_inv st c : linv st ->
  match decide st c with
  | (out, b1, m1, ch) => (forall t, out = Some t -> t <> []) /\ (m1 = MNone \/ (b1 <> [] /\ in_single b1 = false))
  end.
Proof.
  destruct st as [b m l]. unfold linv, decide; cbn [l_buf l_mode l_last]. intros H.
  destruct (in_single b) eqn:Hs.
  - split; [intros t E; inversion E; subst; apply in_single_not_nil; assumption|].
    destruct H as [H|[_ H]]; [left; exact H|congruence].
  - destruct m; cbn [lmode_eqb andb]; split_ifs; (split; [intros t E; inversion E; subst; clear E|]);
      try (left; reflexivity); try apply snoc_not_nil;
      try (destruct H as [H|[Hb _]]; [discriminate H|exact Hb]);
      try (right; destruct H as [H|[Hb Hs']]; [discriminate H|split; assumption]);
      try (match goal with |- ?t <> [] => destruct t; [cbn in *; rewrite ?andb_false_r in *; discriminate|discriminate] end);
      try (exfalso; repeat match goal with X : _ && _ = true |- _ => cbn in X; rewrite ?andb_false_r in X; try discriminate X; clear X end; fail).
Qed.

Lemma step_inv st c : linv st -> (forall t, fst (step st c) = Some t -> t <> []) /\ linv (snd (step st c)).
Proof.
  intros H. apply (decide_inv st c) in H. unfold step. destruct (decide st c) as [[[out b1] m1] ch].
  cbn [fst snd]. destruct H as [H1 H2]. split; [exact H1|apply settle_inv; exact H2].
Qed.

Lemma run_nonempty : forall s st, linv st -> Forall (fun t => t <> []) (run st s).
Proof.
  induction s as [|c r IH]; intros st H; simpl run.
  - unfold flush. destruct (l_buf st) eqn:E; constructor; [discriminate|constructor].
  - pose proof (step_inv st c H) as [H1 H2]. destruct (step st c) as [[t|] st']; cbn [fst snd] in *.
    + constructor; [apply H1; reflexivity|apply IH; exact H2].
    + apply IH; exact H2.
Qed.

Lemma linv_init : linv l_init.
Proof. left; reflexivity. Qed.

Lemma tokenize_raw_nonempty s : Forall (fun t => t <> []) (tokenize_raw s).
Proof. apply run_nonempty, linv_init. Qed.

Lemma tokenize_nonempty s : Forall (fun t => t <> []) (tokenize s).
Proof.
  unfold tokenize, drop_comments. pose proof (tokenize_raw_nonempty s) as H. rewrite Forall_forall in *.
  intros t Ht. apply filter_In in Ht. apply H, Ht.
Qed.

Lemma tokenize_raw_consumes s : strip_ws (concat (tokenize_raw s)) = strip_ws s.
Proof. apply (run_consumes s l_init). Qed.

