(* Lemmas about the character-level Verilog tokenizer model Fmt/VLex.v (theorems restated in Props/C06.v). *)
From Coq Require Import List NArith Bool Lia.
From SV Require Import Base.Base Fmt.VLex.
Import ListNotations.
Open Scope N_scope.

(* ---- the loop form is the recursive form ---- *)
Lemma run_acc_run : forall s st acc, run_acc st s acc = rev acc ++ run st s.
Proof.
  induction s as [|c r IH]; intros st acc; simpl.
  - rewrite rev_append_rev. reflexivity.
  - destruct (step st c) as [[t|] st']; rewrite IH; simpl; [rewrite <- app_assoc|]; reflexivity.
Qed.

Lemma tokenize_raw_loop_eq s : tokenize_raw_loop s = tokenize_raw s.
Proof. unfold tokenize_raw_loop, tokenize_raw. rewrite run_acc_run. reflexivity. Qed.

Lemma drop_comments_acc_eq : forall ts acc, drop_comments_acc ts acc = rev acc ++ drop_comments ts.
Proof.
  induction ts as [|t r IH]; intros acc; cbn [drop_comments_acc].
  - rewrite rev_append_rev. reflexivity.
  - unfold drop_comments in *. cbn [filter]. destruct (is_comment t); cbn [negb]; rewrite IH; [reflexivity|].
    cbn [rev]. rewrite <- app_assoc. reflexivity.
Qed.

Lemma tokenize_loop_eq s : tokenize_loop s = tokenize s.
Proof. unfold tokenize_loop, tokenize. rewrite tokenize_raw_loop_eq, drop_comments_acc_eq. reflexivity. Qed.

(* ---- every character is consumed: in exactly one token, or it is white space ---- *)
Definition olist (o : option tok) : list tok := match o with Some t => [t] | None => [] end.

Lemma strip_app a b : strip_ws (a ++ b) = strip_ws a ++ strip_ws b.
Proof. apply filter_app. Qed.

Lemma strip_one c : strip_ws [c] = if is_ws c then [] else [c].
Proof. unfold strip_ws; simpl. destruct (is_ws c); reflexivity. Qed.

Ltac split_ifs :=
  repeat match goal with
         | |- context [if ?x then _ else _] => destruct x eqn:?
         end.

Definition ochar (o : option N) : str := match o with Some c => [c] | None => [] end.

Lemma settle_buf b1 m1 ch : strip_ws (l_buf (settle b1 m1 ch)) = strip_ws b1 ++ strip_ws (ochar ch).
Proof.
  unfold settle; cbn [l_buf]. destruct ch as [c|]; cbn [ochar]; [|cbn; rewrite app_nil_r; reflexivity].
  rewrite (strip_one c).
  destruct (is_ws c) eqn:Hws; cbn [negb]; [destruct (keeps_ws m1)|]; rewrite ?strip_app, ?strip_one, ?Hws, ?app_nil_r; reflexivity.
Qed.

Lemma decide_consumes st c :
  match decide st c with
  | (out, b1, m1, ch) => strip_ws (concat (olist out)) ++ strip_ws b1 ++ strip_ws (ochar ch) = strip_ws (l_buf st ++ [c])
  end.
Proof.
  destruct st as [b m l]. unfold decide; simpl l_buf; simpl l_mode; simpl l_last.
  destruct (is_ws c) eqn:Hws; split_ifs; simpl; rewrite ?app_nil_r, ?strip_app, ?strip_one, ?Hws; simpl;
    rewrite ?app_nil_r; try reflexivity; try (rewrite andb_false_r in *; discriminate).
Qed.

Lemma step_consumes st c :
  strip_ws (concat (olist (fst (step st c))) ++ l_buf (snd (step st c))) = strip_ws (l_buf st ++ [c]).
Proof.
  unfold step. pose proof (decide_consumes st c) as H. destruct (decide st c) as [[[out b1] m1] ch].
  cbn [fst snd]. rewrite strip_app, settle_buf. exact H.
Qed.

Lemma concat_flush st : concat (flush st) = l_buf st.
Proof. unfold flush. destruct (l_buf st); simpl; rewrite ?app_nil_r; reflexivity. Qed.

Lemma run_consumes : forall s st, strip_ws (concat (run st s)) = strip_ws (l_buf st ++ s).
Proof.
  induction s as [|c r IH]; intros st.
  - simpl run. rewrite concat_flush, app_nil_r. reflexivity.
  - simpl run. pose proof (step_consumes st c) as H. destruct (step st c) as [[t|] st']; cbn [fst snd olist] in H.
    + simpl concat in *. rewrite app_nil_r in H. rewrite strip_app, IH. rewrite strip_app in *.
      rewrite app_assoc, H. change (c :: r) with ([c] ++ r). rewrite !strip_app, app_assoc. reflexivity.
    + simpl concat in H. simpl app in H. rewrite IH. change (c :: r) with ([c] ++ r).
      rewrite !strip_app in *. rewrite app_assoc, H. reflexivity.
Qed.

(* ---- no empty token ---- *)
Definition linv (st : lst) : Prop := l_mode st = MNone \/ (l_buf st <> [] /\ in_single (l_buf st) = false).

Lemma set_mode_inv b : set_mode b <> MNone -> b <> [] /\ in_single b = false.
Proof.
  destruct b as [|a [|a' [|a'' r]]]; simpl; try congruence.
  - destruct (a =? 34) eqn:E1; [apply N.eqb_eq in E1; subst; intros _; split; [discriminate|reflexivity]|].
    destruct (a =? 92) eqn:E2; [apply N.eqb_eq in E2; subst; intros _; split; [discriminate|reflexivity]|].
    destruct (a =? 96) eqn:E3; [apply N.eqb_eq in E3; subst; intros _; split; [discriminate|reflexivity]|].
    congruence.
  - intros _. split; [discriminate|reflexivity].
Qed.

Lemma snoc_not_single b c : b <> [] -> in_single (b ++ [c]) = false.
Proof. destruct b as [|x [|y r]]; simpl; congruence. Qed.

Lemma snoc_not_nil (b : str) c : b ++ [c] <> [].
Proof. destruct b; discriminate. Qed.

Lemma settle_inv b1 m1 ch : (m1 = MNone \/ (b1 <> [] /\ in_single b1 = false)) -> linv (settle b1 m1 ch).
Proof.
  intros H; unfold linv, settle; cbn [l_buf l_mode].
  destruct m1; cbn [lmode_eqb];
    [match goal with |- set_mode ?b = _ \/ _ => destruct (set_mode b) eqn:E; [left; reflexivity|right; apply set_mode_inv; congruence ..] end | ..].
  all: destruct H as [H|[Hb Hs]]; [discriminate H|].
  all: right; destruct ch as [c|]; [|split; assumption];
      destruct (negb (is_ws c)); cbn [keeps_ws]; split; try assumption; try apply snoc_not_nil; try (apply snoc_not_single; assumption).
Qed.

Lemma in_single_not_nil b : in_single b = true -> b <> [].
Proof. destruct b; simpl; congruence. Qed.

Lemma decide_inv st c : linv st ->
  match decide st c with
  | (out, b1, m1, ch) => (forall t, out = Some t -> t <> []) /\ (m1 = MNone \/ (b1 <> [] /\ in_single b1 = false))
  end.
Proof.
  destruct st as [b m l]. unfold linv, decide; cbn [l_buf l_mode l_last]. intros H.
  destruct (in_single b) eqn:Hs.
  - split; [intros t E; inversion E; subst; apply in_single_not_nil; assumption|].
    destruct H as [H|[_ H]]; [left; exact H|congruence].
  - destruct m; cbn [lmode_eqb andb]; split_ifs; (split; [intros t E; inversion E; subst; clear E|]);
      try (left; reflexivity); try apply snoc_not_nil;
      try (destruct H as [H|[Hb _]]; [discriminate H|exact Hb]);
      try (right; destruct H as [H|[Hb Hs']]; [discriminate H|split; assumption]);
      try (match goal with |- ?t <> [] => destruct t; [cbn in *; rewrite ?andb_false_r in *; discriminate|discriminate] end);
      try (exfalso; repeat match goal with X : _ && _ = true |- _ => cbn in X; rewrite ?andb_false_r in X; try discriminate X; clear X end; fail).
Qed.

Lemma step_inv st c : linv st -> (forall t, fst (step st c) = Some t -> t <> []) /\ linv (snd (step st c)).
Proof.
  intros H. apply (decide_inv st c) in H. unfold step. destruct (decide st c) as [[[out b1] m1] ch].
  cbn [fst snd]. destruct H as [H1 H2]. split; [exact H1|apply settle_inv; exact H2].
Qed.

Lemma run_nonempty : forall s st, linv st -> Forall (fun t => t <> []) (run st s).
Proof.
  induction s as [|c r IH]; intros st H; simpl run.
  - unfold flush. destruct (l_buf st) eqn:E; constructor; [discriminate|constructor].
  - pose proof (step_inv st c H) as [H1 H2]. destruct (step st c) as [[t|] st']; cbn [fst snd] in *.
    + constructor; [apply H1; reflexivity|apply IH; exact H2].
    + apply IH; exact H2.
Qed.

Lemma linv_init : linv l_init.
Proof. left; reflexivity. Qed.

Lemma tokenize_raw_nonempty s : Forall (fun t => t <> []) (tokenize_raw s).
Proof. apply run_nonempty, linv_init. Qed.

Lemma tokenize_nonempty s : Forall (fun t => t <> []) (tokenize s).
Proof.
  unfold tokenize, drop_comments. pose proof (tokenize_raw_nonempty s) as H. rewrite Forall_forall in *.
  intros t Ht. apply filter_In in Ht. apply H, Ht.
Qed.

Lemma tokenize_raw_consumes s : strip_ws (concat (tokenize_raw s)) = strip_ws s.
Proof. apply (run_consumes s l_init). Qed.


(* ---- tokenize (print ts) = ts ---- *)
Lemma decide_clean l c : decide (mkL [] MNone l) c = (None, [], MNone, Some c).
Proof. unfold decide; cbn. destruct ((c =? 42) && last_is l 47); rewrite ?andb_false_r; reflexivity. Qed.

Lemma is_breaker_false c : is_breaker c = false ->
  is_ws c = false /\ (c =? 42) = false /\ (c =? 92) = false /\ (c =? 34) = false /\ (c =? 96) = false.
Proof. unfold is_breaker. rewrite !orb_false_iff. tauto. Qed.

Lemma plain_facts c : plain c = true ->
  is_breaker c = false /\ (c =? 46) = false /\ (c =? 47) = false.
Proof. unfold plain. rewrite !andb_true_iff, !negb_true_iff. tauto. Qed.

Lemma set_mode_snoc b c : (c =? 47) = false -> (c =? 42) = false -> (c =? 34) = false -> (c =? 92) = false ->
  (c =? 96) = false -> set_mode (b ++ [c]) = MNone.
Proof.
  intros H1 H2 H3 H4 H5. destruct b as [|x [|y [|z r]]]; simpl; rewrite ?H1, ?H2, ?H3, ?H4, ?H5, ?andb_false_r; reflexivity.
Qed.

Lemma step_plain b l c : in_single b = false -> plain c = true ->
  step (mkL b MNone l) c = (None, mkL (b ++ [c]) MNone (Some c)).
Proof.
  intros Hs Hp. apply plain_facts in Hp as (Hbr & H46 & H47). pose proof (is_breaker_false c Hbr) as (Hws & H42 & H92 & H34 & H96).
  unfold step, decide; cbn [l_buf l_mode l_last]. rewrite Hs. cbn [lmode_eqb andb]. rewrite H42, Hbr, H46. cbn [andb].
  unfold settle. rewrite Hws. cbn [negb lmode_eqb]. rewrite set_mode_snoc by assumption. reflexivity.
Qed.

Lemma ws_not c k : is_ws c = true -> is_ws k = false -> (c =? k) = false.
Proof. intros H1 H2. destruct (c =? k) eqn:E; [apply N.eqb_eq in E; subst; congruence|reflexivity]. Qed.

Lemma step_sep b l sep : b <> [] -> in_single b = false -> is_ws sep = true ->
  step (mkL b MNone l) sep = (Some b, mkL [] MNone (Some sep)).
Proof.
  intros Hb Hs Hw. unfold step, decide; cbn [l_buf l_mode l_last]. rewrite Hs. cbn [lmode_eqb andb].
  rewrite (ws_not sep 42 Hw eq_refl). cbn [andb]. unfold is_breaker. rewrite Hw. cbn [orb andb].
  destruct b; [congruence|]. cbn [is_nil negb]. unfold settle. rewrite Hw. cbn. reflexivity.
Qed.

Lemma step_clean_ws l sep : is_ws sep = true -> step (mkL [] MNone l) sep = (None, mkL [] MNone (Some sep)).
Proof. intros Hw. unfold step. rewrite decide_clean. unfold settle. rewrite Hw. cbn. reflexivity. Qed.

Lemma word_tail sep rest : is_ws sep = true -> forall w b l, b <> [] -> in_single b = false -> forallb plain w = true ->
  run (mkL b MNone l) (w ++ sep :: rest) = (b ++ w) :: run (mkL [] MNone (Some sep)) rest.
Proof.
  intros Hw. induction w as [|c r IH]; intros b l Hb Hs Hp.
  - cbn [app run]. rewrite step_sep by assumption. rewrite app_nil_r. reflexivity.
  - cbn [forallb] in Hp. apply andb_true_iff in Hp as [Hc Hr]. cbn [app run]. rewrite step_plain by assumption.
    rewrite IH; [rewrite <- app_assoc; reflexivity|apply snoc_not_nil|apply snoc_not_single; assumption|assumption].
Qed.

Lemma single_cases p : is_single_c p = true ->
  In p [40; 41; 42; 59; 46; 91; 93; 123; 125; 58; 44; 35; 39; 61].
Proof. unfold is_single_c. rewrite !orb_true_iff, !N.eqb_eq. cbn [In]. intuition. Qed.

Lemma plain_not_single c : plain c = true -> (c =? 39) = false -> is_single_c c = false.
Proof.
  intros Hp H39. destruct (is_single_c c) eqn:E; [|reflexivity]. apply single_cases in E. cbn [In] in E.
  repeat (destruct E as [E|E]; [subst c; vm_compute in Hp; vm_compute in H39; congruence|]). destruct E.
Qed.

Lemma word_run sep rest l t : is_ws sep = true -> word_ok t = true ->
  run (mkL [] MNone l) (t ++ sep :: rest) = t :: run (mkL [] MNone (Some sep)) rest.
Proof.
  intros Hw Ht. destruct t as [|c r]; [discriminate|]. cbn [word_ok] in Ht.
  apply andb_true_iff in Ht as [Ht Hr]. apply andb_true_iff in Ht as [Hc H39]. apply negb_true_iff in H39.
  cbn [app run]. rewrite (step_plain [] l c eq_refl Hc). cbn [app].
  rewrite (word_tail sep rest Hw r [c]); [reflexivity|discriminate| |assumption].
  cbn [in_single]. apply plain_not_single; assumption.
Qed.

Lemma punct_run sep rest l t : is_ws sep = true -> punct_ok t = true ->
  run (mkL [] MNone l) (t ++ sep :: rest) = t :: run (mkL [] MNone (Some sep)) rest.
Proof.
  intros Hw Ht. unfold punct_ok in Ht. destruct t as [|p [|q r]]; try discriminate. cbn [in_single] in Ht.
  assert (Hnw : is_ws p = false) by (apply single_cases in Ht; cbn [In] in Ht;
    repeat (destruct Ht as [Ht|Ht]; [subst p; reflexivity|]); destruct Ht).
  assert (Hsm : set_mode [p] = MNone) by (apply single_cases in Ht; cbn [In] in Ht;
    repeat (destruct Ht as [Ht|Ht]; [subst p; reflexivity|]); destruct Ht).
  cbn [app run]. unfold step at 1. rewrite decide_clean. unfold settle at 1. rewrite Hnw. cbn [negb app lmode_eqb].
  rewrite Hsm. cbn [lmode_eqb andb].
  unfold step at 1, decide. cbn [l_buf l_mode l_last in_single]. rewrite Ht. unfold settle. rewrite Hw. cbn. reflexivity.
Qed.

Lemma body_then_split ok close : forall r, body_then ok close r = true ->
  exists body, r = body ++ [close] /\ forallb ok body = true.
Proof.
  induction r as [|c r IH]; [discriminate|]. destruct r as [|c' r'].
  - cbn. intros H. apply N.eqb_eq in H. subst. exists []. split; reflexivity.
  - intros H. change (ok c && body_then ok close (c' :: r') = true) in H. apply andb_true_iff in H as [H1 H2].
    destruct (IH H2) as (body & E & F). exists (c :: body). rewrite E. split; [reflexivity|]. cbn. rewrite H1, F. reflexivity.
Qed.

(* inside an escaped identifier *)
Lemma step_esc b l c : b <> [] -> in_single b = false -> is_ws c = false ->
  step (mkL b MEsc l) c = (None, mkL (b ++ [c]) MEsc (Some c)).
Proof.
  intros Hb Hs Hw. unfold step, decide; cbn [l_buf l_mode l_last]. rewrite Hs, Hw. cbn [lmode_eqb andb].
  destruct ((c =? 42) && last_is l 47); destruct (is_breaker c); destruct (c =? 46); cbn [andb];
    unfold settle; rewrite Hw; reflexivity.
Qed.

Lemma step_esc_end b l c : in_single b = false -> is_ws c = true ->
  step (mkL b MEsc l) c = (Some (b ++ [32]), mkL [] MNone (Some c)).
Proof.
  intros Hs Hw. unfold step, decide; cbn [l_buf l_mode l_last]. rewrite Hs, Hw. cbn [lmode_eqb andb].
  unfold settle; rewrite Hw; reflexivity.
Qed.

Lemma esc_tail rest : forall body b l, b <> [] -> in_single b = false ->
  forallb (fun x => negb (is_ws x)) body = true ->
  run (mkL b MEsc l) (body ++ 32 :: rest) = (b ++ body ++ [32]) :: run (mkL [] MNone (Some 32)) rest.
Proof.
  induction body as [|c r IH]; intros b l Hb Hs Hp.
  - cbn [app run]. rewrite step_esc_end by (assumption || reflexivity). reflexivity.
  - cbn [forallb] in Hp. apply andb_true_iff in Hp as [Hc Hr]. apply negb_true_iff in Hc. cbn [app run].
    rewrite step_esc by assumption.
    rewrite IH; [rewrite <- app_assoc; reflexivity|apply snoc_not_nil|apply snoc_not_single; assumption|assumption].
Qed.

Lemma escaped_run sep rest l t : is_ws sep = true -> escaped_ok t = true ->
  run (mkL [] MNone l) (t ++ sep :: rest) = t :: run (mkL [] MNone (Some sep)) rest.
Proof.
  intros Hw Ht. destruct t as [|c r]; [discriminate|]. cbn [escaped_ok] in Ht. apply andb_true_iff in Ht as [Hc Hr].
  apply N.eqb_eq in Hc. subst c. apply body_then_split in Hr as (body & -> & Hb).
  cbn [app run]. unfold step at 1. rewrite decide_clean. unfold settle at 1. cbn.
  rewrite <- app_assoc. cbn [app]. rewrite esc_tail; [|discriminate|reflexivity|assumption].
  cbn [app run]. rewrite step_clean_ws by assumption. reflexivity.
Qed.

(* inside a string *)
Lemma step_str b l c : b <> [] -> in_single b = false -> (c =? 34) = false ->
  step (mkL b MStr l) c = (None, mkL (b ++ [c]) MStr (Some c)).
Proof.
  intros Hb Hs Hq. unfold step, decide; cbn [l_buf l_mode l_last]. rewrite Hs, Hq. cbn [lmode_eqb andb].
  destruct ((c =? 42) && last_is l 47); destruct (is_breaker c); destruct (c =? 46); cbn [andb];
    unfold settle; destruct (is_ws c); reflexivity.
Qed.

Lemma step_str_end b l : in_single b = false ->
  step (mkL b MStr l) 34 = (Some (b ++ [34]), mkL [] MNone None).
Proof. intros Hs. unfold step, decide; cbn [l_buf l_mode l_last]. rewrite Hs. reflexivity. Qed.

Lemma str_tail rest : forall body b l, b <> [] -> in_single b = false ->
  forallb (fun x => negb (x =? 34)) body = true ->
  run (mkL b MStr l) (body ++ 34 :: rest) = (b ++ body ++ [34]) :: run (mkL [] MNone None) rest.
Proof.
  induction body as [|c r IH]; intros b l Hb Hs Hp.
  - cbn [app run]. rewrite step_str_end by assumption. reflexivity.
  - cbn [forallb] in Hp. apply andb_true_iff in Hp as [Hc Hr]. apply negb_true_iff in Hc. cbn [app run].
    rewrite step_str by assumption.
    rewrite IH; [rewrite <- app_assoc; reflexivity|apply snoc_not_nil|apply snoc_not_single; assumption|assumption].
Qed.

Lemma string_run sep rest l t : is_ws sep = true -> string_ok t = true ->
  run (mkL [] MNone l) (t ++ sep :: rest) = t :: run (mkL [] MNone (Some sep)) rest.
Proof.
  intros Hw Ht. destruct t as [|c r]; [discriminate|]. cbn [string_ok] in Ht. apply andb_true_iff in Ht as [Hc Hr].
  apply N.eqb_eq in Hc. subst c. apply body_then_split in Hr as (body & -> & Hb).
  cbn [app run]. unfold step at 1. rewrite decide_clean. unfold settle at 1. cbn.
  rewrite <- app_assoc. cbn [app]. rewrite str_tail; [|discriminate|reflexivity|assumption].
  cbn [app run]. rewrite step_clean_ws by assumption. reflexivity.
Qed.

Lemma tok_run sep rest l t : is_ws sep = true -> tok_ok t = true ->
  run (mkL [] MNone l) (t ++ sep :: rest) = t :: run (mkL [] MNone (Some sep)) rest.
Proof.
  intros Hw Ht. unfold tok_ok in Ht. rewrite !orb_true_iff in Ht. destruct Ht as [[[H|H]|H]|H].
  - apply word_run; assumption.
  - apply punct_run; assumption.
  - apply escaped_run; assumption.
  - apply string_run; assumption.
Qed.

Lemma run_print sep : is_ws sep = true -> forall ts l, forallb tok_ok ts = true ->
  run (mkL [] MNone l) (print_with sep ts) = ts.
Proof.
  intros Hw. induction ts as [|t ts IH]; intros l H; [reflexivity|].
  cbn [forallb] in H. apply andb_true_iff in H as [Ht Hts]. unfold print_with. cbn [flat_map]. rewrite <- app_assoc. cbn [app].
  rewrite tok_run by assumption. f_equal. apply IH; assumption.
Qed.

Lemma tok_ok_not_comment t : tok_ok t = true -> is_comment t = false.
Proof.
  unfold tok_ok. rewrite !orb_true_iff. intros [[[H|H]|H]|H].
  - destruct t as [|c [|c' r]]; try reflexivity. cbn in H. apply andb_true_iff in H as [H _]. apply andb_true_iff in H as [H _].
    apply plain_facts in H as (_ & _ & H). cbn. rewrite H. reflexivity.
  - destruct t as [|c [|c' r]]; try reflexivity. discriminate.
  - destruct t as [|c [|c' r]]; try reflexivity. cbn in H. apply andb_true_iff in H as [H _]. apply N.eqb_eq in H. subst. reflexivity.
  - destruct t as [|c [|c' r]]; try reflexivity. cbn in H. apply andb_true_iff in H as [H _]. apply N.eqb_eq in H. subst. reflexivity.
Qed.

Lemma drop_comments_ok ts : forallb tok_ok ts = true -> drop_comments ts = ts.
Proof.
  induction ts as [|t ts IH]; [reflexivity|]. cbn [forallb]. intros H. apply andb_true_iff in H as [Ht Hts].
  unfold drop_comments in *. cbn [filter]. rewrite (tok_ok_not_comment t Ht). cbn [negb]. f_equal. apply IH; assumption.
Qed.

Lemma tokenize_raw_print_with sep ts : is_ws sep = true -> forallb tok_ok ts = true ->
  tokenize_raw (print_with sep ts) = ts.
Proof. intros Hw H. apply run_print; assumption. Qed.

Lemma tokenize_print_with sep ts : is_ws sep = true -> forallb tok_ok ts = true ->
  tokenize (print_with sep ts) = ts.
Proof. intros Hw H. unfold tokenize. rewrite tokenize_raw_print_with by assumption. apply drop_comments_ok; assumption. Qed.

Lemma tokenize_print_tokens ts : forallb tok_ok ts = true -> tokenize (print_tokens ts) = ts.
Proof. apply tokenize_print_with. reflexivity. Qed.

(* ---- comments and white space are skipped ---- *)
Fixpoint outs (st : lst) (s : str) : list tok :=
  match s with
  | [] => []
  | c :: r => olist (fst (step st c)) ++ outs (snd (step st c)) r
  end.

Lemma run_app : forall a st b, run st (a ++ b) = outs st a ++ run (state_after st a) b.
Proof.
  induction a as [|c r IH]; intros st b; [reflexivity|]. cbn [app run outs state_after].
  destruct (step st c) as [[t|] st']; cbn [fst snd olist app]; rewrite IH; reflexivity.
Qed.

Definition clean (st : lst) : Prop := l_buf st = [] /\ l_mode st = MNone.

Lemma run_clean_last l l' s : run (mkL [] MNone l) s = run (mkL [] MNone l') s.
Proof. destruct s as [|c r]; [reflexivity|]. cbn [run]. unfold step. rewrite !decide_clean. reflexivity. Qed.

Lemma run_clean st s : clean st -> run st s = run l_init s.
Proof. destruct st as [b m l]. intros [Hb Hm]. cbn in Hb, Hm. subst. apply run_clean_last. Qed.

Lemma outs_run_nil st a : l_buf (state_after st a) = [] -> run st a = outs st a.
Proof. intros H. rewrite <- (app_nil_r a) at 1. rewrite run_app. cbn [run]. unfold flush. rewrite H. apply app_nil_r. Qed.

(* inside a block comment *)
Lemma step_block b l c : b <> [] -> in_single b = false -> last_is l 42 && (c =? 47) = false ->
  step (mkL b MBlock l) c = (None, mkL (b ++ [c]) MBlock (Some c)).
Proof.
  intros Hb Hs Hq. unfold step, decide; cbn [l_buf l_mode l_last]. rewrite Hs. cbn [lmode_eqb andb]. rewrite Hq.
  destruct ((c =? 42) && last_is l 47); destruct (is_breaker c); destruct (c =? 46); cbn [andb];
    unfold settle; destruct (is_ws c); reflexivity.
Qed.

Lemma step_block_end b : in_single b = false ->
  step (mkL b MBlock (Some 42)) 47 = (Some (b ++ [47]), mkL [] MNone None).
Proof. intros Hs. unfold step, decide; cbn [l_buf l_mode l_last]. rewrite Hs. reflexivity. Qed.

Lemma block_tail rest : forall body b l, b <> [] -> in_single b = false -> no_close l body = true ->
  run (mkL b MBlock l) (body ++ 42 :: 47 :: rest) = (b ++ body ++ [42; 47]) :: run l_init rest.
Proof.
  induction body as [|c r IH]; intros b l Hb Hs Hp.
  - cbn [app run]. rewrite step_block; [|assumption|assumption|rewrite andb_false_r; reflexivity].
    rewrite step_block_end by (apply snoc_not_single; assumption). rewrite <- app_assoc. reflexivity.
  - cbn [no_close] in Hp. apply andb_true_iff in Hp as [Hc Hr]. apply negb_true_iff in Hc. cbn [app run].
    rewrite step_block by assumption.
    rewrite IH; [rewrite <- app_assoc; reflexivity|apply snoc_not_nil|apply snoc_not_single; assumption|assumption].
Qed.

Lemma block_comment_run body rest l : no_close None body = true ->
  run (mkL [] MNone l) (block_comment body ++ rest) = block_comment body :: run l_init rest.
Proof.
  intros H. unfold block_comment. rewrite <- !app_assoc. cbn [app run].
  unfold step at 1. rewrite decide_clean. unfold settle at 1. cbn.
  change (settle [47] MNone (Some 42)) with (mkL [47; 42] MBlock None).
  rewrite (block_tail rest body [47; 42] None); [reflexivity|discriminate|reflexivity|assumption].
Qed.

(* a line comment up to the new line *)
Lemma step_line b l c : b <> [] -> in_single b = false -> (c =? 10) = false ->
  step (mkL b MLine l) c = (None, mkL (b ++ [c]) MLine (Some c)).
Proof.
  intros Hb Hs Hq. unfold step, decide; cbn [l_buf l_mode l_last]. rewrite Hs, Hq. cbn [lmode_eqb andb].
  destruct ((c =? 42) && last_is l 47); destruct (is_breaker c); destruct (c =? 46); cbn [andb];
    unfold settle; destruct (is_ws c); reflexivity.
Qed.

Lemma step_line_end b l : in_single b = false ->
  step (mkL b MLine l) 10 = (Some b, mkL [] MNone (Some 10)).
Proof. intros Hs. unfold step, decide; cbn [l_buf l_mode l_last]. rewrite Hs. reflexivity. Qed.

Lemma line_tail rest : forall body b l, b <> [] -> in_single b = false ->
  forallb (fun x => negb (x =? 10)) body = true ->
  run (mkL b MLine l) (body ++ 10 :: rest) = (b ++ body) :: run l_init rest.
Proof.
  induction body as [|c r IH]; intros b l Hb Hs Hp.
  - cbn [app run]. rewrite step_line_end by assumption. rewrite app_nil_r. f_equal. apply run_clean_last.
  - cbn [forallb] in Hp. apply andb_true_iff in Hp as [Hc Hr]. apply negb_true_iff in Hc. cbn [app run].
    rewrite step_line by assumption.
    rewrite IH; [rewrite <- app_assoc; reflexivity|apply snoc_not_nil|apply snoc_not_single; assumption|assumption].
Qed.

Lemma line_comment_run body rest l : forallb (fun x => negb (x =? 10)) body = true ->
  run (mkL [] MNone l) (line_comment body ++ 10 :: rest) = line_comment body :: run l_init rest.
Proof.
  intros H. unfold line_comment. rewrite <- !app_assoc. cbn [app run].
  unfold step at 1. rewrite decide_clean. unfold settle at 1. cbn.
  try change (settle [47] MNone (Some 47)) with (mkL [47; 47] MLine (Some 47)).
  rewrite (line_tail rest body [47; 47]); [reflexivity|discriminate|reflexivity|assumption].
Qed.

(* the boundary condition: the factory is between tokens after [a] (empty buffer, no flag) *)
Definition between_tokens (a : str) : Prop := clean (state_after l_init a).

Lemma tokenize_raw_block_comment a body b : between_tokens a -> no_close None body = true ->
  tokenize_raw (a ++ block_comment body ++ b) = tokenize_raw a ++ block_comment body :: tokenize_raw b.
Proof.
  intros [Hb Hm] Hn. unfold tokenize_raw. rewrite run_app. rewrite (outs_run_nil l_init a Hb). f_equal.
  destruct (state_after l_init a) as [bb m l]. cbn in Hb, Hm. subst. apply block_comment_run; assumption.
Qed.

Lemma tokenize_raw_line_comment a body b : between_tokens a -> forallb (fun x => negb (x =? 10)) body = true ->
  tokenize_raw (a ++ line_comment body ++ 10 :: b) = tokenize_raw a ++ line_comment body :: tokenize_raw b.
Proof.
  intros [Hb Hm] Hn. unfold tokenize_raw. rewrite run_app. rewrite (outs_run_nil l_init a Hb). f_equal.
  destruct (state_after l_init a) as [bb m l]. cbn in Hb, Hm. subst. apply line_comment_run; assumption.
Qed.

Lemma drop_comments_app x y : drop_comments (x ++ y) = drop_comments x ++ drop_comments y.
Proof. apply filter_app. Qed.

Lemma tokenize_block_comment a body b : between_tokens a -> no_close None body = true ->
  tokenize (a ++ block_comment body ++ b) = tokenize a ++ tokenize b.
Proof.
  intros Ha Hn. unfold tokenize. rewrite tokenize_raw_block_comment by assumption. rewrite drop_comments_app. reflexivity.
Qed.

Lemma tokenize_line_comment a body b : between_tokens a -> forallb (fun x => negb (x =? 10)) body = true ->
  tokenize (a ++ line_comment body ++ 10 :: b) = tokenize a ++ tokenize b.
Proof.
  intros Ha Hn. unfold tokenize. rewrite tokenize_raw_line_comment by assumption. rewrite drop_comments_app. reflexivity.
Qed.

(* white space between tokens is skipped *)
Lemma tokenize_raw_ws a w b : between_tokens a -> forallb is_ws w = true ->
  tokenize_raw (a ++ w ++ b) = tokenize_raw a ++ tokenize_raw b.
Proof.
  intros [Hb Hm] Hw. unfold tokenize_raw. rewrite run_app. rewrite (outs_run_nil l_init a Hb). f_equal.
  destruct (state_after l_init a) as [bb m l]. cbn in Hb, Hm. subst. clear a. revert l.
  induction w as [|c r IH]; intros l; [apply run_clean_last|].
  cbn [forallb] in Hw. apply andb_true_iff in Hw as [Hc Hr]. cbn [app run]. rewrite step_clean_ws by assumption. apply IH; assumption.
Qed.
