(* The comparer accepts EVERY netlist value of the model against itself - unnamed elements,
   assignment-style names, children without a name on a wire (PAnon), dangling pins (PDang), pins
   without a port (PLoose), ports without pins included - as long as the value is the abstraction
   of a netlist: the names of named siblings are pairwise different (the namespace manager refuses
   duplicates), every pin on a wire can be followed, property dictionaries have unique keys
   (Python dictionaries).  Generalises accepts_self (Proofs/CmpAccept.v: named netlists). *)
From Coq Require Import String List Arith NArith ZArith Bool Lia.
From SV Require Import Base.Base Cmp.Comparer Proofs.CmpBase Proofs.CmpPinSet Proofs.CmpAccept.
Import ListNotations.

(* ---------- the domain ---------- *)
Fixpoint some_names {A} (name : A -> oname) (l : list A) : list str :=
  match l with
  | [] => []
  | x :: r => match name x with Some n => n :: some_names name r | None => some_names name r end
  end.

(* the named siblings have pairwise different names *)
Definition uniq_ok {A} (name : A -> oname) (l : list A) : bool := nodup_str (some_names name l).

Definition pin_ok (x : ctx) (insts : list inst) (p : pinref) : bool :=
  match resolve x insts p with RBad => false | _ => true end.

Definition props_okb (i : inst) : bool :=
  match i_props i with None => true | Some ps => forallb keys_nodup ps end.

Definition any_def (ln : oname) (d : defn) : bool :=
  uniq_ok p_name (d_ports d) && uniq_ok c_name (d_cables d) && uniq_ok i_name (d_insts d)
  && forallb (fun c => forallb (forallb (pin_ok (d_name d, ln) (d_insts d))) (c_wires c)) (d_cables d)
  && forallb props_okb (d_insts d).

Definition any_lib (l : lib) : bool := uniq_ok d_name (l_defs l) && forallb (any_def (l_name l)) (l_defs l).

Definition wf_anyb (a : nv) : bool :=
  match n_top a with Some i => props_okb i | None => true end
  && uniq_ok l_name (n_libs a) && forallb any_lib (n_libs a).

Definition wf_any (a : nv) : Prop := wf_anyb a = true.

(* ---------- lookups ---------- *)
Lemma some_names_in {A} (name : A -> oname) l x n :
  In x l -> name x = Some n -> In n (some_names name l).
Proof.
  induction l as [|y l IH]; cbn; [tauto|]. intros [->|Hin] Hn.
  - rewrite Hn. left. reflexivity.
  - destruct (name y); [right|]; apply IH; assumption.
Qed.

Lemma find_at_uniq {A} (name : A -> oname) l1 : forall o l2 n,
  uniq_ok name (l1 ++ o :: l2) = true -> name o = Some n ->
  find (has_name name n) (l1 ++ o :: l2) = Some o.
Proof.
  induction l1 as [|z l1 IH]; intros o l2 n Hu Hn; cbn [app find].
  - unfold has_name. rewrite Hn, str_eqb_refl. reflexivity.
  - unfold uniq_ok in Hu. cbn [app some_names] in Hu. unfold has_name at 1.
    destruct (name z) as [m|] eqn:Ez.
    + cbn [nodup_str] in Hu. apply andb_true_iff in Hu as [Hm Hu]. apply negb_true_iff in Hm.
      rewrite str_eqb_neq.
      * apply IH; assumption.
      * intro; subst m. rewrite <- not_true_iff_false in Hm. apply Hm. apply str_in_In.
        apply (some_names_in name _ o); [apply in_or_app; right; left; reflexivity|assumption].
    + apply IH; assumption.
Qed.

Lemma cmp_each_self {A} (name : A -> oname) skip f l :
  uniq_ok name l = true -> (forall x, In x l -> f x x = Accept) ->
  cmp_each name skip (fun n => lookup name n l) f l = Accept.
Proof.
  intros Hu Hf.
  assert (H : forall s pre, l = pre ++ s -> cmp_each name skip (fun n => lookup name n l) f s = Accept).
  { induction s as [|o s IH]; intros pre Hl; [reflexivity|]. cbn [cmp_each].
    assert (Hrest : cmp_each name skip (fun n => lookup name n l) f s = Accept).
    { apply (IH (pre ++ [o])). rewrite <- app_assoc. assumption. }
    destruct (name o) as [n|] eqn:En; [|assumption].
    destruct (skip o); [assumption|].
    assert (Hlk : lookup name n l = Some o).
    { unfold lookup. rewrite Hl. apply find_at_uniq; [rewrite <- Hl; assumption|assumption]. }
    rewrite Hlk, Hrest, Hf; [reflexivity|]. rewrite Hl. apply in_or_app. right. left. reflexivity. }
  apply (H l []). reflexivity.
Qed.

(* ---------- pins, wires, cables ---------- *)
Lemma cmp_pin_self x io p : pin_ok x io p = true -> cmp_pin x x io io p p = Accept.
Proof.
  unfold pin_ok, cmp_pin. destruct (resolve x io p) as [q b|o| |]; intro H; try discriminate H.
  - apply inner_equiv_refl.
  - rewrite inst_equiv_refl. cbn [seq]. apply inner_equiv_refl.
  - reflexivity.
Qed.

Lemma pin_key_some x io p : pin_ok x io p = true -> exists k, pin_key x io p = inr k.
Proof.
  unfold pin_ok, pin_key. destruct (resolve x io p); intro H; try discriminate H; eauto.
Qed.

Lemma zip_pins_self x io w : forallb (pin_ok x io) w = true -> zip_pins x x io io w w = Accept.
Proof.
  induction w as [|p w IH]; cbn; intro H; [reflexivity|].
  apply andb_true_iff in H as [H1 H2]. rewrite cmp_pin_self, IH by assumption. reflexivity.
Qed.

Lemma cmp_wire_self x io w : forallb (pin_ok x io) w = true -> cmp_wire x x io io w w = Accept.
Proof.
  intro H. rewrite cmp_wire_zip.
  - apply zip_pins_self. assumption.
  - rewrite forallb_forall in H. intros c Hc. apply pin_key_some. apply H. assumption.
  - apply Forall2_same. reflexivity.
Qed.

Lemma cmp_wires_self x io ws :
  forallb (forallb (pin_ok x io)) ws = true -> cmp_wires x x io io ws ws = Accept.
Proof.
  induction ws as [|w ws IH]; cbn; intro H; [reflexivity|].
  apply andb_true_iff in H as [H1 H2]. rewrite cmp_wire_self, IH by assumption. reflexivity.
Qed.

Lemma cmp_cable_self x io c :
  forallb (forallb (pin_ok x io)) (c_wires c) = true -> cmp_cable x x io io c c = Accept.
Proof.
  intro H. unfold cmp_cable. rewrite !oname_eqb_refl, Nat.eqb_refl. cbn [check seq].
  apply cmp_wires_self. assumption.
Qed.

(* ---------- instances, definitions, libraries, netlists ---------- *)
Lemma cmp_inst_self i : props_okb i = true -> cmp_inst (Some i) (Some i) = Accept.
Proof.
  intro H. apply cmp_inst_refl. unfold props_ok. unfold props_okb in H.
  destruct (i_props i); [assumption|exact I].
Qed.

Lemma cmp_def_self ln d : any_def ln d = true -> cmp_def ln ln d d = Accept.
Proof.
  unfold any_def. intro H. split_andb.
  rename H into Hp, H3 into Hc, H2 into Hi, H1 into Hw, H0 into Hk.
  rewrite forallb_forall in Hw, Hk.
  unfold cmp_def. cbv zeta. rewrite !oname_eqb_refl, !Nat.eqb_refl. cbn [check seq].
  rewrite (cmp_each_self p_name) by (assumption || (intros; apply cmp_port_refl)). cbn [seq].
  rewrite (cmp_each_self c_name) by (assumption || (intros c Hin; apply cmp_cable_self; apply Hw; assumption)).
  cbn [seq].
  rewrite (cmp_each_self i_name) by (assumption || (intros i Hin; apply cmp_inst_self; apply Hk; assumption)).
  cbn [seq]. apply cmp_assign_refl.
Qed.

Lemma cmp_lib_self l : any_lib l = true -> cmp_lib l l = Accept.
Proof.
  unfold any_lib. intro H. apply andb_true_iff in H as [Hn Hw]. rewrite forallb_forall in Hw.
  unfold cmp_lib. rewrite !oname_eqb_refl, Nat.eqb_refl. cbn [check seq].
  apply cmp_each_self; [assumption|]. intros d Hd. apply cmp_def_self. apply Hw. assumption.
Qed.

Theorem cmp_run_self_any a : wf_any a -> cmp_run a a = Accept.
Proof.
  unfold wf_any, wf_anyb. intro H. split_andb. rename H into Ht, H1 into Hn, H0 into Hw.
  rewrite forallb_forall in Hw.
  unfold cmp_run. rewrite !oname_eqb_refl, Nat.eqb_refl. cbn [check seq].
  replace (match n_top a with Some i => _ | None => _ end) with Accept.
  2:{ destruct (n_top a) as [i|]; [|reflexivity]. symmetry. apply cmp_inst_self. assumption. }
  cbn [seq]. apply cmp_each_self; [assumption|]. intros l Hl. apply cmp_lib_self. apply Hw. assumption.
Qed.

Theorem accepts_self_any a : wf_any a -> compare a a = true.
Proof. intro H. unfold compare. rewrite cmp_run_self_any by assumption. reflexivity. Qed.

(* ---------- the named netlists of accepts_self are a special case ---------- *)
Lemma names_of_some_names {A} (name : A -> oname) l : forall ns,
  names_of name l = Some ns -> some_names name l = ns.
Proof.
  induction l as [|x l IH]; cbn; intros ns H; [inversion H; reflexivity|].
  destruct (name x) as [n|]; [|discriminate H].
  destruct (names_of name l) as [r|]; [|discriminate H]. inversion H. f_equal. apply IH. reflexivity.
Qed.

Lemma named_uniq {A} (name : A -> oname) l : named_ok name l = true -> uniq_ok name l = true.
Proof.
  unfold named_ok, uniq_ok. destruct (names_of name l) as [ns|] eqn:E; [|discriminate].
  rewrite (names_of_some_names name l ns E). tauto.
Qed.

Lemma wf_pin_ok x io p : wf_pin io p = true -> pin_ok x io p = true.
Proof.
  unfold pin_ok. destruct p as [q b|[n|] q b| | | |]; cbn; try discriminate; [reflexivity|].
  destruct (find (has_name i_name n) io) as [i|]; [|discriminate].
  destruct (i_ref i); [reflexivity|discriminate].
Qed.

Lemma forallb_impl {A} (f g : A -> bool) l :
  (forall x, In x l -> f x = true -> g x = true) -> forallb f l = true -> forallb g l = true.
Proof.
  intros H Hf. rewrite forallb_forall in *. intros x Hx. apply H; [assumption|apply Hf; assumption].
Qed.

Lemma wf_def_any ln d : wf_def d = true -> any_def ln d = true.
Proof.
  unfold wf_def, any_def. intro H. split_andb.
  rewrite !named_uniq by assumption. cbn [andb].
  apply andb_true_iff. split.
  - eapply forallb_impl; [|eassumption]. intros c _ Hc. unfold wf_cable in Hc.
    eapply forallb_impl; [|eassumption]. intros w _ Hw.
    eapply forallb_impl; [|eassumption]. intros p _ Hp. apply wf_pin_ok. assumption.
  - eapply forallb_impl; [|eassumption]. intros i _ Hi. unfold wf_inst in Hi.
    apply andb_true_iff in Hi as [Hi _]. exact Hi.
Qed.

Theorem wf_named_any a : wf_named a -> wf_any a.
Proof.
  unfold wf_named, wf_namedb, wf_any, wf_anyb. intro H. split_andb.
  rewrite named_uniq by assumption.
  replace (match n_top a with Some i => props_okb i | None => true end) with true.
  cbn [andb]. eapply forallb_impl; [|eassumption]. intros l _ Hl. unfold wf_lib in Hl. unfold any_lib.
  apply andb_true_iff in Hl as [Hn Hd]. rewrite named_uniq by assumption. cbn [andb].
  eapply forallb_impl; [|eassumption]. intros d _. apply wf_def_any.
Qed.
