(* C09: the walk of flatten over a uniquified design, relative to the state s0 before the call.
   [St s di dc]: s is s0 with the instances in di and the cables in dc moved into the top definition
   (their names and EDIF.identifier rewritten), nothing else touched apart from wiring.
   [W x queue done rem]: loop invariant of flatten's while loop. *)
From Coq Require Import List Arith NArith Bool Lia Permutation.
From SV Require Import Base.Base IR.State IR.NS IR.Ops Xform.Clone Xform.Strs Xform.Xform Hier.Paths
  Proofs.AssocX Proofs.Frame Proofs.Inv1a Proofs.Inv2a Proofs.InvP Proofs.InvW Proofs.Fresh Proofs.NsInv Proofs.RefK Proofs.FieldT
  Proofs.XformInv Proofs.CloneFull Proofs.XHistory Proofs.FlatLeaf Proofs.FlatEff Proofs.FlatPaths.
Import ListNotations.

Lemma opt_id_eqb_some a b : opt_id_eqb a (Some b) = true <-> a = Some b.
Proof.
  destruct a as [x|]; cbn; [|split; discriminate]. rewrite Nat.eqb_eq. split; [intros ->; reflexivity|intro H; injection H as ->; reflexivity].
Qed.

Lemma is_leaf_def_true s d :
  is_leaf_def s d = true <-> (forall c, ~ In c (kids s RChildren d)) /\ (forall c, ~ In c (kids s RCables d)).
Proof.
  unfold is_leaf_def. destruct (kids s RChildren d) as [|a l]; [destruct (kids s RCables d) as [|b l]|].
  - split; [intros _; split; intros c []|reflexivity].
  - split; [discriminate|]. intros [_ H]. exfalso. apply (H b). left. reflexivity.
  - split; [discriminate|]. intros [H _]. exfalso. apply (H a). left. reflexivity.
Qed.

Lemma is_leaf_def_same s s' d :
  (forall c, In c (kids s' RChildren d) <-> In c (kids s RChildren d)) ->
  (forall c, In c (kids s' RCables d) <-> In c (kids s RCables d)) -> is_leaf_def s' d = is_leaf_def s d.
Proof.
  intros A B. destruct (is_leaf_def s d) eqn:E.
  - apply is_leaf_def_true in E as [E1 E2]. apply is_leaf_def_true. split; intros c H; [apply (E1 c), A, H|apply (E2 c), B, H].
  - destruct (is_leaf_def s' d) eqn:E'; [|reflexivity]. apply is_leaf_def_true in E' as [E1 E2].
    assert (is_leaf_def s d = true) by (apply is_leaf_def_true; split; intros c H; [apply (E1 c), A, H|apply (E2 c), B, H]). congruence.
Qed.

Lemma map_fst_pair {B} (v : B) (l : list id) : map fst (map (fun c => (c, v)) l) = l.
Proof. rewrite map_map. cbn [fst]. apply map_id. Qed.

Section Walk.
  Variables (s0 : state) (t topd : id).
  Hypothesis U0 : UF s0.
  Hypothesis Hu : Uniquified s0 t.
  Hypothesis Ht : iref s0 t = Some topd.

  Let I1 : Inv1a s0 := inv_a _ (proj1 U0).
  Let I2 : Inv2a s0 := inv_r _ (proj1 U0).
  Let IT : InvT s0 := proj1 (proj2 U0).

  (* the instance references a definition that has child instances or cables *)
  Definition hierb (c : id) : bool := match iref s0 c with Some d => negb (is_leaf_def s0 d) | None => false end.
  (* cb is a cable of the (non-leaf) definition instantiated by y *)
  Definition cab_of (y cb : id) : bool :=
    match iref s0 y with Some d => negb (is_leaf_def s0 d) && opt_id_eqb (par s0 RCables cb) (Some d) | None => false end.
  Definition mcb (done : list id) (cb : id) : bool := existsb (fun y => cab_of y cb) done.

  Record St (s : state) (di dc : id -> bool) : Prop := mkSt {
    st_iref : iref s = iref s0;
    st_kind : kind_of s = kind_of s0;
    st_drefs : drefs s = drefs s0;
    st_next : next s = next s0;
    st_top : top s = top s0;
    st_pari : forall c, par s RChildren c = if di c then Some topd else par s0 RChildren c;
    st_parc : forall c, par s RCables c = if dc c then Some topd else par s0 RCables c;
    st_paro : forall r y, r <> RChildren -> r <> RCables -> par s r y = par s0 r y /\ kids s r y = kids s0 r y;
    st_data : forall y, di y = false -> dc y = false -> data s y = data s0 y;
    st_keys : forall y k, k <> str_NAME -> k <> str_IDENT -> k <> str_NS -> sassoc k (data s y) = sassoc k (data s0 y)
  }.

  Lemma St_init : St s0 (fun _ => false) (fun _ => false).
  Proof. constructor; try reflexivity. intros; split; reflexivity. Qed.

  Lemma St_ext s di dc di' dc' : (forall y, di' y = di y) -> (forall y, dc' y = dc y) -> St s di dc -> St s di' dc'.
  Proof.
    intros A B [a b c d e f g h i j]. constructor; try assumption.
    - intro y. rewrite A. apply f.
    - intro y. rewrite B. apply g.
    - intros y H1 H2. apply i; [rewrite <- A|rewrite <- B]; assumption.
  Qed.

  Lemma St_wkeep s s' di dc : wkeep s s' -> St s di dc -> St s' di dc.
  Proof.
    intros [k1 k2 k3 k4 k5 k6 k7 k8] [a b c d e f g h i j]. constructor; try congruence.
    - intro y. rewrite k2. apply f.
    - intro y. rewrite k2. apply g.
    - intros r y H1 H2. rewrite k1, k2. apply h; assumption.
    - intros y H1 H2. rewrite k8. apply i; assumption.
    - intros y k H1 H2 H3. rewrite k8. apply j; assumption.
  Qed.

  Lemma St_bring_inst x e a p x' di dc :
    St (st x) di dc -> brought x e a topd p x' -> mrel (st x) e = RChildren ->
    St (st x') (fun y => Nat.eqb y e || di y) dc.
  Proof.
    intros [a1 b c d e1 f g h i j] B Hr. destruct (br_keep _ _ _ _ _ _ B) as [k1 k2 k3 k4 k5 k6 k7 k8].
    pose proof (br_par _ _ _ _ _ _ B) as Hp. pose proof (br_kids _ _ _ _ _ _ B) as Hk. rewrite Hr in Hp, Hk.
    constructor; try congruence.
    - intro y. rewrite Hp. cbn [rel_eqb andb]. destruct (Nat.eqb y e); [reflexivity|apply f].
    - intro y. rewrite Hp. cbn [rel_eqb andb]. apply g.
    - intros r y H1 H2. rewrite Hp, Hk. destruct r; try contradiction; cbn [rel_eqb andb]; apply h; assumption.
    - intros y H1 H2. apply orb_false_iff in H1 as [H1 H1']. apply Nat.eqb_neq in H1.
      rewrite (br_data_other _ _ _ _ _ _ B y H1). apply i; assumption.
    - intros y k H1 H2 H3. destruct (Nat.eq_dec y e) as [->|Hne].
      + rewrite (br_data _ _ _ _ _ _ B k H1 H2 H3). apply j; assumption.
      + rewrite (br_data_other _ _ _ _ _ _ B y Hne). apply j; assumption.
  Qed.

  Lemma St_bring_cable x e a p x' di dc :
    St (st x) di dc -> brought x e a topd p x' -> mrel (st x) e = RCables ->
    St (st x') di (fun y => Nat.eqb y e || dc y).
  Proof.
    intros [a1 b c d e1 f g h i j] B Hr. destruct (br_keep _ _ _ _ _ _ B) as [k1 k2 k3 k4 k5 k6 k7 k8].
    pose proof (br_par _ _ _ _ _ _ B) as Hp. pose proof (br_kids _ _ _ _ _ _ B) as Hk. rewrite Hr in Hp, Hk.
    constructor; try congruence.
    - intro y. rewrite Hp. cbn [rel_eqb andb]. apply f.
    - intro y. rewrite Hp. cbn [rel_eqb andb]. destruct (Nat.eqb y e); [reflexivity|apply g].
    - intros r y H1 H2. rewrite Hp, Hk. destruct r; try contradiction; cbn [rel_eqb andb]; apply h; assumption.
    - intros y H1 H2. apply orb_false_iff in H2 as [H2 H2']. apply Nat.eqb_neq in H2.
      rewrite (br_data_other _ _ _ _ _ _ B y H2). apply i; assumption.
    - intros y k H1 H2 H3. destruct (Nat.eq_dec y e) as [->|Hne].
      + rewrite (br_data _ _ _ _ _ _ B k H1 H2 H3). apply j; assumption.
      + rewrite (br_data_other _ _ _ _ _ _ B y Hne). apply j; assumption.
  Qed.

  (* ---- facts about s0 ---- *)
  Lemma child_kind c y : child s0 c y -> kind_of s0 c = Some KInstance.
  Proof. intro H. unfold child, sub in H. destruct (iref s0 y) as [d|]; [|destruct H]. apply (proj1 (IT RChildren d c H)). Qed.

  Lemma cable_kind cb d : par s0 RCables cb = Some d -> kind_of s0 cb = Some KCable.
  Proof. intro H. apply (i1_kids _ I1) in H. apply (proj1 (IT RCables d cb H)). Qed.

  Lemma below_kind c : Below s0 t c -> kind_of s0 c = Some KInstance.
  Proof.
    intros [y [p H]]. destruct (rpath_inv _ _ _ _ H) as [[E _]|[x [p' [E [_ Hc]]]]]; [discriminate E|]. apply (child_kind _ _ Hc).
  Qed.

  Lemma below_ne_t c : Below s0 t c -> c <> t.
  Proof. intros H ->. apply (proj2 Hu). exact H. Qed.

  Lemma below_not_topd c : Below s0 t c -> iref s0 c <> Some topd.
  Proof.
    intros [y [p H]] Hr. destruct (rpath_top_child _ _ _ _ _ H) as [c' Hc'].
    assert (Hl : is_leaf_def s0 topd = false).
    { unfold child, sub in Hc'. rewrite Ht in Hc'. apply (has_child_nonleaf _ _ _ Hc'). }
    pose proof (uniq_refs s0 t c y p topd t I2 Hu H Hr Hl Ht) as E. subst c.
    apply (proj2 Hu). exists y, p. exact H.
  Qed.

  Lemma mcb_spec done cb :
    mcb done cb = true <-> exists y d, In y done /\ iref s0 y = Some d /\ is_leaf_def s0 d = false /\ par s0 RCables cb = Some d.
  Proof.
    unfold mcb. rewrite existsb_exists. split.
    - intros [y [Hy H]]. unfold cab_of in H. destruct (iref s0 y) as [d|] eqn:Hr; [|discriminate H].
      apply andb_true_iff in H as [H1 H2]. apply negb_true_iff in H1. apply opt_id_eqb_some in H2. exists y, d. repeat split; assumption.
    - intros [y [d [Hy [Hr [Hl Hp]]]]]. exists y. split; [exact Hy|]. unfold cab_of. rewrite Hr, Hl. cbn. apply opt_id_eqb_some. exact Hp.
  Qed.

  Lemma mcb_cable done cb : mcb done cb = true -> kind_of s0 cb = Some KCable.
  Proof. intro H. apply mcb_spec in H as [y [d [_ [_ [_ Hp]]]]]. apply (cable_kind _ _ Hp). Qed.

  Lemma mcb_inst_false done c : kind_of s0 c = Some KInstance -> mcb done c = false.
  Proof. intro Hk. destruct (mcb done c) eqn:E; [|reflexivity]. apply mcb_cable in E. congruence. Qed.

  (* ---- the loop invariant ---- *)
  Definition Adm (done : list id) (y : id) : Prop := y = t \/ (In y done /\ hierb y = true).
  Definition Parent (done : list id) (c : id) : Prop := exists y p, is_rpath s0 t (c :: y :: p) /\ Adm done y.

  Lemma adm_mono done e y : Adm done y -> Adm (e :: done) y.
  Proof. intros [H|[H1 H2]]; [left; exact H|right; split; [right; exact H1|exact H2]]. Qed.
  Lemma parent_mono done e c : Parent done c -> Parent (e :: done) c.
  Proof. intros [y [p [H1 H2]]]. exists y, p. split; [exact H1|apply adm_mono; exact H2]. Qed.
  Lemma parent_below done c : Parent done c -> Below s0 t c.
  Proof. intros [y [p [H _]]]. exists y, p. exact H. Qed.

  (* following the code, along a path (leaf first, top instance last):
     [pname p] is the value handed down as add_to_name to the elements below the head of p - None below
     the top instance (no enclosing instance), otherwise the flat name of the head with a missing name
     counted as the empty string (_name_in_path);
     [fname p] is the flat name of the head of p: its own name (or none) for a child of the top
     definition, otherwise prefix + "/" + own name *)
  Fixpoint pname (p : list id) : option str :=
    match p with
    | [] => None
    | c :: p' =>
        match p' with
        | [] => None
        | _ :: _ => Some (oe (joino (pname p') (get_str s0 c str_NAME)))
        end
    end.
  Definition fname (p : list id) : option str :=
    match p with [] => None | c :: p' => joino (pname p') (get_str s0 c str_NAME) end.

  Lemma pname_cons2 c y p : pname (c :: y :: p) = Some (oe (fname (c :: y :: p))).
  Proof. reflexivity. Qed.

  Record W (x : xstate) (queue : list (id * option str)) (done rem : list id) : Prop := mkW {
    w_uf : UF (st x);
    w_st : St (st x) (fun y => memb y done) (mcb done);
    w_q : forall c, In c (map fst queue) -> Parent done c;
    w_done : forall c, In c done -> Parent done c /\ iref s0 c <> None;
    w_closed : forall y c, Adm done y -> child s0 c y -> In c done \/ In c (map fst queue);
    w_nodup : NoDup (map fst queue ++ done);
    w_rem : forall y, In y rem <-> In y done /\ hierb y = true;
    w_qn : forall c pn p, In (c, pn) queue -> is_rpath s0 t (c :: p) -> pn = pname p;
    w_dn : forall c p, In c done -> is_rpath s0 t (c :: p) -> get_str (st x) c str_NAME = fname (c :: p);
    w_cn : forall y p d cb, In y done -> is_rpath s0 t (y :: p) -> iref s0 y = Some d -> is_leaf_def s0 d = false ->
             par s0 RCables cb = Some d ->
             get_str (st x) cb str_NAME = joino (pname (y :: p)) (get_str s0 cb str_NAME)
  }.

  (* children of a queued instance are neither processed nor queued *)
  Lemma fresh_children done inst c :
    Below s0 t inst -> ~ In inst done -> child s0 c inst -> Parent done c -> False.
  Proof.
    intros [y [q Hq]] Hnd Hc [y' [p' [Hp' Ha]]].
    assert (Hp : is_rpath s0 t (c :: inst :: y :: q)) by (apply rp_child; assumption).
    destruct (rpath_parent_unique s0 t _ _ _ _ _ I1 I2 Hu Hp Hp') as [<- _].
    destruct Ha as [->|[Hin _]]; [apply (proj2 Hu); exists y, q; exact Hq|contradiction].
  Qed.

  (* what the definition of a queued instance still holds *)
  Lemma def_contents x queue done rem inst pn d s1 :
    W x ((inst, pn) :: queue) done rem -> iref s0 inst = Some d ->
    UF s1 -> St s1 (fun y => Nat.eqb y inst || memb y done) (mcb done) ->
    (forall c, In c (kids s1 RChildren d) <-> child s0 c inst) /\
    (forall cb, In cb (kids s1 RCables d) <-> par s0 RCables cb = Some d) /\
    is_leaf_def s1 d = is_leaf_def s0 d /\ d <> topd.
  Proof.
    intros Wx Hr U1 S1.
    assert (Hq : Parent done inst) by (apply (w_q _ _ _ _ Wx); left; reflexivity).
    pose proof (parent_below _ _ Hq) as Hb.
    assert (Hnd : ~ In inst done).
    { intro H. pose proof (w_nodup _ _ _ _ Wx) as N. cbn in N. apply NoDup_cons_iff in N as [N _]. apply N, in_or_app. right. exact H. }
    assert (Hdt : d <> topd) by (intros ->; apply (below_not_topd _ Hb Hr)).
    pose proof (inv_a _ (proj1 U1)) as J1.
    assert (A : forall c, In c (kids s1 RChildren d) <-> child s0 c inst).
    { intro c. rewrite (i1_kids _ J1), (st_pari _ _ _ S1). split.
      - destruct (Nat.eqb c inst || memb c done); [intro H; injection H as H; congruence|]. intro H. apply (par_child _ _ _ _ I1 Hr H).
      - intro Hc. destruct (child_par _ _ _ I1 Hc) as [d' [Hr' Hp']]. assert (d' = d) by congruence. subst d'.
        destruct (Nat.eqb c inst || memb c done) eqn:E; [|exact Hp']. exfalso. apply orb_true_iff in E as [E|E].
        + apply Nat.eqb_eq in E. subst c. destruct Hb as [y [q Hy]].
          apply (rpath_head_fresh s0 t inst (inst :: y :: q) I1 I2 Hu); [apply rp_child; assumption|left; reflexivity].
        + apply memb_In in E. apply (fresh_children done inst c Hb Hnd Hc). apply (w_done _ _ _ _ Wx c E). }
    assert (B : forall cb, In cb (kids s1 RCables d) <-> par s0 RCables cb = Some d).
    { intro cb. rewrite (i1_kids _ J1), (st_parc _ _ _ S1). split.
      - destruct (mcb done cb); [intro H; injection H as H; congruence|]. auto.
      - intro Hp. destruct (mcb done cb) eqn:E; [|exact Hp]. exfalso.
        apply mcb_spec in E as [y [d' [Hy [Hry [Hl Hp']]]]]. assert (d' = d) by congruence. subst d'.
        destruct Hb as [y0 [q Hy0]]. pose proof (uniq_refs s0 t inst y0 q d y I2 Hu Hy0 Hr Hl Hry) as E. subst y. contradiction. }
    split; [exact A|]. split; [exact B|]. split; [|exact Hdt].
    apply is_leaf_def_same.
    - intro c. rewrite A. unfold child, sub. rewrite Hr. reflexivity.
    - intro cb. rewrite B. symmetry. apply (i1_kids _ I1).
  Qed.

  (* ---- one instance comes up ---- *)
  Lemma W_bring x rest done rem inst pn x1 :
    W x ((inst, pn) :: rest) done rem -> bring_to_top x inst pn topd = (x1, None) ->
    UF (st x1) /\ St (st x1) (fun y => Nat.eqb y inst || memb y done) (mcb done) /\
      Below s0 t inst /\ ~ In inst done /\ kind_of s0 inst = Some KInstance /\
      (forall p, is_rpath s0 t (inst :: p) -> get_str (st x1) inst str_NAME = fname (inst :: p)) /\
      (forall y, y <> inst -> data (st x1) y = data (st x) y) /\
      uniq_ctr x1 = uniq_ctr x /\ keep (st x) (st x1).
  Proof.
    intros Wx E. destruct (bring_to_top_eff _ _ _ _ _ E) as [p B].
    pose proof (w_uf _ _ _ _ Wx) as U. pose proof (w_st _ _ _ _ Wx) as S.
    assert (U1 : UF (st x1)).
    { pose proof (xpU x inst pn topd U) as H. rewrite E in H. apply H. unfold not_stuck. cbn. discriminate. }
    assert (Hq : Parent done inst) by (apply (w_q _ _ _ _ Wx); left; reflexivity).
    pose proof (parent_below _ _ Hq) as Hb. pose proof (below_kind _ Hb) as Hk.
    assert (Hnd : ~ In inst done).
    { intro H. pose proof (w_nodup _ _ _ _ Wx) as N. cbn in N. apply NoDup_cons_iff in N as [N _]. apply N, in_or_app. right. exact H. }
    assert (Hrel : mrel (st x) inst = RChildren).
    { unfold mrel, is_cable, is_kind. rewrite (st_kind _ _ _ S), Hk. reflexivity. }
    split; [exact U1|]. split; [apply (St_bring_inst x inst pn p x1 _ _ S B Hrel)|].
    split; [exact Hb|]. split; [exact Hnd|]. split; [exact Hk|].
    assert (Hd0 : data (st x) inst = data s0 inst).
    { apply (st_data _ _ _ S); [apply memb_false; exact Hnd|apply mcb_inst_false; exact Hk]. }
    split; [|split; [apply (br_data_other _ _ _ _ _ _ B)|split; [apply (br_uniq _ _ _ _ _ _ B)|apply (br_keep _ _ _ _ _ _ B)]]].
    intros q Hq'. rewrite (br_name _ _ _ _ _ _ B).
    unfold get_str at 1. rewrite Hd0. fold (get_str s0 inst str_NAME).
    rewrite (w_qn _ _ _ _ Wx inst pn q (or_introl eq_refl) Hq'). reflexivity.
  Qed.

  (* ---- rebuilding the invariant after one round ---- *)
  Lemma W_next x rest done rem inst pn x1 x3 d newq rem' :
    W x ((inst, pn) :: rest) done rem -> iref s0 inst = Some d ->
    Below s0 t inst -> ~ In inst done -> kind_of s0 inst = Some KInstance ->
    (forall p, is_rpath s0 t (inst :: p) -> get_str (st x1) inst str_NAME = fname (inst :: p)) ->
    (forall y, y <> inst -> data (st x1) y = data (st x) y) ->
    UF (st x3) -> St (st x3) (fun y => memb y (inst :: done)) (mcb (inst :: done)) ->
    (forall y, cab_of inst y = false -> data (st x3) y = data (st x1) y) ->
    (forall cb p, cab_of inst cb = true -> is_rpath s0 t (inst :: p) ->
       get_str (st x3) cb str_NAME = joino (pname (inst :: p)) (get_str s0 cb str_NAME)) ->
    (forall c, In c (map fst newq) <-> hierb inst = true /\ child s0 c inst) -> NoDup (map fst newq) ->
    (forall c pn', In (c, pn') newq -> pn' = Some (name_in_path (st x1) inst)) ->
    (forall y, In y rem' <-> In y rem \/ (y = inst /\ hierb inst = true)) ->
    W x3 (rest ++ newq) (inst :: done) rem'.
  Proof.
    intros Wx Hr Hb Hnd Hk Hname Hd1 U3 S3 Hd3 Hcab Hnq Hnqd Hnqn Hrem.
    assert (Hq : Parent done inst) by (apply (w_q _ _ _ _ Wx); left; reflexivity).
    assert (Hcabi : forall c, kind_of s0 c = Some KInstance -> cab_of inst c = false).
    { intros c Hc. unfold cab_of. rewrite Hr. destruct (opt_id_eqb (par s0 RCables c) (Some d)) eqn:E; [|apply andb_false_r].
      apply opt_id_eqb_some in E. apply cable_kind in E. congruence. }
    constructor.
    - exact U3.
    - exact S3.
    - intros c Hc. rewrite map_app in Hc. apply in_app_or in Hc as [Hc|Hc].
      + apply parent_mono. apply (w_q _ _ _ _ Wx). right. exact Hc.
      + apply Hnq in Hc as [Hh Hc]. destruct Hb as [y [q Hy]]. exists inst, (y :: q). split; [apply rp_child; assumption|].
        right. split; [left; reflexivity|exact Hh].
    - intros c [<-|Hc].
      + split; [apply parent_mono; exact Hq|congruence].
      + destruct (w_done _ _ _ _ Wx c Hc) as [A B]. split; [apply parent_mono; exact A|exact B].
    - intros y c Ha Hc.
      assert (Hold : Adm done y -> In c (inst :: done) \/ In c (map fst (rest ++ newq))).
      { intro Ha'. destruct (w_closed _ _ _ _ Wx y c Ha' Hc) as [H|[H|H]].
        - left. right. exact H.
        - left. left. exact H.
        - right. rewrite map_app. apply in_or_app. left. exact H. }
      destruct Ha as [->|[[<-|Hy] Hh]]; [apply Hold; left; reflexivity| |apply Hold; right; split; assumption].
      right. rewrite map_app. apply in_or_app. right. apply Hnq. split; assumption.
    - pose proof (w_nodup _ _ _ _ Wx) as N. cbn [map fst app] in N.
      assert (N2 : NoDup (map fst newq ++ inst :: map fst rest ++ done)).
      { apply NoDup_app_intro; [exact Hnqd|exact N|]. intros c Hc Hin. apply Hnq in Hc as [_ Hc].
        destruct Hin as [<-|Hin].
        - destruct Hb as [y [q Hy]].
          apply (rpath_head_fresh s0 t inst (inst :: y :: q) I1 I2 Hu); [apply rp_child; assumption|left; reflexivity].
        - apply (fresh_children done inst c Hb Hnd Hc). apply in_app_or in Hin as [Hin|Hin].
          + apply (w_q _ _ _ _ Wx). right. exact Hin.
          + apply (w_done _ _ _ _ Wx c Hin). }
      rewrite map_app, <- app_assoc. eapply Permutation_NoDup; [|exact N2].
      eapply perm_trans; [apply Permutation_app_head; apply Permutation_middle|]. apply Permutation_app_swap_app.
    - intro y. rewrite Hrem, (w_rem _ _ _ _ Wx). split.
      + intros [[H1 H2]|[-> H]]; [split; [right; exact H1|exact H2]|split; [left; reflexivity|exact H]].
      + intros [[<-|H1] H2]; [right; split; [reflexivity|exact H2]|left; split; assumption].
    - intros c pn' p Hin Hp. apply in_app_or in Hin as [Hin|Hin].
      + apply (w_qn _ _ _ _ Wx c pn' p); [right; exact Hin|exact Hp].
      + rewrite (Hnqn _ _ Hin). assert (Hc : In c (map fst newq)) by (apply in_map_iff; exists (c, pn'); split; [reflexivity|exact Hin]).
        apply Hnq in Hc as [_ Hc]. destruct Hb as [y [q Hy]].
        pose proof (rpath_unique s0 t I1 I2 Hu _ _ _ Hp (rp_child _ _ _ _ _ Hy Hc)) as ->.
        rewrite pname_cons2, <- (Hname _ Hy). reflexivity.
    - intros c p [<-|Hc] Hp.
      + unfold get_str. rewrite (Hd3 inst (Hcabi _ Hk)). apply (Hname p Hp).
      + assert (Hkc : kind_of s0 c = Some KInstance) by (apply below_kind, (parent_below done), (w_done _ _ _ _ Wx c Hc)).
        assert (Hne : c <> inst) by (intros ->; contradiction).
        unfold get_str. rewrite (Hd3 c (Hcabi _ Hkc)), (Hd1 c Hne). apply (w_dn _ _ _ _ Wx c p Hc Hp).
    - intros y p dy cb [<-|Hy] Hp Hry Hl Hpc.
      + apply (Hcab cb p); [|exact Hp]. unfold cab_of. rewrite Hry, Hl. cbn. apply opt_id_eqb_some. exact Hpc.
      + pose proof (w_cn _ _ _ _ Wx y p dy cb Hy Hp Hry Hl Hpc) as Ha2.
        assert (Hne : cb <> inst) by (intros ->; apply cable_kind in Hpc; congruence).
        assert (Hco : cab_of inst cb = false).
        { unfold cab_of. rewrite Hr. destruct (is_leaf_def s0 d) eqn:Hld; [reflexivity|]. cbn.
          destruct (opt_id_eqb (par s0 RCables cb) (Some d)) eqn:E; [|reflexivity]. exfalso.
          apply opt_id_eqb_some in E. assert (dy = d) by congruence. subst dy. destruct Hb as [y0 [q Hy0]].
          pose proof (uniq_refs s0 t inst y0 q d y I2 Hu Hy0 Hr Hld Hry) as E2. subst y. contradiction. }
        unfold get_str. rewrite (Hd3 cb Hco), (Hd1 cb Hne). exact Ha2.
  Qed.

  (* ---- the cables of one definition come up ---- *)
  Lemma bring_cables_fold iname : forall l x x2 di dc,
    UF (st x) -> St (st x) di dc -> NoDup l -> (forall cb, In cb l -> kind_of s0 cb = Some KCable) ->
    xfold (fun x c => bring_to_top x c iname topd) l x = (x2, None) ->
    UF (st x2) /\ St (st x2) di (fun y => memb y l || dc y) /\
    (forall y, ~ In y l -> data (st x2) y = data (st x) y) /\
    (forall cb, In cb l -> get_str (st x2) cb str_NAME = joino iname (get_str (st x) cb str_NAME)) /\
    uniq_ctr x2 = uniq_ctr x.
  Proof.
    induction l as [|c l IH]; intros x x2 di dc U S N Hk E; cbn [xfold] in E.
    - injection E as <-. split; [exact U|]. split; [exact S|]. split; [reflexivity|]. split; [intros cb []|reflexivity].
    - destruct (bring_to_top x c iname topd) as [xa [er|]] eqn:Eb; [discriminate E|].
      destruct (bring_to_top_eff _ _ _ _ _ Eb) as [p B].
      assert (Ua : UF (st xa)).
      { pose proof (xpU x c iname topd U) as H. rewrite Eb in H. apply H. unfold not_stuck. cbn. discriminate. }
      assert (Hrel : mrel (st x) c = RCables).
      { unfold mrel, is_cable, is_kind. rewrite (st_kind _ _ _ S), (Hk c (or_introl eq_refl)). reflexivity. }
      pose proof (St_bring_cable x c iname p xa _ _ S B Hrel) as Sa.
      apply NoDup_cons_iff in N as [Nc N].
      destruct (IH xa x2 _ _ Ua Sa N (fun cb H => Hk cb (or_intror H)) E) as [U2 [S2 [D2 [N2 C2]]]].
      split; [exact U2|]. split.
      { apply (St_ext _ _ _ _ _ (fun _ => eq_refl) (fun y => eq_refl (memb y l || (Nat.eqb y c || dc y))) ) in S2.
        eapply St_ext; [intro; reflexivity| |exact S2]. intro y. cbn [memb]. destruct (Nat.eqb y c), (memb y l); reflexivity. }
      split.
      { intros y Hy. rewrite D2 by (intro H; apply Hy; right; exact H). apply (br_data_other _ _ _ _ _ _ B). intros ->. apply Hy. left. reflexivity. }
      split; [|rewrite C2; apply (br_uniq _ _ _ _ _ _ B)].
      intros cb [<-|Hcb].
      + unfold get_str at 1. rewrite (D2 c Nc). apply (br_name _ _ _ _ _ _ B).
      + rewrite (N2 cb Hcb).
        unfold get_str. rewrite (br_data_other _ _ _ _ _ _ B cb); [reflexivity|]. intros ->. contradiction.
  Qed.

  Lemma bool_iff_eq (a b : bool) : (a = true <-> b = true) -> a = b.
  Proof. destruct a, b; intros [H1 H2]; try reflexivity; [symmetry; apply H1; reflexivity|apply H2; reflexivity]. Qed.

  (* ---- one round of the while loop ---- *)
  Lemma W_step_leaf x rest done rem inst pn x1 d :
    W x ((inst, pn) :: rest) done rem -> bring_to_top x inst pn topd = (x1, None) ->
    iref (st x1) inst = Some d -> is_leaf_def (st x1) d = true ->
    W x1 rest (inst :: done) rem /\ hierb inst = false /\ keep (st x) (st x1) /\ uniq_ctr x1 = uniq_ctr x.
  Proof.
    intros Wx Eb Hr1 Hl1.
    destruct (W_bring _ _ _ _ _ _ _ Wx Eb) as [U1 [S1 [Hb [Hnd [Hk [Hname [Hd1 [Hc1 K1]]]]]]]].
    assert (Hr : iref s0 inst = Some d) by (rewrite <- (st_iref _ _ _ S1); exact Hr1).
    destruct (def_contents _ _ _ _ _ _ _ _ Wx Hr U1 S1) as [A [B [Hleaf Hdt]]].
    assert (Hl0 : is_leaf_def s0 d = true) by congruence.
    assert (Hh : hierb inst = false) by (unfold hierb; rewrite Hr, Hl0; reflexivity).
    assert (Hco : forall y, cab_of inst y = false) by (intro y; unfold cab_of; rewrite Hr, Hl0; reflexivity).
    assert (Wn : W x1 (rest ++ []) (inst :: done) rem).
    { apply (W_next x rest done rem inst pn x1 x1 d [] rem Wx Hr Hb Hnd Hk Hname Hd1 U1).
      - eapply St_ext; [| |exact S1]; [intro y; reflexivity|]. intro y. cbn [mcb existsb]. rewrite (Hco y). reflexivity.
      - reflexivity.
      - intros cb p H. rewrite Hco in H. discriminate H.
      - intro c. cbn. rewrite Hh. split; [intros []|intros [H _]; discriminate H].
      - constructor.
      - intros c pn' [].
      - intro y. rewrite Hh. split; [intro H; left; exact H|intros [H|[_ H]]; [exact H|discriminate H]]. }
    rewrite app_nil_r in Wn. split; [exact Wn|]. split; [exact Hh|]. split; [exact K1|exact Hc1].
  Qed.

  Lemma W_step_hier x rest done rem inst pn x1 d x2 x3 :
    W x ((inst, pn) :: rest) done rem -> bring_to_top x inst pn topd = (x1, None) ->
    iref (st x1) inst = Some d -> is_leaf_def (st x1) d = false ->
    xfold (fun x c => bring_to_top x c (Some (name_in_path (st x1) inst)) topd) (kids (st x1) RCables d) x1 = (x2, None) ->
    xfold (fun x p => xfold (fun x i => redo_pin x inst i) (kids (st x) RPins p) x) (kids (st x2) RPorts d) x2 = (x3, None) ->
    W x3 (rest ++ map (fun c => (c, Some (name_in_path (st x1) inst))) (kids (st x1) RChildren d)) (inst :: done) (rem ++ [inst]) /\
    Below s0 t inst /\ ~ In inst done /\ iref s0 inst = Some d /\ is_leaf_def s0 d = false /\
    keep (st x) (st x1) /\ UF (st x2) /\ (exists di dc, St (st x2) di dc) /\ uniq_ctr x3 = uniq_ctr x.
  Proof.
    intros Wx Eb Hr1 Hl1 Ec Er.
    destruct (W_bring _ _ _ _ _ _ _ Wx Eb) as [U1 [S1 [Hb [Hnd [Hk [Hname [Hd1 [Hc1 K1]]]]]]]].
    assert (Hr : iref s0 inst = Some d) by (rewrite <- (st_iref _ _ _ S1); exact Hr1).
    destruct (def_contents _ _ _ _ _ _ _ _ Wx Hr U1 S1) as [A [B [Hleaf Hdt]]].
    pose proof (inv_a _ (proj1 U1)) as J1.
    assert (Hl0 : is_leaf_def s0 d = false) by congruence.
    assert (Hh : hierb inst = true) by (unfold hierb; rewrite Hr, Hl0; reflexivity).
    set (iname := Some (name_in_path (st x1) inst)) in *.
    set (l := kids (st x1) RCables d) in *.
    assert (Hcoiff : forall y, memb y l = cab_of inst y).
    { intro y. apply bool_iff_eq. rewrite memb_In. rewrite B. unfold cab_of. rewrite Hr, Hl0. cbn. symmetry. apply opt_id_eqb_some. }
    destruct (bring_cables_fold iname l x1 x2 _ _ U1 S1 (i1_nodup _ J1 RCables d)
                (fun cb H => cable_kind cb d (proj1 (B cb) H)) Ec) as [U2 [S2 [D2 [N2 Hc2]]]].
    pose proof (wkeep_redo_ports inst (kids (st x2) RPorts d) x2) as K3. cbn zeta in K3.
    pose proof (xp_xfold UF (fun x p => xfold (fun x i => redo_pin x inst i) (kids (st x) RPins p) x)
                  (kids (st x2) RPorts d)
                  (fun x0 p H0 => xp_xfold UF (fun x i => redo_pin x inst i) (kids (st x0) RPins p)
                                     (fun xa i Ha => xp_redo_pin UF (fun s o Hs _ => uf_step s o Hs) xa inst i Ha) x0 H0) x2 U2) as U3.
    rewrite Er in K3, U3. cbn [fst] in K3.
    destruct K3 as [K3 [Hc3 _]].
    assert (UF3 : UF (st x3)) by (apply U3; unfold not_stuck; cbn; discriminate).
    split; [|split; [exact Hb|split; [exact Hnd|split; [exact Hr|split; [exact Hl0|split; [exact K1|split; [exact U2|split; [eexists _, _; exact S2|congruence]]]]]]]].
    apply (W_next x rest done rem inst pn x1 x3 d _ _ Wx Hr Hb Hnd Hk Hname Hd1 UF3).
    - apply (St_wkeep _ _ _ _ K3). eapply St_ext; [| |exact S2]; [intro y; reflexivity|].
      intro y. cbn [mcb existsb]. rewrite (Hcoiff y). reflexivity.
    - intros y Hy. rewrite (wk_data _ _ K3). apply D2. intro H. apply memb_In in H. rewrite Hcoiff in H. congruence.
    - intros cb p Hcb Hp. rewrite <- Hcoiff in Hcb. apply memb_In in Hcb. pose proof (N2 cb Hcb) as Hn.
      assert (Epn : iname = pname (inst :: p)).
      { destruct p as [|y q]; [exfalso; destruct (rpath_inv _ _ _ _ Hp) as [[_ ->]|[? [? [E0 _]]]]; [apply (below_ne_t _ Hb); reflexivity|discriminate E0]|].
        rewrite pname_cons2, <- (Hname _ Hp). reflexivity. }
      rewrite <- Epn.
      unfold get_str at 1. rewrite (wk_data _ _ K3). fold (get_str (st x2) cb str_NAME). rewrite Hn.
      assert (Hpc : par s0 RCables cb = Some d) by (apply B; exact Hcb).
      assert (Hne : cb <> inst) by (intros ->; apply cable_kind in Hpc; congruence).
      unfold get_str. rewrite (Hd1 cb Hne). rewrite (st_data _ _ _ (w_st _ _ _ _ Wx) cb); [reflexivity| |].
      + apply memb_false. intro Hin. pose proof (below_kind _ (parent_below _ _ (proj1 (w_done _ _ _ _ Wx cb Hin)))) as Hki.
        apply cable_kind in Hpc. congruence.
      + destruct (mcb done cb) eqn:Em; [|reflexivity]. exfalso.
        apply mcb_spec in Em as [y [d' [Hy [Hry [Hl' Hp']]]]]. assert (d' = d) by congruence. subst d'.
        destruct Hb as [y0 [q Hy0]]. pose proof (uniq_refs s0 t inst y0 q d y I2 Hu Hy0 Hr Hl0 Hry) as E2. subst y. contradiction.
    - intro c. rewrite map_map. cbn [fst]. rewrite map_id. rewrite A. split; [intro H; split; [exact Hh|exact H]|intros [_ H]; exact H].
    - rewrite map_map. cbn [fst]. rewrite map_id. apply (i1_nodup _ J1).
    - intros c pn' H. apply in_map_iff in H as [c0 [H _]]. injection H as _ <-. reflexivity.
    - intro y. rewrite in_app_iff. cbn [In]. split.
      + intros [H|[<-|[]]]; [left; exact H|right; split; [reflexivity|exact Hh]].
      + intros [H|[-> _]]; [left; exact H|right; left; reflexivity].
  Qed.

  (* ---- the while loop ---- *)
  Lemma flat_loop_W : forall fuel x queue done rem x' rem',
    W x queue done rem -> flat_loop fuel x topd queue rem = ((x', None), rem') ->
    exists done', W x' [] done' rem' /\ uniq_ctr x' = uniq_ctr x.
  Proof.
    induction fuel as [|f IH]; intros x queue done rem x' rem' Wx E; destruct queue as [|[inst pn] rest]; cbn [flat_loop] in E; try discriminate E.
    - injection E as <- <-. exists done. split; [exact Wx|reflexivity].
    - injection E as <- <-. exists done. split; [exact Wx|reflexivity].
    - destruct (bring_to_top x inst pn topd) as [x1 [er|]] eqn:Eb; [discriminate E|].
      destruct (iref (st x1) inst) as [d|] eqn:Hr1; [|discriminate E].
      destruct (is_leaf_def (st x1) d) eqn:Hl1.
      + destruct (W_step_leaf _ _ _ _ _ _ _ _ Wx Eb Hr1 Hl1) as [Wn [_ [_ Hc]]].
        destruct (IH x1 rest (inst :: done) rem x' rem' Wn E) as [done' [Wd Hcu]]. exists done'. split; [exact Wd|congruence].
      + destruct (xfold (fun x c => bring_to_top x c (Some (name_in_path (st x1) inst)) topd) (kids (st x1) RCables d) x1) as [x2 [er|]] eqn:Ec; [discriminate E|].
        destruct (xfold (fun x p => xfold (fun x i => redo_pin x inst i) (kids (st x) RPins p) x) (kids (st x2) RPorts d) x2) as [x3 [er|]] eqn:Er; [discriminate E|].
        destruct (W_step_hier _ _ _ _ _ _ _ _ _ _ Wx Eb Hr1 Hl1 Ec Er) as [Wn [_ [_ [_ [_ [_ [_ [_ Hc]]]]]]]].
        destruct (IH x3 _ (inst :: done) (rem ++ [inst]) x' rem' Wn E) as [done' [Wd Hcu]]. exists done'. split; [exact Wd|congruence].
  Qed.

  (* the state before the loop *)
  Lemma W_init x : st x = s0 -> W x (map (fun c => (c, None)) (kids s0 RChildren topd)) [] [].
  Proof.
    intro Hx.
    assert (Hpath : forall c, In c (kids s0 RChildren topd) -> is_rpath s0 t [c; t]).
    { intros c Hc. apply rp_child; [apply rp_top|]. unfold child, sub. rewrite Ht. exact Hc. }
    constructor; rewrite ?Hx.
    - exact U0.
    - eapply St_ext; [| |apply St_init]; intro y; reflexivity.
    - intros c Hc. rewrite map_fst_pair in Hc. exists t, []. split; [apply Hpath; exact Hc|left; reflexivity].
    - intros c [].
    - intros y c [->|[[] _]] Hc. right. rewrite map_fst_pair. unfold child, sub in Hc. rewrite Ht in Hc. exact Hc.
    - rewrite map_fst_pair, app_nil_r. apply (i1_nodup _ I1).
    - intro y. split; [intros []|intros [[] _]].
    - intros c pn p Hin Hp. apply in_map_iff in Hin as [c0 [E Hc0]]. injection E as -> <-.
      pose proof (rpath_unique s0 t I1 I2 Hu _ _ _ Hp (Hpath c Hc0)) as ->. reflexivity.
    - intros c p [].
    - intros y p d cb [].
  Qed.
End Walk.

(* ---- the final loop: the emptied hierarchical instances leave the top definition ---- *)
Lemma remove_fold_eff topd : forall rem x x',
  xfold (fun x i => liftR x (op_remove (st x) RChildren topd i) (fun x' => (x', None))) rem x = (x', None) ->
  keep (st x) (st x') /\ data (st x') = data (st x) /\ uniq_ctr x' = uniq_ctr x /\ flat_ctr x' = flat_ctr x /\
  (forall c, par (st x') RChildren c = if memb c rem then None else par (st x) RChildren c) /\
  (forall r y, r <> RChildren -> par (st x') r y = par (st x) r y /\ kids (st x') r y = kids (st x) r y).
Proof.
  induction rem as [|i rem IH]; intros x x' E; cbn [xfold] in E.
  - injection E as <-. split; [apply keep_refl|]. repeat split; reflexivity.
  - unfold liftR at 1 in E. destruct (op_remove (st x) RChildren topd i) as [s1 [er|]] eqn:Er; [discriminate E|].
    destruct (op_remove_eff _ _ _ _ _ (or_introl eq_refl) Er) as [K1 [D1 [_ [P1 Kd1]]]].
    destruct (IH _ _ E) as [K2 [D2 [U2 [F2 [P2 O2]]]]]. cbn [st uniq_ctr flat_ctr] in *.
    split; [apply (keep_trans _ _ _ K1 K2)|]. split; [congruence|]. split; [exact U2|]. split; [exact F2|]. split.
    + intro c. rewrite P2, P1, upd2_at. cbn [memb rel_eqb andb]. destruct (Nat.eqb c i), (memb c rem); reflexivity.
    + intros r y Hr. destruct (O2 r y Hr) as [A B]. rewrite A, B, P1, Kd1, !upd2_at.
      destruct r; try contradiction; cbn [rel_eqb andb]; split; reflexivity.
Qed.

(* ---- what a completed flatten of a uniquified design leaves, relative to the state before ---- *)
Record FlatSpec (s0 : state) (t topd : id) (done : list id) (s' : state) : Prop := mkFS {
  fs_uf : UF s';
  fs_iref : iref s' = iref s0;
  fs_kind : kind_of s' = kind_of s0;
  fs_drefs : drefs s' = drefs s0;
  fs_next : next s' = next s0;
  fs_top : top s' = top s0;
  fs_done : forall c, In c done <-> Below s0 t c;
  fs_nodup : NoDup done;
  fs_ref : forall c, In c done -> iref s0 c <> None;
  fs_pari : forall c, par s' RChildren c =
              if memb c done then (if hierb s0 c then None else Some topd) else par s0 RChildren c;
  fs_parc : forall cb, par s' RCables cb = if mcb s0 done cb then Some topd else par s0 RCables cb;
  fs_paro : forall r y, r <> RChildren -> r <> RCables -> par s' r y = par s0 r y /\ kids s' r y = kids s0 r y;
  fs_namei : forall c y p, is_rpath s0 t (c :: y :: p) -> get_str s' c str_NAME = fname s0 (c :: y :: p);
  fs_namec : forall y z p d cb, is_rpath s0 t (y :: z :: p) -> iref s0 y = Some d -> is_leaf_def s0 d = false ->
               par s0 RCables cb = Some d ->
               get_str s' cb str_NAME = joino (pname s0 (y :: z :: p)) (get_str s0 cb str_NAME);
  fs_data : forall y, memb y done = false -> mcb s0 done y = false -> data s' y = data s0 y;
  fs_keys : forall y k, k <> str_NAME -> k <> str_IDENT -> k <> str_NS -> sassoc k (data s' y) = sassoc k (data s0 y)
}.

Lemma W_done_below s0 t topd (U0 : UF s0) x done rem :
  W s0 t topd x [] done rem -> forall p c y, is_rpath s0 t (c :: y :: p) -> In c done.
Proof.
  intros Wx. induction p as [|z p IH]; intros c y H.
  - destruct (rpath_inv _ _ _ _ H) as [[E _]|[y0 [p0 [E [H' Hc]]]]]; [discriminate E|]. injection E as <- <-.
    destruct (rpath_inv _ _ _ _ H') as [[_ ->]|[? [? [E _]]]]; [|discriminate E].
    destruct (w_closed _ _ _ _ _ _ _ Wx t c (or_introl eq_refl) Hc) as [Hd|[]]. exact Hd.
  - destruct (rpath_inv _ _ _ _ H) as [[E _]|[y0 [p0 [E [H' Hc]]]]]; [discriminate E|]. injection E as <- <-.
    pose proof (IH _ _ H') as Hy.
    assert (Hh : hierb s0 y = true).
    { unfold hierb. unfold child, sub in Hc. destruct (iref s0 y) as [d|]; [|destruct Hc]. rewrite (has_child_nonleaf _ _ _ Hc). reflexivity. }
    destruct (w_closed _ _ _ _ _ _ _ Wx y c (or_intror (conj Hy Hh)) Hc) as [Hd|[]]. exact Hd.
Qed.

Theorem flatten_spec fuel x n x' t topd :
  UF (st x) -> Uniquified (st x) t -> top (st x) n = Some t -> iref (st x) t = Some topd ->
  flatten fuel x n = (x', None) ->
  exists done, FlatSpec (st x) t topd done (st x') /\ uniq_ctr x' = uniq_ctr x.
Proof.
  intros U0 Hu Htop Ht E. pose proof (uf_flatten fuel x n x' U0 E) as U'.
  unfold flatten in E. rewrite Htop, Ht in E.
  destruct (flat_loop fuel x topd (map (fun c => (c, None)) (kids (st x) RChildren topd)) []) as [[x1 [er|]] rem] eqn:El; [discriminate E|].
  destruct (flat_loop_W (st x) t topd U0 Hu Ht fuel x _ [] [] x1 rem (W_init (st x) t topd U0 Hu Ht x eq_refl) El) as [done [Wd Hc1]].
  destruct (remove_fold_eff topd rem x1 x' E) as [K [D [Hc2 [_ [P O]]]]].
  pose proof (w_st _ _ _ _ _ _ _ Wd) as S.
  exists done. split; [|congruence].
  assert (Hdone : forall c, In c done <-> Below (st x) t c).
  { intro c. split.
    - intro H. apply (parent_below (st x) t done). apply (w_done _ _ _ _ _ _ _ Wd c H).
    - intros [y [p H]]. apply (W_done_below (st x) t topd U0 x1 done rem Wd p c y H). }
  constructor.
  - exact U'.
  - rewrite (kp_iref _ _ K). apply (st_iref _ _ _ _ _ S).
  - rewrite (kp_kind _ _ K). apply (st_kind _ _ _ _ _ S).
  - rewrite (kp_drefs _ _ K). apply (st_drefs _ _ _ _ _ S).
  - rewrite (kp_next _ _ K). apply (st_next _ _ _ _ _ S).
  - rewrite (kp_top _ _ K). apply (st_top _ _ _ _ _ S).
  - exact Hdone.
  - pose proof (w_nodup _ _ _ _ _ _ _ Wd) as N. exact N.
  - intros c Hc. apply (w_done _ _ _ _ _ _ _ Wd c Hc).
  - intro c. rewrite P, (st_pari _ _ _ _ _ S).
    destruct (memb c rem) eqn:Em.
    + apply memb_In in Em. apply (w_rem _ _ _ _ _ _ _ Wd) in Em as [H1 H2]. apply memb_In in H1. rewrite H1, H2. reflexivity.
    + destruct (memb c done) eqn:Ed; [|reflexivity]. destruct (hierb (st x) c) eqn:Eh; [|reflexivity].
      exfalso. apply memb_false in Em. apply Em. apply (w_rem _ _ _ _ _ _ _ Wd). split; [apply memb_In; exact Ed|exact Eh].
  - intro cb. rewrite (proj1 (O RCables cb ltac:(discriminate))). apply (st_parc _ _ _ _ _ S).
  - intros r y H1 H2. destruct (O r y H1) as [A B]. rewrite A, B. apply (st_paro _ _ _ _ _ S); assumption.
  - intros c y p Hp. unfold get_str. rewrite D. apply (w_dn _ _ _ _ _ _ _ Wd c (y :: p)); [|exact Hp]. apply Hdone. exists y, p. exact Hp.
  - intros y z p d cb Hp Hr Hl Hpc. unfold get_str at 1. rewrite D.
    apply (w_cn _ _ _ _ _ _ _ Wd y (z :: p) d cb); try assumption. apply Hdone. exists z, p. exact Hp.
  - intros y H1 H2. rewrite D. apply (st_data _ _ _ _ _ S); assumption.
  - intros y k H1 H2 H3. rewrite D. apply (st_keys _ _ _ _ _ S); assumption.
Qed.
