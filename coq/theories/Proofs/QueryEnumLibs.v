(* get_libraries: the candidates enumerated by the loop of Query/Enum.v are exactly the elements named
   by the declarative specification Query/EnumSpec.v, for every kind of root, both selections and
   both settings of recursive (cands_libraries_spec). The former exception - from an instance with
   selection OUTSIDE and recursive=True the code's "object_collection += parent" iterated the keys of
   the parent definition's dictionary instead of appending it - is repaired in the code and the
   model follows: the parent definition is appended (libraries_instance_outside_recursive states the
   repaired case on its own). *)
From Coq Require Import List Arith Bool Lia Relations.
From SV Require Import Base.Base IR.State IR.NS IR.Ops Proofs.Inv1a Proofs.Inv2a Proofs.InvW
  Hier.Paths Hier.Enum Hier.Trace Proofs.KindD Query.Filter Query.Enum Query.EnumSpec
  Proofs.QueryEnumWL Proofs.QueryEnumBase Proofs.QueryEnumView.
Import ListNotations.

Section Libs.
Variable s : state.
Hypothesis W : QWF s.
Variables rec inside : bool.
Notation A := (acts_libraries s rec inside).
Notation R := (dir_uses s inside).

Definition lmark (rc : bool) (l : id) : act qout := AMark l [OOth l] (if rc then [IE l] else []).

Lemma in_mark_lib_of rc d a : In a (mark_lib_of s rc d) <-> exists l, par s RDefs d = Some l /\ a = lmark rc l.
Proof.
  unfold mark_lib_of, lmark. destruct (par s RDefs d) as [l|]; cbn.
  - split; [intros [<-|[]]; exists l; auto|intros (l' & E & ->); injection E as <-; left; reflexivity].
  - split; [intros []|intros (l' & E & _); discriminate].
Qed.

(* ---- the statements of each kind of item ---- *)
Lemma l_lib l a : kind_of s l = Some KLibrary ->
  (In a (A (IE l)) <-> exists e, lib_rel s inside l e /\ a = lmark rec e).
Proof.
  intro Hk. cbn [acts_libraries]. rewrite Hk. unfold lib_rel, dir_uses. destruct inside.
  - rewrite in_flat_map. split.
    + intros (d & Hd & H). apply in_flat_map in H as (c & Hc & H). destruct (iref s c) as [r|] eqn:Er; [|destruct H].
      apply in_mark_lib_of in H as (e & He & ->). exists e. split; [|reflexivity]. exists d, r.
      split; [apply (kids_par s W); exact Hd|]. split; [exists c; split; [apply (kids_par s W); exact Hc|exact Er]|exact He].
    + intros (e & (d & r & Hd & (c & Hc & Er) & He) & ->). exists d. split; [apply (kids_par s W); exact Hd|].
      apply in_flat_map. exists c. split; [apply (kids_par s W); exact Hc|]. rewrite Er. apply in_mark_lib_of. exists e. auto.
  - rewrite in_flat_map. split.
    + intros (d & Hd & H). apply in_flat_map in H as (i & Hi & H). destruct (par s RChildren i) as [p|] eqn:Ep; [|destruct H].
      apply in_mark_lib_of in H as (e & He & ->). exists e. split; [|reflexivity]. exists d, p.
      split; [apply (kids_par s W); exact Hd|]. split; [exists i; split; [exact Ep|apply (drefs_iref s W); exact Hi]|exact He].
    + intros (e & (d & p & Hd & (i & Ep & Hi) & He) & ->). exists d. split; [apply (kids_par s W); exact Hd|].
      apply in_flat_map. exists i. split; [apply (drefs_iref s W); exact Hi|]. rewrite Ep. apply in_mark_lib_of. exists e. auto.
Qed.

(* what a definition / an instance marks and appends under INSIDE: the library of d0, the children of d0 *)
Definition down_acts (d0 : id) (a : act qout) : Prop :=
  (exists e, par s RDefs d0 = Some e /\ a = lmark false e) \/
  (rec = true /\ exists ch, In ch (kids s RChildren d0) /\ a = APush (IE ch)).

Lemma in_down d0 a :
  In a (mark_lib_of s false d0 ++ (if rec then push_ids (kids s RChildren d0) else [])) <-> down_acts d0 a.
Proof.
  unfold down_acts. rewrite in_app_iff, in_mark_lib_of. split.
  - intros [H|H]; [left; exact H|]. right. destruct rec; [|destruct H]. split; [reflexivity|]. apply in_push_ids in H. exact H.
  - intros [H|(Er & H)]; [left; exact H|]. right. rewrite Er. apply in_push_ids. exact H.
Qed.

Lemma l_def_in d a : kind_of s d = Some KDefinition -> inside = true -> (In a (A (IE d)) <-> down_acts d a).
Proof. intros Hk Hi. cbn [acts_libraries]. rewrite Hk, Hi. apply in_down. Qed.

Lemma l_inst_in x a : kind_of s x = Some KInstance -> inside = true ->
  (In a (A (IE x)) <-> exists d0, iref s x = Some d0 /\ down_acts d0 a).
Proof.
  intros Hk Hi. cbn [acts_libraries]. rewrite Hk, Hi. destruct (iref s x) as [r|].
  - rewrite in_down. split; [intro H; exists r; auto|intros (d0 & E & H); injection E as <-; exact H].
  - split; [intros []|intros (d0 & E & _); discriminate].
Qed.

Lemma l_def_out d a : kind_of s d = Some KDefinition -> inside = false ->
  (In a (A (IE d)) <-> exists p, used_by s d p /\
     ((exists e, par s RDefs p = Some e /\ a = lmark false e) \/ (rec = true /\ a = APush (IE p)))).
Proof.
  intros Hk Hi. cbn [acts_libraries]. rewrite Hk, Hi. rewrite in_flat_map. split.
  - intros (i & Hi' & H). destruct (par s RChildren i) as [p|] eqn:Ep; [|destruct H]. exists p.
    split; [exists i; split; [exact Ep|apply (drefs_iref s W); exact Hi']|].
    apply in_app_or in H as [H|H]; [left; apply in_mark_lib_of; exact H|right]. destruct rec; [|destruct H]. destruct H as [<-|[]]. auto.
  - intros (p & (i & Ep & Hr) & H). exists i. split; [apply (drefs_iref s W); exact Hr|]. rewrite Ep. apply in_or_app.
    destruct H as [H|(Er & ->)]; [left; apply in_mark_lib_of; exact H|right; rewrite Er; left; reflexivity].
Qed.

Lemma l_inst_out x a : kind_of s x = Some KInstance -> inside = false ->
  (In a (A (IE x)) <-> exists p, par s RChildren x = Some p /\
     ((exists e, par s RDefs p = Some e /\ a = lmark false e) \/ (rec = true /\ a = APush (IE p)))).
Proof.
  intros Hk Hi. cbn [acts_libraries]. rewrite Hk, Hi. destruct (par s RChildren x) as [p|].
  - rewrite in_app_iff, in_mark_lib_of. split.
    + intros [H|H]; exists p; (split; [reflexivity|]); [left; exact H|right]. destruct rec; [|destruct H]. destruct H as [<-|[]]. auto.
    + intros (p' & E & H). injection E as <-. destruct H as [H|(Er & ->)]; [left; exact H|right; rewrite Er; left; reflexivity].
  - split; [intros []|intros (p' & E & _); discriminate].
Qed.

Lemma R_kind d r : R d r -> kind_of s r = Some KDefinition.
Proof.
  unfold dir_uses. destruct inside; intros (c & H1 & H2); [apply (iref_def_kind s W _ _ H2)|apply (par_parent_kind s W _ _ _ H1)].
Qed.

(* every mark statement records exactly its element *)
Lemma mark_shape y c os ys : In (AMark c os ys) (A y) -> os = [OOth c].
Proof.
  assert (Hm : forall rc d, In (AMark c os ys) (mark_lib_of s rc d) -> os = [OOth c]).
  { intros rc d H. apply in_mark_lib_of in H as (l & _ & E). unfold lmark in E. injection E as -> -> _. reflexivity. }
  destruct y as [x|n i| |h]; cbn [acts_libraries].
  - destruct (kind_of s x) as [[]|] eqn:Hk; intro H; try (apply in_push_opt in H as (z & _ & E); discriminate E).
    + destruct H as [E|[]]. discriminate E.
    + assert (H' : In (AMark c os ys) (A (IE x))) by (cbn [acts_libraries]; rewrite Hk; exact H).
      apply (l_lib x _ Hk) in H' as (e & _ & E). unfold lmark in E. injection E as -> -> _. reflexivity.
    + destruct inside.
      * apply in_app_or in H as [H|H]; [apply (Hm _ _ H)|]. destruct rec; [|destruct H]. apply in_push_ids in H as (z & _ & E). discriminate E.
      * apply in_flat_map in H as (i & _ & H). destruct (par s RChildren i); [|destruct H].
        apply in_app_or in H as [H|H]; [apply (Hm _ _ H)|]. destruct rec; [|destruct H]. destruct H as [E|[]]. discriminate E.
    + destruct inside.
      * destruct (iref s x); [|destruct H]. apply in_app_or in H as [H|H]; [apply (Hm _ _ H)|].
        destruct rec; [|destruct H]. apply in_push_ids in H as (z & _ & E). discriminate E.
      * destruct (par s RChildren x); [|destruct H]. apply in_app_or in H as [H|H]; [apply (Hm _ _ H)|].
        destruct rec; [|destruct H]. destruct H as [E|[]]. discriminate E.
    + destruct H.
  - intros [E|[]]. discriminate E.
  - intros [].
  - intro H. apply in_push_opt in H as (z & _ & E). discriminate E.
Qed.

(* an element recorded for the name-map stage was marked *)
Lemma emits_oth_marks it e : Emits A it (OOth e) -> Marks A it e.
Proof.
  intros (y & a & Hr & Ha & Ho). destruct a as [z|o|c os ys]; cbn in Ho; [destruct Ho| |].
  - destruct Ho as [->|[]]. exfalso.
    assert (Hm : forall rc d, ~ In (AOut (OOth e)) (mark_lib_of s rc d)).
    { intros rc d H. apply in_mark_lib_of in H as (l & _ & E). discriminate E. }
    destruct y as [x|n i| |h]; cbn [acts_libraries] in Ha.
    + destruct (kind_of s x) as [[]|] eqn:Hk; try (apply in_push_opt in Ha as (z & _ & E); discriminate E).
      * destruct Ha as [E|[]]. discriminate E.
      * assert (H' : In (AOut (OOth e)) (A (IE x))) by (cbn [acts_libraries]; rewrite Hk; exact Ha).
        apply (l_lib x _ Hk) in H' as (e' & _ & E). discriminate E.
      * destruct inside.
        -- apply in_app_or in Ha as [H|H]; [apply (Hm _ _ H)|]. destruct rec; [|destruct H]. apply in_push_ids in H as (z & _ & E). discriminate E.
        -- apply in_flat_map in Ha as (i & _ & H). destruct (par s RChildren i); [|destruct H].
           apply in_app_or in H as [H|H]; [apply (Hm _ _ H)|]. destruct rec; [|destruct H]. destruct H as [E|[]]. discriminate E.
      * destruct inside.
        -- destruct (iref s x); [|destruct Ha]. apply in_app_or in Ha as [H|H]; [apply (Hm _ _ H)|].
           destruct rec; [|destruct H]. apply in_push_ids in H as (z & _ & E). discriminate E.
        -- destruct (par s RChildren x); [|destruct Ha]. apply in_app_or in Ha as [H|H]; [apply (Hm _ _ H)|].
           destruct rec; [|destruct H]. destruct H as [E|[]]. discriminate E.
      * destruct Ha.
    + destruct Ha as [E|[]]. discriminate E.
    + destruct Ha.
    + apply in_push_opt in Ha as (z & _ & E). discriminate E.
  - pose proof (mark_shape y c os ys Ha) as ->. destruct Ho as [E|[]]. injection E as ->. exists y, [OOth e], ys. auto.
Qed.

(* ---- INSIDE: walking down through the children ---- *)
Section Down.
Hypothesis Hi : inside = true.
Variable start : item.
Variable d0 : id.
Hypothesis HS : forall a, In a (A start) <-> down_acts d0 a.

Lemma down_succs (st : item) (dd : id) : (forall a, In a (A st) <-> down_acts dd a) ->
  forall b, In b (succs A st) <-> rec = true /\ exists ch, In ch (kids s RChildren dd) /\ b = IE ch.
Proof.
  intros H b. unfold succs. rewrite in_flat_map. split.
  - intros (a & Ha & Hb). apply H in Ha as [(e & _ & ->)|(Er & ch & Hch & ->)]; [destruct Hb|].
    destruct Hb as [<-|[]]. split; [exact Er|]. exists ch. auto.
  - intros (Er & ch & Hch & ->). exists (APush (IE ch)). split; [|left; reflexivity]. apply H. right. split; [exact Er|]. exists ch. auto.
Qed.

Lemma inst_down ch : kind_of s ch = Some KInstance -> forall r, iref s ch = Some r ->
  forall a, In a (A (IE ch)) <-> down_acts r a.
Proof.
  intros Hk r Hr a. rewrite (l_inst_in ch a Hk Hi). split; [intros (d & E & H); rewrite Hr in E; injection E as <-; exact H|intro H; exists r; auto].
Qed.

Lemma down_reach y : Reach A start y <->
  y = start \/ (rec = true /\ exists ch dp, y = IE ch /\ par s RChildren ch = Some dp /\ clos_refl_trans id (uses s) d0 dp).
Proof.
  split.
  - intro Hr. apply (reach_invariant A (fun y => y = start \/ (rec = true /\ exists ch dp, y = IE ch /\ par s RChildren ch = Some dp /\
      clos_refl_trans id (uses s) d0 dp)) start) in Hr; [exact Hr|left; reflexivity|].
    intros a b [->|(Er & ch & dp & -> & Hp & Hs)] Hb.
    + apply (down_succs start d0 HS) in Hb as (Er & ch & Hch & ->). right. split; [exact Er|].
      exists ch, d0. split; [reflexivity|split; [apply (kids_par s W); exact Hch|apply rt_refl]].
    + pose proof (par_kind s W _ _ _ Hp) as Hk. cbn [rel_child] in Hk. unfold succs in Hb. apply in_flat_map in Hb as (a & Ha & Hb).
      apply (l_inst_in ch a Hk Hi) in Ha as (r & Hr' & [(e & _ & ->)|(_ & c' & Hc' & ->)]); [destruct Hb|]. destruct Hb as [<-|[]].
      right. split; [exact Er|]. exists c', r. split; [reflexivity|split; [apply (kids_par s W); exact Hc'|]].
      eapply rt_trans; [exact Hs|apply rt_step]. exists ch. auto.
  - intros [->|(Er & ch & dp & -> & Hp & Hs)]; [apply reach_refl|].
    apply clos_rt_rtn1 in Hs. revert ch Hp. induction Hs as [|dp' dp (c0 & Hc0 & Hr0) _ IH]; intros ch Hp.
    + eapply reach_step; [|apply reach_refl]. apply step_succs. apply (down_succs start d0 HS). split; [exact Er|].
      exists ch. split; [apply (kids_par s W); exact Hp|reflexivity].
    + eapply reach_trans; [apply (IH c0 Hc0)|]. eapply reach_step; [|apply reach_refl]. apply step_succs.
      apply (down_succs (IE c0) dp (inst_down c0 (iref_kind s W _ _ Hr0) dp Hr0)). split; [exact Er|].
      exists ch. split; [apply (kids_par s W); exact Hp|reflexivity].
Qed.

Lemma down_marks c : Marks A start c <-> libs_of_def s rec true d0 c.
Proof.
  unfold libs_of_def. split.
  - intros (y & os & ys & Hr & Ha). apply down_reach in Hr as [->|(Er & ch & dp & -> & Hp & Hs)].
    + apply HS in Ha as [(e & He & E)|(_ & ch & _ & E)]; [|discriminate E]. unfold lmark in E. injection E as -> _ _.
      exists d0. split; [apply star_refl|exact He].
    + pose proof (par_kind s W _ _ _ Hp) as Hk. cbn [rel_child] in Hk.
      apply (l_inst_in ch _ Hk Hi) in Ha as (r & Hr' & [(e & He & E)|(_ & c' & _ & E)]); [|discriminate E].
      unfold lmark in E. injection E as -> _ _. exists r. split; [|exact He].
      apply (star_rt _ _ _ _ Er). eapply rt_trans; [exact Hs|apply rt_step]. exists ch. auto.
  - intros (d' & Hs & He). apply star_cases in Hs as [[Er Hs]|[_ <-]].
    + apply clos_rt_rtn1 in Hs. destruct Hs as [|dp d' (ch & Hch & Hr') Hs].
      * exists start, [OOth c], []. split; [apply reach_refl|]. apply HS. left. exists c. auto.
      * exists (IE ch), [OOth c], []. split.
        -- apply down_reach. right. split; [exact Er|]. exists ch, dp. split; [reflexivity|split; [exact Hch|apply clos_rtn1_rt; exact Hs]].
        -- apply (l_inst_in ch _ (iref_kind s W _ _ Hr') Hi). exists d'. split; [exact Hr'|]. left. exists c. auto.
    + exists start, [OOth c], []. split; [apply reach_refl|]. apply HS. left. exists c. auto.
Qed.
End Down.

(* ---- OUTSIDE from a definition: walking up through the definitions that instantiate it ---- *)
Lemma up_reach d y : kind_of s d = Some KDefinition -> inside = false ->
  (Reach A (IE d) y <-> exists p, y = IE p /\ kind_of s p = Some KDefinition /\ star (used_by s) rec d p).
Proof.
  intros Hk Hi. split.
  - intro Hr. apply (reach_invariant A (fun y => exists p, y = IE p /\ kind_of s p = Some KDefinition /\ star (used_by s) rec d p) (IE d)) in Hr;
      [exact Hr|exists d; split; [reflexivity|split; [exact Hk|apply star_refl]]|].
    intros a b (p & -> & Hp & Hs) Hb. unfold succs in Hb. apply in_flat_map in Hb as (a & Ha & Hb).
    apply (l_def_out p a Hp Hi) in Ha as (q & Hq & [(e & _ & ->)|(Er & ->)]); [destruct Hb|]. destruct Hb as [<-|[]].
    exists q. split; [reflexivity|]. split; [destruct Hq as (i & Hi' & _); apply (par_parent_kind s W _ _ _ Hi')|].
    eapply star_snoc; eassumption.
  - intros (p & -> & _ & Hs). apply star_cases in Hs as [[Er Hs]|[_ <-]]; [|apply reach_refl].
    apply (reach_of_rt A IE (used_by s) (fun a => kind_of s a = Some KDefinition)); [|exact Hk|exact Hs].
    intros a b Ha Hab. split; [|destruct Hab as (i & Hi' & _); apply (par_parent_kind s W _ _ _ Hi')].
    unfold succs. apply in_flat_map. exists (APush (IE b)). split; [|left; reflexivity].
    apply (l_def_out a _ Ha Hi). exists b. split; [exact Hab|right; auto].
Qed.

Lemma up_marks d c : kind_of s d = Some KDefinition -> inside = false ->
  (Marks A (IE d) c <-> libs_of_def s rec false d c).
Proof.
  intros Hk Hi. unfold libs_of_def. split.
  - intros (y & os & ys & Hr & Ha). apply (up_reach d y Hk Hi) in Hr as (p & -> & Hp & Hs).
    apply (l_def_out p _ Hp Hi) in Ha as (q & Hq & [(e & He & E)|(_ & E)]); [|discriminate E].
    unfold lmark in E. injection E as -> _ _. exists q. split; [|exact He].
    apply star_cases in Hs as [[Er Hs]|[Er <-]]; unfold plus; rewrite Er; [|exact Hq]. apply t_split_r. exists p. auto.
  - intros (d' & Hp & He). assert (Hx : exists p, star (used_by s) rec d p /\ used_by s p d').
    { apply plus_cases in Hp as [[Er Hp]|[Er Hp]].
      - apply t_split_r in Hp as (p & Hs & Hq). exists p. split; [apply (star_rt _ _ _ _ Er); exact Hs|exact Hq].
      - exists d. split; [apply star_refl|exact Hp]. }
    destruct Hx as (p & Hs & Hq).
    assert (Hkp : kind_of s p = Some KDefinition).
    { apply star_cases in Hs as [[_ Hs]|[_ <-]]; [|exact Hk]. apply clos_rt_rtn1 in Hs. destruct Hs as [|a b (i & Hi' & _) _]; [exact Hk|].
      apply (par_parent_kind s W _ _ _ Hi'). }
    exists (IE p), [OOth c], []. split; [apply (up_reach d _ Hk Hi); exists p; auto|].
    apply (l_def_out p _ Hkp Hi). exists d'. split; [exact Hq|left; exists c; auto].
Qed.

Lemma static_def d c : kind_of s d = Some KDefinition -> (Marks A (IE d) c <-> libs_of_def s rec inside d c).
Proof.
  intro Hk. destruct (bool_cases inside) as [Hi|Hi].
  - rewrite (down_marks Hi (IE d) d (fun a => l_def_in d a Hk Hi) c). rewrite Hi. tauto.
  - rewrite (up_marks d c Hk Hi). rewrite Hi. tauto.
Qed.

(* what the CODE reaches from an instance; OUTSIDE: the library of the definition it sits in and
   (recursive) of everything above it *)
Definition inst_code (x c : id) : Prop :=
  if inside then exists d0, iref s x = Some d0 /\ libs_of_def s rec true d0 c
  else exists p d', par s RChildren x = Some p /\ star (used_by s) rec p d' /\ par s RDefs d' = Some c.

Lemma inst_code_in x c : inside = true -> (inst_code x c <-> exists d0, iref s x = Some d0 /\ libs_of_def s rec true d0 c).
Proof. intro Hi. unfold inst_code. rewrite Hi. tauto. Qed.
Lemma inst_code_out x c : inside = false ->
  (inst_code x c <-> exists p d', par s RChildren x = Some p /\ star (used_by s) rec p d' /\ par s RDefs d' = Some c).
Proof. intro Hi. unfold inst_code. rewrite Hi. tauto. Qed.

Lemma static_inst x c : kind_of s x = Some KInstance -> (Marks A (IE x) c <-> inst_code x c).
Proof.
  intro Hk. destruct (bool_cases inside) as [Hi|Hi]; [rewrite (inst_code_in x c Hi)|rewrite (inst_code_out x c Hi)].
  - destruct (iref s x) as [d0|] eqn:Er.
    + rewrite (down_marks Hi (IE x) d0 (inst_down Hi x Hk d0 Er) c).
      split; [intro H; exists d0; auto|intros (d & E & H); injection E as <-; exact H].
    + split; [|intros (d & E & _); congruence].
      intros (y & os & ys & Hr & Ha). exfalso.
      assert (Hnone : forall a, ~ In a (A (IE x))) by (intros a H; apply (l_inst_in x a Hk Hi) in H as (d & E & _); congruence).
      apply reach_inv in Hr as [<-|(z & (a & Ha' & _) & _)]; [apply (Hnone _ Ha)|apply (Hnone _ Ha')].
  - rewrite marks_unfold. split.
    + intros [(os & ys & Ha)|(y & (a & Ha & Hy) & Hm)].
      * apply (l_inst_out x _ Hk Hi) in Ha as (p & Hp & [(e & He & E)|(_ & E)]); [|discriminate E].
        unfold lmark in E. injection E as -> _ _. exists p, p. split; [exact Hp|split; [apply star_refl|exact He]].
      * apply (l_inst_out x _ Hk Hi) in Ha as (p & Hp & [(e & _ & ->)|(Er & ->)]); [destruct Hy|]. destruct Hy as [<-|[]].
        apply (up_marks p c (par_parent_kind s W _ _ _ Hp) Hi) in Hm as (d' & Hpl & He). exists p, d'. split; [exact Hp|split; [|exact He]].
        apply plus_cases in Hpl as [[_ Hpl]|[Er' _]]; [|congruence]. apply (star_rt _ _ _ _ Er).
        apply t_split_l in Hpl as (b & Hpb & Hs). eapply rt_trans; [apply rt_step; exact Hpb|exact Hs].
    + intros (p & d' & Hp & Hs & He). apply star_cases in Hs as [[Er Hs]|[_ <-]].
      * apply clos_rt_rt1n in Hs. destruct Hs as [|b d'' Hpb Hs].
        -- left. exists [OOth c], []. apply (l_inst_out x _ Hk Hi). exists p. split; [exact Hp|left; exists c; auto].
        -- right. exists (IE p). split; [exists (APush (IE p)); split; [|left; reflexivity]; apply (l_inst_out x _ Hk Hi); exists p; auto|].
           apply (up_marks p c (par_parent_kind s W _ _ _ Hp) Hi). exists d''. split; [|exact He]. unfold plus. rewrite Er.
           apply t_split_l. exists b. split; [exact Hpb|apply clos_rt1n_rt; exact Hs].
      * left. exists [OOth c], []. apply (l_inst_out x _ Hk Hi). exists p. split; [exact Hp|left; exists c; auto].
Qed.

(* ---- from a library: the marks drive the walk ---- *)
Lemma lib_rel_kind l e : lib_rel s inside l e -> kind_of s e = Some KLibrary.
Proof. intros (d & d' & _ & _ & H). apply (par_parent_kind s W _ _ _ H). Qed.

Lemma reach_lib l y : kind_of s l = Some KLibrary -> Reach A (IE l) y ->
  exists l', y = IE l' /\ kind_of s l' = Some KLibrary /\ star (lib_rel s inside) rec l l'.
Proof.
  intros Hk Hr.
  apply (reach_invariant A (fun y => exists l', y = IE l' /\ kind_of s l' = Some KLibrary /\ star (lib_rel s inside) rec l l') (IE l)) in Hr;
    [exact Hr|exists l; split; [reflexivity|split; [exact Hk|apply star_refl]]|].
  intros a b (l' & -> & Hl' & Hs) Hb. unfold succs in Hb. apply in_flat_map in Hb as (a & Ha & Hb).
  apply (l_lib l' a Hl') in Ha as (e & He & ->). unfold lmark in Hb. cbn [succ_of] in Hb.
  destruct (bool_cases rec) as [Er|Er]; rewrite Er in Hb; [|destruct Hb]. destruct Hb as [<-|[]].
  exists e. split; [reflexivity|split; [apply (lib_rel_kind l' e He)|eapply star_snoc; eassumption]].
Qed.

Lemma sound_lib l c : kind_of s l = Some KLibrary -> Marks A (IE l) c -> plus (lib_rel s inside) rec l c.
Proof.
  intros Hk (y & os & ys & Hr & Ha). apply (reach_lib l y Hk) in Hr as (l' & -> & Hl' & Hs).
  apply (l_lib l' _ Hl') in Ha as (e & He & E). unfold lmark in E. injection E as -> _ _.
  apply star_cases in Hs as [[Er Hs]|[Er <-]]; unfold plus; rewrite Er; [|exact He]. apply t_split_r. exists l'. auto.
Qed.

(* ---- which items record a first-stage parent ---- *)
Lemma out_shape y o : In (AOut o) (A y) -> exists n, y = IE n /\ kind_of s n = Some KNetlist /\ o = OPar n.
Proof.
  assert (Hm : forall rc d, ~ In (AOut o) (mark_lib_of s rc d)).
  { intros rc d H. apply in_mark_lib_of in H as (l & _ & E). discriminate E. }
  destruct y as [x|n i| |h]; cbn [acts_libraries].
  - destruct (kind_of s x) as [[]|] eqn:Hk; intro H; try (apply in_push_opt in H as (z & _ & E); discriminate E).
    + destruct H as [E|[]]. injection E as <-. exists x. auto.
    + exfalso. assert (H' : In (AOut o) (A (IE x))) by (cbn [acts_libraries]; rewrite Hk; exact H).
      apply (l_lib x _ Hk) in H' as (e' & _ & E). discriminate E.
    + exfalso. destruct inside.
      * apply in_app_or in H as [H|H]; [apply (Hm _ _ H)|]. destruct rec; [|destruct H]. apply in_push_ids in H as (z & _ & E). discriminate E.
      * apply in_flat_map in H as (i & _ & H). destruct (par s RChildren i); [|destruct H].
        apply in_app_or in H as [H|H]; [apply (Hm _ _ H)|]. destruct rec; [|destruct H]. destruct H as [E|[]]. discriminate E.
    + exfalso. destruct inside.
      * destruct (iref s x); [|destruct H]. apply in_app_or in H as [H|H]; [apply (Hm _ _ H)|].
        destruct rec; [|destruct H]. apply in_push_ids in H as (z & _ & E). discriminate E.
      * destruct (par s RChildren x); [|destruct H]. apply in_app_or in H as [H|H]; [apply (Hm _ _ H)|].
        destruct rec; [|destruct H]. destruct H as [E|[]]. discriminate E.
    + destruct H.
  - intros [E|[]]. discriminate E.
  - intros [].
  - intro H. apply in_push_opt in H as (z & _ & E). discriminate E.
Qed.

(* nothing appends a netlist *)
Definition nonnet (y : item) : Prop := match y with IE z => kind_of s z <> Some KNetlist | _ => False end.

Lemma nonnet_step a b : nonnet a -> In b (succs A a) -> nonnet b.
Proof.
  destruct a as [z| | |]; cbn [nonnet]; try contradiction. intros Hn Hb. unfold succs in Hb. apply in_flat_map in Hb as (a & Ha & Hb).
  assert (Hpo : forall r (o : option id), (forall y, o = Some y -> kind_of s y = Some (rel_parent r)) -> r <> RLibs ->
                In a (push_opt o) -> nonnet b).
  { intros r o Ho Hr H. apply in_push_opt in H as (y & -> & ->). destruct Hb as [<-|[]]. cbn. rewrite (Ho y eq_refl). destruct r; cbn; congruence. }
  destruct (kind_of s z) as [[]|] eqn:Hk; try congruence.
  - apply (l_lib z a Hk) in Ha as (e & He & ->). unfold lmark in Hb. cbn [succ_of] in Hb. destruct rec; [|destruct Hb].
    destruct Hb as [<-|[]]. cbn. rewrite (lib_rel_kind z e He). discriminate.
  - destruct (bool_cases inside) as [Hi|Hi].
    + apply (l_def_in z a Hk Hi) in Ha as [(e & _ & ->)|(_ & ch & Hch & ->)]; [destruct Hb|]. destruct Hb as [<-|[]].
      cbn. rewrite (kid_kind s W _ _ _ Hch). discriminate.
    + apply (l_def_out z a Hk Hi) in Ha as (p & (i & Hp & _) & [(e & _ & ->)|(_ & ->)]); [destruct Hb|]. destruct Hb as [<-|[]].
      cbn. rewrite (par_parent_kind s W _ _ _ Hp). discriminate.
  - cbn [acts_libraries] in Ha. rewrite Hk in Ha. apply (Hpo RPorts (par s RPorts z)); [intros y Hy; apply (par_parent_kind s W _ _ _ Hy)|discriminate|exact Ha].
  - cbn [acts_libraries] in Ha. rewrite Hk in Ha. apply (Hpo RCables (par s RCables z)); [intros y Hy; apply (par_parent_kind s W _ _ _ Hy)|discriminate|exact Ha].
  - cbn [acts_libraries] in Ha. rewrite Hk in Ha. apply (Hpo RWires (par s RWires z)); [intros y Hy; apply (par_parent_kind s W _ _ _ Hy)|discriminate|exact Ha].
  - cbn [acts_libraries] in Ha. rewrite Hk in Ha. apply (Hpo RPins (par s RPins z)); [intros y Hy; apply (par_parent_kind s W _ _ _ Hy)|discriminate|exact Ha].
  - destruct (bool_cases inside) as [Hi|Hi].
    + apply (l_inst_in z a Hk Hi) in Ha as (r & _ & [(e & _ & ->)|(_ & ch & Hch & ->)]); [destruct Hb|]. destruct Hb as [<-|[]].
      cbn. rewrite (kid_kind s W _ _ _ Hch). discriminate.
    + apply (l_inst_out z a Hk Hi) in Ha as (p & Hp & [(e & _ & ->)|(_ & ->)]); [destruct Hb|]. destruct Hb as [<-|[]].
      cbn. rewrite (par_parent_kind s W _ _ _ Hp). discriminate.
  - cbn [acts_libraries] in Ha. rewrite Hk in Ha. destruct Ha.
Qed.

Lemma par_sound x p : Emits A (IE x) (OPar p) -> kind_of s x = Some KNetlist /\ p = x.
Proof.
  intros (y & a & Hr & Ha & Ho). destruct a as [z|o|c os ys]; cbn in Ho; [destruct Ho| |].
  - destruct Ho as [->|[]]. apply out_shape in Ha as (n & -> & Hn & E). injection E as <-.
    destruct (kind_of s x) as [k|] eqn:Hk.
    + destruct k; try (exfalso; assert (Hnn : nonnet (IE x)) by (cbn; congruence);
        apply (reach_invariant A nonnet (IE x) (IE p) Hnn nonnet_step) in Hr; cbn in Hr; congruence).
      apply reach_inv in Hr as [E|(z & (a & Ha & Hz) & _)]; [injection E as <-; auto|].
      exfalso. cbn [acts_libraries] in Ha. rewrite Hk in Ha. destruct Ha as [<-|[]]. destruct Hz.
    + exfalso. assert (Hnn : nonnet (IE x)) by (cbn; congruence).
      apply (reach_invariant A nonnet (IE x) (IE p) Hnn nonnet_step) in Hr. cbn in Hr. congruence.
  - pose proof (mark_shape y c os ys Ha) as ->. destruct Ho as [E|[]]. discriminate E.
Qed.

(* ---- the final state of a run from [it], which hands over to x ---- *)
Definition flatitem (y : item) : Prop :=
  exists z, y = IE z /\ (kind_of s z = Some KDefinition \/ kind_of s z = Some KInstance).

Lemma flat_step st' a b : flatitem a -> Done A st' a -> In b (succs A a) -> flatitem b /\ Done A st' b.
Proof.
  intros (z & -> & Hz) Hd Hb. unfold succs in Hb. apply in_flat_map in Hb as (a & Ha & Hb). apply done_inv in Hd as (D1 & _ & _).
  destruct Hz as [Hk|Hk]; destruct (bool_cases inside) as [Hi|Hi].
  - pose proof Ha as Ha'. apply (l_def_in z a Hk Hi) in Ha as [(e & _ & ->)|(_ & ch & Hch & ->)]; [destruct Hb|]. destruct Hb as [<-|[]].
    split; [exists ch; split; [reflexivity|right; apply (kid_kind s W _ _ _ Hch)]|apply D1; exact Ha'].
  - pose proof Ha as Ha'. apply (l_def_out z a Hk Hi) in Ha as (p & (i & Hp & _) & [(e & _ & ->)|(_ & ->)]); [destruct Hb|]. destruct Hb as [<-|[]].
    split; [exists p; split; [reflexivity|left; apply (par_parent_kind s W _ _ _ Hp)]|apply D1; exact Ha'].
  - pose proof Ha as Ha'. apply (l_inst_in z a Hk Hi) in Ha as (r & _ & [(e & _ & ->)|(_ & ch & Hch & ->)]); [destruct Hb|]. destruct Hb as [<-|[]].
    split; [exists ch; split; [reflexivity|right; apply (kid_kind s W _ _ _ Hch)]|apply D1; exact Ha'].
  - pose proof Ha as Ha'. apply (l_inst_out z a Hk Hi) in Ha as (p & Hp & [(e & _ & ->)|(_ & ->)]); [destruct Hb|]. destruct Hb as [<-|[]].
    split; [exists p; split; [reflexivity|left; apply (par_parent_kind s W _ _ _ Hp)]|apply D1; exact Ha'].
Qed.

Lemma flat_complete st' x c : flatitem (IE x) -> Done A st' (IE x) -> Marks A (IE x) c -> In c (w_marks st').
Proof.
  intros Hx Hd (y & os & ys & Hr & Ha).
  apply (reach_invariant A (fun y => flatitem y /\ Done A st' y) (IE x) y) in Hr.
  - destruct Hr as [_ Hdy]. apply done_inv in Hdy as (_ & _ & D3). apply (D3 c os ys Ha).
  - split; assumption.
  - intros a b [Hfa Hda] Hb. apply (flat_step st' a b Hfa Hda Hb).
Qed.

(* what the code collects from an element *)
Definition libsB_code (x e : id) : Prop :=
  match kind_of s x with
  | Some KLibrary => plus (lib_rel s inside) rec x e
  | Some KDefinition => libs_of_def s rec inside x e
  | Some KInstance => inst_code x e
  | Some KPort | Some KCable | Some KPin | Some KWire => exists d, home s x d /\ libs_of_def s rec inside d e
  | Some KNetlist | None => False
  end.

(* the definition a port / cable / pin / wire hands over to *)
Lemma chain_home it x d : Chain A it x -> home s x d -> Chain A it d.
Proof.
  intros HC Hh. unfold home in Hh. destruct (kind_of s x) as [[]|] eqn:Hk; try contradiction.
  - apply (chain_snoc A it x d HC). cbn [acts_libraries]. rewrite Hk, Hh. reflexivity.
  - apply (chain_snoc A it x d HC). cbn [acts_libraries]. rewrite Hk, Hh. reflexivity.
  - destruct Hh as (c & Hc & Hd). apply (chain_snoc A it c d).
    + apply (chain_snoc A it x c HC). cbn [acts_libraries]. rewrite Hk, Hc. reflexivity.
    + cbn [acts_libraries]. rewrite (par_parent_kind s W _ _ _ Hc). cbn [rel_parent]. rewrite Hd. reflexivity.
  - destruct Hh as (c & Hc & Hd). apply (chain_snoc A it c d).
    + apply (chain_snoc A it x c HC). cbn [acts_libraries]. rewrite Hk, Hc. reflexivity.
    + cbn [acts_libraries]. rewrite (par_parent_kind s W _ _ _ Hc). cbn [rel_parent]. rewrite Hd. reflexivity.
Qed.

Lemma home_kind x d : home s x d -> kind_of s d = Some KDefinition.
Proof.
  unfold home. destruct (kind_of s x) as [[]|]; try contradiction.
  - intro H. apply (par_parent_kind s W _ _ _ H).
  - intro H. apply (par_parent_kind s W _ _ _ H).
  - intros (c & _ & H). apply (par_parent_kind s W _ _ _ H).
  - intros (c & _ & H). apply (par_parent_kind s W _ _ _ H).
Qed.

(* soundness, element level *)
Lemma sound_elem x c : Marks A (IE x) c -> libsB_code x c.
Proof.
  intro H. unfold libsB_code. destruct (kind_of s x) as [[]|] eqn:Hk.
  - destruct H as (y & os & ys & Hr & Ha). apply reach_inv in Hr as [<-|(z & (a & Ha' & Hz) & _)];
      cbn [acts_libraries] in *; rewrite Hk in *; [destruct Ha as [E|[]]; discriminate E|destruct Ha' as [<-|[]]; destruct Hz].
  - apply sound_lib; assumption.
  - apply static_def; assumption.
  - apply marks_unfold in H as [(os & ys & H)|(y & (a & Ha & Hy) & H)]; cbn [acts_libraries] in *; rewrite Hk in *.
    + apply in_push_opt in H as (z & _ & E). discriminate E.
    + apply in_push_opt in Ha as (d & Hd & ->). destruct Hy as [<-|[]]. exists d. unfold home. rewrite Hk. split; [exact Hd|].
      apply static_def; [apply (par_parent_kind s W _ _ _ Hd)|exact H].
  - apply marks_unfold in H as [(os & ys & H)|(y & (a & Ha & Hy) & H)]; cbn [acts_libraries] in *; rewrite Hk in *.
    + apply in_push_opt in H as (z & _ & E). discriminate E.
    + apply in_push_opt in Ha as (d & Hd & ->). destruct Hy as [<-|[]]. exists d. unfold home. rewrite Hk. split; [exact Hd|].
      apply static_def; [apply (par_parent_kind s W _ _ _ Hd)|exact H].
  - apply marks_unfold in H as [(os & ys & H)|(y & (a & Ha & Hy) & H)]; cbn [acts_libraries] in *; rewrite Hk in *.
    + apply in_push_opt in H as (z & _ & E). discriminate E.
    + apply in_push_opt in Ha as (cb & Hcb & ->). destruct Hy as [<-|[]].
      pose proof (par_parent_kind s W _ _ _ Hcb) as Hkc. cbn [rel_parent] in Hkc.
      apply marks_unfold in H as [(os & ys & H)|(y & (a & Ha & Hy) & H)]; cbn [acts_libraries] in *; rewrite Hkc in *.
      * apply in_push_opt in H as (z & _ & E). discriminate E.
      * apply in_push_opt in Ha as (d & Hd & ->). destruct Hy as [<-|[]]. exists d. unfold home. rewrite Hk. split; [exists cb; auto|].
        apply static_def; [apply (par_parent_kind s W _ _ _ Hd)|exact H].
  - apply marks_unfold in H as [(os & ys & H)|(y & (a & Ha & Hy) & H)]; cbn [acts_libraries] in *; rewrite Hk in *.
    + apply in_push_opt in H as (z & _ & E). discriminate E.
    + apply in_push_opt in Ha as (cb & Hcb & ->). destruct Hy as [<-|[]].
      pose proof (par_parent_kind s W _ _ _ Hcb) as Hkc. cbn [rel_parent] in Hkc.
      apply marks_unfold in H as [(os & ys & H)|(y & (a & Ha & Hy) & H)]; cbn [acts_libraries] in *; rewrite Hkc in *.
      * apply in_push_opt in H as (z & _ & E). discriminate E.
      * apply in_push_opt in Ha as (d & Hd & ->). destruct Hy as [<-|[]]. exists d. unfold home. rewrite Hk. split; [exists cb; auto|].
        apply static_def; [apply (par_parent_kind s W _ _ _ Hd)|exact H].
  - apply static_inst; assumption.
  - apply marks_unfold in H as [(os & ys & H)|(y & (a & Ha & Hy) & H)]; cbn [acts_libraries] in *; rewrite Hk in *; [destruct H|destruct Ha].
Qed.

Section Complete.
Variable st' : wst qout.
Variable it : item.
Hypothesis HD : Done A st' it.
Hypothesis HF : forall c, In c (w_marks st') -> Fired A st' [it] c.

Lemma comp_lib l e : Chain A it l -> kind_of s l = Some KLibrary -> plus (lib_rel s inside) rec l e -> In e (w_marks st').
Proof.
  intros HC Hk Hp. pose proof (chain_done A st' it l HC HD) as Hd.
  assert (Hdone : forall l', kind_of s l' = Some KLibrary -> Done A st' (IE l') -> forall e', lib_rel s inside l' e' -> In e' (w_marks st')).
  { intros l' Hl' Hd' e' He'. apply done_inv in Hd' as (_ & _ & D3). apply (D3 e' [OOth e'] (if rec then [IE e'] else [])).
    apply (l_lib l' _ Hl'). exists e'. auto. }
  assert (Hcl : rec = true -> forall c e', In c (w_marks st') -> lib_rel s inside c e' -> In e' (w_marks st')).
  { intros Er c e' Hc Hce. destruct (HF c Hc) as (x0 & y & os & ys & [<-|[]] & Hr & Ha & _ & Hy).
    destruct (chain_reach A it l y HC Hr) as [Hr'|(z & E)]; [|rewrite E in Ha; destruct Ha as [E'|[]]; discriminate E'].
    apply (reach_lib l y Hk) in Hr' as (l' & -> & Hl' & _). apply (l_lib l' _ Hl') in Ha as (e0 & He0 & E).
    unfold lmark in E. injection E as Ec _ Ey. subst e0. rewrite Er in Ey. subst ys. rewrite Forall_forall in Hy.
    apply (Hdone c (lib_rel_kind l' c He0) (Hy _ (or_introl eq_refl)) e' Hce). }
  apply plus_cases in Hp as [[Er Hp]|[_ Hp]]; [|apply (Hdone l Hk Hd e Hp)].
  apply t_split_l in Hp as (c & Hlc & Hce). pose proof (Hdone l Hk Hd c Hlc) as Hc.
  apply clos_rt_rtn1 in Hce. induction Hce as [|a b Hab _ IH]; [exact Hc|]. apply (Hcl Er a b IH Hab).
Qed.

Lemma comp_elem x e : Chain A it x -> libsB_code x e -> In e (w_marks st').
Proof.
  intros HC H. unfold libsB_code in H. destruct (kind_of s x) as [[]|] eqn:Hk; try contradiction.
  - apply (comp_lib x e HC Hk H).
  - apply (flat_complete st' x e); [exists x; auto|apply (chain_done A st' it x HC HD)|apply static_def; assumption].
  - destruct H as (d & Hx & H).
    pose proof (home_kind x d Hx) as Hkd.
    apply (flat_complete st' d e); [exists d; auto|apply (chain_done A st' it d (chain_home it x d HC Hx) HD)|apply static_def; assumption].
  - destruct H as (d & Hx & H).
    pose proof (home_kind x d Hx) as Hkd.
    apply (flat_complete st' d e); [exists d; auto|apply (chain_done A st' it d (chain_home it x d HC Hx) HD)|apply static_def; assumption].
  - destruct H as (d & Hx & H).
    pose proof (home_kind x d Hx) as Hkd.
    apply (flat_complete st' d e); [exists d; auto|apply (chain_done A st' it d (chain_home it x d HC Hx) HD)|apply static_def; assumption].
  - destruct H as (d & Hx & H).
    pose proof (home_kind x d Hx) as Hkd.
    apply (flat_complete st' d e); [exists d; auto|apply (chain_done A st' it d (chain_home it x d HC Hx) HD)|apply static_def; assumption].
  - apply (flat_complete st' x e); [exists x; auto|apply (chain_done A st' it x HC HD)|apply static_inst; assumption].
Qed.
End Complete.

Lemma chain_owner it x : item_owner s it x -> Chain A it x.
Proof.
  destruct it as [y|n i| |h]; cbn [item_owner].
  - intros ->. apply chain_here.
  - intros ->. eapply chain_push; [reflexivity|apply chain_here].
  - intros [].
  - intro H. apply (href_item_iff s W) in H. eapply chain_push; [|apply chain_here]. cbn [acts_libraries]. rewrite H. reflexivity.
Qed.

(* a root that emits or marks anything stands for an element *)
Lemma owner_exists it : (exists y, Reach A it y /\ A y <> []) -> exists x, item_owner s it x.
Proof.
  intros (y & Hr & Hy). destruct it as [z|n i| |h]; cbn [item_owner].
  - exists z. reflexivity.
  - exists n. reflexivity.
  - exfalso. apply reach_inv in Hr as [<-|(z & (a & [] & _) & _)]. apply Hy. reflexivity.
  - destruct (href_item s h) as [x|] eqn:Ex; [exists x; apply (href_item_iff s W); exact Ex|].
    exfalso. apply reach_inv in Hr as [<-|(z & (a & Ha & _) & _)]; cbn [acts_libraries] in *; rewrite Ex in *; [apply Hy; reflexivity|destruct Ha].
Qed.

Theorem cands_libraries_code fuel it ps os :
  cands_libraries s fuel [it] rec inside = WOk (ps, os) ->
  (forall e, (exists p, In p ps /\ In e (kids s RLibs p)) <-> reachA_libraries s it e) /\
  (forall e, In e os <-> exists x, item_owner s it x /\ libsB_code x e) /\ NoDup os.
Proof.
  unfold cands_libraries. intro H.
  destruct (wl_run A no_bad fuel [it]) as [l| |] eqn:E; try discriminate H. cbn in H. injection H as <- <-.
  apply run_marks in E as (st' & -> & HD & HM & HE).
  assert (Hoth : forall e, In e (dedup (oths (rev (w_outs st')))) <-> In (OOth e) (w_outs st')).
  { intro e. rewrite dedup_In, in_oths, <- in_rev. tauto. }
  assert (Hpar : forall p, In p (pars (rev (w_outs st'))) <-> In (OPar p) (w_outs st')).
  { intro p. rewrite in_pars, <- in_rev. tauto. }
  assert (Hf : forall c, In c (w_marks st') -> Fired A st' [it] c) by (intros c Hc; apply (HM c Hc)).
  split; [|split]; [intro e|intro e|apply dedup_NoDup].
  - unfold reachA_libraries. split.
    + intros (p & Hp & He). apply Hpar, HE in Hp.
      destruct (owner_exists it) as (x & Hx).
      { destruct Hp as (y & a & Hr & Ha & _). exists y. split; [exact Hr|]. intro E. rewrite E in Ha. destruct Ha. }
      apply (chain_emits A it x _ (chain_owner it x Hx)), par_sound in Hp as [Hk ->].
      exists x. split; [exact Hx|]. split; [exact Hk|apply (kids_par s W); exact He].
    + intros (x & Hx & Hk & He). exists x. split; [|apply (kids_par s W); exact He]. apply Hpar.
      pose proof (chain_done A st' it x (chain_owner it x Hx) HD) as Hd. apply done_inv in Hd as (_ & D2 & _). apply D2.
      cbn [acts_libraries]. rewrite Hk. left. reflexivity.
  - rewrite Hoth. split.
    + intro Ho. apply HE, emits_oth_marks in Ho.
      destruct (owner_exists it) as (x & Hx).
      { destruct Ho as (y & os & ys & Hr & Ha). exists y. split; [exact Hr|]. intro E. rewrite E in Ha. destruct Ha. }
      exists x. split; [exact Hx|]. apply sound_elem. apply (chain_marks A it x e (chain_owner it x Hx)). exact Ho.
    + intros (x & Hx & Hs). pose proof (comp_elem st' it HD Hf x e (chain_owner it x Hx) Hs) as Hin.
      destruct (HM e Hin) as [(x0 & y & os & ys & _ & _ & Ha & Hos & _) _].
      pose proof (mark_shape y e os ys Ha) as ->. apply Hos. left. reflexivity.
Qed.

(* the code agrees with the specification *)
Lemma code_is_spec x e : libsB_code x e <-> libsB_elem s rec inside x e.
Proof.
  unfold libsB_code, libsB_elem. destruct (kind_of s x) as [[]|] eqn:Hk; try tauto.
Qed.

Theorem cands_libraries_spec fuel it ps os :
  cands_libraries s fuel [it] rec inside = WOk (ps, os) ->
  (forall e, (exists p, In p ps /\ In e (kids s RLibs p)) <-> reachA_libraries s it e) /\
  (forall e, In e os <-> reachB_libraries s rec inside it e) /\ NoDup os.
Proof.
  intros H. destruct (cands_libraries_code fuel it ps os H) as (HA & HB & HN). split; [exact HA|split; [|exact HN]].
  intro e. rewrite HB. unfold reachB_libraries.
  split; intros (x & Hx & Hc); exists x; (split; [exact Hx|]); apply (code_is_spec x e); exact Hc.
Qed.

(* the formerly excluded case (recursive was ignored), now as specified: from an instance, OUTSIDE,
   the library of the enclosing definition and, recursive, of every definition above it *)
Theorem libraries_instance_outside_recursive fuel it ps os x :
  cands_libraries s fuel [it] rec inside = WOk (ps, os) ->
  inside = false -> item_owner s it x -> kind_of s x = Some KInstance ->
  forall e, In e os <-> exists p d', par s RChildren x = Some p /\ star (used_by s) rec p d' /\ par s RDefs d' = Some e.
Proof.
  intros H Hi Hx Hk e. destruct (cands_libraries_code fuel it ps os H) as (_ & HB & _). rewrite HB. split.
  - intros (x' & Hx' & Hc). assert (x' = x).
    { destruct it as [y|n i| |h]; cbn [item_owner] in *; try congruence; [contradiction|]. destruct Hx as [_ E1]. destruct Hx' as [_ E2]. congruence. }
    subst x'. unfold libsB_code in Hc. rewrite Hk in Hc. apply (inst_code_out x e Hi). exact Hc.
  - intro Hc. exists x. split; [exact Hx|]. unfold libsB_code. rewrite Hk. apply (inst_code_out x e Hi). exact Hc.
Qed.
End Libs.
