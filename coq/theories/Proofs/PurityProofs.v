(* C16: the EDIF writer's pre-pass is idempotent - a second composition finds the libraries and
   cells already in dependency order (toposort fixpoint, Proofs/EdifTopoProofs.v) and every element
   already carrying its identifier (the assignment loop then changes nothing). *)
From Coq Require Import List Arith Bool Lia.
From SV Require Import Base.Base Names.Edifify Proofs.NamesAssign.
Import ListNotations.

Lemma add_rename_identified i objs :
  (forall j, j < length objs -> exists r, ident_at objs j = Some r) -> add_rename_property i objs = Ok objs.
Proof.
  intro H. unfold add_rename_property. destruct (nth_error objs i) as [e|] eqn:E; [|reflexivity].
  assert (Hi : i < length objs) by (apply nth_error_Some; congruence).
  destruct (H i Hi) as [r Hr]. unfold ident_at in Hr. rewrite E in Hr. rewrite Hr. reflexivity.
Qed.

Lemma assign_from_identified : forall todo k objs,
  (forall j, j < length objs -> exists r, ident_at objs j = Some r) -> assign_from k todo objs = Ok objs.
Proof.
  induction todo as [|t IH]; intros k objs H; cbn; [reflexivity|].
  rewrite (add_rename_identified k objs H). apply IH. exact H.
Qed.

(* composing again assigns nothing new: the identifiers recorded by the first pass are kept *)
Theorem assign_all_idempotent objs out : assign_all objs = Ok out -> assign_all out = Ok out.
Proof.
  intro H. unfold assign_all. apply assign_from_identified.
  intros j Hj. destruct (assign_all_names objs out H) as [Hl _].
  apply (assign_all_assigned objs out j H). rewrite <- Hl. exact Hj.
Qed.

(* an element that already has an identifier is never touched by the writer's pre-pass *)
Theorem add_rename_keeps_existing i objs e r :
  nth_error objs i = Some e -> s_ident e = Some r -> add_rename_property i objs = Ok objs.
Proof. intros H1 H2. unfold add_rename_property. rewrite H1, H2. reflexivity. Qed.
