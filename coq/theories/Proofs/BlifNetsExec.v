(* EBLIF engine, connectivity clause of C18: every statement handler keeps the relation [R]
   between each model and the reading of its section ([exec_R]), and keeps the ports of the reserved
   definitions logic-gate_N ([exec_Q]). *)
From Coq Require Import List Arith NArith Bool Lia Permutation.
From SV Require Import Base.Base Fmt.Blif Fmt.BlifRead Fmt.BlifSpec
  Proofs.BlifBase Proofs.BlifWF Proofs.BlifExec Proofs.BlifNetsBase Proofs.BlifNetsView Proofs.BlifNetsRel
  Proofs.BlifNetsStep Proofs.BlifNetsInst Proofs.BlifNetsConn.
Import ListNotations.

(* what the reading needs of the statement it meets *)
Definition cond (x : stmt) (st : nst) : Prop :=
  match x with
  | SInputs _ => n_bb st = false /\ n_outn st = []
  | SOutputs _ | SSub _ _ _ | SNames _ | SLatch _ | SConn _ _ => n_bb st = false
  | _ => True
  end.

Definition next_bb (b : bool) (x : stmt) : bool :=
  match x with SBlackbox => true | SModel _ => false | _ => b end.

Lemma RX_upd_inst nm c al cur idx f ms st :
  RX nm c al (get_model nm ms) st -> RX nm c al (get_model nm (upd_model cur (upd_inst idx f) ms)) st.
Proof. apply RX_geq. apply geq_upd_inst. Qed.

Lemma step_g_other nm cur x st :
  nm <> cur -> (forall c, x = SModel c -> nm <> c) -> step_g nm cur x st = st.
Proof.
  intros H1 H2. apply str_eqb_false in H1. destruct x; cbn [step_g]; rewrite ?H1; try reflexivity.
  rewrite (proj2 (str_eqb_false nm nm0)); [reflexivity|]. apply H2. reflexivity.
Qed.

(* a field of the model that the reading does not look at *)
Lemma RX_same nm c al m m' st st' :
  m_cables m' = m_cables m -> n_att st' = n_att st -> n_conns st' = n_conns st -> n_bb st' = n_bb st ->
  R nm m' st' -> RX nm c al m st -> RX nm c al m' st'.
Proof. intros E1 E2 E3 E4 HR [_ HN]. split; [exact HR|]. rewrite E1, E2, E3, E4. exact HN. Qed.

Lemma exec_R s x s' nm st :
  J s -> Q (st_models s) -> reserved (s_cur s) = false ->
  exec s x = Ok s' ->
  RX nm (s_cur s) (s_merged s) (get_model nm (st_models s)) st ->
  (nm = s_cur s -> cond x st /\ s_isbb s = n_bb st) ->
  (forall c, x = SModel c -> nm = c -> n_att st = [] /\ n_conns st = []) ->
  RX nm (s_cur s') (s_merged s') (get_model nm (st_models s')) (step_g nm (s_cur s) x st) /\
  s_cur s' = next_c (s_cur s) x /\ s_isbb s' = next_bb (s_isbb s) x.
Proof.
  intros [HI Hh] HQ Hcr H HR Hc Hm. destruct x; cbn [exec] in H; cbn [next_c next_bb].
  - (* comment *) inversion H; subst s'. cbn [step_g]. auto.
  - (* .model *)
    assert (E : s_cur s' = nm0 /\ s_isbb s' = false /\ s_merged s' = [] /\
                st_models s' = upd_model nm0 (fun m => set_defined m true) (ensure_model nm0 (st_models s))).
    { destruct (b_top (s_nl s)); inversion H; subst s'; cbn; auto. }
    destruct E as [E1 [E2 [E4 E3]]]. split; [|split; assumption]. rewrite E1, E3, E4. cbn [step_g].
    apply RX_R in HR. destruct (str_eqb nm nm0) eqn:E.
    + apply str_eqb_spec in E. rewrite <- E. destruct (ensure_model_finds nm (st_models s)) as [m0 Hm0].
      rewrite (get_model_upd_same _ _ _ m0); [|intros y Hy; exact Hy|exact Hm0].
      assert (Em : m0 = get_model nm (st_models s)) by (rewrite <- (get_model_ensure nm (st_models s) nm); symmetry; apply get_model_find; exact Hm0).
      rewrite Em. destruct (Hm nm0 eq_refl E) as [A1 A2].
      destruct HR as [R1 R2 R3 R4 R5 R6 R7 R8]. split; [constructor; auto|].
      intros _ _. cbn [set_def n_att n_conns set_defined m_cables]. rewrite A1, A2, (R7 A1 A2). apply NI_nil.
    + apply str_eqb_false in E. apply RX_other; [exact E|]. rewrite get_model_upd_other; [|intros y Hy; exact Hy|exact E].
      rewrite get_model_ensure. exact HR.
  - (* .inputs *)
    apply bind_ok in H as [ms [H1 H2]]. inversion H2; subst s'. rewrite st_models_set_ms. split; [|split; reflexivity].
    cbn [step_g step_n s_cur s_merged set_ms set_nl]. apply (R_do_inputs _ _ _ _ _ _ _ H1 HR). intro Hn.
    destruct (Hc Hn) as [C _]. cbn [cond] in C. destruct C as [C2 C3]. split; [exact C2|split; [exact C3|rewrite Hn; exact Hcr]].
  - (* .outputs *)
    apply bind_ok in H as [ms [H1 H2]]. inversion H2; subst s'. rewrite st_models_set_ms. split; [|split; reflexivity].
    cbn [step_g step_n s_cur s_merged set_ms set_nl]. apply (R_do_outputs _ _ _ _ _ _ _ _ H1 HR eq_refl).
    intro Hn. destruct (Hc Hn) as [C2 _]. cbn [cond] in C2. split; [exact C2|]. rewrite Hn. exact Hcr.
  - (* .clock *)
    inversion H; subst s'. rewrite st_models_set_ms. split; [|split; reflexivity].
    cbn [s_cur s_merged set_ms set_nl].
    assert (R1 : RX nm (s_cur s) (s_merged s) (get_model nm (upd_model (s_cur s) (fun m => set_clock m (Some (match m_clock m with Some c => c | None => [] end ++ l))) (st_models s))) st).
    { rewrite get_model_upd by (intros y Hy; exact Hy). unfold get_model in HR |- *.
      destruct (find_model nm (st_models s)) as [m|]; [|exact HR]. destruct (str_eqb nm (s_cur s)); [|exact HR].
      apply (RX_same nm _ _ m _ st st); try reflexivity; [|exact HR]. destruct HR as [[R1 R2 R3 R4 R5 R6 R7 R8] _]. constructor; auto. }
    cbn [step_g step_n]. destruct (str_eqb nm (s_cur s)); exact R1.
  - (* .subckt / .gate *)
    destruct (R_sub s gate ref pairs s' nm st Hh) as [G1 [G2 [G3 G4]]]; [cbn [exec]; exact H|exact HR| |].
    + intro Hn. destruct (Hc Hn) as [C2 _]. exact C2.
    + rewrite G2, G4. auto.
  - (* .names *)
    destruct (R_names s nets s' nm st Hh HQ Hcr) as [G1 [G2 [G3 G4]]]; [cbn [exec]; exact H|exact HR| |].
    + intro Hn. destruct (Hc Hn) as [C2 _]. exact C2.
    + rewrite G2, G4. auto.
  - (* cover *)
    unfold upd_cur_inst in H. destruct (s_curinst s); [|discriminate]. inversion H; subst s'. rewrite st_models_set_ms.
    split; [|split; reflexivity]. cbn [step_g step_n s_cur s_merged set_ms set_nl].
    destruct (str_eqb nm (s_cur s)); apply RX_upd_inst; exact HR.
  - (* .latch *)
    destruct (R_latch s toks s' nm st Hh Hcr) as [G1 [G2 [G3 G4]]]; [cbn [exec]; exact H|exact HR| |].
    + intro Hn. destruct (Hc Hn) as [C2 _]. exact C2.
    + rewrite G2, G4. auto.
  - (* .param *)
    unfold upd_cur_inst in H. destruct (s_curinst s); [|discriminate]. inversion H; subst s'. rewrite st_models_set_ms.
    split; [|split; reflexivity]. cbn [step_g step_n s_cur s_merged set_ms set_nl].
    destruct (str_eqb nm (s_cur s)); apply RX_upd_inst; exact HR.
  - (* .cname *)
    destruct (s_curinst s) as [idx|]; [|discriminate]. apply bind_ok in H as [ms1 [H1 H2]]. inversion H2; subst s'.
    rewrite st_models_set_ms. split; [|split; reflexivity]. cbn [s_cur s_merged set_ms set_nl].
    assert (R1 : RX nm (s_cur s) (s_merged s) (get_model nm ms1) st).
    { eapply RX_geq; [eapply geq_set_inst_name; exact H1|]. apply RX_upd_inst. exact HR. }
    cbn [step_g step_n]. destruct (str_eqb nm (s_cur s)); exact R1.
  - (* .attr *)
    unfold upd_cur_inst in H. destruct (s_curinst s); [|discriminate]. inversion H; subst s'. rewrite st_models_set_ms.
    split; [|split; reflexivity]. cbn [step_g step_n s_cur s_merged set_ms set_nl].
    destruct (str_eqb nm (s_cur s)); apply RX_upd_inst; exact HR.
  - (* .conn *)
    destruct (pni a) as [[an ai]|] eqn:Ea; [|discriminate]. cbn [bind] in H.
    destruct (pni b) as [[bn bi]|] eqn:Eb; [|discriminate]. cbn [bind] in H. apply pni_nb in Ea, Eb.
    apply bind_ok in H as [ms [H1 H2]]. inversion H2; subst s'. rewrite st_models_set_merged, st_models_set_ms. split; [|split; reflexivity].
    cbn [step_g step_n s_cur s_merged set_merged set_ms set_nl]. rewrite Ea, Eb. destruct (str_eqb nm (s_cur s)) eqn:E.
    + apply str_eqb_spec in E. subst nm. destruct (Hc eq_refl) as [C1 _]. cbn [cond] in C1.
      destruct (get_model_upd_res_same _ _ _ _ H1) as [m' [G1 [G2 G3]]]; [intros; eapply do_conn_name; eauto|].
      rewrite G2. apply (R_do_conn _ _ _ _ _ _ _ _ _ G1 C1 HR).
    + apply str_eqb_false in E. apply RX_other; [exact E|]. apply RX_R in HR.
      rewrite (get_model_upd_res_other _ _ _ _ nm H1); [exact HR|intros; eapply do_conn_name; eauto|exact E].
  - (* .blackbox *)
    inversion H; subst s'. cbn [st_models s_nl b_models set_models s_cur s_isbb s_merged]. split; [|split; reflexivity].
    cbn [step_g step_n]. rewrite get_model_upd by (intros y Hy; exact Hy).
    destruct (str_eqb nm (s_cur s)) eqn:E.
    + destruct (has_find _ _ Hh) as [m Hm0]. apply str_eqb_spec in E. subst nm. rewrite Hm0.
      apply RX_R in HR. rewrite (get_model_find _ _ _ Hm0) in HR. destruct HR as [R1 R2 R3 R4 R5 R6 R7 R8].
      split; [|cbn [n_bb]; intros _ Hf; discriminate].
      constructor; cbn [n_idx n_ins n_inn n_outn n_att n_conns n_bb n_lib n_def set_cables m_insts m_cables m_lib m_defined]; auto;
        try (intro; discriminate).
    + apply str_eqb_false in E. apply RX_other; [exact E|]. apply RX_R in HR.
      unfold get_model in HR |- *. destruct (find_model nm (st_models s)); exact HR.
  - (* .end *)
    destruct (m_lib (cur_model s)) eqn:El; try discriminate. inversion H; subst s'. clear H.
    cbn [st_models s_nl b_models set_nl s_cur s_isbb s_merged]. split; [|split; reflexivity].
    cbn [step_g step_n]. rewrite get_model_upd by (intros y Hy; exact Hy).
    destruct (str_eqb nm (s_cur s)) eqn:E.
    + destruct (has_find _ _ Hh) as [m Hm0]. apply str_eqb_spec in E. subst nm. unfold st_models in Hm0. rewrite Hm0.
      destruct (Hc eq_refl) as [_ C2]. unfold st_models in HR. rewrite (get_model_find _ _ _ Hm0) in HR.
      apply (RX_same _ _ _ m _ st); try reflexivity; [|exact HR]. destruct HR as [[R1 R2 R3 R4 R5 R6 R7 R8] _].
      constructor; cbn [n_idx n_ins n_inn n_outn n_att n_conns n_bb n_lib n_def set_lib m_insts m_cables m_lib m_defined]; auto.
      rewrite C2. reflexivity.
    + apply str_eqb_false in E. apply RX_other; [exact E|]. apply RX_R in HR.
      unfold get_model, st_models in HR |- *. destruct (find_model nm (b_models (s_nl s))); exact HR.
  - discriminate.
Qed.

(* ====================================================================== models a statement does not name *)
Lemma geq_fold {X} (f : result (list model) -> X -> result (list model)) nm l :
  (forall e x, f (Error e) x = Error e) ->
  (forall ms x ms', f (Ok ms) x = Ok ms' -> geq (get_model nm ms) (get_model nm ms')) ->
  forall ms ms', fold_left f l (Ok ms) = Ok ms' -> geq (get_model nm ms) (get_model nm ms').
Proof.
  intros He Hs ms ms' H.
  apply (fold_res_inv f (fun b => geq (get_model nm ms) (get_model nm b)) He) with (l := l) (a := ms) (a' := ms'); auto.
  - intros b x b' Hb Hf. eapply geq_trans; [exact Hb|eapply Hs; exact Hf].
  - apply geq_refl.
Qed.

Lemma geq_do_input al cur ms tok ms' nm :
  do_input al cur (Ok ms) tok = Ok ms' -> nm <> cur -> geq (get_model nm ms) (get_model nm ms').
Proof.
  intros H E. unfold do_input in H. cbn [bind] in H. destruct (pni tok) as [[p i]|]; [|discriminate]. cbn [bind] in H.
  destruct (input_io cur p ms).
  { inversion H; subst. eapply geq_trans; [|apply geq_grow_port].
    rewrite get_model_upd_other; [apply geq_refl|intros x Hx; exact Hx|exact E]. }
  rewrite (get_model_upd_res_other _ _ _ _ nm H); [|intros; eapply connect_to_name; eauto|exact E].
  eapply geq_trans; [|apply geq_grow_port]. destruct (find_port _ _).
  - rewrite get_model_upd_other; [apply geq_refl|intros x Hx; exact Hx|exact E].
  - apply geq_add_port_other. exact E.
Qed.

Lemma geq_do_output al cur ms tok ms' nm :
  do_output al cur (Ok ms) tok = Ok ms' -> nm <> cur -> geq (get_model nm ms) (get_model nm ms').
Proof.
  intros H E. unfold do_output in H. cbn [bind] in H. destruct (pni tok) as [[p i]|]; [|discriminate]. cbn [bind] in H.
  set (ms1 := match find_port _ _ with None => _ | Some _ => ms end) in H.
  set (ms2 := upd_model cur _ ms1) in H.
  assert (G : geq (get_model nm ms) (get_model nm (grow_port cur p (S i) ms2))).
  { eapply geq_trans; [|apply geq_grow_port]. unfold ms2.
    rewrite get_model_upd_other; [|intros x Hx; exact Hx|exact E].
    unfold ms1. destruct (find_port _ _); [apply geq_refl|apply geq_add_port_other; exact E]. }
  destruct (_ || _).
  - inversion H; subst ms'. exact G.
  - rewrite (get_model_upd_res_other _ _ _ _ nm H); [exact G|intros; eapply connect_to_name; eauto|exact E].
Qed.

Lemma geq_do_pairs ref pairs nm : forall a a',
  fold_left (do_pair ref) pairs (Ok a) = Ok a' -> nm <> ref -> geq (get_model nm (fst a)) (get_model nm (fst a')).
Proof.
  intros a a' H E.
  apply (fold_res_inv (do_pair ref) (fun b => geq (get_model nm (fst a)) (get_model nm (fst b)))) with (l := pairs) (a := a) (a' := a'); auto.
  - intros [ms info] tok [ms' info'] Hb Hf. eapply geq_trans; [exact Hb|]. cbn [fst]. clear Hb.
    unfold do_pair in Hf. cbn [bind] in Hf. destruct (split_eq tok) as [formal actual].
    destruct (pni formal) as [[p i]|]; [|discriminate]. cbn [bind] in Hf.
    set (ms1 := match find_port _ _ with None => _ | Some _ => ms end) in Hf.
    assert (G : geq (get_model nm ms) (get_model nm ms1)).
    { unfold ms1. destruct (find_port _ _); [apply geq_refl|apply geq_add_port_other; exact E]. }
    destruct (Nat.leb _ _); inversion Hf; subst; [|exact G].
    eapply geq_trans; [exact G|apply geq_grow_port].
  - apply geq_refl.
Qed.

Lemma geq_conn_one al cur ref idx ms fa ms' nm :
  conn_one al cur ref idx (Ok ms) fa = Ok ms' -> nm <> cur -> geq (get_model nm ms) (get_model nm ms').
Proof.
  intros H E. unfold conn_one in H. cbn [bind] in H.
  destruct (pni (snd fa)) as [[c k]|]; [|discriminate]. cbn [bind] in H.
  destruct (pni (fst fa)) as [[p i]|]; [|discriminate]. cbn [bind] in H.
  destruct (str_eqb c k_unconn).
  - inversion H; subst ms'. apply geq_upd_inst.
  - destruct (find_port _ _); [|discriminate].
    rewrite (get_model_upd_res_other _ _ _ _ nm H); [apply geq_grow_port|intros; eapply connect_to_name; eauto|exact E].
Qed.

Lemma geq_inst_tail s ref k nm0 info ms s' nm :
  finish_inst s ref (length (m_insts (get_model (s_cur s) ms))) nm0 info (add_child (s_cur s) ref k ms) = Ok s' ->
  nm <> s_cur s -> geq (get_model nm ms) (get_model nm (st_models s')).
Proof.
  intros H E. unfold finish_inst in H.
  destruct (match nm0 with Some x => _ | None => _ end) as [name tbl].
  apply bind_ok in H as [ms1 [H1 H]]. apply bind_ok in H as [ms2 [H2 H]]. inversion H; subst s'. clear H.
  cbn [st_models s_nl b_models set_models].
  eapply geq_trans; [|apply (geq_fold (conn_one (s_merged s) (s_cur s) ref (length (m_insts (get_model (s_cur s) ms)))) nm info); [reflexivity| |exact H2]].
  - eapply geq_trans; [|eapply geq_set_inst_name; exact H1]. rewrite get_model_add_child_other; [apply geq_refl|exact E].
  - intros a x a' A. eapply geq_conn_one; eauto.
Qed.

Definition okstmt (x : stmt) : Prop :=
  match x with
  | SModel c => reserved c = false
  | SSub _ r _ => reserved r = false
  | _ => True
  end.

(* the statement leaves the model [nm] alone: not current, not declared, not instantiated by it *)
Definition aside (nm : str) (x : stmt) : Prop :=
  match x with
  | SModel c => nm <> c
  | SSub _ r _ => nm <> r
  | SNames nets => nm <> k_logic_gate ++ dec (length nets - 1)
  | SLatch _ => nm <> k_latch_def
  | _ => True
  end.

Lemma exec_other s x s' nm :
  exec s x = Ok s' -> nm <> s_cur s -> aside nm x ->
  geq (get_model nm (st_models s)) (get_model nm (st_models s')).
Proof.
  intros H E Ha. destruct x; cbn [exec] in H; cbn [aside] in Ha.
  - inversion H; subst s'. apply geq_refl.
  - assert (E3 : st_models s' = upd_model nm0 (fun m => set_defined m true) (ensure_model nm0 (st_models s))).
    { destruct (b_top (s_nl s)); inversion H; subst s'; cbn; auto. }
    rewrite E3, get_model_upd_other; [|intros y Hy; exact Hy|exact Ha]. rewrite get_model_ensure. apply geq_refl.
  - apply bind_ok in H as [ms [H1 H2]]. inversion H2; subst s'. rewrite st_models_set_ms.
    apply (geq_fold (do_input (s_merged s) (s_cur s)) nm l); [reflexivity| |exact H1]. intros a x a' A. eapply geq_do_input; eauto.
  - apply bind_ok in H as [ms [H1 H2]]. inversion H2; subst s'. rewrite st_models_set_ms.
    apply (geq_fold (do_output (s_merged s) (s_cur s)) nm l); [reflexivity| |exact H1]. intros a x a' A. eapply geq_do_output; eauto.
  - inversion H; subst s'. rewrite st_models_set_ms. rewrite get_model_upd_other; [apply geq_refl|intros y Hy; exact Hy|exact E].
  - apply bind_ok in H as [s1 [H1 H]]. destruct (check_hierarchy_models _ _ _ H1) as [E1 E2].
    apply bind_ok in H as [[ms1 info] [H2 H]].
    pose proof (geq_do_pairs _ _ nm _ _ H2 Ha) as G1. cbn [fst] in G1. rewrite get_model_ensure, E1 in G1.
    eapply geq_trans; [exact G1|]. eapply geq_inst_tail; [exact H|]. rewrite E2. exact E.
  - destruct (rev nets) as [|lastnet _]; [discriminate|].
    eapply geq_trans; [|eapply geq_inst_tail; [exact H|exact E]].
    eapply geq_trans; [|apply (geq_fold_ensure_port_other _ (fun q => q)); exact Ha]. rewrite get_model_ensure. apply geq_refl.
  - unfold upd_cur_inst in H. destruct (s_curinst s); [|discriminate]. inversion H; subst s'. rewrite st_models_set_ms. apply geq_upd_inst.
  - set (ms0 := ensure_model k_latch_def (st_models s)) in *.
    set (ms1 := match m_ports (get_model k_latch_def ms0) with [] => _ | _ => ms0 end) in H.
    assert (G : geq (get_model nm (st_models s)) (get_model nm ms1)).
    { unfold ms1. destruct (m_ports (get_model k_latch_def ms0)).
      - eapply geq_trans; [|apply (geq_fold_ensure_port_other _ (fun kv : str * str => latch_port (fst kv))); exact Ha].
        unfold ms0. rewrite get_model_ensure. apply geq_refl.
      - unfold ms0. rewrite get_model_ensure. apply geq_refl. }
    destruct (sassoc k_output _); [|discriminate].
    eapply geq_trans; [exact G|]. eapply geq_inst_tail; [exact H|exact E].
  - unfold upd_cur_inst in H. destruct (s_curinst s); [|discriminate]. inversion H; subst s'. rewrite st_models_set_ms. apply geq_upd_inst.
  - destruct (s_curinst s) as [idx|]; [|discriminate]. apply bind_ok in H as [ms1 [H1 H2]]. inversion H2; subst s'.
    rewrite st_models_set_ms. eapply geq_trans; [apply geq_upd_inst|eapply geq_set_inst_name; exact H1].
  - unfold upd_cur_inst in H. destruct (s_curinst s); [|discriminate]. inversion H; subst s'. rewrite st_models_set_ms. apply geq_upd_inst.
  - destruct (pni a) as [[an ai]|]; [|discriminate]. cbn [bind] in H.
    destruct (pni b) as [[bn bi]|]; [|discriminate]. cbn [bind] in H.
    apply bind_ok in H as [ms [H1 H2]]. inversion H2; subst s'. rewrite st_models_set_merged, st_models_set_ms.
    rewrite (get_model_upd_res_other _ _ _ _ nm H1); [apply geq_refl|intros; eapply do_conn_name; eauto|exact E].
  - inversion H; subst s'. cbn [st_models s_nl b_models set_models].
    rewrite get_model_upd_other; [apply geq_refl|intros y Hy; exact Hy|exact E].
  - destruct (m_lib (cur_model s)); try discriminate. inversion H; subst s'. cbn [st_models s_nl b_models set_nl].
    rewrite get_model_upd_other; [apply geq_refl|intros y Hy; exact Hy|exact E].
  - discriminate.
Qed.

Lemma exec_Q s x s' :
  Q (st_models s) -> reserved (s_cur s) = false -> okstmt x -> exec s x = Ok s' -> Q (st_models s').
Proof.
  intros HQ Hcr Hok H k. cbn zeta. set (r := k_logic_gate ++ dec k).
  assert (Hrc : r <> s_cur s) by (intro E; rewrite <- E in Hcr; unfold r in Hcr; rewrite reserved_lg in Hcr; discriminate).
  assert (Hother : aside r x -> m_ports (get_model r (st_models s')) = [] \/
                               map p_name (m_ports (get_model r (st_models s'))) = names_port_names k).
  { intro Ha. pose proof (exec_other _ _ _ r H Hrc Ha) as G. pose proof (geq_names _ _ G) as Hn. destruct (HQ k) as [E|E]; fold r in E.
    - left. rewrite E in Hn. cbn in Hn. destruct (m_ports _); [reflexivity|discriminate].
    - right. rewrite Hn. exact E. }
  destruct x; try (apply Hother; exact I).
  - apply Hother. cbn [aside]. intro E. cbn [okstmt] in Hok. rewrite <- E in Hok. unfold r in Hok. rewrite reserved_lg in Hok. discriminate.
  - apply Hother. cbn [aside]. intro E. cbn [okstmt] in Hok. rewrite <- E in Hok. unfold r in Hok. rewrite reserved_lg in Hok. discriminate.
  - destruct (Nat.eq_dec k (length nets - 1)) as [Ek|Ek].
    + right. cbn [exec] in H. destruct (rev nets) as [|lastnet _]; [discriminate|].
      rewrite <- Ek in H. fold r in H.
      pose proof (geq_inst_tail _ _ _ _ _ _ _ r H Hrc) as G. rewrite (geq_names _ _ G).
      apply (names_after_fold k _ HQ).
    + apply Hother. cbn [aside]. intro E. apply Ek. apply lg_inj. exact E.
  - apply Hother. cbn [aside]. apply lg_not_latch.
Qed.

